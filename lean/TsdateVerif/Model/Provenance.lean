/-
Model of provenance recording in tsdate (property C33).

Code being modelled (abbreviated):

  provenance.py
    def get_provenance_dict(command, start_time=None, **kwargs):
        parameters = dict(kwargs); parameters["command"] = command
        return {"schema_version": ..., "software": {...}, "parameters": parameters, "environment": ..., "resources": ...}
    def record_provenance(tables, command=None, start_time=None, **kwargs):
        record = get_provenance_dict(command=command, start_time=start_time, **kwargs)
        tables.provenances.add_row(record=json.dumps(record, default=_json_default))   # numpy values -> .tolist()

  core.py
    EstimationMethod.__init__:   if record_provenance is None: record_provenance = True
                                 self.provenance_params = None
                                 if record_provenance:
                                     self.provenance_params = dict(mutation_rate=..., recombination_rate=..., time_units=...,
                                                                   progress=..., population_size=<as_dict() or as given>,
                                                                   constr_iterations=..., min_branch_length=...,
                                                                   allow_unary=..., set_metadata=...)
    XMethod.run(self, <run params>):
                                 if self.provenance_params is not None:
                                     self.provenance_params.update({k: v for k, v in locals().items() if k != "self"})
    get_modified_ts:             tables = ts.dump_tables() ... (no tskit call that records)
                                 if self.provenance_params is not None:
                                     provenance.record_provenance(tables, self.name, self.start_time, **self.provenance_params)
    variational_gamma(...) etc.: `if x is None: x = DEFAULT` for each run parameter, then
                                 dating_method.run(k=k, ...); return dating_method.parse_result(result)

  util.py
    preprocess_ts: split_disjoint None->True; record_provenance None->True; remove_telomeres -> erase_flanks;
                   if delete_intervals is None: minimum_gap None->1000000; erase_flanks None->True; delete_intervals := computed
                   tables.delete_intervals(..., record_provenance=False); tables.simplify(..., record_provenance=False)
                   split_disjoint_nodes(..., record_provenance=False)
                   if record_provenance: provenance.record_provenance(tables, "preprocess_ts", start_time=..., minimum_gap=..., ..., **kwargs)

The provenance table is a list of records; every operation that can touch it is an *append*
performed or not according to a flag.  A call path is the list of provenance-affecting call sites
it executes (`Site`, produced by translate/provparams.py from the source).
-/

namespace Tsdate.Provenance

/-- How a site decides whether it appends a row. -/
inductive Flag where
  | constTrue               -- unconditional / `record_provenance=True`
  | constFalse              -- `record_provenance=False`
  | user                    -- guarded by the caller's `record_provenance` (or `provenance_params is not None`)
  | absent                  -- tskit method called without `record_provenance=`: tskit's default is to record
  | other (src : String)    -- anything the translator cannot classify
deriving DecidableEq, Repr

structure Site where
  entry : String            -- public entry point whose call path reaches the site
  fn : String               -- enclosing function
  kind : String             -- "record" | "addrow" | "lib:<tskit method>" | "callee:<tsdate function>"
  flag : Flag
  guards : List String
deriving DecidableEq, Repr

/-- Does the site append a row when the caller's flag is `user`?  `none` = not determined. -/
def Flag.fires (user : Bool) : Flag → Option Bool
  | .constTrue => some true
  | .constFalse => some false
  | .user => some user
  | .absent => some true
  | .other _ => none

/-- `record_provenance` as the caller gives it: `True`, `False`, or `None`/omitted, which every public
entry point documents as "treated as True" (`if record_provenance is None: record_provenance = True`). -/
def resolveFlag : Option Bool → Bool
  | some b => b
  | none => true

/-- Execute a call path on a provenance table: every site that fires appends the row `mk s`. -/
def execPath {R : Type} (user : Bool) (mk : Site → R) : List R → List Site → Option (List R)
  | prov, [] => some prov
  | prov, s :: rest =>
    match s.flag.fires user with
    | none => none
    | some true => execPath user mk (prov ++ [mk s]) rest
    | some false => execPath user mk prov rest

def Site.isRecord (s : Site) : Bool := s.kind == "record"

/-- Static well-formedness of the sites of one entry point: record sites are guarded by the user's
flag, every other site that could append is switched off by a literal `False`; the only
`provenances.add_row` is the one inside `provenance.record_provenance`. -/
def sitesOk (sites : List Site) : Bool :=
  sites.all (fun s =>
    if s.kind == "record" then s.flag == Flag.user
    else if s.kind == "addrow" then s.fn == "provenance.record_provenance" && s.flag == Flag.constTrue
    else s.flag == Flag.constFalse)

/-- The sites a run can execute as operations on the table (`addrow` is the body of `record`). -/
def opSites (sites : List Site) : List Site := sites.filter (fun s => s.kind != "addrow")

/-! ### parameter values and the `parameters` dictionary -/

inductive PVal where
  | none
  | bool (b : Bool)
  | int (i : Int)
  | flt (hex : String)          -- float, as text (never computed with)
  | str (s : String)
  | json (text : String)        -- any other JSON value (lists, dicts), canonical text
deriving DecidableEq, Repr, Inhabited

structure MethodInfo where
  name : String
  cls : String
  fnParams : List String
  fnVarKw : Bool
  runParams : List String
  runRecordsLocals : Bool
  runMap : List (String × String)         -- run keyword -> local name in the method function
  ctorMap : List (String × String)
  ctorVarKw : Bool
  defaults : List (String × PVal)         -- `if x is None: x = <const>`
deriving DecidableEq, Repr

abbrev Dict := List (String × PVal)

def dget (k : String) : Dict → Option PVal
  | [] => none
  | (k', v) :: r => if k' = k then some v else dget k r

/-- `d[k] = v` -/
def dset (k : String) (v : PVal) : Dict → Dict
  | [] => [(k, v)]
  | (k', v') :: r => if k' = k then (k, v) :: r else (k', v') :: dset k v r

/-- `d.update(kvs)` -/
def dupdate (d : Dict) (kvs : Dict) : Dict := kvs.foldl (fun d kv => dset kv.1 kv.2 d) d

def lookupD (k : String) (l : List (String × String)) : String :=
  match l.find? (fun p => p.1 == k) with
  | some p => p.2
  | none => k

/-- The value a method function hands to `run` for local `x`: the caller's value, or the default
constant when the caller passed `None`. -/
def resolve (mi : MethodInfo) (passed : String → PVal) (x : String) : PVal :=
  match passed x, dget x mi.defaults with
  | PVal.none, some d => d
  | v, _ => v

/-- `parameters` of the record written by a dating call: `dict(<init keys>)`, then
`.update(<run locals>)`, then `["command"] = name`.  `normPop` is what `__init__` does to
`population_size` (`as_dict()` of a `PopulationSizeHistory`, identity otherwise). -/
def dateParameters (initKeys : List String) (mi : MethodInfo) (passed : String → PVal)
    (normPop : PVal → PVal) : Dict :=
  let init : Dict := initKeys.map (fun k => (k, if k = "population_size" then normPop (passed k) else passed k))
  let run : Dict := mi.runParams.map (fun k => (k, resolve mi passed (lookupD k mi.runMap)))
  dset "command" (PVal.str mi.name) (dupdate (dupdate [] init) run)

/-- The value of local `x` of `preprocess_ts` at the point where the record is written (defaults
resolved as in the function body; `computed` is the interval list the function derives when
`delete_intervals` is not given). -/
def preprocessLocal (passed : String → PVal) (computed : PVal) (x : String) : PVal :=
  let given := passed "delete_intervals" != PVal.none
  let erase0 := if passed "remove_telomeres" != PVal.none && passed "erase_flanks" == PVal.none
                then passed "remove_telomeres" else passed "erase_flanks"
  if x = "split_disjoint" then (if passed x == PVal.none then PVal.bool true else passed x)
  else if x = "minimum_gap" then (if !given && passed x == PVal.none then PVal.int 1000000 else passed x)
  else if x = "erase_flanks" then (if !given && erase0 == PVal.none then PVal.bool true else erase0)
  else if x = "delete_intervals" then (if given then passed x else computed)
  else passed x

/-- `parameters` of the `preprocess_ts` record: `dict(kw=<local>, ..., **kwargs)` then
`["command"] = "preprocess_ts"`.  `extraKeys`/`extraVal` are the caller's `**kwargs` (forwarded to
`simplify`), recorded only if the source passes them on (`recordsVarKw`). -/
def preprocessParameters (recorded : List (String × String)) (recordsVarKw : Bool)
    (passed : String → PVal) (computed : PVal) (extraKeys : List String) (extraVal : String → PVal) : Dict :=
  let named : Dict := recorded.map (fun kv => (kv.1, preprocessLocal passed computed kv.2))
  let extra : Dict := if recordsVarKw then extraKeys.map (fun k => (k, extraVal k)) else []
  dset "command" (PVal.str "preprocess_ts") (dupdate (dupdate [] named) extra)

end Tsdate.Provenance
