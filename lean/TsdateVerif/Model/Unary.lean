/-
Model of the two unary-node detectors.

1. `tsdate.util._contains_unary_nodes` (numba; used by `variational_gamma` through
   `ExpectationPropagation._check_valid_inputs`, with the sample nodes masked).  Kernel-specific parts
   of the shared sweep (skeleton in Model/Sweep.lean):

       nodes_children = zeros(num_nodes, int32)
       ...
           check = set()
           # edges out:  p = edges_parent[e]; nodes_children[p] -= 1; check.add(p)
           # edges in:   p = edges_parent[e]; nodes_children[p] += 1; check.add(p)
           for p in check:
               if not nodes_mask[p] and nodes_children[p] == 1:
                   return True
           ...
       return False

   `check` is a list here (the test is an `any`, so order and duplicates do not matter); the `int32`
   counters are `Int` (they stay within `0 … num_edges`).

2. `tsdate.prior.has_locally_unary_nodes` (pure Python on tskit iterators; used by the discrete-time
   methods through `SpansBySamples`):

       for tree, ediff in zip(ts.trees(), ts.edge_diffs()):
           changed = {e.parent for edges in (ediff.edges_out, ediff.edges_in) for e in edges}
           if (tree.num_children_array[list(changed)] == 1).any(): return True
       return False

   tskit is taken by contract: the tree at left end `x` has `edges_out` = edges with `right = x`,
   `edges_in` = edges with `left = x`, and `num_children_array[p]` = number of edges with parent `p`
   covering `x`.  So a parent is tested at `x` exactly when `x` is an end point of one of its edges;
   the model tests every edge's parent at both of the edge's end points.
-/
import TsdateVerif.Model.Sweep

namespace Tsdate.Unary
open Tsdate Tsdate.Sweep

/-- Mutable state of `_contains_unary_nodes`. -/
structure St where
  children : Array Int
  check : List Nat
  found : Bool

section Kernel
variable {α : Type} [Inhabited α]

def bump (T : Tables α) (d : Int) (s : St) (e : Nat) : St :=
  let p := T.par e
  { s with children := aset s.children p (aget s.children p + d), check := p :: s.check }

/-- `for p in check: if not nodes_mask[p] and nodes_children[p] == 1: return True` -/
def test (mask : Array Bool) (s : St) : St :=
  { s with found := s.check.any fun p => !aget mask p && aget s.children p == 1 }

def hooks (T : Tables α) (mask : Array Bool) : Hooks α St where
  head := fun _ s => { s with check := [] }
  remove := fun _ s e => bump T (-1) s e
  insert := fun _ s e => bump T 1 s e
  mid := fun _ s => test mask s
  stop := fun s => s.found
  tail := fun _ s => s

/-- `_contains_unary_nodes` (`none`: the sweep did not terminate). -/
def containsUnary [BEq α] [Min α] [OfNat α 0] (T : Tables α) (mask : Array Bool) (numNodes : Nat) :
    Option Bool :=
  (sweep T (hooks T mask) { children := Array.replicate numNodes 0, check := [], found := false }).map
    (·.found)

/-- `tskit.NODE_IS_SAMPLE` is bit 0 of the node's `flags` word; every other bit (msprime's
`NODE_IS_RE_EVENT`/`NODE_IS_CA_EVENT`, tsinfer's path-compression flags, `NODE_SPLIT_BY_PREPROCESS`, user
bits) is irrelevant for being a sample. -/
def sampleBit (flags : Nat) : Bool := flags % 2 == 1

/-- The mask `util.contains_unary_nodes(ts, skip_samples)` builds:

    nodes_mask = np.full(ts.num_nodes, False)
    if skip_samples:
        nodes_mask[list(ts.samples())] = True

(`ts.samples()` = the nodes whose flags have bit 0 set). -/
def wrapperMask (flags : Array Nat) (skipSamples : Bool) : Array Bool :=
  flags.map fun f => skipSamples && sampleBit f

/-- `util.contains_unary_nodes(ts, skip_samples)`: the flags column decides the mask, `num_nodes` is
its length. -/
def containsUnaryNodes [BEq α] [Min α] [OfNat α 0] (T : Tables α) (flags : Array Nat)
    (skipSamples : Bool) : Option Bool :=
  containsUnary T (wrapperMask flags skipSamples) flags.size

end Kernel

section Spec
variable {α : Type} [Inhabited α] [LT α] [LE α] [DecidableLT α] [DecidableLE α]

/-- number of children of node `p` in the local tree at `pos` -/
def numChildrenAt (T : Tables α) (pos : α) (p : Nat) : Nat :=
  (List.range T.numEdges).countP fun e =>
    T.par e == p && (decide (T.l e ≤ pos) && decide (pos < T.r e))

/-- `has_locally_unary_nodes` under tskit's contract for `trees()` / `edge_diffs()`. -/
def hasLocallyUnary (T : Tables α) : Bool :=
  (List.range T.numEdges).any fun e =>
    numChildrenAt T (T.l e) (T.par e) == 1 || numChildrenAt T (T.r e) (T.par e) == 1

end Spec

end Tsdate.Unary
