/-
The sort keys of `edges_by_child_desc` and `edges_by_child_then_parent_desc` produce valid grouped
orders for every valid tree sequence (used by Props/C11 and, through it, Props/C13).
-/
import Mathlib.Order.Basic
import Mathlib.Data.Prod.Lex
import Mathlib.Tactic.SplitIfs
import Mathlib.Tactic.Order
import TsdateVerif.Proofs.Order

namespace Tsdate.Order
open Tsdate
set_option linter.unusedSectionVars false
set_option linter.unusedVariables false

/-! ### runs of a key-sorted list -/

section RunsSorted
variable {ε : Type}

theorem runsBy_head (key : ε → Nat) (e : ε) (es : List ε) :
    ∃ g gs, runsBy key (e :: es) = g :: gs ∧ ghead key g = key e := by
  rcases runsBy_cons_cases key e es with ⟨_, h2⟩ | ⟨g0, gs, _, _, _, h2⟩ | ⟨g0, gs, _, _, h2⟩
  · exact ⟨[e], [], h2, rfl⟩
  · exact ⟨e :: g0, gs, h2, rfl⟩
  · exact ⟨[e], _, h2, rfl⟩

theorem heads_from_elements (key : ε → Nat) (es : List ε) :
    ∀ h ∈ (runsBy key es).map (ghead key), ∃ x ∈ es, key x = h := by
  intro h hh
  obtain ⟨g, hg, rfl⟩ := List.mem_map.mp hh
  obtain ⟨y, ys, rfl⟩ := List.exists_cons_of_ne_nil (runsBy_ne_nil key es g hg)
  refine ⟨y, ?_, rfl⟩
  rw [← runsBy_flatten key es]
  exact List.mem_flatten.mpr ⟨_, hg, List.mem_cons_self ..⟩

/-- **In a list sorted by an injective function of the key, equal keys are adjacent**: every key
heads exactly one `groupby` run. -/
theorem runs_nodup_of_sorted {γ : Type} [LinearOrder γ] (key : ε → Nat) (f : Nat → γ)
    (hf : Function.Injective f) (es : List ε)
    (hs : es.Pairwise (fun a b => f (key a) ≤ f (key b))) :
    ((runsBy key es).map (ghead key)).Nodup := by
  induction es with
  | nil => simp [runsBy]
  | cons e es ih =>
    rw [List.pairwise_cons] at hs
    have ih' := ih hs.2
    rcases runsBy_cons_cases key e es with ⟨_, h2⟩ | ⟨g0, gs, h1, _, hk, h2⟩ | ⟨g0, gs, h1, hne, h2⟩
    · rw [h2]; simp
    · rw [h2]
      rw [h1] at ih'
      rw [List.map_cons] at ih' ⊢
      have : ghead key (e :: g0) = ghead key g0 := by rw [hk]; rfl
      rw [this]; exact ih'
    · have hg0 : g0 ≠ [] := runsBy_ne_nil key es g0 (by rw [h1]; exact List.mem_cons_self ..)
      rw [h2, if_neg hg0, ← h1, List.map_cons, List.nodup_cons]
      refine ⟨?_, ih'⟩
      intro hmem
      obtain ⟨x, hx, hkx⟩ := heads_from_elements key es _ hmem
      have hkx' : key x = key e := hkx
      -- the first element of `es`
      cases es with
      | nil => cases hx
      | cons b0 es' =>
        obtain ⟨g, gs', hr, hgh⟩ := runsBy_head key b0 es'
        rw [h1] at hr
        have hg : g0 = g := (List.cons.inj hr).1
        have h01 : f (key e) ≤ f (key b0) := hs.1 b0 (List.mem_cons_self ..)
        have h02 : f (key b0) ≤ f (key x) := by
          rcases List.mem_cons.mp hx with rfl | hx'
          · exact le_rfl
          · exact (List.pairwise_cons.mp hs.2).1 x hx'
        rw [hkx'] at h02
        have : key b0 = key e := hf (le_antisymm h02 h01)
        rcases hne with h | h
        · exact hg0 h
        · apply h; rw [hg, hgh, this]

theorem runsBy_map {ι : Type} (m : ι → ε) (key : ε → Nat) (l : List ι) :
    runsBy key (l.map m) = (runsBy (fun i => key (m i)) l).map (List.map m) := by
  induction l with
  | nil => simp [runsBy]
  | cons i l ih =>
    simp only [List.map_cons, runsBy, ih]
    cases h : runsBy (fun i => key (m i)) l with
    | nil => simp
    | cons g gs =>
      cases g with
      | nil => simp
      | cons i' g' =>
        simp only [List.map_cons]
        split_ifs <;> simp

theorem ghead_map {ι : Type} (m : ι → ε) (key : ε → Nat) (g : List ι) :
    ghead key (g.map m) = ghead (fun i => key (m i)) g := by
  cases g <;> rfl

end RunsSorted

/-! ### descending / ascending time gives `FlatDone` -/

section Flat
variable {ε : Type} {α : Type} [LinearOrder α]

/-- outside pass / maximization: destinations (children) in non-increasing time, every source
(parent) strictly older than its destination -/
theorem flatDone_of_desc (key src : ε → Nat) (time : Nat → α) (es : List ε)
    (hs : es.Pairwise (fun a b => time (key b) ≤ time (key a)))
    (hval : ∀ e ∈ es, time (key e) < time (src e)) : FlatDone key src es := by
  refine ⟨?_, fun e he h => absurd (hval e he) (by rw [h]; exact lt_irrefl _)⟩
  apply List.Pairwise.imp_of_mem _ hs
  intro a b ha _ hab hcon
  have := hval a ha
  rw [← hcon] at this
  exact absurd (lt_of_lt_of_le this hab) (lt_irrefl _)

/-- inside pass: destinations (parents) in non-decreasing time, every source (child) strictly
younger than its destination -/
theorem flatDone_of_asc (key src : ε → Nat) (time : Nat → α) (es : List ε)
    (hs : es.Pairwise (fun a b => time (key a) ≤ time (key b)))
    (hval : ∀ e ∈ es, time (src e) < time (key e)) : FlatDone key src es := by
  refine ⟨?_, fun e he h => absurd (hval e he) (by rw [h]; exact lt_irrefl _)⟩
  apply List.Pairwise.imp_of_mem _ hs
  intro a b ha _ hab hcon
  have := hval a ha
  rw [← hcon] at this
  exact absurd (lt_of_le_of_lt hab this) (lt_irrefl _)

end Flat

/-! ### the comparators are total preorders; what sortedness gives -/

section Keys
variable {α : Type} [Inhabited α] [LinearOrder α]

theorem lex2_iff (ti tj : α) (ci cj : Nat) :
    (if tj < ti then true else if ti < tj then false else decide (ci ≤ cj)) = true
      ↔ tj < ti ∨ ti = tj ∧ ci ≤ cj := by
  rcases lt_trichotomy ti tj with h | h | h
  · simp [h, not_lt.mpr (le_of_lt h), ne_of_lt h]
  · subst h; simp
  · simp [h]

theorem lex3_iff (ti tj pi pj : α) (ci cj : Nat) :
    (if ti < tj then true else if tj < ti then false else if ci < cj then true
      else if cj < ci then false else if pj < pi then true else if pi < pj then false else true) = true
    ↔ ti < tj ∨ ti = tj ∧ (ci < cj ∨ ci = cj ∧ pj ≤ pi) := by
  rcases lt_trichotomy ti tj with h | h | h
  · simp [h]
  · subst h
    simp only [lt_irrefl, if_false, true_and, false_or]
    rcases lt_trichotomy ci cj with h2 | h2 | h2
    · simp [h2]
    · subst h2
      simp only [lt_irrefl, if_false, true_and, false_or]
      rcases lt_trichotomy pi pj with h3 | h3 | h3
      · simp [h3, not_lt.mpr (le_of_lt h3), not_le.mpr h3]
      · subst h3; simp
      · simp [h3, le_of_lt h3]
    · simp [h2, not_lt.mpr (le_of_lt h2), Nat.ne_of_gt h2]
  · simp [h, not_lt.mpr (le_of_lt h), ne_of_gt h]

/-- key of a child in `edges_by_child_desc`: `(-time, id)` -/
def cdKey (time : Array α) (c : Nat) : Lex (αᵒᵈ × Nat) := toLex (OrderDual.toDual (aget time c), c)

/-- key of an edge in `edges_by_child_then_parent_desc`: `(child time, child id, -parent time)` -/
def cpKey (time : Array α) (child parent : Array Nat) (i : Nat) : Lex (α × Lex (Nat × αᵒᵈ)) :=
  toLex (aget time (aget child i), toLex (aget child i, OrderDual.toDual (aget time (aget parent i))))

/-- key of a child in `edges_by_child_then_parent_desc`: `(time, id)` -/
def ccKey (time : Array α) (c : Nat) : Lex (α × Nat) := toLex (aget time c, c)

theorem cdKey_injective (time : Array α) : Function.Injective (cdKey time) := by
  intro a b h
  have := congrArg (fun x => (ofLex x).2) h
  simpa [cdKey] using this

theorem ccKey_injective (time : Array α) : Function.Injective (ccKey time) := by
  intro a b h
  have := congrArg (fun x => (ofLex x).2) h
  simpa [ccKey] using this

theorem childDescLe_iff (time : Array α) (child : Array Nat) (a b : Nat) :
    childDescLe time child a b = true ↔ cdKey time (aget child a) ≤ cdKey time (aget child b) := by
  simp only [cdKey, Prod.Lex.toLex_le_toLex, OrderDual.toDual_lt_toDual, childDescLe,
    OrderDual.toDual_inj]
  exact lex2_iff _ _ _ _

theorem childParentLe_iff (time : Array α) (child parent : Array Nat) (a b : Nat) :
    childParentLe time child parent a b = true
      ↔ cpKey time child parent a ≤ cpKey time child parent b := by
  simp only [cpKey, Prod.Lex.toLex_le_toLex, OrderDual.toDual_le_toDual, childParentLe]
  exact lex3_iff _ _ _ _ _ _

theorem cpKey_le_ccKey (time : Array α) (child parent : Array Nat) (a b : Nat)
    (h : cpKey time child parent a ≤ cpKey time child parent b) :
    ccKey time (aget child a) ≤ ccKey time (aget child b) := by
  simp only [cpKey, ccKey, Prod.Lex.toLex_le_toLex] at h ⊢
  rcases h with h | ⟨h1, h2 | ⟨h2, _⟩⟩
  · exact Or.inl h
  · exact Or.inr ⟨h1, le_of_lt h2⟩
  · exact Or.inr ⟨h1, le_of_eq h2⟩

theorem byChildDesc_sorted (time : Array α) (child : Array Nat) :
    (byChildDesc time child).Pairwise
      (fun i j => cdKey time (aget child i) ≤ cdKey time (aget child j)) := by
  unfold byChildDesc
  have := List.pairwise_mergeSort (le := childDescLe time child)
    (fun a b c h1 h2 => by
      rw [childDescLe_iff] at *; exact le_trans h1 h2)
    (fun a b => by
      rcases le_total (cdKey time (aget child a)) (cdKey time (aget child b)) with h | h
      · rw [(childDescLe_iff time child a b).mpr h]; rfl
      · rw [(childDescLe_iff time child b a).mpr h]; simp)
    (List.range child.size)
  exact this.imp (fun h => (childDescLe_iff time child _ _).mp h)

theorem byChildDesc_perm (time : Array α) (child : Array Nat) :
    (byChildDesc time child).Perm (List.range child.size) :=
  List.mergeSort_perm _ _

theorem byChildThenParentDesc_sorted (time : Array α) (child parent : Array Nat) :
    (byChildThenParentDesc time child parent).Pairwise
      (fun i j => cpKey time child parent j ≤ cpKey time child parent i) := by
  unfold byChildThenParentDesc
  rw [List.pairwise_reverse]
  have := List.pairwise_mergeSort (le := childParentLe time child parent)
    (fun a b c h1 h2 => by
      rw [childParentLe_iff] at *; exact le_trans h1 h2)
    (fun a b => by
      rcases le_total (cpKey time child parent a) (cpKey time child parent b) with h | h
      · rw [(childParentLe_iff time child parent a b).mpr h]; rfl
      · rw [(childParentLe_iff time child parent b a).mpr h]; simp)
    (List.range child.size)
  exact this.imp (fun h => (childParentLe_iff time child parent _ _).mp h)

theorem byChildThenParentDesc_perm (time : Array α) (child parent : Array Nat) :
    (byChildThenParentDesc time child parent).Perm (List.range child.size) :=
  (List.reverse_perm _).trans (List.mergeSort_perm _ _)

theorem cdKey_le_time (time : Array α) (a b : Nat) (h : cdKey time a ≤ cdKey time b) :
    aget time b ≤ aget time a := by
  simp only [cdKey, Prod.Lex.toLex_le_toLex, OrderDual.toDual_lt_toDual, OrderDual.toDual_inj] at h
  rcases h with h | ⟨h, _⟩
  · exact le_of_lt h
  · exact le_of_eq h.symm

theorem ccKey_le_time (time : Array α) (a b : Nat) (h : ccKey time a ≤ ccKey time b) :
    aget time a ≤ aget time b := by
  simp only [ccKey, Prod.Lex.toLex_le_toLex] at h
  rcases h with h | ⟨h, _⟩
  · exact le_of_lt h
  · exact le_of_eq h

/-- **`edges_by_child_desc` yields a valid grouped order** for every edge table whose parents are
strictly older than their children: on the row numbers, children's edges are adjacent and no
row's child is the parent of that row or of an earlier one. -/
theorem byChildDesc_valid (time : Array α) (child parent : Array Nat)
    (hval : ∀ i, i < child.size → aget time (aget child i) < aget time (aget parent i)) :
    FlatDone (fun i => aget child i) (fun i => aget parent i) (byChildDesc time child) ∧
    ((runsBy (fun i => aget child i) (byChildDesc time child)).map
      (ghead (fun i => aget child i))).Nodup := by
  have hs := byChildDesc_sorted time child
  refine ⟨?_, runs_nodup_of_sorted _ (cdKey time) (cdKey_injective time) _ hs⟩
  apply flatDone_of_desc _ _ (fun u => aget time u) _ (hs.imp (fun h => cdKey_le_time time _ _ h))
  intro i hi
  exact hval i (List.mem_range.mp ((byChildDesc_perm time child).mem_iff.mp hi))

/-- **`edges_by_child_then_parent_desc` yields a valid grouped order** likewise. -/
theorem byChildThenParentDesc_valid (time : Array α) (child parent : Array Nat)
    (hval : ∀ i, i < child.size → aget time (aget child i) < aget time (aget parent i)) :
    FlatDone (fun i => aget child i) (fun i => aget parent i)
      (byChildThenParentDesc time child parent) ∧
    ((runsBy (fun i => aget child i) (byChildThenParentDesc time child parent)).map
      (ghead (fun i => aget child i))).Nodup := by
  have hs := byChildThenParentDesc_sorted time child parent
  have hs2 : (byChildThenParentDesc time child parent).Pairwise
      (fun i j => ccKey time (aget child j) ≤ ccKey time (aget child i)) :=
    hs.imp (fun h => cpKey_le_ccKey time child parent _ _ h)
  refine ⟨?_, ?_⟩
  · apply flatDone_of_desc _ _ (fun u => aget time u) _ (hs2.imp (fun h => ccKey_le_time time _ _ h))
    intro i hi
    exact hval i (List.mem_range.mp ((byChildThenParentDesc_perm time child parent).mem_iff.mp hi))
  · exact runs_nodup_of_sorted (γ := (Lex (α × Nat))ᵒᵈ) _ (fun c => OrderDual.toDual (ccKey time c))
      (fun a b h => ccKey_injective time (OrderDual.toDual_inj.mp h)) _
      (hs2.imp (fun h => OrderDual.toDual_le_toDual.mpr h))

end Keys

end Tsdate.Order
