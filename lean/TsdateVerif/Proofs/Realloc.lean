/-
Lemmas about the `reallocate_unphased` model and the tail of `infer` (used by Props/C23, C22).

`credit bedges e x` is what mutation `x = (mutations_block[m], mutations_phase[m])` adds to the count of
edge `e`.  `reallocate_spec`: after a successful `reallocate`, a block edge holds exactly the sum of the
credits of all mutations and every other edge holds its input count.
-/
import Mathlib.Tactic.SplitIfs
import Mathlib.Tactic.Linarith
import Mathlib.Tactic.Ring
import Mathlib.Tactic.NormNum
import Mathlib.Algebra.Order.Field.Basic
import Mathlib.Algebra.BigOperators.Group.Finset.Piecewise
import TsdateVerif.Proofs.Blocks

namespace Tsdate.Blocks
set_option linter.unusedSectionVars false
set_option linter.unusedVariables false

section
variable {α : Type} [Inhabited α] [Field α] [LinearOrder α] [IsStrictOrderedRing α]

/-- Share of the mutation `x = (block, phase)` credited to edge `e`: the phase on the first edge of its
block, one minus the phase on the second; nothing if the mutation is in no block or its phase is NaN. -/
def credit (bedges : Array (Nat × Nat)) (e : Nat) (x : Option Nat × Option α) : α :=
  match x.1, x.2 with
  | some b, some φ =>
    if b < bedges.size then
      (if e = (aget bedges b).1 then φ else 0) + (if e = (aget bedges b).2 then 1 - φ else 0)
    else 0
  | _, _ => 0

/-- `e` is one of the two edges of some block. -/
def OnBlockEdge (bedges : Array (Nat × Nat)) (e : Nat) : Prop :=
  ∃ ij ∈ bedges.toList, ij.1 = e ∨ ij.2 = e

/-- All block edges index into an array of size `n`. -/
def BlocksInRange (bedges : Array (Nat × Nat)) (n : Nat) : Prop :=
  ∀ b, b < bedges.size → (aget bedges b).1 < n ∧ (aget bedges b).2 < n

theorem aget_mem_toList {β : Type} [Inhabited β] (a : Array β) (b : Nat) (hb : b < a.size) :
    aget a b ∈ a.toList := by
  simp [aget, hb]

theorem credit_eq_zero_of_not_onBlock (bedges : Array (Nat × Nat)) (e : Nat) (x : Option Nat × Option α)
    (h : ¬ OnBlockEdge bedges e) : credit bedges e x = 0 := by
  obtain ⟨b, φ⟩ := x
  cases b with
  | none => rfl
  | some b =>
    cases φ with
    | none => rfl
    | some φ =>
      simp only [credit]
      split_ifs with hb h1 h2 h2
      · exact absurd ⟨_, aget_mem_toList bedges b hb, Or.inl h1.symm⟩ h
      · exact absurd ⟨_, aget_mem_toList bedges b hb, Or.inl h1.symm⟩ h
      · exact absurd ⟨_, aget_mem_toList bedges b hb, Or.inr h2.symm⟩ h
      · simp
      · rfl

theorem creditStep_spec (bedges : Array (Nat × Nat)) (l l' : Array α) (x : Option Nat × Option α)
    (hr : BlocksInRange bedges l.size) (h : creditStep bedges l x = some l') :
    l'.size = l.size ∧ (∀ e, aget l' e = aget l e + credit bedges e x) ∧
    (∀ b φ, x = (some b, some φ) → b < bedges.size ∧ 0 ≤ φ ∧ φ ≤ 1) := by
  obtain ⟨b, φ⟩ := x
  cases b with
  | none =>
    simp only [creditStep] at h; cases h
    exact ⟨rfl, fun e => by simp [credit], fun b φ hx => by simp at hx⟩
  | some b =>
    simp only [creditStep] at h
    split_ifs at h with hb
    cases φ with
    | none =>
      simp only at h; cases h
      exact ⟨rfl, fun e => by simp [credit], fun b φ hx => by simp at hx⟩
    | some φ =>
      simp only at h
      split_ifs at h with hφ
      cases h
      obtain ⟨hi, hj⟩ := hr b hb
      refine ⟨by simp, ?_, ?_⟩
      · intro e
        have hj' : (aget bedges b).2 < (aset l (aget bedges b).1 (aget l (aget bedges b).1 + φ)).size := by
          simpa using hj
        rw [aget_aset _ _ _ _ hj', aget_aset _ _ _ _ hi, aget_aset _ _ _ _ hi]
        simp only [credit, hb, if_true]
        generalize (aget bedges b).1 = i
        generalize (aget bedges b).2 = j
        by_cases h1 : e = i <;> by_cases h2 : e = j
        · subst h1; subst h2; simp
        · subst h1
          have : ¬ j = e := fun hh => h2 hh.symm
          simp [h2, this]
        · subst h2
          have : ¬ i = e := fun hh => h1 hh.symm
          simp [h1, this]
        · simp [h1, h2]
      · intro b' φ' hx
        simp only [Prod.mk.injEq, Option.some.injEq] at hx
        obtain ⟨rfl, rfl⟩ := hx
        exact ⟨hb, hφ.1, hφ.2⟩

theorem creditLoop_spec (bedges : Array (Nat × Nat)) :
    ∀ (xs : List (Option Nat × Option α)) (l out : Array α), BlocksInRange bedges l.size →
      creditLoop bedges l xs = some out →
      out.size = l.size ∧ (∀ e, aget out e = aget l e + (xs.map (credit bedges e)).sum) ∧
      (∀ b φ, (some b, some φ) ∈ xs → b < bedges.size ∧ 0 ≤ φ ∧ φ ≤ 1) := by
  intro xs
  induction xs with
  | nil =>
    intro l out _ h
    simp only [creditLoop, Option.some.injEq] at h; subst h
    exact ⟨rfl, fun e => by simp, fun b φ hx => by simp at hx⟩
  | cons x xs ih =>
    intro l out hr h
    simp only [creditLoop] at h
    cases hs : creditStep bedges l x with
    | none => simp [hs] at h
    | some l' =>
      simp only [hs] at h
      obtain ⟨hsz, hval, hx⟩ := creditStep_spec bedges l l' x hr hs
      obtain ⟨hsz', hval', hxs⟩ := ih l' out (by rw [hsz]; exact hr) h
      refine ⟨by rw [hsz', hsz], ?_, ?_⟩
      · intro e
        rw [hval' e, hval e]
        simp only [List.map_cons, List.sum_cons]
        ring
      · intro b φ hmem
        simp only [List.mem_cons] at hmem
        rcases hmem with hmem | hmem
        · exact hx b φ hmem.symm
        · exact hxs b φ hmem

theorem zeroBlockEdges_size (bl : List (Nat × Nat)) : ∀ (l : Array α), (zeroBlockEdges l bl).size = l.size := by
  induction bl with
  | nil => intro l; rfl
  | cons ij bl ih =>
    intro l
    simp only [zeroBlockEdges, List.foldl_cons]
    have := ih (aset (aset l ij.1 0) ij.2 0)
    simp only [zeroBlockEdges] at this
    rw [this]; simp

theorem zeroBlockEdges_zero_stays (bl : List (Nat × Nat)) :
    ∀ (l : Array α) (e : Nat), aget l e = 0 → aget (zeroBlockEdges l bl) e = 0 := by
  induction bl with
  | nil => intro l e h; exact h
  | cons ij bl ih =>
    intro l e h
    simp only [zeroBlockEdges, List.foldl_cons]
    apply ih
    simp only [aget_aset_ite]
    split_ifs <;> first | rfl | exact h

theorem zeroBlockEdges_on (bl : List (Nat × Nat)) :
    ∀ (l : Array α) (e : Nat), (∀ ij ∈ bl, ij.1 < l.size ∧ ij.2 < l.size) →
      (∃ ij ∈ bl, ij.1 = e ∨ ij.2 = e) → aget (zeroBlockEdges l bl) e = 0 := by
  induction bl with
  | nil => intro l e _ h; simp at h
  | cons ij bl ih =>
    intro l e hr h
    simp only [zeroBlockEdges, List.foldl_cons]
    obtain ⟨hi, hj⟩ := hr ij (List.mem_cons_self ..)
    by_cases hh : ij.1 = e ∨ ij.2 = e
    · apply zeroBlockEdges_zero_stays
      simp only [aget_aset_ite]
      rcases hh with hh | hh
      · split_ifs with h1 h2
        · rfl
        · rfl
        · exact absurd ⟨hh.symm, hi⟩ h2
      · have : e = ij.2 ∧ ij.2 < (aset l ij.1 0).size := ⟨hh.symm, by simpa using hj⟩
        rw [if_pos this]
    · have hrest : ∃ ij' ∈ bl, ij'.1 = e ∨ ij'.2 = e := by
        obtain ⟨ij', hmem, hij'⟩ := h
        simp only [List.mem_cons] at hmem
        rcases hmem with rfl | hmem
        · exact absurd hij' hh
        · exact ⟨ij', hmem, hij'⟩
      have := ih (aset (aset l ij.1 0) ij.2 0) e
        (fun ij' hm => by simpa using hr ij' (List.mem_cons_of_mem _ hm)) hrest
      simpa only [zeroBlockEdges] using this

theorem zeroBlockEdges_off (bl : List (Nat × Nat)) :
    ∀ (l : Array α) (e : Nat), (∀ ij ∈ bl, ij.1 ≠ e ∧ ij.2 ≠ e) → aget (zeroBlockEdges l bl) e = aget l e := by
  induction bl with
  | nil => intro l e _; rfl
  | cons ij bl ih =>
    intro l e h
    simp only [zeroBlockEdges, List.foldl_cons]
    have := ih (aset (aset l ij.1 0) ij.2 0) e (fun ij' hm => h ij' (List.mem_cons_of_mem _ hm))
    simp only [zeroBlockEdges] at this
    rw [this]
    obtain ⟨h1, h2⟩ := h ij (List.mem_cons_self ..)
    rw [aget_aset_other _ _ _ _ (Ne.symm h2), aget_aset_other _ _ _ _ (Ne.symm h1)]

theorem blocksInRange_of_all (bedges : Array (Nat × Nat)) (n : Nat)
    (h : bedges.all (fun ij => decide (ij.1 < n) && decide (ij.2 < n)) = true) :
    BlocksInRange bedges n ∧ ∀ ij ∈ bedges.toList, ij.1 < n ∧ ij.2 < n := by
  rw [Array.all_eq_true] at h
  constructor
  · intro b hb
    have := h b hb
    simp only [Bool.and_eq_true, decide_eq_true_eq] at this
    simpa [aget, hb] using this
  · intro ij hmem
    rw [Array.mem_toList_iff, Array.mem_iff_getElem] at hmem
    obtain ⟨b, hb, rfl⟩ := hmem
    have := h b hb
    simpa only [Bool.and_eq_true, decide_eq_true_eq] using this

/-- **Specification of `reallocate_unphased`** (count column). -/
theorem reallocate_spec (close : α → α → Bool) (lik out : Array α) (mblock : List (Option Nat))
    (phase : List (Option α)) (bedges : Array (Nat × Nat))
    (h : reallocate close lik mblock phase bedges = some out) :
    out.size = lik.size ∧
    (∀ e, OnBlockEdge bedges e → aget out e = ((mblock.zip phase).map (credit bedges e)).sum) ∧
    (∀ e, ¬ OnBlockEdge bedges e → aget out e = aget lik e) ∧
    (∀ b φ, (some b, some φ) ∈ mblock.zip phase → b < bedges.size ∧ 0 ≤ φ ∧ φ ≤ 1) ∧
    mblock.length = phase.length ∧ BlocksInRange bedges lik.size := by
  unfold reallocate at h
  split_ifs at h with hg
  obtain ⟨hlen, hall⟩ := hg
  obtain ⟨hbr, hbl⟩ := blocksInRange_of_all bedges lik.size hall
  cases hc : creditLoop bedges (zeroBlockEdges lik bedges.toList) (mblock.zip phase) with
  | none => simp [hc] at h
  | some out' =>
    simp only [hc] at h
    split_ifs at h with hcl
    cases h
    have hzs := zeroBlockEdges_size (α := α) bedges.toList lik
    obtain ⟨hsz, hval, hx⟩ := creditLoop_spec bedges _ _ _ (by rw [hzs]; exact hbr) hc
    refine ⟨by rw [hsz, hzs], ?_, ?_, hx, hlen, hbr⟩
    · intro e he
      rw [hval e, zeroBlockEdges_on bedges.toList lik e hbl he, zero_add]
    · intro e he
      rw [hval e, zeroBlockEdges_off bedges.toList lik e
        (fun ij hm => ⟨fun h1 => he ⟨ij, hm, Or.inl h1⟩, fun h2 => he ⟨ij, hm, Or.inr h2⟩⟩)]
      have : (List.map (credit bedges e) (mblock.zip phase)).sum = 0 := by
        apply List.sum_eq_zero
        intro v hv
        simp only [List.mem_map] at hv
        obtain ⟨x, _, rfl⟩ := hv
        exact credit_eq_zero_of_not_onBlock bedges e x he
      rw [this, add_zero]

/-! ### one singleton's credit -/

theorem credit_first (bedges : Array (Nat × Nat)) (b : Nat) (φ : α) (hb : b < bedges.size)
    (hne : (aget bedges b).1 ≠ (aget bedges b).2) :
    credit bedges (aget bedges b).1 (some b, some φ) = φ := by
  simp [credit, hb, hne]

theorem credit_second (bedges : Array (Nat × Nat)) (b : Nat) (φ : α) (hb : b < bedges.size)
    (hne : (aget bedges b).1 ≠ (aget bedges b).2) :
    credit bedges (aget bedges b).2 (some b, some φ) = 1 - φ := by
  simp [credit, hb, Ne.symm hne]

theorem credit_other (bedges : Array (Nat × Nat)) (b : Nat) (φ : α) (e : Nat)
    (h1 : e ≠ (aget bedges b).1) (h2 : e ≠ (aget bedges b).2) :
    credit bedges e (some b, some φ) = 0 := by
  simp [credit, h1, h2]

/-- Summed over all edges, a blocked singleton with a valid phase is credited exactly once. -/
theorem credit_total (bedges : Array (Nat × Nat)) (n : Nat) (b : Nat) (φ : α) (hb : b < bedges.size)
    (hr : BlocksInRange bedges n) :
    (Finset.range n).sum (fun e => credit bedges e (some b, some φ)) = 1 := by
  obtain ⟨hi, hj⟩ := hr b hb
  simp only [credit, hb, if_true]
  rw [Finset.sum_add_distrib, Finset.sum_ite_eq', Finset.sum_ite_eq']
  simp [hi, hj]

end

/-! ### `place`, forwards -/

section
variable {β : Type} [LT β] [DecidableLT β]

theorem place_forward (half : β) (child : Array Nat) (bedges : Array (Nat × Nat))
    (mblock : List (Option Nat)) (f : Fit β) (m : Nat) (b : Option Nat) (φ : Option β) (olde : Option Nat)
    (oldn : Nat) (hb : mblock[m]? = some b) (hφ : f.phase[m]? = some φ) (he : f.mutEdge[m]? = some olde)
    (hn : f.mutNode[m]? = some oldn) :
    (place half child bedges mblock f).mutEdge[m]? = some (placeOne half child bedges b φ (olde, oldn)).1 ∧
    (place half child bedges mblock f).mutNode[m]? = some (placeOne half child bedges b φ (olde, oldn)).2 ∧
    (place half child bedges mblock f).phase = f.phase ∧ (place half child bedges mblock f).lik = f.lik := by
  have hz : (zip3 mblock f.phase (f.mutEdge.zip f.mutNode))[m]? = some (b, φ, (olde, oldn)) := by
    rw [zip3_getElem?]
    refine ⟨hb, hφ, ?_⟩
    simp [List.getElem?_zip_eq_some, he, hn]
  simp [place, List.getElem?_map, hz]

end

/-! ### totals -/

section
variable {α : Type} [Inhabited α] [Field α] [LinearOrder α] [IsStrictOrderedRing α]

/-- 1 for a mutation that is in a block and has a (non-NaN) phase, 0 otherwise. -/
def validOne (x : Option Nat × Option α) : α :=
  match x.1, x.2 with
  | some _, some _ => 1
  | _, _ => 0

theorem credit_total_any (bedges : Array (Nat × Nat)) (n : Nat) (x : Option Nat × Option α)
    (hr : BlocksInRange bedges n) (hx : ∀ b φ, x = (some b, some φ) → b < bedges.size) :
    (Finset.range n).sum (fun e => credit bedges e x) = validOne x := by
  obtain ⟨b, φ⟩ := x
  cases b with
  | none => simp [credit, validOne]
  | some b =>
    cases φ with
    | none => simp [credit, validOne]
    | some φ =>
      have := credit_total bedges n b φ (hx b φ rfl) hr
      simpa [validOne] using this

theorem credits_total (bedges : Array (Nat × Nat)) (n : Nat) (hr : BlocksInRange bedges n) :
    ∀ (xs : List (Option Nat × Option α)), (∀ b φ, (some b, some φ) ∈ xs → b < bedges.size) →
      (Finset.range n).sum (fun e => (xs.map (credit bedges e)).sum) = (xs.map validOne).sum := by
  intro xs
  induction xs with
  | nil => intro _; simp
  | cons x xs ih =>
    intro hx
    simp only [List.map_cons, List.sum_cons]
    rw [Finset.sum_add_distrib, ih (fun b φ hm => hx b φ (List.mem_cons_of_mem _ hm)),
      credit_total_any bedges n x hr (fun b φ hxe => hx b φ (by rw [hxe]; exact List.mem_cons_self ..))]

/-- The credit of a blocked singleton written with the *reported* phase `max φ (1-φ)`: that much on the
edge it is placed on, the rest on the other edge of its block. -/
theorem credit_by_reported_phase (bedges : Array (Nat × Nat)) (b : Nat) (φ : α) (e : Nat)
    (hb : b < bedges.size) (hne : (aget bedges b).1 ≠ (aget bedges b).2) :
    credit bedges e (some b, some φ) =
      if φ < 1 / 2 then
        (if e = (aget bedges b).2 then 1 - φ else 0) + (if e = (aget bedges b).1 then 1 - (1 - φ) else 0)
      else
        (if e = (aget bedges b).1 then φ else 0) + (if e = (aget bedges b).2 then 1 - φ else 0) := by
  simp only [credit, hb, if_true]
  split_ifs <;> ring

end

/-! ### unfolding the tail of `infer` -/

section
variable {α : Type} [Inhabited α] [Field α] [LinearOrder α] [IsStrictOrderedRing α]

theorem inferTail_some {close : α → α → Bool} {half : α} {child : Array Nat} {bedges : Array (Nat × Nat)}
    {mblock : List (Option Nat)} {f f' : Fit α}
    (h : inferTail close half true child bedges mblock f = some f') :
    ∃ out, reallocate close f.lik mblock f.phase bedges = some out ∧
      f'.mutEdge = (place half child bedges mblock f).mutEdge ∧
      f'.mutNode = (place half child bedges mblock f).mutNode ∧
      f'.phase = f.phase.map (flipPhase half) ∧ f'.lik = out := by
  unfold inferTail at h
  simp only [if_true] at h
  obtain ⟨out, hr, hf⟩ := Option.map_eq_some_iff.mp h
  subst hf
  exact ⟨out, hr, rfl, rfl, rfl, rfl⟩

theorem inferTailOld_some {close : α → α → Bool} {half : α} {child : Array Nat} {bedges : Array (Nat × Nat)}
    {mblock : List (Option Nat)} {f f' : Fit α}
    (h : inferTailOld close half true child bedges mblock f = some f') :
    ∃ out, reallocate close f.lik mblock (f.phase.map (flipPhase half)) bedges = some out ∧
      f'.mutEdge = (place half child bedges mblock f).mutEdge ∧
      f'.mutNode = (place half child bedges mblock f).mutNode ∧
      f'.phase = f.phase.map (flipPhase half) ∧ f'.lik = out := by
  unfold inferTailOld at h
  simp only [if_true] at h
  obtain ⟨out, hr, hf⟩ := Option.map_eq_some_iff.mp h
  subst hf
  exact ⟨out, hr, rfl, rfl, rfl, rfl⟩

theorem flipPhase_lt {half φ : α} (h : φ < half) : flipPhase half (some φ) = some (1 - φ) := by
  simp only [flipPhase, if_pos h]

theorem flipPhase_ge {half φ : α} (h : ¬ φ < half) : flipPhase half (some φ) = some φ := by
  simp only [flipPhase, if_neg h]

theorem placedEdge_lt {half φ : α} (ij : Nat × Nat) (h : φ < half) : placedEdge half ij (some φ) = ij.2 := by
  simp only [placedEdge, if_pos h]

theorem placedEdge_ge {half φ : α} (ij : Nat × Nat) (h : ¬ φ < half) : placedEdge half ij (some φ) = ij.1 := by
  simp only [placedEdge, if_neg h]

theorem placeOne_some {half : α} (child : Array Nat) (bedges : Array (Nat × Nat)) (b : Nat) (φ : Option α)
    (old : Option Nat × Nat) :
    placeOne half child bedges (some b) φ old =
      (some (placedEdge half (aget bedges b) φ), aget child (placedEdge half (aget bedges b) φ)) := rfl

end

end Tsdate.Blocks
