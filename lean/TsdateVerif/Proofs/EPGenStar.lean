/-
On star requests the projection oracle assembled from the regenerated kernels (`genProj`) *is* the conjugate
projection used in the star theorems, so the closed form of C20 holds for the EP model running the kernels of the
current source.
-/
import TsdateVerif.Proofs.EPGen
import TsdateVerif.Proofs.EPStarStep
import TsdateVerif.Model.EPGenProj

namespace Tsdate.EP
open Tsdate.Kernels
set_option linter.unusedSectionVars false
set_option linter.unusedVariables false

variable {α : Type} [Inhabited α] [Field α] [LinearOrder α] [IsStrictOrderedRing α]

/-- `starProj` wrapped around `genProj` changes nothing: where `starProj` substitutes the hand-written conjugate
projection (`root` branch, child age 0, phased), `genProj` already returns the same value. -/
theorem starProj_genProj (F : SpecFns α) (hfin : ∀ v, F.isFinite v = true) :
    starProj (genProj F) = genProj F := by
  funext rq
  unfold starProj
  split_ifs with h
  · obtain ⟨hb, hage, hu⟩ := h
    have h0 : rq.age = ((0 : Nat) : α) := by rw [Nat.cast_zero]; exact (isZero_iff rq.age).1 hage
    unfold genProj
    simp only [hb, hu, Bool.false_eq_true, if_false]
    rw [h0, (gen_rootward_t0 F hfin rq.cavP rq.lik).1]
  · rfl

end Tsdate.EP
