/-
Lemmas about the `_block_singletons` model (used by Props/C22, C23).

The sweep is a composition of three elementary steps (`removeEdge`, `insertEdge`, `mutStep`); `sweep_induction`
says that any predicate on the data preserved by the three steps holds of the result of the sweep, whatever
the control (positions, orders, fuel) does.  The two invariants `InvA` (every edge stored for an individual,
live or flushed, is an edge above a node of that unphased individual) and `InvB` (block ids are owned by one
individual; the block recorded for a mutation is owned by the mutation's individual) are proved that way.
-/
import Mathlib.Tactic.SplitIfs
import Mathlib.Tactic.Linarith
import TsdateVerif.Model.Blocks

namespace Tsdate.Blocks
set_option linter.unusedSectionVars false
set_option linter.unusedVariables false

/-! ### arrays -/

theorem aget_aset_ite {β : Type} [Inhabited β] (a : Array β) (i j : Nat) (v : β) :
    aget (aset a i v) j = if j = i ∧ i < a.size then v else aget a j := by
  by_cases hj : j = i
  · subst hj
    by_cases hi : j < a.size
    · simp [hi, aget_aset_same _ _ _ hi]
    · simp [hi, aget, aset, Array.setIfInBounds]
  · simp [hj, aget_aset_other _ _ _ _ hj]

theorem aget_aset_pos {β : Type} [Inhabited β] {a : Array β} {i j : Nat} (v : β) (hc : j = i ∧ i < a.size) :
    aget (aset a i v) j = v := by rw [aget_aset_ite, if_pos hc]

theorem aget_aset_neg {β : Type} [Inhabited β] {a : Array β} {i j : Nat} (v : β) (hc : ¬ (j = i ∧ i < a.size)) :
    aget (aset a i v) j = aget a j := by rw [aget_aset_ite, if_neg hc]

theorem aget_lt_of_ne_default {β : Type} [Inhabited β] (a : Array β) (i : Nat) (h : aget a i ≠ default) :
    i < a.size := by
  by_contra hi
  apply h
  simp [aget, Array.getElem?_eq_none (Nat.le_of_not_lt hi)]

/-! ### `unphInd` -/

theorem unphInd_eq_some {u : Array Bool} {n : Array (Option Nat)} {c i : Nat} :
    unphInd u n c = some i ↔ aget n c = some i ∧ aget u i = true := by
  unfold unphInd
  cases h : aget n c with
  | none => simp
  | some j =>
    by_cases hu : aget u j = true
    · simp only [hu, if_true, Option.some.injEq]
      constructor
      · intro h'; subst h'; exact ⟨rfl, hu⟩
      · intro h'; exact h'.1
    · simp only [hu, Option.some.injEq]
      constructor
      · intro h'; simp at h'
      · intro h'; obtain ⟨h1, h2⟩ := h'; subst h1; exact absurd h2 hu

theorem omax_mem {u v : Option Nat} (h : u = none ∨ v = none) {e : Nat} (he : omax u v = some e) :
    u = some e ∨ v = some e := by
  cases u <;> cases v <;> simp_all [omax]

section
variable {α : Type} [Inhabited α] [Sub α] [BEq α] [LT α] [DecidableLT α]

/-- `e` is an edge (in range) above a node of the unphased individual `i`. -/
def EdgeOf (inp : EdgeInput α) (i e : Nat) : Prop := e < inp.child.size ∧ edgeInd inp e = some i

theorem EdgeOf.spec {inp : EdgeInput α} {i e : Nat} (h : EdgeOf inp i e) :
    e < inp.child.size ∧ aget inp.nodeInd (aget inp.child e) = some i ∧ aget inp.unphased i = true := by
  obtain ⟨h1, h2⟩ := h
  exact ⟨h1, unphInd_eq_some.mp h2⟩

/-! ### the generic induction principle of the sweep -/

/-- A predicate on the data that the three loop bodies preserve. -/
structure Preserved (inp : EdgeInput α) (mi : Nat → Option Nat) (P : Data α → Prop) : Prop where
  rem : ∀ D e left D', e < inp.child.size → P D → removeEdge (edgeInd inp e) D e left = some D' → P D'
  ins : ∀ D e left D', e < inp.child.size → P D → insertEdge (edgeInd inp e) D e left = some D' → P D'
  onMut : ∀ D m, P D → P (mutStep (mi m) D m)

/-- The order arrays only contain edge ids (part of `wellFormed`). -/
def OrdersInRange (inp : EdgeInput α) : Prop :=
  (∀ b, b < inp.child.size → aget inp.remOrder b < inp.child.size) ∧
  (∀ a, a < inp.child.size → aget inp.insOrder a < inp.child.size)

theorem removeLoop_inv (inp : EdgeInput α) (mi : Nat → Option Nat) (P : Data α → Prop)
    (hP : Preserved inp mi P) (hr : OrdersInRange inp) (left : α) :
    ∀ fuel b D r, P D → removeLoop inp left fuel b D = some r → P r.2 := by
  intro fuel
  induction fuel with
  | zero => intro b D r _ h; simp [removeLoop] at h
  | succ n ih =>
    intro b D r hD h
    unfold removeLoop at h
    split_ifs at h with hc
    · cases hre : removeEdge (edgeInd inp (aget inp.remOrder b)) D (aget inp.remOrder b) left with
      | none => simp [hre] at h
      | some D' =>
        simp only [hre] at h
        exact ih _ _ _ (hP.rem _ _ _ _ (hr.1 b hc.1) hD hre) h
    · cases h; exact hD

theorem insertLoop_inv (inp : EdgeInput α) (mi : Nat → Option Nat) (P : Data α → Prop)
    (hP : Preserved inp mi P) (hr : OrdersInRange inp) (left : α) :
    ∀ fuel a D r, P D → insertLoop inp left fuel a D = some r → P r.2 := by
  intro fuel
  induction fuel with
  | zero => intro a D r _ h; simp [insertLoop] at h
  | succ n ih =>
    intro a D r hD h
    unfold insertLoop at h
    split_ifs at h with hc
    · cases hre : insertEdge (edgeInd inp (aget inp.insOrder a)) D (aget inp.insOrder a) left with
      | none => simp [hre] at h
      | some D' =>
        simp only [hre] at h
        exact ih _ _ _ (hP.ins _ _ _ _ (hr.2 a hc.1) hD hre) h
    · cases h; exact hD

theorem mutLoop_inv (inp : EdgeInput α) (mutPos : Array α) (mi : Nat → Option Nat) (P : Data α → Prop)
    (hP : Preserved inp mi P) (right : α) :
    ∀ order D, P D → P (mutLoop mutPos mi right order D).2 := by
  intro order
  induction order with
  | nil => intro D hD; exact hD
  | cons m rest ih =>
    intro D hD
    unfold mutLoop
    split_ifs
    · exact ih _ (hP.onMut _ _ hD)
    · exact hD

theorem outer_inv (inp : EdgeInput α) (mutPos : Array α) (mi : Nat → Option Nat) (P : Data α → Prop)
    (hP : Preserved inp mi P) (hr : OrdersInRange inp) :
    ∀ fuel a b order left D D', P D → outer inp mutPos mi fuel a b order left D = some D' → P D' := by
  intro fuel
  induction fuel with
  | zero => intro a b order left D D' _ h; simp [outer] at h
  | succ n ih =>
    intro a b order left D D' hD h
    unfold outer at h
    split_ifs at h with hc
    · cases h1 : removeLoop inp left (inp.child.size + 1) b D with
      | none => simp [h1] at h
      | some r1 =>
        obtain ⟨b', D1⟩ := r1
        simp only [h1] at h
        cases h2 : insertLoop inp left (inp.child.size + 1) a D1 with
        | none => simp [h2] at h
        | some r2 =>
          obtain ⟨a', D2⟩ := r2
          simp only [h2] at h
          have hD1 : P D1 := removeLoop_inv inp mi P hP hr left _ _ _ _ hD h1
          have hD2 : P D2 := insertLoop_inv inp mi P hP hr left _ _ _ _ hD1 h2
          exact ih _ _ _ _ _ _ (mutLoop_inv inp mutPos mi P hP _ _ _ hD2) h
    · cases h; exact hD

/-- **Induction principle of the sweep.** -/
theorem sweep_induction (inp : EdgeInput α) (mutPos : Array α) (nMut : Nat) (mi : Nat → Option Nat) (zero : α)
    (P : Data α → Prop) (hP : Preserved inp mi P) (hr : OrdersInRange inp)
    (h0 : P (Data.init inp.unphased.size nMut)) {D : Data α}
    (h : sweepCore inp mutPos nMut mi zero = some D) : P D :=
  outer_inv inp mutPos mi P hP hr _ _ _ _ _ _ _ h0 h

/-! ### `wellFormed` -/

theorem wellFormed_orders {inp : Input α} (h : wellFormed inp = true) : OrdersInRange inp.toEdgeInput := by
  simp only [wellFormed, Bool.and_eq_true, beq_iff_eq, decide_eq_true_eq, Array.all_eq_true] at h
  obtain ⟨⟨⟨⟨⟨⟨⟨⟨⟨⟨h1, h2⟩, h3⟩, h4⟩, h5⟩, h6⟩, h7⟩, h8⟩, h9⟩, h10⟩, h11⟩ := h
  constructor
  · intro b hb
    have hb' : b < inp.remOrder.size := by omega
    have := h9 b hb'
    simpa [aget, hb'] using this
  · intro a ha
    have ha' : a < inp.insOrder.size := by omega
    have := h8 a ha'
    simpa [aget, ha'] using this

/-! ### invariant A: stored edges are edges of the individual -/

structure InvA (inp : EdgeInput α) (D : Data α) : Prop where
  live : ∀ i e, ((aget D.iedges i).1 = some e ∨ (aget D.iedges i).2 = some e) → EdgeOf inp i e
  fl : ∀ f ∈ D.flushed, ∃ i, EdgeOf inp i f.e0 ∧ EdgeOf inp i f.e1

theorem invA_init (inp : EdgeInput α) (n m : Nat) : InvA inp (Data.init n m : Data α) := by
  constructor
  · intro i e h
    have : aget (Array.replicate n ((none : Option Nat), (none : Option Nat))) i = (none, none) := by
      simp only [aget]
      by_cases hi : i < n
      · simp [hi]
      · simp [hi]; rfl
    simp [Data.init, this] at h
  · intro f hf; simp [Data.init] at hf

/-- What a successful `removeEdge` on an unphased individual does (with which entry of the pair survived). -/
theorem removeEdge_some_strong {i : Nat} {D D' : Data α} {e : Nat} {left : α}
    (h : removeEdge (some i) D e left = some D') :
    ((aget D.iedges i).1 = some e ∨ (aget D.iedges i).2 = some e) ∧
    ((D' = { D with iedges := aset D.iedges i (none, none) }) ∨
     ∃ s', (((aget D.iedges i).2 = some e ∧ (aget D.iedges i).1 = some s') ∨
            (¬ (aget D.iedges i).2 = some e ∧ (aget D.iedges i).2 = some s')) ∧
       D' = { D with
          iedges := aset D.iedges i (some s', none)
          flushed := D.flushed ++ [{ id := aget D.iblock i, e0 := e, e1 := s', cnt := aget D.icnt i,
                                     span := (aget D.ipos i).map (fun p => left - p) }]
          ipos := aset D.ipos i none
          iblock := aset D.iblock i none
          icnt := aset D.icnt i 0 }) := by
  simp only [removeEdge] at h
  by_cases hg : (aget D.iedges i).1 = some e ∨ (aget D.iedges i).2 = some e
  · simp only [if_pos hg] at h
    refine ⟨hg, ?_⟩
    by_cases hv : (aget D.iedges i).2 = some e
    · simp only [if_pos hv] at h
      split at h
      · left; cases h; rfl
      · rename_i s' hs
        right
        exact ⟨s', Or.inl ⟨hv, hs⟩, by cases h; rfl⟩
    · simp only [if_neg hv] at h
      split at h
      · left; cases h; rfl
      · rename_i s' hs
        right
        exact ⟨s', Or.inr ⟨hv, hs⟩, by cases h; rfl⟩
  · simp only [if_neg hg] at h
    cases h

/-- What a successful `removeEdge` on an unphased individual does. -/
theorem removeEdge_some {i : Nat} {D D' : Data α} {e : Nat} {left : α}
    (h : removeEdge (some i) D e left = some D') :
    ((aget D.iedges i).1 = some e ∨ (aget D.iedges i).2 = some e) ∧
    ((D' = { D with iedges := aset D.iedges i (none, none) }) ∨
     ∃ s', ((aget D.iedges i).1 = some s' ∨ (aget D.iedges i).2 = some s') ∧
       D' = { D with
          iedges := aset D.iedges i (some s', none)
          flushed := D.flushed ++ [{ id := aget D.iblock i, e0 := e, e1 := s', cnt := aget D.icnt i,
                                     span := (aget D.ipos i).map (fun p => left - p) }]
          ipos := aset D.ipos i none
          iblock := aset D.iblock i none
          icnt := aset D.icnt i 0 }) := by
  obtain ⟨hg, h1 | ⟨s', hs', h2⟩⟩ := removeEdge_some_strong h
  · exact ⟨hg, Or.inl h1⟩
  · refine ⟨hg, Or.inr ⟨s', ?_, h2⟩⟩
    rcases hs' with ⟨_, h3⟩ | ⟨_, h3⟩
    · exact Or.inl h3
    · exact Or.inr h3

/-- What a successful `insertEdge` on an unphased individual does. -/
theorem insertEdge_some {i : Nat} {D D' : Data α} {e : Nat} {left : α}
    (h : insertEdge (some i) D e left = some D') :
    ((aget D.iedges i).1 = none ∨ (aget D.iedges i).2 = none) ∧
    ((aget D.iblock i = none ∧
      D' = { D with iedges := aset D.iedges i (some e, omax (aget D.iedges i).1 (aget D.iedges i).2),
                    ipos := aset D.ipos i (some left),
                    iblock := aset D.iblock i (some D.numBlocks), numBlocks := D.numBlocks + 1 }) ∨
     (aget D.iblock i ≠ none ∧
      D' = { D with iedges := aset D.iedges i (some e, omax (aget D.iedges i).1 (aget D.iedges i).2),
                    ipos := aset D.ipos i (some left) })) := by
  simp only [insertEdge] at h
  split_ifs at h with hg hb
  · exact ⟨hg, Or.inl ⟨hb, by cases h; rfl⟩⟩
  · exact ⟨hg, Or.inr ⟨hb, by cases h; rfl⟩⟩

theorem invA_preserved (inp : EdgeInput α) (mi : Nat → Option Nat) : Preserved inp mi (InvA inp) := by
  constructor
  · -- removeEdge
    intro D e left D' he hD h
    cases hi : edgeInd inp e with
    | none => rw [hi] at h; simp [removeEdge] at h; subst h; exact hD
    | some i =>
      rw [hi] at h
      obtain ⟨hg, h | ⟨s', hs', h⟩⟩ := removeEdge_some h
      · subst h
        refine ⟨?_, hD.fl⟩
        intro i' e' h'
        simp only [aget_aset_ite] at h'
        split_ifs at h' with hc
        · simp at h'
        · exact hD.live _ _ h'
      · subst h
        constructor
        · intro i' e' h'
          simp only [aget_aset_ite] at h'
          split_ifs at h' with hc
          · simp at h'
            subst h'
            rw [hc.1]
            exact hD.live _ _ hs'
          · exact hD.live _ _ h'
        · intro f hf
          simp only [List.mem_append, List.mem_singleton] at hf
          rcases hf with hf | hf
          · exact hD.fl f hf
          · subst hf
            exact ⟨i, ⟨he, hi⟩, hD.live _ _ hs'⟩
  · -- insertEdge
    intro D e left D' he hD h
    cases hi : edgeInd inp e with
    | none => rw [hi] at h; simp [insertEdge] at h; subst h; exact hD
    | some i =>
      rw [hi] at h
      obtain ⟨hg, ⟨_, h⟩ | ⟨_, h⟩⟩ := insertEdge_some h <;>
      · subst h
        refine ⟨?_, hD.fl⟩
        intro i' e' h'
        simp only [aget_aset_ite] at h'
        split_ifs at h' with hc
        · rw [hc.1]
          rcases h' with h' | h'
          · simp at h'; subst h'; exact ⟨he, hi⟩
          · exact hD.live _ _ (omax_mem hg h')
        · exact hD.live _ _ h'
  · -- mutStep
    intro D m hD
    cases hm : mi m with
    | none => simp [mutStep]; exact hD
    | some i => exact ⟨hD.live, hD.fl⟩

/-! ### invariant B: block ids are owned by one individual -/

structure InvB (inp : EdgeInput α) (mi : Nat → Option Nat) (D : Data α) : Prop where
  liveLt : ∀ i b, aget D.iblock i = some b → b < D.numBlocks
  liveUniq : ∀ i i' b, aget D.iblock i = some b → aget D.iblock i' = some b → i = i'
  liveFresh : ∀ i b, aget D.iblock i = some b → ∀ f ∈ D.flushed, f.id ≠ some b
  flLt : ∀ f ∈ D.flushed, ∀ b, f.id = some b → b < D.numBlocks
  muts : ∀ m b, aget D.mblock m = some b → b < D.numBlocks ∧ ∃ i, mi m = some i ∧
      (∀ i', aget D.iblock i' = some b → i' = i) ∧
      (∀ f ∈ D.flushed, f.id = some b → EdgeOf inp i f.e0 ∧ EdgeOf inp i f.e1)

theorem aget_replicate_none {β : Type} (n i : Nat) :
    aget (Array.replicate n (none : Option β)) i = none := by
  simp only [aget]
  by_cases hi : i < n
  · simp [hi]
  · simp [hi]; rfl

theorem invB_init (inp : EdgeInput α) (mi : Nat → Option Nat) (n m : Nat) :
    InvB inp mi (Data.init n m : Data α) := by
  constructor
  · intro i b h; simp [Data.init, aget_replicate_none] at h
  · intro i i' b h; simp [Data.init, aget_replicate_none] at h
  · intro i b h; simp [Data.init, aget_replicate_none] at h
  · intro f hf; simp [Data.init] at hf
  · intro m' b h; simp [Data.init, aget_replicate_none] at h

/-- Both invariants together (B needs A when a block is flushed). -/
def Inv (inp : EdgeInput α) (mi : Nat → Option Nat) (D : Data α) : Prop := InvA inp D ∧ InvB inp mi D

theorem inv_preserved (inp : EdgeInput α) (mi : Nat → Option Nat) : Preserved inp mi (Inv inp mi) := by
  constructor
  · -- removeEdge
    intro D e left D' he hD h
    refine ⟨(invA_preserved inp mi).rem D e left D' he hD.1 h, ?_⟩
    obtain ⟨hA, hB⟩ := hD
    cases hi : edgeInd inp e with
    | none => rw [hi] at h; simp [removeEdge] at h; subst h; exact hB
    | some i =>
      rw [hi] at h
      obtain ⟨hg, h | ⟨s', hs', h⟩⟩ := removeEdge_some h
      · subst h
        exact ⟨hB.liveLt, hB.liveUniq, hB.liveFresh, hB.flLt, hB.muts⟩
      · subst h
        have hlive : ∀ j b, aget (aset D.iblock i none) j = some b → aget D.iblock j = some b ∧ j ≠ i := by
          intro j b hj
          simp only [aget_aset_ite] at hj
          split_ifs at hj with hc
          · exact ⟨hj, fun hji => by
              subst hji
              have : j < D.iblock.size := aget_lt_of_ne_default _ _ (by rw [hj]; simp)
              exact hc ⟨rfl, this⟩⟩
        constructor
        · intro j b hj; exact hB.liveLt j b (hlive j b hj).1
        · intro j j' b hj hj'; exact hB.liveUniq j j' b (hlive j b hj).1 (hlive j' b hj').1
        · intro j b hj f hf
          simp only [List.mem_append, List.mem_singleton] at hf
          rcases hf with hf | hf
          · exact hB.liveFresh j b (hlive j b hj).1 f hf
          · subst hf
            intro hid
            exact (hlive j b hj).2 (hB.liveUniq j i b (hlive j b hj).1 hid)
        · intro f hf b hid
          simp only [List.mem_append, List.mem_singleton] at hf
          rcases hf with hf | hf
          · exact hB.flLt f hf b hid
          · subst hf; exact hB.liveLt i b hid
        · intro m b hm
          obtain ⟨hlt, i0, hmi, hu, hf0⟩ := hB.muts m b hm
          refine ⟨hlt, i0, hmi, ?_, ?_⟩
          · intro i' hi'; exact hu i' (hlive i' b hi').1
          · intro f hf hid
            simp only [List.mem_append, List.mem_singleton] at hf
            rcases hf with hf | hf
            · exact hf0 f hf hid
            · subst hf
              have : i = i0 := hu i hid
              subst this
              exact ⟨⟨he, hi⟩, hA.live _ _ hs'⟩
  · -- insertEdge
    intro D e left D' he hD h
    refine ⟨(invA_preserved inp mi).ins D e left D' he hD.1 h, ?_⟩
    obtain ⟨hA, hB⟩ := hD
    cases hi : edgeInd inp e with
    | none => rw [hi] at h; simp [insertEdge] at h; subst h; exact hB
    | some i =>
      rw [hi] at h
      obtain ⟨hg, ⟨hnone, h⟩ | ⟨_, h⟩⟩ := insertEdge_some h
      · subst h
        have hlive : ∀ j b, aget (aset D.iblock i (some D.numBlocks)) j = some b →
            (j = i ∧ b = D.numBlocks) ∨ (aget D.iblock j = some b ∧ b < D.numBlocks) := by
          intro j b hj
          simp only [aget_aset_ite] at hj
          split_ifs at hj with hc
          · left; exact ⟨hc.1, by simpa using hj.symm⟩
          · right; exact ⟨hj, hB.liveLt j b hj⟩
        constructor
        · intro j b hj
          show b < D.numBlocks + 1
          rcases hlive j b hj with ⟨_, h2⟩ | ⟨_, h2⟩ <;> omega
        · intro j j' b hj hj'
          rcases hlive j b hj with ⟨h1, h2⟩ | ⟨h1, h2⟩ <;> rcases hlive j' b hj' with ⟨h3, h4⟩ | ⟨h3, h4⟩
          · rw [h1, h3]
          · omega
          · omega
          · exact hB.liveUniq j j' b h1 h3
        · intro j b hj f hf hid
          rcases hlive j b hj with ⟨h1, h2⟩ | ⟨h1, h2⟩
          · have := hB.flLt f hf b hid; omega
          · exact hB.liveFresh j b h1 f hf hid
        · intro f hf b hid
          show b < D.numBlocks + 1
          have := hB.flLt f hf b hid; omega
        · intro m b hm
          obtain ⟨hlt, i0, hmi, hu, hf0⟩ := hB.muts m b hm
          refine ⟨Nat.lt_succ_of_lt hlt, i0, hmi, ?_, hf0⟩
          intro i' hi'
          rcases hlive i' b hi' with ⟨h1, h2⟩ | ⟨h1, h2⟩
          · omega
          · exact hu i' h1
      · subst h
        exact ⟨hB.liveLt, hB.liveUniq, hB.liveFresh, hB.flLt, hB.muts⟩
  · -- mutStep
    intro D m hD
    refine ⟨(invA_preserved inp mi).onMut D m hD.1, ?_⟩
    obtain ⟨hA, hB⟩ := hD
    cases hm : mi m with
    | none => simp [mutStep]; exact hB
    | some i =>
      refine ⟨hB.liveLt, hB.liveUniq, hB.liveFresh, hB.flLt, ?_⟩
      intro m' b hm'
      simp only [mutStep, aget_aset_ite] at hm'
      split_ifs at hm' with hc
      · refine ⟨hB.liveLt i b hm', i, by rw [hc.1]; exact hm, ?_, ?_⟩
        · intro i' hi'; exact hB.liveUniq i' i b hi' hm'
        · intro f hf hid; exact absurd hid (hB.liveFresh i b hm' f hf)
      · exact hB.muts m' b hm'

/-! ### the final re-ordering -/

theorem lookupRows_spec (fl : List (Flushed α)) :
    ∀ (ks : List Nat) (rows : List (Flushed α)), lookupRows fl ks = some rows →
      rows.length = ks.length ∧
      ∀ (idx : Nat) (f : Flushed α), rows[idx]? = some f → ∃ k : Nat, (ks[idx]? : Option Nat) = some k ∧ f ∈ fl ∧ f.id = some k := by
  intro ks
  induction ks with
  | nil => intro rows h; simp [lookupRows] at h; subst h; simp
  | cons k ks ih =>
    intro rows h
    simp only [lookupRows] at h
    cases hf : fl.find? (fun f => f.id == some k) with
    | none => simp [hf] at h
    | some f0 =>
      simp only [hf] at h
      cases hr : lookupRows fl ks with
      | none => simp [hr] at h
      | some rest =>
        simp only [hr, Option.map_some, Option.some.injEq] at h
        subst h
        obtain ⟨hl, hrest⟩ := ih rest hr
        refine ⟨by simp [hl], ?_⟩
        intro idx f hidx
        cases idx with
        | zero =>
          simp at hidx; subst hidx
          refine ⟨k, by simp, List.mem_of_find?_eq_some hf, ?_⟩
          have := List.find?_some hf
          simpa using this
        | succ n =>
          simp at hidx
          obtain ⟨k', hk', h2⟩ := hrest n f hidx
          exact ⟨k', by simpa using hk', h2⟩


/-! ### assembling: `blockSingletons` -/

theorem blockSingletons_some {inp : Input α} {zero : α} {out : Output α}
    (h : blockSingletons inp zero = some out) :
    wellFormed inp = true ∧ ∃ D, sweep inp zero = some D ∧ finish D = some out := by
  unfold blockSingletons at h
  split_ifs at h with hwf
  refine ⟨hwf, ?_⟩
  cases hs : sweep inp zero with
  | none => simp [hs] at h
  | some D => simp only [hs] at h; exact ⟨D, rfl, h⟩

/-- Both invariants hold of the data the sweep ends with. -/
theorem blockSingletons_inv {inp : Input α} {zero : α} {out : Output α}
    (h : blockSingletons inp zero = some out) :
    ∃ D, Inv inp.toEdgeInput (mutInd inp) D ∧ finish D = some out := by
  obtain ⟨hwf, D, hs, hf⟩ := blockSingletons_some h
  refine ⟨D, ?_, hf⟩
  exact sweep_induction inp.toEdgeInput inp.mutPos inp.mutNode.size (mutInd inp) zero _
    (inv_preserved _ _) (wellFormed_orders hwf) ⟨invA_init _ _ _, invB_init _ _ _ _⟩ hs

theorem finish_spec {D : Data α} {out : Output α} (h : finish D = some out) :
    out.mblock = D.mblock ∧ out.edges.length = D.numBlocks ∧ out.stats.length = D.numBlocks ∧
    ∀ (b e0 e1 : Nat), out.edges[b]? = some (e0, e1) →
      ∃ f ∈ D.flushed, f.id = some b ∧ f.e0 = e0 ∧ f.e1 = e1 := by
  unfold finish at h
  split_ifs at h with hl
  cases hr : lookupRows D.flushed (List.range D.numBlocks) with
  | none => simp [hr] at h
  | some rows =>
    simp only [hr, Option.map_some, Option.some.injEq] at h
    subst h
    obtain ⟨hlen, hrows⟩ := lookupRows_spec D.flushed _ rows hr
    refine ⟨rfl, by simp [hlen], by simp [hlen], ?_⟩
    intro b e0 e1 hb
    simp only [List.getElem?_map] at hb
    cases hrb : rows[b]? with
    | none => simp [hrb] at hb
    | some f =>
      simp only [hrb, Option.map_some, Option.some.injEq, Prod.mk.injEq] at hb
      obtain ⟨k, hk, hmem, hid⟩ := hrows b f hrb
      have hkb : k = b := by
        have := List.getElem?_eq_some_iff.mp hk
        obtain ⟨hlt, hget⟩ := this
        simpa using hget.symm
      subst hkb
      exact ⟨f, hmem, hid, hb.1, hb.2⟩

end

/-! ### the switch of mutation nodes in `infer` -/

theorem zip3_getElem? {β γ δ : Type} :
    ∀ (bs : List β) (cs : List γ) (ds : List δ) (m : Nat) (x : β × γ × δ),
      (zip3 bs cs ds)[m]? = some x ↔ bs[m]? = some x.1 ∧ cs[m]? = some x.2.1 ∧ ds[m]? = some x.2.2 := by
  intro bs
  induction bs with
  | nil => intro cs ds m x; simp [zip3]
  | cons b bs ih =>
    intro cs ds m x
    cases cs with
    | nil => simp [zip3]
    | cons c cs =>
      cases ds with
      | nil => simp [zip3]
      | cons d ds =>
        cases m with
        | zero =>
          obtain ⟨x1, x2, x3⟩ := x
          simp [zip3]
        | succ n => simpa [zip3] using ih cs ds n x

section
variable {β : Type} [LT β] [DecidableLT β]

/-- Entry `m` of the node (and edge) column after `place` is `placeOne` of the entries `m`. -/
theorem place_getElem? (half : β) (child : Array Nat) (bedges : Array (Nat × Nat))
    (mblock : List (Option Nat)) (f : Fit β) (m : Nat) (new : Nat)
    (h : (place half child bedges mblock f).mutNode[m]? = some new) :
    ∃ b φ olde oldn, mblock[m]? = some b ∧ f.phase[m]? = some φ ∧ f.mutEdge[m]? = some olde ∧
      f.mutNode[m]? = some oldn ∧ new = (placeOne half child bedges b φ (olde, oldn)).2 ∧
      (place half child bedges mblock f).mutEdge[m]? = some (placeOne half child bedges b φ (olde, oldn)).1 := by
  simp only [place, List.getElem?_map] at h ⊢
  cases hz : (zip3 mblock f.phase (f.mutEdge.zip f.mutNode))[m]? with
  | none => simp [hz] at h
  | some x =>
    obtain ⟨b, φ, eo⟩ := x
    obtain ⟨hb, hφ, heo⟩ := (zip3_getElem? _ _ _ _ _).mp hz
    simp only [hz, Option.map_some, Option.some.injEq] at h
    obtain ⟨olde, oldn⟩ := eo
    simp only [List.getElem?_zip_eq_some] at heo
    exact ⟨b, φ, olde, oldn, hb, hφ, heo.1, heo.2, h.symm, by simp⟩

/-- `placeOne` either keeps the node (mutation not in a block) or moves it to the child of one of the
two edges of its block. -/
theorem placeOne_cases (half : β) (child : Array Nat) (bedges : Array (Nat × Nat))
    (b : Option Nat) (φ : Option β) (old : Option Nat × Nat) :
    (b = none ∧ placeOne half child bedges b φ old = old) ∨
    ∃ b', b = some b' ∧
      ((placeOne half child bedges b φ old = (some (aget bedges b').1, aget child (aget bedges b').1)) ∨
       (placeOne half child bedges b φ old = (some (aget bedges b').2, aget child (aget bedges b').2))) := by
  cases b with
  | none => left; exact ⟨rfl, rfl⟩
  | some b' =>
    right
    refine ⟨b', rfl, ?_⟩
    simp only [placeOne, placedEdge]
    cases φ with
    | none => left; rfl
    | some p =>
      by_cases hp : p < half
      · right; simp [hp]
      · left; simp [hp]

end

end Tsdate.Blocks
