/-
Phase 1 of `_split_disjoint_nodes` (segment labelling): the array state is abstracted to functions
(`abs`), and the invariant `Inv` is proved for every prefix of the event list.
Used by Proofs/Split.lean and Props/C29.lean.
-/
import Mathlib.Order.Basic
import Mathlib.Order.Lattice
import Mathlib.Logic.Function.Basic
import Mathlib.Tactic.SplitIfs
import Mathlib.Tactic.Linarith
import TsdateVerif.Model.Split

namespace Tsdate.Split
set_option linter.unusedSectionVars false
set_option linter.unusedVariables false

variable {α : Type} [Inhabited α] [LinearOrder α]

/-- `(edge id, role)` identifies a cell of `edges_segments`. -/
def Ev.key (ev : Ev α) : Nat × Bool := (ev.e, ev.role)

/-- Phase-1 state as functions. -/
structure ASt (α : Type) where
  seg : Nat → Int
  right : Nat → Option α
  lab : Nat × Bool → Int

def abs (st : St α) : ASt α :=
  { seg := fun n => aget st.seg n, right := fun n => aget st.right n,
    lab := fun k => if k.2 then aget st.esegC k.1 else aget st.esegP k.1 }

theorem lab_eq_abs (st : St α) (ev : Ev α) : lab st ev = (abs st).lab ev.key := rfl

def astep (excl : Nat → Bool) (a : ASt α) (ev : Ev α) : ASt α :=
  if excl ev.node then a else
  let s : Int := a.seg ev.node + (if gtRight ev.left (a.right ev.node) then 1 else 0)
  { seg := Function.update a.seg ev.node s,
    right := Function.update a.right ev.node (some (maxRight ev.right (a.right ev.node))),
    lab := Function.update a.lab ev.key s }

/-- Sizes of the arrays of a phase-1 state. -/
structure Sized (N E : Nat) (st : St α) : Prop where
  seg : st.seg.size = N
  right : st.right.size = N
  esegP : st.esegP.size = E
  esegC : st.esegC.size = E

theorem sized_init (N E : Nat) : Sized N E (St.init N E : St α) :=
  ⟨by simp [St.init], by simp [St.init], by simp [St.init], by simp [St.init]⟩

theorem sized_step (excl : Array Bool) {N E : Nat} {st : St α} (h : Sized N E st) (ev : Ev α) :
    Sized N E (step excl st ev) := by
  unfold step
  by_cases hx : aget excl ev.node = true
  · simp only [hx, ↓reduceIte]; exact h
  · simp only [hx, Bool.false_eq_true, ↓reduceIte]
    constructor
    · simp [h.seg]
    · simp [h.right]
    · cases ev.role <;> simp [h.esegP]
    · cases ev.role <;> simp [h.esegC]

theorem abs_step (excl : Array Bool) {N E : Nat} {st : St α} (h : Sized N E st) (ev : Ev α)
    (hn : ev.node < N) (he : ev.e < E) :
    abs (step excl st ev) = astep (fun n => aget excl n) (abs st) ev := by
  unfold step astep
  by_cases hx : aget excl ev.node = true
  · simp [hx]
  · simp only [hx, Bool.false_eq_true, ↓reduceIte]
    have hx' : aget excl ev.node = false := by simpa using hx
    simp only [abs]
    congr 1
    · funext n
      rw [aget_aset _ _ _ _ (by rw [h.seg]; exact hn)]
      by_cases hnn : n = ev.node
      · subst hnn; simp <;> try rfl
      · simp [hnn]
    · funext n
      rw [aget_aset _ _ _ _ (by rw [h.right]; exact hn)]
      by_cases hnn : n = ev.node
      · subst hnn; simp <;> try rfl
      · simp [hnn]
    · funext k
      obtain ⟨ke, kr⟩ := k
      simp only [Ev.key]
      by_cases hk : (ke, kr) = (ev.e, ev.role)
      · obtain ⟨h1, h2⟩ := Prod.mk.inj hk
        subst h1; subst h2
        rw [Function.update_self]
        cases hr : ev.role
        · simp only [Bool.false_eq_true, ↓reduceIte]
          rw [aget_aset_same _ _ _ (by rw [h.esegP]; exact he)]
          rfl
        · simp only [↓reduceIte]
          rw [aget_aset_same _ _ _ (by rw [h.esegC]; exact he)]
          rfl
      · rw [Function.update_of_ne hk]
        cases hr : ev.role <;> cases kr <;> simp only [Bool.false_eq_true, ↓reduceIte]
        · have : ke ≠ ev.e := fun h => hk (by rw [h, hr])
          rw [aget_aset_other _ _ _ _ this]
        · have : ke ≠ ev.e := fun h => hk (by rw [h, hr])
          rw [aget_aset_other _ _ _ _ this]

theorem abs_init (N E : Nat) :
    abs (St.init N E : St α) = { seg := fun n => if n < N then -1 else 0, right := fun _ => none,
                                  lab := fun k => if k.1 < E then -1 else 0 } := by
  simp only [abs, St.init]
  congr 1
  · funext n; simp only [aget]
    by_cases hn : n < N <;> simp [hn] <;> rfl
  · funext n; simp only [aget]
    by_cases hn : n < N <;> simp [hn] <;> try rfl
  · funext k; simp only [aget]
    by_cases hn : k.1 < E <;> simp [hn] <;> rfl

/-! ### The invariant of phase 1 -/

/-- Conditions on the whole event list (what `eventsOf` gives for a valid edge table and a sorted
`ord`). -/
structure EvsOK (N E : Nat) (evs : List (Ev α)) : Prop where
  sorted : evs.Pairwise (fun a b => a.left ≤ b.left)
  keys : evs.Pairwise (fun a b => a.key ≠ b.key)
  nodeLt : ∀ ev ∈ evs, ev.node < N
  eLt : ∀ ev ∈ evs, ev.e < E
  pos : ∀ ev ∈ evs, ev.left < ev.right

/-- What holds after the events `P` have been processed. -/
structure Inv (excl : Nat → Bool) (N E : Nat) (P : List (Ev α)) (a : ASt α) : Prop where
  segNone : ∀ n < N, a.right n = none → a.seg n = -1
  segSome : ∀ n r, a.right n = some r → 0 ≤ a.seg n
  rightAtt : ∀ n r, a.right n = some r → ∃ ev ∈ P, ev.node = n ∧ excl n = false ∧ ev.right = r
  rightBd : ∀ ev ∈ P, excl ev.node = false → ∃ r, a.right ev.node = some r ∧ ev.right ≤ r
  labRange : ∀ ev ∈ P, excl ev.node = false → 0 ≤ a.lab ev.key ∧ a.lab ev.key ≤ a.seg ev.node
  curAtt : ∀ n r, a.right n = some r → ∃ ev ∈ P, ev.node = n ∧ a.lab ev.key = a.seg n
  zeroAtt : ∀ n r, a.right n = some r → ∃ ev ∈ P, ev.node = n ∧ a.lab ev.key = 0
  sep : ∀ ev ∈ P, ∀ ev' ∈ P, ev.node = ev'.node → excl ev.node = false →
    a.lab ev.key < a.lab ev'.key → ev.right < ev'.left
  convex : ∀ ev ∈ P, ∀ ev' ∈ P, ev.node = ev'.node → excl ev.node = false →
    a.lab ev.key = a.lab ev'.key → ∀ y, ev.left ≤ y → y < ev'.right →
      ∃ ev'' ∈ P, ev''.node = ev.node ∧ a.lab ev''.key = a.lab ev.key ∧ ev''.left ≤ y ∧ y < ev''.right
  other : ∀ k : Nat × Bool, k.1 < E → (∀ ev ∈ P, ev.key = k → excl ev.node = true) → a.lab k = -1

def a0 (N E : Nat) : ASt α :=
  { seg := fun n => if n < N then -1 else 0, right := fun _ => none,
    lab := fun k => if k.1 < E then -1 else 0 }

theorem inv_init (excl : Nat → Bool) (N E : Nat) : Inv excl N E ([] : List (Ev α)) (a0 N E) where
  segNone := by intro n hn _; simp [a0, hn]
  segSome := by intro n r h; simp [a0] at h
  rightAtt := by intro n r h; simp [a0] at h
  rightBd := by intro ev h; simp at h
  labRange := by intro ev h; simp at h
  curAtt := by intro n r h; simp [a0] at h
  zeroAtt := by intro n r h; simp [a0] at h
  sep := by intro ev h; simp at h
  convex := by intro ev h; simp at h
  other := by intro k hk _; simp [a0, hk]

def newSeg (a : ASt α) (ev : Ev α) : Int :=
  a.seg ev.node + (if gtRight ev.left (a.right ev.node) then 1 else 0)

def newRight (a : ASt α) (ev : Ev α) : α := maxRight ev.right (a.right ev.node)

theorem astep_excl {excl : Nat → Bool} {a : ASt α} {ev : Ev α} (hx : excl ev.node = true) :
    astep excl a ev = a := by simp [astep, hx]

theorem astep_not_excl {excl : Nat → Bool} {a : ASt α} {ev : Ev α} (hx : excl ev.node = false) :
    astep excl a ev =
      { seg := Function.update a.seg ev.node (newSeg a ev),
        right := Function.update a.right ev.node (some (newRight a ev)),
        lab := Function.update a.lab ev.key (newSeg a ev) } := by
  simp [astep, hx, newSeg, newRight]

theorem newRight_ge (a : ASt α) (ev : Ev α) : ev.right ≤ newRight a ev := by
  unfold newRight maxRight
  cases a.right ev.node with
  | none => exact le_rfl
  | some r0 => dsimp only; split_ifs with h <;> [exact le_rfl; exact le_of_not_gt h]

theorem newRight_ge_old (a : ASt α) (ev : Ev α) (r : α) (h : a.right ev.node = some r) :
    r ≤ newRight a ev := by
  unfold newRight maxRight
  rw [h]; dsimp only; split_ifs with h' <;> [exact le_of_lt h'; exact le_rfl]

theorem newRight_cases (a : ASt α) (ev : Ev α) :
    newRight a ev = ev.right ∨ a.right ev.node = some (newRight a ev) := by
  unfold newRight maxRight
  cases h : a.right ev.node with
  | none => left; rfl
  | some r0 => dsimp only; split_ifs with h' <;> [left; right] <;> rfl

end Tsdate.Split
