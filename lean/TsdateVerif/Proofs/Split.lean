/-
`_split_disjoint_nodes`: from the phase-1 invariant and the allocation lemmas to statements about
the returned arrays (used by Props/C29.lean).
-/
import TsdateVerif.Proofs.SplitInv
import TsdateVerif.Proofs.SplitAlloc

namespace Tsdate.Split
set_option linter.unusedSectionVars false
set_option linter.unusedVariables false

variable {α : Type} [Inhabited α] [LinearOrder α]

/-! ### Vocabulary -/

/-- Endpoint of input edge `e` in role `role` (`false` = parent, `true` = child). -/
def oldNode (es : Array (SEdge α)) (e : Nat) (role : Bool) : Nat :=
  if role then (aget es e).child else (aget es e).parent

/-- Endpoint of output edge `e` in role `role`. -/
def newNode (o : Out) (e : Nat) (role : Bool) : Nat :=
  if role then o.child.getD e 0 else o.parent.getD e 0

/-- `nodes_order[v]`: the input node an output node was copied from. -/
def orig (o : Out) (v : Nat) : Nat := o.order.getD v 0

/-- Edge `e` is in the local tree at position `x`. -/
def covers (es : Array (SEdge α)) (e : Nat) (x : α) : Prop :=
  (aget es e).left ≤ x ∧ x < (aget es e).right

def evOf (es : Array (SEdge α)) (e : Nat) (role : Bool) : Ev α :=
  ⟨e, role, oldNode es e role, (aget es e).left, (aget es e).right⟩

theorem evsOfEdge_eq (es : Array (SEdge α)) (e : Nat) :
    evsOfEdge es e = [evOf es e false, evOf es e true] := rfl

/-- What the kernel needs of its input: `ord` enumerates the edge ids sorted by left coordinate
(`np.argsort(edges_left)`), endpoints are node ids, intervals are non-empty. -/
structure Valid (N : Nat) (es : Array (SEdge α)) (ord : List Nat) : Prop where
  ordNodup : ord.Nodup
  ordLt : ∀ e ∈ ord, e < es.size
  ordAll : ∀ e, e < es.size → e ∈ ord
  ordSorted : ord.Pairwise (fun a b => (aget es a).left ≤ (aget es b).left)
  nodes : ∀ e, e < es.size → (aget es e).parent < N ∧ (aget es e).child < N
  pos : ∀ e, e < es.size → (aget es e).left < (aget es e).right

theorem mem_eventsOf (es : Array (SEdge α)) (ord : List Nat) (ev : Ev α) :
    ev ∈ eventsOf es ord ↔ ∃ e ∈ ord, ∃ role, ev = evOf es e role := by
  simp only [eventsOf, List.mem_flatMap, evsOfEdge_eq, List.mem_cons, List.not_mem_nil, or_false]
  constructor
  · rintro ⟨e, he, h | h⟩
    · exact ⟨e, he, false, h⟩
    · exact ⟨e, he, true, h⟩
  · rintro ⟨e, he, role, h⟩
    cases role
    · exact ⟨e, he, Or.inl h⟩
    · exact ⟨e, he, Or.inr h⟩

theorem oldNode_lt {N : Nat} {es : Array (SEdge α)} {ord : List Nat} (hv : Valid N es ord)
    (e : Nat) (he : e < es.size) (role : Bool) : oldNode es e role < N := by
  unfold oldNode; cases role
  · exact (hv.nodes e he).1
  · exact (hv.nodes e he).2

theorem evsOK {N : Nat} {es : Array (SEdge α)} {ord : List Nat} (hv : Valid N es ord) :
    EvsOK N es.size (eventsOf es ord) := by
  refine ⟨?_, ?_, ?_, ?_, ?_⟩
  · unfold eventsOf
    rw [List.pairwise_flatMap]
    refine ⟨fun e _ => ?_, ?_⟩
    · rw [evsOfEdge_eq]; simp [evOf]
    · refine hv.ordSorted.imp ?_
      intro a b hab x hx y hy
      rw [evsOfEdge_eq] at hx hy
      simp only [List.mem_cons, List.not_mem_nil, or_false] at hx hy
      rcases hx with rfl | rfl <;> rcases hy with rfl | rfl <;> exact hab
  · unfold eventsOf
    rw [List.pairwise_flatMap]
    refine ⟨fun e _ => ?_, ?_⟩
    · rw [evsOfEdge_eq]; simp [evOf, Ev.key]
    · have : ord.Pairwise (fun a b => a ≠ b) := hv.ordNodup
      refine this.imp ?_
      intro a b hab x hx y hy
      rw [evsOfEdge_eq] at hx hy
      simp only [List.mem_cons, List.not_mem_nil, or_false] at hx hy
      rcases hx with rfl | rfl <;> rcases hy with rfl | rfl <;>
        simp [evOf, Ev.key, hab]
  · intro ev hev
    obtain ⟨e, he, role, rfl⟩ := (mem_eventsOf es ord ev).mp hev
    exact oldNode_lt hv e (hv.ordLt e he) role
  · intro ev hev
    obtain ⟨e, he, role, rfl⟩ := (mem_eventsOf es ord ev).mp hev
    exact hv.ordLt e he
  · intro ev hev
    obtain ⟨e, he, role, rfl⟩ := (mem_eventsOf es ord ev).mp hev
    exact hv.pos e (hv.ordLt e he)

/-! ### Arrays ↔ abstract state -/

theorem foldl_abs (excl : Array Bool) {N E : Nat} (evs : List (Ev α))
    (hev : ∀ ev ∈ evs, ev.node < N ∧ ev.e < E) (st : St α) (hs : Sized N E st) :
    abs (evs.foldl (step excl) st) = evs.foldl (astep (fun n => aget excl n)) (abs st) ∧
      Sized N E (evs.foldl (step excl) st) := by
  induction evs generalizing st with
  | nil => exact ⟨rfl, hs⟩
  | cons ev evs ih =>
    simp only [List.foldl_cons]
    have h1 := hev ev (List.mem_cons_self ..)
    have := ih (fun ev' h' => hev ev' (List.mem_cons_of_mem _ h')) (step excl st ev)
      (sized_step excl hs ev)
    rw [abs_step excl hs ev h1.1 h1.2] at this
    exact this

theorem a0_eq (N E : Nat) : abs (St.init N E : St α) = a0 N E := abs_init N E

/-- Final phase-1 state (arrays). -/
def st1 (N : Nat) (excl : Array Bool) (es : Array (SEdge α)) (ord : List Nat) : St α :=
  phase1 excl N es.size (eventsOf es ord)

theorem st1_facts {N : Nat} (excl : Array Bool) {es : Array (SEdge α)} {ord : List Nat}
    (hv : Valid N es ord) :
    Inv (fun n => aget excl n) N es.size (eventsOf es ord) (abs (st1 N excl es ord)) ∧
      Sized N es.size (st1 N excl es ord) := by
  have hok := evsOK hv
  have h := foldl_abs excl (eventsOf es ord) (fun ev hev => ⟨hok.nodeLt ev hev, hok.eLt ev hev⟩)
    (St.init N es.size) (sized_init N es.size)
  rw [a0_eq] at h
  refine ⟨?_, h.2⟩
  have := inv_final (excl := fun n => aget excl n) hok
  unfold st1 phase1
  rw [h.1]
  exact this

/-- The label of edge `e` in role `role`. -/
def labelOf (N : Nat) (excl : Array Bool) (es : Array (SEdge α)) (ord : List Nat) (e : Nat)
    (role : Bool) : Int :=
  lab (st1 N excl es ord) (evOf es e role)

/-- `nodes_segments[n]` at the end of phase 1. -/
def segOf (N : Nat) (excl : Array Bool) (es : Array (SEdge α)) (ord : List Nat) (n : Nat) : Int :=
  aget (st1 N excl es ord).seg n

theorem newNode_eq (N : Nat) (excl : Array Bool) (es : Array (SEdge α)) (ord : List Nat) (e : Nat)
    (he : e < es.size) (role : Bool) :
    newNode (splitDisjoint N excl es ord) e role =
      newId (alloc N (st1 N excl es ord).seg.toList).map (labelOf N excl es ord e role)
        (oldNode es e role) := by
  unfold newNode splitDisjoint labelOf lab evOf oldNode st1
  cases role <;> simp [he]

theorem mem_events_of_lt {N : Nat} {es : Array (SEdge α)} {ord : List Nat} (hv : Valid N es ord)
    (e : Nat) (he : e < es.size) (role : Bool) : evOf es e role ∈ eventsOf es ord :=
  (mem_eventsOf es ord _).mpr ⟨e, hv.ordAll e he, role, rfl⟩

/-- Labels: `-1` for excluded (sample) nodes, `0 … nodes_segments[n]` otherwise. -/
theorem label_range {N : Nat} (excl : Array Bool) {es : Array (SEdge α)} {ord : List Nat}
    (hv : Valid N es ord) (e : Nat) (he : e < es.size) (role : Bool) :
    (aget excl (oldNode es e role) = true → labelOf N excl es ord e role = -1) ∧
    (aget excl (oldNode es e role) = false →
      0 ≤ labelOf N excl es ord e role ∧
      labelOf N excl es ord e role ≤ segOf N excl es ord (oldNode es e role)) := by
  obtain ⟨hinv, hsz⟩ := st1_facts excl hv
  have hok := evsOK hv
  constructor
  · intro hx
    have := hinv.other (e, role) he (by
      intro ev hev hk
      obtain ⟨e', he', role', rfl⟩ := (mem_eventsOf es ord ev).mp hev
      simp only [evOf, Ev.key, Prod.mk.injEq] at hk
      obtain ⟨rfl, rfl⟩ := hk
      exact hx)
    exact this
  · intro hx
    exact hinv.labRange _ (mem_events_of_lt hv e he role) hx

/-- `nodes_order[new id] = old id`, for every endpoint of every edge. -/
theorem orig_newNode {N : Nat} (excl : Array Bool) {es : Array (SEdge α)} {ord : List Nat}
    (hv : Valid N es ord) (e : Nat) (he : e < es.size) (role : Bool) :
    orig (splitDisjoint N excl es ord) (newNode (splitDisjoint N excl es ord) e role)
      = oldNode es e role := by
  obtain ⟨hinv, hsz⟩ := st1_facts excl hv
  have hr := label_range excl hv e he role
  have hn := oldNode_lt hv e he role
  rw [newNode_eq N excl es ord e he role]
  unfold orig
  have : (splitDisjoint N excl es ord).order
      = List.range N ++ (alloc N (st1 N excl es ord).seg.toList).split := rfl
  rw [this, List.getD_eq_getElem?_getD]
  cases hx : aget excl (oldNode es e role)
  · rw [order_newId N _ hsz.seg _ hn _ (hr.2 hx).2]; rfl
  · rw [hr.1 hx, newId_nonpos _ _ _ (by decide), List.getElem?_append_left (by simpa using hn)]
    simp [hn]

end Tsdate.Split
