/-
Soundness of the static checks of Model/Cli.lean: a decidable check on the (generated) program
implies the semantic statement for **every** argument namespace.
-/
import TsdateVerif.Model.Cli

namespace Tsdate.Cli

theorem notNone_false {a : Args} {x : String} (h : (Cond.notNone x).eval a = false) : a x = Val.none := by
  simpa [Cond.eval] using h

theorem covered_sound (a : Args) (kw d : String) :
    ∀ (p : Prog) (neg : List Cond) (nones : List String),
      (∀ c ∈ neg, c.eval a = false) → (∀ x ∈ nones, a x = Val.none) →
      covered p neg nones kw d = true → Faithful p a kw d := by
  intro p
  induction p with
  | error m => intro neg nones _ _ _; simp [Faithful, exec]
  | call fn f kws out =>
    intro neg nones _ hn h
    simp only [covered, Bool.or_eq_true, List.contains_iff_mem] at h
    simp only [Faithful, exec]
    rcases h with h | h
    · left
      exact List.mem_map.mpr ⟨(kw, d), h, rfl⟩
    · right
      exact hn d h
  | ite c t e iht ihe =>
    intro neg nones hneg hn h
    have hn' : ∀ (hc : c.eval a = false), ∀ x ∈ (match c with | .notNone x => x :: nones | _ => nones),
        a x = Val.none := by
      intro hc x hx
      cases c with
      | notNone y =>
        simp only [List.mem_cons] at hx
        rcases hx with rfl | hx
        · exact notNone_false hc
        · exact hn x hx
      | eqStr y s => exact hn x hx
    simp only [covered] at h
    by_cases hmem : neg.contains c = true
    · rw [if_pos hmem] at h
      have hc : c.eval a = false := hneg c (List.contains_iff_mem.mp hmem)
      have := ihe neg _ hneg (hn' hc) h
      simpa [Faithful, exec, hc] using this
    · rw [if_neg hmem] at h
      simp only [Bool.and_eq_true] at h
      cases hc : c.eval a with
      | true =>
        have := iht neg nones hneg hn h.1
        simpa [Faithful, exec, hc] using this
      | false =>
        have := ihe neg _ hneg (hn' hc) h.2
        simpa [Faithful, exec, hc] using this

instance (p : Prog) (a : Args) (kw d : String) : Decidable (Faithful p a kw d) := by
  unfold Faithful
  split <;> infer_instance

theorem ioOk_sound (a : Args) (f out : String) : ∀ (p : Prog), ioOk f out p = true →
    match exec a p with
    | .error _ => True
    | .call _ tsFrom _ dumpTo => tsFrom = a f ∧ dumpTo = a out := by
  intro p
  induction p with
  | error m => intro _; simp [exec]
  | call fn f' kws out' =>
    intro h
    simp only [ioOk, Bool.and_eq_true, beq_iff_eq] at h
    simp [exec, h.1, h.2]
  | ite c t e iht ihe =>
    intro h
    simp only [ioOk, Bool.and_eq_true] at h
    cases hc : c.eval a with
    | true => simpa [exec, hc] using iht h.1
    | false => simpa [exec, hc] using ihe h.2

theorem callsOnly_sound (a : Args) (fn : String) : ∀ (p : Prog), callsOnly fn p = true →
    match exec a p with
    | .error _ => True
    | .call fn' _ _ _ => fn' = fn := by
  intro p
  induction p with
  | error m => intro _; simp [exec]
  | call fn' f kws out =>
    intro h
    simp only [callsOnly, beq_iff_eq] at h
    simp [exec, h]
  | ite c t e iht ihe =>
    intro h
    simp only [callsOnly, Bool.and_eq_true] at h
    cases hc : c.eval a with
    | true => simpa [exec, hc] using iht h.1
    | false => simpa [exec, hc] using ihe h.2

/-- The keywords of the call actually made are among `kwsWhen c pol p` when `c` evaluates to `pol`. -/
theorem kwsWhen_sound (a : Args) (c : Cond) (pol : Bool) (hc : c.eval a = pol) : ∀ (p : Prog),
    match exec a p with
    | .error _ => True
    | .call _ _ kws _ => ∀ kv ∈ kws, kv.1 ∈ kwsWhen c pol p := by
  intro p
  induction p with
  | error m => simp [exec]
  | call fn f kws out =>
    simp only [exec, kwsWhen]
    intro kv hkv
    obtain ⟨kd, hkd, rfl⟩ := List.mem_map.mp hkv
    exact List.mem_map.mpr ⟨kd, hkd, rfl⟩
  | ite c' t e iht ihe =>
    simp only [exec, kwsWhen]
    by_cases hcc : c' = c
    · subst hcc
      rw [if_pos rfl]
      cases pol with
      | true => simpa [hc] using iht
      | false => simpa [hc] using ihe
    · rw [if_neg hcc]
      cases hce : c'.eval a with
      | true =>
        simp only [if_true]
        revert iht
        cases exec a t with
        | error m => simp
        | call fn ts kws out => intro h kv hkv; exact List.mem_append_left _ (h kv hkv)
      | false =>
        simp only [Bool.false_eq_true, if_false]
        revert ihe
        cases exec a e with
        | error m => simp
        | call fn ts kws out => intro h kv hkv; exact List.mem_append_right _ (h kv hkv)

end Tsdate.Cli
