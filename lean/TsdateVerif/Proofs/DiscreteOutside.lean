/-
The outside pass of `Model/Discrete.lean` satisfies order-free equations: the row of every child is
the group computation evaluated on the *final* outside rows of its parents (generic in `Ops`).
-/
import Mathlib.Tactic.SplitIfs
import Mathlib.Data.List.Basic
import TsdateVerif.Proofs.DiscreteInside

namespace Tsdate.Discrete
open Tsdate

/-- Decidable hypothesis on the child groups of the outside pass (`edges_by_child_desc` gives it):
for every non-fixed child, the id is in range, no later group has the same child, and none of the
parents of its edges is the child of this or a later group (parents are finished first). -/
def outGroupsOK (fixed : Array Bool) (n : Nat) : List (Nat × List DEdge) → Bool
  | [] => true
  | g :: rest =>
    (aget fixed g.1 ||
      (decide (g.1 < n) && rest.all (fun g' => g'.1 != g.1) &&
       g.2.all (fun e => e.p != g.1 && rest.all (fun g' => g'.1 != e.p))))
    && outGroupsOK fixed n rest

section
variable {α : Type} [Inhabited α]

/-- the accumulated `val` of one child group -/
def outVal (o : Ops α) (inp : Input α) (s : InsideState α) (std ign : Bool)
    (outside : Array (Array α)) (g : Nat × List DEdge) : List α :=
  g.2.foldl (outsideEdge o inp s std ign outside) (List.replicate inp.G o.one)

/-- the row written for one child group -/
def outRow (o : Ops α) (inp : Input α) (s : InsideState α) (std ign : Bool)
    (outside : Array (Array α)) (g : Nat × List DEdge) : List α :=
  if std then (outVal o inp s std ign outside g).map
      (fun v => o.ratio v (o.maxl (outVal o inp s std ign outside g)))
  else (outVal o inp s std ign outside g).map (fun v => o.ratio v (aget s.denom g.1))

theorem outsideGroup_eq (o : Ops α) (inp : Input α) (s : InsideState α) (std ign : Bool)
    (outside : Array (Array α)) (g : Nat × List DEdge) (h : aget inp.fixed g.1 = false) :
    outsideGroup o inp s std ign outside g
      = aset outside g.1 (outRow o inp s std ign outside g).toArray := by
  unfold outsideGroup outRow outVal
  rw [if_neg (by simp [h])]

theorem outsideGroup_fixed (o : Ops α) (inp : Input α) (s : InsideState α) (std ign : Bool)
    (outside : Array (Array α)) (g : Nat × List DEdge) (h : aget inp.fixed g.1 = true) :
    outsideGroup o inp s std ign outside g = outside := by
  unfold outsideGroup; rw [if_pos h]

theorem outsideEdge_congr (o : Ops α) (inp : Input α) (s : InsideState α) (std ign : Bool)
    (o1 o2 : Array (Array α)) (val : List α) (e : DEdge) (h : aget o1 e.p = aget o2 e.p) :
    outsideEdge o inp s std ign o1 val e = outsideEdge o inp s std ign o2 val e := by
  unfold outsideEdge
  rw [h]

theorem outRow_congr (o : Ops α) (inp : Input α) (s : InsideState α) (std ign : Bool)
    (o1 o2 : Array (Array α)) (g : Nat × List DEdge) (h : ∀ e ∈ g.2, aget o1 e.p = aget o2 e.p) :
    outRow o inp s std ign o1 g = outRow o inp s std ign o2 g := by
  have hv : outVal o inp s std ign o1 g = outVal o inp s std ign o2 g := by
    unfold outVal
    generalize List.replicate inp.G o.one = v
    revert h
    generalize g.2 = es
    intro h
    induction es generalizing v with
    | nil => rfl
    | cons e es ih =>
      simp only [List.foldl_cons]
      rw [outsideEdge_congr o inp s std ign o1 o2 v e (h e (List.mem_cons_self ..))]
      exact ih _ (fun e' he' => h e' (List.mem_cons_of_mem _ he'))
  unfold outRow
  rw [hv]

theorem outsideGroup_other (o : Ops α) (inp : Input α) (s : InsideState α) (std ign : Bool)
    (outside : Array (Array α)) (g : Nat × List DEdge) (u : Nat)
    (hu : aget inp.fixed g.1 = false → u ≠ g.1) :
    aget (outsideGroup o inp s std ign outside g) u = aget outside u := by
  by_cases h : aget inp.fixed g.1 = true
  · rw [outsideGroup_fixed o inp s std ign outside g h]
  · have h' : aget inp.fixed g.1 = false := by simpa using h
    rw [outsideGroup_eq o inp s std ign outside g h']
    exact aget_aset_other _ _ _ _ (hu h')

theorem outsideGroup_size (o : Ops α) (inp : Input α) (s : InsideState α) (std ign : Bool)
    (outside : Array (Array α)) (g : Nat × List DEdge) :
    (outsideGroup o inp s std ign outside g).size = outside.size := by
  by_cases h : aget inp.fixed g.1 = true
  · rw [outsideGroup_fixed o inp s std ign outside g h]
  · rw [outsideGroup_eq o inp s std ign outside g (by simpa using h)]; simp

/-- the fold of the outside pass -/
def outsideFold (o : Ops α) (inp : Input α) (s : InsideState α) (std ign : Bool)
    (gs : List (Nat × List DEdge)) (out : Array (Array α)) : Array (Array α) :=
  gs.foldl (outsideGroup o inp s std ign) out

theorem outsideFold_other (o : Ops α) (inp : Input α) (s : InsideState α) (std ign : Bool)
    (gs : List (Nat × List DEdge)) (out : Array (Array α)) (u : Nat)
    (hu : ∀ g ∈ gs, aget inp.fixed g.1 = false → u ≠ g.1) :
    aget (outsideFold o inp s std ign gs out) u = aget out u := by
  induction gs generalizing out with
  | nil => rfl
  | cons g rest ih =>
    show aget (outsideFold o inp s std ign rest (outsideGroup o inp s std ign out g)) u = _
    rw [ih _ (fun g' hg' => hu g' (List.mem_cons_of_mem _ hg'))]
    exact outsideGroup_other o inp s std ign out g u (hu g (List.mem_cons_self ..))

theorem outsideFold_size (o : Ops α) (inp : Input α) (s : InsideState α) (std ign : Bool)
    (gs : List (Nat × List DEdge)) (out : Array (Array α)) :
    (outsideFold o inp s std ign gs out).size = out.size := by
  induction gs generalizing out with
  | nil => rfl
  | cons g rest ih =>
    show (outsideFold o inp s std ign rest (outsideGroup o inp s std ign out g)).size = _
    rw [ih, outsideGroup_size]

/-- **The outside pass satisfies its equations for any parents-first edge order**: for every
non-fixed child `g.1`, the final outside row is the group computation evaluated on the final rows. -/
theorem outsideFold_spec (o : Ops α) (inp : Input α) (s : InsideState α) (std ign : Bool)
    (gs : List (Nat × List DEdge)) (out : Array (Array α))
    (hok : outGroupsOK inp.fixed out.size gs = true) :
    ∀ g ∈ gs, aget inp.fixed g.1 = false →
      aget (outsideFold o inp s std ign gs out) g.1
        = (outRow o inp s std ign (outsideFold o inp s std ign gs out) g).toArray := by
  induction gs generalizing out with
  | nil => intro g hg; cases hg
  | cons g0 rest ih =>
    simp only [outGroupsOK, Bool.and_eq_true] at hok
    obtain ⟨hhead, hrest⟩ := hok
    have ih' := ih (outsideGroup o inp s std ign out g0)
      (by rw [outsideGroup_size]; exact hrest)
    intro g hg hfix
    rcases List.mem_cons.mp hg with rfl | hg'
    · simp only [hfix, Bool.false_or, Bool.and_eq_true, decide_eq_true_eq, List.all_eq_true,
        bne_iff_ne, ne_eq] at hhead
      obtain ⟨⟨hlt, hnodup⟩, hpar⟩ := hhead
      show aget (outsideFold o inp s std ign rest (outsideGroup o inp s std ign out g)) g.1 = _
      rw [outsideFold_other o inp s std ign rest _ g.1 (fun g' hg' _ => fun h => hnodup g' hg' h.symm),
        outsideGroup_eq o inp s std ign out g hfix, aget_aset_same _ _ _ hlt]
      congr 1
      apply outRow_congr
      intro e he
      have hp := hpar e he
      show _ = aget (outsideFold o inp s std ign rest (outsideGroup o inp s std ign out g)) e.p
      rw [outsideFold_other o inp s std ign rest _ e.p (fun g' hg' _ => fun h => hp.2 g' hg' h.symm),
        outsideGroup_other o inp s std ign out g e.p (fun _ => hp.1)]
    · exact ih' g hg' hfix

end
end Tsdate.Discrete
