/-
Lemmas about the EP bookkeeping model (`Model/EP.lean`), used by Props/C21, C20, C05.

Part 1: the algebra of `_assemble_factors` (`accTo`, `assemble`) under a single-row update.
Part 2: the invariant `Inv` (sizes, `Assembled`: posterior = scale · Σ messages, scale ≠ 0) is preserved by
        every piece of `propagate_likelihood`, `propagate_prior`, `_rescale_factors`, for *arbitrary* projection
        results and damping factors.
-/
import Mathlib.Algebra.Order.Field.Basic
import Mathlib.Algebra.Group.Prod
import Mathlib.Tactic.Ring
import Mathlib.Tactic.FieldSimp
import Mathlib.Tactic.Linarith
import Mathlib.Tactic.SplitIfs
import Mathlib.Tactic.Abel
import TsdateVerif.Model.EP

namespace Tsdate.EP
set_option linter.unusedSectionVars false
set_option linter.unusedVariables false

variable {α : Type} [Inhabited α] [Field α] [LinearOrder α] [IsStrictOrderedRing α]

/-! ### small facts -/

theorem padd_eq (x y : α × α) : padd x y = x + y := rfl
theorem pzero_eq : (pzero : α × α) = 0 := rfl

theorem isZero_iff (x : α) : isZero x = true ↔ x = 0 := by
  unfold isZero
  rw [Bool.and_eq_true, decide_eq_true_iff, decide_eq_true_iff]
  constructor
  · rintro ⟨a, b⟩; exact le_antisymm a b
  · rintro rfl; exact ⟨le_rfl, le_rfl⟩

theorem pIsZero_iff (x : α × α) : pIsZero x = true ↔ x = 0 := by
  simp [pIsZero, isZero_iff, Prod.ext_iff]

/-- `_rescale` never returns 0 (indeed it is positive) as soon as `max_shape > 1` — for *any* argument. -/
theorem rescale_pos (x : α × α) (s : α) (hs : 1 < s) : 0 < rescale x s := by
  unfold rescale
  split_ifs with h0 h1 h2
  · exact one_pos
  · apply div_pos <;> linarith
  · have h3 : 1 / s < 1 := by rw [div_lt_one (by linarith)]; exact hs
    apply div_pos_of_neg_of_neg <;> linarith
  · exact one_pos

theorem aget_replicate {β : Type} [Inhabited β] (n k : Nat) (v : β) (h : k < n) :
    aget (Array.replicate n v) k = v := by
  simp [aget, h]

theorem aget_mapIdx {β γ : Type} [Inhabited β] [Inhabited γ] (a : Array β) (f : Nat → β → γ) (k : Nat)
    (h : k < a.size) : aget (a.mapIdx f) k = f k (aget a k) := by
  simp [aget, h]

/-! ### `_assemble_factors` -/

/-- What row `k` of a factor table contributes to node `n`. -/
def rowC (par chi : Array Nat) (fac : Array (Msg α)) (n k : Nat) : α × α :=
  (if aget par k = n then (aget fac k).r else 0) + (if aget chi k = n then (aget fac k).l else 0)

theorem accTo_succ (par chi : Array Nat) (fac : Array (Msg α)) (n : Nat) (acc : α × α) (k : Nat) :
    accTo par chi fac n acc (k + 1) = accTo par chi fac n acc k + rowC par chi fac n k := by
  simp only [accTo, rowC, padd_eq]
  split_ifs <;> simp [add_assoc]

theorem accTo_acc (par chi : Array Nat) (fac : Array (Msg α)) (n : Nat) (acc d : α × α) (K : Nat) :
    accTo par chi fac n (acc + d) K = accTo par chi fac n acc K + d := by
  induction K with
  | zero => rfl
  | succ k ih => rw [accTo_succ, accTo_succ, ih]; abel

theorem rowC_aset_other (par chi : Array Nat) (fac : Array (Msg α)) (n i k : Nat) (m : Msg α)
    (h : k ≠ i) : rowC par chi (aset fac i m) n k = rowC par chi fac n k := by
  simp only [rowC, aget_aset_other _ _ _ _ h]

theorem rowC_aset_same (par chi : Array Nat) (fac : Array (Msg α)) (n i : Nat) (m : Msg α)
    (h : i < fac.size) :
    rowC par chi (aset fac i m) n i =
      (if aget par i = n then m.r else 0) + (if aget chi i = n then m.l else 0) := by
  simp only [rowC, aget_aset_same _ _ _ h]

/-- Effect of overwriting row `i` on the accumulated sum. -/
theorem accTo_aset (par chi : Array Nat) (fac : Array (Msg α)) (n : Nat) (acc : α × α) (i : Nat)
    (m : Msg α) (K : Nat) :
    accTo par chi (aset fac i m) n acc K =
      accTo par chi fac n acc K +
        (if i < K then rowC par chi (aset fac i m) n i - rowC par chi fac n i else 0) := by
  induction K with
  | zero => simp [accTo]
  | succ k ih =>
    rw [accTo_succ, accTo_succ, ih]
    by_cases h1 : i < k
    · have h2 : i < k + 1 := by omega
      have h3 : k ≠ i := by omega
      rw [if_pos h1, if_pos h2, rowC_aset_other _ _ _ _ _ _ _ h3]; abel
    · by_cases h2 : i = k
      · subst h2
        rw [if_neg h1, if_pos (by omega)]; abel
      · have h3 : ¬ i < k + 1 := by omega
        have h4 : k ≠ i := fun h => h2 h.symm
        rw [if_neg h1, if_neg h3, rowC_aset_other _ _ _ _ _ _ _ h4]; abel

/-- Sum of the messages of one table addressed to `n`. -/
def tot (par chi : Array Nat) (fac : Array (Msg α)) (n : Nat) : α × α :=
  accTo par chi fac n 0 fac.size

theorem tot_aset (par chi : Array Nat) (fac : Array (Msg α)) (n i : Nat) (m : Msg α)
    (h : i < fac.size) :
    tot par chi (aset fac i m) n =
      tot par chi fac n +
        ((if aget par i = n then m.r - (aget fac i).r else 0) +
         (if aget chi i = n then m.l - (aget fac i).l else 0)) := by
  unfold tot
  rw [size_aset, accTo_aset, if_pos h, rowC_aset_same _ _ _ _ _ _ h, rowC]
  congr 1
  split_ifs <;> abel

theorem assemble_eq (net : Net α) (s : State α) (n : Nat) :
    assemble net s n =
      tot net.ep net.ec s.edge n + tot net.bj net.bk s.block n + (aget s.node n).r + (aget s.node n).l := by
  simp only [assemble, padd_eq, pzero_eq, tot]
  have := accTo_acc net.bj net.bk s.block n 0 (accTo net.ep net.ec s.edge n 0 s.edge.size) s.block.size
  rw [zero_add] at this
  rw [this]; abel

/-! ### the invariant -/

/-- Array sizes are consistent with `N` nodes. -/
structure Sizes (net : Net α) (s : State α) (N : Nat) : Prop where
  node : s.node.size = N
  scale : s.scale.size = N
  post : s.post.size = N
  edge : s.edge.size = net.ep.size
  block : s.block.size = net.bj.size

/-- Every node id stored in the static tables is `< N`. -/
structure NetOK (net : Net α) (N : Nat) : Prop where
  ep : ∀ i, i < net.ep.size → aget net.ep i < N
  ec : ∀ i, i < net.ep.size → aget net.ec i < N
  bj : ∀ i, i < net.bj.size → aget net.bj i < N
  bk : ∀ i, i < net.bj.size → aget net.bk i < N

/-- **The bookkeeping identity**: `posterior[n] = scale[n] · _assemble_factors(factors)[n]`. -/
def Assembled (net : Net α) (s : State α) (N : Nat) : Prop :=
  ∀ n, n < N → aget s.post n = message (assemble net s n) (aget s.scale n)

def ScaleNZ (s : State α) (N : Nat) : Prop := ∀ n, n < N → aget s.scale n ≠ 0

structure Inv (net : Net α) (s : State α) (N : Nat) : Prop where
  sizes : Sizes net s N
  asm : Assembled net s N
  nz : ScaleNZ s N

theorem facOf_size (net : Net α) (s : State α) (N : Nat) (h : Sizes net s N) (u : Bool) :
    (facOf u s).size = (parOf u net).size := by
  cases u <;> simp [facOf, parOf, h.edge, h.block]

theorem netOK_par (net : Net α) (N : Nat) (h : NetOK net N) (u : Bool) (i : Nat)
    (hi : i < (parOf u net).size) : aget (parOf u net) i < N ∧ aget (chiOf u net) i < N := by
  cases u
  · exact ⟨h.ep i hi, h.ec i hi⟩
  · exact ⟨h.bj i hi, h.bk i hi⟩

/-- `assemble` after overwriting row `i` of the edge (`u = false`) or block (`u = true`) table. -/
theorem assemble_setFac (net : Net α) (s : State α) (u : Bool) (i : Nat) (f' : Msg α)
    (hi : i < (facOf u s).size) (m : Nat) :
    assemble net (setFac u s (aset (facOf u s) i f')) m =
      assemble net s m +
        ((if aget (parOf u net) i = m then f'.r - (aget (facOf u s) i).r else 0) +
         (if aget (chiOf u net) i = m then f'.l - (aget (facOf u s) i).l else 0)) := by
  cases u
  · simp only [facOf, setFac, parOf, chiOf, Bool.false_eq_true, if_false] at hi ⊢
    rw [assemble_eq, assemble_eq, tot_aset _ _ _ _ _ _ hi]; abel
  · simp only [facOf, setFac, parOf, chiOf, if_true] at hi ⊢
    rw [assemble_eq, assemble_eq, tot_aset _ _ _ _ _ _ hi]; abel

/-- A write of `(f', po, sc)` at row `i` / node `n`: the shape of every update of `propagate_likelihood`. -/
def writeEnd (u : Bool) (i : Nat) (f' : Msg α) (n : Nat) (po : α × α) (sc : α) (s : State α) : State α :=
  let s1 := setFac u s (aset (facOf u s) i f')
  { s1 with post := aset s1.post n po, scale := aset s1.scale n sc }

theorem writeEnd_post (u : Bool) (i : Nat) (f' : Msg α) (n : Nat) (po : α × α) (sc : α) (s : State α) :
    (writeEnd u i f' n po sc s).post = aset s.post n po := by
  cases u <;> rfl

theorem writeEnd_scale (u : Bool) (i : Nat) (f' : Msg α) (n : Nat) (po : α × α) (sc : α) (s : State α) :
    (writeEnd u i f' n po sc s).scale = aset s.scale n sc := by
  cases u <;> rfl

theorem writeEnd_node (u : Bool) (i : Nat) (f' : Msg α) (n : Nat) (po : α × α) (sc : α) (s : State α) :
    (writeEnd u i f' n po sc s).node = s.node := by
  cases u <;> rfl

theorem writeEnd_fac (u : Bool) (i : Nat) (f' : Msg α) (n : Nat) (po : α × α) (sc : α) (s : State α) :
    facOf u (writeEnd u i f' n po sc s) = aset (facOf u s) i f' := by
  cases u <;> rfl

theorem writeEnd_fac_other (u : Bool) (i : Nat) (f' : Msg α) (n : Nat) (po : α × α) (sc : α) (s : State α) :
    facOf (!u) (writeEnd u i f' n po sc s) = facOf (!u) s := by
  cases u <;> rfl

theorem assemble_writeEnd (net : Net α) (u : Bool) (i : Nat) (f' : Msg α) (n : Nat) (po : α × α) (sc : α)
    (s : State α) (hi : i < (facOf u s).size) (m : Nat) :
    assemble net (writeEnd u i f' n po sc s) m =
      assemble net s m +
        ((if aget (parOf u net) i = m then f'.r - (aget (facOf u s) i).r else 0) +
         (if aget (chiOf u net) i = m then f'.l - (aget (facOf u s) i).l else 0)) := by
  rw [← assemble_setFac net s u i f' hi m]
  rfl

theorem sizes_writeEnd (net : Net α) (u : Bool) (i : Nat) (f' : Msg α) (n : Nat) (po : α × α) (sc : α)
    (s : State α) (N : Nat) (h : Sizes net s N) : Sizes net (writeEnd u i f' n po sc s) N := by
  cases u
  · exact ⟨h.node, by simp [writeEnd, setFac, h.scale], by simp [writeEnd, setFac, h.post],
      by simp [writeEnd, setFac, facOf, h.edge], h.block⟩
  · exact ⟨h.node, by simp [writeEnd, setFac, h.scale], by simp [writeEnd, setFac, h.post],
      h.edge, by simp [writeEnd, setFac, facOf, h.block]⟩

/-- The scalar identity behind every EP update: with `post = T·sc` (the invariant), cavity
`post − δ·(f·sc)`, new factor `f·(1−δ) + (proj − cavity)/sc`, new posterior `proj·η` and new scale `sc·η`,
the invariant holds again — for every `δ`, `η`, `proj`. -/
theorem update_scalar (T f sc d proj eta post : α) (hsc : sc ≠ 0) (hpost : post = T * sc) :
    proj * eta = (T + (f * (1 - d) + (proj - (post - d * (f * sc))) / sc - f)) * (sc * eta) := by
  subst hpost
  field_simp
  ring

/-- One end of an edge update keeps the invariant, whatever the projection returned. -/
theorem writeEnd_update_inv (net : Net α) (N : Nat) (u : Bool) (i : Nat) (slotL : Bool) (n : Nat)
    (d eta : α) (proj : α × α) (s : State α) (hinv : Inv net s N) (hi : i < (facOf u s).size)
    (hn : n < N) (heta : eta ≠ 0)
    (haddr : (if slotL then aget (chiOf u net) i else aget (parOf u net) i) = n) :
    let f := aget (facOf u s) i
    let sc := aget s.scale n
    let old := if slotL then f.l else f.r
    let cav := cavity (aget s.post n) (message old sc) d
    let f' : Msg α := if slotL then ⟨f.r, newFactor f.l d proj cav sc⟩ else ⟨newFactor f.r d proj cav sc, f.l⟩
    Inv net (writeEnd u i f' n (scalePost proj eta) (sc * eta) s) N := by
  intro f sc old cav f'
  have hsz := hinv.sizes
  have hnp : n < s.post.size := by rw [hsz.post]; exact hn
  have hns : n < s.scale.size := by rw [hsz.scale]; exact hn
  have hscnz : sc ≠ 0 := hinv.nz n hn
  have hfdef : aget (facOf u s) i = f := rfl
  refine ⟨sizes_writeEnd net u i f' n _ _ s N hsz, ?_, ?_⟩
  · intro m hm
    rw [assemble_writeEnd net u i f' n _ _ s hi m, writeEnd_post, writeEnd_scale]
    by_cases hmn : m = n
    · subst hmn
      rw [aget_aset_same _ _ _ hnp, aget_aset_same _ _ _ hns]
      have hA := hinv.asm m hm
      cases slotL
      · -- ROOTWARD slot: `par i = m`
        simp only [Bool.false_eq_true, if_false] at haddr
        have hf' : f' = ⟨newFactor f.r d proj cav sc, f.l⟩ := rfl
        rw [hf', if_pos haddr]
        simp only [hfdef, sub_self, ite_self, add_zero]
        apply Prod.ext
        · simp only [scalePost, message, newFactor, Prod.fst_add, Prod.fst_sub]
          have h1 : (aget s.post m).1 = (assemble net s m).1 * sc := by rw [hA]; rfl
          exact update_scalar _ _ _ _ _ _ _ hscnz h1
        · simp only [scalePost, message, newFactor, Prod.snd_add, Prod.snd_sub]
          have h1 : (aget s.post m).2 = (assemble net s m).2 * sc := by rw [hA]; rfl
          exact update_scalar _ _ _ _ _ _ _ hscnz h1
      · simp only [if_true] at haddr
        have hf' : f' = ⟨f.r, newFactor f.l d proj cav sc⟩ := rfl
        rw [hf', if_pos haddr]
        simp only [hfdef, sub_self, ite_self, zero_add]
        apply Prod.ext
        · simp only [scalePost, message, newFactor, Prod.fst_add, Prod.fst_sub]
          have h1 : (aget s.post m).1 = (assemble net s m).1 * sc := by rw [hA]; rfl
          exact update_scalar _ _ _ _ _ _ _ hscnz h1
        · simp only [scalePost, message, newFactor, Prod.snd_add, Prod.snd_sub]
          have h1 : (aget s.post m).2 = (assemble net s m).2 * sc := by rw [hA]; rfl
          exact update_scalar _ _ _ _ _ _ _ hscnz h1
    · rw [aget_aset_other _ _ _ _ hmn, aget_aset_other _ _ _ _ hmn, hinv.asm m hm]
      have hne : n ≠ m := fun h => hmn h.symm
      cases slotL
      · simp only [Bool.false_eq_true, if_false] at haddr
        have hf' : f' = ⟨newFactor f.r d proj cav sc, f.l⟩ := rfl
        rw [hf', if_neg (by rw [haddr]; exact hne)]
        simp [hfdef]
      · simp only [if_true] at haddr
        have hf' : f' = ⟨f.r, newFactor f.l d proj cav sc⟩ := rfl
        rw [hf']
        simp only [hfdef, sub_self, ite_self, zero_add]
        rw [if_neg (by rw [haddr]; exact hne)]
        simp
  · intro m hm
    rw [writeEnd_scale]
    by_cases hmn : m = n
    · subst hmn
      rw [aget_aset_same _ _ _ hns]
      exact mul_ne_zero hscnz heta
    · rw [aget_aset_other _ _ _ _ hmn]
      exact hinv.nz m hm

end Tsdate.EP
