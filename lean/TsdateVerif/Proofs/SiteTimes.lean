/-
Lemmas about the site-time models (used by Props/C31).
-/
import Mathlib.Order.Basic
import Mathlib.Order.Lattice
import Mathlib.Order.MinMax
import Mathlib.Algebra.Group.Defs
import Mathlib.Tactic.SplitIfs
import TsdateVerif.Model.SiteTimes

namespace Tsdate.SiteTimes
set_option linter.unusedSectionVars false
set_option linter.unusedVariables false

section Order
variable {α : Type} [LinearOrder α]

theorem upd_some (v a : α) : upd (some v) a = some (max v a) := by
  unfold upd; dsimp only
  split_ifs with h
  · rw [max_eq_right (le_of_lt h)]
  · rw [max_eq_left (le_of_not_gt h)]

theorem foldl_upd_some (v : α) (ages : List α) :
    ages.foldl upd (some v) = some (ages.foldl max v) := by
  induction ages generalizing v with
  | nil => rfl
  | cons a as ih => simp only [List.foldl_cons, upd_some, ih]

theorem foldl_upd_none (ages : List α) :
    ages.foldl upd none = match ages with
      | [] => none
      | a :: as => some (as.foldl max a) := by
  cases ages with
  | nil => rfl
  | cons a as => simp only [List.foldl_cons]; exact foldl_upd_some a as

theorem floorMin_some (m v : α) : floorMin m (some v) = some (max m v) := by
  unfold floorMin; simp only [Option.map_some]
  split_ifs with h
  · rw [max_eq_left (le_of_lt h)]
  · rw [max_eq_right (le_of_not_gt h)]

theorem le_foldl_max (v : α) (as : List α) : v ≤ as.foldl max v ∧ ∀ a ∈ as, a ≤ as.foldl max v := by
  induction as generalizing v with
  | nil => exact ⟨le_rfl, fun a h => by simp at h⟩
  | cons b bs ih =>
    simp only [List.foldl_cons]
    obtain ⟨h1, h2⟩ := ih (max v b)
    refine ⟨le_trans (le_max_left v b) h1, ?_⟩
    intro a ha
    rcases List.mem_cons.mp ha with rfl | ha
    · exact le_trans (le_max_right v a) h1
    · exact h2 a ha

theorem foldl_max_mem (v : α) (as : List α) : as.foldl max v = v ∨ as.foldl max v ∈ as := by
  induction as generalizing v with
  | nil => left; rfl
  | cons b bs ih =>
    simp only [List.foldl_cons]
    rcases ih (max v b) with h | h
    · rcases max_choice v b with hm | hm
      · left; rw [h, hm]
      · right; rw [h, hm]; exact List.mem_cons_self ..
    · right; exact List.mem_cons_of_mem _ h

end Order

section Ntu
variable {α : Type} [Inhabited α]

theorem ntuGo_some (isSample : Array Bool) (time : Array α) (mn : Array (Option α)) (is : List Nat)
    (out : List α) (h : ntuGo isSample time mn is = some out) :
    out.length = is.length ∧ ∀ k (hk : k < is.length) (hk' : k < out.length),
      (aget isSample is[k] = true → out[k] = aget time is[k]) ∧
      (aget isSample is[k] = false → aget mn is[k] = some out[k]) := by
  induction is generalizing out with
  | nil => simp only [ntuGo, Option.some.injEq] at h; subst h; exact ⟨rfl, fun k hk => by simp at hk⟩
  | cons i is ih =>
    simp only [ntuGo] at h
    split at h
    · cases h
    · rename_i t ht
      cases hr : ntuGo isSample time mn is with
      | none => rw [hr] at h; simp at h
      | some rest =>
        rw [hr] at h; simp only [Option.map_some, Option.some.injEq] at h; subst h
        obtain ⟨hl, hrest⟩ := ih rest hr
        refine ⟨by simp [hl], ?_⟩
        intro k hk hk'
        cases k with
        | zero =>
          simp only [List.getElem_cons_zero]
          constructor
          · intro hs; rw [if_pos hs] at ht; exact (Option.some.inj ht).symm
          · intro hs; rw [if_neg (by simp [hs])] at ht; exact ht
        | succ k =>
          simp only [List.getElem_cons_succ]
          exact hrest k (by simpa using hk) (by simpa using hk')

theorem ntuGo_none (isSample : Array Bool) (time : Array α) (mn : Array (Option α)) (is : List Nat) :
    ntuGo isSample time mn is = none ↔ ∃ i ∈ is, aget isSample i = false ∧ aget mn i = none := by
  induction is with
  | nil => simp [ntuGo]
  | cons i is ih =>
    simp only [ntuGo, List.mem_cons, exists_eq_or_imp]
    cases hs : aget isSample i
    · simp only [Bool.false_eq_true, ↓reduceIte, true_and]
      cases hm : aget mn i with
      | none => simp
      | some t => simp [ih]
    · simp [ih]

end Ntu

end Tsdate.SiteTimes
