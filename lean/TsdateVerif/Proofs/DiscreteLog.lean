/-
Log-space operations of `LogLikelihoods` as the image of the linear ones (used by Props/C12).

`E : β → α` is "exp extended by `E (-∞) = 0`".  The laws it has to satisfy are collected in
`LogLaws`; they are hypotheses of the theorems (never axioms) and are shown satisfiable by the
concrete carrier `Option ℝ` with `Real.exp` in Props/C12.
-/
import Mathlib.Algebra.Order.Field.Basic
import Mathlib.Algebra.BigOperators.Group.List.Basic
import Mathlib.Algebra.Order.BigOperators.Group.List
import Mathlib.Tactic.Ring
import Mathlib.Tactic.Linarith
import Mathlib.Tactic.Positivity
import Mathlib.Tactic.FieldSimp
import Mathlib.Tactic.SplitIfs
import TsdateVerif.Model.Discrete

namespace Tsdate.Discrete
open Tsdate
set_option linter.unusedSectionVars false

/-- A sum of non-negative terms is zero only if every term is. -/
theorem list_sum_eq_zero_nonneg {α : Type} [Field α] [LinearOrder α] [IsStrictOrderedRing α] :
    ∀ (l : List α), (∀ y ∈ l, 0 ≤ y) → l.sum = 0 → ∀ y ∈ l, y = 0
  | [], _, _ => by simp
  | x :: l, hnn, hs => by
    have hx : 0 ≤ x := hnn x (List.mem_cons_self ..)
    have hl : 0 ≤ l.sum := List.sum_nonneg (fun y hy => hnn y (List.mem_cons_of_mem _ hy))
    rw [List.sum_cons] at hs
    have hx0 : x = 0 := by linarith
    have hl0 : l.sum = 0 := by linarith
    intro y hy
    rcases List.mem_cons.mp hy with rfl | hy'
    · exact hx0
    · exact list_sum_eq_zero_nonneg l (fun z hz => hnn z (List.mem_cons_of_mem _ hz)) hl0 y hy'

/-- What the proofs need to know about the log carrier `β`, its `-∞`, and `exp`/`log`. -/
structure LogLaws {α β : Type} [Field α] [LinearOrder α] [IsStrictOrderedRing α]
    [Add β] [Sub β] [LE β] (E : β → α) (log : α → β) (negInf : β) : Prop where
  pos : ∀ x, x ≠ negInf → 0 < E x
  bot : E negInf = 0
  /-- `exp (x - a) * exp a = exp x` -/
  sub : ∀ x a, x ≠ negInf → a ≠ negInf → E (x - a) * E a = E x
  /-- `exp (-∞ - x) = 0` -/
  bot_sub : ∀ x, x ≠ negInf → negInf - x = negInf
  /-- `exp (log r + a) = r * exp a` -/
  log_add : ∀ r a, 0 < r → a ≠ negInf → E (log r + a) = r * E a
  /-- `x <= -∞` is false for `x ≠ -∞` -/
  not_le_bot : ∀ x, x ≠ negInf → ¬ x ≤ negInf
  /-- `exp (x + y) = exp x * exp y`, including `-∞` -/
  add : ∀ x y, E (x + y) = E x * E y

section
variable {α β : Type} [Field α] [LinearOrder α] [IsStrictOrderedRing α] [BEq α] [LawfulBEq α]
  [Add β] [Sub β] [LE β] [DecidableLE β] [BEq β] [LawfulBEq β]
  {E : β → α} {log : α → β} {negInf : β}

theorem LogLaws.nonneg (h : LogLaws E log negInf) (x : β) : 0 ≤ E x := by
  by_cases hx : x = negInf
  · rw [hx, h.bot]
  · exact le_of_lt (h.pos x hx)

theorem LogLaws.eq_bot_of_zero (h : LogLaws E log negInf) (x : β) (hx : E x = 0) : x = negInf := by
  by_contra hne
  exact absurd hx (ne_of_gt (h.pos x hne))

/-- Loop invariant of the streaming log-sum-exp: `r * exp alpha = Σ exp xᵢ` over the elements seen. -/
def LseInv (E : β → α) (negInf : β) (seen : List β) (st : β × α) : Prop :=
  st.2 * E st.1 = (seen.map E).sum ∧ (st.1 = negInf → st.2 = 0) ∧ (st.1 ≠ negInf → 0 < st.2)

theorem lseInv_step (h : LogLaws E log negInf) (seen : List β) (st : β × α) (x : β)
    (hinv : LseInv E negInf seen st) :
    LseInv E negInf (seen ++ [x]) (logsumexpStep E negInf st x) := by
  obtain ⟨h1, h2, h3⟩ := hinv
  unfold logsumexpStep
  by_cases hx : x = negInf
  · have : (x == negInf) = true := by simp [hx]
    rw [if_pos this]
    refine ⟨?_, h2, h3⟩
    simp [h1, hx, h.bot]
  · have : ¬ ((x == negInf) = true) := by simpa using hx
    rw [if_neg this]
    by_cases hle : x ≤ st.1
    · rw [if_pos hle]
      have ha : st.1 ≠ negInf := fun hb => h.not_le_bot x hx (hb ▸ hle)
      refine ⟨?_, fun hb => absurd hb ha, fun _ => ?_⟩
      · simp only [List.map_append, List.sum_append, List.map_cons, List.map_nil, List.sum_cons,
          List.sum_nil, add_zero]
        rw [add_mul, h1, h.sub x st.1 hx ha]
      · have := h3 ha
        have := h.nonneg (x - st.1)
        linarith
    · rw [if_neg hle]
      refine ⟨?_, fun hb => absurd hb hx, fun _ => ?_⟩
      · simp only [List.map_append, List.sum_append, List.map_cons, List.map_nil, List.sum_cons,
          List.sum_nil, add_zero]
        by_cases ha : st.1 = negInf
        · rw [h2 ha] at h1 ⊢
          rw [← h1]; ring
        · rw [add_mul, mul_assoc, h.sub st.1 x ha hx, h1, one_mul]
      · have h0 : 0 ≤ st.2 := by
          by_cases ha : st.1 = negInf
          · rw [h2 ha]
          · exact le_of_lt (h3 ha)
        have := mul_nonneg h0 (h.nonneg (st.1 - x))
        linarith

theorem lseInv_foldl (h : LogLaws E log negInf) (xs seen : List β) (st : β × α)
    (hinv : LseInv E negInf seen st) :
    LseInv E negInf (seen ++ xs) (xs.foldl (logsumexpStep E negInf) st) := by
  induction xs generalizing seen st with
  | nil => simpa using hinv
  | cons x xs ih =>
    have := ih (seen ++ [x]) _ (lseInv_step h seen st x hinv)
    simpa using this

/-- **The one-pass running-maximum algorithm computes `log Σ exp xᵢ`**: `exp` of its result is the
sum of the `exp xᵢ` (and the result is `-∞` exactly when that sum is 0). -/
theorem logsumexp_exp (h : LogLaws E log negInf) (xs : List β) :
    E (logsumexp E log negInf xs) = (xs.map E).sum := by
  have hinv := lseInv_foldl h xs [] (negInf, 0) ⟨by simp, fun _ => rfl, fun hne => absurd rfl hne⟩
  obtain ⟨h1, h2, h3⟩ := hinv
  simp only [List.nil_append] at h1
  unfold logsumexp
  simp only
  by_cases hr : (xs.foldl (logsumexpStep E negInf) (negInf, 0)).2 = 0
  · rw [if_pos (by simp [hr]), h.bot, ← h1, hr, zero_mul]
  · rw [if_neg (by simpa using hr)]
    have ha : (xs.foldl (logsumexpStep E negInf) (negInf, 0)).1 ≠ negInf := fun hb => hr (h2 hb)
    rw [h.log_add _ _ (h3 ha) ha, h1]

end

/-! ### `combine` / `ratio` conventions -/

section
variable {α β : Type} [Field α] [LinearOrder α] [IsStrictOrderedRing α] [BEq α] [LawfulBEq α]
  [Add β] [Sub β] [LE β] [BEq β] [LawfulBEq β]
  {E : β → α} {log : α → β} {negInf : β}

/-- `x - y` in log space is `x / y` in linear space when `y ≠ -∞`. -/
theorem ratio_exp (h : LogLaws E log negInf) (x y : β) (hy : y ≠ negInf) :
    E (x - y) = E x / E y := by
  have hpos := h.pos y hy
  by_cases hx : x = negInf
  · rw [hx, h.bot_sub y hy, h.bot, zero_div]
  · rw [eq_div_iff (ne_of_gt hpos), h.sub x y hx hy]

/-- **`div_0_null` conventions agree**: log-space `-∞ - -∞ ↦ -∞` is linear-space `0/0 ↦ 0`; every
other case with a defined linear quotient (`y ≠ -∞`, i.e. divisor `≠ 0`) is the plain quotient.
The remaining case `x ≠ -∞, y = -∞` is division of a non-zero number by zero (`+∞` in both
implementations) and is excluded by hypothesis. -/
theorem ratio0_exp (h : LogLaws E log negInf) (x y : β) (hdef : y = negInf → x = negInf) :
    E (if x == negInf && y == negInf then negInf else x - y)
      = (if E x == 0 && E y == 0 then 0 else E x / E y) := by
  by_cases hy : y = negInf
  · have hx := hdef hy
    simp [hx, hy, h.bot]
  · have hE : E y ≠ 0 := ne_of_gt (h.pos y hy)
    have c1 : ¬ ((x == negInf && y == negInf) = true) := by simp [hy]
    have c2 : ¬ ((E x == 0 && E y == 0) = true) := by simp [hE]
    rw [if_neg c1, if_neg c2, ratio_exp h x y hy]

end

end Tsdate.Discrete
