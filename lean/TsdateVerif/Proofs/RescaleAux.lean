/-
Small auxiliary lemmas and definitions used by the statements in Props/C25 and Props/C37.
-/
import TsdateVerif.Proofs.Rescale
import TsdateVerif.Proofs.DiffArray
import TsdateVerif.Proofs.Rank

namespace Tsdate.Rescale
set_option linter.unusedSectionVars false

variable {α : Type} [Inhabited α] [Field α] [LinearOrder α] [IsStrictOrderedRing α]

theorem sum_filterMap {β γ : Type} (l : List β) (f : β → Option γ) (g : γ → α) :
    ((l.filterMap f).map g).sum = (l.map (fun x => match f x with | some y => g y | none => 0)).sum := by
  induction l with
  | nil => rfl
  | cons x t ih =>
    simp only [List.filterMap_cons, List.map_cons, List.sum_cons]
    cases h : f x with
    | none => simp [ih]
    | some y => simp [ih]

theorem lget_map {β γ : Type} [Inhabited β] [Inhabited γ] (l : List β) (f : β → γ) (i : Nat)
    (h : i < l.length) : lget (l.map f) i = f (lget l i) := by
  simp [lget, h]

/-- the contribution of one edge to epoch `k`, stated directly: an edge of positive length whose child
has index `≤ k` and whose parent has index `> k` (it spans the interval between the `k`-th and `k+1`-th
distinct node times) contributes `v`, every other edge nothing -/
def spans (times : List α) (index : List Nat) (e : Edge) (k : Nat) : Prop :=
  0 < lget times e.p - lget times e.c ∧ lget index e.c ≤ k ∧ k < lget index e.p

instance (times : List α) (index : List Nat) (e : Edge) (k : Nat) : Decidable (spans times index e k) := by
  unfold spans; infer_instance

theorem lget_mem {β : Type} [Inhabited β] (l : List β) (i : Nat) (h : i < l.length) : lget l i ∈ l := by
  rw [lget_eq_getElem l i h]; exact List.getElem_mem h

theorem pre_iff (ob rb : List α) :
    pwlPre ob rb = true ↔ ob.length = rb.length ∧ Inc ob ∧ Inc rb := by
  simp [pwlPre, inc_iff, and_assoc]

theorem zip_incZ (ob rb : List α) (h : pwlPre ob rb = true) : IncZ (ob.zip rb) := by
  obtain ⟨h1, h2, h3⟩ := (pre_iff ob rb).mp h
  exact incZ_of_inc ob rb h1 h2 h3

theorem zip_fst (ob rb : List α) (h : pwlPre ob rb = true) : (ob.zip rb).map (·.1) = ob := by
  obtain ⟨h1, _, _⟩ := (pre_iff ob rb).mp h
  exact List.map_fst_zip (le_of_eq h1)

theorem zip_snd (ob rb : List α) (h : pwlPre ob rb = true) : (ob.zip rb).map (·.2) = rb := by
  obtain ⟨h1, _, _⟩ := (pre_iff ob rb).mp h
  exact List.map_snd_zip (le_of_eq h1.symm)

theorem zip_ne (ob rb : List α) (h : pwlPre ob rb = true) (hne : ob ≠ []) : ob.zip rb ≠ [] := by
  obtain ⟨h1, _, _⟩ := (pre_iff ob rb).mp h
  match ob, rb, h1, hne with
  | a :: t, b :: u, _, _ => simp

theorem zip_head (ob rb : List α) (h : pwlPre ob rb = true) (hne : ob ≠ []) :
    ((ob.zip rb).head (zip_ne ob rb h hne)).1 = ob.head hne := by
  obtain ⟨h1, _, _⟩ := (pre_iff ob rb).mp h
  match ob, rb, h1, hne with
  | a :: t, b :: u, _, _ => simp

theorem cumsum_head (x : α) (rest : List α) : ∃ t, cumsum (x :: rest) = x :: t := ⟨_, rfl⟩

/-- running sums strictly increase iff every increment is positive -/
theorem inc_cumsum_iff (x : α) (steps : List α) :
    Inc (cumsum (x :: steps)) ↔ ∀ s ∈ steps, 0 < s := by
  induction steps generalizing x with
  | nil => simp [cumsum_singleton, Inc]
  | cons y r ih =>
    rw [cumsum_cons_cons]
    obtain ⟨t, ht⟩ := cumsum_head (x + y) r
    have := ih (x + y)
    rw [ht] at this ⊢
    simp only [Inc, List.mem_cons, forall_eq_or_imp]
    rw [this]
    constructor
    · rintro ⟨h1, h2⟩; exact ⟨by linarith, h2⟩
    · rintro ⟨h1, h2⟩; exact ⟨by linarith, h2⟩

/-- consecutive pairs of changepoints -/
def pairsOf : List Nat → List (Nat × Nat)
  | i :: j :: rest => (i, j) :: pairsOf (j :: rest)
  | _ => []


theorem head_eq_lget (l : List α) (hne : l ≠ []) : l.head hne = lget l 0 := by
  cases l with
  | nil => exact absurd rfl hne
  | cons a t => simp [lget]

end Tsdate.Rescale
