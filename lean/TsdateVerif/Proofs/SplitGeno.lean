/-
Ancestry in the local trees before and after `_split_disjoint_nodes`, and what it means for the
mutations: the set of samples below each mutation is unchanged ("genotypes are unchanged").
-/
import TsdateVerif.Proofs.SplitMut

namespace Tsdate.Split
set_option linter.unusedSectionVars false
set_option linter.unusedVariables false

variable {α : Type} [Inhabited α] [LinearOrder α]

/-- `Below es x a b`: in the local tree at position `x` of the edge table `es`, node `a` is `b` or a
descendant of `b` (a chain of edges covering `x` leads from `a` up to `b`). -/
inductive Below (es : Array (SEdge α)) (x : α) : Nat → Nat → Prop
  | refl (a : Nat) : Below es x a a
  | step {a b : Nat} (e : Nat) (he : e < es.size) (hc : covers es e x)
      (hchild : (aget es e).child = a) (h : Below es x (aget es e).parent b) : Below es x a b

/-- A proper ancestor chain ends with an edge whose parent is the top node. -/
theorem Below.top_present {es : Array (SEdge α)} {x : α} {a b : Nat} (h : Below es x a b) :
    a = b ∨ ∃ e, e < es.size ∧ covers es e x ∧ (aget es e).parent = b := by
  induction h with
  | refl a => left; rfl
  | step e he hc hchild h ih =>
    right
    rcases ih with h1 | h1
    · exact ⟨e, he, hc, h1⟩
    · exact h1

/-- A proper ancestor chain starts with an edge whose child is the bottom node. -/
theorem Below.bottom_present {es : Array (SEdge α)} {x : α} {a b : Nat} (h : Below es x a b) :
    a = b ∨ ∃ e, e < es.size ∧ covers es e x ∧ (aget es e).child = a := by
  cases h with
  | refl a => left; rfl
  | step e he hc hchild h => right; exact ⟨e, he, hc, hchild⟩

section WithSplit
variable {N : Nat} (excl : Array Bool) {es : Array (SEdge α)} {ord : List Nat}

/-- `v` is the output node that input node `n` has in the local tree at `x`. -/
def Piece (excl : Array Bool) (N : Nat) (es : Array (SEdge α)) (ord : List Nat) (x : α) (n v : Nat) : Prop :=
  ∃ e r, e < es.size ∧ covers es e x ∧ oldNode es e r = n ∧ newNode (splitDisjoint N excl es ord) e r = v

theorem piece_unique (hv : Valid N es ord) {x : α} {n v v' : Nat}
    (h : Piece excl N es ord x n v) (h' : Piece excl N es ord x n v') : v = v' := by
  obtain ⟨e, r, he, hc, hn, rfl⟩ := h
  obtain ⟨e', r', he', hc', hn', rfl⟩ := h'
  exact same_piece_of_overlap excl hv e e' he he' r r' (by rw [hn, hn']) x hc hc'

theorem covers_out (o : Out) (e : Nat) (he : e < es.size) (x : α) :
    covers (outEdges es o) e x ↔ covers es e x := by
  unfold covers; rw [outEdges_get es o e he]

/-- Chains lift from the input tree to the output tree. -/
theorem below_lift (hv : Valid N es ord) {x : α} {a b : Nat} (h : Below es x a b) :
    ∀ va, Piece excl N es ord x a va →
      ∃ vb, (a = b ∧ vb = va ∨ Piece excl N es ord x b vb) ∧
        Below (outEdges es (splitDisjoint N excl es ord)) x va vb := by
  induction h with
  | refl a => intro va _; exact ⟨va, Or.inl ⟨rfl, rfl⟩, Below.refl va⟩
  | @step a b e he hc hchild h ih =>
    intro va hva
    have hva' : va = newNode (splitDisjoint N excl es ord) e true :=
      piece_unique excl hv hva ⟨e, true, he, hc, by simpa [oldNode] using hchild, rfl⟩
    have hp : Piece excl N es ord x (aget es e).parent (newNode (splitDisjoint N excl es ord) e false) :=
      ⟨e, false, he, hc, by simp [oldNode], rfl⟩
    obtain ⟨vb, hvb, hbelow⟩ := ih _ hp
    refine ⟨vb, ?_, ?_⟩
    · right
      rcases hvb with ⟨hab, hvv⟩ | hvb
      · rw [← hab, hvv]; exact hp
      · exact hvb
    · refine Below.step e (by rw [outEdges_size]; exact he) ((covers_out _ e he x).mpr hc) ?_ ?_
      · rw [outEdges_get es _ e he, hva']
      · rw [outEdges_get es _ e he]; exact hbelow

/-- Chains in the output tree map back to chains in the input tree. -/
theorem below_back (hv : Valid N es ord) {x : α} {va vb : Nat}
    (h : Below (outEdges es (splitDisjoint N excl es ord)) x va vb) :
    Below es x (orig (splitDisjoint N excl es ord) va) (orig (splitDisjoint N excl es ord) vb) := by
  induction h with
  | refl a => exact Below.refl _
  | @step a b e he hc hchild h ih =>
    rw [outEdges_size] at he
    rw [outEdges_get es _ e he] at hchild h ih
    simp only at hchild h ih
    have h1 := orig_newNode excl hv e he true
    have h2 := orig_newNode excl hv e he false
    simp only [oldNode, Bool.false_eq_true, ↓reduceIte] at h1 h2
    refine Below.step e he ((covers_out _ e he x).mp hc) ?_ ?_
    · rw [← hchild, h1]
    · rw [← h2]; exact ih

/-- **Ancestry between nodes of a local tree is preserved**: for `a`, `b` in the tree at `x`, with
output nodes `va`, `vb` there, `a` is below `b` iff `va` is below `vb`. -/
theorem below_iff (hv : Valid N es ord) {x : α} {a b va vb : Nat}
    (ha : Piece excl N es ord x a va) (hb : Piece excl N es ord x b vb) :
    Below es x a b ↔ Below (outEdges es (splitDisjoint N excl es ord)) x va vb := by
  constructor
  · intro h
    obtain ⟨vb', hvb', hbelow⟩ := below_lift excl hv h va ha
    rcases hvb' with ⟨hab, hvv⟩ | hvb'
    · subst hab
      rw [hvv, piece_unique excl hv ha hb] at hbelow
      rw [piece_unique excl hv ha hb]; exact hbelow
    · rw [piece_unique excl hv hvb' hb] at hbelow; exact hbelow
  · intro h
    have := below_back excl hv h
    obtain ⟨e, r, he, _, hn, rfl⟩ := ha
    obtain ⟨e', r', he', _, hn', rfl⟩ := hb
    rw [orig_newNode excl hv e he r, orig_newNode excl hv e' he' r', hn, hn'] at this
    exact this

/-- A copy of an excluded (sample) node is the node itself. -/
theorem orig_excl_eq (hv : Valid N es ord) (v u : Nat)
    (hlen : v < (splitDisjoint N excl es ord).order.length)
    (ho : orig (splitDisjoint N excl es ord) v = u) (hx : aget excl u = true) : v = u := by
  have hshape : (splitDisjoint N excl es ord).order
      = List.range N ++ (splitDisjoint N excl es ord).split := rfl
  by_cases hvN : v < N
  · have : orig (splitDisjoint N excl es ord) v = v := by
      show (List.range N ++ _).getD v 0 = v
      rw [List.getD_eq_getElem?_getD, List.getElem?_append_left (by simpa using hvN)]
      simp [hvN]
    rw [this] at ho; exact ho
  · exfalso
    have hmem : u ∈ (splitDisjoint N excl es ord).split := by
      unfold orig at ho
      rw [hshape] at ho hlen
      rw [List.getD_eq_getElem?_getD, List.getElem?_append_right (by simp; omega)] at ho
      simp only [List.length_append, List.length_range] at hlen
      simp only [List.length_range] at ho
      rw [List.getElem?_eq_getElem (by omega)] at ho
      simp only [Option.getD_some] at ho
      rw [← ho]; exact List.getElem_mem _
    have := (split_mem excl hv u hmem).2
    rw [hx] at this; cases this

/-- Values stored in `nodes_map` are ids of the output node table. -/
def MapRange (o : Out) (M : Array (Option Nat)) : Prop := ∀ u v, aget M u = some v → v < o.order.length

theorem mapRange_foldIds (hv : Valid N es ord) (ids : List Nat) (hids : ∀ e ∈ ids, e < es.size)
    (M : Array (Option Nat)) (hsz : M.size = (splitDisjoint N excl es ord).order.length)
    (hM : MapRange (splitDisjoint N excl es ord) M) :
    MapRange (splitDisjoint N excl es ord) (foldIds es (splitDisjoint N excl es ord) ids M) := by
  induction ids generalizing M with
  | nil => exact hM
  | cons a l ih =>
    rw [foldIds_cons]
    apply ih (fun e he => hids e (List.mem_cons_of_mem _ he)) _ (by rw [insert_size]; exact hsz)
    intro u v huv
    have ha := hids a (List.mem_cons_self ..)
    rw [insert_get excl hv M hsz a ha u] at huv
    split_ifs at huv with h1 h2
    · cases huv; exact newNode_lt_len excl hv a ha false
    · cases huv; exact newNode_lt_len excl hv a ha true
    · exact hM u v huv

theorem assign_lt_len (hv : Valid N es ord) (insIdx : List Nat) (hvi : Valid N es insIdx) (x : α)
    (u : Nat) (hu : u < N) :
    assign (mapUpTo (splitDisjoint N excl es ord).order.toArray
      (insEvs es (splitDisjoint N excl es ord) insIdx) x) u < (splitDisjoint N excl es ord).order.length := by
  set o := splitDisjoint N excl es ord with ho
  set F := insIdx.filter (fun e' => decide ((aget es e').left ≤ x)) with hF
  have hmap : mapUpTo o.order.toArray (insEvs es o insIdx) x =
      foldIds es o F (Array.replicate o.order.toArray.size none) := by
    unfold mapUpTo foldIds insEvs
    rw [List.filter_map]
    rfl
  have hFlt : ∀ e' ∈ F, e' < es.size := fun e' h' => hvi.ordLt e' (List.mem_filter.mp h').1
  have hR := mapRange_foldIds excl hv F hFlt (Array.replicate o.order.toArray.size none)
    (by rw [ho]; simp) (by intro u v h; rw [aget_replicate_none] at h; cases h)
  rw [hmap]
  unfold assign
  split
  · rename_i v hv'; exact hR u v hv'
  · show u < (List.range N ++ _).length
    simp; omega

/-- **The samples below a mutation are unchanged.**  For a sample `s`, a mutation at position `x` on
node `u`, and `v` the node `_relabel_mutations_node` moves it to: `s` is at or below `u` in the input
tree at `x` iff `s` is at or below `v` in the output tree at `x`. -/
theorem carriers_preserved (hv : Valid N es ord) (insIdx : List Nat) (hvi : Valid N es insIdx) (x : α)
    (s u : Nat) (hs : s < N) (hu : u < N) (hsx : aget excl s = true) :
    Below es x s u ↔
      Below (outEdges es (splitDisjoint N excl es ord)) x s
        (assign (mapUpTo (splitDisjoint N excl es ord).order.toArray
          (insEvs es (splitDisjoint N excl es ord) insIdx) x) u) := by
  set o := splitDisjoint N excl es ord with ho
  set v := assign (mapUpTo o.order.toArray (insEvs es o insIdx) x) u with hvdef
  have hov : orig o v = u := assign_maps_back excl hv insIdx x u hu
  have hvlen : v < o.order.length := assign_lt_len excl hv insIdx hvi x u hu
  have hos : orig o s = s := by
    show (List.range N ++ _).getD s 0 = s
    rw [List.getD_eq_getElem?_getD, List.getElem?_append_left (by simpa using hs)]
    simp [hs]
  -- is `u` in the tree at `x`?
  by_cases hup : ∃ e r, e < es.size ∧ covers es e x ∧ oldNode es e r = u
  · obtain ⟨e, r, he, hc, hn⟩ := hup
    have hpu : Piece excl N es ord x u v := by
      refine ⟨e, r, he, hc, hn, ?_⟩
      rw [hvdef, ← hn]; exact (assign_present excl hv insIdx hvi x e he r hc).symm
    by_cases hsp : ∃ e' r', e' < es.size ∧ covers es e' x ∧ oldNode es e' r' = s
    · obtain ⟨e', r', he', hc', hn'⟩ := hsp
      have hps : Piece excl N es ord x s s :=
        ⟨e', r', he', hc', hn', by rw [newNode_of_excl excl hv e' he' r' (by rw [hn']; exact hsx), hn']⟩
      exact below_iff excl hv hps hpu
    · -- `s` is isolated at `x`: it is below `u` only if it is `u`; same in the output
      constructor
      · intro h
        rcases h.bottom_present with h1 | ⟨e', he', hc', hch⟩
        · exact absurd ⟨e, r, he, hc, by rw [hn, h1]⟩ hsp
        · exact absurd ⟨e', true, he', hc', by simpa [oldNode] using hch⟩ hsp
      · intro h
        rcases h.bottom_present with h1 | ⟨e', he', hc', hch⟩
        · exfalso; apply hsp
          exact ⟨e, r, he, hc, by rw [hn, ← hov, ← h1, hos]⟩
        · exfalso; apply hsp
          rw [outEdges_size] at he'
          rw [outEdges_get es _ e' he'] at hch
          simp only at hch
          have h1 := orig_newNode excl hv e' he' true
          rw [hch, hos] at h1
          exact ⟨e', true, he', (covers_out _ e' he' x).mp hc', h1.symm⟩
  · -- `u` is not in the tree at `x`: only `u` itself is at or below it
    have hvu : aget excl u = true → v = u := fun hx => orig_excl_eq excl hv v u hvlen hov hx
    constructor
    · intro h
      rcases h.top_present with h1 | ⟨e, he, hc, hp⟩
      · subst h1; rw [hvu hsx]; exact Below.refl _
      · exact absurd ⟨e, false, he, hc, by simpa [oldNode] using hp⟩ hup
    · intro h
      rcases h.top_present with h1 | ⟨e, he, hc, hp⟩
      · have : s = u := by rw [← hov, ← h1, hos]
        rw [this]; exact Below.refl _
      · exfalso; apply hup
        rw [outEdges_size] at he
        rw [outEdges_get es _ e he] at hp
        simp only at hp
        have h1 := orig_newNode excl hv e he false
        rw [hp, hov] at h1
        exact ⟨e, false, he, (covers_out _ e he x).mp hc, h1.symm⟩

end WithSplit

end Tsdate.Split
