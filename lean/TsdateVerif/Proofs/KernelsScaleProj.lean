/-
Scale equivariance of the 14 projection wrappers (continuation of `Proofs/KernelsScale.lean`):
with ages multiplied by `c > 0` and rates divided by `c`, every wrapper skips on exactly the same inputs and
returns natural parameters `(shape − 1, rate / c)` (`scNat c`), the phase probability unchanged.  For every
interpretation of exp/log/sqrt/lgamma; `isFinite` is assumed value-independent (`hfin`).
-/
import TsdateVerif.Proofs.KernelsScale

namespace Tsdate.Kernels
open Tsdate.Gen.Kernels
set_option linter.unusedSectionVars false

variable {α : Type} [Field α] [LinearOrder α] [IsStrictOrderedRing α]

/-- The body shared by `leafward/rootward/sideways_projection`, as a function of the moments result. -/
def projNode1 (F : SpecFns α) (R : Option (α × α × α)) (p : α × α) : Option α × (α × α) :=
  match R with
  | none => (none, p)
  | some r => if !(_valid_moments F r.2.1 r.2.2) then (none, p) else (some r.1, approximate_gamma_mom F r.2.1 r.2.2)

/-- The body shared by the mutation wrappers with phase 1. -/
def projMut (F : SpecFns α) (R : Option (α × α)) : Option (α × (α × α)) :=
  match R with
  | none => none
  | some r => if !(_valid_moments F r.1 r.2) then none else some (1, approximate_gamma_mom F r.1 r.2)

/-- The body shared by the mutation wrappers that also return a phase probability. -/
def projMutP (F : SpecFns α) (R : Option (α × α × α)) : Option (α × (α × α)) :=
  match R with
  | none => none
  | some r =>
    if !(_valid_moments F r.2.1 r.2.2) || !(decide (0 ≤ r.1) && decide (r.1 ≤ 1)) then none
    else some (r.1, approximate_gamma_mom F r.2.1 r.2.2)

section
variable (F : SpecFns α) (c : α) (hc : 0 < c) (hfin : ∀ x, F.isFinite x = true)
include hc hfin

theorem projNode1_scale {R' R : Option (α × α × α)} (h : dropL R' = (dropL R).map (scMV c)) (p : α × α) :
    (projNode1 F R' (scNat c p)).1.isSome = (projNode1 F R p).1.isSome ∧
    (projNode1 F R' (scNat c p)).2 = scNat c (projNode1 F R p).2 := by
  rcases dropL_cases c hc h with ⟨h1, h2⟩ | ⟨r', r, h1, h2, h3⟩
  · subst h1 h2; exact ⟨rfl, rfl⟩
  · subst h1 h2
    have e1 : r'.2.1 = c * r.2.1 := by rw [h3]; rfl
    have e2 : r'.2.2 = c ^ 2 * r.2.2 := by rw [h3]; rfl
    simp only [projNode1, e1, e2, valid_moments_scale F c hc hfin]
    by_cases hv : _valid_moments F r.2.1 r.2.2 = true
    · have hva : r.2.2 ≠ 0 := ne_of_gt (valid_moments_pos F _ _ hv).2
      simp only [hv, Bool.not_true, Bool.false_eq_true, if_false, Option.isSome_some, mom_scale F c hc _ _ hva,
        and_self]
    · simp only [hv, Bool.not_eq_true] at *
      simp only [hv, Bool.not_false, if_true, Option.isSome_none, and_self]

theorem projMut_scale {R' R : Option (α × α)} (h : R' = R.map (scMV c)) :
    projMut F R' = (projMut F R).map (fun r => (r.1, scNat c r.2)) := by
  subst h
  cases R with
  | none => rfl
  | some r =>
    simp only [projMut, Option.map_some, scMV, valid_moments_scale F c hc hfin]
    by_cases hv : _valid_moments F r.1 r.2 = true
    · have hva : r.2 ≠ 0 := ne_of_gt (valid_moments_pos F _ _ hv).2
      simp only [hv, Bool.not_true, Bool.false_eq_true, if_false, Option.map_some, mom_scale F c hc _ _ hva]
    · simp only [Bool.not_eq_true] at hv
      simp only [hv, Bool.not_false, if_true, Option.map_none]

theorem projMutP_scale {R' R : Option (α × α × α)} (h : R' = R.map (fun r => (r.1, scMV c r.2))) :
    projMutP F R' = (projMutP F R).map (fun r => (r.1, scNat c r.2)) := by
  subst h
  cases R with
  | none => rfl
  | some r =>
    simp only [projMutP, Option.map_some, scMV, valid_moments_scale F c hc hfin]
    by_cases hv : _valid_moments F r.2.1 r.2.2 = true
    · have hva : r.2.2 ≠ 0 := ne_of_gt (valid_moments_pos F _ _ hv).2
      by_cases hp : (decide (0 ≤ r.1) && decide (r.1 ≤ 1)) = true
      · simp only [hv, hp, Bool.not_true, Bool.or_self, Bool.false_eq_true, if_false, Option.map_some,
          mom_scale F c hc _ _ hva]
      · simp only [Bool.not_eq_true] at hp
        simp only [hv, hp, Bool.not_true, Bool.not_false, Bool.or_true, if_true, Option.map_none]
    · simp only [Bool.not_eq_true] at hv
      simp only [hv, Bool.not_false, Bool.true_or, if_true, Option.map_none]

/-! ### node wrappers -/

theorem rootward_projection_eq (t_j : α) (p q : α × α) :
    rootward_projection F t_j p q = projNode1 F (rootward_moments F t_j (p.1 + 1) p.2 q.1 q.2) p := by
  simp only [rootward_projection, projNode1, Nat.cast_one]
  cases rootward_moments F t_j (p.1 + 1) p.2 q.1 q.2 <;> rfl

theorem leafward_projection_eq (t_i : α) (p q : α × α) :
    leafward_projection F t_i p q = projNode1 F (leafward_moments F t_i (p.1 + 1) p.2 q.1 q.2) p := by
  simp only [leafward_projection, projNode1, Nat.cast_one]
  cases leafward_moments F t_i (p.1 + 1) p.2 q.1 q.2 <;> rfl

theorem sideways_projection_eq (t_i : α) (p q : α × α) :
    sideways_projection F t_i p q = projNode1 F (sideways_moments F t_i (p.1 + 1) p.2 q.1 q.2) p := by
  simp only [sideways_projection, projNode1, Nat.cast_one]
  cases sideways_moments F t_i (p.1 + 1) p.2 q.1 q.2 <;> rfl

/-- `rootward_projection`: same skip decision, natural parameters `(shape − 1, rate / c)`. -/
theorem rootward_projection_scale (t_j : α) (p q : α × α) :
    (rootward_projection F (c * t_j) (scNat c p) (scNat c q)).1.isSome = (rootward_projection F t_j p q).1.isSome ∧
    (rootward_projection F (c * t_j) (scNat c p) (scNat c q)).2 = scNat c (rootward_projection F t_j p q).2 := by
  rw [rootward_projection_eq F c hc hfin, rootward_projection_eq F c hc hfin]
  exact projNode1_scale F c hc hfin (rootward_moments_scale F c hc hfin t_j (p.1 + 1) p.2 q.1 q.2) p

theorem leafward_projection_scale (t_i : α) (p q : α × α) :
    (leafward_projection F (c * t_i) (scNat c p) (scNat c q)).1.isSome = (leafward_projection F t_i p q).1.isSome ∧
    (leafward_projection F (c * t_i) (scNat c p) (scNat c q)).2 = scNat c (leafward_projection F t_i p q).2 := by
  rw [leafward_projection_eq F c hc hfin, leafward_projection_eq F c hc hfin]
  exact projNode1_scale F c hc hfin (leafward_moments_scale F c hc t_i (p.1 + 1) p.2 q.1 q.2) p

theorem sideways_projection_scale (t_i : α) (p q : α × α) :
    (sideways_projection F (c * t_i) (scNat c p) (scNat c q)).1.isSome = (sideways_projection F t_i p q).1.isSome ∧
    (sideways_projection F (c * t_i) (scNat c p) (scNat c q)).2 = scNat c (sideways_projection F t_i p q).2 := by
  rw [sideways_projection_eq F c hc hfin, sideways_projection_eq F c hc hfin]
  exact projNode1_scale F c hc hfin (sideways_moments_scale F c hc t_i (p.1 + 1) p.2 q.1 q.2) p

/-- `twin_projection`. -/
theorem twin_projection_scale (p q : α × α) :
    (twin_projection F (scNat c p) (scNat c q)).1.isSome = (twin_projection F p q).1.isSome ∧
    (twin_projection F (scNat c p) (scNat c q)).2 = scNat c (twin_projection F p q).2 := by
  have h := twin_moments_scale F c hc (p.1 + 1) p.2 q.1 q.2
  have e1 : (twin_moments F (p.1 + 1) (p.2 / c) q.1 (q.2 / c)).2.1 = c * (twin_moments F (p.1 + 1) p.2 q.1 q.2).2.1 := by
    rw [h]; rfl
  have e2 : (twin_moments F (p.1 + 1) (p.2 / c) q.1 (q.2 / c)).2.2 = c ^ 2 * (twin_moments F (p.1 + 1) p.2 q.1 q.2).2.2 := by
    rw [h]; rfl
  simp only [twin_projection, scNat, Nat.cast_one, e1, e2, valid_moments_scale F c hc hfin]
  by_cases hv : _valid_moments F (twin_moments F (p.1 + 1) p.2 q.1 q.2).2.1 (twin_moments F (p.1 + 1) p.2 q.1 q.2).2.2 = true
  · have hva := ne_of_gt (valid_moments_pos F _ _ hv).2
    simp only [hv, Bool.not_true, Bool.false_eq_true, if_false, Option.isSome_some, mom_scale F c hc _ _ hva, scNat,
      and_self]
  · simp only [Bool.not_eq_true] at hv
    simp only [hv, Bool.not_false, if_true, Option.isSome_none, and_self]

/-- The two-node wrappers: same skip decision, both parameter vectors rescaled. -/
theorem gamma_projection_scale (p_i p_j q : α × α) :
    (gamma_projection F (scNat c p_i) (scNat c p_j) (scNat c q)).1.isSome = (gamma_projection F p_i p_j q).1.isSome ∧
    (gamma_projection F (scNat c p_i) (scNat c p_j) (scNat c q)).2
      = (scNat c (gamma_projection F p_i p_j q).2.1, scNat c (gamma_projection F p_i p_j q).2.2) := by
  have h := moments_scale F c hc (p_i.1 + 1) p_i.2 (p_j.1 + 1) p_j.2 q.1 q.2
  simp only [gamma_projection, scNat, Nat.cast_one]
  cases hR : moments F (p_i.1 + 1) p_i.2 (p_j.1 + 1) p_j.2 q.1 q.2 with
  | none =>
    rw [hR] at h
    cases hR' : moments F (p_i.1 + 1) (p_i.2 / c) (p_j.1 + 1) (p_j.2 / c) q.1 (q.2 / c) with
    | none => exact ⟨rfl, rfl⟩
    | some r' => rw [hR'] at h; simp [dropL2] at h
  | some r =>
    rw [hR] at h
    cases hR' : moments F (p_i.1 + 1) (p_i.2 / c) (p_j.1 + 1) (p_j.2 / c) q.1 (q.2 / c) with
    | none => rw [hR'] at h; simp [dropL2] at h
    | some r' =>
      rw [hR'] at h
      simp only [dropL2, Option.map_some, Option.some.injEq, Prod.mk.injEq, scMV] at h
      obtain ⟨⟨e1, e2⟩, e3, e4⟩ := h
      simp only [e1, e2, e3, e4, valid_moments_scale F c hc hfin]
      by_cases hv : (_valid_moments F r.2.1 r.2.2.1 && _valid_moments F r.2.2.2.1 r.2.2.2.2) = true
      · have hv' := hv
        rw [Bool.and_eq_true] at hv'
        have hva1 := ne_of_gt (valid_moments_pos F _ _ hv'.1).2
        have hva2 := ne_of_gt (valid_moments_pos F _ _ hv'.2).2
        simp only [hv, Bool.not_true, Bool.false_eq_true, if_false, Option.isSome_some, mom_scale F c hc _ _ hva1,
          mom_scale F c hc _ _ hva2, scNat, and_self]
      · simp only [Bool.not_eq_true] at hv
        simp only [hv, Bool.not_false, if_true, Option.isSome_none, and_self]

theorem unphased_projection_scale (p_i p_j q : α × α) :
    (unphased_projection F (scNat c p_i) (scNat c p_j) (scNat c q)).1.isSome = (unphased_projection F p_i p_j q).1.isSome ∧
    (unphased_projection F (scNat c p_i) (scNat c p_j) (scNat c q)).2
      = (scNat c (unphased_projection F p_i p_j q).2.1, scNat c (unphased_projection F p_i p_j q).2.2) := by
  have h := unphased_moments_scale F c hc (p_i.1 + 1) p_i.2 (p_j.1 + 1) p_j.2 q.1 q.2
  simp only [unphased_projection, scNat, Nat.cast_one]
  cases hR : unphased_moments F (p_i.1 + 1) p_i.2 (p_j.1 + 1) p_j.2 q.1 q.2 with
  | none =>
    rw [hR] at h
    cases hR' : unphased_moments F (p_i.1 + 1) (p_i.2 / c) (p_j.1 + 1) (p_j.2 / c) q.1 (q.2 / c) with
    | none => exact ⟨rfl, rfl⟩
    | some r' => rw [hR'] at h; simp [dropL2] at h
  | some r =>
    rw [hR] at h
    cases hR' : unphased_moments F (p_i.1 + 1) (p_i.2 / c) (p_j.1 + 1) (p_j.2 / c) q.1 (q.2 / c) with
    | none => rw [hR'] at h; simp [dropL2] at h
    | some r' =>
      rw [hR'] at h
      simp only [dropL2, Option.map_some, Option.some.injEq, Prod.mk.injEq, scMV] at h
      obtain ⟨⟨e1, e2⟩, e3, e4⟩ := h
      simp only [e1, e2, e3, e4, valid_moments_scale F c hc hfin]
      by_cases h1 : _valid_moments F r.2.1 r.2.2.1 = true
      · by_cases h2 : _valid_moments F r.2.2.2.1 r.2.2.2.2 = true
        · have hva1 := ne_of_gt (valid_moments_pos F _ _ h1).2
          have hva2 := ne_of_gt (valid_moments_pos F _ _ h2).2
          simp only [h1, h2, Bool.not_true, Bool.or_self, Bool.false_eq_true, if_false, Option.isSome_some,
            mom_scale F c hc _ _ hva1, mom_scale F c hc _ _ hva2, scNat, and_self]
        · simp only [Bool.not_eq_true] at h2
          simp only [h2, Bool.not_false, Bool.or_true, if_true, Option.isSome_none, and_self]
      · simp only [Bool.not_eq_true] at h1
        simp only [h1, Bool.not_false, Bool.true_or, if_true, Option.isSome_none, and_self]

/-! ### mutation wrappers -/

theorem mutation_gamma_projection_scale (p_i p_j q : α × α) :
    mutation_gamma_projection F (scNat c p_i) (scNat c p_j) (scNat c q) =
      (mutation_gamma_projection F p_i p_j q).map (fun r => (r.1, scNat c r.2)) := by
  have e : ∀ p_i p_j q : α × α, mutation_gamma_projection F p_i p_j q
      = projMut F (mutation_moments F (p_i.1 + 1) p_i.2 (p_j.1 + 1) p_j.2 q.1 q.2) := by
    intro p_i p_j q
    simp only [mutation_gamma_projection, projMut, Nat.cast_one]
    cases mutation_moments F (p_i.1 + 1) p_i.2 (p_j.1 + 1) p_j.2 q.1 q.2 <;> rfl
  rw [e, e]
  exact projMut_scale F c hc hfin (mutation_moments_scale F c hc _ _ _ _ _ _)

theorem mutation_rootward_projection_scale (t_j : α) (p q : α × α) :
    mutation_rootward_projection F (c * t_j) (scNat c p) (scNat c q) =
      (mutation_rootward_projection F t_j p q).map (fun r => (r.1, scNat c r.2)) := by
  have e : ∀ (t : α) (p q : α × α), mutation_rootward_projection F t p q
      = projMut F (mutation_rootward_moments F t (p.1 + 1) p.2 q.1 q.2) := by
    intro t p q
    simp only [mutation_rootward_projection, projMut, Nat.cast_one]
    cases mutation_rootward_moments F t (p.1 + 1) p.2 q.1 q.2 <;> rfl
  rw [e, e]
  exact projMut_scale F c hc hfin (mutation_rootward_moments_scale F c hc hfin _ _ _ _ _)

theorem mutation_leafward_projection_scale (t_i : α) (p q : α × α) :
    mutation_leafward_projection F (c * t_i) (scNat c p) (scNat c q) =
      (mutation_leafward_projection F t_i p q).map (fun r => (r.1, scNat c r.2)) := by
  have e : ∀ (t : α) (p q : α × α), mutation_leafward_projection F t p q
      = projMut F (mutation_leafward_moments F t (p.1 + 1) p.2 q.1 q.2) := by
    intro t p q
    simp only [mutation_leafward_projection, projMut, Nat.cast_one]
    cases mutation_leafward_moments F t (p.1 + 1) p.2 q.1 q.2 <;> rfl
  rw [e, e]
  exact projMut_scale F c hc hfin (mutation_leafward_moments_scale F c hc _ _ _ _ _)

theorem mutation_edge_projection_scale (t_i t_j : α) :
    mutation_edge_projection F (c * t_i) (c * t_j) =
      (mutation_edge_projection F t_i t_j).map (fun r => (r.1, scNat c r.2)) := by
  have e : ∀ t_i t_j : α, mutation_edge_projection F t_i t_j = projMut F (some (mutation_edge_moments F t_i t_j)) := by
    intro t_i t_j
    simp only [mutation_edge_projection, projMut, Nat.cast_one]
  rw [e, e]
  exact projMut_scale F c hc hfin (by rw [mutation_edge_moments_scale F c hc]; rfl)

theorem mutation_unphased_projection_scale (p_i p_j q : α × α) :
    mutation_unphased_projection F (scNat c p_i) (scNat c p_j) (scNat c q) =
      (mutation_unphased_projection F p_i p_j q).map (fun r => (r.1, scNat c r.2)) := by
  have e : ∀ p_i p_j q : α × α, mutation_unphased_projection F p_i p_j q
      = projMutP F (mutation_unphased_moments F (p_i.1 + 1) p_i.2 (p_j.1 + 1) p_j.2 q.1 q.2) := by
    intro p_i p_j q
    simp only [mutation_unphased_projection, projMutP, Nat.cast_one, Nat.cast_zero]
    cases mutation_unphased_moments F (p_i.1 + 1) p_i.2 (p_j.1 + 1) p_j.2 q.1 q.2 <;> rfl
  rw [e, e]
  exact projMutP_scale F c hc hfin (mutation_unphased_moments_scale F c hc _ _ _ _ _ _)

theorem mutation_sideways_projection_scale (t_i : α) (p q : α × α) :
    mutation_sideways_projection F (c * t_i) (scNat c p) (scNat c q) =
      (mutation_sideways_projection F t_i p q).map (fun r => (r.1, scNat c r.2)) := by
  have e : ∀ (t : α) (p q : α × α), mutation_sideways_projection F t p q
      = projMutP F (mutation_sideways_moments F t (p.1 + 1) p.2 q.1 q.2) := by
    intro t p q
    simp only [mutation_sideways_projection, projMutP, Nat.cast_one, Nat.cast_zero]
    cases mutation_sideways_moments F t (p.1 + 1) p.2 q.1 q.2 <;> rfl
  rw [e, e]
  exact projMutP_scale F c hc hfin (mutation_sideways_moments_scale F c hc _ _ _ _ _)

theorem mutation_twin_projection_scale (p q : α × α) :
    mutation_twin_projection F (scNat c p) (scNat c q) =
      (mutation_twin_projection F p q).map (fun r => (r.1, scNat c r.2)) := by
  have e : ∀ p q : α × α, mutation_twin_projection F p q
      = projMutP F (some (mutation_twin_moments F (p.1 + 1) p.2 q.1 q.2)) := by
    intro p q
    simp only [mutation_twin_projection, projMutP, Nat.cast_one, Nat.cast_zero]
  rw [e, e]
  exact projMutP_scale F c hc hfin (by
    simp only [scNat, Option.map_some]; rw [mutation_twin_moments_scale F c hc])

theorem mutation_block_projection_scale (t_i t_j : α) :
    mutation_block_projection F (c * t_i) (c * t_j) =
      (mutation_block_projection F t_i t_j).map (fun r => (r.1, scNat c r.2)) := by
  have e : ∀ t_i t_j : α, mutation_block_projection F t_i t_j
      = projMutP F (some (mutation_block_moments F t_i t_j)) := by
    intro t_i t_j
    simp only [mutation_block_projection, projMutP, Nat.cast_one, Nat.cast_zero]
  rw [e, e]
  exact projMutP_scale F c hc hfin (by
    simp only [Option.map_some]; rw [mutation_block_moments_scale F c hc])

end

end Tsdate.Kernels
