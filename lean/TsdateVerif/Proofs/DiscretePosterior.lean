/-
Marginals as partition functions of a modified prior, and the re-solved rows (towards
`posterior_exact`).
-/
import TsdateVerif.Proofs.DiscreteResponse2

namespace Tsdate.Discrete
open Tsdate

section
variable {α : Type} [Field α]
variable (G : Nat) (fixed : Nat → Bool) (prior : Nat → Nat → α) (L : DEdge → Nat → Nat → α)
  (I : Nat → Nat → α) (d : Nat → α)

/-- prior with the row of node `c` multiplied by `φ` -/
def priorMod (c : Nat) (φ : Nat → α) : Nat → Nat → α :=
  fun u s => if u = c then prior c s * φ s else prior u s

/-- rows not written by the recursion are unchanged -/
theorem resolve_other (gs : List (Nat × List DEdge)) (J : Nat → Nat → α) (w : Nat)
    (hw : w ∉ gs.map (·.1)) : resolve fixed prior L d gs J w = J w := by
  induction gs generalizing J with
  | nil => rfl
  | cons g rest ih =>
    show resolve fixed prior L d rest (stepJ fixed prior L d J g) w = _
    rw [ih _ (fun h => hw (List.mem_cons_of_mem _ h))]
    unfold stepJ
    exact upF_other J g.1 w _ (fun h => hw (by simp [h]))

/-- structural part of the tree conditions (independent of rows and priors) -/
def StructOK : List (Nat × List DEdge) → Prop
  | [] => True
  | g :: rest =>
    (g.1 ∉ rest.map (·.1) ∧ ∀ e ∈ g.2, fixed e.c = true ∨ (e.c ≠ g.1 ∧ e.c ∉ rest.map (·.1))) ∧
    StructOK rest

theorem TreeOK.struct : ∀ gs, TreeOK G fixed prior L I d gs → StructOK fixed gs
  | [], _ => trivial
  | _ :: rest, h => ⟨⟨h.1.unot, h.1.es_c⟩, TreeOK.struct rest h.2.2⟩

/-- **The re-solved rows satisfy the recursion at every group** (function-level analogue of
`insideFold_spec`). -/
theorem resolve_spec : ∀ (gs : List (Nat × List DEdge)) (J : Nat → Nat → α), StructOK fixed gs →
    ∀ g ∈ gs, ∀ a, resolve fixed prior L d gs J g.1 a
      = rowOf fixed prior L d (resolve fixed prior L d gs J) g a
  | [], _, _, g, hg, _ => by cases hg
  | g0 :: rest, J, hs, g, hg, a => by
    obtain ⟨⟨hnot, hkids⟩, hrest⟩ := hs
    rcases List.mem_cons.mp hg with rfl | hg'
    · show resolve fixed prior L d rest (stepJ fixed prior L d J g) g.1 a = _
      rw [resolve_other fixed prior L d rest _ g.1 hnot]
      show upF J g.1 (rowOf fixed prior L d J g) g.1 a = _
      rw [upF_same]
      -- the children rows are final already
      unfold rowOf
      congr 3
      apply List.map_congr_left
      intro e he
      unfold smsg
      split_ifs with hf
      · rfl
      · congr 1
        apply List.map_congr_left
        intro b _
        have hk := (hkids e he).elim (fun h' => absurd h' hf) id
        show J e.c b * _ = resolve fixed prior L d rest (stepJ fixed prior L d J g) e.c b * _
        rw [resolve_other fixed prior L d rest _ e.c hk.2]
        show _ = upF J g.1 _ e.c b * _
        rw [upF_other J g.1 e.c _ hk.1]
    · exact resolve_spec rest _ hrest g hg' a

/-- changing rows and priors keeps the tree conditions as long as the equations still hold -/
theorem TreeOK.of_eq (prior' : Nat → Nat → α) (I' : Nat → Nat → α) :
    ∀ gs, TreeOK G fixed prior L I d gs →
      (∀ g ∈ gs, ∀ t, t < G →
        prior' g.1 t * (g.2.map (fun e => smsg fixed L I' e t)).prod = d g.1 * I' g.1 t) →
      TreeOK G fixed prior' L I' d gs
  | [], _, _ => trivial
  | g :: rest, h, heq =>
    ⟨⟨h.1.ufix, h.1.unot, h.1.es_p, h.1.es_c, heq g (List.mem_cons_self ..)⟩, h.2.1,
      TreeOK.of_eq prior' I' rest h.2.2 (fun g' hg' => heq g' (List.mem_cons_of_mem _ hg'))⟩

/-- modifying the prior of one node multiplies the weight by `φ (x c)` -/
theorem Wt_priorMod (live : List Nat) (c : Nat) (φ : Nat → α) :
    ∀ (gs : List (Nat × List DEdge)), (gs.map (·.1)).Nodup → c ∈ gs.map (·.1) → ∀ x : Nat → Nat,
      Wt fixed (priorMod prior c φ) L live I gs x = Wt fixed prior L live I gs x * φ (x c) := by
  intro gs hnd hc x
  unfold Wt
  have key : ∀ (gs : List (Nat × List DEdge)), (gs.map (·.1)).Nodup →
      (gs.map (fun g => priorMod prior c φ g.1 (x g.1))).prod
        = (gs.map (fun g => prior g.1 (x g.1))).prod * (if c ∈ gs.map (·.1) then φ (x c) else 1) := by
    intro gs
    induction gs with
    | nil => intro _; simp
    | cons g rest ih =>
      intro hnd
      simp only [List.map_cons, List.nodup_cons] at hnd
      simp only [List.map_cons, List.prod_cons, ih hnd.2]
      unfold priorMod
      by_cases hg : g.1 = c
      · have hcr : c ∉ rest.map (·.1) := hg ▸ hnd.1
        rw [if_pos hg, if_neg hcr, if_pos (by simp [hg]), hg]; ring
      · rw [if_neg hg]
        by_cases hcr : c ∈ rest.map (·.1)
        · rw [if_pos hcr, if_pos (by simp [hcr])]; ring
        · rw [if_neg hcr, if_neg (by simp [hcr, Ne.symm hg])]; ring
  rw [key gs hnd, if_pos hc]
  ring

end
end Tsdate.Discrete
