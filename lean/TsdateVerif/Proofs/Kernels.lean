/-
Helper lemmas about the translated scalar kernels (`Gen/Kernels.lean`), over an arbitrary linear ordered
field `α` and an ARBITRARY instance `F : SpecFns α` of the special functions (no law about exp/log/sqrt/
lgamma/isFinite is used anywhere in this file).

The proof scripts only use `simp only [<generated def>]`, `split_ifs`, `field_simp`, `ring`, `positivity`,
`linarith`, so that algebraically harmless rewrites of the Python still go through.
-/
import Mathlib.Algebra.Order.Field.Basic
import Mathlib.Tactic.FieldSimp
import Mathlib.Tactic.Ring
import Mathlib.Tactic.Positivity
import Mathlib.Tactic.Linarith
import Mathlib.Tactic.LinearCombination
import Mathlib.Tactic.NormNum
import Mathlib.Tactic.SplitIfs
import TsdateVerif.Gen.Kernels

namespace Tsdate.Kernels
open Tsdate.Gen.Kernels
set_option linter.unusedSectionVars false

variable {α : Type} [Field α] [LinearOrder α] [IsStrictOrderedRing α]

/-- `p = (shape - 1, rate)` (tsdate's "natural parameters") is a proper gamma with mean `mn`, variance `va`. -/
def IsGammaFit (p : α × α) (mn va : α) : Prop :=
  0 < p.1 + 1 ∧ 0 < p.2 ∧ (p.1 + 1) / p.2 = mn ∧ (p.1 + 1) / p.2 ^ 2 = va

theorem feq_iff (x y : α) : feq x y = true ↔ x = y := by
  simp only [feq, Bool.and_eq_true, decide_eq_true_eq]
  exact ⟨fun h => le_antisymm h.1 h.2, fun h => ⟨le_of_eq h, le_of_eq h.symm⟩⟩

theorem feq_self (x : α) : feq x x = true := (feq_iff x x).2 rfl

theorem valid_moments_pos (F : SpecFns α) (m v : α) (h : _valid_moments F m v = true) : 0 < m ∧ 0 < v := by
  unfold _valid_moments at h
  split_ifs at h with h1 h2
  simpa using h2

theorem valid_moments_iff (F : SpecFns α) (m v : α) :
    _valid_moments F m v = true ↔ (F.isFinite m = true ∧ F.isFinite v = true) ∧ 0 < m ∧ 0 < v := by
  unfold _valid_moments
  split_ifs with h1 h2 <;> simp_all <;> grind

theorem valid_gamma_iff (F : SpecFns α) (s r : α) :
    _valid_gamma F s r = true ↔ (F.isFinite s = true ∧ F.isFinite r = true) ∧ 0 < s ∧ 0 < r := by
  unfold _valid_gamma
  split_ifs with h1 h2 <;> simp_all [not_le] <;> grind

theorem valid_hyperu_iff (F : SpecFns α) (a b z : α) :
    _valid_hyperu F a b z = true ↔
      (F.isFinite a = true ∧ F.isFinite b = true ∧ F.isFinite z = true) ∧ 0 < z ∧ a < b ∧ 0 < a := by
  unfold _valid_hyperu
  split_ifs with h1 h2 h3 <;> simp_all [not_le] <;> grind

theorem valid_hyp1f1_iff (F : SpecFns α) (a b z : α) :
    _valid_hyp1f1 F a b z = true ↔
      (F.isFinite a = true ∧ F.isFinite b = true ∧ F.isFinite z = true) ∧ a ≤ b ∧ 0 < a := by
  unfold _valid_hyp1f1
  split_ifs with h1 h2 <;> simp_all <;> grind

/-- Method of moments is exact: the returned gamma is proper and has exactly the requested mean and variance. -/
theorem mom_fit (F : SpecFns α) (m v : α) (hm : 0 < m) (hv : 0 < v) :
    IsGammaFit (approximate_gamma_mom F m v) m v := by
  have hm' : m ≠ 0 := ne_of_gt hm
  have hv' : v ≠ 0 := ne_of_gt hv
  simp only [approximate_gamma_mom, Nat.cast_one, IsGammaFit, sub_add_cancel]
  refine ⟨by positivity, by positivity, ?_, ?_⟩ <;> field_simp

theorem mom_fit_of_valid (F : SpecFns α) (m v : α) (h : _valid_moments F m v = true) :
    IsGammaFit (approximate_gamma_mom F m v) m v :=
  mom_fit F m v (valid_moments_pos F m v h).1 (valid_moments_pos F m v h).2

/-- `approximate_gamma_mom` raises exactly when a moment is not positive. -/
theorem pre_mom_iff (F : SpecFns α) (m v : α) : pre_approximate_gamma_mom F m v = true ↔ 0 < m ∧ 0 < v := by
  simp [pre_approximate_gamma_mom]

theorem pre_mom_of_valid (F : SpecFns α) (m v : α) (h : _valid_moments F m v = true) :
    pre_approximate_gamma_mom F m v = true :=
  (pre_mom_iff F m v).2 (valid_moments_pos F m v h)

/-- A gamma fit determines the natural parameters: shape = mean²/var, rate = mean/var. -/
theorem gammaFit_unique (p : α × α) (mn va : α) (h : IsGammaFit p mn va) :
    p.1 + 1 = mn ^ 2 / va ∧ p.2 = mn / va := by
  obtain ⟨h1, h2, h3, h4⟩ := h
  have h2' : p.2 ≠ 0 := ne_of_gt h2
  have h1' : p.1 + 1 ≠ 0 := ne_of_gt h1
  subst h3 h4
  constructor <;> field_simp

end Tsdate.Kernels
