/-
Lemmas about the packed triangular layout of `tsdate/discrete.py` (used by Props/C10, C12).
-/
import Mathlib.Tactic.Ring
import Mathlib.Tactic.Linarith
import Mathlib.Tactic.SplitIfs
import Mathlib.Data.List.Basic
import Mathlib.Data.List.Range
import TsdateVerif.Model.Discrete

namespace Tsdate.Discrete
open Tsdate

/-! ### Triangular numbers -/

/-- `n (n+1) / 2`: start of row `n` of the packed lower triangle. -/
def tri (n : Nat) : Nat := n * (n + 1) / 2

theorem tri_zero : tri 0 = 0 := rfl

theorem tri_succ (n : Nat) : tri (n + 1) = tri n + (n + 1) := by
  unfold tri
  have h : (n + 1) * (n + 1 + 1) = n * (n + 1) + (n + 1) * 2 := by ring
  rw [h, Nat.add_mul_div_right _ _ (by norm_num : 0 < 2)]

theorem lowerIdx_eq (n t : Nat) : lowerIdx n t = tri n + t := rfl
theorem triSize_eq (G : Nat) : triSize G = tri G := rfl

theorem tri_mono {a b : Nat} (h : a ≤ b) : tri a ≤ tri b := by
  induction h with
  | refl => exact le_rfl
  | step _ ih => rw [tri_succ]; omega

/-- In-range: entry `(n, t)` with `t ≤ n < G` lies inside the packed array. -/
theorem lowerIdx_lt (G n t : Nat) (ht : t ≤ n) (hn : n < G) : lowerIdx n t < triSize G := by
  rw [lowerIdx_eq, triSize_eq]
  have : tri (n + 1) ≤ tri G := tri_mono hn
  rw [tri_succ] at this
  omega

/-! ### Inverse of the lower packing -/

/-- Row/column of a packed lower-triangular position: walk down the rows (lengths 1, 2, 3, …). -/
def unLowerFrom (n k : Nat) : Nat × Nat :=
  if k ≤ n then (n, k) else unLowerFrom (n + 1) (k - (n + 1))
termination_by k
decreasing_by omega

def unLower (k : Nat) : Nat × Nat := unLowerFrom 0 k

theorem unLowerFrom_spec (d : Nat) : ∀ (a k t : Nat), t ≤ a + d → k + tri a = tri (a + d) + t →
    unLowerFrom a k = (a + d, t) := by
  induction d with
  | zero =>
    intro a k t ht hk
    have : k = t := by rw [Nat.add_zero] at hk; omega
    subst this
    rw [unLowerFrom, if_pos (by simpa using ht)]; rfl
  | succ d ih =>
    intro a k t ht hk
    have hmono : tri (a + 1) ≤ tri (a + (d + 1)) := tri_mono (by omega)
    rw [tri_succ] at hmono
    have hgt : ¬ k ≤ a := by omega
    rw [unLowerFrom, if_neg hgt]
    have := ih (a + 1) (k - (a + 1)) t (by omega) (by rw [tri_succ]; rw [show a + 1 + d = a + (d + 1) by omega]; omega)
    rw [this, show a + 1 + d = a + (d + 1) by omega]

/-- `unLower` undoes `lowerIdx` on the triangle. -/
theorem unLower_lowerIdx (n t : Nat) (ht : t ≤ n) : unLower (lowerIdx n t) = (n, t) := by
  have := unLowerFrom_spec n 0 (lowerIdx n t) t (by omega) (by rw [lowerIdx_eq, tri_zero]; simp)
  simpa [unLower] using this

theorem unLowerFrom_inv (a k : Nat) :
    (unLowerFrom a k).2 ≤ (unLowerFrom a k).1 ∧ a ≤ (unLowerFrom a k).1 ∧
      tri (unLowerFrom a k).1 + (unLowerFrom a k).2 = k + tri a := by
  induction k using Nat.strong_induction_on generalizing a with
  | _ k ih =>
    rw [unLowerFrom]
    split_ifs with h
    · exact ⟨h, le_rfl, by simp [Nat.add_comm]⟩
    · obtain ⟨h1, h2, h3⟩ := ih (k - (a + 1)) (by omega) (a + 1)
      refine ⟨h1, by omega, ?_⟩
      rw [h3, tri_succ]; omega

/-- `lowerIdx` undoes `unLower`, and `unLower` lands in the triangle: together with
`unLower_lowerIdx` the packing is a bijection between `{(n,t) | t ≤ n}` and `ℕ`. -/
theorem lowerIdx_unLower (k : Nat) :
    (unLower k).2 ≤ (unLower k).1 ∧ lowerIdx (unLower k).1 (unLower k).2 = k := by
  obtain ⟨h1, _, h3⟩ := unLowerFrom_inv 0 k
  exact ⟨h1, by simpa [unLower, lowerIdx_eq, tri_zero] using h3⟩

/-- Positions below `triSize G` come from rows below `G`. -/
theorem unLower_row_lt (G k : Nat) (hk : k < triSize G) : (unLower k).1 < G := by
  obtain ⟨_, h2⟩ := lowerIdx_unLower k
  by_contra hge
  have : tri G ≤ tri (unLower k).1 := tri_mono (by omega)
  rw [lowerIdx_eq] at h2
  rw [triSize_eq] at hk
  omega

/-! ### Upper packing -/

theorem colStart_add_tri (G : Nat) : ∀ i, i ≤ G → colStart G i + tri (G - i) = tri G
  | 0, _ => by simp [colStart]
  | i + 1, h => by
    have ih := colStart_add_tri G i (by omega)
    have : G - i = (G - (i + 1)) + 1 := by omega
    rw [this, tri_succ] at ih
    simp only [colStart]
    omega

theorem colStart_full (G : Nat) : colStart G G = triSize G := by
  have := colStart_add_tri G G le_rfl
  simpa [tri_zero, triSize_eq] using this

theorem colStart_mono (G : Nat) {a b : Nat} (h : a ≤ b) : colStart G a ≤ colStart G b := by
  induction h with
  | refl => exact le_rfl
  | step _ ih => simp only [colStart]; omega

/-- In-range: entry `(i, j)` with `i ≤ j < G` lies inside the packed upper array. -/
theorem upperIdx_lt (G i j : Nat) (hij : i ≤ j) (hj : j < G) : upperIdx G i j < triSize G := by
  unfold upperIdx
  have h1 : colStart G (i + 1) ≤ colStart G G := colStart_mono G (by omega)
  rw [colStart_full] at h1
  simp only [colStart] at h1
  omega

/-- Row/column of a packed upper-triangular position (rows have lengths `G, G-1, …`). -/
def unUpperFrom (G i k : Nat) : Nat → Nat × Nat
  | 0 => (i, i + k)
  | fuel + 1 => if k < G - i then (i, i + k) else unUpperFrom G (i + 1) (k - (G - i)) fuel

def unUpper (G k : Nat) : Nat × Nat := unUpperFrom G 0 k G

theorem unUpperFrom_spec (G : Nat) (d : Nat) : ∀ (a k j fuel : Nat), a + d ≤ j → j < G → d ≤ fuel →
    k + colStart G a = colStart G (a + d) + (j - (a + d)) → unUpperFrom G a k fuel = (a + d, j) := by
  induction d with
  | zero =>
    intro a k j fuel haj hj _ hk
    have hk' : k = j - a := by rw [Nat.add_zero] at hk; omega
    cases fuel with
    | zero => simp [unUpperFrom, hk']; omega
    | succ f =>
      rw [unUpperFrom, if_pos (by omega)]
      simp [hk']; omega
  | succ d ih =>
    intro a k j fuel haj hj hf hk
    cases fuel with
    | zero => omega
    | succ f =>
      have hm : colStart G (a + 1) ≤ colStart G (a + (d + 1)) := colStart_mono G (by omega)
      have h1 : colStart G (a + 1) = colStart G a + (G - a) := rfl
      have h2 : a + 1 + d = a + (d + 1) := by omega
      rw [unUpperFrom, if_neg (by omega)]
      have := ih (a + 1) (k - (G - a)) j f (by omega) hj (by omega)
        (by rw [h2, h1]; omega)
      rw [this, h2]

/-- `unUpper` undoes `upperIdx` on the triangle. -/
theorem unUpper_upperIdx (G i j : Nat) (hij : i ≤ j) (hj : j < G) :
    unUpper G (upperIdx G i j) = (i, j) := by
  have := unUpperFrom_spec G i 0 (upperIdx G i j) j G (by omega) hj (by omega)
    (by simp [upperIdx, colStart])
  simpa [unUpper] using this

theorem unUpperFrom_inv (G : Nat) : ∀ (fuel a k : Nat), a + fuel = G → k + colStart G a < triSize G →
    (unUpperFrom G a k fuel).1 ≤ (unUpperFrom G a k fuel).2 ∧ (unUpperFrom G a k fuel).2 < G ∧
      upperIdx G (unUpperFrom G a k fuel).1 (unUpperFrom G a k fuel).2 = k + colStart G a := by
  intro fuel
  induction fuel with
  | zero =>
    intro a k ha hk
    have : a = G := by omega
    subst this
    rw [colStart_full] at hk; omega
  | succ f ih =>
    intro a k ha hk
    rw [unUpperFrom]
    split_ifs with h
    · refine ⟨by simp, by simp; omega, ?_⟩
      simp [upperIdx]; omega
    · have hk' : k - (G - a) + colStart G (a + 1) = k + colStart G a := by
        simp only [colStart]; omega
      have := ih (a + 1) (k - (G - a)) (by omega) (by omega)
      rw [hk'] at this
      exact this

/-- `upperIdx` undoes `unUpper` below `triSize G`: the upper packing is a bijection between
`{(i,j) | i ≤ j < G}` and `[0, G(G+1)/2)`. -/
theorem upperIdx_unUpper (G k : Nat) (hk : k < triSize G) :
    (unUpper G k).1 ≤ (unUpper G k).2 ∧ (unUpper G k).2 < G ∧
      upperIdx G (unUpper G k).1 (unUpper G k).2 = k := by
  have := unUpperFrom_inv G G 0 k (by omega) (by simpa [colStart] using hk)
  simpa [unUpper, colStart] using this

/-! ### Row structure of the flattened index arrays -/

/-- cumulative start offsets of a list of rows -/
def offsets {β : Type} : Nat → List (List β) → List Nat
  | _, [] => []
  | acc, r :: rs => acc :: offsets (acc + r.length) rs

/-- **`reduceat` at the row starts of a concatenation of rows reduces each row.** -/
theorem reduceat_flatten {α : Type} (sum : List α → α) :
    ∀ (rows : List (List α)) (pre : List α),
      reduceat sum (pre ++ rows.flatten) (offsets pre.length rows) = rows.map sum
  | [], _ => by simp [offsets, reduceat]
  | [r], pre => by simp [offsets, reduceat]
  | r :: r2 :: rs, pre => by
    have ih := reduceat_flatten sum (r2 :: rs) (pre ++ r)
    simp only [offsets, reduceat, List.map_cons, List.flatten_cons] at ih ⊢
    rw [List.length_append] at ih
    rw [← List.append_assoc, ih]
    congr 1
    simp [List.append_assoc]

theorem offsets_map_range' {β : Type} (row : Nat → List β) (start : Nat → Nat)
    (hstart : ∀ n, start (n + 1) = start n + (row n).length) :
    ∀ (k a : Nat), offsets (start a) ((List.range' a k).map row) = (List.range' a k).map start
  | 0, _ => by simp [offsets]
  | k + 1, a => by
    simp only [List.range'_succ, List.map_cons, offsets]
    rw [← hstart, offsets_map_range' row start hstart k (a + 1)]

theorem flatMap_eq_flatten_map {β γ : Type} (l : List γ) (f : γ → List β) :
    l.flatMap f = (l.map f).flatten := by
  simp [List.flatMap]

/-- `reduceat` of a row-structured list at the given starts, in one step. -/
theorem reduceat_rows {α : Type} (sum : List α → α) (G : Nat) (row : Nat → List α)
    (start : Nat → Nat) (h0 : start 0 = 0)
    (hstart : ∀ n, start (n + 1) = start n + (row n).length) :
    reduceat sum ((List.range G).flatMap row) ((List.range G).map start)
      = (List.range G).map (fun n => sum (row n)) := by
  have h := reduceat_flatten sum ((List.range G).map row) []
  simp only [List.nil_append, List.length_nil] at h
  rw [flatMap_eq_flatten_map, List.range_eq_range']
  rw [List.range_eq_range'] at h
  have ho := offsets_map_range' row start hstart G 0
  rw [h0] at ho
  rw [← ho, h, List.map_map]
  rfl

/-- zipping two row-structured lists row by row -/
theorem zipWith_flatMap {β γ δ : Type} (f : β → γ → δ) (ra : Nat → List β) (rb : Nat → List γ)
    (hlen : ∀ n, (ra n).length = (rb n).length) (l : List Nat) :
    List.zipWith f (l.flatMap ra) (l.flatMap rb) = l.flatMap (fun n => List.zipWith f (ra n) (rb n)) := by
  induction l with
  | nil => simp
  | cons n l ih =>
    simp only [List.flatMap_cons]
    rw [List.zipWith_append (hlen n), ih]

/-- A list of length `tri G` is the concatenation of its rows `l[tri n + t]`, `t ≤ n < G`. -/
theorem list_eq_triRows {α : Type} (d : α) : ∀ (G : Nat) (l : List α), l.length = tri G →
    l = (List.range G).flatMap (fun n => (List.range (n + 1)).map (fun t => l.getD (tri n + t) d))
  | 0, l, h => by
    have : l = [] := List.eq_nil_of_length_eq_zero (by simpa [tri_zero] using h)
    simp [this]
  | G + 1, l, h => by
    rw [tri_succ] at h
    have hsplit : l = l.take (tri G) ++ l.drop (tri G) := (List.take_append_drop _ _).symm
    have ih := list_eq_triRows d G (l.take (tri G)) (by simp; omega)
    rw [List.range_succ, List.flatMap_append]
    simp only [List.flatMap_singleton]
    have h1 : (List.range G).flatMap (fun n => (List.range (n + 1)).map (fun t => l.getD (tri n + t) d))
        = l.take (tri G) := by
      conv_rhs => rw [ih]
      apply List.flatMap_congr
      intro n hn
      apply List.map_congr_left
      intro t ht
      have hn' : n < G := List.mem_range.mp hn
      have ht' : t < n + 1 := List.mem_range.mp ht
      have hlt : tri n + t < tri G := by
        have := tri_mono (show n + 1 ≤ G by omega); rw [tri_succ] at this; omega
      simp only [List.getD_eq_getElem?_getD]
      rw [List.getElem?_take_of_lt hlt]
    have h2 : (List.range (G + 1)).map (fun t => l.getD (tri G + t) d) = l.drop (tri G) := by
      apply List.ext_getElem
      · simp; omega
      · intro i h1 h2
        simp only [List.length_map, List.length_range] at h1
        simp [List.getD_eq_getElem?_getD, List.getElem?_eq_getElem (show tri G + i < l.length by omega)]
    rw [h1, h2]
    exact hsplit

theorem array_toList_triRows {α : Type} [Inhabited α] (G : Nat) (a : Array α)
    (h : a.size = triSize G) :
    a.toList = (List.range G).flatMap (fun n => (List.range (n + 1)).map (fun t => aget a (lowerIdx n t))) := by
  have := list_eq_triRows (default : α) G a.toList (by simpa [triSize_eq] using h)
  conv_lhs => rw [this]
  apply List.flatMap_congr
  intro n _
  apply List.map_congr_left
  intro t _
  simp [aget, lowerIdx_eq, List.getD_eq_getElem?_getD]

theorem rowIndices_zero (G : Nat) : rowIndices G 0 = (List.range G).map tri := by
  simp [rowIndices, tri]

theorem rowIndices_eq (G t : Nat) :
    rowIndices G t = (List.range' t (G - t)).map (fun n => lowerIdx n t) := by
  unfold rowIndices
  rw [← List.map_drop, List.range_eq_range', List.drop_range']
  simp [lowerIdx, Nat.add_comm]

end Tsdate.Discrete
