/-
The recursion of `_marginalize_over_ancestors` (model: `Model/Coalescent.lean`) produces the closed
form `closedP` at every stage (C14).
-/
import Mathlib.Data.Nat.Choose.Basic
import Mathlib.Data.Nat.Cast.Field
import Mathlib.Algebra.CharZero.Defs
import Mathlib.Tactic.Ring
import Mathlib.Tactic.FieldSimp
import Mathlib.Tactic.LinearCombination
import Mathlib.Tactic.Linarith
import TsdateVerif.Model.Coalescent
import TsdateVerif.Spec.Coalescent

namespace Tsdate.Coalescent
set_option linter.unusedSectionVars false

variable {α : Type} [Field α] [CharZero α]

/-- The list `closedP n k a, closedP n k (a+1), …` of length `len`. -/
def closedList (n k : ℕ) : ℕ → ℕ → List α
  | _, 0 => []
  | a, len + 1 => closedP n k a :: closedList n k (a + 1) len

theorem closedList_length (n k a len : ℕ) : (closedList (α := α) n k a len).length = len := by
  induction len generalizing a with
  | zero => rfl
  | succ len ih => simp [closedList, ih]

theorem closedList_succ_append (n k a len : ℕ) :
    closedList (α := α) n k a (len + 1) = closedList n k a len ++ [closedP n k (a + len)] := by
  induction len generalizing a with
  | zero => simp [closedList]
  | succ len ih =>
    rw [closedList, ih (a + 1)]
    simp [closedList, Nat.add_assoc, Nat.add_comm 1 len]

theorem lastD_closedList (n k a len : ℕ) (d : α) :
    lastD (closedList n k a (len + 1)) d = closedP n k (a + len) := by
  induction len generalizing a d with
  | zero => simp [closedList, lastD]
  | succ len ih =>
    rw [closedList, lastD, ih (a + 1)]
    congr 1; omega

theorem choose_cast_ne_zero {N j : ℕ} (h : j ≤ N) : ((N.choose j : ℕ) : α) ≠ 0 :=
  Nat.cast_ne_zero.mpr (Nat.pos_iff_ne_zero.mp (Nat.choose_pos h))

/-- Element step in subtraction-free parameters: `k = k'+3`, `a = a'+2`, `n = a'+k'+d+4`. -/
theorem closed_step_core (a' k' d : ℕ) :
    ((a' + 2).choose 2 : α) * ((k' + d + 1).choose (k' + 1) : α) / ((a' + k' + d + 4).choose (k' + 4) : α)
        * (((a' + d + 1 : ℕ) : α) * ((k' + 1 : ℕ) : α) / ((k' + 4 : ℕ) : α)) / ((d + 1 : ℕ) : α)
      = ((a' + 2).choose 2 : α) * ((k' + d + 1).choose k' : α) / ((a' + k' + d + 4).choose (k' + 3) : α) := by
  have h1 : ((k' + d + 1).choose (k' + 1) : α) * ((k' + 1 : ℕ) : α)
      = ((k' + d + 1).choose k' : α) * ((d + 1 : ℕ) : α) := by
    have := Nat.choose_succ_right_eq (k' + d + 1) k'
    rw [show k' + d + 1 - k' = d + 1 by omega] at this
    exact_mod_cast this
  have h2 : ((a' + k' + d + 4).choose (k' + 4) : α) * ((k' + 4 : ℕ) : α)
      = ((a' + k' + d + 4).choose (k' + 3) : α) * ((a' + d + 1 : ℕ) : α) := by
    have := Nat.choose_succ_right_eq (a' + k' + d + 4) (k' + 3)
    rw [show a' + k' + d + 4 - (k' + 3) = a' + d + 1 by omega] at this
    exact_mod_cast this
  have n1 : ((a' + k' + d + 4).choose (k' + 4) : α) ≠ 0 := choose_cast_ne_zero (by omega)
  have n2 : ((a' + k' + d + 4).choose (k' + 3) : α) ≠ 0 := choose_cast_ne_zero (by omega)
  have n3 : ((k' + 4 : ℕ) : α) ≠ 0 := Nat.cast_ne_zero.mpr (by omega)
  have n4 : ((d + 1 : ℕ) : α) ≠ 0 := Nat.cast_ne_zero.mpr (by omega)
  rw [div_mul_div_comm, div_div, div_eq_div_iff (mul_ne_zero (mul_ne_zero n1 n3) n4) n2]
  linear_combination
    (((a' + 2).choose 2 : α) * ((a' + d + 1 : ℕ) : α) * ((a' + k' + d + 4).choose (k' + 3) : α)) * h1
    - (((a' + 2).choose 2 : α) * ((k' + d + 1).choose k' : α) * ((d + 1 : ℕ) : α)) * h2

/-- One inner-loop update turns `P(a | k, n)` into `P(a | k-1, n)`. -/
theorem closed_step (n k a : ℕ) (hk : 3 ≤ k) (ha : 2 ≤ a) (han : a + k ≤ n + 1) :
    closedP (α := α) n k a * stepConst n k / ((n + 2 - a - k : ℕ) : α) = closedP n (k - 1) a := by
  obtain ⟨k', rfl⟩ : ∃ k', k = k' + 3 := ⟨k - 3, by omega⟩
  obtain ⟨a', rfl⟩ : ∃ a', a = a' + 2 := ⟨a - 2, by omega⟩
  obtain ⟨d, rfl⟩ : ∃ d, n = a' + k' + d + 4 := ⟨n + 1 - (a' + 2) - (k' + 3), by omega⟩
  unfold closedP stepConst
  have e1 : a' + k' + d + 4 - (a' + 2) - 1 = k' + d + 1 := by omega
  have e2 : a' + k' + d + 4 - (k' + 3) = a' + d + 1 := by omega
  have e3 : a' + k' + d + 4 + 2 - (a' + 2) - (k' + 3) = d + 1 := by omega
  have e4 : k' + 3 - 2 = k' + 1 := by omega
  have e5 : k' + 3 - 1 - 2 = k' := by omega
  have e6 : k' + 3 - 1 + 1 = k' + 3 := by omega
  have e7 : k' + 3 + 1 = k' + 4 := by omega
  rw [e1, e2, e3, e4, e5, e6, e7]
  rw [← closed_step_core a' k' d, mul_div_assoc]

theorem updFrom_closed (n k : ℕ) (hk : 3 ≤ k) (len : ℕ) :
    ∀ a, 2 ≤ a → a + len + k ≤ n + 2 →
      updFrom n k (stepConst (α := α) n k) a (closedList n k a len) = closedList n (k - 1) a len := by
  induction len with
  | zero => intro a _ _; rfl
  | succ len ih =>
    intro a ha h
    rw [closedList, updFrom, closedList, closed_step n k a hk ha (by omega), ih (a + 1) (by omega) (by omega)]

/-- The appended entry, in subtraction-free parameters `k = k'+3`, `n - k = m'+1`. -/
theorem closed_append_core (m' k' : ℕ) :
    ((m' + 2).choose 2 : α) * ((k' + 1).choose k' : α) / ((m' + k' + 4).choose (k' + 3) : α)
        * ((m' + 3 : ℕ) : α) / ((k' + 4 : ℕ) : α)
        / (((m' + 1 : ℕ) : α) * ((k' + 1 : ℕ) : α) / ((k' + 4 : ℕ) : α))
      = ((m' + 3).choose 2 : α) * ((k').choose k' : α) / ((m' + k' + 4).choose (k' + 3) : α) := by
  have h1 : ((m' + 2).choose 2 : α) * ((m' + 3 : ℕ) : α) = ((m' + 3).choose 2 : α) * ((m' + 1 : ℕ) : α) := by
    have := Nat.choose_mul_succ_eq (m' + 2) 2
    rw [show m' + 2 + 1 - 2 = m' + 1 by omega] at this
    exact_mod_cast this
  have h2 : ((k' + 1).choose k' : α) = ((k' + 1 : ℕ) : α) := by
    rw [Nat.choose_succ_self_right]
  have n2 : ((m' + k' + 4).choose (k' + 3) : α) ≠ 0 := choose_cast_ne_zero (by omega)
  have n3 : ((k' + 4 : ℕ) : α) ≠ 0 := Nat.cast_ne_zero.mpr (by omega)
  have n4 : ((m' + 1 : ℕ) : α) ≠ 0 := Nat.cast_ne_zero.mpr (by omega)
  have n5 : ((k' + 1 : ℕ) : α) ≠ 0 := Nat.cast_ne_zero.mpr (by omega)
  rw [h2, Nat.choose_self, Nat.cast_one, mul_one]
  field_simp
  linear_combination h1

theorem margStep_closed (n k : ℕ) (hk : 3 ≤ k) (hkn : k + 1 ≤ n) :
    margStep (α := α) n k (closedList n k 2 (n - k)) = closedList n (k - 1) 2 (n - k + 1) := by
  obtain ⟨k', rfl⟩ : ∃ k', k = k' + 3 := ⟨k - 3, by omega⟩
  obtain ⟨m', rfl⟩ : ∃ m', n = m' + k' + 4 := ⟨n - (k' + 3) - 1, by omega⟩
  have em : m' + k' + 4 - (k' + 3) = m' + 1 := by omega
  unfold margStep
  simp only [em]
  rw [updFrom_closed _ _ hk _ 2 (by omega) (by omega), closedList_succ_append _ _ 2 (m' + 1),
    lastD_closedList]
  congr 2
  unfold closedP stepConst
  have e1 : m' + k' + 4 - (2 + m') - 1 = k' + 1 := by omega
  have e2 : m' + k' + 4 - (2 + (m' + 1)) - 1 = k' := by omega
  have e4 : k' + 3 - 2 = k' + 1 := by omega
  have e5 : k' + 3 - 1 - 2 = k' := by omega
  have e6 : k' + 3 - 1 + 1 = k' + 3 := by omega
  have e7 : k' + 3 + 1 = k' + 4 := by omega
  have e8 : 2 + m' = m' + 2 := by omega
  have e9 : 2 + (m' + 1) = m' + 3 := by omega
  have e10 : m' + 1 + 2 = m' + 3 := by omega
  rw [e1, e2, em, e4, e5, e6, e7, e8, e9, e10]
  exact closed_append_core m' k'

/-! ### The interleaved inner loop equals "dot product, then update" -/

theorem innerLoop_upd (n k : ℕ) (c : α) (val : ℕ → α) :
    ∀ (ps : List α) (a : ℕ) (acc : α),
      innerLoop n k c true val a ps acc = (updFrom n k c a ps, acc + dotFrom val a ps) := by
  intro ps
  induction ps with
  | nil => intro a acc; simp [innerLoop, updFrom, dotFrom]
  | cons p ps ih =>
    intro a acc
    simp only [innerLoop, updFrom, dotFrom, ih, if_true]
    refine Prod.ext rfl ?_
    simp only
    ring

theorem innerLoop_noupd (n k : ℕ) (c : α) (val : ℕ → α) :
    ∀ (ps : List α) (a : ℕ) (acc : α),
      innerLoop n k c false val a ps acc = (ps, acc + dotFrom val a ps) := by
  intro ps
  induction ps with
  | nil => intro a acc; simp [innerLoop, dotFrom]
  | cons p ps ih =>
    intro a acc
    simp only [innerLoop, dotFrom, ih]
    refine Prod.ext (by simp) ?_
    simp only
    ring

/-- The loop body as the code runs it equals the separated form used in the proofs. -/
theorem margBody_eq_ref (n : ℕ) (val : ℕ → α) (s : MState α) (k : ℕ) :
    margBody n val s k = margBodyRef n val s k := by
  unfold margBody margBodyRef
  by_cases h : 2 < k
  · simp only [h, decide_true, if_true, innerLoop_upd, Nat.cast_zero, zero_add, margStep]
  · simp only [h, decide_false, if_false, innerLoop_noupd, Nat.cast_zero, zero_add]

end Tsdate.Coalescent
