/-
Support for the repair of finding F5 proposed in design_notes/C35.md (NOT applied to /repo, hence not a
property obligation and not tied to the code): the forward scan that `mutational_timescale` would run
over its breakpoints `(origin_k, adjust_k)`,

    keep[0] = True; last = 0
    for k in 1 .. size-1:
        if origin[k] > origin[last] and adjust[k] > adjust[last]: keep[k] = True; last = k

always yields breakpoints that are strictly increasing in both coordinates (the precondition asserted
by `piecewise_scale_point_estimate` / `piecewise_scale_posterior`: "Use fewer rescaling intervals"),
and is the identity on breakpoints that already are.  The trailing-interval replacement and the
identity fallback of the patch are guarded at run time by the same comparison.
-/
import Mathlib.Order.Basic
import Mathlib.Data.List.Chain
import Mathlib.Order.Nat

namespace Tsdate.Validate

section
variable {α : Type} [LinearOrder α]

/-- Both coordinates strictly increase. -/
def Below (x y : α × α) : Prop := x.1 < y.1 ∧ x.2 < y.2

instance : DecidableRel (Below (α := α)) := fun x y => by unfold Below; exact inferInstance

/-- The scan, with `last` the last kept breakpoint. -/
def mergeScan (last : α × α) : List (α × α) → List (α × α)
  | [] => []
  | b :: rest => if Below last b then b :: mergeScan b rest else mergeScan last rest

def mergeBreaks : List (α × α) → List (α × α)
  | [] => []
  | b :: rest => b :: mergeScan b rest

theorem mergeScan_chain (last : α × α) (l : List (α × α)) :
    List.IsChain Below (last :: mergeScan last l) := by
  induction l generalizing last with
  | nil => simp [mergeScan]
  | cons b rest ih =>
    unfold mergeScan
    split_ifs with h
    · exact List.IsChain.cons_cons h (ih b)
    · exact ih last

/-- The kept breakpoints are strictly increasing in both coordinates, for every input. -/
theorem mergeBreaks_strict (l : List (α × α)) : List.IsChain Below (mergeBreaks l) := by
  cases l with
  | nil => simp [mergeBreaks]
  | cons b rest => exact mergeScan_chain b rest

theorem mergeScan_id (last : α × α) (l : List (α × α)) (h : List.IsChain Below (last :: l)) :
    mergeScan last l = l := by
  induction l generalizing last with
  | nil => rfl
  | cons b rest ih =>
    have h1 : Below last b := (List.isChain_cons_cons.mp h).1
    have h2 : List.IsChain Below (b :: rest) := (List.isChain_cons_cons.mp h).2
    simp [mergeScan, h1, ih b h2]

/-- On breakpoints that are already strictly increasing the scan changes nothing (so the repair is
a no-op on every input on which the present code succeeds). -/
theorem mergeBreaks_id (l : List (α × α)) (h : List.IsChain Below l) : mergeBreaks l = l := by
  cases l with
  | nil => rfl
  | cons b rest => simp [mergeBreaks, mergeScan_id b rest h]

end

example : mergeBreaks [((0 : Nat), (0 : Nat)), (1, 0), (2, 3), (2, 4), (5, 4), (6, 7)]
    = [(0, 0), (2, 3), (5, 4), (6, 7)] := by decide

end Tsdate.Validate
