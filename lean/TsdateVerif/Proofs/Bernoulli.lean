/-
Bernoulli numbers B₂ … B₁₆ as explicit rationals, derived from Mathlib's `bernoulli` through its defining
recurrence `sum_bernoulli` (used by C19 to pin the series coefficients of `_digamma` / `_trigamma`).
-/
import Mathlib.NumberTheory.Bernoulli
import Mathlib.Tactic.Linarith
import Mathlib.Tactic.NormNum

namespace Tsdate.Kernels

section Bernoulli
open Finset

private theorem bstep (n : ℕ) (hn : n ≠ 1) : (∑ k ∈ range n, (n.choose k : ℚ) * bernoulli k) = 0 := by
  rw [sum_bernoulli]; simp [hn]

private theorem bodd (n : ℕ) (h : Odd n) (h1 : 1 < n) : bernoulli n = 0 := bernoulli_eq_zero_of_odd h h1

theorem bernoulli_2 : bernoulli 2 = 1 / 6 := by rw [bernoulli_two]; norm_num

theorem bernoulli_4 : bernoulli 4 = -1 / 30 := by
  have h := bstep 5 (by norm_num)
  simp only [sum_range_succ, sum_range_zero] at h
  rw [bernoulli_zero, bernoulli_one, bernoulli_2, bodd 3 (by decide) (by norm_num)] at h
  norm_num [Nat.choose] at h
  linarith

theorem bernoulli_6 : bernoulli 6 = 1 / 42 := by
  have h := bstep 7 (by norm_num)
  simp only [sum_range_succ, sum_range_zero] at h
  rw [bernoulli_zero, bernoulli_one, bernoulli_2, bodd 3 (by decide) (by norm_num), bernoulli_4,
    bodd 5 (by decide) (by norm_num)] at h
  norm_num [Nat.choose] at h
  linarith

theorem bernoulli_8 : bernoulli 8 = -1 / 30 := by
  have h := bstep 9 (by norm_num)
  simp only [sum_range_succ, sum_range_zero] at h
  rw [bernoulli_zero, bernoulli_one, bernoulli_2, bodd 3 (by decide) (by norm_num), bernoulli_4,
    bodd 5 (by decide) (by norm_num), bernoulli_6, bodd 7 (by decide) (by norm_num)] at h
  norm_num [Nat.choose] at h
  linarith

theorem bernoulli_10 : bernoulli 10 = 5 / 66 := by
  have h := bstep 11 (by norm_num)
  simp only [sum_range_succ, sum_range_zero] at h
  rw [bernoulli_zero, bernoulli_one, bernoulli_2, bodd 3 (by decide) (by norm_num), bernoulli_4,
    bodd 5 (by decide) (by norm_num), bernoulli_6, bodd 7 (by decide) (by norm_num), bernoulli_8,
    bodd 9 (by decide) (by norm_num)] at h
  norm_num [Nat.choose] at h
  linarith

theorem bernoulli_12 : bernoulli 12 = -691 / 2730 := by
  have h := bstep 13 (by norm_num)
  simp only [sum_range_succ, sum_range_zero] at h
  rw [bernoulli_zero, bernoulli_one, bernoulli_2, bodd 3 (by decide) (by norm_num), bernoulli_4,
    bodd 5 (by decide) (by norm_num), bernoulli_6, bodd 7 (by decide) (by norm_num), bernoulli_8,
    bodd 9 (by decide) (by norm_num), bernoulli_10, bodd 11 (by decide) (by norm_num)] at h
  norm_num [Nat.choose] at h
  linarith

theorem bernoulli_14 : bernoulli 14 = 7 / 6 := by
  have h := bstep 15 (by norm_num)
  simp only [sum_range_succ, sum_range_zero] at h
  rw [bernoulli_zero, bernoulli_one, bernoulli_2, bodd 3 (by decide) (by norm_num), bernoulli_4,
    bodd 5 (by decide) (by norm_num), bernoulli_6, bodd 7 (by decide) (by norm_num), bernoulli_8,
    bodd 9 (by decide) (by norm_num), bernoulli_10, bodd 11 (by decide) (by norm_num), bernoulli_12,
    bodd 13 (by decide) (by norm_num)] at h
  norm_num [Nat.choose] at h
  linarith

theorem bernoulli_16 : bernoulli 16 = -3617 / 510 := by
  have h := bstep 17 (by norm_num)
  simp only [sum_range_succ, sum_range_zero] at h
  rw [bernoulli_zero, bernoulli_one, bernoulli_2, bodd 3 (by decide) (by norm_num), bernoulli_4,
    bodd 5 (by decide) (by norm_num), bernoulli_6, bodd 7 (by decide) (by norm_num), bernoulli_8,
    bodd 9 (by decide) (by norm_num), bernoulli_10, bodd 11 (by decide) (by norm_num), bernoulli_12,
    bodd 13 (by decide) (by norm_num), bernoulli_14, bodd 15 (by decide) (by norm_num)] at h
  norm_num [Nat.choose] at h
  linarith

end Bernoulli

end Tsdate.Kernels
