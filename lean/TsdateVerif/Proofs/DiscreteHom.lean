/-
Naturality of the generic passes in the probability space: if `E` maps the operations of one
`Ops` record to those of another (log space ↦ linear space under `exp`), then running the inside
and outside passes commutes with `E`, provided the guarded operations (division by a denominator,
`0/0`) are used inside their domain on the *linear* run.  Used by Props/C12 (`pass_log_eq_lin`).
-/
import Mathlib.Tactic.SplitIfs
import Mathlib.Data.List.Basic
import TsdateVerif.Proofs.DiscreteInside

namespace Tsdate.Discrete
open Tsdate

/-- `E` (values) and `F` (span fractions) carry the operations of `ol` to those of `on`.
`ratio`/`ratio0` only inside their domain (non-null divisor; null divisor only with null numerator),
`scale` only for span fractions whose linear value satisfies `Pn`. -/
structure OpsHom {β α : Type} (ol : Ops β) (on : Ops α) (E F : β → α) (Pn : α → Prop) : Prop where
  one : E ol.one = on.one
  null_iff : ∀ x, E x = on.null ↔ x = ol.null
  combine : ∀ x y, E (ol.combine x y) = on.combine (E x) (E y)
  ratio : ∀ x y, y ≠ ol.null → E (ol.ratio x y) = on.ratio (E x) (E y)
  ratio0 : ∀ x y, (y = ol.null → x = ol.null) → E (ol.ratio0 x y) = on.ratio0 (E x) (E y)
  sum : ∀ l, E (ol.sum l) = on.sum (l.map E)
  maxl : ∀ l, E (ol.maxl l) = on.maxl (l.map E)
  /-- `scale_geometric` only for admissible span fractions (`Pn`, e.g. positive) -/
  scale : ∀ f v, Pn (F f) → E (ol.scale f v) = on.scale (F f) (E v)

section
variable {β α : Type} [Inhabited β] [Inhabited α]

/-- the image of an input under `E` (tables, priors) and `F` (span fractions) -/
def Input.mapE (E F : β → α) (inp : Input β) : Input α where
  G := inp.G
  numNodes := inp.numNodes
  fixed := inp.fixed
  edges := inp.edges
  frac := inp.frac.map F
  lik := inp.lik.map (·.map E)
  prior := inp.prior.map (·.map E)
  roots := inp.roots.map (fun r => (r.1, F r.2))

theorem aget_map (f : β → α) (hf : f default = default) (a : Array β) (i : Nat) :
    aget (a.map f) i = f (aget a i) := by
  unfold aget
  by_cases h : i < a.size
  · simp [h]
  · simp [h, hf]

theorem aget_map_rows (f : β → α) (a : Array (Array β)) (i : Nat) :
    aget (a.map (·.map f)) i = (aget a i).map f :=
  aget_map (fun r : Array β => r.map f) (by show Array.map f #[] = #[]; simp) a i

theorem aset_map {γ δ : Type} (f : γ → δ) (a : Array γ) (i : Nat) (v : γ) :
    (aset a i v).map f = aset (a.map f) i (f v) := by
  unfold aset
  apply Array.ext
  · simp
  · intro j h1 h2
    simp [Array.getElem_setIfInBounds]

theorem map_zipWith_hom (f : β → β → β) (f' : α → α → α) (E : β → α)
    (hf : ∀ a b, E (f a b) = f' (E a) (E b)) :
    ∀ (l1 l2 : List β), (List.zipWith f l1 l2).map E = List.zipWith f' (l1.map E) (l2.map E)
  | [], _ => by simp
  | _ :: _, [] => by simp
  | a :: l1, b :: l2 => by simp [hf, map_zipWith_hom f f' E hf l1 l2]

theorem reduceat_hom (sl : List β → β) (sn : List α → α) (E : β → α)
    (hs : ∀ l, E (sl l) = sn (l.map E)) (xs : List β) :
    ∀ starts, (reduceat sl xs starts).map E = reduceat sn (xs.map E) starts
  | [] => rfl
  | [i] => by simp [reduceat, hs, List.map_drop]
  | i :: j :: rest => by
    simp only [reduceat, List.map_cons, hs, List.map_take, List.map_drop]
    rw [reduceat_hom sl sn E hs xs (j :: rest)]

variable {ol : Ops β} {on : Ops α} {E F : β → α} {Pn : α → Prop}

theorem msgFixed_hom (h : OpsHom ol on E F Pn) (hE : E default = default) (G : Nat) (frac : β)
    (lik : Array β) (hP : Pn (F frac)) :
    (msgFixed ol G frac lik).map E = msgFixed on G (F frac) (lik.map E) := by
  unfold msgFixed
  rw [List.map_map]
  apply List.map_congr_left
  intro t _
  simp only [Function.comp]
  rw [h.combine, h.scale _ _ hP, h.one, aget_map E hE]

theorem msgLower_hom (h : OpsHom ol on E F Pn) (hE : E default = default) (G : Nat) (frac : β)
    (insC lik : Array β) (hP : Pn (F frac)) :
    (msgLower ol G frac insC lik).map E = msgLower on G (F frac) (insC.map E) (lik.map E) := by
  unfold msgLower
  simp only
  rw [reduceat_hom ol.sum on.sum E h.sum]
  congr 1
  rw [map_zipWith_hom ol.combine on.combine E h.combine]
  congr 1
  · simp only [gather, List.map_map]
    apply List.map_congr_left
    intro i _
    simp only [Function.comp]
    rw [h.scale _ _ hP, aget_map E hE]
  · simp

theorem edgeMsg_hom (h : OpsHom ol on E F Pn) (hE : E default = default) (hF : F default = default)
    (inp : Input β) (ins : Array (Array β)) (e : DEdge) (hP : Pn (aget (inp.mapE E F).frac e.id)) :
    (edgeMsg ol inp ins e).map E
      = edgeMsg on (inp.mapE E F) (ins.map (·.map E)) e := by
  have hP' : Pn (F (aget inp.frac e.id)) := by
    have : aget (inp.mapE E F).frac e.id = F (aget inp.frac e.id) := aget_map F hF _ _
    rw [← this]; exact hP
  unfold edgeMsg
  show _ = if aget inp.fixed e.c = true then _ else _
  split_ifs with hf
  · rw [msgFixed_hom h hE _ _ _ hP']
    simp only [Input.mapE]
    rw [aget_map F hF, aget_map_rows]
  · rw [msgLower_hom h hE _ _ _ _ hP']
    simp only [Input.mapE]
    rw [aget_map F hF, aget_map_rows, aget_map_rows]

theorem groupVal_hom (h : OpsHom ol on E F Pn) (hE : E default = default) (hF : F default = default)
    (inp : Input β) (ins : Array (Array β)) (g : Nat × List DEdge)
    (hP : ∀ e ∈ g.2, Pn (aget (inp.mapE E F).frac e.id)) :
    (groupVal ol inp ins g).map E = groupVal on (inp.mapE E F) (ins.map (·.map E)) g := by
  unfold groupVal
  have h0 : (aget inp.prior g.1).toList.map E = (aget (inp.mapE E F).prior g.1).toList := by
    simp only [Input.mapE]
    rw [aget_map_rows]; simp
  rw [← h0]
  generalize (aget inp.prior g.1).toList = v
  revert hP
  generalize g.2 = es
  intro hP
  induction es generalizing v with
  | nil => rfl
  | cons e es ih =>
    simp only [List.foldl_cons]
    rw [ih _ (fun e' he' => hP e' (List.mem_cons_of_mem _ he')),
      map_zipWith_hom ol.combine on.combine E h.combine,
      edgeMsg_hom h hE hF inp ins e (hP e (List.mem_cons_self ..))]

/-- image of an inside state -/
def InsideState.mapE (E : β → α) (s : InsideState β) : InsideState α where
  inside := s.inside.map (·.map E)
  denom := s.denom.map E
  gi := s.gi.map (·.map E)
  marg := E s.marg

/-- guard for one inside group on the linear run: the denominator is not null and the span
fractions are admissible -/
def insideGuard (Pn : α → Prop) (on : Ops α) (inpN : Input α) (std : Bool) (sN : InsideState α)
    (g : Nat × List DEdge) : Prop :=
  aget inpN.fixed g.1 = false →
    (if std then on.maxl (groupVal on inpN sN.inside g) else on.one) ≠ on.null ∧
    ∀ e ∈ g.2, Pn (aget inpN.frac e.id)

theorem insideGroup_hom (h : OpsHom ol on E F Pn) (hE : E default = default) (hF : F default = default)
    (inp : Input β) (std : Bool) (s : InsideState β) (g : Nat × List DEdge)
    (hg : insideGuard Pn on (inp.mapE E F) std (s.mapE E) g) :
    (insideGroup ol inp std s g).mapE E = insideGroup on (inp.mapE E F) std (s.mapE E) g := by
  by_cases hf : aget inp.fixed g.1 = true
  · rw [insideGroup_fixed ol inp std s g hf, insideGroup_fixed on (inp.mapE E F) std (s.mapE E) g hf]
  · have hf' : aget inp.fixed g.1 = false := by simpa using hf
    have hfN : aget (inp.mapE E F).fixed g.1 = false := hf'
    have hPg : ∀ e ∈ g.2, Pn (aget (inp.mapE E F).frac e.id) := (hg hfN).2
    have hval := groupVal_hom h hE hF inp s.inside g hPg
    have hdE : E (if std then ol.maxl (groupVal ol inp s.inside g) else ol.one)
        = (if std then on.maxl (groupVal on (inp.mapE E F) (s.mapE E).inside g) else on.one) := by
      cases std
      · exact h.one
      · simp only [if_true]; rw [h.maxl, hval]; rfl
    have hdne : (if std then ol.maxl (groupVal ol inp s.inside g) else ol.one) ≠ ol.null := by
      intro hnull
      apply (hg hfN).1
      rw [← hdE, hnull]
      exact (h.null_iff _).mpr rfl
    -- componentwise
    have h1 := insideGroup_inside ol inp std s g hf'
    have h2 := insideGroup_denom ol inp std s g hf'
    have h3 := insideGroup_marg ol inp std s g hf'
    have n1 := insideGroup_inside on (inp.mapE E F) std (s.mapE E) g hfN
    have n2 := insideGroup_denom on (inp.mapE E F) std (s.mapE E) g hfN
    have n3 := insideGroup_marg on (inp.mapE E F) std (s.mapE E) g hfN
    have hgi : ((insideGroup ol inp std s g).gi.map (·.map E))
        = (insideGroup on (inp.mapE E F) std (s.mapE E) g).gi := by
      unfold insideGroup
      rw [if_neg (by simp [hf']), if_neg (by simp [hfN])]
      simp only
      -- the cache is threaded through the same fold
      have : ∀ (es : List DEdge), (∀ e ∈ es, Pn (aget (inp.mapE E F).frac e.id)) →
          ∀ (v : List β) (gi : Array (Array β)),
          ((es.foldl (insideEdge ol inp s.inside) (v, gi)).2.map (·.map E))
            = (es.foldl (insideEdge on (inp.mapE E F) (s.mapE E).inside) (v.map E, gi.map (·.map E))).2 ∧
          ((es.foldl (insideEdge ol inp s.inside) (v, gi)).1.map E)
            = (es.foldl (insideEdge on (inp.mapE E F) (s.mapE E).inside) (v.map E, gi.map (·.map E))).1 := by
        intro es
        induction es with
        | nil => intro _ v gi; exact ⟨rfl, rfl⟩
        | cons e es ih =>
          intro hPes v gi
          simp only [List.foldl_cons, insideEdge]
          have hm := edgeMsg_hom h hE hF inp s.inside e (hPes e (List.mem_cons_self ..))
          have hv : (List.zipWith ol.combine v (edgeMsg ol inp s.inside e)).map E
              = List.zipWith on.combine (v.map E) (edgeMsg on (inp.mapE E F) (s.mapE E).inside e) := by
            show _ = List.zipWith on.combine (v.map E) (edgeMsg on (inp.mapE E F) (s.inside.map (·.map E)) e)
            rw [← hm, map_zipWith_hom ol.combine on.combine E h.combine]
          have hgi' : (aset gi e.id (edgeMsg ol inp s.inside e).toArray).map (·.map E)
              = aset (gi.map (·.map E)) e.id (edgeMsg on (inp.mapE E F) (s.mapE E).inside e).toArray := by
            rw [aset_map]
            congr 1
            show _ = (edgeMsg on (inp.mapE E F) (s.inside.map (·.map E)) e).toArray
            rw [← hm]; simp
          have := ih (fun e' he' => hPes e' (List.mem_cons_of_mem _ he'))
            (List.zipWith ol.combine v (edgeMsg ol inp s.inside e))
            (aset gi e.id (edgeMsg ol inp s.inside e).toArray)
          rw [hv, hgi'] at this
          exact this
      have hpr : (aget inp.prior g.1).toList.map E = (aget (inp.mapE E F).prior g.1).toList := by
        simp only [Input.mapE]
        rw [aget_map_rows]; simp
      have := (this g.2 hPg (aget inp.prior g.1).toList s.gi).1
      rw [hpr] at this
      exact this
    -- assemble the record
    have e_inside : (insideGroup ol inp std s g).inside.map (·.map E)
        = (insideGroup on (inp.mapE E F) std (s.mapE E) g).inside := by
      rw [h1, n1, aset_map]
      congr 1
      show (List.map _ _).toArray.map E = _
      rw [← hdE]
      show _ = (List.map _ (groupVal on (inp.mapE E F) (s.inside.map (·.map E)) g)).toArray
      rw [← hval]
      simp only [List.map_toArray, List.map_map]
      congr 1
      apply List.map_congr_left
      intro v _
      exact h.ratio v _ hdne
    have e_denom : (insideGroup ol inp std s g).denom.map E
        = (insideGroup on (inp.mapE E F) std (s.mapE E) g).denom := by
      rw [h2, n2, aset_map, hdE]; rfl
    have e_marg : E (insideGroup ol inp std s g).marg
        = (insideGroup on (inp.mapE E F) std (s.mapE E) g).marg := by
      rw [h3, n3]
      cases std
      · rfl
      · simp only [if_true]
        rw [h.combine, h.maxl, hval]; rfl
    show InsideState.mk _ _ _ _ = _
    rw [e_inside, e_denom, hgi, e_marg]

/-- the guards along the linear run -/
def insideGuards (Pn : α → Prop) (on : Ops α) (inpN : Input α) (std : Bool) :
    List (Nat × List DEdge) → InsideState α → Prop
  | [], _ => True
  | g :: rest, s =>
    insideGuard Pn on inpN std s g ∧ insideGuards Pn on inpN std rest (insideGroup on inpN std s g)

theorem insideFold_hom (h : OpsHom ol on E F Pn) (hE : E default = default) (hF : F default = default)
    (inp : Input β) (std : Bool) (gs : List (Nat × List DEdge)) (s : InsideState β)
    (hg : insideGuards Pn on (inp.mapE E F) std gs (s.mapE E)) :
    (insideFold ol inp std gs s).mapE E = insideFold on (inp.mapE E F) std gs (s.mapE E) := by
  induction gs generalizing s with
  | nil => rfl
  | cons g rest ih =>
    obtain ⟨hg1, hg2⟩ := hg
    have hstep := insideGroup_hom h hE hF inp std s g hg1
    show (insideFold ol inp std rest (insideGroup ol inp std s g)).mapE E
      = insideFold on (inp.mapE E F) std rest (insideGroup on (inp.mapE E F) std (s.mapE E) g)
    rw [← hstep] at hg2 ⊢
    exact ih _ hg2

end
end Tsdate.Discrete
