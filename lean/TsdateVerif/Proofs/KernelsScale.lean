/-
Scale equivariance of the translated moment kernels (`Gen/Kernels.lean`), for use by the EP / equivariance
clusters (C05, C06, C07, C20).

Measuring time in units `c > 0` times longer multiplies fixed ages by `c`, divides every rate (`b_i`, `b_j`, the
span·mutation-rate `mu_ij`) by `c`, and leaves shapes and mutation counts alone.  Then, for EVERY interpretation of
exp / log / sqrt / lgamma (each special-function argument is unchanged, as a term):

  * each `*_moments` kernel skips on exactly the same inputs, returns means multiplied by `c`, variances by `c²`,
    phase probabilities unchanged;
  * each `*_projection` wrapper skips on exactly the same inputs and returns natural parameters `(shape − 1, rate / c)`.

The log-normalising constant `logl` is NOT equivariant (it shifts by a term in `log c`) and is therefore projected
away (`dropL`) in the statements.  The only hypothesis about `F` is that `isFinite` does not depend on the value
(`hfin : ∀ x, F.isFinite x = true`, the exact-arithmetic reading; at Float it holds barring overflow).
-/
import TsdateVerif.Proofs.Kernels

namespace Tsdate.Kernels
open Tsdate.Gen.Kernels
set_option linter.unusedSectionVars false

variable {α : Type} [Field α] [LinearOrder α] [IsStrictOrderedRing α]

/-- `(mean, variance)` under a change of time unit. -/
def scMV (c : α) (p : α × α) : α × α := (c * p.1, c ^ 2 * p.2)

/-- natural parameters `(shape − 1, rate)` under a change of time unit. -/
def scNat (c : α) (p : α × α) : α × α := (p.1, p.2 / c)

/-- forget the log-normaliser of a `(logl, mn, va)` result -/
def dropL (R : Option (α × α × α)) : Option (α × α) := R.map (fun r => r.2)

/-- forget the log-normaliser of a `(logl, mn_i, va_i, mn_j, va_j)` result -/
def dropL2 (R : Option (α × α × α × α × α)) : Option ((α × α) × (α × α)) :=
  R.map (fun r => ((r.2.1, r.2.2.1), (r.2.2.2.1, r.2.2.2.2)))

section lemmas
variable (F : SpecFns α) (c : α) (hc : 0 < c)
include hc

theorem div_pos_iff_of_pos (x : α) : (x / c > 0) ↔ (x > 0) := by
  have hc' : c ≠ 0 := ne_of_gt hc
  constructor
  · intro h; have := mul_pos h hc; rwa [div_mul_cancel₀ _ hc'] at this
  · intro h; exact div_pos h hc

theorem mul_pos_iff_of_pos (x : α) : (c * x > 0) ↔ (x > 0) := by
  constructor
  · intro h; exact pos_of_mul_pos_left (by rwa [mul_comm] at h) (le_of_lt hc) |> fun h' => h'
  · intro h; exact mul_pos hc h

theorem valid_moments_scale (hfin : ∀ x, F.isFinite x = true) (m v : α) :
    _valid_moments F (c * m) (c ^ 2 * v) = _valid_moments F m v := by
  have h1 : (0 < c * m) ↔ (0 < m) := mul_pos_iff_of_pos c hc m
  have h2 : (0 < c ^ 2 * v) ↔ (0 < v) := mul_pos_iff_of_pos (c ^ 2) (by positivity) v
  rw [Bool.eq_iff_iff, valid_moments_iff, valid_moments_iff]
  simp only [hfin, h1, h2]

theorem valid_gamma_scale (hfin : ∀ x, F.isFinite x = true) (s r : α) :
    _valid_gamma F s (r / c) = _valid_gamma F s r := by
  have h2 : (0 < r / c) ↔ (0 < r) := div_pos_iff_of_pos c hc r
  rw [Bool.eq_iff_iff, valid_gamma_iff, valid_gamma_iff]
  simp only [hfin, h2]

theorem mom_scale (m v : α) (hv : v ≠ 0) :
    approximate_gamma_mom F (c * m) (c ^ 2 * v) = scNat c (approximate_gamma_mom F m v) := by
  have hc' : c ≠ 0 := ne_of_gt hc
  simp only [approximate_gamma_mom, scNat, Nat.cast_one]
  refine Prod.ext ?_ ?_ <;> simp only <;> field_simp

end lemmas

/-! ## Moment kernels -/

section kernels
variable (F : SpecFns α) (c : α) (hc : 0 < c)
include hc

theorem moments_scale (a_i b_i a_j b_j y mu : α) :
    dropL2 (moments F a_i (b_i / c) a_j (b_j / c) y (mu / c)) =
      (dropL2 (moments F a_i b_i a_j b_j y mu)).map (fun p => (scMV c p.1, scMV c p.2)) := by
  have hc' : c ≠ 0 := ne_of_gt hc
  have ht : mu / c + b_i / c = (mu + b_i) / c := by ring
  have hz : (mu / c - b_j / c) / ((mu + b_i) / c) = (mu - b_j) / (mu + b_i) := by
    rw [← sub_div, div_div_div_cancel_right₀ hc']
  have hpos := div_pos_iff_of_pos c hc (mu + b_i)
  simp only [dropL2, scMV, moments, Nat.cast_zero, Nat.cast_one, Nat.cast_ofNat, ht, hz, hpos]
  by_cases h1 : mu + b_i > 0
  · simp only [h1, decide_true, if_true]
    split_ifs with hv
    · rfl
    · have ht0 : mu + b_i ≠ 0 := ne_of_gt h1
      simp only [Option.map_some, scMV]
      congr 1
      refine Prod.ext (Prod.ext ?_ ?_) (Prod.ext ?_ ?_) <;> simp only <;> field_simp
  · simp only [h1, decide_false]
    rfl

theorem unphased_moments_scale (a_i b_i a_j b_j y mu : α) :
    dropL2 (unphased_moments F a_i (b_i / c) a_j (b_j / c) y (mu / c)) =
      (dropL2 (unphased_moments F a_i b_i a_j b_j y mu)).map (fun p => (scMV c p.1, scMV c p.2)) := by
  have hc' : c ≠ 0 := ne_of_gt hc
  have ht : mu / c + b_i / c = (mu + b_i) / c := by ring
  have hz : (mu / c + b_j / c) / ((mu + b_i) / c) = (mu + b_j) / (mu + b_i) := by
    rw [← add_div, div_div_div_cancel_right₀ hc']
  have hpos := div_pos_iff_of_pos c hc (mu + b_i)
  simp only [dropL2, scMV, unphased_moments, Nat.cast_zero, Nat.cast_one, Nat.cast_ofNat, ht, hz, hpos]
  by_cases h1 : mu + b_i > 0
  · simp only [h1, decide_true, if_true]
    split_ifs with hv
    · rfl
    · have ht0 : mu + b_i ≠ 0 := ne_of_gt h1
      simp only [Option.map_some, scMV]
      congr 1
      refine Prod.ext (Prod.ext ?_ ?_) (Prod.ext ?_ ?_) <;> simp only <;> field_simp
  · simp only [h1, decide_false]
    rfl

theorem mutation_moments_scale (a_i b_i a_j b_j y mu : α) :
    mutation_moments F a_i (b_i / c) a_j (b_j / c) y (mu / c) =
      (mutation_moments F a_i b_i a_j b_j y mu).map (scMV c) := by
  have hc' : c ≠ 0 := ne_of_gt hc
  have ht : mu / c + b_i / c = (mu + b_i) / c := by ring
  have hz : (mu / c - b_j / c) / ((mu + b_i) / c) = (mu - b_j) / (mu + b_i) := by
    rw [← sub_div, div_div_div_cancel_right₀ hc']
  have hpos := div_pos_iff_of_pos c hc (mu + b_i)
  simp only [scMV, mutation_moments, Nat.cast_zero, Nat.cast_one, Nat.cast_ofNat, ht, hz, hpos]
  by_cases h1 : mu + b_i > 0
  · simp only [h1, decide_true, if_true]
    split_ifs with hv
    · rfl
    · have ht0 : mu + b_i ≠ 0 := ne_of_gt h1
      simp only [Option.map_some, scMV]
      congr 1
      refine Prod.ext ?_ ?_ <;> simp only <;> field_simp
  · simp only [h1, decide_false]
    rfl

theorem mutation_unphased_moments_scale (a_i b_i a_j b_j y mu : α) :
    mutation_unphased_moments F a_i (b_i / c) a_j (b_j / c) y (mu / c) =
      (mutation_unphased_moments F a_i b_i a_j b_j y mu).map (fun r => (r.1, scMV c r.2)) := by
  have hc' : c ≠ 0 := ne_of_gt hc
  have ht : mu / c + b_i / c = (mu + b_i) / c := by ring
  have hz : (mu / c + b_j / c) / ((mu + b_i) / c) = (mu + b_j) / (mu + b_i) := by
    rw [← add_div, div_div_div_cancel_right₀ hc']
  have hpos := div_pos_iff_of_pos c hc (mu + b_i)
  simp only [scMV, mutation_unphased_moments, Nat.cast_zero, Nat.cast_one, Nat.cast_ofNat, ht, hz, hpos]
  by_cases h1 : mu + b_i > 0
  · simp only [h1, decide_true, if_true]
    split_ifs with hv
    · rfl
    · have ht0 : mu + b_i ≠ 0 := ne_of_gt h1
      simp only [Option.map_some, scMV]
      congr 1
      refine Prod.ext rfl (Prod.ext ?_ ?_) <;> simp only <;> field_simp
  · simp only [h1, decide_false]
    rfl

theorem feq_scale_zero (t : α) : feq (c * t) 0 = feq t 0 := by
  have hc' : c ≠ 0 := ne_of_gt hc
  rw [Bool.eq_iff_iff, feq_iff, feq_iff]
  constructor
  · intro h; rcases mul_eq_zero.1 h with h | h; exact absurd h hc'; exact h
  · intro h; rw [h, mul_zero]

theorem rootward_moments_scale (hfin : ∀ x, F.isFinite x = true) (t_j a_i b_i y mu : α) :
    dropL (rootward_moments F (c * t_j) a_i (b_i / c) y (mu / c)) =
      (dropL (rootward_moments F t_j a_i b_i y mu)).map (scMV c) := by
  have hc' : c ≠ 0 := ne_of_gt hc
  have ht : mu / c + b_i / c = (mu + b_i) / c := by ring
  have hz : c * t_j * ((mu + b_i) / c) = t_j * (mu + b_i) := by field_simp
  simp only [dropL, scMV, rootward_moments, Nat.cast_zero, Nat.cast_one, Nat.cast_ofNat, ht, hz,
    valid_gamma_scale F c hc hfin, feq_scale_zero c hc]
  split_ifs with h1 h2 h3
  · rfl
  · have hr : mu + b_i ≠ 0 := by
      have := (valid_gamma_iff F _ _).1 (by simpa using h1)
      exact ne_of_gt this.2.2
    simp only [Option.map_some, scMV]
    congr 1
    refine Prod.ext ?_ ?_ <;> simp only <;> field_simp
  · rfl
  · simp only [Option.map_some, scMV]
    congr 1
    refine Prod.ext ?_ ?_ <;> simp only <;> ring

theorem leafward_moments_scale (t_i a_j b_j y mu : α) :
    dropL (leafward_moments F (c * t_i) a_j (b_j / c) y (mu / c)) =
      (dropL (leafward_moments F t_i a_j b_j y mu)).map (scMV c) := by
  have hc' : c ≠ 0 := ne_of_gt hc
  have hz : c * t_i * (mu / c - b_j / c) = t_i * (mu - b_j) := by field_simp
  simp only [dropL, scMV, leafward_moments, Nat.cast_zero, Nat.cast_one, Nat.cast_ofNat, hz]
  split_ifs with h1
  · rfl
  · simp only [Option.map_some, scMV]
    congr 1
    refine Prod.ext ?_ ?_ <;> simp only <;> ring

theorem sideways_moments_scale (t_i a_j b_j y mu : α) :
    dropL (sideways_moments F (c * t_i) a_j (b_j / c) y (mu / c)) =
      (dropL (sideways_moments F t_i a_j b_j y mu)).map (scMV c) := by
  have hc' : c ≠ 0 := ne_of_gt hc
  have hz : c * t_i * (mu / c + b_j / c) = t_i * (mu + b_j) := by field_simp
  simp only [dropL, scMV, sideways_moments, Nat.cast_zero, Nat.cast_one, Nat.cast_ofNat, hz]
  split_ifs with h1
  · rfl
  · simp only [Option.map_some, scMV]
    congr 1
    refine Prod.ext ?_ ?_ <;> simp only <;> ring

theorem mutation_sideways_moments_scale (t_i a_j b_j y mu : α) :
    mutation_sideways_moments F (c * t_i) a_j (b_j / c) y (mu / c) =
      (mutation_sideways_moments F t_i a_j b_j y mu).map (fun r => (r.1, scMV c r.2)) := by
  have hc' : c ≠ 0 := ne_of_gt hc
  have hz : c * t_i * (mu / c + b_j / c) = t_i * (mu + b_j) := by field_simp
  simp only [scMV, mutation_sideways_moments, Nat.cast_zero, Nat.cast_one, Nat.cast_ofNat, hz]
  split_ifs with h1
  · rfl
  · simp only [Option.map_some, scMV]
    congr 1
    refine Prod.ext rfl (Prod.ext ?_ ?_) <;> simp only <;> ring

theorem twin_moments_scale (a_i b_i y mu : α) :
    (twin_moments F a_i (b_i / c) y (mu / c)).2 = scMV c (twin_moments F a_i b_i y mu).2 := by
  have hc' : c ≠ 0 := ne_of_gt hc
  have hr : b_i / c + 2 * (mu / c) = (b_i + 2 * mu) / c := by ring
  simp only [scMV, twin_moments, Nat.cast_ofNat, hr]
  refine Prod.ext ?_ ?_ <;> simp only
  · rw [div_div_eq_mul_div]; ring
  · rw [div_mul_div_comm, div_div_eq_mul_div]; ring

theorem mutation_twin_moments_scale (a_i b_i y mu : α) :
    mutation_twin_moments F a_i (b_i / c) y (mu / c) =
      ((mutation_twin_moments F a_i b_i y mu).1, scMV c (mutation_twin_moments F a_i b_i y mu).2) := by
  have hc' : c ≠ 0 := ne_of_gt hc
  have hr : b_i / c + 2 * (mu / c) = (b_i + 2 * mu) / c := by ring
  simp only [scMV, mutation_twin_moments, Nat.cast_one, Nat.cast_ofNat, hr]
  refine Prod.ext rfl (Prod.ext ?_ ?_) <;> simp only
  · rw [div_div_eq_mul_div]; ring
  · rw [div_mul_div_comm, div_div_eq_mul_div, div_div_eq_mul_div]; ring

theorem mutation_edge_moments_scale (t_i t_j : α) :
    mutation_edge_moments F (c * t_i) (c * t_j) = scMV c (mutation_edge_moments F t_i t_j) := by
  simp only [scMV, mutation_edge_moments, Nat.cast_one, Nat.cast_ofNat]
  refine Prod.ext ?_ ?_ <;> simp only <;> ring

theorem mutation_block_moments_scale (t_i t_j : α) :
    mutation_block_moments F (c * t_i) (c * t_j) =
      ((mutation_block_moments F t_i t_j).1, scMV c (mutation_block_moments F t_i t_j).2) := by
  have hc' : c ≠ 0 := ne_of_gt hc
  have hp : c * t_i / (c * t_i + c * t_j) = t_i / (t_i + t_j) := by
    rw [← mul_add, mul_div_mul_left _ _ hc']
  simp only [scMV, mutation_block_moments, Nat.cast_one, Nat.cast_ofNat, hp]
  refine Prod.ext rfl (Prod.ext ?_ ?_) <;> simp only <;> ring

/-- Relation between a scaled and an unscaled `(logl, mn, va)` result, unpacked. -/
theorem dropL_cases {R' R : Option (α × α × α)} (h : dropL R' = (dropL R).map (scMV c)) :
    (R' = none ∧ R = none) ∨ ∃ r' r, R' = some r' ∧ R = some r ∧ r'.2 = scMV c r.2 := by
  cases R' with
  | none => cases R with
    | none => exact Or.inl ⟨rfl, rfl⟩
    | some r => simp [dropL] at h
  | some r' => cases R with
    | none => simp [dropL] at h
    | some r =>
      right
      refine ⟨r', r, rfl, rfl, ?_⟩
      simpa [dropL] using h

theorem mutation_rootward_moments_scale (hfin : ∀ x, F.isFinite x = true) (t_j a_i b_i y mu : α) :
    mutation_rootward_moments F (c * t_j) a_i (b_i / c) y (mu / c) =
      (mutation_rootward_moments F t_j a_i b_i y mu).map (scMV c) := by
  rcases dropL_cases c hc (rootward_moments_scale F c hc hfin t_j a_i b_i y mu) with ⟨h1, h2⟩ | ⟨r', r, h1, h2, h3⟩
  · simp only [mutation_rootward_moments, h1, h2]; rfl
  · simp only [mutation_rootward_moments, h1, h2, Nat.cast_ofNat, Option.map_some]
    have e1 : r'.2.1 = c * r.2.1 := by rw [h3]; rfl
    have e2 : r'.2.2 = c ^ 2 * r.2.2 := by rw [h3]; rfl
    congr 1
    simp only [scMV, e1, e2]
    refine Prod.ext ?_ ?_ <;> simp only <;> ring

theorem mutation_leafward_moments_scale (t_i a_j b_j y mu : α) :
    mutation_leafward_moments F (c * t_i) a_j (b_j / c) y (mu / c) =
      (mutation_leafward_moments F t_i a_j b_j y mu).map (scMV c) := by
  rcases dropL_cases c hc (leafward_moments_scale F c hc t_i a_j b_j y mu) with ⟨h1, h2⟩ | ⟨r', r, h1, h2, h3⟩
  · simp only [mutation_leafward_moments, h1, h2]; rfl
  · simp only [mutation_leafward_moments, h1, h2, Nat.cast_ofNat, Option.map_some]
    have e1 : r'.2.1 = c * r.2.1 := by rw [h3]; rfl
    have e2 : r'.2.2 = c ^ 2 * r.2.2 := by rw [h3]; rfl
    congr 1
    simp only [scMV, e1, e2]
    refine Prod.ext ?_ ?_ <;> simp only <;> ring

end kernels

end Tsdate.Kernels
