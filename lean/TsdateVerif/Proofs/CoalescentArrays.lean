/-
The arrays `mean` and `variance` of `conditional_coalescent_variance` after the suffix-sum loop are
the hypoexponential moments `Σ_{i=a+1}^{n} 2/(i(i-1))` and `Σ (2/(i(i-1)))²` (C14).
-/
import TsdateVerif.Proofs.CoalescentMoments
import Mathlib.Algebra.BigOperators.Intervals

namespace Tsdate.Coalescent
open Finset
set_option linter.unusedSectionVars false

variable {α : Type} [Field α] [CharZero α]

theorem sufSums_head (y : α) (ys : List α) : ∃ ss, sufSums (y :: ys) = (y :: ys).sum :: ss := by
  induction ys generalizing y with
  | nil => exact ⟨[], by simp [sufSums]⟩
  | cons z zs ih =>
    obtain ⟨ss, hss⟩ := ih z
    refine ⟨(z :: zs).sum :: ss, ?_⟩
    rw [sufSums, hss]
    simp

theorem sufSums_cons (x : α) (xs : List α) : sufSums (x :: xs) = (x + xs.sum) :: sufSums xs := by
  cases xs with
  | nil => simp [sufSums]
  | cons y ys =>
    obtain ⟨ss, hss⟩ := sufSums_head y ys
    rw [sufSums, hss]

theorem sufSums_getD (xs : List α) : ∀ i, (sufSums xs).getD i 0 = (xs.drop i).sum := by
  induction xs with
  | nil => intro i; simp [sufSums]
  | cons x xs ih =>
    intro i
    rw [sufSums_cons]
    cases i with
    | zero => simp
    | succ i => simpa using ih i

theorem sum_map_range' (g : ℕ → α) (len : ℕ) :
    ∀ a, ((List.range' a len).map g).sum = ∑ j ∈ Ico a (a + len), g j := by
  induction len with
  | zero => intro a; simp
  | succ len ih =>
    intro a
    rw [List.range'_succ, List.map_cons, List.sum_cons, ih (a + 1),
      sum_eq_sum_Ico_succ_bot (by omega : a < a + (len + 1))]
    rw [show a + 1 + len = a + (len + 1) by omega]

/-- Entry `a ≥ 1` of `cumFrom1 ((range n).map f)` is `Σ_{j=a}^{n-1} f j`. -/
theorem cumFrom1_getD (f : ℕ → α) (n a : ℕ) (ha : 1 ≤ a) (han : a ≤ n) :
    (cumFrom1 ((List.range n).map f)).getD a 0 = ∑ j ∈ Ico a n, f j := by
  obtain ⟨m, rfl⟩ : ∃ m, n = m + 1 := ⟨n - 1, by omega⟩
  obtain ⟨b, rfl⟩ : ∃ b, a = b + 1 := ⟨a - 1, by omega⟩
  rw [List.range_eq_range', List.range'_succ, List.map_cons, cumFrom1]
  simp only [List.getD_cons_succ]
  rw [sufSums_getD, ← List.map_drop, List.drop_range', sum_map_range']
  congr 2 <;> omega

theorem coalRate_eq (i : ℕ) (hi : 2 ≤ i) :
    coalRate (α := α) i = 2 / ((i : α) * ((i : α) - 1)) := by
  unfold coalRate
  rw [if_pos (by omega), Nat.cast_mul, Nat.cast_sub (by omega)]
  simp

/-- `mean[a]` of the code = the spec's hypoexponential mean. -/
theorem val1_eq_spec (n a : ℕ) (ha : 1 ≤ a) (han : a ≤ n) : val1 (α := α) n a = hypoMeanSpec n a := by
  unfold val1 hypoMean coalRates hypoMeanSpec
  simp only [Nat.cast_zero]
  rw [cumFrom1_getD _ n a ha han, ← sum_Ico_add' (fun i : ℕ => (2 : α) / ((i : α) * ((i : α) - 1))) a n 1]
  apply sum_congr rfl
  intro j hj
  rw [coalRate_eq (j + 1) (by have := (mem_Ico.mp hj).1; omega)]

/-- `variance[a]` of the code = the spec's hypoexponential variance. -/
theorem hypoVar_eq_spec (n a : ℕ) (ha : 1 ≤ a) (han : a ≤ n) :
    (hypoVar (α := α) n).getD a ((0 : ℕ) : α) = hypoVarSpec n a := by
  unfold hypoVar coalRates hypoVarSpec
  simp only [Nat.cast_zero, List.map_map]
  rw [cumFrom1_getD _ n a ha han,
    ← sum_Ico_add' (fun i : ℕ => ((2 : α) / ((i : α) * ((i : α) - 1))) ^ 2) a n 1]
  apply sum_congr rfl
  intro j hj
  simp only [Function.comp]
  rw [coalRate_eq (j + 1) (by have := (mem_Ico.mp hj).1; omega), sq]

theorem val2_eq_spec (n a : ℕ) (ha : 1 ≤ a) (han : a ≤ n) :
    val2 (α := α) n a = hypoVarSpec n a + hypoMeanSpec n a ^ 2 := by
  unfold val2
  rw [hypoVar_eq_spec n a ha han, val1_eq_spec n a ha han, sq]

/-- Telescoping: `Σ_{i=a+1}^{n} 2/(i(i-1)) = 2 (1/a − 1/n)`. -/
theorem hypoMeanSpec_closed (n a : ℕ) (ha : 1 ≤ a) (han : a ≤ n) :
    hypoMeanSpec (α := α) n a = 2 * (1 / (a : α) - 1 / (n : α)) := by
  unfold hypoMeanSpec
  induction n, han using Nat.le_induction with
  | base => simp
  | succ n han ih =>
    rw [sum_Ico_succ_top (by omega), ih]
    have h1 : (a : α) ≠ 0 := Nat.cast_ne_zero.mpr (by omega)
    have h2 : (n : α) ≠ 0 := Nat.cast_ne_zero.mpr (by omega)
    have h3 : ((n + 1 : ℕ) : α) ≠ 0 := Nat.cast_ne_zero.mpr (by omega)
    have h4 : ((n + 1 : ℕ) : α) - 1 = (n : α) := by push_cast; ring
    rw [h4]
    field_simp
    push_cast
    ring

end Tsdate.Coalescent
