/-
The forced pass of `_constrain_ages` does not depend on which topological order the edge table is
in (used by Props/C11).
-/
import TsdateVerif.Proofs.Constrain
import TsdateVerif.Proofs.Order

namespace Tsdate.Order
open Tsdate
set_option linter.unusedSectionVars false

section Forced
variable {α : Type} [Inhabited α] [LinearOrder α]

theorem maxWith_perm (x : α) (l l' : List α) (h : l.Perm l') : maxWith x l = maxWith x l' := by
  unfold maxWith
  exact h.foldl_eq' (fun a _ b _ z => by rw [max_right_comm]) x

theorem inRange_perm (n : Nat) (es es' : List Edge) (h : es.Perm es') (hr : InRange n es) :
    InRange n es' := fun e he => hr e (h.mem_iff.mpr he)

/-- **The forced pass is order independent**: along any two topological orders of the same edges
it produces the same times (exact arithmetic: test and assignment use the same `fadd`). -/
theorem forced_order_indep (fadd : α → α) (es es' : List Edge) (t : Array α)
    (hr : InRange t.size es) (htopo : TopoOrdered es) (htopo' : TopoOrdered es')
    (hperm : es.Perm es') (rank : Nat → Nat) (hrank : ∀ e ∈ es, rank e.c < rank e.p) :
    ∀ p, aget (forced fadd fadd t es) p = aget (forced fadd fadd t es') p := by
  apply eq_of_rank_step rank
  intro p ih
  rw [forced_max_char fadd es t hr htopo p,
    forced_max_char fadd es' t (inRange_perm _ es es' hperm hr) htopo' p]
  have h1 : (es'.filter (fun e => e.p = p)).map (fun e => fadd (aget (forced fadd fadd t es') e.c))
      = (es'.filter (fun e => e.p = p)).map (fun e => fadd (aget (forced fadd fadd t es) e.c)) := by
    apply List.map_congr_left
    intro e he
    have hmem := List.mem_filter.mp he
    have hp : e.p = p := by simpa using hmem.2
    have := hrank e (hperm.mem_iff.mpr hmem.1)
    rw [hp] at this
    rw [ih e.c this]
  rw [h1]
  exact maxWith_perm _ _ _ ((hperm.filter _).map _)

theorem exists_rank_edges {β : Type} [LinearOrder β] (time : Nat → β) (es : List Edge)
    (hval : ∀ e ∈ es, time e.c < time e.p) : ∃ rank : Nat → Nat, ∀ e ∈ es, rank e.c < rank e.p := by
  obtain ⟨rank, h⟩ := exists_rank time (es.map (fun e => (⟨e.c, e.p, 0⟩ : DEdge))) (by
    intro e he
    obtain ⟨e0, he0, rfl⟩ := List.mem_map.mp he
    exact hval e0 he0)
  exact ⟨rank, fun e he => h ⟨e.c, e.p, 0⟩ (List.mem_map.mpr ⟨e, he, rfl⟩)⟩

end Forced

end Tsdate.Order
