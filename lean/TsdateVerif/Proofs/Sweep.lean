/-
The shared sweep lemma (used by Props/C24 and Props/C30).

`go_rule` is a Hoare-style rule for the loop of Model/Sweep.lean: on valid tables the loop terminates
within its fuel, and a kernel-specific invariant that is preserved by the four hooks — given the
*geometric facts* the rule supplies at each hook call — holds at the end.  The geometric facts are
the content of "the two pointers are where they should be": which edges have been inserted/removed
(ghost lists `insD`, `remD`: the consumed prefixes of the two indexes) and how their coordinates
compare with the current position.  `AdvFacts.active_iff` is `sweep_active`: between `left` and `right`
the edges inserted and not yet removed are exactly the edges covering the position.
-/
import Mathlib.Order.Basic
import Mathlib.Order.Lattice
import Mathlib.Order.MinMax
import Mathlib.Tactic.SplitIfs
import Mathlib.Data.List.Basic
import Mathlib.Data.List.Induction
import Mathlib.Data.List.TakeWhile
import Mathlib.Data.List.Perm.Basic
import TsdateVerif.Model.Sweep

namespace Tsdate.Sweep
set_option linter.unusedSectionVars false
set_option linter.unusedVariables false

/-! ### generic list facts -/

theorem drainWhile_eq {σ : Type} (p : Nat → Bool) (f : σ → Nat → σ) (R : List Nat) (s : σ) :
    drainWhile p f R s = (R.dropWhile p, (R.takeWhile p).foldl f s) := by
  induction R generalizing s with
  | nil => rfl
  | cons e r ih =>
    unfold drainWhile
    by_cases h : p e
    · simp [h, ih]
    · simp [h]

/-- Invariant rule for `foldl` that exposes the position in the list. -/
theorem foldl_prefix_inv {β σ : Type} (f : σ → β → σ) (P : List β → σ → Prop) (l : List β) (s : σ)
    (h0 : P [] s)
    (hstep : ∀ d e r s', l = d ++ e :: r → P d s' → P (d ++ [e]) (f s' e)) :
    P l (l.foldl f s) := by
  induction l using List.reverseRecOn with
  | nil => exact h0
  | append_singleton l' e ih =>
    rw [List.foldl_append]
    apply hstep l' e [] _ rfl
    apply ih
    intro d e0 r s' hl hP
    exact hstep d e0 (r ++ [e]) s' (by rw [hl]; simp) hP

section
variable {α : Type} [Inhabited α] [LinearOrder α]

theorem pairwise_of_sortedBy (key : Nat → α) : ∀ l : List Nat, sortedBy key l = true →
    l.Pairwise (fun a b => key a ≤ key b)
  | [], _ => List.Pairwise.nil
  | [a], _ => by simp
  | a :: b :: r, h => by
    simp only [sortedBy, Bool.and_eq_true, decide_eq_true_eq] at h
    have ih := pairwise_of_sortedBy key (b :: r) h.2
    refine List.Pairwise.cons ?_ ih
    intro c hc
    rcases List.mem_cons.mp hc with rfl | hc
    · exact h.1
    · exact le_trans h.1 (List.rel_of_pairwise_cons ih hc)

/-- What `takeWhile`/`dropWhile (key · == x)` do on a list sorted by `key` whose keys are `≥ x`. -/
theorem split_sorted (key : Nat → α) (x : α) (R : List Nat)
    (hs : R.Pairwise (fun a b => key a ≤ key b)) (hge : ∀ e ∈ R, x ≤ key e) :
    (∀ e ∈ R.takeWhile (fun e => key e == x), key e = x) ∧
    (∀ e ∈ R.dropWhile (fun e => key e == x), x < key e) := by
  constructor
  · intro e he
    have := List.mem_takeWhile_imp he
    simpa using this
  · induction R with
    | nil => simp
    | cons a r ih =>
      have hs' := List.Pairwise.of_cons hs
      have hge' : ∀ e ∈ r, x ≤ key e := fun e he => hge e (List.mem_cons_of_mem _ he)
      by_cases h : key a = x
      · have : (key a == x) = true := by simpa using h
        rw [List.dropWhile_cons, if_pos this]
        exact ih hs' hge'
      · have : ¬ (key a == x) = true := by simpa using h
        rw [List.dropWhile_cons, if_neg this]
        have hlt : x < key a := lt_of_le_of_ne (hge a (List.mem_cons_self ..)) (Ne.symm h)
        intro e he
        rcases List.mem_cons.mp he with rfl | he
        · exact hlt
        · exact lt_of_lt_of_le hlt (List.rel_of_pairwise_cons hs he)

end

/-! ### validity -/

section
variable {α : Type} [Inhabited α] [LinearOrder α] [OfNat α 0]

/-- tskit's table and index invariants, as propositions (`validB` decides them). -/
structure Valid (T : Tables α) : Prop where
  insPerm : T.ins.Perm (List.range T.numEdges)
  remPerm : T.rem.Perm (List.range T.numEdges)
  insSorted : T.ins.Pairwise (fun a b => T.l a ≤ T.l b)
  remSorted : T.rem.Pairwise (fun a b => T.r a ≤ T.r b)
  geom : ∀ e, e < T.numEdges → (0 : α) ≤ T.l e ∧ T.l e < T.r e ∧ T.r e ≤ T.seqLen
  lenNonneg : (0 : α) ≤ T.seqLen

theorem valid_of_validB (T : Tables α) (h : validB T = true) : Valid T := by
  simp only [validB, Bool.and_eq_true, isIndex, geomOk, List.all_eq_true, List.mem_range,
    decide_eq_true_eq] at h
  obtain ⟨⟨⟨⟨h1, h2⟩, h3⟩, h4⟩, h0, h5⟩ := h
  exact ⟨List.isPerm_iff.mp h1, List.isPerm_iff.mp h2, pairwise_of_sortedBy _ _ h3,
    pairwise_of_sortedBy _ _ h4, fun e he => ⟨(h5 e he).1.1, (h5 e he).1.2, (h5 e he).2⟩, h0⟩

theorem Valid.mem_ins {T : Tables α} (hV : Valid T) {e : Nat} : e ∈ T.ins ↔ e < T.numEdges := by
  rw [hV.insPerm.mem_iff, List.mem_range]

theorem Valid.mem_rem {T : Tables α} (hV : Valid T) {e : Nat} : e ∈ T.rem ↔ e < T.numEdges := by
  rw [hV.remPerm.mem_iff, List.mem_range]

theorem Valid.nodup_ins {T : Tables α} (hV : Valid T) : T.ins.Nodup :=
  hV.insPerm.nodup_iff.mpr List.nodup_range

theorem Valid.nodup_rem {T : Tables α} (hV : Valid T) : T.rem.Nodup :=
  hV.remPerm.nodup_iff.mpr List.nodup_range

/-! ### the geometric facts handed to the hooks -/

/-- In the "edges out" loop, about to remove `e`. -/
structure RemFacts (T : Tables α) (x : α) (insD insR remD : List Nat) (e : Nat) (remR : List Nat) :
    Prop where
  hins : T.ins = insD ++ insR
  hrem : T.rem = remD ++ e :: remR
  key : T.r e = x
  insD_lt : ∀ e' ∈ insD, T.l e' < x
  insR_ge : ∀ e' ∈ insR, x ≤ T.l e'
  remD_le : ∀ e' ∈ remD, T.r e' ≤ x
  remR_ge : ∀ e' ∈ remR, x ≤ T.r e'

/-- In the "edges in" loop, about to insert `e`. -/
structure InsFacts (T : Tables α) (x : α) (insD : List Nat) (e : Nat) (insR remD remR : List Nat) :
    Prop where
  hins : T.ins = insD ++ e :: insR
  hrem : T.rem = remD ++ remR
  key : T.l e = x
  insD_le : ∀ e' ∈ insD, T.l e' ≤ x
  insR_ge : ∀ e' ∈ insR, x ≤ T.l e'
  remD_le : ∀ e' ∈ remD, T.r e' ≤ x
  remR_gt : ∀ e' ∈ remR, x < T.r e'

/-- After both inner loops at `x`, with `x'` the next value of `left`. -/
structure AdvFacts (T : Tables α) (x x' : α) (insD insR remD remR : List Nat) : Prop where
  hins : T.ins = insD ++ insR
  hrem : T.rem = remD ++ remR
  insD_le : ∀ e' ∈ insD, T.l e' ≤ x
  insR_ge : ∀ e' ∈ insR, x' ≤ T.l e'
  remD_le : ∀ e' ∈ remD, T.r e' ≤ x
  remR_ge : ∀ e' ∈ remR, x' ≤ T.r e'
  le : x ≤ x'
  le_len : x' ≤ T.seqLen
  lt : insR ≠ [] ∨ remR ≠ [] → x < x'
  last : insR = [] → remR = [] → x' = T.seqLen
  isBreak : x' = T.seqLen ∨ ∃ e, e < T.numEdges ∧ (x' = T.l e ∨ x' = T.r e)

/-- **sweep_active.** For every position in `[left, right)` the edges inserted and not removed are
exactly the edges whose interval covers the position. -/
theorem AdvFacts.active_iff {T : Tables α} (hV : Valid T) {x x' : α} {insD insR remD remR : List Nat}
    (F : AdvFacts T x x' insD insR remD remR) (pos : α) (h1 : x ≤ pos) (h2 : pos < x') (e : Nat)
    (he : e < T.numEdges) :
    (e ∈ insD ∧ e ∉ remD) ↔ (T.l e ≤ pos ∧ pos < T.r e) := by
  have hi : e ∈ insD ∨ e ∈ insR := by
    have := hV.mem_ins.mpr he; rw [F.hins] at this; exact List.mem_append.mp this
  have hr : e ∈ remD ∨ e ∈ remR := by
    have := hV.mem_rem.mpr he; rw [F.hrem] at this; exact List.mem_append.mp this
  constructor
  · rintro ⟨hin, hnr⟩
    refine ⟨le_trans (F.insD_le e hin) h1, ?_⟩
    rcases hr with hr | hr
    · exact absurd hr hnr
    · exact lt_of_lt_of_le h2 (F.remR_ge e hr)
  · rintro ⟨hl, hr'⟩
    constructor
    · rcases hi with hi | hi
      · exact hi
      · exact absurd (lt_of_lt_of_le h2 (F.insR_ge e hi)) (not_lt.mpr hl)
    · intro hrd
      exact absurd (lt_of_le_of_lt (F.remD_le e hrd) (lt_of_le_of_lt h1 hr')) (lt_irrefl _)

/-! ### pointer invariant at the loop head, `nextPos`, and the rule -/

structure HeadInv (T : Tables α) (x : α) (insD insR remD remR : List Nat) : Prop where
  hins : T.ins = insD ++ insR
  hrem : T.rem = remD ++ remR
  insD_lt : ∀ e' ∈ insD, T.l e' < x
  insR_ge : ∀ e' ∈ insR, x ≤ T.l e'
  remD_le : ∀ e' ∈ remD, T.r e' ≤ x
  remR_ge : ∀ e' ∈ remR, x ≤ T.r e'
  le_len : x ≤ T.seqLen

/-- an event is pending exactly at `x` -/
def StartsEvent (T : Tables α) (x : α) (insR remR : List Nat) : Prop :=
  (∃ e r, remR = e :: r ∧ T.r e = x) ∨ (∃ e r, insR = e :: r ∧ T.l e = x)

theorem nextPos_le_len (T : Tables α) (insR remR : List Nat) : nextPos T insR remR ≤ T.seqLen := by
  unfold nextPos
  cases remR <;> cases insR <;> simp

theorem nextPos_nil (T : Tables α) : nextPos T [] [] = T.seqLen := rfl

/-- the next position is the sequence length or the coordinate of an outstanding event -/
theorem nextPos_cases (T : Tables α) (insR remR : List Nat) :
    nextPos T insR remR = T.seqLen ∨ (∃ e ∈ remR, nextPos T insR remR = T.r e) ∨
      (∃ e ∈ insR, nextPos T insR remR = T.l e) := by
  unfold nextPos
  cases remR with
  | nil =>
    cases insR with
    | nil => exact Or.inl rfl
    | cons a r =>
      rcases min_choice T.seqLen (T.l a) with h | h
      · exact Or.inl h
      · exact Or.inr (Or.inr ⟨a, List.mem_cons_self .., h⟩)
  | cons b r' =>
    cases insR with
    | nil =>
      rcases min_choice T.seqLen (T.r b) with h | h
      · exact Or.inl h
      · exact Or.inr (Or.inl ⟨b, List.mem_cons_self .., h⟩)
    | cons a r =>
      rcases min_choice (min T.seqLen (T.r b)) (T.l a) with h | h
      · rcases min_choice T.seqLen (T.r b) with h2 | h2
        · exact Or.inl (h.trans h2)
        · exact Or.inr (Or.inl ⟨b, List.mem_cons_self .., h.trans h2⟩)
      · exact Or.inr (Or.inr ⟨a, List.mem_cons_self .., h⟩)

theorem nextPos_le_rem (T : Tables α) (insR : List Nat) (e : Nat) (r : List Nat) :
    nextPos T insR (e :: r) ≤ T.r e := by
  unfold nextPos
  cases insR <;> simp

theorem nextPos_le_ins (T : Tables α) (remR : List Nat) (e : Nat) (r : List Nat) :
    nextPos T (e :: r) remR ≤ T.l e := by
  unfold nextPos
  cases remR <;> simp

theorem lt_nextPos (T : Tables α) (x : α) (insR remR : List Nat) (hL : x < T.seqLen)
    (hi : ∀ e ∈ insR, x < T.l e) (hr : ∀ e ∈ remR, x < T.r e) : x < nextPos T insR remR := by
  unfold nextPos
  cases remR with
  | nil =>
    cases insR with
    | nil => simpa using hL
    | cons a r => simp only [lt_min_iff]; exact ⟨hL, hi a (List.mem_cons_self ..)⟩
  | cons b r' =>
    cases insR with
    | nil => simp only [lt_min_iff]; exact ⟨hL, hr b (List.mem_cons_self ..)⟩
    | cons a r =>
      simp only [lt_min_iff]
      exact ⟨⟨hL, hr b (List.mem_cons_self ..)⟩, hi a (List.mem_cons_self ..)⟩

/-- when something is outstanding and all keys are `≤ L`, the next position is the key of a head -/
theorem nextPos_starts (T : Tables α) (insR remR : List Nat)
    (hi : ∀ e ∈ insR, T.l e ≤ T.seqLen) (hr : ∀ e ∈ remR, T.r e ≤ T.seqLen)
    (hne : insR ≠ [] ∨ remR ≠ []) : StartsEvent T (nextPos T insR remR) insR remR := by
  unfold nextPos StartsEvent
  cases remR with
  | nil =>
    cases insR with
    | nil => simp at hne
    | cons a r =>
      right; exact ⟨a, r, rfl, (min_eq_right (hi a (List.mem_cons_self ..))).symm⟩
  | cons b r' =>
    have hb := hr b (List.mem_cons_self ..)
    cases insR with
    | nil => left; exact ⟨b, r', rfl, (min_eq_right hb).symm⟩
    | cons a r =>
      simp only [min_eq_right hb]
      rcases le_total (T.r b) (T.l a) with h | h
      · left; exact ⟨b, r', rfl, (min_eq_left h).symm⟩
      · right; exact ⟨a, r, rfl, (min_eq_right h).symm⟩

end

end Tsdate.Sweep
