/-
C05, second half: with *valid-or-skip* projections (each updated end gets back either its cavity or a proper gamma —
the contract of the wrappers in `tsdate/approx.py`) no assert of `_damp` / `_rescale` can fire during
`propagate_likelihood`, from the initial state on, for any input, order, damping and cap.

The invariant needs, besides `AllPostOK`, that a node whose posterior is still `(0,0)` has only zero messages
addressed to it (`ZeroClean`): then `_damp` takes its `x == 0 and y == 0` exit.
-/
import TsdateVerif.Proofs.EPProper

namespace Tsdate.EP
set_option linter.unusedSectionVars false
set_option linter.unusedVariables false

variable {α : Type} [Inhabited α] [Field α] [LinearOrder α] [IsStrictOrderedRing α]

/-- `damp_range` for every step not larger than the one `_damp` returns (the two-ended update uses the minimum
of the two ends' steps). -/
theorem damp_range_le (x y : α × α) (s : α) (hs0 : 0 < s) (hs1 : s < 1) (hx0 : 0 < x.1 + 1) (hx1 : 0 < x.2)
    (d : α) (hd0 : 0 < d) (hd : d ≤ damp x y s) :
    (x.1 + 1) * s ≤ x.1 + 1 - d * y.1 ∧ x.2 * s ≤ x.2 - d * y.2 := by
  by_cases hz : (pIsZero y && pIsZero x) = true
  · rw [Bool.and_eq_true] at hz
    have hy := (pIsZero_iff y).1 hz.1
    rw [hy]
    constructor
    · simp only [Prod.fst_zero, mul_zero, sub_zero]; nlinarith
    · simp only [Prod.snd_zero, mul_zero, sub_zero]; nlinarith
  · rw [damp_eq x y s hz] at hd
    have hx0' : 0 < 1 + x.1 := by linarith
    obtain ⟨ha0, ha1, ha2⟩ := dampCand_range (1 + x.1) y.1 s hs0 hs1 hx0'
    obtain ⟨hb0, hb1, hb2⟩ := dampCand_range x.2 y.2 s hs0 hs1 hx1
    have hda : d ≤ dampCand (1 + x.1) y.1 s := by
      split_ifs at hd with h
      · exact le_trans hd h.le
      · exact hd
    have hdb : d ≤ dampCand x.2 y.2 s := by
      split_ifs at hd with h
      · exact hd
      · exact le_trans hd (not_lt.mp h)
    have h1 := ha2 d hd0 hda
    have h2 := hb2 d hd0 hdb
    constructor <;> linarith

theorem cavity_proper_le (x y : α × α) (s : α) (hs0 : 0 < s) (hs1 : s < 1) (hp : Proper x) (d : α)
    (hd0 : 0 < d) (hd : d ≤ damp x y s) : Proper (cavity x y d) := by
  obtain ⟨h3, h4⟩ := damp_range_le x y s hs0 hs1 hp.1 hp.2 d hd0 hd
  constructor
  · simp only [cavity]; nlinarith [hp.1]
  · simp only [cavity]; nlinarith [hp.2]

/-- A node whose posterior is still `(0, 0)` has only zero messages addressed to it. -/
def ZeroClean (net : Net α) (s : State α) (N : Nat) : Prop :=
  ∀ n, n < N → aget s.post n = 0 → ∀ (u : Bool) (i : Nat), i < (facOf u s).size →
    (aget (parOf u net) i = n → (aget (facOf u s) i).r = 0) ∧
    (aget (chiOf u net) i = n → (aget (facOf u s) i).l = 0)

/-- The invariant of the assert-free run. -/
structure Good (cfg : Cfg α) (net : Net α) (s : State α) (N : Nat) : Prop where
  sizes : Sizes net s N
  ok : AllPostOK cfg s N
  zc : ZeroClean net s N

/-- Valid-or-skip: every end the branch updates gets back its cavity (skip) or a proper gamma. -/
def VOSres (rq : Req α) (r : Res α) : Prop :=
  match rq.branch with
  | .skip => True
  | .leaf => r.postC = rq.cavC ∨ Proper r.postC
  | .root => r.postP = rq.cavP ∨ Proper r.postP
  | .twin => r.postP = rq.cavP ∨ Proper r.postP
  | .both => (r.postP = rq.cavP ∨ Proper r.postP) ∧ (r.postC = rq.cavC ∨ Proper r.postC)

def VOS (proj : Req α → Res α) : Prop := ∀ rq, VOSres rq (proj rq)

theorem proper_ne_zero (x : α × α) (h : Proper x) : x ≠ 0 := by
  intro h0; rw [h0] at h; exact lt_irrefl _ h.2

theorem scalePost_proper_ne_zero (x : α × α) (s : α) (hs : 1 < s) (h : Proper x) :
    scalePost x (rescale x s) ≠ 0 := by
  obtain ⟨_, _, _, _, h5⟩ := rescale_range x s hs h.1 h.2
  intro h0
  have : (scalePost x (rescale x s)).2 = 0 := by rw [h0]; rfl
  simp only [scalePost] at this
  rw [mul_comm] at this
  linarith

/-- One end of an update under the invariant: the value handed to `_rescale` passes its asserts and the
invariant is kept.  `fs` is the message slot being updated, `d` any step in `(0, _damp(...)]`, `cav` the cavity. -/
theorem applyEnd_good (cfg : Cfg α) (net : Net α) (N : Nat) (u : Bool) (i : Nat) (slotL : Bool) (n : Nat)
    (d : α) (fs cav r : α × α) (s : State α) (hg : Good cfg net s N) (hi : i < (facOf u s).size) (hn : n < N)
    (hs0 : 0 < cfg.minStep) (hs1 : cfg.minStep < 1) (hms : 1 < cfg.maxShape)
    (haddr : (if slotL then aget (chiOf u net) i else aget (parOf u net) i) = n)
    (hfs : fs = if slotL then (aget (facOf u s) i).l else (aget (facOf u s) i).r)
    (hcavd : cav = cavity (aget s.post n) (message fs (aget s.scale n)) d)
    (hd0 : 0 < d) (hd : d ≤ damp (aget s.post n) (message fs (aget s.scale n)) cfg.minStep)
    (hr : r = cav ∨ Proper r) :
    rescaleOk r = true ∧ Good cfg net (applyEnd cfg u i slotL n d cav r s) N := by
  have hx := hg.ok n hn
  have hslot0 : aget s.post n = 0 → fs = 0 := by
    intro h0
    have := hg.zc n hn h0 u i hi
    rw [hfs]
    cases slotL
    · simp only [Bool.false_eq_true, if_false] at haddr ⊢; exact this.1 haddr
    · simp only [if_true] at haddr ⊢; exact this.2 haddr
  -- the cavity is zero (posterior and message zero) or proper
  have hcav : (aget s.post n = 0 ∧ cav = 0) ∨ Proper cav := by
    rcases hx with h0 | ⟨hp, _, _⟩
    · left
      refine ⟨h0, ?_⟩
      rw [hcavd, hslot0 h0, h0, message_zero]
      apply Prod.ext <;> simp [cavity]
    · right
      rw [hcavd]
      exact cavity_proper_le _ _ _ hs0 hs1 hp d hd0 hd
  have hrok : rescaleOk r = true := by
    rw [rescaleOk_iff]
    rcases hr with hr | hr
    · rcases hcav with ⟨_, hc0⟩ | hcp
      · left; rw [hr, hc0]
      · right; rw [hr]; exact hcp
    · exact Or.inr hr
  refine ⟨hrok, ?_⟩
  have hpost := applyEnd_postOK cfg u i slotL n d cav r s N hg.sizes.post hn hms hg.ok hrok
  refine ⟨by rw [applyEnd_eq]; exact sizes_writeEnd net u i _ n _ _ s N hg.sizes, hpost, ?_⟩
  -- ZeroClean of the new state
  intro m hm hm0 u' j hj
  rw [applyEnd_eq] at hm0 hj ⊢
  rw [writeEnd_post] at hm0
  by_cases hmn : m = n
  · -- the updated node itself is zero afterwards: only possible when everything was zero
    subst hmn
    rw [aget_aset_same _ _ _ (by rw [hg.sizes.post]; exact hm)] at hm0
    have hr0 : r = 0 := by
      rcases (rescaleOk_iff r).1 hrok with h0 | hp
      · exact h0
      · exact absurd hm0 (scalePost_proper_ne_zero r cfg.maxShape hms hp)
    have hc0 : aget s.post m = 0 ∧ cav = 0 := by
      rcases hcav with h | hcp
      · exact h
      · rcases hr with hr | hr
        · rw [hr] at hr0; exact absurd hr0 (proper_ne_zero _ hcp)
        · exact absurd hr0 (proper_ne_zero _ hr)
    obtain ⟨hx0, hcav0⟩ := hc0
    have hold := hg.zc m hm hx0
    have hfs0 := hslot0 hx0
    have hnew : newFactor (0 : α × α) d r cav (aget s.scale m) = 0 := by
      rw [hr0, hcav0]
      apply Prod.ext <;> simp [newFactor]
    by_cases hu : u' = u
    · subst hu
      rw [writeEnd_fac] at hj ⊢
      rw [size_aset] at hj
      by_cases hji : j = i
      · subst hji
        rw [aget_aset_same _ _ _ hj]
        cases slotL
        · simp only [Bool.false_eq_true, if_false] at hfs ⊢
          rw [← hfs, hfs0]
          exact ⟨fun _ => hnew, (hold u' j hj).2⟩
        · simp only [if_true] at hfs ⊢
          rw [← hfs, hfs0]
          exact ⟨(hold u' j hj).1, fun _ => hnew⟩
      · rw [aget_aset_other _ _ _ _ hji]
        exact hold u' j hj
    · have hother : ∀ f' po sc, facOf u' (writeEnd u i f' m po sc s) = facOf u' s := by
        intro f' po sc
        cases u <;> cases u' <;> first | rfl | exact absurd rfl hu
      rw [hother] at hj ⊢
      exact hold u' j hj
  · -- another node: its posterior and the slots addressed to it are untouched
    rw [aget_aset_other _ _ _ _ hmn] at hm0
    have hold := hg.zc m hm hm0
    have hne : n ≠ m := fun h => hmn h.symm
    by_cases hu : u' = u
    · subst hu
      rw [writeEnd_fac] at hj ⊢
      rw [size_aset] at hj
      by_cases hji : j = i
      · subst hji
        rw [aget_aset_same _ _ _ hj]
        cases slotL
        · simp only [Bool.false_eq_true, if_false] at haddr ⊢
          exact ⟨fun h => absurd (haddr.symm.trans h) hne, (hold u' j hj).2⟩
        · simp only [if_true] at haddr ⊢
          exact ⟨(hold u' j hj).1, fun h => absurd (haddr.symm.trans h) hne⟩
      · rw [aget_aset_other _ _ _ _ hji]
        exact hold u' j hj
    · have hother : ∀ f' po sc, facOf u' (writeEnd u i f' n po sc s) = facOf u' s := by
        intro f' po sc
        cases u <;> cases u' <;> first | rfl | exact absurd rfl hu
      rw [hother] at hj ⊢
      exact hold u' j hj

end Tsdate.EP
