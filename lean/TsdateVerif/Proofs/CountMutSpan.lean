/-
C24, size-biased variant, part 2: the span accumulator.  The walk towards the root adds
`± nodes_samples[c] * (L - left)` to the span of the inserted/removed edge and of the edge above every
ancestor of its parent — exactly the edges whose weight (= number of samples below their child in the
current forest) changes, by exactly that amount.  Hence `edges_span[e] - weight(e) * (L - left)` is
unchanged by the edge events and grows by `weight(e) * (right - left)` when `left` advances: it is the
integral of the weight.
-/
import TsdateVerif.Proofs.CountMutSB
import TsdateVerif.Proofs.Integ

namespace Tsdate.CountMut
open Tsdate Tsdate.Sweep
set_option linter.unusedSectionVars false
set_option linter.unusedVariables false

section
variable {α : Type} [Inhabited α] [Field α] [LinearOrder α] [IsStrictOrderedRing α]

/-- the edges the walk from `(e, p)` visits: `e` and the edge above every ancestor-or-self of `p` -/
def Visited (Q : Nat → Option Nat) (G : Nat → Option Nat) (e p e' : Nat) : Prop :=
  e' = e ∨ ∃ u, Below Q u p ∧ G u = some e'

open Classical in
/-- What the walk does to `edges_span`: `op · (w * rem)` on the visited edges, each once. -/
theorem walk_spans (op : α → α → α) (c0 : Nat) (rem : α) (N : Nat) (time : Nat → α)
    (T : Tables α) (Q G : Nat → Option Nat) (ho : Older time Q)
    (hQN : ∀ c p, Q c = some p → p < N) (hQG : ∀ c, Q c = (G c).map T.par)
    (hGchi : ∀ u e, G u = some e → T.chi e = u) (hGE : ∀ u e, G u = some e → e < T.numEdges) :
    ∀ (fuel : Nat) (e p : Nat) (s : St α),
      parOf s = Q → (fun c => aget s.nodeEdge c) = G →
      s.nodeSamples.size = N → s.edgeSpan.size = T.numEdges → p < N → e < T.numEdges →
      ancCount Q N p ≤ fuel → ¬ Below Q c0 p → (∀ u, Below Q u p → G u ≠ some e) →
      ∀ e', aget (walk op c0 rem fuel (some e) (some p) s).edgeSpan e' =
        if Visited Q G e p e' then op (aget s.edgeSpan e') (aget s.nodeSamples c0 * rem)
        else aget s.edgeSpan e' := by
  intro fuel
  induction fuel with
  | zero =>
    intro e p s _ _ _ _ hp _ hf _ _
    have := ancCount_pos Q N p hp
    omega
  | succ k ih =>
    intro e p s hQ hG hsz hszE hp he hf hc0 hH e'
    have hc0p : c0 ≠ p := fun h => hc0 (h ▸ Below.refl)
    have hpsz : p < s.nodeSamples.size := by rw [hsz]; exact hp
    have hesz : e < s.edgeSpan.size := by rw [hszE]; exact he
    set w := aget s.nodeSamples c0 with hw
    set s1 : St α := { s with
      edgeSpan := aset s.edgeSpan e (op (aget s.edgeSpan e) (aget s.nodeSamples c0 * rem)),
      nodeSamples := aset s.nodeSamples p (op (aget s.nodeSamples p) (aget s.nodeSamples c0)) } with hs1
    have hstep : walk op c0 rem (k + 1) (some e) (some p) s =
        walk op c0 rem k (aget s.nodeEdge p) (aget s.nodeParent p) s1 := by
      simp only [walk, hs1]
    have hsp1 : ∀ e'', aget s1.edgeSpan e'' = if e'' = e then op (aget s.edgeSpan e'') (w * rem)
        else aget s.edgeSpan e'' := by
      intro e''
      simp only [hs1]
      rw [aget_aset _ _ _ _ hesz]
      split_ifs with h
      · subst h; rfl
      · rfl
    have hns1c0 : aget s1.nodeSamples c0 = w := by
      simp only [hs1]
      rw [aget_aset_other _ _ _ _ hc0p]
    have hQp : aget s.nodeParent p = Q p := by rw [← hQ]; rfl
    have hGp : aget s.nodeEdge p = G p := by rw [← hG]
    rw [hstep, hQp, hGp]
    cases hq : Q p with
    | none =>
      have : walk op c0 rem k (G p) none s1 = s1 := by
        cases k <;> simp [walk]
      rw [this, hsp1 e']
      -- p is a root: it has no edge, so only `e` is visited
      have hGpn : G p = none := by
        have := hQG p
        rw [hq] at this
        cases h : G p with
        | none => rfl
        | some _ => rw [h] at this; simp at this
      have : Visited Q G e p e' ↔ e' = e := by
        constructor
        · rintro (h | ⟨u, hu, hgu⟩)
          · exact h
          · have : u = p := Below.of_root hq hu
            rw [this, hGpn] at hgu; exact absurd hgu (by simp)
        · exact Or.inl
      simp only [this]
    | some q =>
      have hqN := hQN p q hq
      obtain ⟨e1, he1⟩ : ∃ e1, G p = some e1 := by
        have := hQG p
        rw [hq] at this
        cases h : G p with
        | none => rw [h] at this; simp at this
        | some e1 => exact ⟨e1, rfl⟩
      have hanc := ancCount_parent time Q ho N p q hp hq
      have hc0q : ¬ Below Q c0 q := fun h => hc0 (Below.step hq h)
      have hsz1 : s1.nodeSamples.size = N := by
        show (aset s.nodeSamples p _).size = N
        rw [size_aset]; exact hsz
      have hszE1 : s1.edgeSpan.size = T.numEdges := by
        show (aset s.edgeSpan e _).size = T.numEdges
        rw [size_aset]; exact hszE
      have hH1 : ∀ u, Below Q u q → G u ≠ some e1 := by
        intro u hu hgu
        have h1 : u = p := by rw [← hGchi u e1 hgu, hGchi p e1 he1]
        rw [h1] at hu
        exact not_below_parent ho hq hu
      rw [he1]
      have := ih e1 q s1 hQ hG hsz1 hszE1 hqN (hGE p e1 he1) (by omega) hc0q hH1 e'
      rw [this, hns1c0, hsp1 e']
      -- visited from (e, p) = {e} ∪ visited from (e1, q), disjointly
      have hne1 : e ≠ e1 := fun h => hH p Below.refl (h ▸ he1)
      have hiff : Visited Q G e p e' ↔ e' = e ∨ Visited Q G e1 q e' := by
        constructor
        · rintro (h | ⟨u, hu, hgu⟩)
          · exact Or.inl h
          · rcases (below_iff_parent hq).mp hu with h | h
            · right; left
              rw [h, he1] at hgu; exact (Option.some.inj hgu).symm
            · right; right; exact ⟨u, h, hgu⟩
        · rintro (h | h | ⟨u, hu, hgu⟩)
          · exact Or.inl h
          · right; exact ⟨p, Below.refl, h ▸ he1⟩
          · right; exact ⟨u, Below.step hq hu, hgu⟩
      have hdisj : ¬ Visited Q G e1 q e := by
        rintro (h | ⟨u, hu, hgu⟩)
        · exact hne1 h
        · exact hH u (Below.step hq hu) hgu
      by_cases hee : e' = e
      · subst hee
        simp only [hdisj, if_false, if_true, hiff, true_or]
      · simp only [hee, if_false, hiff, false_or]

/-- current weight of edge `e`: the sample count below its child while it is the child's edge -/
def Wt (T : Tables α) (s : St α) (e : Nat) : α :=
  if aget s.nodeEdge (T.chi e) = some e then aget s.nodeSamples (T.chi e) else 0

/-- `nodes_edge` as a function, with what `NE` says about it -/
theorem nodeEdge_facts (T : Tables α) (N : Nat) (insD remD : List Nat)
    (hI : ∀ e ∈ insD, e < T.numEdges) (A : Array (Option Nat)) (hsz : A.size = N)
    (hne : NE T N insD remD A) :
    (∀ u e, aget A u = some e → T.chi e = u) ∧ (∀ u e, aget A u = some e → e < T.numEdges) := by
  have key : ∀ u e, aget A u = some e → e ∈ insD ∧ T.chi e = u := by
    intro u e h
    have huN : u < N := by
      by_contra hcon
      have : aget A u = none := by
        simp [aget, hsz, Nat.le_of_not_lt hcon]
        rfl
      rw [this] at h; simp at h
    have := (hne u huN e).mp h
    exact ⟨this.1, this.2.2⟩
  exact ⟨fun u e h => (key u e h).2, fun u e h => hI e (key u e h).1⟩

open Classical in
/-- **Inserting an edge changes `edges_span` by exactly (change of weight) × (L − left).** -/
theorem insertEdge_span (T : Tables α) (hV : Valid T) (hNO : NoOverlap T) (mask : Array Bool) (N : Nat)
    (time : Nat → α) (hT : ∀ e, e < T.numEdges → time (T.chi e) < time (T.par e))
    (hC : ∀ e, e < T.numEdges → T.chi e < N) (hP : ∀ e, e < T.numEdges → T.par e < N)
    {x : α} {insD : List Nat} {e : Nat} {insR remD remR : List Nat}
    (F : InsFacts T x insD e insR remD remR) (s : St α)
    (hszNE : s.nodeEdge.size = N) (hszSP : s.edgeSpan.size = T.numEdges)
    (hne : NE T N insD remD s.nodeEdge) (h : SBInv T mask N s) :
    ∀ e', e' < T.numEdges →
      aget (insertEdge T true x s e).edgeSpan e' - Wt T (insertEdge T true x s e) e' * (T.seqLen - x) =
      aget s.edgeSpan e' - Wt T s e' * (T.seqLen - x) := by
  have heE : e < T.numEdges := hV.mem_ins.mp (by rw [F.hins]; simp)
  have hc0N := hC e heE
  have hp0N := hP e heE
  set c0 := T.chi e with hc0
  set p0 := T.par e with hp0
  set s1 : St α := { s with nodeEdge := aset s.nodeEdge c0 (some e),
                            nodeParent := aset s.nodeParent c0 (some p0) } with hs1
  have hins : insertEdge T true x s e =
      walk (· + ·) c0 (T.seqLen - x) (s1.nodeSamples.size + 1) (some e) (some p0) s1 := by
    unfold insertEdge; simp only [if_true]; rfl
  have hGc0 : aget s.nodeEdge c0 = none := ne_insert_none T hV hNO N hC F s.nodeEdge hne
  have hQ : parOf s1 = link (parOf s) c0 p0 := by
    rw [parOf_aset s c0 (some p0) s.nodeParent (by rw [h.szNP]; exact hc0N) s1 rfl]; rfl
  have hne1 : NE T N (insD ++ [e]) remD s1.nodeEdge := ne_insert T hV hNO N hC F s.nodeEdge hszNE hne
  have hszNE1 : s1.nodeEdge.size = N := by
    show (aset s.nodeEdge c0 (some e)).size = N; rw [size_aset]; exact hszNE
  have hnp1 : ∀ c, aget s1.nodeParent c = (aget s1.nodeEdge c).map T.par := by
    intro c
    show aget (aset s.nodeParent c0 (some p0)) c = (aget (aset s.nodeEdge c0 (some e)) c).map T.par
    rw [aget_aset _ _ _ _ (by rw [h.szNP]; exact hc0N), aget_aset _ _ _ _ (by rw [hszNE]; exact hc0N)]
    split_ifs
    · rfl
    · exact h.np c
  have hI1 : ∀ e' ∈ insD ++ [e], e' < T.numEdges := fun e' he' =>
    hV.mem_ins.mp (by rw [F.hins]; rcases List.mem_append.mp he' with hh | hh
                      · exact List.mem_append_left _ hh
                      · simp at hh; subst hh; simp)
  obtain ⟨ho, hQN⟩ := older_of T N time hT hP (insD ++ [e]) remD hI1 s1 hszNE1 hne1 hnp1
  obtain ⟨hGchi, hGE⟩ := nodeEdge_facts T N (insD ++ [e]) remD hI1 s1.nodeEdge hszNE1 hne1
  have hQc0 : parOf s1 c0 = some p0 := by rw [hQ]; simp [link]
  have hnb : ¬ Below (parOf s1) c0 p0 := not_below_parent ho hQc0
  have hfuel : ancCount (parOf s1) N p0 ≤ s1.nodeSamples.size + 1 :=
    Nat.le_succ_of_le (by rw [show s1.nodeSamples.size = N from h.szNS]; exact ancCount_le _ N p0)
  obtain ⟨_, hns⟩ := walk_samples (· + ·) c0 (T.seqLen - x) N time T (parOf s1) ho hQN
    (s1.nodeSamples.size + 1) (some e) p0 s1 rfl hnp1 h.szNS hp0N hfuel hnb rfl
  have hH : ∀ u, Below (parOf s1) u p0 → (fun c => aget s1.nodeEdge c) u ≠ some e := by
    intro u hu hgu
    have : u = c0 := (hGchi u e hgu).symm
    exact hnb (this ▸ hu)
  have hsp := walk_spans (· + ·) c0 (T.seqLen - x) N time T (parOf s1) (fun c => aget s1.nodeEdge c) ho hQN
    hnp1 hGchi hGE (s1.nodeSamples.size + 1) e p0 s1 rfl rfl h.szNS hszSP hp0N heE hfuel hnb hH
  obtain ⟨w1, _, _, _, _, _, _⟩ := walk_preserves (fun a b : α => a + b) c0 (T.seqLen - x)
    (s1.nodeSamples.size + 1) (some e) (some p0) s1
  rw [hins]
  intro e' he'
  set s2 := walk (· + ·) c0 (T.seqLen - x) (s1.nodeSamples.size + 1) (some e) (some p0) s1 with hs2
  set w := aget s.nodeSamples c0 with hw
  have hE2 : ∀ u, aget s2.nodeEdge u = aget s1.nodeEdge u := fun u => by rw [w1]
  have hE1 : ∀ u, aget s1.nodeEdge u = if u = c0 then some e else aget s.nodeEdge u := by
    intro u
    show aget (aset s.nodeEdge c0 (some e)) u = _
    rw [aget_aset _ _ _ _ (by rw [hszNE]; exact hc0N)]
  -- change of weight
  have hW : Wt T s2 e' = Wt T s e' +
      (if Visited (parOf s1) (fun c => aget s1.nodeEdge c) e p0 e' then w else 0) := by
    unfold Wt
    rw [hE2, hE1, hns]
    show (if (if T.chi e' = c0 then some e else aget s.nodeEdge (T.chi e')) = some e' then
        (if Below (parOf s1) (T.chi e') p0 then aget s.nodeSamples (T.chi e') + w
          else aget s.nodeSamples (T.chi e')) else 0) = _
    by_cases hc : T.chi e' = c0
    · simp only [hc, if_true, hGc0]
      by_cases hee : e' = e
      · subst hee
        have hv : Visited (parOf s1) (fun c => aget s1.nodeEdge c) e' p0 e' := Or.inl rfl
        simp only [hv, if_true, hnb, if_false]
        simp
        rfl
      · have hne' : ¬ (some e = some e') := fun hh => hee (Option.some.inj hh).symm
        have hv : ¬ Visited (parOf s1) (fun c => aget s1.nodeEdge c) e p0 e' := by
          rintro (hh | ⟨u, hu, hgu⟩)
          · exact hee hh
          · have : u = c0 := by rw [← hGchi u e' hgu, hc]
            exact hnb (this ▸ hu)
        simp [hne', hv]
    · simp only [hc, if_false]
      by_cases hg : aget s.nodeEdge (T.chi e') = some e'
      · have hg1 : aget s1.nodeEdge (T.chi e') = some e' := by rw [hE1, if_neg hc]; exact hg
        have hv : Visited (parOf s1) (fun c => aget s1.nodeEdge c) e p0 e' ↔
            Below (parOf s1) (T.chi e') p0 := by
          constructor
          · rintro (hh | ⟨u, hu, hgu⟩)
            · exact absurd (by rw [hh]) hc
            · have : u = T.chi e' := (hGchi u e' hgu).symm
              exact this ▸ hu
          · intro hb; exact Or.inr ⟨T.chi e', hb, hg1⟩
        simp only [hg, if_true, hv]
        split_ifs <;> ring
      · have hv : ¬ Visited (parOf s1) (fun c => aget s1.nodeEdge c) e p0 e' := by
          rintro (hh | ⟨u, hu, hgu⟩)
          · exact hc (by rw [hh])
          · have hu' : u = T.chi e' := (hGchi u e' hgu).symm
            have : aget s1.nodeEdge (T.chi e') = some e' := hu' ▸ hgu
            rw [hE1, if_neg hc] at this
            exact hg this
        simp [hg, hv]
  rw [hsp e', hW]
  show (if _ then aget s.edgeSpan e' + w * (T.seqLen - x) else aget s.edgeSpan e') - _ = _
  split_ifs <;> ring

open Classical in
/-- **Removing an edge changes `edges_span` by exactly (change of weight) × (L − left).** -/
theorem removeEdge_span (T : Tables α) (hV : Valid T) (hNO : NoOverlap T) (mask : Array Bool) (N : Nat)
    (time : Nat → α) (hT : ∀ e, e < T.numEdges → time (T.chi e) < time (T.par e))
    (hC : ∀ e, e < T.numEdges → T.chi e < N) (hP : ∀ e, e < T.numEdges → T.par e < N)
    {x : α} {insD insR remD : List Nat} {e : Nat} {remR : List Nat}
    (F : RemFacts T x insD insR remD e remR) (s : St α)
    (hszNE : s.nodeEdge.size = N) (hszSP : s.edgeSpan.size = T.numEdges)
    (hne : NE T N insD remD s.nodeEdge) (h : SBInv T mask N s) :
    ∀ e', e' < T.numEdges →
      aget (removeEdge T true x s e).edgeSpan e' - Wt T (removeEdge T true x s e) e' * (T.seqLen - x) =
      aget s.edgeSpan e' - Wt T s e' * (T.seqLen - x) := by
  have heE : e < T.numEdges := hV.mem_rem.mp (by rw [F.hrem]; simp)
  have hc0N := hC e heE
  have hp0N := hP e heE
  set c0 := T.chi e with hc0
  set p0 := T.par e with hp0
  set s1 : St α := { s with nodeEdge := aset s.nodeEdge c0 none,
                            nodeParent := aset s.nodeParent c0 none } with hs1
  have hrem : removeEdge T true x s e =
      walk (· - ·) c0 (T.seqLen - x) (s1.nodeSamples.size + 1) (some e) (some p0) s1 := by
    unfold removeEdge; simp only [if_true]; rfl
  have hI : ∀ e' ∈ insD, e' < T.numEdges := fun e' he' =>
    hV.mem_ins.mp (by rw [F.hins]; exact List.mem_append_left _ he')
  obtain ⟨hoP, hPN⟩ := older_of T N time hT hP insD remD hI s hszNE hne h.np
  have hGc0 : aget s.nodeEdge c0 = some e := ne_remove_cur T hV N hC F s.nodeEdge hne
  have hPc0 : parOf s c0 = some p0 := by
    show aget s.nodeParent c0 = some p0
    rw [h.np c0, hGc0]; rfl
  have hQ' : parOf s1 = fun c => if c = c0 then none else parOf s c :=
    parOf_aset s c0 none s.nodeParent (by rw [h.szNP]; exact hc0N) s1 rfl
  have hQc0 : parOf s1 c0 = none := by rw [hQ']; simp
  have hlink : parOf s = link (parOf s1) c0 p0 := by
    funext c
    simp only [link, hQ']
    split_ifs with hc
    · rw [hc]; exact hPc0
    · rfl
  have hoL : Older time (link (parOf s1) c0 p0) := hlink ▸ hoP
  have ho1 : Older time (parOf s1) := by
    intro c p hcp
    rw [hQ'] at hcp
    by_cases hc : c = c0
    · simp [hc] at hcp
    · simp only [hc, if_false] at hcp; exact hoP c p hcp
  have hQN1 : ∀ c p, parOf s1 c = some p → p < N := by
    intro c p hcp
    rw [hQ'] at hcp
    by_cases hc : c = c0
    · simp [hc] at hcp
    · simp only [hc, if_false] at hcp; exact hPN c p hcp
  have hszNE1 : s1.nodeEdge.size = N := by
    show (aset s.nodeEdge c0 none).size = N; rw [size_aset]; exact hszNE
  have hne1 : NE T N insD (remD ++ [e]) s1.nodeEdge := ne_remove T hV hNO N hC F s.nodeEdge hszNE hne
  have hnp1 : ∀ c, aget s1.nodeParent c = (aget s1.nodeEdge c).map T.par := by
    intro c
    show aget (aset s.nodeParent c0 none) c = (aget (aset s.nodeEdge c0 none) c).map T.par
    rw [aget_aset _ _ _ _ (by rw [h.szNP]; exact hc0N), aget_aset _ _ _ _ (by rw [hszNE]; exact hc0N)]
    split_ifs
    · rfl
    · exact h.np c
  obtain ⟨hGchi, hGE⟩ := nodeEdge_facts T N insD (remD ++ [e]) hI s1.nodeEdge hszNE1 hne1
  have hnb : ¬ Below (parOf s1) c0 p0 := not_below_link_root time _ c0 p0 hQc0 hoL
  have hfuel : ancCount (parOf s1) N p0 ≤ s1.nodeSamples.size + 1 :=
    Nat.le_succ_of_le (by rw [show s1.nodeSamples.size = N from h.szNS]; exact ancCount_le _ N p0)
  obtain ⟨_, hns⟩ := walk_samples (· - ·) c0 (T.seqLen - x) N time T (parOf s1) ho1 hQN1
    (s1.nodeSamples.size + 1) (some e) p0 s1 rfl hnp1 h.szNS hp0N hfuel hnb rfl
  have hE1 : ∀ u, aget s1.nodeEdge u = if u = c0 then none else aget s.nodeEdge u := by
    intro u
    show aget (aset s.nodeEdge c0 none) u = _
    rw [aget_aset _ _ _ _ (by rw [hszNE]; exact hc0N)]
  have hH : ∀ u, Below (parOf s1) u p0 → (fun c => aget s1.nodeEdge c) u ≠ some e := by
    intro u hu hgu
    have : u = c0 := (hGchi u e hgu).symm
    rw [this] at hgu
    simp only [hE1, if_true] at hgu
    exact absurd hgu (by simp)
  have hsp := walk_spans (· - ·) c0 (T.seqLen - x) N time T (parOf s1) (fun c => aget s1.nodeEdge c) ho1
    hQN1 hnp1 hGchi hGE (s1.nodeSamples.size + 1) e p0 s1 rfl rfl h.szNS hszSP hp0N heE hfuel hnb hH
  obtain ⟨w1, _, _, _, _, _, _⟩ := walk_preserves (fun a b : α => a - b) c0 (T.seqLen - x)
    (s1.nodeSamples.size + 1) (some e) (some p0) s1
  rw [hrem]
  intro e' he'
  set s2 := walk (· - ·) c0 (T.seqLen - x) (s1.nodeSamples.size + 1) (some e) (some p0) s1 with hs2
  set w := aget s.nodeSamples c0 with hw
  have hE2 : ∀ u, aget s2.nodeEdge u = aget s1.nodeEdge u := fun u => by rw [w1]
  have hW : Wt T s2 e' = Wt T s e' -
      (if Visited (parOf s1) (fun c => aget s1.nodeEdge c) e p0 e' then w else 0) := by
    unfold Wt
    rw [hE2, hE1, hns]
    show (if (if T.chi e' = c0 then none else aget s.nodeEdge (T.chi e')) = some e' then
        (if Below (parOf s1) (T.chi e') p0 then aget s.nodeSamples (T.chi e') - w
          else aget s.nodeSamples (T.chi e')) else 0) = _
    by_cases hc : T.chi e' = c0
    · simp only [hc, if_true, hGc0]
      by_cases hee : e' = e
      · subst hee
        have hv : Visited (parOf s1) (fun c => aget s1.nodeEdge c) e' p0 e' := Or.inl rfl
        simp only [hv, if_true]
        simp
        exact (sub_self _).symm
      · have hne' : ¬ (some e = some e') := fun hh => hee (Option.some.inj hh).symm
        have hv : ¬ Visited (parOf s1) (fun c => aget s1.nodeEdge c) e p0 e' := by
          rintro (hh | ⟨u, hu, hgu⟩)
          · exact hee hh
          · have : u = c0 := by rw [← hGchi u e' hgu, hc]
            rw [this] at hgu
            simp only [hE1, if_true] at hgu
            exact absurd hgu (by simp)
        simp [hne', hv]
    · simp only [hc, if_false]
      by_cases hg : aget s.nodeEdge (T.chi e') = some e'
      · have hg1 : aget s1.nodeEdge (T.chi e') = some e' := by rw [hE1, if_neg hc]; exact hg
        have hv : Visited (parOf s1) (fun c => aget s1.nodeEdge c) e p0 e' ↔
            Below (parOf s1) (T.chi e') p0 := by
          constructor
          · rintro (hh | ⟨u, hu, hgu⟩)
            · exact absurd (by rw [hh]) hc
            · have : u = T.chi e' := (hGchi u e' hgu).symm
              exact this ▸ hu
          · intro hb; exact Or.inr ⟨T.chi e', hb, hg1⟩
        simp only [hg, if_true, hv]
        split_ifs <;> ring
      · have hv : ¬ Visited (parOf s1) (fun c => aget s1.nodeEdge c) e p0 e' := by
          rintro (hh | ⟨u, hu, hgu⟩)
          · exact hc (by rw [hh])
          · have hu' : u = T.chi e' := (hGchi u e' hgu).symm
            have : aget s1.nodeEdge (T.chi e') = some e' := hu' ▸ hgu
            rw [hE1, if_neg hc] at this
            exact hg this
        simp [hg, hv]
  rw [hsp e', hW]
  show (if _ then aget s.edgeSpan e' - w * (T.seqLen - x) else aget s.edgeSpan e') - _ = _
  split_ifs <;> ring

end

end Tsdate.CountMut
