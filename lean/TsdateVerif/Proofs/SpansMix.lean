/-
`mixture_expect_and_var` computes the moments of the span-weighted mixture; start-state lemmas and
the partition lemma for the span tally (C15).
-/
import TsdateVerif.Proofs.Spans
import Mathlib.Algebra.BigOperators.Group.Finset.Basic
import Mathlib.Algebra.BigOperators.Group.Finset.Piecewise
import Mathlib.Algebra.Order.Field.Basic
import Mathlib.Algebra.Order.BigOperators.Group.List
import Mathlib.Tactic.Ring
import Mathlib.Tactic.FieldSimp
import Mathlib.Tactic.Positivity
import Mathlib.Tactic.Linarith

namespace Tsdate.Spans
set_option linter.unusedSectionVars false

section Init
variable {α : Type} [AddCommGroup α]

theorem initStart_size (N : Nat) (first : TreeRec α) : (initStart N first).size = N := by
  simp [initStart]

theorem initStart_get (N : Nat) (first : TreeRec α) (u : Nat) (hu : u < N) :
    aget (initStart N first) u = if present first u then some (0 : α) else none := by
  simp [initStart, aget, hu]

theorem init_tracked (N : Nat) (first : TreeRec α) :
    Tracked N { start := initStart N first, log := [] } first := by
  intro u hu hp
  have h : (aget first.desc u).isSome = true := Option.isSome_iff_ne_none.mpr hp
  simp [initStart_get N first u hu, present, h]

theorem init_carry (cls) (N : Nat) (first : TreeRec α) (h0 : first.left = 0) (u : Nat) (hu : u < N) :
    carry cls { start := initStart N first, log := [] } first u = 0 := by
  simp only [carry, initStart_get N first u hu, present]
  rcases Option.eq_none_or_eq_some (aget first.desc u) with h | ⟨k, h⟩
  · simp [h]
  · simp [h, h0]

/-- The accumulated buckets selected by `cls` equal the tally, for every adequate flush-set choice. -/
theorem accumulate_spec (cls) (N : Nat) (first : TreeRec α) (rest : List (List Nat × TreeRec α))
    (h0 : first.left = 0) (had : Adequate N first rest) (u : Nat) (hu : u < N) :
    bucketC cls u (accumulate N first rest).log = tallyC cls u (first :: rest.map Prod.snd) := by
  unfold accumulate
  rw [go_spec cls N rest _ first (initStart_size N first) (init_tracked N first) had u hu,
    init_carry cls N first h0 u hu]
  simp [bucketC]

/-- The tallies over any finite set of `(T, k)` pairs that contains every record of `u` add up to
the span over which `u` is present. -/
theorem tally_partition (trees : List (TreeRec α)) (u : Nat) (S : Finset (Nat × Nat))
    (hS : ∀ t ∈ trees, ∀ k, aget t.desc u = some k → (t.total, k) ∈ S) :
    ∑ key ∈ S, tally trees u key.1 key.2 = presentSpan trees u := by
  induction trees with
  | nil => simp [tally, presentSpan, tallyC]
  | cons t ts ih =>
    have ih' := ih (fun t' ht' => hS t' (List.mem_cons_of_mem _ ht'))
    simp only [tally, presentSpan] at ih' ⊢
    simp only [tallyC_cons, Finset.sum_add_distrib, ih']
    congr 1
    cases h : aget t.desc u with
    | none => simp
    | some k =>
      have hmem := hS t (List.mem_cons_self ..) k h
      have : ∀ key ∈ S, (if ((t.total == key.1 && k == key.2) = true) then t.right - t.left else (0 : α))
          = if (t.total, k) = key then t.right - t.left else 0 := by
        intro key _
        congr 1
        simp [Prod.ext_iff]
      simp only [if_true]
      rw [Finset.sum_congr rfl this, Finset.sum_ite_eq, if_pos hmem]

end Init

section Mix
variable {α : Type} [Field α]

theorem foldl_add_eq (f : α × α × α → α) (g : List (α × α × α)) :
    ∀ a, g.foldl (fun acc x => acc + f x) a = a + (g.map f).sum := by
  induction g with
  | nil => intro a; simp
  | cons x xs ih => intro a; simp [ih, add_assoc]

theorem sumBy_eq (f : α × α × α → α) (g : List (α × α × α)) : sumBy f g = (g.map f).sum := by
  simp [sumBy, foldl_add_eq]

theorem foldl_mixStep (groups : List (List (α × α × α))) :
    ∀ a : MixAcc α,
      (groups.foldl mixStep a).e = a.e + (groups.flatten.map (fun x => x.2.1 * x.1)).sum ∧
      (groups.foldl mixStep a).f = a.f + (groups.flatten.map (fun x => x.2.2 * x.1)).sum ∧
      (groups.foldl mixStep a).s = a.s + (groups.flatten.map (fun x => x.2.1 * x.2.1 * x.1)).sum ∧
      (groups.foldl mixStep a).w = a.w + (groups.flatten.map (fun x => x.1)).sum := by
  induction groups with
  | nil => intro a; simp
  | cons g gs ih =>
    intro a
    obtain ⟨h1, h2, h3, h4⟩ := ih (mixStep a g)
    simp only [List.foldl_cons, List.flatten_cons, List.map_append, List.sum_append]
    rw [h1, h2, h3, h4]
    simp only [mixStep, sumBy_eq]
    refine ⟨by ring, by ring, by ring, by ring⟩

theorem sum_map_wm (l : List (α × α × α)) :
    (l.map (fun x => x.2.1 * x.1)).sum = (l.map (fun x => x.1 * x.2.1)).sum := by
  congr 1; apply List.map_congr_left; intro x _; ring

theorem sum_map_second (l : List (α × α × α)) :
    (l.map (fun x => x.2.2 * x.1)).sum + (l.map (fun x => x.2.1 * x.2.1 * x.1)).sum
      = (l.map (fun x => x.1 * (x.2.2 + x.2.1 ^ 2))).sum := by
  induction l with
  | nil => simp
  | cons x xs ih =>
    simp only [List.map_cons, List.sum_cons]
    rw [← ih]; ring

/-- The code's four running sums give the mixture mean and variance of the flattened component list. -/
theorem mixtureMoments_eq (groups : List (List (α × α × α))) :
    mixtureMoments groups = (mixMean groups.flatten, mixVar groups.flatten) := by
  obtain ⟨h1, h2, h3, h4⟩ := foldl_mixStep groups { e := 0, f := 0, s := 0, w := 0 }
  simp only [mixtureMoments, mixMean, mixVar, mixW]
  rw [h1, h2, h3, h4]
  simp only [zero_add]
  rw [sum_map_wm, sum_map_second, sq]

theorem sum_weighted_sq (l : List (α × α × α)) (W μ : α) :
    (l.map (fun x => x.1 / W * (x.2.1 - μ) ^ 2)).sum
      = ((l.map (fun x => x.1 * x.2.1 ^ 2)).sum - 2 * μ * (l.map (fun x => x.1 * x.2.1)).sum
          + μ ^ 2 * (l.map (fun x => x.1)).sum) / W := by
  induction l with
  | nil => simp
  | cons x xs ih =>
    simp only [List.map_cons, List.sum_cons, ih]
    ring

theorem sum_weighted_v (l : List (α × α × α)) (W : α) :
    (l.map (fun x => x.1 / W * x.2.2)).sum = (l.map (fun x => x.1 * x.2.2)).sum / W := by
  induction l with
  | nil => simp
  | cons x xs ih =>
    simp only [List.map_cons, List.sum_cons, ih]
    ring

theorem sum_split (l : List (α × α × α)) :
    (l.map (fun x => x.1 * (x.2.2 + x.2.1 ^ 2))).sum
      = (l.map (fun x => x.1 * x.2.2)).sum + (l.map (fun x => x.1 * x.2.1 ^ 2)).sum := by
  induction l with
  | nil => simp
  | cons x xs ih =>
    simp only [List.map_cons, List.sum_cons, ih]
    ring

/-- Law of total variance for the mixture: `mixVar = Σ p v + Σ p (m − mean)²`, `p = w / Σ w`. -/
theorem mixVar_decomp (l : List (α × α × α)) (hW : mixW l ≠ 0) :
    mixVar l = (l.map (fun x => x.1 / mixW l * x.2.2)).sum
      + (l.map (fun x => x.1 / mixW l * (x.2.1 - mixMean l) ^ 2)).sum := by
  rw [sum_weighted_sq, sum_weighted_v, mixVar, sum_split]
  simp only [mixMean]
  have hW' : (l.map (fun x => x.1)).sum ≠ 0 := hW
  simp only [mixW]
  field_simp
  ring

end Mix

section MixOrd
variable {α : Type} [Field α] [LinearOrder α] [IsStrictOrderedRing α]

/-- Non-negative weights and variances with positive total weight give a non-negative variance. -/
theorem mixVar_nonneg (l : List (α × α × α)) (hw : ∀ x ∈ l, 0 ≤ x.1) (hv : ∀ x ∈ l, 0 ≤ x.2.2)
    (hW : 0 < mixW l) : 0 ≤ mixVar l := by
  rw [mixVar_decomp l (ne_of_gt hW)]
  apply add_nonneg
  · apply List.sum_nonneg
    intro y hy
    obtain ⟨x, hx, rfl⟩ := List.mem_map.mp hy
    exact mul_nonneg (div_nonneg (hw x hx) hW.le) (hv x hx)
  · apply List.sum_nonneg
    intro y hy
    obtain ⟨x, hx, rfl⟩ := List.mem_map.mp hy
    exact mul_nonneg (div_nonneg (hw x hx) hW.le) (sq_nonneg _)

end MixOrd

section ParamsStage
variable {α : Type} [Field α] [DecidableEq α]

/-- Every cached value is what the uncached computation gives for its key. -/
def CacheOK (approx : α → α → α × α) (table : Nat → Nat → α × α) (c : Cache α) : Prop :=
  ∀ key v, c.lookup key = some v → v = paramsOf approx table [key]

theorem paramsStep_spec (approx : α → α → α × α) (table : Nat → Nat → α × α)
    (st : Cache α × List (α × α)) (r : NodeRecs α) (hc : CacheOK approx table st.1) :
    CacheOK approx table (paramsStep approx table st r).1 ∧
      (paramsStep approx table st r).2 = st.2 ++ [paramsOf approx table r] := by
  rcases r with _ | ⟨⟨T, comps⟩, _ | ⟨g', rest⟩⟩
  · exact ⟨hc, rfl⟩
  · simp only [paramsStep]
    by_cases h1 : comps.length = 1
    · simp only [h1, if_true]; exact ⟨hc, trivial⟩
    · simp only [h1, if_false]
      by_cases h5 : comps.length ≤ 5
      · simp only [h5, if_true]
        cases hl : st.1.lookup (T, comps) with
        | some v =>
          simp only
          exact ⟨hc, by rw [hc _ _ hl]⟩
        | none =>
          simp only
          refine ⟨?_, trivial⟩
          intro key v hk
          rw [List.lookup_cons] at hk
          by_cases hkey : (key == (T, comps)) = true
          · simp only [hkey] at hk
            have : key = (T, comps) := by simpa using hkey
            rw [this]; exact (Option.some.inj hk).symm
          · simp only [hkey] at hk
            exact hc key v hk
      · simp only [h5, if_false]; exact ⟨hc, trivial⟩
  · exact ⟨hc, rfl⟩

theorem foldl_paramsStep (approx : α → α → α × α) (table : Nat → Nat → α × α) (nodes : List (NodeRecs α)) :
    ∀ st : Cache α × List (α × α), CacheOK approx table st.1 →
      (nodes.foldl (paramsStep approx table) st).2 = st.2 ++ nodes.map (paramsOf approx table) := by
  induction nodes with
  | nil => intro st _; simp
  | cons r rs ih =>
    intro st hc
    obtain ⟨h1, h2⟩ := paramsStep_spec approx table st r hc
    rw [List.foldl_cons, ih _ h1, h2]
    simp

/-- **The cache of `get_mixture_prior_params` is transparent**: each node's parameters are
`paramsOf` of its own records, whatever nodes were processed before it. -/
theorem mixtureParams_eq (approx : α → α → α × α) (table : Nat → Nat → α × α) (nodes : List (NodeRecs α)) :
    mixtureParams approx table nodes = nodes.map (paramsOf approx table) := by
  unfold mixtureParams
  rw [foldl_paramsStep approx table nodes ([], []) (by intro key v h; simp at h)]
  simp

end ParamsStage

end Tsdate.Spans
