/-
At the identity monad the effectful sweeps of `Model/EPM.lean` (what the driver runs) are the pure `sweep` /
`iterate` of `Model/EP.lean` (what the theorems are about).
-/
import TsdateVerif.Model.EPM

namespace Tsdate.EP
set_option linter.unusedSectionVars false

variable {α : Type} [Add α] [Sub α] [Mul α] [Div α] [Neg α] [OfNat α 0] [OfNat α 1]
  [LT α] [LE α] [DecidableLT α] [DecidableLE α] [Inhabited α]

theorem stepM_id (proj : Req α → Res α) (cfg : Cfg α) (net : Net α) (u : Bool) (s : State α) (i : Nat) :
    stepM (m := Id) (fun rq => pure (proj rq)) (fun _ => pure ()) cfg net u s i =
      pure (stepEdge proj cfg net u s i) := rfl

theorem sweepM_id (proj : Req α → Res α) (cfg : Cfg α) (net : Net α) (u : Bool) (order : List Nat)
    (s : State α) :
    sweepM (m := Id) (fun rq => pure (proj rq)) (fun _ => pure ()) cfg net u order s =
      pure (sweep proj cfg net u order s) := by
  induction order generalizing s with
  | nil => rfl
  | cons i rest ih =>
    show (do let s' ← stepM (m := Id) (fun rq => pure (proj rq)) (fun _ => pure ()) cfg net u s i
             sweepM (m := Id) (fun rq => pure (proj rq)) (fun _ => pure ()) cfg net u rest s') = _
    rw [stepM_id]
    show sweepM (m := Id) (fun rq => pure (proj rq)) (fun _ => pure ()) cfg net u rest
        (stepEdge proj cfg net u s i) = _
    rw [ih]
    rfl

/-- **The driver's iteration is the model's iteration**: with a pure oracle and no-op handlers `iterateM` returns
exactly `iterate`. -/
theorem iterateM_id (proj : Req α → Res α) (cfg : Cfg α) (net : Net α) (sch : Sched α) (s : State α) :
    iterateM (m := Id) (fun rq => pure (proj rq)) (fun _ => pure ()) (fun _ => pure ()) cfg net sch s =
      pure (iterate proj cfg net sch s) := by
  unfold iterateM
  rw [sweepM_id]
  show (do let s2 ← sweepM (m := Id) (fun rq => pure (proj rq)) (fun _ => pure ()) cfg net false sch.edgeOrder
             (sweep proj cfg net true sch.blockOrder s)
           (pure () : Id Unit)
           pure (rescaleFactors net (if sch.regularise then prior cfg sch.free sch.cnt sch.reltol sch.maxitt s2
             else s2))) = _
  rw [sweepM_id]
  rfl

end Tsdate.EP
