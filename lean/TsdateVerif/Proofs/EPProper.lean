/-
C05: every write to `node_posterior` is followed by `_rescale`, whose asserts and cap make the stored value
zero-or-proper with shape in `[1/max_shape, max_shape]`.
-/
import TsdateVerif.Proofs.EPStar

namespace Tsdate.EP
set_option linter.unusedSectionVars false
set_option linter.unusedVariables false

variable {α : Type} [Inhabited α] [Field α] [LinearOrder α] [IsStrictOrderedRing α]

/-- Natural parameters `(shape − 1, rate)` of a proper gamma distribution. -/
def Proper (x : α × α) : Prop := 0 < x.1 + 1 ∧ 0 < x.2

/-- What C05 says of a stored node posterior: never updated (`(0, 0)`), or proper with shape within the cap. -/
def PostOK (s : α) (x : α × α) : Prop := x = 0 ∨ (Proper x ∧ x.1 + 1 ≤ s ∧ 1 / s ≤ x.1 + 1)

def AllPostOK (cfg : Cfg α) (s : State α) (N : Nat) : Prop :=
  ∀ n, n < N → PostOK cfg.maxShape (aget s.post n)

theorem rescaleOk_iff (x : α × α) : rescaleOk x = true ↔ x = 0 ∨ Proper x := by
  unfold rescaleOk Proper
  rw [Bool.or_eq_true, pIsZero_iff, Bool.and_eq_true, decide_eq_true_iff, decide_eq_true_iff]

/-- **The write `posterior *= _rescale(posterior)` stores a `PostOK` value whenever `_rescale`'s asserts pass.** -/
theorem postOK_of_rescaleOk (x : α × α) (s : α) (hs : 1 < s) (h : rescaleOk x = true) :
    PostOK s (scalePost x (rescale x s)) := by
  rcases (rescaleOk_iff x).1 h with h0 | hp
  · left
    have : rescale x s = 1 := by unfold rescale; rw [if_pos ((pIsZero_iff x).2 h0)]
    rw [this, h0]
    apply Prod.ext <;> simp [scalePost]
  · right
    obtain ⟨h1, h2, h3, h4, h5⟩ := rescale_range x s hs hp.1 hp.2
    have hinv0 : 0 < 1 / s := by have : 0 < s := by linarith
                                 positivity
    refine ⟨⟨?_, ?_⟩, ?_, ?_⟩
    · simp only [scalePost]; linarith [mul_comm x.1 (rescale x s)]
    · simp only [scalePost]; linarith [mul_comm x.2 (rescale x s)]
    · simp only [scalePost]; linarith [mul_comm x.1 (rescale x s)]
    · simp only [scalePost]; linarith [mul_comm x.1 (rescale x s)]

/-- When the shape exceeds the cap, the stored shape is *exactly* `max_shape`. -/
theorem rescale_caps_exactly (x : α × α) (s : α) (hs : 1 < s) (h : s < 1 + x.1) :
    (scalePost x (rescale x s)).1 + 1 = s := by
  have hx : x.1 ≠ 0 := by intro h0; rw [h0] at h; linarith
  have hz : ¬ pIsZero x = true := by
    rw [pIsZero_iff]; intro h0; rw [h0] at hx; exact hx rfl
  unfold rescale
  rw [if_neg hz, if_pos h]
  simp only [scalePost]
  rw [mul_div_cancel₀ _ hx]; ring

theorem applyEnd_postOK (cfg : Cfg α) (u : Bool) (i : Nat) (slotL : Bool) (n : Nat) (d : α)
    (cav proj : α × α) (s : State α) (N : Nat) (hsz : s.post.size = N) (hn : n < N)
    (hs : 1 < cfg.maxShape) (h : AllPostOK cfg s N) (hok : rescaleOk proj = true) :
    AllPostOK cfg (applyEnd cfg u i slotL n d cav proj s) N := by
  intro m hm
  rw [applyEnd_eq, writeEnd_post]
  by_cases hmn : m = n
  · subst hmn
    rw [aget_aset_same _ _ _ (by rw [hsz]; exact hm)]
    exact postOK_of_rescaleOk proj cfg.maxShape hs hok
  · rw [aget_aset_other _ _ _ _ hmn]
    exact h m hm

theorem applyEnd_post_size (cfg : Cfg α) (u : Bool) (i : Nat) (slotL : Bool) (n : Nat) (d : α)
    (cav proj : α × α) (s : State α) :
    (applyEnd cfg u i slotL n d cav proj s).post.size = s.post.size := by
  rw [applyEnd_eq, writeEnd_post, size_aset]

/-- **Every branch of the loop body stores only `PostOK` posteriors, for any projection result that passes the
asserts of `_rescale`** (`resOk`; the real code raises `AssertionError` otherwise). -/
theorem stepApply_postOK (cfg : Cfg α) (rq : Req α) (i : Nat) (r : Res α) (s : State α) (N : Nat)
    (hsz : s.post.size = N) (hp : rq.p < N) (hc : rq.c < N) (hs : 1 < cfg.maxShape)
    (h : AllPostOK cfg s N) (hok : resOk rq r = true) :
    AllPostOK cfg (stepApply cfg rq i r s) N := by
  unfold stepApply
  unfold resOk at hok
  cases hb : rq.branch <;> simp only [hb] at hok ⊢
  · exact h
  · exact applyEnd_postOK cfg _ i true rq.c _ _ _ s N hsz hc hs h hok
  · exact applyEnd_postOK cfg _ i false rq.p _ _ _ s N hsz hp hs h hok
  · exact applyEnd_postOK cfg _ i false rq.p _ _ _ s N hsz hp hs h hok
  · rw [Bool.and_eq_true] at hok
    refine applyEnd_postOK cfg _ i true rq.c _ _ _ _ N ?_ hc hs ?_ hok.2
    · rw [applyEnd_post_size]; exact hsz
    · exact applyEnd_postOK cfg _ i false rq.p _ _ _ s N hsz hp hs h hok.1

theorem stepApply_post_size (cfg : Cfg α) (rq : Req α) (i : Nat) (r : Res α) (s : State α) :
    (stepApply cfg rq i r s).post.size = s.post.size := by
  unfold stepApply
  cases rq.branch <;> simp only [applyEnd_post_size]

theorem stepEdge_postOK (proj : Req α → Res α) (cfg : Cfg α) (net : Net α) (N : Nat) (u : Bool)
    (s : State α) (i : Nat) (hsz : s.post.size = N) (hnet : NetOK net N) (hi : i < (parOf u net).size)
    (hs : 1 < cfg.maxShape) (h : AllPostOK cfg s N) (hok : stepOk proj cfg net u s i = true) :
    AllPostOK cfg (stepEdge proj cfg net u s i) N ∧ (stepEdge proj cfg net u s i).post.size = N := by
  unfold stepOk at hok
  unfold stepEdge
  dsimp only at hok ⊢
  rw [Bool.and_eq_true] at hok
  obtain ⟨hp, hc⟩ := netOK_par net N hnet u i hi
  have htp := tinyCheck_post cfg net u i s
  have h1 : AllPostOK cfg (tinyCheck cfg net u i s) N := by
    intro m hm; rw [htp]; exact h m hm
  constructor
  · refine stepApply_postOK cfg _ i _ _ N (by rw [htp]; exact hsz) ?_ ?_ hs h1 hok.2
    · rw [prep_p]; exact hp
    · rw [prep_c]; exact hc
  · rw [stepApply_post_size, htp]; exact hsz

/-- `propagate_likelihood` keeps every stored posterior `PostOK` as long as no assert fires. -/
theorem sweep_postOK (proj : Req α → Res α) (cfg : Cfg α) (net : Net α) (N : Nat) (u : Bool)
    (order : List Nat) (s : State α) (hsz : s.post.size = N) (hnet : NetOK net N)
    (hord : ∀ i ∈ order, i < (parOf u net).size) (hs : 1 < cfg.maxShape) (h : AllPostOK cfg s N)
    (hok : sweepOk proj cfg net u order s = true) :
    AllPostOK cfg (sweep proj cfg net u order s) N ∧ (sweep proj cfg net u order s).post.size = N := by
  unfold sweep
  induction order generalizing s with
  | nil => exact ⟨h, hsz⟩
  | cons i rest ih =>
    rw [List.foldl_cons]
    simp only [sweepOk, Bool.and_eq_true] at hok
    obtain ⟨h1, h2⟩ := stepEdge_postOK proj cfg net N u s i hsz hnet (hord i (List.mem_cons_self ..)) hs h hok.1
    exact ih _ h2 (fun j hj => hord j (List.mem_cons_of_mem _ hj)) h1 hok.2

theorem priorNode_postOK (cfg : Cfg α) (pen : α) (s : State α) (n N : Nat) (hsz : s.post.size = N)
    (hn : n < N) (hs : 1 < cfg.maxShape) (h : AllPostOK cfg s N) (hok : priorNodeOk pen s n = true) :
    AllPostOK cfg (priorNode cfg pen s n) N ∧ (priorNode cfg pen s n).post.size = N := by
  unfold priorNode
  dsimp only
  constructor
  · intro m hm
    by_cases hmn : m = n
    · subst hmn
      rw [aget_aset_same _ _ _ (by rw [hsz]; exact hm)]
      exact postOK_of_rescaleOk _ cfg.maxShape hs hok
    · rw [aget_aset_other _ _ _ _ hmn]; exact h m hm
  · rw [size_aset]; exact hsz

theorem priorRun_postOK (cfg : Cfg α) (pen : α) (l : List Nat) (s : State α) (N : Nat)
    (hsz : s.post.size = N) (hl : ∀ n ∈ l, n < N) (hs : 1 < cfg.maxShape) (h : AllPostOK cfg s N)
    (hok : priorRunOk cfg pen l s = true) :
    AllPostOK cfg (l.foldl (priorNode cfg pen) s) N ∧ (l.foldl (priorNode cfg pen) s).post.size = N := by
  induction l generalizing s with
  | nil => exact ⟨h, hsz⟩
  | cons n rest ih =>
    rw [List.foldl_cons]
    simp only [priorRunOk, Bool.and_eq_true] at hok
    obtain ⟨h1, h2⟩ := priorNode_postOK cfg pen s n N hsz (hl n (List.mem_cons_self ..)) hs h hok.1
    exact ih _ h2 (fun m hm => hl m (List.mem_cons_of_mem _ hm)) h1 hok.2

theorem prior_postOK (cfg : Cfg α) (free : Array Bool) (cnt reltol : α) (maxitt : Nat) (s : State α)
    (N : Nat) (hsz : s.post.size = N) (hfree : free.size ≤ N) (hs : 1 < cfg.maxShape)
    (h : AllPostOK cfg s N) (hok : priorOk cfg free cnt reltol maxitt s = true) :
    AllPostOK cfg (prior cfg free cnt reltol maxitt s) N ∧ (prior cfg free cnt reltol maxitt s).post.size = N := by
  unfold prior
  unfold priorOk at hok
  split_ifs with he
  · exact ⟨h, hsz⟩
  · rw [Bool.or_eq_true] at hok
    rcases hok with hok | hok
    · exact absurd hok he
    · dsimp only at hok
      rw [Bool.and_eq_true] at hok
      unfold priorWith
      exact priorRun_postOK cfg _ _ s N hsz
        (fun n hn => lt_of_lt_of_le (mem_freeList free n hn).1 hfree) hs h hok.2

/-- **`iterate` keeps every stored posterior zero-or-proper-and-capped, for any projections, unless the real code
raises an `AssertionError`** (`iterateOk`). -/
theorem iterate_postOK (proj : Req α → Res α) (cfg : Cfg α) (net : Net α) (sch : Sched α) (N : Nat)
    (s : State α) (hsz : s.post.size = N) (hok : SchedOK net sch N) (hs : 1 < cfg.maxShape)
    (h : AllPostOK cfg s N) (hrun : iterateOk proj cfg net sch s = true) :
    AllPostOK cfg (iterate proj cfg net sch s) N ∧ (iterate proj cfg net sch s).post.size = N := by
  unfold iterateOk at hrun
  dsimp only at hrun
  rw [Bool.and_eq_true, Bool.and_eq_true] at hrun
  obtain ⟨⟨hr1, hr2⟩, hr3⟩ := hrun
  obtain ⟨h1, z1⟩ := sweep_postOK proj cfg net N true sch.blockOrder s hsz hok.netok hok.border hs h hr1
  obtain ⟨h2, z2⟩ := sweep_postOK proj cfg net N false sch.edgeOrder _ z1 hok.netok hok.eorder hs h1 hr2
  unfold iterate
  dsimp only
  have hpost : ∀ t : State α, (rescaleFactors net t).post = t.post := fun t => rfl
  by_cases hreg : sch.regularise = true
  · simp only [hreg, if_true]
    rw [hreg] at hr3
    simp only [Bool.not_true, Bool.false_or] at hr3
    obtain ⟨h3, z3⟩ := prior_postOK cfg sch.free sch.cnt sch.reltol sch.maxitt _ N z2 hok.free hs h2 hr3
    constructor
    · intro m hm; rw [hpost]; exact h3 m hm
    · rw [hpost]; exact z3
  · simp only [hreg, Bool.false_eq_true, if_false]
    constructor
    · intro m hm; rw [hpost]; exact h2 m hm
    · rw [hpost]; exact z2

theorem iterateN_postOK (proj : Req α → Res α) (cfg : Cfg α) (net : Net α) (sch : Sched α) (N : Nat)
    (k : Nat) (s : State α) (hsz : s.post.size = N) (hok : SchedOK net sch N) (hs : 1 < cfg.maxShape)
    (h : AllPostOK cfg s N) (hrun : iterateNOk proj cfg net sch k s = true) :
    AllPostOK cfg (iterateN proj cfg net sch k s) N := by
  induction k generalizing s with
  | zero => exact h
  | succ k ih =>
    simp only [iterateNOk, Bool.and_eq_true] at hrun
    obtain ⟨h1, z1⟩ := iterate_postOK proj cfg net sch N s hsz hok hs h hrun.1
    exact ih _ z1 h1 hrun.2

theorem init_postOK (cfg : Cfg α) (N E B : Nat) : AllPostOK cfg (initState N E B) N := by
  intro n hn
  left
  simp only [initState]
  exact aget_replicate _ _ _ hn

/-! ### the asserts cannot fire on a proper posterior with a valid-or-skip projection -/

/-- `_damp` never asserts when the posterior is proper (or posterior and message are both zero). -/
theorem dampOk_of_proper (x y : α × α) (s : α) (hs0 : 0 < s) (hs1 : s < 1)
    (h : (x = 0 ∧ y = 0) ∨ Proper x) : dampOk x y s = true := by
  unfold dampOk
  rcases h with ⟨hx, hy⟩ | hp
  · rw [Bool.or_eq_true]; left
    rw [Bool.and_eq_true]
    exact ⟨(pIsZero_iff y).2 hy, (pIsZero_iff x).2 hx⟩
  · rw [Bool.or_eq_true]; right
    obtain ⟨h1, h2, _, _⟩ := damp_range x y s hs0 hs1 hp.1 hp.2
    simp only [Bool.and_eq_true, decide_eq_true_iff]
    exact ⟨⟨⟨⟨⟨hs0, hs1⟩, hp.1⟩, hp.2⟩, h1⟩, h2⟩

/-- The cavity of a proper posterior is proper: damping keeps at least the fraction `min_step` of shape and rate. -/
theorem cavity_proper (x y : α × α) (s : α) (hs0 : 0 < s) (hs1 : s < 1) (hp : Proper x) :
    Proper (cavity x y (damp x y s)) := by
  obtain ⟨_, _, h3, h4⟩ := damp_range x y s hs0 hs1 hp.1 hp.2
  constructor
  · simp only [cavity]; nlinarith [hp.1]
  · simp only [cavity]; nlinarith [hp.2]

/-- A projection result that is either the cavity (skip) or proper passes the asserts of `_rescale`, when the
posterior was proper (or posterior and message both zero). -/
theorem valid_or_skip_passes (x y r : α × α) (s : α) (hs0 : 0 < s) (hs1 : s < 1)
    (h : (x = 0 ∧ y = 0) ∨ Proper x) (hr : r = cavity x y (damp x y s) ∨ Proper r) :
    rescaleOk r = true := by
  rw [rescaleOk_iff]
  rcases hr with hr | hr
  · rcases h with ⟨hx, hy⟩ | hp
    · left
      rw [hr, hx, hy]
      apply Prod.ext <;> simp [cavity]
    · right; rw [hr]; exact cavity_proper x y s hs0 hs1 hp
  · exact Or.inr hr

/-! ### outputs -/

/-- `approximate_gamma_mom` returns a proper gamma with exactly the requested mean and variance. -/
theorem gammaMom_proper (mn va : α) (hm : 0 < mn) (hv : 0 < va) :
    Proper (gammaMom mn va) ∧ momentsOf (gammaMom mn va) = (mn, va) := by
  have hm0 : mn ≠ 0 := ne_of_gt hm
  have hv0 : va ≠ 0 := ne_of_gt hv
  refine ⟨⟨?_, ?_⟩, ?_⟩
  · simp only [gammaMom]; have : 0 < mn * mn / va := by positivity
    linarith
  · simp only [gammaMom]; positivity
  · apply Prod.ext
    · simp only [momentsOf, gammaMom]; field_simp; ring
    · simp only [momentsOf, gammaMom]; field_simp; ring

/-- Mean and variance of a proper gamma are positive and `mean²/variance` is its shape. -/
theorem momentsOf_proper (x : α × α) (h : Proper x) :
    0 < (momentsOf x).1 ∧ 0 < (momentsOf x).2 ∧
      (momentsOf x).1 * (momentsOf x).1 / (momentsOf x).2 = x.1 + 1 := by
  obtain ⟨h1, h2⟩ := h
  have h10 : x.1 + 1 ≠ 0 := ne_of_gt h1
  have h20 : x.2 ≠ 0 := ne_of_gt h2
  refine ⟨?_, ?_, ?_⟩
  · simp only [momentsOf]; positivity
  · simp only [momentsOf]; positivity
  · simp only [momentsOf]; field_simp

theorem wrapTail_proper (m : Option (α × α)) (r : α × α) (h : wrapTail m = some r) : Proper r := by
  unfold wrapTail at h
  match m, h with
  | some (mn, va), h =>
    simp only at h
    split_ifs at h with hv
    · have := (gammaMom_proper mn va hv.1 hv.2).1
      rw [← Option.some.inj h]; exact this

/-- After the flip a defined phase in `[0, 1]` lies in `[1/2, 1]`. -/
theorem flipPhase_range (x y : α) (h0 : 0 ≤ x) (h1 : x ≤ 1) (h : flipPhase (some x) = some y) :
    1 / 2 ≤ y ∧ y ≤ 1 := by
  simp only [flipPhase, Option.map_some, Option.some.injEq] at h
  split_ifs at h with hlt
  · rw [← h]; constructor <;> linarith
  · rw [← h]; exact ⟨not_lt.mp hlt, h1⟩

theorem flipPhase_none : flipPhase (none : Option α) = none := rfl

/-- The reprojection in `piecewise_scale_posterior` returns shape in `(0, max_shape]` (and a positive rate when
the rescaled mean is positive), whatever `gammainc_inv` and the Newton iteration return. -/
theorem reproject_capped (q1 q2 x1 x2 maxShape alpha0 : α) (newton : Option α) (ginv : α → α → α)
    (midpt : α) (hms : 0 < maxShape) (r : α × α)
    (h : reproject q1 q2 x1 x2 maxShape alpha0 newton ginv midpt = some r) :
    0 < r.1 + 1 ∧ r.1 + 1 ≤ maxShape ∧ (0 < midpt → 0 < r.2) := by
  unfold reproject at h
  rw [Option.map_eq_some_iff] at h
  obtain ⟨ab, hab, hr⟩ := h
  have key : 0 < ab.1 + 1 ∧ ab.1 + 1 ≤ maxShape := by
    unfold iqrFit at hab
    dsimp only at hab
    split_ifs at hab with h1 h2 h3
    · rw [← Option.some.inj hab]; simp; exact hms
    · rw [← Option.some.inj hab]; simp; exact hms
    · match newton, hab with
      | some a, hab =>
        simp only at hab
        split_ifs at hab with h4 h5
        · rw [← Option.some.inj hab]; simp; exact hms
        · rw [← Option.some.inj hab]
          simp only [sub_add_cancel]
          exact ⟨h4, not_lt.mp h5⟩
  rw [← hr]
  refine ⟨key.1, key.2, fun hm => ?_⟩
  exact div_pos key.1 hm

end Tsdate.EP
