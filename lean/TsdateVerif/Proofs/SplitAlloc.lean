/-
Phases 2 and 3 of `_split_disjoint_nodes`: where the new ids are, and that `nodes_order` maps each
of them back to the node it was copied from.
-/
import Mathlib.Tactic.SplitIfs
import Mathlib.Tactic.Linarith
import TsdateVerif.Model.Split

namespace Tsdate.Split
set_option linter.unusedSectionVars false
set_option linter.unusedVariables false

/-- `split_nodes` contributed by the nodes `i, i+1, …` with segment counts `ss`. -/
def splitFrom : Nat → List Int → List Nat
  | _, [] => []
  | i, s :: ss => List.replicate s.toNat i ++ splitFrom (i + 1) ss

/-- Number of new ids allocated before the `j`-th entry of `ss`. -/
def pre (ss : List Int) (j : Nat) : Nat := ((ss.take j).map Int.toNat).sum

theorem pre_zero (ss : List Int) : pre ss 0 = 0 := by simp [pre]

theorem pre_succ (s : Int) (ss : List Int) (j : Nat) : pre (s :: ss) (j + 1) = s.toNat + pre ss j := by
  simp [pre]

theorem allocStep_mapSize (st : AllocSt) (is : Nat × Int) :
    (allocStep st is).map.size = st.map.size := by
  unfold allocStep; dsimp only; split_ifs <;> simp

theorem allocGo_mapSize (i : Nat) (ss : List Int) (st : AllocSt) :
    (allocGo i ss st).map.size = st.map.size := by
  induction ss generalizing i st with
  | nil => rfl
  | cons s ss ih => simp only [allocGo]; rw [ih, allocStep_mapSize]

theorem allocGo_split (i : Nat) (ss : List Int) (st : AllocSt) :
    (allocGo i ss st).split = st.split ++ splitFrom i ss := by
  induction ss generalizing i st with
  | nil => simp [allocGo, splitFrom]
  | cons s ss ih =>
    simp only [allocGo, splitFrom]
    rw [ih]; simp [allocStep, List.append_assoc]

theorem allocGo_map_lt (i : Nat) (ss : List Int) (st : AllocSt) (n : Nat) (h : n < i) :
    aget (allocGo i ss st).map n = aget st.map n := by
  induction ss generalizing i st with
  | nil => rfl
  | cons s ss ih =>
    simp only [allocGo]
    rw [ih (i + 1) _ (by omega)]
    unfold allocStep; dsimp only
    split_ifs
    · exact aget_aset_other _ _ _ _ (by omega)
    · rfl

theorem allocGo_map (i : Nat) (ss : List Int) (st : AllocSt) (j : Nat) (s : Int)
    (hs : ss[j]? = some s) (hpos : 0 < s) (hsz : i + ss.length ≤ st.map.size) :
    aget (allocGo i ss st).map (i + j) = ((st.num + pre ss j : Nat) : Int) := by
  induction ss generalizing i st j with
  | nil => simp at hs
  | cons s0 ss ih =>
    simp only [allocGo]
    cases j with
    | zero =>
      simp only [List.getElem?_cons_zero, Option.some.injEq] at hs
      subst hs
      have hi : i < st.map.size := by simp at hsz; omega
      rw [allocGo_map_lt _ _ _ _ (by omega)]
      unfold allocStep; dsimp only
      rw [if_pos hpos, pre_zero]
      simp only [Nat.add_zero]
      rw [aget_aset_same _ _ _ hi]
    | succ j =>
      simp only [List.getElem?_cons_succ] at hs
      have := ih (i + 1) (allocStep st (i, s0)) j hs
        (by rw [allocStep_mapSize]; simp at hsz; omega)
      rw [show i + (j + 1) = i + 1 + j by omega, this, pre_succ]
      simp only [allocStep]
      push_cast; omega

theorem splitFrom_get (i : Nat) (ss : List Int) (j t : Nat) (s : Int)
    (hs : ss[j]? = some s) (ht : t < s.toNat) :
    (splitFrom i ss)[pre ss j + t]? = some (i + j) := by
  induction ss generalizing i j with
  | nil => simp at hs
  | cons s0 ss ih =>
    simp only [splitFrom]
    cases j with
    | zero =>
      simp only [List.getElem?_cons_zero, Option.some.injEq] at hs
      subst hs
      rw [pre_zero, Nat.zero_add, List.getElem?_append_left (by simpa using ht)]
      simp [ht]
    | succ j =>
      simp only [List.getElem?_cons_succ] at hs
      rw [pre_succ, List.getElem?_append_right (by simp; omega)]
      simp only [List.length_replicate]
      rw [show s0.toNat + pre ss j + t - s0.toNat = pre ss j + t by omega, ih (i + 1) j hs]
      congr 1; omega

theorem splitFrom_nil_of_nonpos (i : Nat) (ss : List Int) (h : ∀ s ∈ ss, s ≤ 0) :
    splitFrom i ss = [] := by
  induction ss generalizing i with
  | nil => rfl
  | cons s ss ih =>
    simp only [splitFrom]
    have h0 : s.toNat = 0 := by have := h s (List.mem_cons_self ..); omega
    rw [h0, ih (i + 1) (fun s' hs' => h s' (List.mem_cons_of_mem _ hs'))]
    rfl

/-- Every element of `split_nodes` is a node with a positive segment count. -/
theorem mem_splitFrom (i : Nat) (ss : List Int) (n : Nat) (h : n ∈ splitFrom i ss) :
    ∃ j s, n = i + j ∧ ss[j]? = some s ∧ 0 < s := by
  induction ss generalizing i with
  | nil => simp [splitFrom] at h
  | cons s0 ss ih =>
    simp only [splitFrom, List.mem_append] at h
    rcases h with h | h
    · have := List.mem_replicate.mp h
      exact ⟨0, s0, by omega, by simp, by omega⟩
    · obtain ⟨j, s, hn, hs, hp⟩ := ih (i + 1) h
      exact ⟨j + 1, s, by omega, by simpa using hs, hp⟩

/-! ### The allocation for a segment array of size `N` -/

section Alloc
variable (N : Nat) (seg : Array Int)

theorem alloc_split : (alloc N seg.toList).split = splitFrom 0 seg.toList := by
  simp [alloc, allocGo_split]

theorem toList_get (hN : seg.size = N) (n : Nat) (hn : n < N) :
    seg.toList[n]? = some (aget seg n) := by
  have hn' : n < seg.size := by omega
  simp [aget, hn']

theorem alloc_map (hN : seg.size = N) (n : Nat) (hn : n < N) (hpos : 0 < aget seg n) :
    aget (alloc N seg.toList).map n = ((N + pre seg.toList n : Nat) : Int) := by
  have := allocGo_map 0 seg.toList { num := N, map := Array.replicate N (-1), split := [] } n
    (aget seg n) (toList_get N seg hN n hn) hpos (by simp [hN])
  simpa [alloc] using this

/-- A positive label `l ≤ seg[n]` gets the id `N + pre n + (l - 1)`. -/
theorem newId_pos (hN : seg.size = N) (n : Nat) (hn : n < N) (l : Int) (hl : 0 < l)
    (hle : l ≤ aget seg n) :
    newId (alloc N seg.toList).map l n = N + pre seg.toList n + (l.toNat - 1) := by
  unfold newId
  rw [if_pos hl, alloc_map N seg hN n hn (by omega)]
  push_cast; omega

theorem newId_nonpos (map : Array Int) (n : Nat) (l : Int) (hl : l ≤ 0) : newId map l n = n := by
  unfold newId; rw [if_neg (by omega)]

/-- `nodes_order[newId] = n`. -/
theorem order_newId (hN : seg.size = N) (n : Nat) (hn : n < N) (l : Int) (hle : l ≤ aget seg n) :
    (List.range N ++ (alloc N seg.toList).split)[newId (alloc N seg.toList).map l n]? = some n := by
  by_cases hl : 0 < l
  · rw [newId_pos N seg hN n hn l hl hle, alloc_split,
      List.getElem?_append_right (by simp; omega)]
    simp only [List.length_range]
    rw [show N + pre seg.toList n + (l.toNat - 1) - N = pre seg.toList n + (l.toNat - 1) by omega,
      splitFrom_get 0 seg.toList n (l.toNat - 1) (aget seg n) (toList_get N seg hN n hn) (by omega)]
    simp
  · rw [newId_nonpos _ _ _ (by omega), List.getElem?_append_left (by simpa using hn)]
    simp [hn]

theorem newId_inj (hN : seg.size = N) (n : Nat) (hn : n < N) (l l' : Int)
    (h0 : 0 ≤ l) (h0' : 0 ≤ l') (hle : l ≤ aget seg n) (hle' : l' ≤ aget seg n)
    (h : newId (alloc N seg.toList).map l n = newId (alloc N seg.toList).map l' n) : l = l' := by
  by_cases hl : 0 < l <;> by_cases hl' : 0 < l'
  · rw [newId_pos N seg hN n hn l hl hle, newId_pos N seg hN n hn l' hl' hle'] at h; omega
  · rw [newId_pos N seg hN n hn l hl hle, newId_nonpos _ _ _ (by omega)] at h; omega
  · rw [newId_pos N seg hN n hn l' hl' hle', newId_nonpos _ _ _ (by omega)] at h; omega
  · omega

/-- The id of a positive label is a *new* id; the others keep `n`. -/
theorem newId_ge (hN : seg.size = N) (n : Nat) (hn : n < N) (l : Int) (hl : 0 < l)
    (hle : l ≤ aget seg n) : N ≤ newId (alloc N seg.toList).map l n := by
  rw [newId_pos N seg hN n hn l hl hle]; omega

end Alloc

end Tsdate.Split
