/-
Linear-space, index-level reading of one outside group consisting of a single edge.
-/
import TsdateVerif.Proofs.DiscreteOutside
import TsdateVerif.Proofs.DiscreteMarginal

namespace Tsdate.Discrete
open Tsdate

/-- additional laws of the linear space used by the outside pass -/
structure IsLinOpsOut {α : Type} [Field α] (o : Ops α) : Prop extends IsLinOps o where
  ratio0_ne : ∀ x y, y ≠ 0 → o.ratio0 x y = x / y
  ofLin_one : o.ofLin 1 = 1

section
variable {α : Type} [Field α] [Inhabited α]

theorem getD_zipWith (f : α → α → α) (a b : List α) (t : Nat) (ha : t < a.length) (hb : t < b.length) :
    (List.zipWith f a b).getD t default = f (a.getD t default) (b.getD t default) := by
  simp [List.getD_eq_getElem?_getD, List.getElem?_zipWith, List.getElem?_eq_getElem ha,
    List.getElem?_eq_getElem hb]

theorem getD_map' (f : α → α) (l : List α) (t : Nat) (ht : t < l.length) :
    (l.map f).getD t default = f (l.getD t default) := by
  simp [List.getD_eq_getElem?_getD, List.getElem?_eq_getElem ht]

theorem getD_toList (a : Array α) (t : Nat) : a.toList.getD t default = aget a t := by
  simp [aget, List.getD_eq_getElem?_getD]

/-- `Σ_{j = s}^{G-1} h j = Σ_{a < G} [s ≤ a] h a` -/
theorem sum_range'_eq_sumR (h : Nat → α) (s : Nat) : ∀ G, s ≤ G →
    ((List.range' s (G - s)).map h).sum = sumR G (fun a => if s ≤ a then h a else 0) := by
  intro G hG
  induction G, hG using Nat.le_induction with
  | base =>
    simp only [Nat.sub_self, List.range'_zero, List.map_nil, List.sum_nil]
    symm
    have : sumR s (fun a => if s ≤ a then h a else 0) = sumR s (fun _ => (0 : α)) := by
      apply sumR_congr; intro a ha; rw [if_neg (by omega)]
    rw [this, sumR_zero]
  | succ n hn ih =>
    rw [sumR_succ, if_pos hn, ← ih, show n + 1 - s = (n - s) + 1 by omega, List.range'_concat]
    simp only [List.map_append, List.sum_append, List.map_cons, List.map_nil, List.sum_cons,
      List.sum_nil, add_zero, Nat.one_mul]
    rw [show s + (n - s) = n by omega]

theorem length_msgUpper (o : Ops α) (G : Nat) (pv : List α) (lik : Array α) :
    (msgUpper o G pv lik).length = G := by
  simp [msgUpper, length_reduceat, colIndices]

theorem length_outsideEdge (o : Ops α) (inp : Input α) (s : InsideState α) (std ign : Bool)
    (outside : Array (Array α)) (val : List α) (e : DEdge) (hv : val.length = inp.G) :
    (outsideEdge o inp s std ign outside val e).length = inp.G := by
  unfold outsideEdge
  by_cases h : (ign && e.p + 1 == inp.numNodes) = true
  · rw [if_pos h]; exact hv
  · rw [if_neg h]
    simp only [List.length_zipWith, length_msgUpper, hv, Nat.min_self]

theorem length_outRow (o : Ops α) (inp : Input α) (s : InsideState α) (std ign : Bool)
    (outside : Array (Array α)) (g : Nat × List DEdge) :
    (outRow o inp s std ign outside g).length = inp.G := by
  have hv : (outVal o inp s std ign outside g).length = inp.G := by
    unfold outVal
    have : (List.replicate inp.G o.one).length = inp.G := by simp
    revert this
    generalize List.replicate inp.G o.one = v
    induction g.2 generalizing v with
    | nil => intro h; exact h
    | cons e es ih =>
      intro h
      simp only [List.foldl_cons]
      exact ih _ (length_outsideEdge o inp s std ign outside v e h)
  unfold outRow
  split_ifs <;> simp [hv]

/-- **One outside group with a single edge, in linear space, entry by entry.** -/
theorem outRow_single_lin (o : Ops α) (ho : IsLinOpsOut o) (inp : Input α) (s : InsideState α)
    (std : Bool) (outside : Array (Array α)) (e : DEdge)
    (hfrac : aget inp.frac e.id = 1) (hfix : aget inp.fixed e.c = false)
    (hlik : (aget inp.lik e.id).size = triSize inp.G)
    (hop : (aget outside e.p).size = inp.G) (hip : (aget s.inside e.p).size = inp.G)
    (t : Nat) (ht : t < inp.G) :
    ∃ m1 m2 : α,
      (m1 = if std then o.maxl ((gather (List.zipWith o.combine (aget outside e.p).toList
          (List.zipWith o.ratio0 (aget s.inside e.p).toList
            ((edgeMsg o inp s.inside e).map (fun v => o.ratio v (aget s.denom e.c))))).toArray
          (toUpperTri inp.G)).map (o.scale (aget inp.frac e.id))) else 1) ∧
      (m2 = if std then o.maxl (outVal o inp s std false outside (e.c, [e])) else aget s.denom e.c) ∧
      (outRow o inp s std false outside (e.c, [e])).getD t default * m2 * m1
        = (m1 / m1) * (m2 / m2) * sumR inp.G (fun a => if t ≤ a then
            aget (aget outside e.p) a
              * o.ratio0 (aget (aget s.inside e.p) a)
                  (smsg inp.toTreeModel.fixed inp.toTreeModel.lik (insI s.inside) e a / aget s.denom e.c)
              * inp.toTreeModel.lik e a t else 0) := by
  refine ⟨_, _, rfl, rfl, ?_⟩
  -- names
  set curGi := (edgeMsg o inp s.inside e).map (fun v => o.ratio v (aget s.denom e.c)) with hcur
  set insDiv := List.zipWith o.ratio0 (aget s.inside e.p).toList curGi with hdiv
  set comb := (List.zipWith o.combine (aget outside e.p).toList insDiv).toArray with hcomb
  set pv0 := (gather comb (toUpperTri inp.G)).map (o.scale (aget inp.frac e.id)) with hpv0
  set m1 : α := if std then o.maxl pv0 else 1 with hm1
  -- the value
  have hlen_cur : curGi.length = inp.G := by simp [hcur, length_edgeMsg]
  have hlen_div : insDiv.length = inp.G := by simp [hdiv, hip, hlen_cur]
  have hlen_comb : (List.zipWith o.combine (aget outside e.p).toList insDiv).length = inp.G := by
    simp [hop, hlen_div]
  have hcombj : ∀ j, j < inp.G → aget comb j
      = aget (aget outside e.p) j * o.ratio0 (aget (aget s.inside e.p) j)
          (smsg inp.toTreeModel.fixed inp.toTreeModel.lik (insI s.inside) e j / aget s.denom e.c) := by
    intro j hj
    rw [hcomb, aget_toArray, getD_zipWith _ _ _ _ (by simp [hop]; exact hj) (by rw [hlen_div]; exact hj),
      ho.combine, getD_toList, hdiv,
      getD_zipWith _ _ _ _ (by simp [hip]; exact hj) (by rw [hlen_cur]; exact hj), getD_toList, hcur,
      getD_map' _ _ _ (by rw [length_edgeMsg]; exact hj), ho.ratio,
      edgeMsg_lin o ho.toIsLinOps inp s.inside e hfrac (fun _ => hlik) j hj]
  -- pv in the `map f` form required by `msgUpper_spec`
  have hval : outVal o inp s std false outside (e.c, [e])
      = List.zipWith o.combine (List.replicate inp.G o.one)
          (msgUpper o inp.G ((gather comb (toUpperTri inp.G)).map (fun x => x / m1)) (aget inp.lik e.id)) := by
    unfold outVal
    simp only [List.foldl_cons, List.foldl_nil, outsideEdge, Bool.false_and, Bool.false_eq_true, if_false]
    congr 2
    rw [← hcur, ← hdiv, ← hcomb, ← hpv0]
    have hsc : pv0 = gather comb (toUpperTri inp.G) := by
      rw [hpv0, hfrac]
      conv_rhs => rw [← List.map_id (gather comb (toUpperTri inp.G))]
      apply List.map_congr_left
      intro x _
      exact ho.scale_one x
    cases std
    · simp only [Bool.false_eq_true, if_false, hm1]
      rw [hsc]
      conv_lhs => rw [← List.map_id (gather comb (toUpperTri inp.G))]
      apply List.map_congr_left
      intro x _
      simp
    · simp only [if_true, hm1]
      rw [hsc]
      apply List.map_congr_left
      intro x _
      rw [ho.ratio, ← hsc]
  have hvalt : (outVal o inp s std false outside (e.c, [e])).getD t default
      = sumR inp.G (fun a => if t ≤ a then
          aget comb a / m1 * inp.toTreeModel.lik e a t else 0) := by
    rw [hval, getD_zipWith _ _ _ _ (by simp; exact ht) (by rw [length_msgUpper]; exact ht),
      ho.combine, msgUpper_spec, getD_map_range _ _ ht, ho.sum]
    have hrep : (List.replicate inp.G o.one).getD t default = 1 := by
      simp [List.getD_eq_getElem?_getD, List.getElem?_replicate, ht, ho.one]
    rw [hrep, one_mul, ← sum_range'_eq_sumR _ t inp.G (le_of_lt ht)]
    congr 1
    apply List.map_congr_left
    intro j _
    rw [ho.combine]
    congr 1
    show aget (aget inp.lik e.id) (lowerIdx j t) = if aget inp.fixed e.c = true then _ else _
    rw [if_neg (by simp [hfix])]
  -- the row
  have hlenval : (outVal o inp s std false outside (e.c, [e])).length = inp.G := by
    rw [hval]; simp [length_msgUpper]
  set m2 : α := if std then o.maxl (outVal o inp s std false outside (e.c, [e])) else aget s.denom e.c
    with hm2
  have hrow : (outRow o inp s std false outside (e.c, [e])).getD t default
      = (outVal o inp s std false outside (e.c, [e])).getD t default / m2 := by
    unfold outRow
    cases std
    · simp only [Bool.false_eq_true, if_false, hm2]
      rw [getD_map' _ _ _ (by rw [hlenval]; exact ht), ho.ratio]
    · simp only [if_true, hm2]
      rw [getD_map' _ _ _ (by rw [hlenval]; exact ht), ho.ratio]
  rw [hrow, hvalt]
  have hterm : ∀ a, a < inp.G → (if t ≤ a then aget comb a / m1 * inp.toTreeModel.lik e a t else 0)
      = (1 / m1) * (if t ≤ a then aget (aget outside e.p) a
              * o.ratio0 (aget (aget s.inside e.p) a)
                  (smsg inp.toTreeModel.fixed inp.toTreeModel.lik (insI s.inside) e a / aget s.denom e.c)
              * inp.toTreeModel.lik e a t else 0) := by
    intro a ha
    split_ifs
    · rw [hcombj a ha]; ring
    · ring
  rw [sumR_congr inp.G _ _ hterm, sumR_mul_left]
  ring

end
end Tsdate.Discrete
