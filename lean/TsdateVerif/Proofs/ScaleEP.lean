/-
Scale equivariance of the expectation-propagation skeleton (`Model/Scale.lean` §4): natural parameters
`(shape − 1, rate)` have degrees (0, −1); `_damp`, `_rescale`, the per-node scale have degree 0; ages of
fixed nodes degree +1.  The projection kernels are assumed equivariant (`ProjEquivariant`).
-/
import TsdateVerif.Proofs.ScaleRescale

namespace Tsdate.Scale
set_option linter.unusedSectionVars false
set_option linter.unusedVariables false

variable {α : Type} [Field α] [LinearOrder α] [IsStrictOrderedRing α]

/-- natural parameters with the rate in the new unit -/
def rmul (k : α) (p : α × α) : α × α := (p.1, k * p.2)

def rmul2 (k : α) (f : (α × α) × (α × α)) : (α × α) × (α × α) := (rmul k f.1, rmul k f.2)

@[simp] theorem rmul_zero (k : α) : rmul k ((0 : α), (0 : α)) = (0, 0) := by simp [rmul]

theorem isZero_iff (x : α) : isZero x = true ↔ x = 0 := by
  unfold isZero
  simp only [Bool.and_eq_true, Bool.not_eq_true', decide_eq_false_iff_not, not_lt]
  exact ⟨fun h => le_antisymm h.2 h.1, fun h => by rw [h]; exact ⟨le_rfl, le_rfl⟩⟩

theorem isZero_mul (k : α) (hk : 0 < k) (x : α) : isZero (k * x) = isZero x := by
  apply Bool.eq_iff_iff.mpr
  rw [isZero_iff, isZero_iff]
  exact ⟨fun h => (mul_eq_zero.mp h).resolve_left (ne_of_gt hk), fun h => by rw [h, mul_zero]⟩

/-- **`_damp` is scale-free**: it only uses ratios of rates and comparisons of rates with rates. -/
theorem damp_invariant (k : α) (hk : 0 < k) (x y : α × α) (s : α) :
    damp (rmul k x) (rmul k y) s = damp x y s := by
  have hk0 : k ≠ 0 := ne_of_gt hk
  have h1 : (k * x.2 * s < k * x.2 - k * y.2) ↔ (x.2 * s < x.2 - y.2) := by
    rw [mul_assoc, ← mul_sub]; exact mul_lt_mul_iff_right₀ hk
  have h2 : (1 - s) * (k * x.2) / (k * y.2) = (1 - s) * x.2 / y.2 := by
    rw [← mul_assoc, mul_comm (1 - s) k, mul_assoc, mul_div_mul_left _ _ hk0]
  unfold damp
  simp only [rmul, isZero_mul k hk]
  refine if_congr Iff.rfl rfl ?_
  congr 1
  exact if_congr h1 rfl h2

/-- **`_rescale` is scale-free**: it only reads the shape. -/
theorem rescaleEta_invariant (k : α) (hk : 0 < k) (x : α × α) (s : α) :
    rescaleEta (rmul k x) s = rescaleEta x s := by
  unfold rescaleEta
  have h1 : (rmul k x).1 = x.1 := rfl
  have h2 : (rmul k x).2 = k * x.2 := rfl
  rw [h1, h2, isZero_mul k hk]

theorem sc2_rmul (k d : α) (x : α × α) : sc2 d (rmul k x) = rmul k (sc2 d x) := by
  simp only [sc2, rmul]; congr 1; ring

theorem sub2_rmul (k : α) (x y : α × α) : sub2 (rmul k x) (rmul k y) = rmul k (sub2 x y) := by
  simp only [sub2, rmul, mul_sub]

theorem add2_rmul (k : α) (x y : α × α) : add2 (rmul k x) (rmul k y) = rmul k (add2 x y) := by
  simp only [add2, rmul, mul_add]

theorem div2_rmul (k : α) (x : α × α) (d : α) : div2 (rmul k x) d = rmul k (div2 x d) := by
  simp only [div2, rmul, mul_div_assoc]

theorem getP_map (k : α) (xs : List (α × α)) (i : Nat) : getP (xs.map (rmul k)) i = rmul k (getP xs i) := by
  unfold getP
  induction xs generalizing i with
  | nil => simp
  | cons x xs ih => cases i with
    | zero => simp
    | succ i => simpa using ih i

theorem getF_map (k : α) (xs : List ((α × α) × (α × α))) (i : Nat) :
    getF (xs.map (rmul2 k)) i = rmul2 k (getF xs i) := by
  unfold getF
  induction xs generalizing i with
  | nil => simp [rmul2]
  | cons x xs ih => cases i with
    | zero => simp
    | succ i => simpa using ih i

/-- state of the scaled run -/
def EPState.rate (k : α) (s : EPState α) : EPState α :=
  { post := s.post.map (rmul k), edgeFac := s.edgeFac.map (rmul2 k), nodeFac := s.nodeFac.map (rmul k),
    scale := s.scale }

theorem zipWith_map_left' {γ δ : Type} (f : γ → δ → γ) (g : γ → γ) (h : ∀ a b, f (g a) b = g (f a b))
    (xs : List γ) (ys : List δ) : List.zipWith f (xs.map g) ys = (List.zipWith f xs ys).map g := by
  induction xs generalizing ys with
  | nil => simp
  | cons x xs ih => cases ys with
    | nil => simp
    | cons y ys => simp only [List.map_cons, List.zipWith_cons_cons, h, ih]

theorem rescaleFactors_rate (k : α) (edges : List (Nat × Nat)) (s : EPState α) :
    rescaleFactors edges (s.rate k) = (rescaleFactors edges s).rate k := by
  simp only [rescaleFactors, EPState.rate]
  have h1 := zipWith_map_left'
    (fun (f : (α × α) × (α × α)) (e : Nat × Nat) => (sc2 (nth s.scale e.1) f.1, sc2 (nth s.scale e.2) f.2))
    (rmul2 k) (by intro f e; simp only [rmul2, sc2_rmul]) s.edgeFac edges
  have h2 := zipWith_map_left' (fun (f : α × α) (sc : α) => sc2 sc f) (rmul k)
    (by intro f sc; exact sc2_rmul k sc f) s.nodeFac s.scale
  rw [h1, h2]

theorem absorb_rate (k : α) (hk : 0 < k) (maxShape : α) (s : EPState α) (ei : Nat) (rootSide : Bool)
    (u : Nat) (delta : α) (cavity newPost : α × α) :
    absorb maxShape (s.rate k) ei rootSide u delta (rmul k cavity) (rmul k newPost)
      = (absorb maxShape s ei rootSide u delta cavity newPost).rate k := by
  have hupd : ∀ old : α × α,
      add2 (sc2 (1 - delta) (rmul k old)) (div2 (sub2 (rmul k newPost) (rmul k cavity)) (nth s.scale u))
        = rmul k (add2 (sc2 (1 - delta) old) (div2 (sub2 newPost cavity) (nth s.scale u))) := by
    intro old
    rw [sc2_rmul, sub2_rmul, div2_rmul, add2_rmul]
  have hpost : modifyAt (fun _ => sc2 (rescaleEta newPost maxShape) (rmul k newPost)) u (s.post.map (rmul k))
      = (modifyAt (fun _ => sc2 (rescaleEta newPost maxShape) newPost) u s.post).map (rmul k) := by
    apply modifyAt_map
    intro x; exact sc2_rmul k _ _
  cases rootSide with
  | true =>
    have hfac : modifyAt (fun _ => (rmul k (add2 (sc2 (1 - delta) (getF s.edgeFac ei).1)
          (div2 (sub2 newPost cavity) (nth s.scale u))), rmul k (getF s.edgeFac ei).2)) ei (s.edgeFac.map (rmul2 k))
        = (modifyAt (fun _ => (add2 (sc2 (1 - delta) (getF s.edgeFac ei).1)
          (div2 (sub2 newPost cavity) (nth s.scale u)), (getF s.edgeFac ei).2)) ei s.edgeFac).map (rmul2 k) := by
      apply modifyAt_map
      intro x; rfl
    simp only [absorb, EPState.rate, getF_map, rescaleEta_invariant k hk, if_true, rmul2, hupd, hpost]
    rw [← hfac]
  | false =>
    have hfac : modifyAt (fun _ => (rmul k (getF s.edgeFac ei).1, rmul k (add2 (sc2 (1 - delta) (getF s.edgeFac ei).2)
          (div2 (sub2 newPost cavity) (nth s.scale u))))) ei (s.edgeFac.map (rmul2 k))
        = (modifyAt (fun _ => ((getF s.edgeFac ei).1, add2 (sc2 (1 - delta) (getF s.edgeFac ei).2)
          (div2 (sub2 newPost cavity) (nth s.scale u)))) ei s.edgeFac).map (rmul2 k) := by
      apply modifyAt_map
      intro x; rfl
    simp only [absorb, EPState.rate, getF_map, rescaleEta_invariant k hk, Bool.false_eq_true, if_false, rmul2,
      hupd, hpost]
    rw [← hfac]

/-- what is assumed of the moment-matching kernels of approx.py: rates in, rates out -/
structure ProjEquivariant (c k : α) (P : Projections α) : Prop where
  gamma : ∀ pi pj pij, P.gamma (rmul k pi) (rmul k pj) (rmul k pij)
      = (rmul k (P.gamma pi pj pij).1, rmul k (P.gamma pi pj pij).2)
  rootward : ∀ t pi pij, P.rootward (c * t) (rmul k pi) (rmul k pij) = rmul k (P.rootward t pi pij)
  leafward : ∀ t pj pij, P.leafward (c * t) (rmul k pj) (rmul k pij) = rmul k (P.leafward t pj pij)

theorem getD_map_ages (c : α) (ages : List (Option α)) (i : Nat) :
    (ages.map (Option.map (fun t => c * t))).getD i none = (ages.getD i none).map (fun t => c * t) := by
  induction ages generalizing i with
  | nil => simp
  | cons a as ih => cases i with
    | zero => simp
    | succ i => simpa using ih i

/-- **One edge update of `propagate_likelihood` is equivariant** (all four cases). -/
theorem edgeUpdate_rate (c k : α) (hc : 0 < c) (hk : 0 < k) (P : Projections α)
    (hP : ProjEquivariant c k P) (edges : List (Nat × Nat)) (lik : List (α × α))
    (fixedAge : List (Option α)) (maxShape minStep tiny : α) (s : EPState α) (ei : Nat) :
    edgeUpdate P edges (lik.map (rmul k)) (fixedAge.map (Option.map (fun t => c * t))) maxShape minStep tiny
        (s.rate k) ei
      = (edgeUpdate P edges lik fixedAge maxShape minStep tiny s ei).rate k := by
  unfold edgeUpdate
  simp only [getD_map_ages, getP_map]
  have hsc : (s.rate k).scale = s.scale := rfl
  rw [hsc]
  have hpre : (if (nth s.scale (edges.getD ei (0, 0)).1 < tiny || nth s.scale (edges.getD ei (0, 0)).2 < tiny) = true
        then rescaleFactors edges (s.rate k) else s.rate k)
      = (if (nth s.scale (edges.getD ei (0, 0)).1 < tiny || nth s.scale (edges.getD ei (0, 0)).2 < tiny) = true
        then rescaleFactors edges s else s).rate k := by
    split_ifs
    · exact rescaleFactors_rate k edges s
    · rfl
  rw [hpre]
  generalize (if (nth s.scale (edges.getD ei (0, 0)).1 < tiny || nth s.scale (edges.getD ei (0, 0)).2 < tiny) = true
        then rescaleFactors edges s else s) = s1
  have hs1 : (s1.rate k).scale = s1.scale := rfl
  have hpost : (s1.rate k).post = s1.post.map (rmul k) := rfl
  have hfac : (s1.rate k).edgeFac = s1.edgeFac.map (rmul2 k) := rfl
  rw [hs1, hpost, hfac, getF_map]
  cases hp : fixedAge.getD (edges.getD ei (0, 0)).1 none with
  | some tp =>
    cases hcc : fixedAge.getD (edges.getD ei (0, 0)).2 none with
    | some tc => simp only [Option.map_some]
    | none =>
      simp only [Option.map_some, Option.map_none, rmul2, getP_map, sc2_rmul, damp_invariant k hk,
        sub2_rmul, hP.leafward, absorb_rate k hk]
  | none =>
    cases hcc : fixedAge.getD (edges.getD ei (0, 0)).2 none with
    | some tc =>
      simp only [Option.map_some, Option.map_none, rmul2, getP_map, sc2_rmul, damp_invariant k hk,
        sub2_rmul, hP.rootward, absorb_rate k hk]
    | none =>
      simp only [Option.map_none, rmul2, getP_map, sc2_rmul, damp_invariant k hk,
        sub2_rmul, hP.gamma, absorb_rate k hk]

/-- the two halves run by the driver (with the real kernel's value in between) compose to `edgeUpdate` -/
theorem edgeUpdate_eq_post_pre (P : Projections α) (edges : List (Nat × Nat)) (lik : List (α × α))
    (fixedAge : List (Option α)) (maxShape minStep tiny : α) (s : EPState α) (ei : Nat) :
    edgeUpdate P edges lik fixedAge maxShape minStep tiny s ei
      = edgePost P maxShape ei (edgePre edges lik fixedAge minStep tiny s ei) := by
  simp only [edgeUpdate, edgePre, edgePost]
  generalize fixedAge.getD (edges.getD ei (0, 0)).1 none = a
  generalize fixedAge.getD (edges.getD ei (0, 0)).2 none = b
  cases a <;> cases b <;> rfl

/-- **A pass of `propagate_likelihood` over any edge order is equivariant** (induction over the order). -/
theorem likelihoodPass_rate (c k : α) (hc : 0 < c) (hk : 0 < k) (P : Projections α)
    (hP : ProjEquivariant c k P) (edges : List (Nat × Nat)) (lik : List (α × α))
    (fixedAge : List (Option α)) (maxShape minStep tiny : α) (order : List Nat) (s : EPState α) :
    likelihoodPass P edges (lik.map (rmul k)) (fixedAge.map (Option.map (fun t => c * t))) maxShape minStep tiny
        order (s.rate k)
      = (likelihoodPass P edges lik fixedAge maxShape minStep tiny order s).rate k := by
  unfold likelihoodPass
  induction order generalizing s with
  | nil => rfl
  | cons ei rest ih =>
    simp only [List.foldl_cons]
    rw [edgeUpdate_rate c k hc hk P hP]
    exact ih _

/-! ### `propagate_prior` -/

theorem absA_mul (k : α) (hk : 0 < k) (x : α) : absA (k * x) = k * absA x := by
  unfold absA
  by_cases h : x < 0
  · rw [if_pos h, if_pos (mul_neg_of_pos_of_neg hk h)]; ring
  · rw [if_neg h, if_neg (fun h' => h (by
      by_contra hx
      exact absurd h' (not_lt.mpr (mul_nonneg (le_of_lt hk) (not_lt.mp hx)))))]

theorem meanL_smul (ofNat : Nat → α) (k : α) (xs : List α) :
    meanL ofNat (smul k xs) = k * meanL ofNat xs := by
  simp only [meanL, sumL_smul, smul_length, mul_div_assoc]

theorem zipWith_emstep (k : α) (hk : k ≠ 0) (pen : α) (shape rate : List α) :
    List.zipWith (fun sh r => sh / (r + k * pen)) shape (smul k rate)
      = smul (1 / k) (List.zipWith (fun sh r => sh / (r + pen)) shape rate) := by
  induction shape generalizing rate with
  | nil => simp
  | cons sh shs ih =>
    cases rate with
    | nil => simp
    | cons r rs =>
      simp only [smul_cons, List.zipWith_cons_cons, ih]
      congr 1
      rw [← mul_add]
      by_cases hz : r + pen = 0
      · simp [hz]
      · field_simp

theorem emCont_rate (k : α) (hk : 0 < k) (pen reltol : α) (delta : Option α) :
    emCont (k * pen) reltol (delta.map (fun d => k * d)) = emCont pen reltol delta := by
  cases delta with
  | none => rfl
  | some d =>
    simp only [Option.map_some, emCont, absA_mul k hk, mul_assoc]
    exact decide_eq_decide.mpr (mul_lt_mul_iff_right₀ hk)

/-- the EM iteration for the penalty: the penalty and its increments are rates, the stopping rule
`|delta| > |penalty|·reltol` compares rate with rate -/
theorem emGo_rate (ofNat : Nat → α) (k : α) (hk : 0 < k) (shape rate : List α) (reltol : α) (maxitt : Nat)
    (fuel itt : Nat) (pen : α) (delta : Option α) :
    emGo ofNat shape (smul k rate) reltol maxitt fuel itt (k * pen) (delta.map (fun d => k * d))
      = k * emGo ofNat shape rate reltol maxitt fuel itt pen delta := by
  have hk0 : k ≠ 0 := ne_of_gt hk
  induction fuel generalizing itt pen delta with
  | zero => rfl
  | succ fuel ih =>
    unfold emGo
    rw [emCont_rate k hk]
    by_cases h1 : emCont pen reltol delta = true
    · simp only [h1, if_true]
      by_cases h2 : maxitt < itt
      · simp only [h2, if_true]
      · simp only [h2, if_false]
        have hd : 1 / meanL ofNat (List.zipWith (fun sh r => sh / (r + k * pen)) shape (smul k rate)) - k * pen
            = k * (1 / meanL ofNat (List.zipWith (fun sh r => sh / (r + pen)) shape rate) - pen) := by
          rw [zipWith_emstep k hk0, meanL_smul, mul_sub]
          congr 1
          by_cases hm : meanL ofNat (List.zipWith (fun sh r => sh / (r + pen)) shape rate) = 0
          · simp [hm]
          · field_simp
        rw [hd, ← mul_add]
        exact ih (itt + 1) _ (some _)
    · simp only [h1, Bool.false_eq_true, if_false]

theorem zipWith_div_rate (k : α) (hk : k ≠ 0) (shape rate : List α) :
    List.zipWith (· / ·) shape (smul k rate) = smul (1 / k) (List.zipWith (· / ·) shape rate) := by
  induction shape generalizing rate with
  | nil => simp
  | cons sh shs ih =>
    cases rate with
    | nil => simp
    | cons r rs =>
      simp only [smul_cons, List.zipWith_cons_cons, ih]
      congr 1
      by_cases hz : r = 0
      · simp [hz]
      · field_simp

/-- **The regularisation penalty is a rate.** -/
theorem priorPenalty_rate (ofNat : Nat → α) (k : α) (hk : 0 < k) (cavs : List (α × α)) (reltol : α)
    (maxitt : Nat) :
    priorPenalty ofNat (cavs.map (rmul k)) reltol maxitt = k * priorPenalty ofNat cavs reltol maxitt := by
  have hk0 : k ≠ 0 := ne_of_gt hk
  unfold priorPenalty
  have h1 : (cavs.map (rmul k)).map (fun x => x.1 + 1) = cavs.map (fun x => x.1 + 1) := by
    simp [rmul, List.map_map, Function.comp]
  have h2 : (cavs.map (rmul k)).map (fun x => x.2) = smul k (cavs.map (fun x => x.2)) := by
    simp [rmul, smul, List.map_map, Function.comp]
  simp only [h1, h2, zipWith_div_rate k hk0, meanL_smul]
  have h3 : ∀ m : α, 1 / (1 / k * m) = k * (1 / m) := by
    intro m
    by_cases hm : m = 0
    · simp [hm]
    · field_simp
  rw [h3]
  exact emGo_rate ofNat k hk _ _ reltol maxitt _ 0 _ none

theorem filter_free_map (k : α) (cav : List (α × α)) (free : List Bool) :
    (((cav.map (rmul k)).zip free).filter (fun x => x.2)).map (fun x => x.1)
      = (((cav.zip free).filter (fun x => x.2)).map (fun x => x.1)).map (rmul k) := by
  induction cav generalizing free with
  | nil => simp
  | cons x xs ih =>
    cases free with
    | nil => simp
    | cons f fs =>
      simp only [List.map_cons, List.zip_cons_cons, List.filter_cons]
      cases f with
      | true => simp only [if_true, List.map_cons, ih]
      | false => simp only [Bool.false_eq_true, if_false, ih]

theorem priorCavities_rate (k : α) (s : EPState α) :
    priorCavities (s.rate k) = (priorCavities s).map (rmul k) := by
  simp only [priorCavities, EPState.rate]
  generalize s.scale = scl
  generalize s.nodeFac = nf
  generalize s.post = po
  induction po generalizing nf scl with
  | nil => simp
  | cons p ps ih =>
    cases nf with
    | nil => simp
    | cons f fs =>
      cases scl with
      | nil => simp
      | cons sc scs =>
        simp only [List.map_cons, List.zip_cons_cons, List.zipWith_cons_cons, ih, sc2_rmul, sub2_rmul]

theorem priorNodeUpd_rate (k : α) (hk : 0 < k) (maxShape pen : α) (p f cv : α × α) (sc : α) (fr : Bool) :
    priorNodeUpd maxShape (k * pen) ((rmul k p, rmul k f), (rmul k cv, sc)) fr
      = (rmul k (priorNodeUpd maxShape pen ((p, f), (cv, sc)) fr).1,
         rmul k (priorNodeUpd maxShape pen ((p, f), (cv, sc)) fr).2.1,
         (priorNodeUpd maxShape pen ((p, f), (cv, sc)) fr).2.2) := by
  cases fr with
  | false => simp [priorNodeUpd]
  | true =>
    have hnp : ((rmul k p).1, (rmul k cv).2 + k * pen) = rmul k (p.1, cv.2 + pen) := by
      simp only [rmul, mul_add]
    simp only [priorNodeUpd, if_true, hnp, rescaleEta_invariant k hk, sc2_rmul, sub2_rmul, div2_rmul]

theorem priorRows_rate (k : α) (hk : 0 < k) (maxShape pen : α) (po nf cav : List (α × α)) (scl : List α)
    (free : List Bool) :
    List.zipWith (priorNodeUpd maxShape (k * pen))
        (((po.map (rmul k)).zip (nf.map (rmul k))).zip ((cav.map (rmul k)).zip scl)) free
      = (List.zipWith (priorNodeUpd maxShape pen) ((po.zip nf).zip (cav.zip scl)) free).map
          (fun r => (rmul k r.1, rmul k r.2.1, r.2.2)) := by
  induction po generalizing nf cav scl free with
  | nil => simp
  | cons p ps ih =>
    cases nf with
    | nil => simp
    | cons f fs =>
      cases cav with
      | nil => simp
      | cons cv cvs =>
        cases scl with
        | nil => simp
        | cons sc scs =>
          cases free with
          | nil => simp
          | cons fr frs =>
            simp only [List.map_cons, List.zip_cons_cons, List.zipWith_cons_cons, ih,
              priorNodeUpd_rate k hk]

/-- **`propagate_prior` is equivariant.** -/
theorem propagatePrior_rate (ofNat : Nat → α) (k : α) (hk : 0 < k) (free : List Bool) (maxShape reltol : α)
    (maxitt : Nat) (s : EPState α) :
    propagatePrior ofNat free maxShape reltol maxitt (s.rate k)
      = (propagatePrior ofNat free maxShape reltol maxitt s).rate k := by
  unfold propagatePrior
  by_cases hf : (!(free.any id)) = true
  · simp only [hf, if_true]
  · simp only [hf, Bool.false_eq_true, if_false]
    rw [priorCavities_rate, filter_free_map, priorPenalty_rate ofNat k hk]
    have hrows := priorRows_rate k hk maxShape
      (priorPenalty ofNat (((priorCavities s).zip free).filter (fun x => x.2) |>.map (fun x => x.1)) reltol maxitt)
      s.post s.nodeFac (priorCavities s) s.scale free
    simp only [EPState.rate] at hrows ⊢
    rw [hrows]
    simp only [List.map_map]
    rfl

/-- **A full EP iteration is equivariant.** -/
theorem epIterate_rate (c k : α) (hc : 0 < c) (hk : 0 < k) (P : Projections α) (hP : ProjEquivariant c k P)
    (ofNat : Nat → α) (edges : List (Nat × Nat)) (lik : List (α × α)) (fixedAge : List (Option α))
    (roots : List Bool) (regularise : Bool) (maxShape minStep tiny reltol : α) (maxitt : Nat)
    (order : List Nat) (s : EPState α) :
    epIterate P ofNat edges (lik.map (rmul k)) (fixedAge.map (Option.map (fun t => c * t))) roots regularise
        maxShape minStep tiny reltol maxitt order (s.rate k)
      = (epIterate P ofNat edges lik fixedAge roots regularise maxShape minStep tiny reltol maxitt order s).rate k := by
  unfold epIterate
  rw [likelihoodPass_rate c k hc hk P hP]
  cases regularise with
  | true => simp only [if_true, propagatePrior_rate ofNat k hk, rescaleFactors_rate]
  | false => simp only [Bool.false_eq_true, if_false, rescaleFactors_rate]

/-- **Any number of EP iterations** (induction over iterations). -/
theorem epRun_rate (c k : α) (hc : 0 < c) (hk : 0 < k) (P : Projections α) (hP : ProjEquivariant c k P)
    (ofNat : Nat → α) (edges : List (Nat × Nat)) (lik : List (α × α)) (fixedAge : List (Option α))
    (roots : List Bool) (regularise : Bool) (maxShape minStep tiny reltol : α) (maxitt : Nat)
    (order : List Nat) (n : Nat) (s : EPState α) :
    epRun P ofNat edges (lik.map (rmul k)) (fixedAge.map (Option.map (fun t => c * t))) roots regularise
        maxShape minStep tiny reltol maxitt order n (s.rate k)
      = (epRun P ofNat edges lik fixedAge roots regularise maxShape minStep tiny reltol maxitt order n s).rate k := by
  induction n generalizing s with
  | zero => rfl
  | succ n ih =>
    simp only [epRun]
    rw [epIterate_rate c k hc hk P hP]
    exact ih _

/-- **Posterior moments of the nodes**: means are times (×c), variances ×c². -/
theorem nodeMoments_rate (c k : α) (hk : c * k = 1) (fixedAge : List (Option α)) (post : List (α × α)) :
    nodeMoments (fixedAge.map (Option.map (fun t => c * t))) (post.map (rmul k))
      = (nodeMoments fixedAge post).map (fun mv => (c * mv.1, c * c * mv.2)) := by
  have hk0 : k ≠ 0 := fun h => by rw [h, mul_zero] at hk; exact zero_ne_one hk
  have hkinv : k = c⁻¹ := eq_inv_of_mul_eq_one_right hk
  have hc0 : c ≠ 0 := fun h => by rw [h, zero_mul] at hk; exact zero_ne_one hk
  unfold nodeMoments
  induction fixedAge generalizing post with
  | nil => simp
  | cons fa fas ih =>
    cases post with
    | nil => simp
    | cons p ps =>
      simp only [List.map_cons, List.zipWith_cons_cons, ih]
      congr 1
      cases fa with
      | some t => simp
      | none =>
        simp only [Option.map_none, rmul]
        by_cases hz : p.2 = 0
        · simp [hz]
        · rw [hkinv]; refine Prod.ext ?_ ?_ <;> simp <;> field_simp

end Tsdate.Scale
