/-
`posterior_exact` (C10), assembled.
-/
import TsdateVerif.Proofs.DiscretePostFinal
import TsdateVerif.Proofs.DiscreteFacts

namespace Tsdate.Discrete
open Tsdate

section
variable {α : Type} [Field α] [LinearOrder α] [IsStrictOrderedRing α] [Inhabited α]

theorem list_prod_ne_zero : ∀ l : List α, (∀ x ∈ l, x ≠ 0) → l.prod ≠ 0
  | [], _ => by simp
  | x :: l, h => by
    rw [List.prod_cons]
    exact mul_ne_zero (h x (List.mem_cons_self ..))
      (list_prod_ne_zero l (fun y hy => h y (List.mem_cons_of_mem _ hy)))

theorem outsideInit_facts (o : Ops α) (inp : Input α) (zero : α) (root : Nat)
    (hroots : inp.roots = [(root, 1)]) (hrf : aget inp.fixed root = false) (hrn : root < inp.numNodes) :
    (outsideInit o inp zero).size = inp.numNodes ∧
    (∀ u, u < inp.numNodes → aget inp.fixed u = false → (aget (outsideInit o inp zero) u).size = inp.G) ∧
    (∀ t, t < inp.G → aget (aget (outsideInit o inp zero) root) t = o.ofLin 1) := by
  unfold outsideInit
  rw [hroots]
  simp only [List.foldl_cons, List.foldl_nil, hrf, Bool.false_eq_true, if_false]
  set base : Array (Array α) := (Array.range inp.numNodes).map (fun u =>
    if aget inp.fixed u then #[] else Array.replicate inp.G zero) with hbase
  have hbsz : base.size = inp.numNodes := by simp [hbase]
  have hbu : ∀ u, u < inp.numNodes → aget inp.fixed u = false → aget base u = Array.replicate inp.G zero := by
    intro u hu hf
    have hget : base[u]? = some (if aget inp.fixed u then #[] else Array.replicate inp.G zero) := by
      simp [hbase, hu]
    show (base[u]?).getD default = _
    rw [hget, Option.getD_some, if_neg (by rw [hf]; simp)]
  refine ⟨by simp [hbsz], ?_, ?_⟩
  · intro u hu hf
    rw [aget_map_rows]
    by_cases hur : u = root
    · rw [hur, aget_aset_same _ _ _ (by rw [hbsz]; exact hrn)]; simp
    · rw [aget_aset_other _ _ _ _ hur, hbu u hu hf]; simp
  · intro t ht
    rw [aget_map_rows, aget_aset_same _ _ _ (by rw [hbsz]; exact hrn)]
    simp [aget, ht]

/-- **`posterior_exact` (linear space).**  Single tree, span fractions 1, non-zero denominators and
standardisers, non-negative inside rows and likelihood tables.  For every non-fixed node `v`:
`inside[v][t] * outside[v][t] = κ_v * bruteMarginal v t` for all `t < G` with `κ_v ≠ 0`. -/
theorem posterior_exact_lin (o : Ops α) (ho : IsLinOpsOut o) (inp : Input α) (stdIn stdOut : Bool)
    (order : List DEdge) (zero : α)
    (hok : singleTreeOK inp = true) (hoo : outsideOK inp order = true)
    (hfrac : ∀ e ∈ inp.edges, aget inp.frac e.id = 1)
    (hroots : inp.roots = [(rootOf inp, 1)])
    (hd : ∀ g ∈ groupRuns (·.p) inp.edges, aget (insidePass o inp stdIn).1.denom g.1 ≠ 0)
    (hInn : ∀ g ∈ groupRuns (·.p) inp.edges, ∀ b, b < inp.G →
      0 ≤ aget (aget (insidePass o inp stdIn).1.inside g.1) b)
    (hLnn : ∀ e ∈ inp.edges, ∀ a b, a < inp.G → b ≤ a → 0 ≤ inp.toTreeModel.lik e a b)
    (hnorm : stdOut = true → ∀ e ∈ inp.edges, aget inp.fixed e.c = false →
      o.maxl ((gather (List.zipWith o.combine
          (aget (outsidePass o inp (insidePass o inp stdIn).1 stdOut false order zero) e.p).toList
          (List.zipWith o.ratio0 (aget (insidePass o inp stdIn).1.inside e.p).toList
            ((edgeMsg o inp (insidePass o inp stdIn).1.inside e).map
              (fun v => o.ratio v (aget (insidePass o inp stdIn).1.denom e.c))))).toArray
          (toUpperTri inp.G)).map (o.scale (aget inp.frac e.id))) ≠ 0 ∧
      o.maxl (outVal o inp (insidePass o inp stdIn).1 stdOut false
        (outsidePass o inp (insidePass o inp stdIn).1 stdOut false order zero) (e.c, [e])) ≠ 0) :
    ∀ g ∈ groupRuns (·.p) inp.edges, ∃ κ : α, κ ≠ 0 ∧ ∀ t, t < inp.G →
      aget (aget (insidePass o inp stdIn).1.inside g.1) t
        * aget (aget (outsidePass o inp (insidePass o inp stdIn).1 stdOut false order zero) g.1) t
      = κ * bruteMarginal inp.toTreeModel g.1 t := by
  obtain ⟨hne, hgrp, hflat, hedge, tree, hnodes, hedges⟩ :=
    single_tree_facts o ho.toIsLinOps inp stdIn hok hfrac hd
  set gs := groupRuns (·.p) inp.edges with hgs
  set fin := (insidePass o inp stdIn).1 with hfin
  set out := outsidePass o inp fin stdOut false order zero with hout
  set cg := groupRuns (·.c) order with hcg
  -- unpack the outside order hypothesis
  unfold outsideOK at hoo
  simp only [Bool.and_eq_true, List.all_eq_true, Bool.or_eq_true, List.contains_iff_mem] at hoo
  obtain ⟨⟨hcgok, hcgsingle⟩, hcgall⟩ := hoo
  rw [← hcg] at hcgok hcgsingle hcgall
  -- root facts
  have hroot : rootOf inp = (gs.getLast hne).1 := by
    unfold rootOf
    rw [← hgs, List.getLast?_eq_some_getLast hne]
    rfl
  have hlast : gs.getLast hne ∈ gs := List.getLast_mem hne
  obtain ⟨hinit_sz, hinit_rows, hinit_root⟩ := outsideInit_facts o inp zero (rootOf inp) hroots
    (by rw [hroot]; exact (hgrp _ hlast).1) (by rw [hroot]; exact (hgrp _ hlast).2.1)
  have houtdef : out = outsideFold o inp fin stdOut false cg (outsideInit o inp zero) := rfl
  -- every parent's outside row has length G
  have hrowG : ∀ g ∈ gs, (aget out g.1).size = inp.G := by
    intro g hg
    rw [houtdef]
    exact outsideFold_rowsize o inp fin stdOut false cg _ g.1
      (hinit_rows g.1 (hgrp g hg).2.1 (hgrp g hg).1)
  -- the root row is never written
  have hrootrow : ∀ t, t < inp.G → aget (aget out (rootOf inp)) t = 1 := by
    intro t ht
    rw [houtdef, outsideFold_other o inp fin stdOut false cg _ (rootOf inp), hinit_root t ht,
      ho.ofLin_one]
    intro g hg hfg heq
    have hs := hcgsingle g hg
    rcases hs with hs | hs
    · rw [hfg] at hs; cases hs
    · match hg2 : g.2, hs with
      | [e], hs =>
        simp only [Bool.and_eq_true, beq_iff_eq, List.contains_iff_mem] at hs
        have hec : e.c = rootOf inp := by rw [hs.1, ← heq]
        have hnc := root_not_child inp.G _ _ _ _ _ gs hne tree e (by rw [hflat]; exact hs.2)
          (by show aget inp.fixed e.c = false; rw [hs.1]; exact hfg)
        exact hnc (by rw [hec, hroot])
  -- the outside equations of the code
  have spec := outsideFold_spec o inp fin stdOut false cg (outsideInit o inp zero)
    (by rw [hinit_sz]; exact hcgok)
  rw [← houtdef] at spec
  have hdne : ∀ g ∈ gs, aget fin.denom g.1 ≠ 0 := hd
  have houteq : ∀ e ∈ gs.flatMap (·.2), inp.toTreeModel.fixed e.c = false →
      OutEqAt inp.G inp.toTreeModel.fixed inp.toTreeModel.lik (insI fin.inside)
        (fun u => aget fin.denom u) (insI out) e := by
    intro e he hfc
    rw [hflat] at he
    have hfc' : aget inp.fixed e.c = false := hfc
    obtain ⟨hlik, hcpar⟩ := hedge e he hfc'
    have hgmem : (e.c, [e]) ∈ cg := by
      rcases hcgall e he with h | h
      · rw [hfc'] at h; cases h
      · exact h
    have hrow := spec (e.c, [e]) hgmem hfc'
    -- the parent of `e` is a parent group
    have hep : ∃ g ∈ gs, g.1 = e.p := by
      have : e ∈ gs.flatMap (·.2) := by rw [hflat]; exact he
      obtain ⟨g, hg, heg⟩ := List.mem_flatMap.mp this
      exact ⟨g, hg, ((groupRuns_key (·.p) inp.edges) g hg e heg).symm⟩
    obtain ⟨gp, hgp, hgpe⟩ := hep
    obtain ⟨gc, hgc, hgce⟩ := List.mem_map.mp hcpar
    have hdc : aget fin.denom e.c ≠ 0 := by rw [← hgce]; exact hdne gc hgc
    have hsingle := fun t ht => outRow_single_lin o ho inp fin stdOut out e (hfrac e he) hfc' hlik
      (by rw [← hgpe]; exact hrowG gp hgp) (by rw [← hgpe]; exact (hgrp gp hgp).2.2) t ht
    -- the two normalisers
    set m1 : α := if stdOut then o.maxl ((gather (List.zipWith o.combine (aget out e.p).toList
          (List.zipWith o.ratio0 (aget fin.inside e.p).toList
            ((edgeMsg o inp fin.inside e).map (fun v => o.ratio v (aget fin.denom e.c))))).toArray
          (toUpperTri inp.G)).map (o.scale (aget inp.frac e.id))) else 1 with hm1
    set m2 : α := if stdOut then o.maxl (outVal o inp fin stdOut false out (e.c, [e]))
      else aget fin.denom e.c with hm2
    have hm1ne : m1 ≠ 0 := by
      rw [hm1]
      by_cases hstd : stdOut = true
      · rw [if_pos hstd]; exact (hnorm hstd e he hfc').1
      · rw [if_neg hstd]; exact one_ne_zero
    have hm2ne : m2 ≠ 0 := by
      rw [hm2]
      by_cases hstd : stdOut = true
      · rw [if_pos hstd]; exact (hnorm hstd e he hfc').2
      · rw [if_neg hstd]; exact hdc
    refine ⟨m2 * m1, fun a => o.ratio0 (aget (aget fin.inside e.p) a)
      (smsg inp.toTreeModel.fixed inp.toTreeModel.lik (insI fin.inside) e a / aget fin.denom e.c),
      mul_ne_zero hm2ne hm1ne, ?_, ?_⟩
    · intro a _ hμ
      show o.ratio0 (aget (aget fin.inside e.p) a)
        (smsg inp.toTreeModel.fixed inp.toTreeModel.lik (insI fin.inside) e a / aget fin.denom e.c) = _
      rw [ho.ratio0_ne _ _ (div_ne_zero hμ hdc)]
      rfl
    · intro t ht
      obtain ⟨m1', m2', h1, h2, hmain⟩ := hsingle t ht
      subst h1 h2
      rw [div_self hm1ne, div_self hm2ne, one_mul, one_mul] at hmain
      have hO : insI out e.c t = (outRow o inp fin stdOut false out (e.c, [e])).getD t default := by
        unfold insI
        rw [hrow, aget_toArray]
      rw [hO]
      show m2 * m1 * _ = sumR inp.G (fun a => if t ≤ a then
            aget (aget out e.p) a
              * o.ratio0 (aget (aget fin.inside e.p) a)
                  (smsg inp.toTreeModel.fixed inp.toTreeModel.lik (insI fin.inside) e a / aget fin.denom e.c)
              * inp.toTreeModel.lik e a t else 0)
      rw [← hmain]
      ring
  -- now the node
  intro gv hgv
  obtain ⟨A, B, hsplit⟩ := List.append_of_mem hgv
  have hsuf : TreeOK inp.G inp.toTreeModel.fixed inp.toTreeModel.prior inp.toTreeModel.lik
      (insI fin.inside) (fun u => aget fin.denom u) (gv :: B) :=
    TreeOK.suffix _ _ _ _ _ _ A (gv :: B) (hsplit ▸ tree)
  have hBsub : ∀ g ∈ gv :: B, g ∈ gs := by
    intro g hg; rw [hsplit]; exact List.mem_append_right _ hg
  have hrootB : rootOf inp = ((gv :: B).getLast (by simp)).1 := by
    rw [hroot]
    congr 1
    simp only [hsplit]
    rw [List.getLast_append_of_ne_nil]
  obtain ⟨κ', hκ', hk⟩ := post_vs_outU inp.G inp.toTreeModel.fixed inp.toTreeModel.prior
    inp.toTreeModel.lik (insI fin.inside) (fun u => aget fin.denom u) (insI out) (rootOf inp) 1
    one_ne_zero hrootrow B gv hsuf (fun g hg => hdne g (hBsub g hg))
    (fun g hg b hb => hInn g (hBsub g hg) b hb)
    (fun e he a b ha hb => hLnn e (by
      rw [← hflat, hsplit, List.flatMap_append, List.flatMap_cons]
      exact List.mem_append_right _ (List.mem_append_right _ he)) a b ha hb)
    hrootB
    (fun e he hfc => houteq e (by
      rw [hsplit, List.flatMap_append, List.flatMap_cons]
      exact List.mem_append_right _ (List.mem_append_right _ he)) hfc)
  -- the exact marginal
  have hlive : ∀ e ∈ gs.flatMap (·.2), inp.toTreeModel.fixed e.c = true ∨ e.c ∈ gs.map (·.1) := by
    intro e he
    rw [hflat] at he
    by_cases hf : aget inp.fixed e.c = true
    · exact Or.inl hf
    · exact Or.inr (hedge e he (by simpa using hf)).2
  have hprod : (gs.map (fun g => aget fin.denom g.1)).prod ≠ 0 := by
    apply list_prod_ne_zero
    intro x hx
    obtain ⟨g, hg, rfl⟩ := List.mem_map.mp hx
    exact hdne g hg
  refine ⟨κ' / (gs.map (fun g => aget fin.denom g.1)).prod, div_ne_zero hκ' hprod, fun t ht => ?_⟩
  have hmarg : bruteMarginal inp.toTreeModel gv.1 t
      = (gs.map (fun g => aget fin.denom g.1)).prod
          * (insI fin.inside gv.1 t * outU inp.G inp.toTreeModel.fixed inp.toTreeModel.prior
              inp.toTreeModel.lik (insI fin.inside) (fun u => aget fin.denom u) B gv.1 t) := by
    unfold bruteMarginal
    rw [sumAssign_eq_sumA, hnodes]
    have hfun : (fun x : Nat → Nat => if x gv.1 = t then weight inp.toTreeModel x else 0)
        = (fun x => Wt inp.toTreeModel.fixed inp.toTreeModel.prior inp.toTreeModel.lik (gs.map (·.1))
            (insI fin.inside) gs x * (fun s => if s = t then (1 : α) else 0) (x gv.1)) := by
      funext x
      rw [weight_eq_Wt inp.toTreeModel gs (insI fin.inside) hnodes hedges
        (fun e he => by rw [hedges] at he; rw [hnodes]; exact hlive e he) x]
      simp only
      split_ifs <;> ring
    rw [hfun]
    have hma := marginal_abstract inp.G inp.toTreeModel.fixed inp.toTreeModel.prior
      inp.toTreeModel.lik (insI fin.inside) (fun u => aget fin.denom u) A B gv (hsplit ▸ tree)
      (fun g hg => hdne g (hsplit ▸ hg)) (by rw [← hsplit]; exact hlive)
      (fun s => if s = t then (1 : α) else 0) (fun _ => 0)
    rw [← hsplit] at hma
    refine hma.trans ?_
    congr 1
    have : (fun s => insI fin.inside gv.1 s * (if s = t then (1 : α) else 0)
          * outU inp.G inp.toTreeModel.fixed inp.toTreeModel.prior inp.toTreeModel.lik
              (insI fin.inside) (fun u => aget fin.denom u) B gv.1 s)
        = (fun s => if s = t then insI fin.inside gv.1 s
          * outU inp.G inp.toTreeModel.fixed inp.toTreeModel.prior inp.toTreeModel.lik
              (insI fin.inside) (fun u => aget fin.denom u) B gv.1 s else 0) := by
      funext s; split_ifs <;> ring
    rw [this, sumR_delta inp.G t ht]
  rw [hmarg]
  have := hk t ht
  unfold insI at this ⊢
  rw [this]
  field_simp

end
end Tsdate.Discrete
