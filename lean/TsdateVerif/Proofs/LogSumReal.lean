/-
C26: the real logarithm satisfies the log-sum hypothesis of `pelt_optimal_unconstrained`.
-/
import Mathlib.Analysis.Convex.SpecificFunctions.Basic
import Mathlib.Analysis.SpecialFunctions.Log.Basic
import TsdateVerif.Proofs.PoissonLoss

namespace Tsdate.Changepoints

/-- the real logarithm satisfies the two-term log-sum inequality (Jensen for the concave `log`) -/
theorem logSum_real : LogSum Real.log := by
  intro a b c d ha hb hc hd
  have hac : 0 < a + c := by linarith
  have hbd : 0 < b + d := by linarith
  have hconc := strictConcaveOn_log_Ioi.concaveOn
  have hw1 : 0 ≤ a / (a + c) := by positivity
  have hw2 : 0 ≤ c / (a + c) := by positivity
  have hw : a / (a + c) + c / (a + c) = 1 := by field_simp
  have hx1 : b / a ∈ Set.Ioi (0 : ℝ) := by simp [Set.mem_Ioi]; positivity
  have hx2 : d / c ∈ Set.Ioi (0 : ℝ) := by simp [Set.mem_Ioi]; positivity
  have key := hconc.2 hx1 hx2 hw1 hw2 hw
  simp only [smul_eq_mul] at key
  have e : a / (a + c) * (b / a) + c / (a + c) * (d / c) = (b + d) / (a + c) := by
    field_simp
  rw [e, Real.log_div hb.ne' ha.ne', Real.log_div hd.ne' hc.ne', Real.log_div hbd.ne' hac.ne'] at key
  -- multiply by (a + c) > 0
  have := mul_le_mul_of_nonneg_left key hac.le
  have e2 : (a + c) * (a / (a + c) * (Real.log b - Real.log a) + c / (a + c) * (Real.log d - Real.log c))
      = a * (Real.log b - Real.log a) + c * (Real.log d - Real.log c) := by
    field_simp
  rw [e2] at this
  nlinarith [this]

end Tsdate.Changepoints
