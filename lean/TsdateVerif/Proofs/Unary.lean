/-
Lemmas for C30: the child counters of `_contains_unary_nodes` equal the number of children in the
local tree (via the sweep rule), and the end-point characterisation used by
`has_locally_unary_nodes`.
-/
import Mathlib.Tactic.Ring
import Mathlib.Tactic.Linarith
import Mathlib.Tactic.NormNum
import TsdateVerif.Proofs.SweepRule
import TsdateVerif.Model.Unary

namespace Tsdate.Unary
open Tsdate Tsdate.Sweep
set_option linter.unusedSectionVars false
set_option linter.unusedVariables false

theorem countP_split {β : Type} (A B : β → Bool) (l : List β)
    (h : ∀ e ∈ l, B e = true → A e = true) :
    l.countP A = l.countP B + l.countP (fun e => A e && !B e) := by
  induction l with
  | nil => simp
  | cons a r ih =>
    have ih' := ih (fun e he => h e (List.mem_cons_of_mem _ he))
    have ha := h a (List.mem_cons_self ..)
    simp only [List.countP_cons]
    cases hA : A a <;> cases hB : B a <;> simp_all <;> omega

section
variable {α : Type} [Inhabited α] [LinearOrder α] [OfNat α 0]

/-- The statement of C30 for a mask: some position has an unmasked node with exactly one child. -/
def UnarySpec (T : Tables α) (mask : Array Bool) : Prop :=
  ∃ pos p, aget mask p = false ∧ numChildrenAt T pos p = 1

/-- Counting inserted minus removed edges of a parent gives its number of children at `pos`, as soon
as the consumed prefixes of the indexes are exactly the edges starting / ending at or before `pos`. -/
theorem children_count (T : Tables α) (hV : Valid T) (pos : α) (p : Nat)
    (insD insR remD remR : List Nat)
    (hins : T.ins = insD ++ insR) (hrem : T.rem = remD ++ remR)
    (h1 : ∀ e ∈ insD, T.l e ≤ pos) (h2 : ∀ e ∈ insR, pos < T.l e)
    (h3 : ∀ e ∈ remD, T.r e ≤ pos) (h4 : ∀ e ∈ remR, pos < T.r e) :
    (insD.countP (fun e => T.par e == p) : Int) - (remD.countP (fun e => T.par e == p) : Int)
      = (numChildrenAt T pos p : Int) := by
  set A : Nat → Bool := fun e => T.par e == p && decide (T.l e ≤ pos) with hA
  set B : Nat → Bool := fun e => T.par e == p && decide (T.r e ≤ pos) with hB
  have e1 : insD.countP (fun e => T.par e == p) = (List.range T.numEdges).countP A := by
    rw [← hV.insPerm.countP_eq A, hins, List.countP_append]
    have : insR.countP A = 0 := by
      rw [List.countP_eq_zero]
      intro e he
      simp [hA, not_le.mpr (h2 e he)]
    rw [this, Nat.add_zero]
    apply List.countP_congr
    intro e he
    simp [hA, h1 e he]
  have e2 : remD.countP (fun e => T.par e == p) = (List.range T.numEdges).countP B := by
    rw [← hV.remPerm.countP_eq B, hrem, List.countP_append]
    have : remR.countP B = 0 := by
      rw [List.countP_eq_zero]
      intro e he
      simp [hB, not_le.mpr (h4 e he)]
    rw [this, Nat.add_zero]
    apply List.countP_congr
    intro e he
    simp [hB, h3 e he]
  have e3 := countP_split A B (List.range T.numEdges) (by
    intro e he hBe
    have g := hV.geom e (List.mem_range.mp he)
    simp only [hB, Bool.and_eq_true, decide_eq_true_eq] at hBe
    simp only [hA, Bool.and_eq_true, decide_eq_true_eq]
    exact ⟨hBe.1, le_trans (le_of_lt g.2.1) hBe.2⟩)
  have e4 : (List.range T.numEdges).countP (fun e => A e && !B e) = numChildrenAt T pos p := by
    unfold numChildrenAt
    apply List.countP_congr
    intro e he
    simp only [hA, hB]
    by_cases hp : T.par e = p <;> by_cases hl : T.l e ≤ pos <;> by_cases hr : T.r e ≤ pos <;>
      simp [hp, hl, hr, not_lt.mpr, not_le.mp]
  rw [e1, e2, e3, e4]
  push_cast
  ring

theorem numChildrenAt_eq_zero (T : Tables α) (pos : α) (p : Nat)
    (h : ∀ e, e < T.numEdges → T.par e = p → ¬ (T.l e ≤ pos ∧ pos < T.r e)) :
    numChildrenAt T pos p = 0 := by
  unfold numChildrenAt
  rw [List.countP_eq_zero]
  intro e he
  have := h e (List.mem_range.mp he)
  by_cases hp : T.par e = p
  · have := this hp
    simp only [Bool.and_eq_true, beq_iff_eq, decide_eq_true_eq, not_and]
    intro _ hl
    exact fun hr => this ⟨hl, hr⟩
  · simp [hp]

theorem aget_bump (T : Tables α) (d : Int) (s : St) (e : Nat) (h : T.par e < s.children.size)
    (p : Nat) :
    aget (bump T d s e).children p = aget s.children p + (if p = T.par e then d else 0) := by
  unfold bump
  simp only [aget_aset _ _ _ _ h]
  split_ifs with hp
  · subst hp; rfl
  · simp

theorem bump_check (T : Tables α) (d : Int) (s : St) (e : Nat) :
    (bump T d s e).check = T.par e :: s.check := rfl

theorem bump_found (T : Tables α) (d : Int) (s : St) (e : Nat) :
    (bump T d s e).found = s.found := rfl

theorem bump_size (T : Tables α) (d : Int) (s : St) (e : Nat) :
    (bump T d s e).children.size = s.children.size := by
  unfold bump; simp

/-- The part of the kernel invariant shared by the loop head and the inner loops. -/
structure Core (T : Tables α) (mask : Array Bool) (N : Nat) (x : α) (insD remD : List Nat) (s : St) :
    Prop where
  size : s.children.size = N
  kids : ∀ p, aget s.children p =
    (insD.countP (fun e => T.par e == p) : Int) - (remD.countP (fun e => T.par e == p) : Int)
  notFound : s.found = false
  before : ∀ pos, pos < x → ∀ p, aget mask p = false → numChildrenAt T pos p ≠ 1

theorem containsUnary_correct (T : Tables α) (mask : Array Bool) (N : Nat) (hV : Valid T)
    (hN : ∀ e, e < T.numEdges → T.par e < N) :
    ∃ b, containsUnary T mask N = some b ∧ (b = true ↔ UnarySpec T mask) := by
  let Hd : α → List Nat → List Nat → St → Prop := fun x insD remD s =>
    Core T mask N x insD remD s ∧ ∀ p, aget mask p = false → aget s.children p ≠ 1
  let Dr : α → List Nat → List Nat → St → Prop := fun x insD remD s =>
    Core T mask N x insD remD s ∧ ∀ p, aget mask p = false → p ∉ s.check → aget s.children p ≠ 1
  let Post : St → Prop := fun s => (s.found = true ↔ UnarySpec T mask)
  have key := sweep_rule T hV (hooks T mask) Hd Dr Post
    { children := Array.replicate N 0, check := [], found := false }
  obtain ⟨s', hs', hpost⟩ := key
    (by -- init
      refine ⟨⟨by simp, ?_, rfl, ?_⟩, ?_⟩
      · intro p; simp [aget]
        by_cases hp : p < N <;> simp [hp]
      · intro pos hpos p _
        rw [numChildrenAt_eq_zero]; · simp
        intro e he _ h
        exact absurd (lt_of_le_of_lt (le_trans (hV.geom e he).1 h.1) hpos) (lt_irrefl _)
      · intro p _
        simp [aget]
        by_cases hp : p < N <;> simp [hp])
    (by -- head
      intro x insD remD s ⟨hC, hQ⟩
      exact ⟨⟨hC.size, hC.kids, hC.notFound, hC.before⟩, fun p hm _ => hQ p hm⟩)
    (by -- remove
      intro x insD insR remD e remR s F ⟨hC, hQ⟩
      have heE : e < T.numEdges := hV.mem_rem.mp (by rw [F.hrem]; simp)
      have hpar : T.par e < s.children.size := by rw [hC.size]; exact hN e heE
      refine ⟨⟨by rw [show ((hooks T mask).remove x s e) = bump T (-1) s e from rfl, bump_size]; exact hC.size,
        ?_, hC.notFound, hC.before⟩, ?_⟩
      · intro p
        show aget (bump T (-1) s e).children p = _
        rw [aget_bump T (-1) s e hpar p, hC.kids p, List.countP_append, List.countP_singleton]
        by_cases hp : p = T.par e
        · subst hp; simp; ring
        · have : (T.par e == p) = false := by simpa using (Ne.symm hp)
          simp [hp, this]
      · intro p hm hnc
        have hnc' : p ∉ T.par e :: s.check := hnc
        have hp : p ≠ T.par e := fun h => hnc' (by simp [h])
        show aget (bump T (-1) s e).children p ≠ 1
        rw [aget_bump T (-1) s e hpar p, if_neg hp, add_zero]
        exact hQ p hm (fun h => hnc' (List.mem_cons_of_mem _ h)))
    (by -- insert
      intro x insD e insR remD remR s F ⟨hC, hQ⟩
      have heE : e < T.numEdges := hV.mem_ins.mp (by rw [F.hins]; simp)
      have hpar : T.par e < s.children.size := by rw [hC.size]; exact hN e heE
      refine ⟨⟨by rw [show ((hooks T mask).insert x s e) = bump T 1 s e from rfl, bump_size]; exact hC.size,
        ?_, hC.notFound, hC.before⟩, ?_⟩
      · intro p
        show aget (bump T 1 s e).children p = _
        rw [aget_bump T 1 s e hpar p, hC.kids p, List.countP_append, List.countP_singleton]
        by_cases hp : p = T.par e
        · subst hp; simp; ring
        · have : (T.par e == p) = false := by simpa using (Ne.symm hp)
          simp [hp, this]
      · intro p hm hnc
        have hnc' : p ∉ T.par e :: s.check := hnc
        have hp : p ≠ T.par e := fun h => hnc' (by simp [h])
        show aget (bump T 1 s e).children p ≠ 1
        rw [aget_bump T 1 s e hpar p, if_neg hp, add_zero]
        exact hQ p hm (fun h => hnc' (List.mem_cons_of_mem _ h)))
    (by -- advance
      intro x x' insD insR remD remR s F ⟨hC, hQ⟩
      -- the counters are the numbers of children at every position of [x, x') and at x itself
      have hcnt : ∀ pos, x ≤ pos → (pos < x' ∨ (pos = x ∧ insR = [] ∧ remR = [])) → ∀ p,
          aget s.children p = (numChildrenAt T pos p : Int) := by
        intro pos h1 h2 p
        rw [hC.kids p]
        apply children_count T hV pos p insD insR remD remR F.hins F.hrem
        · exact fun e he => le_trans (F.insD_le e he) h1
        · intro e he
          rcases h2 with h2 | ⟨_, h2, _⟩
          · exact lt_of_lt_of_le h2 (F.insR_ge e he)
          · rw [h2] at he; simp at he
        · exact fun e he => le_trans (F.remD_le e he) h1
        · intro e he
          rcases h2 with h2 | ⟨_, _, h2⟩
          · exact lt_of_lt_of_le h2 (F.remR_ge e he)
          · rw [h2] at he; simp at he
      have hx : x < x' ∨ (x = x ∧ insR = [] ∧ remR = []) := by
        by_cases h : insR ≠ [] ∨ remR ≠ []
        · exact Or.inl (F.lt h)
        · simp only [not_or, ne_eq, not_not] at h
          exact Or.inr ⟨rfl, h.1, h.2⟩
      constructor
      · -- early return: a witness
        intro hstop
        have hf : (test mask s).found = true := hstop
        show (test mask s).found = true ↔ _
        simp only [hf, true_iff]
        simp only [test, List.any_eq_true, Bool.and_eq_true, Bool.not_eq_true', beq_iff_eq] at hf
        obtain ⟨p, _, hm, h1⟩ := hf
        refine ⟨x, p, hm, ?_⟩
        have := hcnt x (le_refl _) hx p
        rw [h1] at this
        exact_mod_cast this.symm
      · intro hstop
        have hf : (test mask s).found = false := hstop
        have hall : ∀ p, aget mask p = false → aget s.children p ≠ 1 := by
          intro p hm
          by_cases hc : p ∈ s.check
          · simp only [test, List.any_eq_false, Bool.and_eq_true, Bool.not_eq_true', beq_iff_eq,
              not_and] at hf
            exact hf p hc hm
          · exact hQ p hm hc
        refine ⟨⟨hC.size, hC.kids, hf, ?_⟩, hall⟩
        intro pos hpos p hm
        by_cases h : pos < x
        · exact hC.before pos h p hm
        · have := hcnt pos (not_lt.mp h) (Or.inl hpos) p
          intro h1
          rw [h1] at this
          exact hall p hm (by exact_mod_cast this))
    (by -- exit
      intro x s hall _ ⟨hC, _⟩
      show s.found = true ↔ _
      rw [hC.notFound]
      simp only [Bool.false_eq_true, false_iff]
      rintro ⟨pos, p, hm, h1⟩
      by_cases h : pos < x
      · exact hC.before pos h p hm h1
      · rw [numChildrenAt_eq_zero] at h1; · simp at h1
        intro e he _ hh
        exact absurd (lt_of_lt_of_le hh.2 (le_trans (hall e he) (not_lt.mp h))) (lt_irrefl _))
  refine ⟨s'.found, ?_, hpost⟩
  unfold containsUnary
  rw [hs']
  rfl

theorem parents_below (T : Tables α) (N : Nat) (h : nodesBelowB T N = true) :
    ∀ e, e < T.numEdges → T.par e < N := by
  intro e he
  simp only [nodesBelowB, List.all_eq_true, List.mem_range, Bool.and_eq_true,
    decide_eq_true_eq] at h
  exact (h e he).1

end

/-! ### `has_locally_unary_nodes`: testing parents at their edges' end points is enough -/

section
variable {α : Type} [Inhabited α] [LinearOrder α]

theorem exists_max_of_ne_nil : ∀ (l : List α), l ≠ [] → ∃ y ∈ l, ∀ z ∈ l, z ≤ y
  | [], h => absurd rfl h
  | [a], _ => ⟨a, by simp, by simp⟩
  | a :: b :: r, _ => by
    obtain ⟨y, hy, hmax⟩ := exists_max_of_ne_nil (b :: r) (by simp)
    rcases le_total a y with h | h
    · exact ⟨y, List.mem_cons_of_mem _ hy, fun z hz => by
        rcases List.mem_cons.mp hz with rfl | hz
        · exact h
        · exact hmax z hz⟩
    · exact ⟨a, List.mem_cons_self .., fun z hz => by
        rcases List.mem_cons.mp hz with rfl | hz
        · exact le_refl _
        · exact le_trans (hmax z hz) h⟩

theorem numChildrenAt_congr (T : Tables α) (y pos : α) (p : Nat)
    (h : ∀ e, e < T.numEdges → T.par e = p →
      ((T.l e ≤ y ∧ y < T.r e) ↔ (T.l e ≤ pos ∧ pos < T.r e))) :
    numChildrenAt T y p = numChildrenAt T pos p := by
  unfold numChildrenAt
  apply List.countP_congr
  intro e he
  by_cases hp : T.par e = p
  · have := h e (List.mem_range.mp he) hp
    simp only [hp, beq_self_eq_true, Bool.true_and, Bool.and_eq_true, decide_eq_true_eq]
    exact this
  · simp [hp]

theorem hasLocallyUnary_iff (T : Tables α) (hg : ∀ e, e < T.numEdges → T.l e < T.r e) :
    hasLocallyUnary T = true ↔ ∃ pos p, numChildrenAt T pos p = 1 := by
  constructor
  · intro h
    simp only [hasLocallyUnary, List.any_eq_true, List.mem_range, Bool.or_eq_true, beq_iff_eq] at h
    obtain ⟨e, _, h | h⟩ := h
    · exact ⟨_, _, h⟩
    · exact ⟨_, _, h⟩
  · rintro ⟨pos, p, h⟩
    -- an edge of p covering pos
    have hpos : 0 < numChildrenAt T pos p := by omega
    unfold numChildrenAt at hpos
    rw [List.countP_pos_iff] at hpos
    obtain ⟨e0, he0, hc0⟩ := hpos
    simp only [Bool.and_eq_true, beq_iff_eq, decide_eq_true_eq] at hc0
    -- the largest end point of an edge of p that is ≤ pos
    set ends : List α := ((List.range T.numEdges).flatMap fun e =>
      if T.par e = p then [T.l e, T.r e] else []).filter (fun z => decide (z ≤ pos)) with hends
    have hmem : ∀ z, z ∈ ends ↔ z ≤ pos ∧ ∃ e, e < T.numEdges ∧ T.par e = p ∧ (z = T.l e ∨ z = T.r e) := by
      intro z
      simp only [hends, List.mem_filter, List.mem_flatMap, List.mem_range, decide_eq_true_eq]
      constructor
      · rintro ⟨⟨e, he, hz⟩, hzp⟩
        by_cases hp : T.par e = p
        · simp only [hp, if_true, List.mem_cons, List.mem_nil_iff, or_false] at hz
          exact ⟨hzp, e, he, hp, hz⟩
        · simp [hp] at hz
      · rintro ⟨hzp, e, he, hp, hz⟩
        refine ⟨⟨e, he, ?_⟩, hzp⟩
        simp only [hp, if_true, List.mem_cons, List.mem_nil_iff, or_false]
        exact hz
    have hne : ends ≠ [] := by
      intro hnil
      have : T.l e0 ∈ ends := (hmem _).mpr ⟨hc0.2.1, e0, List.mem_range.mp he0, hc0.1, Or.inl rfl⟩
      rw [hnil] at this; simp at this
    obtain ⟨y, hy, hmax⟩ := exists_max_of_ne_nil ends hne
    obtain ⟨hyp, e1, he1, hp1, hy1⟩ := (hmem y).mp hy
    have hcong : numChildrenAt T y p = numChildrenAt T pos p := by
      apply numChildrenAt_congr
      intro e he hp
      constructor
      · rintro ⟨h1, h2⟩
        refine ⟨le_trans h1 hyp, ?_⟩
        by_contra hcon
        have hr : T.r e ≤ pos := not_lt.mp hcon
        have := hmax (T.r e) ((hmem _).mpr ⟨hr, e, he, hp, Or.inr rfl⟩)
        exact absurd (lt_of_lt_of_le h2 this) (lt_irrefl _)
      · rintro ⟨h1, h2⟩
        exact ⟨hmax (T.l e) ((hmem _).mpr ⟨h1, e, he, hp, Or.inl rfl⟩), lt_of_le_of_lt hyp h2⟩
    simp only [hasLocallyUnary, List.any_eq_true, List.mem_range, Bool.or_eq_true, beq_iff_eq]
    refine ⟨e1, he1, ?_⟩
    rw [hp1]
    rcases hy1 with hy1 | hy1
    · left; rw [← hy1, hcong, h]
    · right; rw [← hy1, hcong, h]

end

end Tsdate.Unary
