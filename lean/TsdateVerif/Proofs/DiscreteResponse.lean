/-
The linear-response lemma: perturbing the row of one processed node `v` changes the sum of the
root row by `Σ_s f s * outU gs v s`, with `outU` the exact outside recursion.
-/
import TsdateVerif.Proofs.DiscreteResolve

namespace Tsdate.Discrete
open Tsdate

section
variable {α : Type} [Field α]
variable (G : Nat) (fixed : Nat → Bool) (prior : Nat → Nat → α) (L : DEdge → Nat → Nat → α)
  (I : Nat → Nat → α) (d : Nat → α)

/-- `e` is an edge whose non-fixed child is `v` -/
def isChildEdge (v : Nat) (e : DEdge) : Bool := !fixed e.c && e.c == v

/-- prior times the messages of the siblings of `v` below `g.1`, over the denominator -/
def sibFac (g : Nat × List DEdge) (v : Nat) (a : Nat) : α :=
  prior g.1 a * ((g.2.filter (fun e => !isChildEdge fixed v e)).map (fun e => smsg fixed L I e a)).prod
    / d g.1

/-- **The exact outside recursion** relative to the groups still to be processed:
`outU gs v s = Σ_{a ≥ s} L_e(a, s) · sibFac(a) · outU rest p a` at the group of the parent `p` of `v`
(edge `e`), unchanged at the other groups, and `1` at the root. -/
def outU : List (Nat × List DEdge) → Nat → Nat → α
  | [], _, _ => 1
  | g :: rest, v, s =>
    match g.2.find? (isChildEdge fixed v) with
    | some ev => sumR G (fun a => if s ≤ a then L ev a s * sibFac fixed prior L I d g v a * outU rest g.1 a else 0)
    | none => outU rest v s

theorem find_of_split {β : Type} (p : β → Bool) (l1 l2 : List β) (x : β) (hx : p x = true)
    (h : ∀ e ∈ l1 ++ l2, p e = false) :
    (l1 ++ x :: l2).find? p = some x ∧ (l1 ++ x :: l2).filter (fun e => !p e) = l1 ++ l2 := by
  constructor
  · rw [List.find?_append]
    have : l1.find? p = none := by
      rw [List.find?_eq_none]; intro e he; simp [h e (List.mem_append_left _ he)]
    rw [this]; simp [hx]
  · rw [List.filter_append, List.filter_cons]
    simp only [hx, Bool.not_true, Bool.false_eq_true, if_false]
    congr 1
    · apply List.filter_eq_self.mpr; intro e he; simp [h e (List.mem_append_left _ he)]
    · apply List.filter_eq_self.mpr; intro e he; simp [h e (List.mem_append_right _ he)]

theorem find_none_of_filter_nil {β : Type} (p : β → Bool) (l : List β) (h : l.filter p = []) :
    l.find? p = none := by
  rw [List.find?_eq_none]
  intro e he hp
  have : e ∈ l.filter p := List.mem_filter.mpr ⟨he, hp⟩
  rw [h] at this; cases this

/-- the message of the edge to `v` under a perturbed row of `v` -/
theorem smsg_upF_self (J : Nat → Nat → α) (v : Nat) (f : Nat → α) (e : DEdge)
    (he : isChildEdge fixed v e = true) (a : Nat) :
    smsg fixed L (upF J v f) e a = ((List.range (a + 1)).map (fun b => f b * L e a b)).sum := by
  unfold isChildEdge at he
  simp only [Bool.and_eq_true, Bool.not_eq_true', beq_iff_eq] at he
  unfold smsg
  rw [if_neg (by simp [he.1])]
  congr 1
  apply List.map_congr_left
  intro b _
  unfold upF
  rw [if_pos he.2]

/-- swap of the triangular double sum -/
theorem tri_swap (f h : Nat → α) (K : Nat → Nat → α) :
    sumR G (fun a => (h a * ((List.range (a + 1)).map (fun s => f s * K a s)).sum))
      = sumR G (fun s => f s * sumR G (fun a => if s ≤ a then K a s * h a else 0)) := by
  have h1 : ∀ a, a < G → h a * ((List.range (a + 1)).map (fun s => f s * K a s)).sum
      = sumR G (fun s => if s ≤ a then f s * K a s * h a else 0) := by
    intro a ha
    rw [← sumR_indicator G a ha, ← sumR_mul_left]
    apply sumR_congr
    intro s _
    split_ifs <;> ring
  rw [sumR_congr G _ _ h1, sumR_comm]
  apply sumR_congr
  intro s _
  rw [← sumR_mul_left]
  apply sumR_congr
  intro a _
  split_ifs <;> ring

end
end Tsdate.Discrete
