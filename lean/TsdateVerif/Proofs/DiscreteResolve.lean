/-
Linear response of the inside recursion to a perturbation at one node (towards `posterior_exact`).

`resolve` re-runs the (function-level) inside recursion over a list of groups starting from given
rows.  If the rows are the true solution `I` except at one already-processed node `v`, whose row is
replaced by an arbitrary `f`, then the sum of the root row is `Σ_s f s * outU gs v s`, where `outU`
is the (exact, unnormalised-by-convention) outside recursion.
-/
import Mathlib.Algebra.Order.Field.Basic
import Mathlib.Tactic.FieldSimp
import Mathlib.Tactic.Linarith
import TsdateVerif.Proofs.DiscreteTree

namespace Tsdate.Discrete
open Tsdate

section
variable {α : Type} [Field α]
variable (G : Nat) (fixed : Nat → Bool) (prior : Nat → Nat → α) (L : DEdge → Nat → Nat → α)
  (d : Nat → α)

/-- replace the row of node `u` -/
def upF (J : Nat → Nat → α) (u : Nat) (f : Nat → α) : Nat → Nat → α :=
  fun w => if w = u then f else J w

/-- the row the recursion assigns to the parent of group `g` given rows `J` -/
def rowOf (J : Nat → Nat → α) (g : Nat × List DEdge) : Nat → α :=
  fun a => prior g.1 a * (g.2.map (fun e => smsg fixed L J e a)).prod / d g.1

/-- one step of the recursion -/
def stepJ (J : Nat → Nat → α) (g : Nat × List DEdge) : Nat → Nat → α :=
  upF J g.1 (rowOf fixed prior L d J g)

/-- the recursion over a list of groups -/
def resolve (gs : List (Nat × List DEdge)) (J : Nat → Nat → α) : Nat → Nat → α :=
  gs.foldl (stepJ fixed prior L d) J

/-- rows agree below the grid size -/
def AgreeBelow (J1 J2 : Nat → Nat → α) : Prop := ∀ w b, b < G → J1 w b = J2 w b

theorem smsg_congr (J1 J2 : Nat → Nat → α) (h : AgreeBelow G J1 J2) (e : DEdge) (a : Nat)
    (ha : a < G) : smsg fixed L J1 e a = smsg fixed L J2 e a := by
  unfold smsg
  split_ifs
  · rfl
  · congr 1
    apply List.map_congr_left
    intro b hb
    rw [h e.c b (by have := List.mem_range.mp hb; omega)]

theorem rowOf_congr (J1 J2 : Nat → Nat → α) (h : AgreeBelow G J1 J2) (g : Nat × List DEdge)
    (a : Nat) (ha : a < G) : rowOf fixed prior L d J1 g a = rowOf fixed prior L d J2 g a := by
  unfold rowOf
  congr 3
  apply List.map_congr_left
  intro e _
  exact smsg_congr G fixed L J1 J2 h e a ha

theorem stepJ_congr (J1 J2 : Nat → Nat → α) (h : AgreeBelow G J1 J2) (g : Nat × List DEdge) :
    AgreeBelow G (stepJ fixed prior L d J1 g) (stepJ fixed prior L d J2 g) := by
  intro w b hb
  unfold stepJ upF
  split_ifs
  · exact rowOf_congr G fixed prior L d J1 J2 h g b hb
  · exact h w b hb

theorem resolve_congr (gs : List (Nat × List DEdge)) (J1 J2 : Nat → Nat → α)
    (h : AgreeBelow G J1 J2) :
    AgreeBelow G (resolve fixed prior L d gs J1) (resolve fixed prior L d gs J2) := by
  induction gs generalizing J1 J2 with
  | nil => exact h
  | cons g rest ih => exact ih _ _ (stepJ_congr G fixed prior L d J1 J2 h g)

/-- `v` is not the non-fixed child of any edge of the groups -/
def NotChild (v : Nat) (gs : List (Nat × List DEdge)) : Prop :=
  ∀ e ∈ gs.flatMap (·.2), fixed e.c = true ∨ e.c ≠ v

theorem smsg_upF_other (J : Nat → Nat → α) (v : Nat) (f : Nat → α) (e : DEdge)
    (h : fixed e.c = true ∨ e.c ≠ v) (a : Nat) :
    smsg fixed L (upF J v f) e a = smsg fixed L J e a := by
  unfold smsg
  split_ifs with hf
  · rfl
  · have hc : e.c ≠ v := h.elim (fun h' => absurd h' hf) id
    congr 1
    apply List.map_congr_left
    intro b _
    unfold upF
    rw [if_neg hc]

/-- a row that nobody reads does not influence the other rows -/
theorem resolve_upF_other (gs : List (Nat × List DEdge)) (J : Nat → Nat → α) (v : Nat) (f : Nat → α)
    (hnc : NotChild fixed v gs) (hnp : v ∉ gs.map (·.1)) (w : Nat) (hw : w ≠ v) :
    resolve fixed prior L d gs (upF J v f) w = resolve fixed prior L d gs J w := by
  induction gs generalizing J with
  | nil => unfold resolve upF; simp [hw]
  | cons g rest ih =>
    have hg1 : g.1 ≠ v := fun h => hnp (by simp [h])
    have hstep : stepJ fixed prior L d (upF J v f) g = upF (stepJ fixed prior L d J g) v f := by
      funext w'
      unfold stepJ
      have hrow : rowOf fixed prior L d (upF J v f) g = rowOf fixed prior L d J g := by
        funext a
        unfold rowOf
        congr 3
        apply List.map_congr_left
        intro e he
        exact smsg_upF_other fixed L J v f e
          (hnc e (by simp only [List.flatMap_cons, List.mem_append]; exact Or.inl he)) a
      rw [hrow]
      unfold upF
      by_cases h1 : w' = g.1
      · have h2 : w' ≠ v := fun h => hg1 (h1 ▸ h)
        rw [if_pos h1, if_neg h2, if_pos h1]
      · by_cases h2 : w' = v
        · rw [if_neg h1, if_pos h2, if_pos h2]
        · rw [if_neg h1, if_neg h2, if_neg h2, if_neg h1]
    show resolve fixed prior L d rest (stepJ fixed prior L d (upF J v f) g) w = _
    rw [hstep]
    exact ih _ (fun e he => hnc e (by simp only [List.flatMap_cons, List.mem_append]; exact Or.inr he))
      (fun h => hnp (List.mem_cons_of_mem _ h))

end

end Tsdate.Discrete
