/-
Lemmas about the cache file-system model (used by Props/C36).
-/
import Mathlib.Tactic.SplitIfs
import Mathlib.Tactic.Cases
import Mathlib.Logic.Function.Basic
import Mathlib.Data.List.Basic
import TsdateVerif.Model.CacheFS

namespace Tsdate.CacheFS

theorem FS.set_same (fs : FS) (p : Path) (v : Option Bytes) : (fs.set p v) p = v := by
  simp [FS.set]

theorem FS.set_other (fs : FS) (p q : Path) (v : Option Bytes) (h : q ≠ p) :
    (fs.set p v) q = fs q := by
  simp [FS.set, h]

/-! ### One step of a disciplined writer -/

/-- What one operation of a writer obeying `safeOps` does: (a) the discipline carries on with the
new temp content, (b) no other path but `tmp` and `final` changes, (c) `final` is unchanged, removed,
or becomes exactly `c`. -/
theorem safe_step (tmp final : Path) (hne : tmp ≠ final) (c : Bytes) (fs : FS) (op : Op)
    (rest : List Op) (h : safeOps tmp final c (fs tmp) (op :: rest) = true) :
    safeOps tmp final c ((step fs op) tmp) rest = true ∧
    (∀ q, q ≠ tmp → q ≠ final → (step fs op) q = fs q) ∧
    ((step fs op) final = fs final ∨ (step fs op) final = none ∨ (step fs op) final = some c) := by
  have hne' : final ≠ tmp := Ne.symm hne
  cases op with
  | createTemp p =>
    simp only [safeOps, Bool.and_eq_true, beq_iff_eq] at h
    obtain ⟨rfl, h2⟩ := h
    refine ⟨?_, ?_, ?_⟩
    · simpa [step, FS.set_same] using h2
    · intro q hq _; simp [step, FS.set_other _ _ _ _ hq]
    · left; simp [step, FS.set_other _ _ _ _ hne']
  | openTrunc p =>
    simp only [safeOps, Bool.and_eq_true, beq_iff_eq] at h
    obtain ⟨rfl, h2⟩ := h
    refine ⟨?_, ?_, ?_⟩
    · simpa [step, FS.set_same] using h2
    · intro q hq _; simp [step, FS.set_other _ _ _ _ hq]
    · left; simp [step, FS.set_other _ _ _ _ hne']
  | append p x =>
    simp only [safeOps, Bool.and_eq_true, beq_iff_eq] at h
    obtain ⟨rfl, h2⟩ := h
    cases hd : fs p with
    | none =>
      rw [hd] at h2
      refine ⟨?_, ?_, ?_⟩
      · simpa [step, hd] using h2
      · intro q _ _; simp [step, hd]
      · left; simp [step, hd]
    | some d =>
      rw [hd] at h2
      refine ⟨?_, ?_, ?_⟩
      · simpa [step, hd, FS.set_same] using h2
      · intro q hq _; simp [step, hd, FS.set_other _ _ _ _ hq]
      · left; simp [step, hd, FS.set_other _ _ _ _ hne']
  | flush p =>
    simp only [safeOps] at h
    exact ⟨by simpa [step] using h, fun _ _ _ => rfl, Or.inl rfl⟩
  | rename s t =>
    simp only [safeOps, Bool.and_eq_true, beq_iff_eq] at h
    obtain ⟨⟨⟨rfl, rfl⟩, hd⟩, h2⟩ := h
    refine ⟨?_, ?_, ?_⟩
    · simpa [step, hd, FS.set_same] using h2
    · intro q hq hq'
      simp [step, hd, FS.set_other _ _ _ _ hq, FS.set_other _ _ _ _ hq']
    · right; right
      simp [step, hd, FS.set_other _ _ _ _ hne', FS.set_same]
  | remove p =>
    simp only [safeOps, Bool.or_eq_true, Bool.and_eq_true, beq_iff_eq] at h
    rcases h with ⟨rfl, h2⟩ | ⟨rfl, h2⟩
    · refine ⟨?_, ?_, ?_⟩
      · simpa [step, FS.set_other _ _ _ _ hne] using h2
      · intro q _ hq; simp [step, FS.set_other _ _ _ _ hq]
      · right; left; simp [step, FS.set_same]
    · refine ⟨?_, ?_, ?_⟩
      · simpa [step, FS.set_same] using h2
      · intro q hq _; simp [step, FS.set_other _ _ _ _ hq]
      · left; simp [step, FS.set_other _ _ _ _ hne']

/-! ### The invariant of an interleaved run -/

section Run
variable {ι : Type} [DecidableEq ι]

/-- Every writer still obeys its discipline (with respect to the *current* content of its temp
file), and the cache name holds its initial content, nothing, or some writer's complete content. -/
structure Inv (tmp : ι → Path) (final : Path) (content : ι → Bytes) (init : Option Bytes)
    (s : State ι) : Prop where
  safe : ∀ i, safeOps (tmp i) final (content i) (s.fs (tmp i)) (s.rem i) = true
  good : s.fs final = init ∨ s.fs final = none ∨ ∃ i, s.fs final = some (content i)

theorem inv_stepW (tmp : ι → Path) (htmp : Function.Injective tmp) (final : Path)
    (hne : ∀ i, tmp i ≠ final) (content : ι → Bytes) (init : Option Bytes) (s : State ι)
    (hs : Inv tmp final content init s) (i : ι) : Inv tmp final content init (stepW s i) := by
  cases hr : s.rem i with
  | nil =>
    have : stepW s i = s := by simp [stepW, hr]
    rw [this]; exact hs
  | cons op rest =>
    have hst : stepW s i = { fs := step s.fs op, rem := fun j => if j = i then rest else s.rem j } := by
      simp [stepW, hr]
    rw [hst]
    have hi := hs.safe i
    rw [hr] at hi
    obtain ⟨ha, hb, hc⟩ := safe_step (tmp i) final (hne i) (content i) s.fs op rest hi
    constructor
    · intro j
      by_cases hj : j = i
      · subst hj; simpa using ha
      · have hq : tmp j ≠ tmp i := fun h => hj (htmp h)
        simp only [hj, if_false]
        rw [hb (tmp j) hq (hne j)]
        exact hs.safe j
    · show (step s.fs op) final = init ∨ (step s.fs op) final = none ∨
        ∃ k, (step s.fs op) final = some (content k)
      rcases hc with h | h | h
      · rcases hs.good with g | g | ⟨k, g⟩
        · exact Or.inl (h.trans g)
        · exact Or.inr (Or.inl (h.trans g))
        · exact Or.inr (Or.inr ⟨k, h.trans g⟩)
      · exact Or.inr (Or.inl h)
      · exact Or.inr (Or.inr ⟨i, h⟩)

theorem inv_runSched (tmp : ι → Path) (htmp : Function.Injective tmp) (final : Path)
    (hne : ∀ i, tmp i ≠ final) (content : ι → Bytes) (init : Option Bytes) (sched : List ι)
    (s : State ι) (hs : Inv tmp final content init s) :
    Inv tmp final content init (runSched s sched) := by
  induction sched generalizing s with
  | nil => exact hs
  | cons i rest ih =>
    exact ih (stepW s i) (inv_stepW tmp htmp final hne content init s hs i)

theorem runSched_append (s : State ι) (a b : List ι) :
    runSched s (a ++ b) = runSched (runSched s a) b := by
  simp [runSched, List.foldl_append]

end Run

/-! ### The atomic writer obeys the discipline, and so does every crash of a disciplined writer -/

theorem safe_appends (tmp final : Path) (chunks : List Bytes) (pre : Bytes) :
    safeOps tmp final (pre ++ chunks.flatten) (some pre)
      (chunks.map (Op.append tmp) ++ [.flush tmp, .rename tmp final]) = true := by
  induction chunks generalizing pre with
  | nil => simp [safeOps]
  | cons ch chs ih =>
    have := ih (pre ++ ch)
    simp only [List.map_cons, List.cons_append, safeOps, beq_self_eq_true, Bool.true_and,
      Option.map_some, List.flatten_cons]
    rw [← List.append_assoc]
    exact this

theorem safe_atomicWriter (tmp final : Path) (chunks : List Bytes) (d : Option Bytes) :
    safeOps tmp final chunks.flatten d (atomicWriter tmp final chunks) = true := by
  have := safe_appends tmp final chunks []
  simpa [atomicWriter, safeOps] using this

theorem safe_clearer (tmp final : Path) (c : Bytes) (d : Option Bytes) :
    safeOps tmp final c d (clearer final) = true := by
  simp [clearer, safeOps]

theorem safe_crash (tmp final : Path) (c : Bytes) {w w' : List Op} (hc : CrashOf w w') :
    ∀ d, safeOps tmp final c d w = true → safeOps tmp final c d w' = true := by
  induction hc with
  | stop w => intro d _; simp [safeOps]
  | cons op _ ih =>
    intro d h
    cases op with
    | createTemp p =>
      simp only [safeOps, Bool.and_eq_true] at h ⊢
      exact ⟨h.1, ih _ h.2⟩
    | openTrunc p =>
      simp only [safeOps, Bool.and_eq_true] at h ⊢
      exact ⟨h.1, ih _ h.2⟩
    | append p x =>
      simp only [safeOps, Bool.and_eq_true] at h ⊢
      exact ⟨h.1, ih _ h.2⟩
    | flush p =>
      simp only [safeOps] at h ⊢
      exact ih _ h
    | rename s t =>
      simp only [safeOps, Bool.and_eq_true] at h ⊢
      exact ⟨h.1, ih _ h.2⟩
    | remove p =>
      simp only [safeOps, Bool.or_eq_true, Bool.and_eq_true] at h ⊢
      rcases h with h | h
      · exact Or.inl ⟨h.1, ih _ h.2⟩
      · exact Or.inr ⟨h.1, ih _ h.2⟩
  | part p ch pre w _ =>
    intro d h
    simp only [safeOps, Bool.and_eq_true] at h ⊢
    exact ⟨h.1, trivial⟩

/-- The driver's enumeration of crash outcomes is complete. -/
theorem mem_prefixes {pre ch : Bytes} (h : pre <+: ch) : pre ∈ prefixes ch := by
  induction ch generalizing pre with
  | nil =>
    have : pre = [] := List.prefix_nil.mp h
    simp [prefixes, this]
  | cons b bs ih =>
    cases pre with
    | nil => simp [prefixes]
    | cons a as =>
      obtain ⟨rfl, h2⟩ := List.cons_prefix_cons.mp h
      simp only [prefixes, List.mem_cons, List.mem_map]
      right
      exact ⟨as, ih h2, rfl⟩

theorem mem_crashCuts {w w' : List Op} (h : CrashOf w w') : w' ∈ crashCuts w := by
  induction h with
  | stop w => cases w <;> simp [crashCuts]
  | cons op _ ih =>
    simp only [crashCuts, List.mem_cons, List.mem_append, List.mem_map]
    right; right
    exact ⟨_, ih, rfl⟩
  | part p ch pre w hp =>
    simp only [crashCuts, List.mem_cons, List.mem_append, List.mem_map]
    right; left
    exact ⟨pre, mem_prefixes hp, rfl⟩

/-! ### A single direct (pre-fix) writer: what a crash leaves under the cache name -/

theorem runOps_cons (fs : FS) (op : Op) (ops : List Op) :
    runOps fs (op :: ops) = runOps (step fs op) ops := rfl

/-- Crashing anywhere inside `append final c₁; …; append final cₙ; flush final` leaves `final` holding
what it held before plus a prefix of `c₁ ++ … ++ cₙ`. -/
theorem direct_appends_crash (final : Path) (chunks : List Bytes) :
    ∀ (fs : FS) (d : Bytes) (w' : List Op), fs final = some d →
      CrashOf (chunks.map (Op.append final) ++ [.flush final]) w' →
      ∃ pre, pre <+: chunks.flatten ∧ (runOps fs w') final = some (d ++ pre) := by
  induction chunks with
  | nil =>
    intro fs d w' hd hc
    refine ⟨[], List.nil_prefix, ?_⟩
    cases hc with
    | stop => simpa [runOps] using hd
    | cons op hc' =>
      cases hc' with
      | stop => simpa [runOps, step] using hd
  | cons ch chs ih =>
    intro fs d w' hd hc
    cases hc with
    | stop => exact ⟨[], List.nil_prefix, by simpa [runOps] using hd⟩
    | cons op hc' =>
      have hstep : (step fs (.append final ch)) final = some (d ++ ch) := by
        simp [step, hd, FS.set_same]
      obtain ⟨pre, hp, hr⟩ := ih (step fs (.append final ch)) (d ++ ch) _ hstep hc'
      refine ⟨ch ++ pre, ?_, ?_⟩
      · simpa using (List.prefix_append_right_inj ch).mpr hp
      · rw [runOps_cons, hr, List.append_assoc]
    | part p c pre w hpre =>
      refine ⟨pre, ?_, ?_⟩
      · exact hpre.trans (by simp)
      · simp [runOps, step, hd, FS.set_same]

/-- A crash of the direct writer, run alone: the cache name is untouched or holds a prefix of the
content. -/
theorem direct_writer_crash (final : Path) (chunks : List Bytes) (fs : FS) (w' : List Op)
    (hc : CrashOf (directWriter final chunks) w') :
    (runOps fs w') final = fs final ∨
    ∃ pre, pre <+: chunks.flatten ∧ (runOps fs w') final = some pre := by
  unfold directWriter at hc
  cases hc with
  | stop => exact Or.inl rfl
  | cons op hc' =>
    right
    have h0 : (step fs (.openTrunc final)) final = some [] := by simp [step, FS.set_same]
    obtain ⟨pre, hp, hr⟩ := direct_appends_crash final chunks _ [] _ h0 hc'
    exact ⟨pre, hp, by rw [runOps_cons, hr]; simp⟩

end Tsdate.CacheFS
