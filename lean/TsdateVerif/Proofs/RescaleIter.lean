/-
Lemmas for C37: strict monotonicity of the interpolant up to the last break, the breaks returned by
`mutational_timescale` start at (0, 0), and the invariants of the iteration loop of
`rescale_tree_sequence`.
-/
import TsdateVerif.Proofs.Rescale
import TsdateVerif.Proofs.Merge

namespace Tsdate.Rescale
set_option linter.unusedSectionVars false
set_option linter.unusedVariables false

variable {α : Type} [Inhabited α] [Field α] [LinearOrder α] [IsStrictOrderedRing α]

/-- **Strictly increasing up to the last original break.** -/
theorem pwlRec_strictMono (segs : List (α × α)) (x y : α) (hi : IncZ segs) (hne : segs ≠ [])
    (hx : (segs.head hne).1 ≤ x) (hxy : x < y) (hy : y ≤ (segs.getLast hne).1) :
    pwlRec segs x < pwlRec segs y := by
  induction segs with
  | nil => exact absurd rfl hne
  | cons s rest ih =>
    obtain ⟨o, r⟩ := s
    simp only [List.head_cons] at hx
    cases rest with
    | nil =>
      simp only [List.getLast_singleton] at hy
      exact absurd (lt_of_le_of_lt hx hxy) (not_lt.mpr hy)
    | cons s' t =>
      obtain ⟨o', r'⟩ := s'
      obtain ⟨h1, h2, h3⟩ := hi
      have hd : 0 < o' - o := sub_pos.mpr h1
      have hs : 0 < (r' - r) / (o' - o) := div_pos (sub_pos.mpr h2) hd
      have hlast : ((o, r) :: (o', r') :: t).getLast hne = ((o', r') :: t).getLast (by simp) := by
        simp [List.getLast_cons]
      rw [hlast] at hy
      simp only [pwlRec]
      by_cases hy' : y < o'
      · have hx' : x < o' := lt_trans hxy hy'
        rw [if_pos hy', if_pos hx']
        have : (r' - r) / (o' - o) * (x - o) < (r' - r) / (o' - o) * (y - o) :=
          mul_lt_mul_of_pos_left (by linarith) hs
        linarith
      · rw [if_neg hy']
        by_cases hx' : x < o'
        · rw [if_pos hx']
          have h4 : (r' - r) / (o' - o) * (x - o) < (r' - r) / (o' - o) * (o' - o) :=
            mul_lt_mul_of_pos_left (by linarith) hs
          have e : (r' - r) / (o' - o) * (o' - o) = r' - r := by field_simp
          have h5 := pwlRec_ge_head o' r' t y h3 (not_lt.mp hy')
          linarith
        · rw [if_neg hx']
          exact ih h3 (by simp) (by simpa using not_lt.mp hx') hy

/-! ### the breaks of `mutational_timescale` start at (0, 0) -/

theorem insertDistinct_zero_head (l : List Nat) : (insertDistinct 0 l).head? = some 0 := by
  cases l with
  | nil => rfl
  | cons y ys =>
    unfold insertDistinct
    by_cases h : 0 < y
    · simp [h]
    · have : y = 0 := by omega
      subst this
      simp

theorem insertDistinct_keeps_zero_head (x : Nat) (l : List Nat) (h : l.head? = some 0) :
    (insertDistinct x l).head? = some 0 := by
  cases l with
  | nil => simp at h
  | cons y ys =>
    simp only [List.head?_cons, Option.some.injEq] at h
    subst h
    unfold insertDistinct
    by_cases hx : 0 < x
    · simp [hx]
    · have : x = 0 := by omega
      subst this
      simp

theorem distinctSorted_head_zero (l : List Nat) (h : 0 ∈ l) : (distinctSorted l).head? = some 0 := by
  induction l with
  | nil => cases h
  | cons x t ih =>
    show (insertDistinct x (distinctSorted t)).head? = some 0
    rcases List.mem_cons.mp h with h0 | h0
    · rw [← h0]; exact insertDistinct_zero_head _
    · exact insertDistinct_keeps_zero_head x _ (ih h0)

theorem zero_mem_fixedChangepoints (cast : Nat → α) (mass : List α) (m : Nat) :
    0 ∈ Changepoints.fixedChangepoints cast mass m := by
  unfold Changepoints.fixedChangepoints
  refine List.mem_map.mpr ⟨0, by simp, ?_⟩
  simp [Changepoints.fixedAt]

theorem prefixFrom_head (acc : α) (xs : List α) : lget (Changepoints.prefixFrom acc xs) 0 = acc := by
  cases xs <;> simp [Changepoints.prefixFrom, lget]

/-- the raw breakpoints (before merging) start at original time 0 and rescaled time 0 -/
theorem timescaleRaw_zero (cast : Nat → α) (t : List α) (lik : List (α × α)) (edges : List Edge) (m : Nat)
    (ob rb : List α) (h : mutationalTimescaleRaw cast t lik edges m = some (ob, rb)) :
    ob ≠ [] ∧ lget ob 0 = 0 ∧ lget rb 0 = 0 := by
  unfold mutationalTimescaleRaw at h
  simp only at h
  split_ifs at h with hg
  simp only [Option.map_eq_some_iff, Prod.mk.injEq] at h
  obtain ⟨steps, _, h1, h2⟩ := h
  set A := mutationalArea t lik edges
  set cps := uniqueNat (Changepoints.fixedChangepoints cast
    (List.zipWith (· * ·) A.offset A.duration) m) with hcps
  have hhead : cps.head? = some 0 := distinctSorted_head_zero _ (zero_mem_fixedChangepoints cast _ m)
  obtain ⟨c, rest, hc⟩ : ∃ c rest, cps = c :: rest := by
    cases hcase : cps with
    | nil => rw [hcase] at hhead; simp at hhead
    | cons c rest => exact ⟨c, rest, rfl⟩
  have hc0 : c = 0 := by rw [hc] at hhead; simpa using hhead
  subst hc0
  refine ⟨?_, ?_, ?_⟩
  · rw [← h1, hc]; simp
  · rw [← h1, hc]
    simp only [List.map_cons, lget, List.getElem?_cons_zero, Option.getD_some]
    exact prefixFrom_head 0 _
  · rw [← h2]; simp [cumsum, lget]

/-- whatever `mutational_timescale` returns (after merging) starts at original time 0 and rescaled time 0 -/
theorem timescale_zero (cast : Nat → α) (t : List α) (lik : List (α × α)) (edges : List Edge) (m : Nat)
    (ob rb : List α) (h : mutationalTimescale cast t lik edges m = some (ob, rb)) :
    ob ≠ [] ∧ lget ob 0 = 0 ∧ lget rb 0 = 0 := by
  unfold mutationalTimescale at h
  simp only [Option.map_eq_some_iff] at h
  obtain ⟨⟨origin, adjust⟩, hraw, hm⟩ := h
  obtain ⟨_, ho, ha⟩ := timescaleRaw_zero cast t lik edges m origin adjust hraw
  obtain ⟨g1, g2, g3⟩ := merge_heads origin adjust
  simp only at hm
  have e1 : ob = (mergeBreaks origin adjust).1 := by rw [hm]
  have e2 : rb = (mergeBreaks origin adjust).2 := by rw [hm]
  rw [e1, e2]
  refine ⟨g1, by rw [g2, ho], ?_⟩
  rcases g3 with g | g
  · rw [g, ha]
  · rw [g, ho]

/-! ### one step and the loop -/

theorem length_piecewiseScalePoint (xs : List α) (fixed : List Bool) (ob rb : List α)
    (h : fixed.length = xs.length) : (piecewiseScalePoint xs fixed ob rb).length = xs.length := by
  simp [piecewiseScalePoint, h]

theorem lget_piecewiseScalePoint (xs : List α) (fixed : List Bool) (ob rb : List α) (i : Nat)
    (hi : i < xs.length) (hf : fixed.length = xs.length) :
    lget (piecewiseScalePoint xs fixed ob rb) i =
      if lget fixed i = true then lget xs i else pwlAt ob rb (lget xs i) := by
  unfold piecewiseScalePoint
  have : i < fixed.length := by omega
  simp [lget, hi, this]

/-- a property preserved by every step of the loop is preserved by the loop -/
theorem rescaleIter_induct (cast : Nat → α) (lik : List (α × α)) (edges : List Edge) (fixed : List Bool)
    (m : Nat) (P : List α → List α → Prop) (hrefl : ∀ t, P t t)
    (hstep : ∀ t0 t ob rb, P t0 t → mutationalTimescale cast t lik edges m = some (ob, rb) →
      pwlPre ob rb = true → P t0 (piecewiseScalePoint t fixed ob rb))
    (n : Nat) (t0 t t' : List α) (h0 : P t0 t)
    (h : rescaleIter cast lik edges fixed m n t = some t') : P t0 t' := by
  induction n generalizing t with
  | zero => simp only [rescaleIter, Option.some.injEq] at h; subst h; exact h0
  | succ n ih =>
    unfold rescaleIter at h
    cases hts : mutationalTimescale cast t lik edges m with
    | none => simp [hts] at h
    | some obrb =>
      obtain ⟨ob, rb⟩ := obrb
      simp only [hts] at h
      by_cases hp : pwlPre ob rb = true
      · simp only [hp, if_true] at h
        exact ih _ (hstep t0 t ob rb h0 hts hp) h
      · simp [hp] at h

end Tsdate.Rescale
