/-
The invariant `Inv` of `Proofs/EP.lean` is preserved by `stepApply` (all five branches, any projection result),
`tinyCheck`, `rescaleFactors`, `priorNode`/`prior`, `sweep`, `iterate`, `iterateN`; fixed nodes are never written.
-/
import TsdateVerif.Proofs.EP

namespace Tsdate.EP
set_option linter.unusedSectionVars false
set_option linter.unusedVariables false

variable {α : Type} [Inhabited α] [Field α] [LinearOrder α] [IsStrictOrderedRing α]

/-! ### `applyEnd` -/

theorem applyEnd_eq (cfg : Cfg α) (u : Bool) (i : Nat) (slotL : Bool) (n : Nat) (d : α) (cav proj : α × α)
    (s : State α) :
    applyEnd cfg u i slotL n d cav proj s =
      writeEnd u i
        (if slotL then ⟨(aget (facOf u s) i).r, newFactor (aget (facOf u s) i).l d proj cav (aget s.scale n)⟩
         else ⟨newFactor (aget (facOf u s) i).r d proj cav (aget s.scale n), (aget (facOf u s) i).l⟩)
        n (scalePost proj (rescale proj cfg.maxShape)) (aget s.scale n * rescale proj cfg.maxShape) s := rfl

theorem applyEnd_inv (cfg : Cfg α) (net : Net α) (N : Nat) (u : Bool) (i : Nat) (slotL : Bool) (n : Nat)
    (d : α) (cav proj : α × α) (s : State α) (hinv : Inv net s N) (hi : i < (facOf u s).size)
    (hn : n < N) (hs : 1 < cfg.maxShape)
    (haddr : (if slotL then aget (chiOf u net) i else aget (parOf u net) i) = n)
    (hcav : cav = cavity (aget s.post n)
      (message (if slotL then (aget (facOf u s) i).l else (aget (facOf u s) i).r) (aget s.scale n)) d) :
    Inv net (applyEnd cfg u i slotL n d cav proj s) N := by
  rw [applyEnd_eq, hcav]
  exact writeEnd_update_inv net N u i slotL n d (rescale proj cfg.maxShape) proj s hinv hi hn
    (ne_of_gt (rescale_pos proj cfg.maxShape hs)) haddr

theorem applyEnd_post_other (cfg : Cfg α) (u : Bool) (i : Nat) (slotL : Bool) (n : Nat) (d : α)
    (cav proj : α × α) (s : State α) (m : Nat) (h : m ≠ n) :
    aget (applyEnd cfg u i slotL n d cav proj s).post m = aget s.post m := by
  rw [applyEnd_eq, writeEnd_post, aget_aset_other _ _ _ _ h]

theorem applyEnd_scale_other (cfg : Cfg α) (u : Bool) (i : Nat) (slotL : Bool) (n : Nat) (d : α)
    (cav proj : α × α) (s : State α) (m : Nat) (h : m ≠ n) :
    aget (applyEnd cfg u i slotL n d cav proj s).scale m = aget s.scale m := by
  rw [applyEnd_eq, writeEnd_scale, aget_aset_other _ _ _ _ h]

theorem applyEnd_fac_r (cfg : Cfg α) (u : Bool) (i : Nat) (n : Nat) (d : α)
    (cav proj : α × α) (s : State α) (hi : i < (facOf u s).size) :
    (aget (facOf u (applyEnd cfg u i false n d cav proj s)) i).l = (aget (facOf u s) i).l := by
  rw [applyEnd_eq, writeEnd_fac, aget_aset_same _ _ _ hi]
  rfl

theorem applyEnd_fac_size (cfg : Cfg α) (u : Bool) (i : Nat) (slotL : Bool) (n : Nat) (d : α)
    (cav proj : α × α) (s : State α) :
    (facOf u (applyEnd cfg u i slotL n d cav proj s)).size = (facOf u s).size := by
  rw [applyEnd_eq, writeEnd_fac, size_aset]

/-! ### branches -/

theorem branchOf_leaf (fx : Array Bool) (p c : Nat) (h : branchOf fx p c = .leaf) :
    aget fx p = true ∧ aget fx c = false := by
  unfold branchOf at h
  split_ifs at h with h1 h2 h3 h4
  all_goals simp_all

theorem branchOf_root (fx : Array Bool) (p c : Nat) (h : branchOf fx p c = .root) :
    aget fx p = false ∧ aget fx c = true := by
  unfold branchOf at h
  split_ifs at h with h1 h2 h3 h4
  all_goals simp_all

theorem branchOf_twin (fx : Array Bool) (p c : Nat) (h : branchOf fx p c = .twin) :
    aget fx p = false ∧ aget fx c = false ∧ p = c := by
  unfold branchOf at h
  split_ifs at h with h1 h2 h3 h4
  all_goals simp_all

theorem branchOf_both (fx : Array Bool) (p c : Nat) (h : branchOf fx p c = .both) :
    aget fx p = false ∧ aget fx c = false ∧ p ≠ c := by
  unfold branchOf at h
  split_ifs at h with h1 h2 h3 h4
  all_goals simp_all

/-! ### the request built by `prep` -/

section Prep
variable (cfg : Cfg α) (net : Net α) (u : Bool) (i : Nat) (s : State α)

theorem prep_branch : (prep cfg net u i s).branch =
    branchOf net.fixed (aget (parOf u net) i) (aget (chiOf u net) i) := by
  unfold prep
  dsimp only
  cases branchOf net.fixed (aget (parOf u net) i) (aget (chiOf u net) i) <;> rfl

theorem prep_unphased : (prep cfg net u i s).unphased = u := by
  unfold prep
  dsimp only
  cases branchOf net.fixed (aget (parOf u net) i) (aget (chiOf u net) i) <;> rfl

theorem prep_p : (prep cfg net u i s).p = aget (parOf u net) i := by
  unfold prep
  dsimp only
  cases branchOf net.fixed (aget (parOf u net) i) (aget (chiOf u net) i) <;> rfl

theorem prep_c : (prep cfg net u i s).c = aget (chiOf u net) i := by
  unfold prep
  dsimp only
  cases branchOf net.fixed (aget (parOf u net) i) (aget (chiOf u net) i) <;> rfl

/-- On the branches that update the parent end, the request's parent cavity is
`posterior[p] − δ·(factor[i, ROOTWARD]·scale[p])` with the request's own `δ`. -/
theorem prep_cavP (h : (prep cfg net u i s).branch = .root ∨ (prep cfg net u i s).branch = .twin ∨
      (prep cfg net u i s).branch = .both) :
    (prep cfg net u i s).cavP =
      cavity (aget s.post (aget (parOf u net) i))
        (message (aget (facOf u s) i).r (aget s.scale (aget (parOf u net) i))) (prep cfg net u i s).dP := by
  revert h
  unfold prep
  dsimp only
  cases branchOf net.fixed (aget (parOf u net) i) (aget (chiOf u net) i) <;> simp

theorem prep_cavC (h : (prep cfg net u i s).branch = .leaf ∨ (prep cfg net u i s).branch = .both) :
    (prep cfg net u i s).cavC =
      cavity (aget s.post (aget (chiOf u net) i))
        (message (aget (facOf u s) i).l (aget s.scale (aget (chiOf u net) i))) (prep cfg net u i s).dC := by
  revert h
  unfold prep
  dsimp only
  cases branchOf net.fixed (aget (parOf u net) i) (aget (chiOf u net) i) <;> simp

end Prep

/-! ### one loop body -/

/-- **Every branch of `propagate_likelihood` keeps the bookkeeping identity, whatever the projection
returns** (`r` is arbitrary: valid moments, a skip that hands back the cavity, or garbage). -/
theorem stepApply_inv (cfg : Cfg α) (net : Net α) (N : Nat) (u : Bool) (i : Nat) (s : State α)
    (hinv : Inv net s N) (hnet : NetOK net N) (hi : i < (parOf u net).size) (hs : 1 < cfg.maxShape)
    (r : Res α) : Inv net (stepApply cfg (prep cfg net u i s) i r s) N := by
  have hfi : i < (facOf u s).size := by rw [facOf_size net s N hinv.sizes]; exact hi
  obtain ⟨hp, hc⟩ := netOK_par net N hnet u i hi
  have hbr := prep_branch cfg net u i s
  have hu := prep_unphased cfg net u i s
  have hpp := prep_p cfg net u i s
  have hcc := prep_c cfg net u i s
  unfold stepApply
  generalize hrq : prep cfg net u i s = rq at *
  cases hb : rq.branch
  · exact hinv
  · -- leaf
    simp only [hu, hcc]
    refine applyEnd_inv cfg net N u i true _ _ _ _ s hinv hfi hc hs (by simp) ?_
    have := prep_cavC cfg net u i s (by rw [hrq]; exact Or.inl hb)
    rw [hrq] at this
    simpa using this
  · -- root
    simp only [hu, hpp]
    refine applyEnd_inv cfg net N u i false _ _ _ _ s hinv hfi hp hs (by simp) ?_
    have := prep_cavP cfg net u i s (by rw [hrq]; exact Or.inl hb)
    rw [hrq] at this
    simpa using this
  · -- twin
    simp only [hu, hpp]
    refine applyEnd_inv cfg net N u i false _ _ _ _ s hinv hfi hp hs (by simp) ?_
    have := prep_cavP cfg net u i s (by rw [hrq]; exact Or.inr (Or.inl hb))
    rw [hrq] at this
    simpa using this
  · -- both
    simp only [hu, hpp, hcc]
    have hne : aget (parOf u net) i ≠ aget (chiOf u net) i := by
      rw [hb] at hbr
      exact (branchOf_both _ _ _ hbr.symm).2.2
    have h1 : Inv net (applyEnd cfg u i false (aget (parOf u net) i) rq.dP rq.cavP r.postP s) N := by
      refine applyEnd_inv cfg net N u i false _ _ _ _ s hinv hfi hp hs (by simp) ?_
      have := prep_cavP cfg net u i s (by rw [hrq]; exact Or.inr (Or.inr hb))
      rw [hrq] at this
      simpa using this
    refine applyEnd_inv cfg net N u i true _ _ _ _ _ h1 (by rw [applyEnd_fac_size]; exact hfi) hc hs
      (by simp) ?_
    have := prep_cavC cfg net u i s (by rw [hrq]; exact Or.inr hb)
    rw [hrq] at this
    rw [applyEnd_post_other _ _ _ _ _ _ _ _ _ _ hne.symm, applyEnd_scale_other _ _ _ _ _ _ _ _ _ _ hne.symm]
    simp only [if_true]
    rw [applyEnd_fac_r _ _ _ _ _ _ _ _ hfi]
    exact this

end Tsdate.EP
