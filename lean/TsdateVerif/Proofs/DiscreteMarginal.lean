/-
From the model's final inside state to the abstract equations of `Proofs/DiscreteTree.lean`
(linear space), and from the executable brute-force spec to the `List.sum` version.
-/
import Mathlib.Tactic.FieldSimp
import TsdateVerif.Proofs.DiscreteLin

namespace Tsdate.Discrete
open Tsdate

section
variable {α : Type} [Field α] [Inhabited α]

/-- function view of an array of rows -/
def insI (ins : Array (Array α)) : Nat → Nat → α := fun u t => aget (aget ins u) t

theorem getD_map_range (G t : Nat) (ht : t < G) (f : Nat → α) :
    ((List.range G).map f).getD t default = f t := by
  simp [List.getD_eq_getElem?_getD, List.getElem?_range ht]

/-- An edge message of the linear space, entry `t`, is the abstract message `smsg`. -/
theorem edgeMsg_lin (o : Ops α) (ho : IsLinOps o) (inp : Input α) (ins : Array (Array α)) (e : DEdge)
    (hfrac : aget inp.frac e.id = 1)
    (hsz : aget inp.fixed e.c = false → (aget inp.lik e.id).size = triSize inp.G)
    (t : Nat) (ht : t < inp.G) :
    (edgeMsg o inp ins e).getD t default
      = smsg inp.toTreeModel.fixed inp.toTreeModel.lik (insI ins) e t := by
  unfold edgeMsg smsg
  by_cases hf : aget inp.fixed e.c = true
  · have hf' : inp.toTreeModel.fixed e.c = true := hf
    rw [if_pos hf, if_pos hf']
    unfold msgFixed
    rw [getD_map_range _ _ ht, hfrac, ho.combine, ho.scale_one, ho.one, one_mul]
    show _ = if aget inp.fixed e.c = true then _ else _
    rw [if_pos hf]
  · have hf' : ¬ inp.toTreeModel.fixed e.c = true := hf
    have hff : aget inp.fixed e.c = false := by simpa using hf
    rw [if_neg hf, if_neg hf', msgLower_spec o inp.G _ _ _ (hsz hff), getD_map_range _ _ ht, ho.sum]
    congr 1
    apply List.map_congr_left
    intro s _
    rw [ho.combine, hfrac, ho.scale_one]
    show _ = insI ins e.c s * (if aget inp.fixed e.c = true then _ else _)
    rw [if_neg hf]
    rfl

/-- Entry `t` of the accumulated group value: prior times the product of the messages. -/
theorem groupVal_lin (o : Ops α) (ho : IsLinOps o) (inp : Input α) (ins : Array (Array α))
    (g : Nat × List DEdge) (hprior : (aget inp.prior g.1).size = inp.G)
    (hfrac : ∀ e ∈ g.2, aget inp.frac e.id = 1)
    (hsz : ∀ e ∈ g.2, aget inp.fixed e.c = false → (aget inp.lik e.id).size = triSize inp.G)
    (t : Nat) (ht : t < inp.G) :
    (groupVal o inp ins g).getD t default
      = inp.toTreeModel.prior g.1 t
        * (g.2.map (fun e => smsg inp.toTreeModel.fixed inp.toTreeModel.lik (insI ins) e t)).prod ∧
    (groupVal o inp ins g).length = inp.G := by
  unfold groupVal
  have hc : o.combine = fun x y => x * y := funext (fun x => funext (fun y => ho.combine x y))
  rw [hc]
  have key := getD_foldl_zipWith (fun e => edgeMsg o inp ins e) inp.G t ht g.2
    (aget inp.prior g.1).toList (by simpa using hprior) (fun e _ => length_edgeMsg o inp ins e)
  refine ⟨?_, key.2⟩
  rw [key.1]
  congr 1
  · show (aget inp.prior g.1).toList.getD t default = aget (aget inp.prior g.1) t
    simp [aget, List.getD_eq_getElem?_getD]
  · congr 1
    apply List.map_congr_left
    intro e he
    exact edgeMsg_lin o ho inp ins e (hfrac e he) (hsz e he) t ht

/-- **Index-level inside equation** at a group whose row and denominator satisfy the row-level
equations of `insideFold_spec`: `prior u t * Π_e msg_e(t) = d u * I u t`. -/
theorem head_equation (o : Ops α) (ho : IsLinOps o) (inp : Input α) (ins : Array (Array α))
    (den : Array α) (g : Nat × List DEdge) (hprior : (aget inp.prior g.1).size = inp.G)
    (hfrac : ∀ e ∈ g.2, aget inp.frac e.id = 1)
    (hsz : ∀ e ∈ g.2, aget inp.fixed e.c = false → (aget inp.lik e.id).size = triSize inp.G)
    (hrow : aget ins g.1 = ((groupVal o inp ins g).map (fun v => o.ratio v (aget den g.1))).toArray)
    (hd : aget den g.1 ≠ 0) (t : Nat) (ht : t < inp.G) :
    inp.toTreeModel.prior g.1 t
        * (g.2.map (fun e => smsg inp.toTreeModel.fixed inp.toTreeModel.lik (insI ins) e t)).prod
      = aget den g.1 * insI ins g.1 t := by
  obtain ⟨h1, h2⟩ := groupVal_lin o ho inp ins g hprior hfrac hsz t ht
  rw [← h1]
  have hlt : t < (groupVal o inp ins g).length := by omega
  have hI : insI ins g.1 t = (groupVal o inp ins g).getD t default / aget den g.1 := by
    unfold insI
    rw [hrow, aget_toArray]
    generalize aget den g.1 = dd
    generalize groupVal o inp ins g = l at hlt
    rw [List.getD_eq_getElem?_getD, List.getD_eq_getElem?_getD, List.getElem?_map,
      List.getElem?_eq_getElem hlt, Option.map_some, Option.getD_some, Option.getD_some, ho.ratio]
  rw [hI]
  field_simp

end

/-! ### The executable spec in `List.sum` form -/

section
variable {α : Type} [Field α]

theorem lsum_eq_sum (l : List α) : lsum l = l.sum := by
  unfold lsum; exact List.sum_eq_foldl.symm

theorem lprod_eq_prod (l : List α) : lprod l = l.prod := by
  unfold lprod; exact List.prod_eq_foldl.symm

theorem sumAssign_eq_sumA (G : Nat) (P : List Nat) (x : Nat → Nat) (F : (Nat → Nat) → α) :
    sumAssign G P x F = sumA G P x F := by
  induction P generalizing x with
  | nil => rfl
  | cons u us ih =>
    simp only [sumAssign, sumA, lsum_eq_sum, sumR]
    congr 1
    apply List.map_congr_left
    intro t _
    exact ih _

/-- With every non-fixed child still a summation variable, the partially eliminated weight is the
specification's joint weight. -/
theorem weight_eq_Wt (M : TreeModel α) (gs : List (Nat × List DEdge)) (I : Nat → Nat → α)
    (hn : M.nodes = gs.map (·.1)) (he : M.edges = gs.flatMap (·.2))
    (hlive : ∀ e ∈ M.edges, M.fixed e.c = true ∨ e.c ∈ M.nodes) (x : Nat → Nat) :
    weight M x = Wt M.fixed M.prior M.lik (gs.map (·.1)) I gs x := by
  unfold weight Wt
  rw [lprod_eq_prod, lprod_eq_prod, hn, he, List.map_map]
  congr 2
  apply List.map_congr_left
  intro e hem
  unfold edgeFactor mfac
  by_cases hf : M.fixed e.c = true
  · rw [if_pos hf, if_pos hf]
  · rw [if_neg hf, if_neg hf]
    have : e.c ∈ gs.map (·.1) := by
      rcases hlive e (he ▸ hem) with h | h
      · exact absurd h hf
      · exact hn ▸ h
    rw [if_pos this]

end
end Tsdate.Discrete
