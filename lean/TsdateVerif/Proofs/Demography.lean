/-
Lemmas for C17: the index/cumulative-step formula of `_change_time_measure` is the piecewise
integral; the image history; round trips; monotonicity and Lipschitz bounds.
-/
import Mathlib.Algebra.Order.Field.Basic
import Mathlib.Tactic.FieldSimp
import Mathlib.Tactic.Ring
import Mathlib.Tactic.Linarith
import Mathlib.Tactic.Positivity
import TsdateVerif.Model.Demography
import TsdateVerif.Spec.Demography

namespace Tsdate.Demography
set_option linter.unusedSectionVars false
set_option linter.unusedVariables false

variable {α : Type} [Inhabited α] [Field α] [LinearOrder α] [IsStrictOrderedRing α]

/-- validity of a segment list: strictly increasing starts, positive measures -/
def Valid : List (α × α) → Prop
  | [] => True
  | [(_, m)] => 0 < m
  | (b, m) :: (b', m') :: rest => 0 < m ∧ b < b' ∧ Valid ((b', m') :: rest)

theorem Valid.tail {s : α × α} {rest : List (α × α)} (h : Valid (s :: rest)) : Valid rest := by
  obtain ⟨b, m⟩ := s
  cases rest with
  | nil => trivial
  | cons s' r => obtain ⟨b', m'⟩ := s'; exact h.2.2

theorem Valid.head_pos {b m : α} {rest : List (α × α)} (h : Valid ((b, m) :: rest)) : 0 < m := by
  cases rest with
  | nil => exact h
  | cons s' r => obtain ⟨b', m'⟩ := s'; exact h.1

/-- every start of a valid list is at least the first start -/
theorem Valid.head_le {b m : α} {rest : List (α × α)} (h : Valid ((b, m) :: rest)) :
    ∀ s ∈ rest, b < s.1 := by
  induction rest generalizing b m with
  | nil => intro s hs; cases hs
  | cons s' r ih =>
    obtain ⟨b', m'⟩ := s'
    obtain ⟨_, hbb, hv⟩ := h
    intro s hs
    rcases List.mem_cons.mp hs with rfl | hs
    · exact hbb
    · exact lt_trans hbb (ih hv s hs)

/-! ### searchsorted on a valid list -/

theorem searchRight_cons (b : α) (bs : List α) (t : α) :
    searchRight (b :: bs) t = searchRight bs t + (if b ≤ t then 1 else 0) := by
  unfold searchRight
  rw [List.countP_cons]
  simp

theorem searchRight_eq_zero (bs : List α) (t : α) (h : ∀ b ∈ bs, t < b) : searchRight bs t = 0 := by
  unfold searchRight
  rw [List.countP_eq_zero]
  intro b hb
  simpa using h b hb

theorem searchRight_pos (b : α) (bs : List α) (t : α) (h : b ≤ t) : 0 < searchRight (b :: bs) t := by
  rw [searchRight_cons, if_pos h]; omega

/-! ### the code's formula is the integral -/

theorem lget_cons_succ (a : α) (l : List α) (i : Nat) : lget (a :: l) (i + 1) = lget l i := by
  simp [lget]

theorem lget_cons_zero (a : α) (l : List α) : lget (a :: l) 0 = a := by simp [lget]

/-- **Index + cumulative step = piecewise integral.**  If the running step `s` and the running
integral `acc` are related by `s = acc - b/m` at the head segment, the code's
`t / m[idx] + step[idx]` equals `acc + ∫_b^t`. -/
theorem newTime_from (segs : List (α × α)) (s acc t : α) (hv : Valid segs) (hne : segs ≠ [])
    (ht : (segs.head hne).1 ≤ t)
    (hs : s = acc - (segs.head hne).1 / (segs.head hne).2) :
    t * 1 / lget (segs.map (·.2)) (searchRight (segs.map (·.1)) t - 1)
        + lget (stepsFrom segs s) (searchRight (segs.map (·.1)) t - 1)
      = integFrom segs acc t := by
  induction segs generalizing s acc with
  | nil => exact absurd rfl hne
  | cons sg rest ih =>
    obtain ⟨b, m⟩ := sg
    cases rest with
    | nil =>
      have hm : m ≠ 0 := ne_of_gt hv
      simp only [List.head_cons] at ht hs
      simp only [List.map_cons, List.map_nil, searchRight_cons, if_pos ht, stepsFrom, integFrom]
      have : searchRight ([] : List α) t = 0 := rfl
      rw [this]
      simp only [Nat.zero_add, Nat.sub_self, lget_cons_zero]
      rw [hs]; field_simp; ring
    | cons sg' rest' =>
      obtain ⟨b', m'⟩ := sg'
      obtain ⟨hm, hbb, hv'⟩ := hv
      have hm0 : m ≠ 0 := ne_of_gt hm
      have hm'0 : m' ≠ 0 := ne_of_gt hv'.head_pos
      simp only [List.head_cons] at ht hs
      by_cases h : t < b'
      · -- t in the first segment
        have hz : searchRight (b' :: rest'.map (·.1)) t = 0 := by
          apply searchRight_eq_zero
          intro x hx
          rcases List.mem_cons.mp hx with rfl | hx
          · exact h
          · obtain ⟨sx, hsx, rfl⟩ := List.mem_map.mp hx
            exact lt_trans h (hv'.head_le sx hsx)
        simp only [List.map_cons, integFrom, if_pos h]
        rw [searchRight_cons, if_pos ht, hz]
        simp only [Nat.zero_add, Nat.sub_self, lget_cons_zero, stepsFrom]
        rw [hs]; field_simp; ring
      · have hge : b' ≤ t := not_lt.mp h
        have hpos : 0 < searchRight (b' :: rest'.map (·.1)) t := searchRight_pos _ _ _ hge
        simp only [List.map_cons, integFrom, if_neg h]
        rw [searchRight_cons b, if_pos ht]
        have e : searchRight (b' :: rest'.map (·.1)) t + 1 - 1
            = (searchRight (b' :: rest'.map (·.1)) t - 1) + 1 := by omega
        rw [e, lget_cons_succ]
        simp only [stepsFrom, lget_cons_succ]
        have := ih (s + b' * (1 / m - 1 / m')) (acc + (b' - b) / m) hv' (by simp)
          (by simpa using hge) (by simp only [List.head_cons]; rw [hs]; field_simp; ring)
        simpa using this

/-- `newTime` (the model of `new_time_ago`) equals the integral from 0, on a valid history that
starts at 0, for every `t ≥ 0`. -/
theorem newTime_eq_integ (segs : List (α × α)) (t : α) (hv : Valid segs) (hne : segs ≠ [])
    (h0 : (segs.head hne).1 = 0) (ht : 0 ≤ t) : newTime segs t = integ segs t := by
  unfold newTime steps integ
  exact newTime_from segs 0 0 t hv hne (by rw [h0]; exact ht) (by rw [h0]; simp)

/-! ### the image history -/

theorem newBreaks_from (segs : List (α × α)) (s acc : α) (hv : Valid segs) (hne : segs ≠ [])
    (hs : s = acc - (segs.head hne).1 / (segs.head hne).2) :
    (List.zipWith (fun (sg : α × α) (st : α) => sg.1 * 1 / sg.2 + st) segs (stepsFrom segs s)).zip
        (newMeasure segs) = trFrom segs acc := by
  induction segs generalizing s acc with
  | nil => exact absurd rfl hne
  | cons sg rest ih =>
    obtain ⟨b, m⟩ := sg
    cases rest with
    | nil =>
      have hm : m ≠ 0 := ne_of_gt hv
      simp only [List.head_cons] at hs
      simp only [stepsFrom, newMeasure, trFrom, List.zipWith_cons_cons, List.zipWith_nil_right,
        List.map_cons, List.map_nil, List.zip_cons_cons, List.zip_nil_right]
      rw [hs]
      congr 2
      field_simp; ring
    | cons sg' rest' =>
      obtain ⟨b', m'⟩ := sg'
      obtain ⟨hm, hbb, hv'⟩ := hv
      have hm0 : m ≠ 0 := ne_of_gt hm
      have hm'0 : m' ≠ 0 := ne_of_gt hv'.head_pos
      simp only [List.head_cons] at hs
      have := ih (s + b' * (1 / m - 1 / m')) (acc + (b' - b) / m) hv' (by simp)
        (by simp only [List.head_cons]; rw [hs]; field_simp; ring)
      simp only [stepsFrom, trFrom, List.zipWith_cons_cons, newMeasure, List.map_cons,
        List.zip_cons_cons]
      simp only [newMeasure, List.map_cons] at this
      rw [this]
      congr 2
      rw [hs]; field_simp; ring

/-- `(new_breakpoints, new_time_measure)` is the image history `trFrom segs 0`. -/
theorem newBreaks_zip (segs : List (α × α)) (hv : Valid segs) (hne : segs ≠ [])
    (h0 : (segs.head hne).1 = 0) :
    (newBreaks segs).zip (newMeasure segs) = trFrom segs 0 := by
  unfold newBreaks steps
  exact newBreaks_from segs 0 0 hv hne (by rw [h0]; simp)

theorem trFrom_ne_nil (segs : List (α × α)) (acc : α) (hne : segs ≠ []) : trFrom segs acc ≠ [] := by
  match segs, hne with
  | [(b, m)], _ => simp [trFrom]
  | (b, m) :: (b', m') :: rest, _ => simp [trFrom]

theorem trFrom_head (segs : List (α × α)) (acc : α) (hne : segs ≠ []) :
    ((trFrom segs acc).head (trFrom_ne_nil segs acc hne)).1 = acc := by
  match segs, hne with
  | [(b, m)], _ => simp [trFrom]
  | (b, m) :: (b', m') :: rest, _ => simp [trFrom]

theorem trFrom_valid (segs : List (α × α)) (acc : α) (hv : Valid segs) : Valid (trFrom segs acc) := by
  induction segs generalizing acc with
  | nil => trivial
  | cons sg rest ih =>
    obtain ⟨b, m⟩ := sg
    cases rest with
    | nil =>
      have hm : 0 < m := hv
      show 0 < 1 / m
      positivity
    | cons sg' rest' =>
      obtain ⟨b', m'⟩ := sg'
      obtain ⟨hm, hbb, hv'⟩ := hv
      have h1 := ih (acc + (b' - b) / m) hv'
      cases rest' with
      | nil =>
        simp only [trFrom] at h1 ⊢
        refine ⟨by positivity, ?_, h1⟩
        have : 0 < (b' - b) / m := div_pos (sub_pos.mpr hbb) hm
        linarith
      | cons sg'' r'' =>
        obtain ⟨b'', m''⟩ := sg''
        simp only [trFrom] at h1 ⊢
        refine ⟨by positivity, ?_, h1⟩
        have : 0 < (b' - b) / m := div_pos (sub_pos.mpr hbb) hm
        linarith

/-- transforming twice gives the history back -/
theorem trFrom_trFrom (segs : List (α × α)) (acc : α) (hv : Valid segs) (hne : segs ≠ []) :
    trFrom (trFrom segs acc) ((segs.head hne).1) = segs := by
  induction segs generalizing acc with
  | nil => exact absurd rfl hne
  | cons sg rest ih =>
    obtain ⟨b, m⟩ := sg
    cases rest with
    | nil =>
      have hm : m ≠ 0 := ne_of_gt hv
      simp only [trFrom, List.head_cons]
      congr 2
      field_simp
    | cons sg' rest' =>
      obtain ⟨b', m'⟩ := sg'
      obtain ⟨hm, hbb, hv'⟩ := hv
      have hm0 : m ≠ 0 := ne_of_gt hm
      have h1 := ih (acc + (b' - b) / m) hv' (by simp)
      simp only [List.head_cons] at h1 ⊢
      have e : b + (acc + (b' - b) / m - acc) / (1 / m) = b' := by field_simp; ring
      cases rest' with
      | nil =>
        simp only [trFrom] at h1 ⊢
        rw [e, h1]
        congr 2
        field_simp
      | cons sg'' r'' =>
        obtain ⟨b'', m''⟩ := sg''
        simp only [trFrom] at h1 ⊢
        rw [e, h1]
        congr 2
        field_simp

/-! ### integral: bounds, round trip -/

theorem integFrom_ge (segs : List (α × α)) (acc t : α) (hv : Valid segs) (hne : segs ≠ [])
    (ht : (segs.head hne).1 ≤ t) : acc ≤ integFrom segs acc t := by
  induction segs generalizing acc with
  | nil => exact absurd rfl hne
  | cons s rest ih =>
    obtain ⟨b, m⟩ := s
    cases rest with
    | nil =>
      simp only [integFrom]
      have hm : 0 < m := hv
      have : 0 ≤ (t - b) / m := div_nonneg (sub_nonneg.mpr ht) hm.le
      linarith
    | cons s' rest' =>
      obtain ⟨b', m'⟩ := s'
      obtain ⟨hm, hbb, hv'⟩ := hv
      simp only [integFrom]
      split_ifs with h
      · have : 0 ≤ (t - b) / m := div_nonneg (sub_nonneg.mpr ht) hm.le
        linarith
      · have h1 := ih (acc + (b' - b) / m) hv' (by simp) (by simpa using not_lt.mp h)
        have : 0 ≤ (b' - b) / m := div_nonneg (sub_nonneg.mpr hbb.le) hm.le
        linarith

/-- the integral up to the first start is the initial value (`fix_zero` for a history from 0) -/
theorem integFrom_head (segs : List (α × α)) (acc : α) (hv : Valid segs) (hne : segs ≠ []) :
    integFrom segs acc ((segs.head hne).1) = acc := by
  match segs, hne, hv with
  | [(b, m)], _, _ => simp [integFrom]
  | (b, m) :: (b', m') :: rest, _, hv =>
    show integFrom ((b, m) :: (b', m') :: rest) acc b = acc
    simp only [integFrom]
    rw [if_pos hv.2.1]
    simp

/-- round trip: converting with the image history undoes `integFrom` -/
theorem roundtrip_from (segs : List (α × α)) (acc t : α) (hv : Valid segs) (hne : segs ≠ [])
    (ht : (segs.head hne).1 ≤ t) :
    integFrom (trFrom segs acc) ((segs.head hne).1) (integFrom segs acc t) = t := by
  induction segs generalizing acc with
  | nil => exact absurd rfl hne
  | cons s rest ih =>
    obtain ⟨b, m⟩ := s
    cases rest with
    | nil =>
      have hm : 0 < m := hv
      have hm' : m ≠ 0 := ne_of_gt hm
      simp only [integFrom, trFrom, List.head_cons]
      field_simp
      ring
    | cons s' rest' =>
      obtain ⟨b', m'⟩ := s'
      obtain ⟨hm, hbb, hv'⟩ := hv
      have hm' : m ≠ 0 := ne_of_gt hm
      simp only [List.head_cons] at ht ⊢
      by_cases h : t < b'
      · have himg : acc + (t - b) / m < acc + (b' - b) / m := by
          have : (t - b) / m < (b' - b) / m := by
            apply div_lt_div_of_pos_right _ hm; linarith
          linarith
        simp only [integFrom, trFrom, h, if_true]
        cases rest' with
        | nil =>
          simp only [trFrom, integFrom, himg, if_true]
          field_simp; ring
        | cons s'' r'' =>
          obtain ⟨b'', m''⟩ := s''
          simp only [trFrom, integFrom, himg, if_true]
          field_simp; ring
      · have hge : b' ≤ t := not_lt.mp h
        have hrec := ih (acc + (b' - b) / m) hv' (by simp) (by simpa using hge)
        have hlow := integFrom_ge ((b', m') :: rest') (acc + (b' - b) / m) t hv' (by simp)
          (by simpa using hge)
        simp only [List.head_cons] at hrec
        have hnlt : ¬ integFrom ((b', m') :: rest') (acc + (b' - b) / m) t < acc + (b' - b) / m :=
          not_lt.mpr hlow
        cases rest' with
        | nil =>
          simp only [integFrom, trFrom, h, if_false] at hrec hnlt ⊢
          simp only [hnlt, if_false]
          have : acc + (b' - b) / m - acc = (b' - b) / m := by ring
          rw [this]
          have e : b + (b' - b) / m / (1 / m) = b' := by field_simp; ring
          rw [e]; exact hrec
        | cons s'' r'' =>
          obtain ⟨b'', m''⟩ := s''
          simp only [integFrom, trFrom, h, if_false] at hrec hnlt ⊢
          simp only [hnlt, if_false]
          have : acc + (b' - b) / m - acc = (b' - b) / m := by ring
          rw [this]
          have e : b + (b' - b) / m / (1 / m) = b' := by field_simp; ring
          rw [e]; exact hrec

/-- **Two-sided slope bound** (hence strictly increasing and Lipschitz-continuous): between two
times `x ≤ y` in the domain, the integral grows by at least `(y-x)/M` and at most `(y-x)/μ`
when every measure lies in `[μ, M]`. -/
theorem integFrom_slope (segs : List (α × α)) (acc x y μ M : α) (hv : Valid segs) (hne : segs ≠ [])
    (hx : (segs.head hne).1 ≤ x) (hxy : x ≤ y) (hμ : 0 < μ)
    (hb : ∀ s ∈ segs, μ ≤ s.2 ∧ s.2 ≤ M) :
    (y - x) / M ≤ integFrom segs acc y - integFrom segs acc x ∧
    integFrom segs acc y - integFrom segs acc x ≤ (y - x) / μ := by
  induction segs generalizing acc x with
  | nil => exact absurd rfl hne
  | cons s rest ih =>
    obtain ⟨b, m⟩ := s
    have hmb := hb (b, m) (List.mem_cons_self ..)
    have hm : 0 < m := lt_of_lt_of_le hμ hmb.1
    have hM : 0 < M := lt_of_lt_of_le hm hmb.2
    have hd : 0 ≤ y - x := sub_nonneg.mpr hxy
    -- a step of length d ≥ 0 inside one segment
    have key : ∀ d : α, 0 ≤ d → d / M ≤ d / m ∧ d / m ≤ d / μ := fun d hd =>
      ⟨div_le_div_of_nonneg_left hd hm hmb.2, div_le_div_of_nonneg_left hd hμ hmb.1⟩
    cases rest with
    | nil =>
      simp only [integFrom]
      have e : acc + (y - b) / m - (acc + (x - b) / m) = (y - x) / m := by field_simp; ring
      rw [e]; exact key _ hd
    | cons s' rest' =>
      obtain ⟨b', m'⟩ := s'
      obtain ⟨_, hbb, hv'⟩ := hv
      simp only [List.head_cons] at hx
      have hb' : ∀ s ∈ (b', m') :: rest', μ ≤ s.2 ∧ s.2 ≤ M :=
        fun s hs => hb s (List.mem_cons_of_mem _ hs)
      simp only [integFrom]
      by_cases h1 : y < b'
      · have h2 : x < b' := lt_of_le_of_lt hxy h1
        rw [if_pos h1, if_pos h2]
        have e : acc + (y - b) / m - (acc + (x - b) / m) = (y - x) / m := by field_simp; ring
        rw [e]; exact key _ hd
      · have hy : b' ≤ y := not_lt.mp h1
        rw [if_neg h1]
        by_cases h2 : x < b'
        · rw [if_pos h2]
          -- split at b'
          have hI := ih (acc + (b' - b) / m) b' hv' (by simp) (by simp) hy hb'
          have hh := integFrom_head ((b', m') :: rest') (acc + (b' - b) / m) hv' (by simp)
          simp only [List.head_cons] at hh
          rw [hh] at hI
          have k := key (b' - x) (by linarith)
          have e : acc + (b' - b) / m - (acc + (x - b) / m) = (b' - x) / m := by field_simp; ring
          have s1 : (y - x) / M = (y - b') / M + (b' - x) / M := by field_simp; ring
          have s2 : (y - x) / μ = (y - b') / μ + (b' - x) / μ := by
            have : μ ≠ 0 := ne_of_gt hμ
            field_simp; ring
          constructor
          · rw [s1]; linarith [hI.1, k.1]
          · rw [s2]; linarith [hI.2, k.2]
        · rw [if_neg h2]
          exact ih (acc + (b' - b) / m) x hv' (by simp) (by simpa using not_lt.mp h2) hxy hb'

/-- bounds on the measures of a (finite) valid history always exist -/
theorem exists_bounds (segs : List (α × α)) (hv : Valid segs) (hne : segs ≠ []) :
    ∃ μ M : α, 0 < μ ∧ ∀ s ∈ segs, μ ≤ s.2 ∧ s.2 ≤ M := by
  induction segs with
  | nil => exact absurd rfl hne
  | cons s rest ih =>
    obtain ⟨b, m⟩ := s
    have hm : 0 < m := hv.head_pos
    cases rest with
    | nil =>
      refine ⟨m, m, hm, ?_⟩
      intro s hs
      simp only [List.mem_singleton] at hs
      subst hs; exact ⟨le_rfl, le_rfl⟩
    | cons s' rest' =>
      obtain ⟨μ, M, hμ, hbd⟩ := ih hv.tail (by simp)
      refine ⟨min m μ, max m M, lt_min hm hμ, ?_⟩
      intro s hs
      rcases List.mem_cons.mp hs with rfl | hs
      · exact ⟨min_le_left _ _, le_max_left _ _⟩
      · exact ⟨le_trans (min_le_right _ _) (hbd s hs).1, le_trans (hbd s hs).2 (le_max_right _ _)⟩

theorem integFrom_strictMono (segs : List (α × α)) (acc x y : α) (hv : Valid segs) (hne : segs ≠ [])
    (hx : (segs.head hne).1 ≤ x) (hxy : x < y) : integFrom segs acc x < integFrom segs acc y := by
  obtain ⟨μ, M, hμ, hbd⟩ := exists_bounds segs hv hne
  have hM : 0 < M := by
    have := hbd (segs.head hne) (List.head_mem hne)
    exact lt_of_lt_of_le hμ (le_trans this.1 this.2)
  have := (integFrom_slope segs acc x y μ M hv hne hx hxy.le hμ hbd).1
  have hpos : 0 < (y - x) / M := div_pos (sub_pos.mpr hxy) hM
  linarith

/-! ### the constructor's input guard gives a valid history -/

theorem valid_of_increasing (a : α) (tb ps : List α) (hlen : tb.length + 1 = ps.length)
    (hinc : increasingFrom a tb = true) (hpos : ∀ n ∈ ps, 0 < n) :
    Valid ((a :: tb).zip (ps.map (fun n => 2 * n))) := by
  induction tb generalizing a ps with
  | nil =>
    match ps, hlen with
    | [n], _ =>
      show 0 < 2 * n
      have := hpos n (by simp)
      positivity
  | cons b tb ih =>
    match ps, hlen with
    | n :: n' :: ps', hlen =>
      simp only [increasingFrom, Bool.and_eq_true, decide_eq_true_eq] at hinc
      have h1 := ih b (n' :: ps') (by simpa using hlen) hinc.2
        (fun x hx => hpos x (List.mem_cons_of_mem _ hx))
      have hn := hpos n (by simp)
      simp only [List.map_cons, List.zip_cons_cons] at h1 ⊢
      exact ⟨by positivity, hinc.1, h1⟩

/-! ### the integral as a sum of overlaps -/

theorem overlapSum_eq_zero (segs : List (α × α)) (t : α) (hv : Valid segs) (hne : segs ≠ [])
    (ht : t ≤ (segs.head hne).1) : overlapSum segs t = 0 := by
  induction segs with
  | nil => rfl
  | cons s rest ih =>
    obtain ⟨b, m⟩ := s
    simp only [List.head_cons] at ht
    cases rest with
    | nil =>
      simp only [overlapSum]
      rw [max_eq_left (by linarith)]; simp
    | cons s' r =>
      obtain ⟨b', m'⟩ := s'
      obtain ⟨hm, hbb, hv'⟩ := hv
      simp only [overlapSum]
      rw [ih hv' (by simp) (by simp only [List.head_cons]; linarith)]
      have : min t b' - b ≤ 0 := by
        have := min_le_left t b'; linarith
      rw [max_eq_left this]; simp

/-- the recursive integral is the overlap sum -/
theorem integFrom_eq_overlapSum (segs : List (α × α)) (acc t : α) (hv : Valid segs) (hne : segs ≠ [])
    (ht : (segs.head hne).1 ≤ t) : integFrom segs acc t = acc + overlapSum segs t := by
  induction segs generalizing acc with
  | nil => exact absurd rfl hne
  | cons s rest ih =>
    obtain ⟨b, m⟩ := s
    simp only [List.head_cons] at ht
    cases rest with
    | nil =>
      simp only [integFrom, overlapSum]
      rw [max_eq_right (by linarith)]
    | cons s' r =>
      obtain ⟨b', m'⟩ := s'
      obtain ⟨hm, hbb, hv'⟩ := hv
      simp only [integFrom, overlapSum]
      split_ifs with h
      · rw [overlapSum_eq_zero _ t hv' (by simp) (by simp only [List.head_cons]; exact h.le),
          min_eq_left h.le, max_eq_right (by linarith)]
        ring
      · have hge : b' ≤ t := not_lt.mp h
        rw [ih _ hv' (by simp) (by simpa using hge), min_eq_right hge, max_eq_right (by linarith)]
        ring

/-! ### the history built by the constructor -/

/-- the `(epoch start, 2N)` segments of a history: `zip(self.time_breaks, self.population_size)` -/
def histSegs (ps tb : List α) : List (α × α) := ((0 : α) :: tb).zip (ps.map (fun n => 2 * n))

theorem initOk_iff (ps tb : List α) :
    initOk ps tb = true ↔ (∀ n ∈ ps, 0 < n) ∧ tb.length + 1 = ps.length ∧ increasingFrom 0 tb = true := by
  simp [initOk, and_assoc]

theorem histSegs_valid (ps tb : List α) (hok : initOk ps tb = true) : Valid (histSegs ps tb) := by
  obtain ⟨h1, h2, h3⟩ := (initOk_iff ps tb).mp hok
  exact valid_of_increasing 0 tb ps h2 h3 h1

theorem histSegs_ne (ps tb : List α) (hok : initOk ps tb = true) : histSegs ps tb ≠ [] := by
  obtain ⟨_, h2, _⟩ := (initOk_iff ps tb).mp hok
  match ps, h2 with
  | n :: ps', _ => simp [histSegs]

theorem histSegs_head (ps tb : List α) (hok : initOk ps tb = true) :
    ((histSegs ps tb).head (histSegs_ne ps tb hok)).1 = 0 := by
  obtain ⟨_, h2, _⟩ := (initOk_iff ps tb).mp hok
  match ps, h2 with
  | n :: ps', _ => simp [histSegs]

theorem init_nat (ps tb : List α) :
    (History.init ps tb).timeBreaks.zip (History.init ps tb).popSize2 = histSegs ps tb := rfl

/-- the stored coalescent arrays are the image history (starts = accumulated integrals, measures
inverted) -/
theorem init_coal (ps tb : List α) (hok : initOk ps tb = true) :
    (History.init ps tb).coalBreaks.zip (History.init ps tb).coalRate = trFrom (histSegs ps tb) 0 :=
  newBreaks_zip (histSegs ps tb) (histSegs_valid ps tb hok) (histSegs_ne ps tb hok)
    (histSegs_head ps tb hok)


end Tsdate.Demography
