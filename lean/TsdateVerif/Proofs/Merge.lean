/-
Lemmas for C25/C37: the merging step at the end of `mutational_timescale` (fix fa21a50, repair of
finding F5).  Whatever the raw breakpoints are, the merged ones strictly increase in both coordinates
(as soon as the first original break is below the last one), they still start at the first raw
breakpoint, and nothing is merged when the raw breakpoints already strictly increase.
-/
import TsdateVerif.Proofs.Rescale

namespace Tsdate.Rescale
set_option linter.unusedSectionVars false
set_option linter.unusedVariables false

variable {α : Type} [Inhabited α] [Field α] [LinearOrder α] [IsStrictOrderedRing α]

/-! ### `Inc` and appending -/

theorem inc_snoc (l : List α) (x : α) :
    Inc (l ++ [x]) ↔ Inc l ∧ ∀ y, l.getLast? = some y → y < x := by
  induction l with
  | nil => simp [Inc]
  | cons a t ih =>
    cases t with
    | nil => simp [Inc]
    | cons b r =>
      have e : (a :: b :: r).getLast? = (b :: r).getLast? := by simp [List.getLast?_cons_cons]
      simp only [List.cons_append, Inc] at ih ⊢
      rw [ih, e]
      constructor
      · rintro ⟨h1, h2, h3⟩; exact ⟨⟨h1, h2⟩, h3⟩
      · rintro ⟨⟨h1, h2⟩, h3⟩; exact ⟨h1, h2, h3⟩

theorem inc_lget (l : List α) (h : Inc l) (i : Nat) (hi : i + 1 < l.length) : lget l i < lget l (i + 1) := by
  induction l generalizing i with
  | nil => simp at hi
  | cons a t ih =>
    cases t with
    | nil => simp at hi
    | cons b r =>
      cases i with
      | zero => simpa [lget] using h.1
      | succ i =>
        have := ih h.2 i (by simpa using hi)
        simpa [lget] using this

/-! ### the scan -/

/-- invariant of the scan over the breakpoints -/
structure ScanInv (origin adjust : List α) (s : Scan) : Prop where
  shape : ∃ ks, s.kept = ks ++ [s.last] ∧
    ((ks = [] ∧ s.last = 0 ∧ s.prev = 0) ∨ (ks ≠ [] ∧ s.last ≠ 0 ∧ ks.getLast? = some s.prev))
  incO : Inc (s.kept.map (lget origin))
  incA : Inc (s.kept.map (lget adjust))
  head : s.kept.head? = some 0

theorem scanInv_init (origin adjust : List α) :
    ScanInv origin adjust { kept := [0], last := 0, prev := 0 } :=
  ⟨⟨[], rfl, Or.inl ⟨rfl, rfl, rfl⟩⟩, by simp [Inc], by simp [Inc], rfl⟩

theorem scanInv_step (origin adjust : List α) (s : Scan) (k : Nat) (hk : k ≠ 0)
    (h : ScanInv origin adjust s) : ScanInv origin adjust (scanStep origin adjust s k) := by
  unfold scanStep
  split_ifs with hc
  · obtain ⟨ks, hks, _⟩ := h.shape
    have hlastO : (s.kept.map (lget origin)).getLast? = some (lget origin s.last) := by
      rw [hks]; simp
    have hlastA : (s.kept.map (lget adjust)).getLast? = some (lget adjust s.last) := by
      rw [hks]; simp
    refine ⟨⟨s.kept, rfl, Or.inr ⟨?_, hk, ?_⟩⟩, ?_, ?_, ?_⟩
    · rw [hks]; simp
    · rw [hks]; simp
    · simp only [List.map_append, List.map_cons, List.map_nil]
      rw [inc_snoc]
      refine ⟨h.incO, ?_⟩
      intro y hy
      rw [hlastO] at hy
      cases hy
      exact hc.1
    · simp only [List.map_append, List.map_cons, List.map_nil]
      rw [inc_snoc]
      refine ⟨h.incA, ?_⟩
      intro y hy
      rw [hlastA] at hy
      cases hy
      exact hc.2
    · have := h.head
      cases hkept : s.kept with
      | nil => rw [hkept] at this; simp at this
      | cons a t => rw [hkept] at this; simpa using this
  · exact h

theorem scanInv_foldl (origin adjust : List α) (ks : List Nat) (hks : ∀ k ∈ ks, k ≠ 0) (s : Scan)
    (h : ScanInv origin adjust s) : ScanInv origin adjust (ks.foldl (scanStep origin adjust) s) := by
  induction ks generalizing s with
  | nil => exact h
  | cons k t ih =>
    simp only [List.foldl_cons]
    exact ih (fun k' hk' => hks k' (List.mem_cons_of_mem _ hk')) _
      (scanInv_step origin adjust s k (hks k (List.mem_cons_self ..)) h)

theorem scanInv_scan (origin adjust : List α) : ScanInv origin adjust (scan origin adjust) := by
  unfold scan
  refine scanInv_foldl origin adjust _ ?_ _ (scanInv_init origin adjust)
  intro k hk
  have := (List.mem_range'_1.mp hk).1
  omega

/-! ### the merged breakpoints -/

theorem pre_of_inc (ob rb : List α) (hl : ob.length = rb.length) (ho : Inc ob) (hr : Inc rb) :
    pwlPre ob rb = true := by
  simp [pwlPre, hl, (inc_iff ob).mpr ho, (inc_iff rb).mpr hr]

/-- **The merged breakpoints always satisfy the precondition asserted by `piecewise_scale_*`** (both
vectors strictly increasing, same size), for *any* raw breakpoints whose first original break lies
strictly below the last one. -/
theorem merge_pre (origin adjust : List α) (hid : lget origin 0 < lget origin (origin.length - 1)) :
    pwlPre (mergeBreaks origin adjust).1 (mergeBreaks origin adjust).2 = true := by
  have hinv := scanInv_scan origin adjust
  have hident : pwlPre [lget origin 0, lget origin (origin.length - 1)]
      [lget origin 0, lget origin (origin.length - 1)] = true :=
    pre_of_inc _ _ rfl ⟨hid, trivial⟩ ⟨hid, trivial⟩
  unfold mergeBreaks
  simp only
  split_ifs with h1 h2 h3
  · exact hident
  · -- trailing intervals merged backwards
    obtain ⟨ks, hks, hcase⟩ := hinv.shape
    rcases hcase with ⟨_, h0, _⟩ | ⟨hne, _, hprev⟩
    · exact absurd h0 h1
    · have hdrop : (scan origin adjust).kept.dropLast = ks := by rw [hks]; simp
      simp only [hdrop]
      have hO : Inc (ks.map (lget origin)) := by
        have := hinv.incO; rw [hks, List.map_append, List.map_cons, List.map_nil, inc_snoc] at this
        exact this.1
      have hA : Inc (ks.map (lget adjust)) := by
        have := hinv.incA; rw [hks, List.map_append, List.map_cons, List.map_nil, inc_snoc] at this
        exact this.1
      refine pre_of_inc _ _ (by simp) ?_ ?_
      · rw [List.map_append, List.map_cons, List.map_nil, inc_snoc]
        refine ⟨hO, ?_⟩
        intro y hy
        rw [List.getLast?_map, hprev] at hy
        cases hy
        exact h3.1
      · rw [List.map_append, List.map_cons, List.map_nil, inc_snoc]
        refine ⟨hA, ?_⟩
        intro y hy
        rw [List.getLast?_map, hprev] at hy
        cases hy
        exact h3.2
  · exact hident
  · exact pre_of_inc _ _ (by simp) hinv.incO hinv.incA

/-- the merged breakpoints are non-empty, and start at the first raw original break; the merged rescaled
breaks start at the first raw rescaled break or (identity time scale) at the first raw original break -/
theorem merge_heads (origin adjust : List α) :
    (mergeBreaks origin adjust).1 ≠ [] ∧ lget (mergeBreaks origin adjust).1 0 = lget origin 0 ∧
    (lget (mergeBreaks origin adjust).2 0 = lget adjust 0 ∨
      lget (mergeBreaks origin adjust).2 0 = lget origin 0) := by
  have hinv := scanInv_scan origin adjust
  have hkept : ∃ t, (scan origin adjust).kept = 0 :: t := by
    have := hinv.head
    cases hk : (scan origin adjust).kept with
    | nil => rw [hk] at this; simp at this
    | cons a t => rw [hk] at this; simp at this; exact ⟨t, by rw [this]⟩
  unfold mergeBreaks
  simp only
  split_ifs with h1 h2 h3
  · exact ⟨by simp, by simp [lget], Or.inr (by simp [lget])⟩
  · obtain ⟨ks, hks, hcase⟩ := hinv.shape
    rcases hcase with ⟨_, h0, _⟩ | ⟨hne, _, _⟩
    · exact absurd h0 h1
    · have hdrop : (scan origin adjust).kept.dropLast = ks := by rw [hks]; simp
      obtain ⟨t, ht⟩ := hkept
      have hks0 : ∃ t', ks = 0 :: t' := by
        cases hk : ks with
        | nil => exact absurd hk hne
        | cons a t' =>
          rw [hks, hk] at ht
          simp only [List.cons_append, List.cons.injEq] at ht
          exact ⟨t', by rw [ht.1]⟩
      obtain ⟨t', ht'⟩ := hks0
      simp only [hdrop, ht']
      exact ⟨by simp, by simp [lget], Or.inl (by simp [lget])⟩
  · exact ⟨by simp, by simp [lget], Or.inr (by simp [lget])⟩
  · obtain ⟨t, ht⟩ := hkept
    simp only [ht]
    exact ⟨by simp, by simp [lget], Or.inl (by simp [lget])⟩

/-! ### nothing is merged when the raw breakpoints already strictly increase -/

theorem map_lget_range {β : Type} [Inhabited β] (l : List β) : (List.range l.length).map (lget l) = l := by
  apply List.ext_getElem
  · simp
  · intro i h1 h2
    simp [lget, h2]

theorem scan_fold_of_inc (origin adjust : List α) (hl : origin.length = adjust.length)
    (ho : Inc origin) (ha : Inc adjust) (m j p : Nat) (hj : j + m + 1 ≤ origin.length) :
    ∃ p', (List.range' (j + 1) m).foldl (scanStep origin adjust)
        { kept := List.range (j + 1), last := j, prev := p } =
      { kept := List.range (j + 1 + m), last := j + m, prev := p' } := by
  induction m generalizing j p with
  | zero => exact ⟨p, rfl⟩
  | succ m ih =>
    have hc : lget origin j < lget origin (j + 1) ∧ lget adjust j < lget adjust (j + 1) :=
      ⟨inc_lget origin ho j (by omega), inc_lget adjust ha j (by omega)⟩
    have hstep : scanStep origin adjust { kept := List.range (j + 1), last := j, prev := p } (j + 1) =
        { kept := List.range (j + 1 + 1), last := j + 1, prev := j } := by
      unfold scanStep
      simp only [hc, and_self, if_true]
      rw [List.range_succ (n := j + 1)]
    rw [List.range'_succ, List.foldl_cons, hstep]
    obtain ⟨p', hp'⟩ := ih (j + 1) j (by omega)
    have e1 : j + 1 + 1 + m = j + 1 + (m + 1) := by omega
    have e2 : j + 1 + m = j + (m + 1) := by omega
    exact ⟨p', by rw [hp', e1, e2]⟩

/-- **When the raw breakpoints already strictly increase in both coordinates (every interval carries
mutations — `timescale_strict_iff`) the merging step changes nothing**: the time scale is the one the
code computed before fix fa21a50. -/
theorem merge_noop_of_strict (origin adjust : List α) (hl : origin.length = adjust.length)
    (h2 : 2 ≤ origin.length) (ho : Inc origin) (ha : Inc adjust) :
    mergeBreaks origin adjust = (origin, adjust) := by
  obtain ⟨p', hp'⟩ := scan_fold_of_inc origin adjust hl ho ha (origin.length - 1) 0 0 (by omega)
  have hscan : scan origin adjust =
      { kept := List.range origin.length, last := origin.length - 1, prev := p' } := by
    unfold scan
    have e0 : ({ kept := [0], last := 0, prev := 0 } : Scan) =
        { kept := List.range (0 + 1), last := 0, prev := 0 } := by simp [List.range_succ]
    have e1 : 0 + 1 + (origin.length - 1) = origin.length := by omega
    have e2 : 0 + (origin.length - 1) = origin.length - 1 := by omega
    rw [e0, hp', e1, e2]
  unfold mergeBreaks
  simp only [hscan]
  rw [if_neg (by omega), if_neg (by simp)]
  rw [map_lget_range origin, hl, map_lget_range adjust]

end Tsdate.Rescale
