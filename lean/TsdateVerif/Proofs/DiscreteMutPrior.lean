/-
`get_mut_edges` counts (mutations above a root are counted nowhere) and the probability-space tag
of the shared prior object.
-/
import Mathlib.Tactic.SplitIfs
import Mathlib.Data.List.Basic
import TsdateVerif.Model.Discrete

namespace Tsdate.Discrete
open Tsdate

section Mut
variable {α : Type} [LE α] [LT α] [DecidableLE α] [DecidableLT α]

theorem mutEdgesStep_size (es : List (SpanEdge α)) (acc : Array Nat) (m : α × Nat) :
    (mutEdgesStep es acc m).size = acc.size := by
  unfold mutEdgesStep; split <;> simp

theorem mutEdgesStep_get (es : List (SpanEdge α)) (acc : Array Nat) (m : α × Nat) (i : Nat)
    (hi : i < acc.size) :
    aget (mutEdgesStep es acc m) i
      = aget acc i + (if edgeOfMut es m.1 m.2 = some i then 1 else 0) := by
  unfold mutEdgesStep
  cases h : edgeOfMut es m.1 m.2 with
  | none => simp
  | some j =>
    simp only [Option.some.injEq]
    by_cases hij : j = i
    · subst hij; rw [aget_aset_same _ _ _ hi, if_pos rfl]
    · rw [aget_aset_other _ _ _ _ (Ne.symm hij), if_neg hij, Nat.add_zero]

theorem mutEdges_fold_get (es : List (SpanEdge α)) (i : Nat) : ∀ (muts : List (α × Nat)) (acc : Array Nat),
    i < acc.size →
    aget (muts.foldl (mutEdgesStep es) acc) i
      = aget acc i + (muts.filter (fun m => decide (edgeOfMut es m.1 m.2 = some i))).length
  | [], _, _ => by simp
  | m :: ms, acc, hi => by
    simp only [List.foldl_cons]
    rw [mutEdges_fold_get es i ms _ (by rw [mutEdgesStep_size]; exact hi), mutEdgesStep_get es acc m i hi,
      List.filter_cons]
    by_cases h : edgeOfMut es m.1 m.2 = some i
    · simp [h]; omega
    · simp [h]

/-- **`get_mut_edges` counts, per edge, exactly the mutations lying on that edge.** -/
theorem mutEdges_get (n : Nat) (es : List (SpanEdge α)) (muts : List (α × Nat)) (i : Nat) (hi : i < n) :
    aget (mutEdges n es muts) i
      = (muts.filter (fun m => decide (edgeOfMut es m.1 m.2 = some i))).length := by
  unfold mutEdges
  rw [mutEdges_fold_get es i muts _ (by simpa using hi)]
  simp [aget, hi]

/-- a mutation whose node has no edge above it at its position has `edge == NULL` -/
theorem edgeOfMut_none (es : List (SpanEdge α)) (pos : α) (node : Nat)
    (h : ∀ e ∈ es, ¬ (e.c = node ∧ e.left ≤ pos ∧ pos < e.right)) : edgeOfMut es pos node = none := by
  unfold edgeOfMut
  rw [Option.map_eq_none_iff, List.find?_eq_none]
  intro e he hp
  apply h e he
  simpa [Bool.and_eq_true, beq_iff_eq, decide_eq_true_eq, and_assoc] using hp

/-- **A mutation with `edge == NULL` is counted nowhere.** -/
theorem mutEdges_skip_null (n : Nat) (es : List (SpanEdge α)) (m : α × Nat) (ms : List (α × Nat))
    (h : edgeOfMut es m.1 m.2 = none) : mutEdges n es (m :: ms) = mutEdges n es ms := by
  unfold mutEdges
  simp only [List.foldl_cons, mutEdgesStep, h]

end Mut

section Prior
variable {α : Type}

theorem forceSpace_space (toLog toLin : α → α) (s : Space) (p : PriorObj α) :
    (forceSpace toLog toLin s p).space = s := by
  unfold forceSpace
  cases hp : p.space <;> cases s <;> simp [hp]

theorem forceSpace_same (toLog toLin : α → α) (s : Space) (p : PriorObj α) (h : p.space = s) :
    forceSpace toLog toLin s p = p := by
  unfold forceSpace
  cases hp : p.space <;> cases s <;> simp_all

theorem runSeq_spaces (toLog toLin : α → α) : ∀ (ss : List Space) (p : PriorObj α),
    (runSeq toLog toLin ss p).map (·.space) = ss
  | [], _ => rfl
  | s :: rest, p => by
    simp only [runSeq, List.map_cons, runSeq_spaces toLog toLin rest, runPrior, forceSpace_space]

theorem forceSpace_roundtrip (toLog toLin : α → α) (p : PriorObj α) (hp : p.space = Space.lin)
    (h : ∀ row ∈ p.grid.toList, ∀ x ∈ row.toList, toLin (toLog x) = x) :
    forceSpace toLog toLin Space.lin (forceSpace toLog toLin Space.log p) = p := by
  unfold forceSpace
  simp only [hp]
  cases p with
  | mk sp grid =>
    simp only at hp h ⊢
    subst hp
    congr 1
    apply Array.ext
    · simp
    · intro i h1 h2
      simp only [Array.getElem_map]
      apply Array.ext
      · simp
      · intro j h3 h4
        simp only [Array.getElem_map]
        have h2' : i < grid.size := by simpa using h2
        have h4' : j < grid[i].size := by simpa using h4
        exact h grid[i] (by simp [Array.getElem_mem]) grid[i][j] (by simp [Array.getElem_mem])

end Prior
end Tsdate.Discrete
