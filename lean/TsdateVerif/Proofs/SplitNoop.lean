/-
`_split_disjoint_nodes` returns its input unchanged when every non-excluded node is already
contiguous (`split_noop`), and its output is contiguous (`out_contig`): together, idempotence.
-/
import TsdateVerif.Proofs.SplitPieces

namespace Tsdate.Split
set_option linter.unusedSectionVars false
set_option linter.unusedVariables false

variable {α : Type} [Inhabited α] [LinearOrder α]

/-- Edge `d` has `v` as parent or child. -/
def touches (d : SEdge α) (v : Nat) : Prop := d.parent = v ∨ d.child = v

/-- Every non-excluded node is present on an interval of positions: whenever `y` lies between the
left end of one of its edges and the right end of another, some edge of the node covers `y`.
(Independent of the order of the rows.) -/
def Contig (excl : Nat → Bool) (eds : List (SEdge α)) : Prop :=
  ∀ v, excl v = false → ∀ d ∈ eds, ∀ d' ∈ eds, touches d v → touches d' v →
    ∀ y, d.left ≤ y → y < d'.right → ∃ d'' ∈ eds, touches d'' v ∧ d''.left ≤ y ∧ y < d''.right

/-- The same on event lists. -/
def ContigEvs (excl : Nat → Bool) (evs : List (Ev α)) : Prop :=
  ∀ ev ∈ evs, ∀ ev' ∈ evs, ev.node = ev'.node → excl ev.node = false →
    ∀ y, ev.left ≤ y → y < ev'.right → ∃ ev'' ∈ evs, ev''.node = ev.node ∧ ev''.left ≤ y ∧ y < ev''.right

theorem noop_prefix {excl : Nat → Bool} {N E : Nat} {evs : List (Ev α)} (hok : EvsOK N E evs)
    (hc : ContigEvs excl evs) :
    ∀ P R, evs = P ++ R → ∀ n, (aphase1 excl N E P).seg n ≤ 0 := by
  intro P
  induction P using List.reverseRec with
  | nil =>
    intro R _ n
    simp only [aphase1, List.foldl_nil, a0]
    split_ifs <;> decide
  | append_singleton P ev ih =>
    intro R hPR n
    have hPR' : evs = P ++ (ev :: R) := by rw [hPR]; simp
    have ih' := ih (ev :: R) hPR'
    have hinv := inv_prefix (excl := excl) hok P (ev :: R) hPR'
    have hmem : ev ∈ evs := by rw [hPR']; simp
    have hfold : aphase1 excl N E (P ++ [ev]) = astep excl (aphase1 excl N E P) ev := by
      simp [aphase1, List.foldl_append]
    rw [hfold]
    by_cases hx : excl ev.node = true
    · rw [astep_excl hx]; exact ih' n
    · have hx : excl ev.node = false := by simpa using hx
      rw [astep_not_excl hx]
      show Function.update (aphase1 excl N E P).seg ev.node (newSeg (aphase1 excl N E P) ev) n ≤ (0 : Int)
      by_cases hne : n = ev.node
      · subst hne
        rw [Function.update_self]
        set a := aphase1 excl N E P with ha
        cases hr : a.right ev.node with
        | none =>
          have := hinv.segNone _ (hok.nodeLt ev hmem) hr
          simp [newSeg, hr, gtRight, this]
        | some r =>
          by_cases hgt : r < ev.left
          · exfalso
            obtain ⟨ev1, h1, hn1, _, hr1⟩ := hinv.rightAtt _ _ hr
            have h1mem : ev1 ∈ evs := by rw [hPR']; exact List.mem_append_left _ h1
            have hpos1 := hok.pos ev1 h1mem
            have hposev := hok.pos ev hmem
            obtain ⟨ev2, h2, hn2, hl2, hr2⟩ := hc ev1 h1mem ev hmem hn1 (by rw [hn1]; exact hx) r
              (by rw [← hr1]; exact le_of_lt hpos1) (lt_trans hgt hposev)
            rw [hPR', List.mem_append, List.mem_cons] at h2
            rcases h2 with h2 | h2 | h2
            · obtain ⟨r2, hr2', hle2⟩ := hinv.rightBd ev2 h2 (by rw [hn2, hn1]; exact hx)
              rw [hn2, hn1, hr] at hr2'
              cases hr2'
              exact absurd hr2 (not_lt.mpr hle2)
            · subst h2; exact absurd hgt (not_lt.mpr hl2)
            · have hs := hok.sorted
              rw [hPR'] at hs
              have := (List.pairwise_cons.mp (List.pairwise_append.mp hs).2.1).1 ev2 h2
              exact absurd hgt (not_lt.mpr (le_trans this hl2))
          · have : newSeg a ev = a.seg ev.node := by simp [newSeg, hr, gtRight, hgt]
            rw [this]; exact ih' _
      · rw [Function.update_of_ne hne]; exact ih' n

section Top
variable {N : Nat} (excl : Array Bool) {es : Array (SEdge α)} {ord : List Nat}

theorem mem_toList_iff (es : Array (SEdge α)) (d : SEdge α) :
    d ∈ es.toList ↔ ∃ e, e < es.size ∧ aget es e = d := by
  rw [Array.mem_toList_iff, Array.mem_iff_getElem]
  constructor
  · rintro ⟨i, hi, h⟩; exact ⟨i, hi, by simp [aget, hi, h]⟩
  · rintro ⟨e, he, h⟩; exact ⟨e, he, by simpa [aget, he] using h⟩

theorem touches_iff (es : Array (SEdge α)) (e : Nat) (v : Nat) :
    touches (aget es e) v ↔ ∃ r, oldNode es e r = v := by
  unfold touches oldNode
  constructor
  · rintro (h | h)
    · exact ⟨false, by simpa using h⟩
    · exact ⟨true, by simpa using h⟩
  · rintro ⟨r, h⟩
    cases r
    · exact Or.inl (by simpa using h)
    · exact Or.inr (by simpa using h)

theorem contigEvs_of_contig (hv : Valid N es ord) (hc : Contig (fun n => aget excl n) es.toList) :
    ContigEvs (fun n => aget excl n) (eventsOf es ord) := by
  intro ev hev ev' hev' hnode hx y hy1 hy2
  obtain ⟨e, he, r, rfl⟩ := (mem_eventsOf es ord ev).mp hev
  obtain ⟨e', he', r', rfl⟩ := (mem_eventsOf es ord ev').mp hev'
  have hE := hv.ordLt e he
  have hE' := hv.ordLt e' he'
  obtain ⟨d'', hd'', ht, hl, hr⟩ := hc (oldNode es e r) hx (aget es e)
    ((mem_toList_iff es _).mpr ⟨e, hE, rfl⟩) (aget es e') ((mem_toList_iff es _).mpr ⟨e', hE', rfl⟩)
    ((touches_iff es e _).mpr ⟨r, rfl⟩) ((touches_iff es e' _).mpr ⟨r', hnode.symm⟩) y hy1 hy2
  obtain ⟨e'', hE'', rfl⟩ := (mem_toList_iff es _).mp hd''
  obtain ⟨r'', hr''⟩ := (touches_iff es e'' _).mp ht
  exact ⟨evOf es e'' r'', mem_events_of_lt hv e'' hE'' r'', hr'', hl, hr⟩

/-- **No-op on contiguous input.** -/
theorem split_noop (hv : Valid N es ord) (hc : Contig (fun n => aget excl n) es.toList) :
    splitDisjoint N excl es ord =
      { parent := (List.range es.size).map (fun e => (aget es e).parent),
        child := (List.range es.size).map (fun e => (aget es e).child),
        order := List.range N, split := [] } := by
  obtain ⟨hinv, hsz⟩ := st1_facts excl hv
  have hok := evsOK hv
  have hseg : ∀ n, aget (st1 N excl es ord).seg n ≤ 0 := by
    intro n
    have := noop_prefix hok (contigEvs_of_contig excl hv hc) (eventsOf es ord) [] (by simp) n
    have h2 := (foldl_abs excl (eventsOf es ord)
      (fun ev hev => ⟨hok.nodeLt ev hev, hok.eLt ev hev⟩) (St.init N es.size) (sized_init N es.size)).1
    rw [a0_eq] at h2
    have h3 : (abs (st1 N excl es ord)).seg n = (aphase1 (fun n => aget excl n) N es.size (eventsOf es ord)).seg n := by
      unfold st1 phase1 aphase1; rw [h2]
    rw [← h3] at this
    exact this
  have hsplit : (alloc N (st1 N excl es ord).seg.toList).split = [] := by
    rw [alloc_split]
    apply splitFrom_nil_of_nonpos
    intro s hs
    obtain ⟨i, hi, rfl⟩ := List.getElem_of_mem hs
    have := hseg i
    simp only [aget] at this
    simp only [Array.length_toList] at hi
    simpa [hi] using this
  have hlab : ∀ e, e < es.size → ∀ r, labelOf N excl es ord e r ≤ 0 := by
    intro e he r
    have hr := label_range excl hv e he r
    cases hx : aget excl (oldNode es e r)
    · exact le_trans (hr.2 hx).2 (hseg _)
    · rw [hr.1 hx]; decide
  have hP : (splitDisjoint N excl es ord).parent = (List.range es.size).map (fun e => (aget es e).parent) := by
    apply List.ext_getElem
    · simp [splitDisjoint]
    · intro e h1 h2
      have he : e < es.size := by simpa [splitDisjoint] using h1
      have := newNode_eq N excl es ord e he false
      rw [newId_nonpos _ _ _ (hlab e he false)] at this
      simp only [newNode, oldNode, Bool.false_eq_true, ↓reduceIte] at this
      rw [List.getD_eq_getElem?_getD, List.getElem?_eq_getElem h1] at this
      simpa using this
  have hC : (splitDisjoint N excl es ord).child = (List.range es.size).map (fun e => (aget es e).child) := by
    apply List.ext_getElem
    · simp [splitDisjoint]
    · intro e h1 h2
      have he : e < es.size := by simpa [splitDisjoint] using h1
      have := newNode_eq N excl es ord e he true
      rw [newId_nonpos _ _ _ (hlab e he true)] at this
      simp only [newNode, oldNode, ↓reduceIte] at this
      rw [List.getD_eq_getElem?_getD, List.getElem?_eq_getElem h1] at this
      simpa using this
  have hO : (splitDisjoint N excl es ord).order = List.range N := by
    show List.range N ++ (alloc N (st1 N excl es ord).seg.toList).split = _
    rw [hsplit]; simp
  have hS : (splitDisjoint N excl es ord).split = [] := hsplit
  cases hh : splitDisjoint N excl es ord with
  | mk p c o s =>
    rw [hh] at hP hC hO hS
    simp only at hP hC hO hS
    rw [hP, hC, hO, hS]

/-! ### The output is contiguous -/

/-- `node_excluded` of the output node table: a piece of a sample is a sample. -/
def exclOut (excl : Array Bool) (o : Out) : Array Bool := (o.order.map (fun n => aget excl n)).toArray

theorem outEdges_size (es : Array (SEdge α)) (o : Out) : (outEdges es o).size = es.size := by
  simp [outEdges]

theorem outEdges_get (es : Array (SEdge α)) (o : Out) (e : Nat) (he : e < es.size) :
    aget (outEdges es o) e = { left := (aget es e).left, right := (aget es e).right,
                               parent := newNode o e false, child := newNode o e true } := by
  simp [outEdges, aget, he, newNode]

theorem oldNode_out (es : Array (SEdge α)) (o : Out) (e : Nat) (he : e < es.size) (r : Bool) :
    oldNode (outEdges es o) e r = newNode o e r := by
  unfold oldNode; rw [outEdges_get es o e he]; cases r <;> rfl

theorem newNode_lt_len (hv : Valid N es ord) (e : Nat) (he : e < es.size) (r : Bool) :
    newNode (splitDisjoint N excl es ord) e r < (splitDisjoint N excl es ord).order.length := by
  obtain ⟨hinv, hsz⟩ := st1_facts excl hv
  have hr := label_range excl hv e he r
  have hn := oldNode_lt hv e he r
  rw [newNode_eq N excl es ord e he r]
  have hord : (splitDisjoint N excl es ord).order
      = List.range N ++ (alloc N (st1 N excl es ord).seg.toList).split := rfl
  rw [hord]
  cases hx : aget excl (oldNode es e r)
  · have := order_newId N _ hsz.seg _ hn _ (hr.2 hx).2
    exact (List.getElem?_eq_some_iff.mp this).1
  · rw [hr.1 hx, newId_nonpos _ _ _ (by decide)]
    simp; omega

theorem exclOut_newNode (hv : Valid N es ord) (e : Nat) (he : e < es.size) (r : Bool) :
    aget (exclOut excl (splitDisjoint N excl es ord)) (newNode (splitDisjoint N excl es ord) e r)
      = aget excl (oldNode es e r) := by
  have hlt := newNode_lt_len excl hv e he r
  have ho := orig_newNode excl hv e he r
  unfold orig at ho
  unfold exclOut
  simp only [aget, List.getElem?_toArray, List.getElem?_map]
  rw [List.getD_eq_getElem?_getD] at ho
  rw [List.getElem?_eq_getElem hlt] at ho ⊢
  simp only [Option.getD_some] at ho
  simp [ho]

/-- The relabelled edge table is a valid input again (same `ord`). -/
theorem out_valid (hv : Valid N es ord) :
    Valid (splitDisjoint N excl es ord).order.length (outEdges es (splitDisjoint N excl es ord)) ord := by
  refine ⟨hv.ordNodup, ?_, ?_, ?_, ?_, ?_⟩
  · intro e he; rw [outEdges_size]; exact hv.ordLt e he
  · intro e he; rw [outEdges_size] at he; exact hv.ordAll e he
  · refine List.Pairwise.imp_of_mem ?_ hv.ordSorted
    intro a b ha hb hab
    rw [outEdges_get _ _ a (hv.ordLt a ha), outEdges_get _ _ b (hv.ordLt b hb)]
    exact hab
  · intro e he
    rw [outEdges_size] at he
    rw [outEdges_get _ _ e he]
    exact ⟨newNode_lt_len excl hv e he false, newNode_lt_len excl hv e he true⟩
  · intro e he
    rw [outEdges_size] at he
    rw [outEdges_get _ _ e he]
    exact hv.pos e he

/-- **Each output node's edges (as parent or child) cover one gap-free segment**, for every node
that is not a piece of an excluded (sample) node. -/
theorem out_contig (hv : Valid N es ord) :
    Contig (fun v => aget (exclOut excl (splitDisjoint N excl es ord)) v)
      (outEdges es (splitDisjoint N excl es ord)).toList := by
  intro v hx d hd d' hd' ht ht' y hy1 hy2
  obtain ⟨e, he, rfl⟩ := (mem_toList_iff _ _).mp hd
  obtain ⟨e', he', rfl⟩ := (mem_toList_iff _ _).mp hd'
  rw [outEdges_size] at he he'
  obtain ⟨r, hr⟩ := (touches_iff _ e v).mp ht
  obtain ⟨r', hr'⟩ := (touches_iff _ e' v).mp ht'
  rw [oldNode_out es _ e he] at hr
  rw [oldNode_out es _ e' he'] at hr'
  rw [outEdges_get _ _ e he] at hy1
  rw [outEdges_get _ _ e' he'] at hy2
  have hxe : aget excl (oldNode es e r) = false := by
    rw [← exclOut_newNode excl hv e he r, hr]; exact hx
  obtain ⟨e'', r'', he'', hn'', hc''⟩ := piece_convex excl hv e e' he he' r r' (by rw [hr, hr']) hxe y
    hy1 hy2
  refine ⟨aget (outEdges es (splitDisjoint N excl es ord)) e'',
    (mem_toList_iff _ _).mpr ⟨e'', by rw [outEdges_size]; exact he'', rfl⟩, ?_, ?_⟩
  · exact (touches_iff _ e'' v).mpr ⟨r'', by rw [oldNode_out es _ e'' he'', hn'', hr]⟩
  · rw [outEdges_get _ _ e'' he'']; exact hc''

end Top

/-! ### Local trees -/

/-- The local tree at position `x`: the `(parent, child)` pairs of the edges covering `x`, in table
order. -/
def treeAt (es : Array (SEdge α)) (x : α) : List (Nat × Nat) :=
  (List.range es.size).filterMap (fun e =>
    if (aget es e).left ≤ x ∧ x < (aget es e).right then some ((aget es e).parent, (aget es e).child)
    else none)

theorem filterMap_congr' {β γ : Type} {f g : β → Option γ} {l : List β}
    (h : ∀ x ∈ l, f x = g x) : l.filterMap f = l.filterMap g := by
  induction l with
  | nil => rfl
  | cons a l ih =>
    simp only [List.filterMap_cons, h a (List.mem_cons_self ..)]
    rw [ih (fun x hx => h x (List.mem_cons_of_mem _ hx))]

theorem treeAt_out {N : Nat} (excl : Array Bool) {es : Array (SEdge α)} {ord : List Nat}
    (hv : Valid N es ord) (x : α) :
    (treeAt (outEdges es (splitDisjoint N excl es ord)) x).map
        (fun pc => (orig (splitDisjoint N excl es ord) pc.1, orig (splitDisjoint N excl es ord) pc.2))
      = treeAt es x := by
  unfold treeAt
  rw [List.map_filterMap, outEdges_size]
  apply filterMap_congr'
  intro e he
  have he : e < es.size := by simpa using he
  rw [outEdges_get es _ e he]
  dsimp only
  split_ifs with h
  · have h1 := orig_newNode excl hv e he false
    have h2 := orig_newNode excl hv e he true
    simp only [oldNode, Bool.false_eq_true, ↓reduceIte] at h1 h2
    simp [h1, h2]
  · rfl

/-- New nodes are copies of non-excluded input nodes. -/
theorem split_mem {N : Nat} (excl : Array Bool) {es : Array (SEdge α)} {ord : List Nat}
    (hv : Valid N es ord) (n : Nat) (hn : n ∈ (splitDisjoint N excl es ord).split) :
    n < N ∧ aget excl n = false := by
  obtain ⟨hinv, hsz⟩ := st1_facts excl hv
  have hs : (splitDisjoint N excl es ord).split = splitFrom 0 (st1 N excl es ord).seg.toList :=
    alloc_split N _
  rw [hs] at hn
  obtain ⟨j, s, hj, hget, hpos⟩ := mem_splitFrom 0 _ n hn
  have hjn : j = n := by omega
  subst hjn
  have hlt : j < N := by
    have := (List.getElem?_eq_some_iff.mp hget).1
    simpa [hsz.seg] using this
  refine ⟨hlt, ?_⟩
  have hseg : (abs (st1 N excl es ord)).seg j = s := by
    have := toList_get N _ hsz.seg j hlt
    rw [hget] at this
    exact (Option.some.inj this).symm
  cases hr : (abs (st1 N excl es ord)).right j with
  | none =>
    have := hinv.segNone j hlt hr
    omega
  | some r =>
    obtain ⟨_, _, _, hx, _⟩ := hinv.rightAtt j r hr
    exact hx

/-! ### The node table -/

theorem reorderCol_get {β : Type} [Inhabited β] (col : Array β) (o : Out) (v : Nat)
    (hv : v < o.order.length) : (reorderCol col o.order)[v]? = some (aget col (orig o v)) := by
  unfold reorderCol orig
  rw [List.getElem?_map, List.getD_eq_getElem?_getD, List.getElem?_eq_getElem hv]
  rfl

theorem markSplit_size (bit : Nat) (flags : Array Nat) (split : List Nat) :
    (markSplit bit flags split).size = flags.size := by
  unfold markSplit
  induction split generalizing flags with
  | nil => rfl
  | cons a l ih => simp only [List.foldl_cons]; rw [ih]; simp

theorem markSplit_get (bit : Nat) (flags : Array Nat) (split : List Nat)
    (hs : ∀ j ∈ split, j < flags.size) (i : Nat) :
    aget (markSplit bit flags split) i = if i ∈ split then aget flags i ||| bit else aget flags i := by
  unfold markSplit
  induction split generalizing flags with
  | nil => simp
  | cons a l ih =>
    simp only [List.foldl_cons]
    have ha : a < flags.size := hs a (List.mem_cons_self ..)
    rw [ih (aset flags a (aget flags a ||| bit))
      (fun j hj => by rw [size_aset]; exact hs j (List.mem_cons_of_mem _ hj))]
    rw [aget_aset _ _ _ _ ha]
    by_cases hia : i = a
    · subst hia
      simp only [↓reduceIte, List.mem_cons, true_or]
      split_ifs
      · rw [Nat.or_assoc, Nat.or_self]
      · rfl
    · simp only [hia, ↓reduceIte, List.mem_cons, false_or]

end Tsdate.Split
