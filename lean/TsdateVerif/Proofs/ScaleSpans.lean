/-
C07 for the second pass of `SpansBySamples` (tsdate/prior.py): the spans a skipped unary node borrows from a
dated ancestor are span *fractions* of the ancestor times the span of the local tree, so the whole span table
has coordinate degree +1 and the span-weighted mixture prior built from it is unchanged.
-/
import TsdateVerif.Proofs.ScaleDiscrete

namespace Tsdate.Scale
set_option linter.unusedSectionVars false
set_option linter.unusedVariables false

variable {α : Type} [Field α] [LinearOrder α] [IsStrictOrderedRing α]

/-- every span of a table entry list multiplied by `c` -/
def scaleEntries (c : α) (l : List ((Nat × Nat) × α)) : List ((Nat × Nat) × α) := l.map (fun kv => (kv.1, c * kv.2))

/-- every span of the whole table multiplied by `c` -/
def scaleTable (c : α) (st : List (Nat × List ((Nat × Nat) × α))) : List (Nat × List ((Nat × Nat) × α)) :=
  st.map (fun ul => (ul.1, scaleEntries c ul.2))

/-- the visit in coordinates multiplied by `c` -/
def scaleVisit (c : α) (v : Visit α) : Visit α := { v with treeSpan := c * v.treeSpan }

theorem addKey_scale (c : α) (acc : List ((Nat × Nat) × α)) (key : Nat × Nat) (x : α) :
    addKey (scaleEntries c acc) key (c * x) = scaleEntries c (addKey acc key x) := by
  induction acc with
  | nil => simp [addKey, scaleEntries, mul_add]
  | cons kv rest ih =>
    obtain ⟨k, v⟩ := kv
    simp only [scaleEntries, List.map_cons, addKey] at ih ⊢
    by_cases h : k = key
    · simp only [h, if_true, List.map_cons, mul_add]
    · simp only [h, if_false, List.map_cons, ih]

theorem spansOf_scale (c : α) (st : List (Nat × List ((Nat × Nat) × α))) (u : Nat) :
    spansOf (scaleTable c st) u = scaleEntries c (spansOf st u) := by
  induction st with
  | nil => rfl
  | cons ul rest ih =>
    obtain ⟨v, l⟩ := ul
    simp only [scaleTable, List.map_cons, spansOf] at ih ⊢
    by_cases h : v = u
    · simp only [h, if_true]
    · simp only [h, if_false, ih]

theorem setSpans_scale (c : α) (st : List (Nat × List ((Nat × Nat) × α))) (u : Nat) (l : List ((Nat × Nat) × α)) :
    setSpans (scaleTable c st) u (scaleEntries c l) = scaleTable c (setSpans st u l) := by
  induction st with
  | nil => rfl
  | cons ul rest ih =>
    obtain ⟨v, l0⟩ := ul
    simp only [scaleTable, List.map_cons, setSpans] at ih ⊢
    by_cases h : v = u
    · simp only [h, if_true, List.map_cons]
    · simp only [h, if_false, List.map_cons, ih]

theorem borrow_fold_scale (c two ts S : α) (hc : c ≠ 0) (anc acc : List ((Nat × Nat) × α)) :
    (scaleEntries c anc).foldl (fun a kv => addKey a kv.1 (c * ts * (kv.2 / (c * S)) / two)) (scaleEntries c acc)
      = scaleEntries c (anc.foldl (fun a kv => addKey a kv.1 (ts * (kv.2 / S) / two)) acc) := by
  induction anc generalizing acc with
  | nil => rfl
  | cons kv rest ih =>
    simp only [scaleEntries, List.map_cons, List.foldl_cons] at ih ⊢
    have hx : c * ts * (c * kv.2 / (c * S)) / two = c * (ts * (kv.2 / S) / two) := by
      rw [mul_div_mul_left _ _ hc]; ring
    rw [hx]
    have := addKey_scale c acc kv.1 (ts * (kv.2 / S) / two)
    simp only [scaleEntries] at this
    rw [this]
    exact ih _

/-- one visit of the second pass has coordinate degree +1 -/
theorem secondPassVisit_scale (c two : α) (hc : c ≠ 0) (nodeSpans : List α)
    (st : List (Nat × List ((Nat × Nat) × α))) (v : Visit α) :
    secondPassVisit two (smul c nodeSpans) (scaleTable c st) (scaleVisit c v)
      = scaleTable c (secondPassVisit two nodeSpans st v) := by
  have hns : (smul c nodeSpans).getD v.anc 0 = c * nodeSpans.getD v.anc 0 := nth_smul c nodeSpans v.anc
  simp only [secondPassVisit, scaleVisit, spansOf_scale, hns]
  rw [borrow_fold_scale c two v.treeSpan _ hc]
  have hlast : c * v.treeSpan / two = c * (v.treeSpan / two) := by ring
  rw [hlast, addKey_scale, setSpans_scale]

/-- **The second pass is homogeneous of degree one in the coordinates** (induction over the visits). -/
theorem secondPass_scale (c two : α) (hc : c ≠ 0) (nodeSpans : List α)
    (st : List (Nat × List ((Nat × Nat) × α))) (visits : List (Visit α)) :
    secondPass two (smul c nodeSpans) (scaleTable c st) (visits.map (scaleVisit c))
      = scaleTable c (secondPass two nodeSpans st visits) := by
  unfold secondPass
  induction visits generalizing st with
  | nil => rfl
  | cons v rest ih =>
    simp only [List.map_cons, List.foldl_cons]
    rw [secondPassVisit_scale c two hc]
    exact ih _

/-- the mixture prior of a span table entry list depends on span ratios only -/
theorem mixtureKeyed_scale (c : α) (hc : c ≠ 0) (meanOf varOf : Nat × Nat → α) (l : List ((Nat × Nat) × α)) :
    mixtureKeyed meanOf varOf (scaleEntries c l) = mixtureKeyed meanOf varOf l := by
  have h1 : (scaleEntries c l).map (fun kv => meanOf kv.1) = l.map (fun kv => meanOf kv.1) := by
    simp [scaleEntries, List.map_map, Function.comp]
  have h2 : (scaleEntries c l).map (fun kv => varOf kv.1) = l.map (fun kv => varOf kv.1) := by
    simp [scaleEntries, List.map_map, Function.comp]
  have h3 : (scaleEntries c l).map (fun kv => kv.2) = smul c (l.map (fun kv => kv.2)) := by
    simp [scaleEntries, smul, List.map_map, Function.comp]
  unfold mixtureKeyed
  rw [h1, h2, h3]
  exact mixtureMeanVar_invariant c hc _ _ _

end Tsdate.Scale
