/-
`inside_marginal` for the model: marginal likelihood of the inside pass = brute-force normaliser.
-/
import TsdateVerif.Proofs.DiscreteAssemble

namespace Tsdate.Discrete
open Tsdate

section
variable {α : Type} [Inhabited α]

theorem insideFold_marg_false (o : Ops α) (inp : Input α) (gs : List (Nat × List DEdge))
    (s : InsideState α) : (insideFold o inp false gs s).marg = s.marg := by
  induction gs generalizing s with
  | nil => rfl
  | cons g rest ih =>
    show (insideFold o inp false rest (insideGroup o inp false s g)).marg = _
    rw [ih]
    by_cases hf : aget inp.fixed g.1 = true
    · rw [insideGroup_fixed o inp false s g hf]
    · rw [insideGroup_marg o inp false s g (by simpa using hf)]; rfl

end

section
variable {α : Type} [Field α] [Inhabited α]

theorem groupVal_length (o : Ops α) (inp : Input α) (ins : Array (Array α)) (g : Nat × List DEdge)
    (hprior : (aget inp.prior g.1).size = inp.G) : (groupVal o inp ins g).length = inp.G := by
  unfold groupVal
  have : (aget inp.prior g.1).toList.length = inp.G := by simpa using hprior
  revert this
  generalize (aget inp.prior g.1).toList = v
  induction g.2 generalizing v with
  | nil => intro h; exact h
  | cons e es ih =>
    intro h
    simp only [List.foldl_cons]
    apply ih
    simp [h, length_edgeMsg]

theorem sum_toList_eq_sumR (a : Array α) : a.toList.sum = sumR a.size (fun t => aget a t) := by
  rw [sum_eq_sumR a.toList]
  simp only [Array.length_toList]
  apply sumR_congr
  intro t _
  simp [aget, List.getD_eq_getElem?_getD]

theorem foldl_combine_eq_prod (o : Ops α) (ho : IsLinOps o) (l : List α) :
    l.foldl o.combine 1 = l.prod := by
  have hc : o.combine = fun x y => x * y := funext (fun x => funext (fun y => ho.combine x y))
  rw [hc]
  exact List.prod_eq_foldl.symm

/-- **The marginal likelihood of the inside pass is the exact normalising constant.**
Linear space, single tree (`singleTreeOK`), all span fractions 1, non-zero denominators
(standardised or not). -/
theorem inside_marginal_lin (o : Ops α) (ho : IsLinOps o) (inp : Input α) (std : Bool)
    (hok : singleTreeOK inp = true)
    (hfrac : ∀ e ∈ inp.edges, aget inp.frac e.id = 1)
    (hroots : inp.roots = [(rootOf inp, 1)])
    (hd : ∀ g ∈ groupRuns (·.p) inp.edges, aget (insidePass o inp std).1.denom g.1 ≠ 0) :
    (insidePass o inp std).2 = bruteZ inp.toTreeModel := by
  -- unpack the decidable hypothesis
  unfold singleTreeOK at hok
  simp only [Bool.and_eq_true, Bool.not_eq_true', List.all_eq_true, beq_iff_eq,
    Bool.or_eq_true, List.contains_iff_mem] at hok
  obtain ⟨⟨⟨⟨hne0, hnofix⟩, hgok⟩, hstars⟩, hsizes⟩ := hok
  set gs := groupRuns (·.p) inp.edges with hgs
  have hne : gs ≠ [] := by
    intro h; rw [h] at hne0; simp at hne0
  -- the final state
  have hfin : (insidePass o inp std).1 = insideFold o inp std gs (insideInit o inp) := rfl
  set fin := insideFold o inp std gs (insideInit o inp) with hfindef
  rw [hfin] at hd
  have hsz0 : (insideInit o inp).denom.size = (insideInit o inp).inside.size := by simp [insideInit]
  have hn0 : (insideInit o inp).inside.size = inp.numNodes := by simp [insideInit]
  have spec := insideFold_spec o inp std gs (insideInit o inp) hsz0 (by rw [hn0]; exact hgok)
  have hflat : gs.flatMap (·.2) = inp.edges := groupRuns_flatMap _ _
  have hkey := groupRuns_key (·.p) inp.edges
  -- local facts
  have hloc : ∀ g ∈ gs, aget inp.fixed g.1 = false ∧ (aget inp.prior g.1).size = inp.G ∧
      (∀ e ∈ g.2, e.p = g.1 ∧ aget inp.frac e.id = 1 ∧
        (aget inp.fixed e.c = false → (aget inp.lik e.id).size = triSize inp.G)) ∧
      aget fin.inside g.1 = ((groupVal o inp fin.inside g).map (fun v => o.ratio v (aget fin.denom g.1))).toArray ∧
      aget fin.denom g.1 ≠ 0 := by
    intro g hg
    have hf := hnofix g hg
    refine ⟨hf, (hsizes g hg).1, ?_, (spec g hg hf).2, hd g hg⟩
    intro e he
    have hmem : e ∈ inp.edges := by
      rw [← hflat]; exact List.mem_flatMap.mpr ⟨g, hg, he⟩
    refine ⟨hkey g hg e he, hfrac e hmem, ?_⟩
    intro hfc
    rcases (hsizes g hg).2 e he with h | h
    · rw [hfc] at h; exact absurd h (by simp)
    · exact h.1
  have tree := treeOK_of o ho inp fin.inside fin.denom gs hloc hgok hstars
  -- the spec side
  have hfilter : gs.filter (fun g => !aget inp.fixed g.1) = gs := by
    apply List.filter_eq_self.mpr
    intro g hg
    simp [hnofix g hg]
  have hnodes : inp.toTreeModel.nodes = gs.map (·.1) := by
    show ((groupRuns (·.p) inp.edges).filter _).map _ = _
    rw [← hgs, hfilter]
  have hedges : inp.toTreeModel.edges = gs.flatMap (·.2) := by
    show ((groupRuns (·.p) inp.edges).filter _).flatMap _ = _
    rw [← hgs, hfilter]
  have hlive : ∀ e ∈ inp.toTreeModel.edges, inp.toTreeModel.fixed e.c = true ∨ e.c ∈ inp.toTreeModel.nodes := by
    intro e he
    rw [hedges] at he
    obtain ⟨g, hg, heg⟩ := List.mem_flatMap.mp he
    rcases (hsizes g hg).2 e heg with h | h
    · exact Or.inl h
    · exact Or.inr (hnodes ▸ h.2)
  have hZ : bruteZ inp.toTreeModel
      = (gs.map (fun g => aget fin.denom g.1)).prod * sumR inp.G (insI fin.inside (gs.getLast hne).1) := by
    unfold bruteZ
    rw [sumAssign_eq_sumA]
    have hw : weight inp.toTreeModel = Wt inp.toTreeModel.fixed inp.toTreeModel.prior
        inp.toTreeModel.lik (gs.map (·.1)) (insI fin.inside) gs :=
      funext (fun x => weight_eq_Wt inp.toTreeModel gs (insI fin.inside) hnodes hedges hlive x)
    rw [hw, hnodes]
    exact elim_all inp.G _ _ _ (insI fin.inside) (fun u => aget fin.denom u) gs hne tree _
  rw [hZ]
  -- the model side
  have hroot : rootOf inp = (gs.getLast hne).1 := by
    unfold rootOf
    rw [← hgs, List.getLast?_eq_some_getLast hne]
    rfl
  have hlast : gs.getLast hne ∈ gs := List.getLast_mem hne
  have hrowsz : (aget fin.inside (gs.getLast hne).1).size = inp.G := by
    rw [(hloc _ hlast).2.2.2.1]
    simp only [List.size_toArray, List.length_map]
    exact groupVal_length o inp fin.inside _ (hloc _ hlast).2.1
  show inp.roots.foldl (rootTerm o fin.inside) fin.marg = _
  rw [hroots]
  simp only [List.foldl_cons, List.foldl_nil, rootTerm]
  rw [ho.combine, ho.sum, hroot]
  have hmap : (aget fin.inside (gs.getLast hne).1).toList.map (o.scale 1)
      = (aget fin.inside (gs.getLast hne).1).toList := by
    conv_rhs => rw [← List.map_id (aget fin.inside (gs.getLast hne).1).toList]
    apply List.map_congr_left
    intro v _
    exact ho.scale_one v
  rw [hmap, sum_toList_eq_sumR, hrowsz]
  congr 1
  -- marginal so far = product of the denominators
  cases std with
  | true =>
    have hm := insideFold_marg o inp gs (insideInit o inp) hsz0 (by rw [hn0]; exact hgok)
    rw [← hfindef] at hm
    rw [hm]
    unfold groupDenoms
    rw [hfilter]
    show List.foldl o.combine o.one _ = _
    rw [ho.one, foldl_combine_eq_prod o ho]
  | false =>
    have hm := insideFold_marg_false o inp gs (insideInit o inp)
    rw [← hfindef] at hm
    rw [hm]
    show o.one = _
    rw [ho.one]
    symm
    apply List.prod_eq_one
    intro x hx
    obtain ⟨g, hg, rfl⟩ := List.mem_map.mp hx
    have := (spec g hg (hnofix g hg)).1
    rw [← hfindef] at this
    rw [this]
    simp [ho.one]

end
end Tsdate.Discrete
