/-
Renumbering invariance of the concrete linear-space inside/outside model (`insideOutside` of
Model/Passes.lean): the composition "inside pass commutes with the renumbering ⇒ the inside rows and
denominators are transported ⇒ the outside pass commutes with the renumbering".
Used by Props/C38 and Props/C11.
-/
import TsdateVerif.Proofs.Passes
import TsdateVerif.Proofs.SortKeys

namespace Tsdate.Order
open Tsdate
set_option linter.unusedSectionVars false
set_option linter.unusedVariables false

section Relabel
variable {α : Type} [Inhabited α] [Field α] [LinearOrder α] [IsStrictOrderedRing α]

/-- `d'` is the numerical data `d` of the renumbered input: node-indexed data moved along `π` (on
the nodes `< n`), edge-indexed tables moved along `σ`, same grid, same `value ** fraction`. -/
structure DataRelabel (π σ : Nat → Nat) (n : Nat) (d d' : GridData α) : Prop where
  G : d'.G = d.G
  fixed : ∀ u, u < n → d'.fixed (π u) = d.fixed u
  prior : ∀ u, u < n → d'.prior (π u) = d.prior u
  likLower : ∀ i, d'.likLower (σ i) = d.likLower i
  likFixed : ∀ i, d'.likFixed (σ i) = d.likFixed i
  spanfrac : ∀ i, d'.spanfrac (σ i) = d.spanfrac i
  pow : d'.pow = d.pow

theorem lowerMsg_relabel (π σ : Nat → Nat) (n : Nat) (d d' : GridData α)
    (h : DataRelabel π σ n d d') (i : Nat) (v : List α) :
    lowerMsg d' (σ i) v = lowerMsg d i v := by
  unfold lowerMsg
  rw [h.G, h.spanfrac, h.likLower, h.pow]

theorem insideOps_relabel (π σ : Nat → Nat) (n : Nat) (d d' : GridData α)
    (h : DataRelabel π σ n d d') : OpsRelabel π σ n (insideOps d) (insideOps d') := by
  refine ⟨?_, ?_, ?_, ?_⟩
  · intro u hu
    simp only [insideOps, h.prior u hu]
  · intro e hs hd
    funext x v
    simp only [insideOps, insideMsg, relabelE, h.fixed e.src hs, h.G, h.spanfrac, h.likFixed, h.pow,
      lowerMsg_relabel π σ n d d' h]
  · intro u _; rfl
  · intro u hu
    simp only [insideOps, h.fixed u hu]

theorem outsideMsg_relabel (π σ : Nat → Nat) (n : Nat) (d d' : GridData α)
    (h : DataRelabel π σ n d d') (ins ins' : Nat → List α) (den den' : Nat → α)
    (hins : ∀ u, u < n → ins' (π u) = ins u) (hden : ∀ u, u < n → den' (π u) = den u)
    (std : Bool) (e : DEdge) (hs : e.src < n) (hd : e.dst < n) (x : List α) :
    outsideMsg d' ins' den' std (relabelE π σ e) x = outsideMsg d ins den std e x := by
  simp only [outsideMsg, relabelE, lowerMsg_relabel π σ n d d' h, hins _ hs, hins _ hd, hden _ hd,
    h.G, h.spanfrac, h.likLower, h.pow]

theorem outsideOps_relabel (π σ : Nat → Nat) (n : Nat) (d d' : GridData α)
    (h : DataRelabel π σ n d d') (ins ins' : Nat → List α) (den den' : Nat → α)
    (hins : ∀ u, u < n → ins' (π u) = ins u) (hden : ∀ u, u < n → den' (π u) = den u)
    (std : Bool) :
    OpsRelabel π σ n (outsideOps d ins den std) (outsideOps d' ins' den' std) := by
  refine ⟨?_, ?_, ?_, ?_⟩
  · intro u _
    simp only [outsideOps, h.G]
  · intro e hs hd
    funext x v
    simp only [outsideOps, outsideMsg_relabel π σ n d d' h ins ins' den den' hins hden std e hs hd]
  · intro u hu
    funext v
    simp only [outsideOps, hden u hu]
  · intro u hu
    simp only [outsideOps, h.fixed u hu]

theorem aget_range_map {γ : Type} [Inhabited γ] (f : Nat → γ) (n u : Nat) (hu : u < n) :
    aget ((Array.range n).map f) u = f u := by
  simp [aget, hu]

/-- a valid order of a pass, on the flat edge list (same as `C11.ValidPassOrder`) -/
structure ValidFlat (es : List DEdge) (n : Nat) : Prop where
  grouped : ((runsBy (·.dst) es).map gkey).Nodup
  flatDone : FlatDone (·.dst) (·.src) es
  inRange : ∀ e ∈ es, e.src < n ∧ e.dst < n

theorem pass_renumber {β : Type} [Inhabited β] {τ : Type} [LinearOrder τ] (π σ : Nat → Nat) (n : Nat)
    (hinj : ∀ u v, u < n → v < n → π u = π v → u = v) (hlt : ∀ u, u < n → π u < n)
    (ops ops' : PassOps β) (hrel : OpsRelabel π σ n ops ops') (hcomm : StepComm ops')
    (es es' : List DEdge) (hv : ValidFlat es n) (hv' : ValidFlat es' n)
    (hperm : es'.Perm (es.map (relabelE π σ)))
    (time' : Nat → τ) (hval' : ∀ e ∈ es', time' e.src < time' e.dst)
    (st st' : Array β) (hsz : st.size = n) (hsz' : st'.size = n)
    (hst : ∀ u, u < n → aget st' (π u) = aget st u) :
    ∀ u, u < n → aget (pass ops' st' es') (π u) = aget (pass ops st es) u := by
  unfold pass
  apply passGroups_renumber π σ n hinj hlt ops ops' hrel hcomm _
    (validGroups_runsBy es n hv.grouped hv.flatDone (fun e he => (hv.inRange e he).2)) ?_ _
    (validGroups_runsBy es' n hv'.grouped hv'.flatDone (fun e he => (hv'.inRange e he).2)) ?_ time'
    (by rw [runsBy_flatten]; exact hval') st st' hsz hsz' hst
  · intro g hg e he
    have hmem : e ∈ es := by
      rw [← runsBy_flatten (·.dst) es]; exact List.mem_flatten.mpr ⟨g, hg, he⟩
    exact hv.inRange e hmem
  · rw [runsBy_flatten, ← List.map_flatten, runsBy_flatten]
    exact hperm

/-- **The whole linear-space inside–outside computation commutes with renumbering**, for any
ignored set that is carried along by the renumbering, traversing the renumbered input in any valid
orders.  `time'` are the (renumbered) node times: children strictly younger than parents. -/
theorem insideOutside_renumber {τ : Type} [LinearOrder τ] (π σ : Nat → Nat) (n : Nat)
    (hinj : ∀ u v, u < n → v < n → π u = π v → u = v) (hlt : ∀ u, u < n → π u < n)
    (d d' : GridData α) (h : DataRelabel π σ n d d')
    (rootfrac rootfrac' : Nat → α) (hrf : ∀ u, u < n → rootfrac' (π u) = rootfrac u)
    (ign ign' : Nat → Bool) (hign : ∀ u, u < n → ign' (π u) = ign u) (std : Bool)
    (insO outO insO' outO' : List DEdge)
    (hvi : ValidFlat insO n) (hvo : ValidFlat outO n)
    (hvi' : ValidFlat insO' n) (hvo' : ValidFlat outO' n)
    (hpi : insO'.Perm (insO.map (relabelE π σ))) (hpo : outO'.Perm (outO.map (relabelE π σ)))
    (time' : Nat → τ) (hti : ∀ e ∈ insO', time' e.src < time' e.dst)
    (hto : ∀ e ∈ outO', time' e.dst < time' e.src) :
    ∀ u, u < n →
      aget (insideOutside d' n rootfrac' ign' std insO' outO').2 (π u)
        = aget (insideOutside d n rootfrac ign std insO outO).2 u := by
  -- inside pass
  have hins : ∀ u, u < n →
      aget (pass (insideOps d') (insideInit d' n) insO') (π u)
        = aget (pass (insideOps d) (insideInit d n) insO) u :=
    pass_renumber π σ n hinj hlt _ _ (insideOps_relabel π σ n d d' h) (insideOps_comm d')
      insO insO' hvi hvi' hpi time' hti _ _ (by simp [insideInit]) (by simp [insideInit])
      (by
        intro u hu
        simp only [insideInit]
        rw [aget_range_map _ _ _ (hlt u hu), aget_range_map _ _ _ hu, h.fixed u hu])
  -- outside pass
  simp only [insideOutside]
  apply pass_renumber (τ := τᵒᵈ) π σ n hinj hlt _ _
    (withIgnore_relabel π σ n _ _ ign ign'
      (outsideOps_relabel π σ n d d' h _ _ _ _
        (fun u hu => by rw [hins u hu]) (fun u hu => by rw [hins u hu]) std) hign)
    (withIgnore_comm _ ign' (outsideOps_comm d' _ _ std))
    outO outO' hvo hvo' hpo (fun u => OrderDual.toDual (time' u))
    (fun e he => OrderDual.toDual_lt_toDual.mpr (hto e he)) _ _
    (by simp [outsideInit]) (by simp [outsideInit])
  intro u hu
  simp only [outsideInit]
  rw [aget_range_map _ _ _ (hlt u hu), aget_range_map _ _ _ hu, h.G, hrf u hu]

end Relabel

end Tsdate.Order
