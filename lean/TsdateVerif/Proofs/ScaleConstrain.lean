/-
`_constrain_ages` is scale-equivariant (over the committed model `Model/Constrain.lean`):
times and `eps` in a unit `c` times smaller ⇒ the same branch of every comparison is taken in every
sweep and in the forced pass, and every output time is `c` times the original output.
-/
import TsdateVerif.Proofs.Constrain
import Mathlib.Tactic.Ring

namespace Tsdate.Scale
open Tsdate
set_option linter.unusedSectionVars false
set_option linter.unusedVariables false

variable {α : Type} [Inhabited α] [Field α] [LinearOrder α] [IsStrictOrderedRing α]

/-- `a'` is `a` with every (in-range) entry multiplied by `c` -/
def ARel (c : α) (a a' : Array α) : Prop :=
  a'.size = a.size ∧ ∀ i, i < a.size → aget a' i = c * aget a i

/-- the same for the array of cavity pairs -/
def CRel (c : α) (a a' : Array (α × α)) : Prop :=
  a'.size = a.size ∧ ∀ i, i < a.size → aget a' i = (c * (aget a i).1, c * (aget a i).2)

theorem ARel.aset {c : α} {a a' : Array α} (h : ARel c a a') (i : Nat) (v : α) :
    ARel c (aset a i v) (aset a' i (c * v)) := by
  refine ⟨by simp [h.1], ?_⟩
  intro j hj
  rw [size_aset] at hj
  by_cases hji : j = i
  · subst hji
    rw [aget_aset_same _ _ _ hj, aget_aset_same _ _ _ (by rw [h.1]; exact hj)]
  · rw [aget_aset_other _ _ _ _ hji, aget_aset_other _ _ _ _ hji]
    exact h.2 j hj

theorem CRel.aset {c : α} {a a' : Array (α × α)} (h : CRel c a a') (i : Nat) (v : α × α) :
    CRel c (aset a i v) (aset a' i (c * v.1, c * v.2)) := by
  refine ⟨by simp [h.1], ?_⟩
  intro j hj
  rw [size_aset] at hj
  by_cases hji : j = i
  · subst hji
    rw [aget_aset_same _ _ _ hj, aget_aset_same _ _ _ (by rw [h.1]; exact hj)]
  · rw [aget_aset_other _ _ _ _ hji, aget_aset_other _ _ _ _ hji]
    exact h.2 j hj

/-- the cavity update is homogeneous of degree one, and takes the same branch -/
theorem newCav_scale (c : α) (hc : 0 < c) (fc fp : Bool) (adj : α) :
    newCav fc fp (c * adj) = (c * (newCav fc fp adj).1, c * (newCav fc fp adj).2) := by
  unfold newCav
  by_cases h : 0 < adj
  · have h' : 0 < c * adj := mul_pos hc h
    rw [if_pos h, if_pos h']
    cases fc <;> cases fp <;> simp <;> ring_nf <;> simp
  · have h' : ¬ 0 < c * adj := fun h'' => h ((mul_pos_iff_of_pos_left hc).mp h'')
    rw [if_neg h, if_neg h']
    simp

/-- state relation of the alternating-projection phase -/
def SRel (c : α) (s s' : LSState α) : Prop := ARel c s.t s'.t ∧ CRel c s.cav s'.cav

theorem lsEdge_rel (c : α) (hc : 0 < c) (fixed : Array Bool) (s s' : LSState α) (i : Nat) (e : Edge)
    (h : SRel c s s') (hp : e.p < s.t.size) (hcc : e.c < s.t.size) (hi : i < s.cav.size) :
    SRel c (lsEdge fixed s i e) (lsEdge fixed s' i e) := by
  obtain ⟨ht, hcav⟩ := h
  have hcv := hcav.2 i hi
  -- step 1
  have r1 : ARel c (aset s.t e.c (aget s.t e.c - (aget s.cav i).1))
      (aset s'.t e.c (aget s'.t e.c - (aget s'.cav i).1)) := by
    have := ht.aset e.c (aget s.t e.c - (aget s.cav i).1)
    rwa [mul_sub, ← ht.2 e.c hcc, show c * (aget s.cav i).1 = (aget s'.cav i).1 by rw [hcv]] at this
  have s1 : (aset s.t e.c (aget s.t e.c - (aget s.cav i).1)).size = s.t.size := size_aset ..
  -- step 2
  have r2 : ARel c
      (aset (aset s.t e.c (aget s.t e.c - (aget s.cav i).1)) e.p
        (aget (aset s.t e.c (aget s.t e.c - (aget s.cav i).1)) e.p - (aget s.cav i).2))
      (aset (aset s'.t e.c (aget s'.t e.c - (aget s'.cav i).1)) e.p
        (aget (aset s'.t e.c (aget s'.t e.c - (aget s'.cav i).1)) e.p - (aget s'.cav i).2)) := by
    have := r1.aset e.p (aget (aset s.t e.c (aget s.t e.c - (aget s.cav i).1)) e.p - (aget s.cav i).2)
    rwa [mul_sub, ← r1.2 e.p (by rw [s1]; exact hp),
      show c * (aget s.cav i).2 = (aget s'.cav i).2 by rw [hcv]] at this
  generalize ht2 : (aset (aset s.t e.c (aget s.t e.c - (aget s.cav i).1)) e.p
        (aget (aset s.t e.c (aget s.t e.c - (aget s.cav i).1)) e.p - (aget s.cav i).2)) = t2 at r2
  generalize ht2' : (aset (aset s'.t e.c (aget s'.t e.c - (aget s'.cav i).1)) e.p
        (aget (aset s'.t e.c (aget s'.t e.c - (aget s'.cav i).1)) e.p - (aget s'.cav i).2)) = t2' at r2
  have s2 : t2.size = s.t.size := by rw [← ht2]; simp
  have hadj : aget t2' e.c - aget t2' e.p = c * (aget t2 e.c - aget t2 e.p) := by
    rw [r2.2 e.c (by rw [s2]; exact hcc), r2.2 e.p (by rw [s2]; exact hp), mul_sub]
  have hnc := newCav_scale c hc (aget fixed e.c) (aget fixed e.p) (aget t2 e.c - aget t2 e.p)
  generalize hcvn : newCav (aget fixed e.c) (aget fixed e.p) (aget t2 e.c - aget t2 e.p) = cvn at hnc
  have hcvn' : newCav (aget fixed e.c) (aget fixed e.p) (aget t2' e.c - aget t2' e.p)
      = (c * cvn.1, c * cvn.2) := by rw [hadj]; exact hnc
  -- step 3
  have r3 : ARel c (aset t2 e.c (aget t2 e.c + cvn.1)) (aset t2' e.c (aget t2' e.c + c * cvn.1)) := by
    have := r2.aset e.c (aget t2 e.c + cvn.1)
    rwa [mul_add, ← r2.2 e.c (by rw [s2]; exact hcc)] at this
  have s3 : (aset t2 e.c (aget t2 e.c + cvn.1)).size = s.t.size := by rw [size_aset, s2]
  -- step 4
  have r4 : ARel c
      (aset (aset t2 e.c (aget t2 e.c + cvn.1)) e.p (aget (aset t2 e.c (aget t2 e.c + cvn.1)) e.p + cvn.2))
      (aset (aset t2' e.c (aget t2' e.c + c * cvn.1)) e.p
        (aget (aset t2' e.c (aget t2' e.c + c * cvn.1)) e.p + c * cvn.2)) := by
    have := r3.aset e.p (aget (aset t2 e.c (aget t2 e.c + cvn.1)) e.p + cvn.2)
    rwa [mul_add, ← r3.2 e.p (by rw [s3]; exact hp)] at this
  refine ⟨?_, ?_⟩
  · show ARel c (lsEdge fixed s i e).t (lsEdge fixed s' i e).t
    simp only [lsEdge, ht2, ht2', hcvn, hcvn']
    exact r4
  · show CRel c (lsEdge fixed s i e).cav (lsEdge fixed s' i e).cav
    simp only [lsEdge, ht2, ht2', hcvn, hcvn']
    exact hcav.aset i cvn

theorem lsEdge_sizes (fixed : Array Bool) (s : LSState α) (i : Nat) (e : Edge) :
    (lsEdge fixed s i e).t.size = s.t.size ∧ (lsEdge fixed s i e).cav.size = s.cav.size := by
  simp [lsEdge]

theorem lsSweepFrom_rel (c : α) (hc : 0 < c) (fixed : Array Bool) (es : List Edge) (i : Nat)
    (s s' : LSState α) (h : SRel c s s') (hr : InRange s.t.size es)
    (hi : i + es.length ≤ s.cav.size) :
    SRel c (lsSweepFrom fixed i es s) (lsSweepFrom fixed i es s') := by
  induction es generalizing i s s' with
  | nil => exact h
  | cons e es ih =>
    obtain ⟨hp, hcc, _⟩ := hr.head
    have hi' : i < s.cav.size := by simp at hi; omega
    have hsz := lsEdge_sizes fixed s i e
    show SRel c (lsSweepFrom fixed (i + 1) es (lsEdge fixed s i e))
      (lsSweepFrom fixed (i + 1) es (lsEdge fixed s' i e))
    apply ih (i + 1) _ _ (lsEdge_rel c hc fixed s s' i e h hp hcc hi')
    · rw [hsz.1]; exact hr.tail
    · rw [hsz.2]; simp at hi; omega

theorem lsSweep_sizes (fixed : Array Bool) (es : List Edge) (i : Nat) (s : LSState α) :
    (lsSweepFrom fixed i es s).t.size = s.t.size ∧ (lsSweepFrom fixed i es s).cav.size = s.cav.size := by
  induction es generalizing i s with
  | nil => exact ⟨rfl, rfl⟩
  | cons e es ih =>
    have h1 := ih (i + 1) (lsEdge fixed s i e)
    have h2 := lsEdge_sizes fixed s i e
    exact ⟨h1.1.trans h2.1, h1.2.trans h2.2⟩

/-- the early-exit test gives the same answer -/
theorem allStrict_rel (c : α) (hc : 0 < c) (eps : α) (es : List Edge) (t t' : Array α)
    (h : ARel c t t') (hr : InRange t.size es) :
    allStrict (c * eps) es t' = allStrict eps es t := by
  unfold allStrict
  induction es with
  | nil => rfl
  | cons e es ih =>
    obtain ⟨hp, hcc, _⟩ := hr.head
    simp only [List.all_cons]
    rw [ih hr.tail, h.2 e.p hp, h.2 e.c hcc, ← mul_sub]
    congr 1
    exact decide_eq_decide.mpr (mul_lt_mul_iff_right₀ hc)

theorem forcedStep_rel (c : α) (hc : 0 < c) (ftest fadd ftest' fadd' : α → α)
    (hft : ∀ x, ftest' (c * x) = c * ftest x) (hfa : ∀ x, fadd' (c * x) = c * fadd x)
    (t t' : Array α) (e : Edge) (h : ARel c t t') (hp : e.p < t.size) (hcc : e.c < t.size) :
    ARel c (forcedStep ftest fadd t e) (forcedStep ftest' fadd' t' e) := by
  unfold forcedStep
  rw [h.2 e.p hp, h.2 e.c hcc, hft, hfa]
  by_cases hle : aget t e.p ≤ ftest (aget t e.c)
  · rw [if_pos hle, if_pos ((mul_le_mul_iff_right₀ hc).mpr hle)]
    exact h.aset e.p _
  · rw [if_neg hle, if_neg (fun h' => hle ((mul_le_mul_iff_right₀ hc).mp h'))]
    exact h

theorem forced_rel (c : α) (hc : 0 < c) (ftest fadd ftest' fadd' : α → α)
    (hft : ∀ x, ftest' (c * x) = c * ftest x) (hfa : ∀ x, fadd' (c * x) = c * fadd x)
    (es : List Edge) (t t' : Array α) (h : ARel c t t') (hr : InRange t.size es) :
    ARel c (forced ftest fadd t es) (forced ftest' fadd' t' es) := by
  induction es generalizing t t' with
  | nil => exact h
  | cons e es ih =>
    obtain ⟨hp, hcc, _⟩ := hr.head
    rw [forced_cons, forced_cons]
    apply ih _ _ (forcedStep_rel c hc ftest fadd ftest' fadd' hft hfa t t' e h hp hcc)
    rw [forcedStep_size]
    exact hr.tail

theorem constrainGo_rel (c : α) (hc : 0 < c) (ftest fadd ftest' fadd' : α → α)
    (hft : ∀ x, ftest' (c * x) = c * ftest x) (hfa : ∀ x, fadd' (c * x) = c * fadd x)
    (fixed : Array Bool) (eps : α) (es : List Edge) (n : Nat) (s s' : LSState α)
    (h : SRel c s s') (hr : InRange s.t.size es) (hcs : es.length ≤ s.cav.size) :
    ARel c (constrainGo ftest fadd fixed eps es n s)
      (constrainGo ftest' fadd' fixed (c * eps) es n s') := by
  induction n generalizing s s' with
  | zero => exact forced_rel c hc ftest fadd ftest' fadd' hft hfa es s.t s'.t h.1 hr
  | succ n ih =>
    unfold constrainGo
    rw [allStrict_rel c hc eps es s.t s'.t h.1 hr]
    by_cases hx : allStrict eps es s.t = true
    · simp only [hx, if_true]; exact h.1
    · simp only [hx, Bool.false_eq_true, if_false]
      have hsz := lsSweep_sizes fixed es 0 s
      apply ih
      · exact lsSweepFrom_rel c hc fixed es 0 s s' h hr (by simpa using hcs)
      · show InRange (lsSweepFrom fixed 0 es s).t.size es
        rw [hsz.1]; exact hr
      · show es.length ≤ (lsSweepFrom fixed 0 es s).cav.size
        rw [hsz.2]; exact hcs

/-- **`_constrain_ages` is equivariant.**  `t'` is `t` in a unit `c` times smaller, `eps` likewise,
the rounded additions of the forced pass commute with the change of unit ⇒ every output time is `c`
times the original one (same early exit, same forced assignments). -/
theorem constrainAges_rel (c : α) (hc : 0 < c) (ftest fadd ftest' fadd' : α → α)
    (hft : ∀ x, ftest' (c * x) = c * ftest x) (hfa : ∀ x, fadd' (c * x) = c * fadd x)
    (fixed : Array Bool) (eps : α) (es : List Edge) (t t' : Array α) (iters : Nat)
    (h : ARel c t t') (hr : InRange t.size es) :
    ARel c (constrainAges ftest fadd fixed eps es t iters)
      (constrainAges ftest' fadd' fixed (c * eps) es t' iters) := by
  unfold constrainAges
  apply constrainGo_rel c hc ftest fadd ftest' fadd' hft hfa
  · refine ⟨h, by simp, ?_⟩
    intro i hi
    have hi' : i < es.length := by simpa using hi
    simp [aget, hi']
  · exact hr
  · simp

end Tsdate.Scale
