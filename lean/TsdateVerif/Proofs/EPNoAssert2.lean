/-
C05, second half (continued): the loop body, the sweeps and un-regularised iterations never trip an assert when the
projections are valid-or-skip.
-/
import TsdateVerif.Proofs.EPNoAssert
import TsdateVerif.Proofs.EPStarInv

namespace Tsdate.EP
set_option linter.unusedSectionVars false
set_option linter.unusedVariables false

variable {α : Type} [Inhabited α] [Field α] [LinearOrder α] [IsStrictOrderedRing α]

/-! ### the request, branch by branch -/

section
variable (cfg : Cfg α) (net : Net α) (u : Bool) (i : Nat) (s : State α)

theorem prep_of_leaf (h : branchOf net.fixed (aget (parOf u net) i) (aget (chiOf u net) i) = .leaf) :
    prep cfg net u i s =
      ⟨.leaf, u, aget (parOf u net) i, aget (chiOf u net) i, aget net.lower (aget (parOf u net) i), 1,
        damp (aget s.post (aget (chiOf u net) i))
          (message (aget (facOf u s) i).l (aget s.scale (aget (chiOf u net) i))) cfg.minStep,
        pzero,
        cavity (aget s.post (aget (chiOf u net) i))
          (message (aget (facOf u s) i).l (aget s.scale (aget (chiOf u net) i)))
          (damp (aget s.post (aget (chiOf u net) i))
            (message (aget (facOf u s) i).l (aget s.scale (aget (chiOf u net) i))) cfg.minStep),
        dampLik (damp (aget s.post (aget (chiOf u net) i))
          (message (aget (facOf u s) i).l (aget s.scale (aget (chiOf u net) i))) cfg.minStep)
          (aget (likOf u net) i),
        dampOk (aget s.post (aget (chiOf u net) i))
          (message (aget (facOf u s) i).l (aget s.scale (aget (chiOf u net) i))) cfg.minStep⟩ := by
  unfold prep
  simp only [h]

theorem prep_of_twin (h : branchOf net.fixed (aget (parOf u net) i) (aget (chiOf u net) i) = .twin) :
    prep cfg net u i s =
      ⟨.twin, u, aget (parOf u net) i, aget (chiOf u net) i, aget net.lower (aget (chiOf u net) i),
        damp (aget s.post (aget (parOf u net) i))
          (message (aget (facOf u s) i).r (aget s.scale (aget (parOf u net) i))) cfg.minStep,
        1,
        cavity (aget s.post (aget (parOf u net) i))
          (message (aget (facOf u s) i).r (aget s.scale (aget (parOf u net) i)))
          (damp (aget s.post (aget (parOf u net) i))
            (message (aget (facOf u s) i).r (aget s.scale (aget (parOf u net) i))) cfg.minStep),
        pzero,
        dampLik (damp (aget s.post (aget (parOf u net) i))
          (message (aget (facOf u s) i).r (aget s.scale (aget (parOf u net) i))) cfg.minStep)
          (aget (likOf u net) i),
        dampOk (aget s.post (aget (parOf u net) i))
          (message (aget (facOf u s) i).r (aget s.scale (aget (parOf u net) i))) cfg.minStep⟩ := by
  unfold prep
  simp only [h]

/-- The common step of the two-ended update: `min(_damp(parent), _damp(child))`. -/
def bothStep (cfg : Cfg α) (net : Net α) (u : Bool) (i : Nat) (s : State α) : α :=
  if damp (aget s.post (aget (chiOf u net) i))
        (message (aget (facOf u s) i).l (aget s.scale (aget (chiOf u net) i))) cfg.minStep <
      damp (aget s.post (aget (parOf u net) i))
        (message (aget (facOf u s) i).r (aget s.scale (aget (parOf u net) i))) cfg.minStep
  then damp (aget s.post (aget (chiOf u net) i))
        (message (aget (facOf u s) i).l (aget s.scale (aget (chiOf u net) i))) cfg.minStep
  else damp (aget s.post (aget (parOf u net) i))
        (message (aget (facOf u s) i).r (aget s.scale (aget (parOf u net) i))) cfg.minStep

theorem prep_of_both (h : branchOf net.fixed (aget (parOf u net) i) (aget (chiOf u net) i) = .both) :
    prep cfg net u i s =
      ⟨.both, u, aget (parOf u net) i, aget (chiOf u net) i, 0, bothStep cfg net u i s, bothStep cfg net u i s,
        cavity (aget s.post (aget (parOf u net) i))
          (message (aget (facOf u s) i).r (aget s.scale (aget (parOf u net) i))) (bothStep cfg net u i s),
        cavity (aget s.post (aget (chiOf u net) i))
          (message (aget (facOf u s) i).l (aget s.scale (aget (chiOf u net) i))) (bothStep cfg net u i s),
        dampLik (bothStep cfg net u i s) (aget (likOf u net) i),
        dampOk (aget s.post (aget (parOf u net) i))
            (message (aget (facOf u s) i).r (aget s.scale (aget (parOf u net) i))) cfg.minStep &&
          dampOk (aget s.post (aget (chiOf u net) i))
            (message (aget (facOf u s) i).l (aget s.scale (aget (chiOf u net) i))) cfg.minStep⟩ := by
  unfold prep bothStep
  simp only [h]

theorem prep_of_skip (h : branchOf net.fixed (aget (parOf u net) i) (aget (chiOf u net) i) = .skip) :
    (prep cfg net u i s).branch = .skip ∧ (prep cfg net u i s).ok = true := by
  unfold prep
  simp only [h]
  constructor <;> first | rfl | trivial

end

/-! ### what the invariant gives at one end -/

/-- Under `Good`: the posterior of `n` and the message in a slot addressed to `n` are both zero, or the posterior
is proper. -/
theorem good_end (cfg : Cfg α) (net : Net α) (N : Nat) (s : State α) (hg : Good cfg net s N) (u : Bool)
    (i : Nat) (hi : i < (facOf u s).size) (n : Nat) (hn : n < N) (slotL : Bool)
    (haddr : (if slotL then aget (chiOf u net) i else aget (parOf u net) i) = n) :
    (aget s.post n = 0 ∧
      message (if slotL then (aget (facOf u s) i).l else (aget (facOf u s) i).r) (aget s.scale n) = 0) ∨
    Proper (aget s.post n) := by
  rcases hg.ok n hn with h0 | ⟨hp, _, _⟩
  · left
    refine ⟨h0, ?_⟩
    have := hg.zc n hn h0 u i hi
    cases slotL
    · simp only [Bool.false_eq_true, if_false] at haddr ⊢
      rw [this.1 haddr, message_zero]
    · simp only [if_true] at haddr ⊢
      rw [this.2 haddr, message_zero]
  · exact Or.inr hp

theorem damp_pos_of (x y : α × α) (s : α) (hs0 : 0 < s) (hs1 : s < 1) (h : (x = 0 ∧ y = 0) ∨ Proper x) :
    0 < damp x y s := by
  rcases h with ⟨hx, hy⟩ | hp
  · have : damp x y s = 1 := by
      unfold damp
      rw [if_pos]
      rw [Bool.and_eq_true]
      exact ⟨(pIsZero_iff y).2 hy, (pIsZero_iff x).2 hx⟩
    rw [this]; exact one_pos
  · exact (damp_range x y s hs0 hs1 hp.1 hp.2).1

/-! ### `_rescale_factors` keeps the invariant -/

theorem rescaleFactors_good (cfg : Cfg α) (net : Net α) (N : Nat) (s : State α) (hg : Good cfg net s N) :
    Good cfg net (rescaleFactors net s) N := by
  have hsz := hg.sizes
  refine ⟨⟨?_, ?_, hsz.post, ?_, ?_⟩, ?_, ?_⟩
  · simp [rescaleFactors, hsz.node]
  · simp [rescaleFactors, hsz.scale]
  · simp [rescaleFactors, hsz.edge]
  · simp [rescaleFactors, hsz.block]
  · intro n hn; exact hg.ok n hn
  · intro n hn h0 u i hi
    have hold := hg.zc n hn h0 u
    cases u
    · simp only [facOf, Bool.false_eq_true, if_false, rescaleFactors, Array.size_mapIdx] at hi hold ⊢
      rw [aget_mapIdx _ _ _ hi]
      obtain ⟨h1, h2⟩ := hold i hi
      exact ⟨fun h => by rw [h1 h, message_zero], fun h => by rw [h2 h, message_zero]⟩
    · simp only [facOf, if_true, rescaleFactors, Array.size_mapIdx] at hi hold ⊢
      rw [aget_mapIdx _ _ _ hi]
      obtain ⟨h1, h2⟩ := hold i hi
      exact ⟨fun h => by rw [h1 h, message_zero], fun h => by rw [h2 h, message_zero]⟩

theorem tinyCheck_good (cfg : Cfg α) (net : Net α) (N : Nat) (u : Bool) (i : Nat) (s : State α)
    (hg : Good cfg net s N) : Good cfg net (tinyCheck cfg net u i s) N := by
  unfold tinyCheck
  split_ifs
  · exact rescaleFactors_good cfg net N s hg
  · exact hg

end Tsdate.EP
