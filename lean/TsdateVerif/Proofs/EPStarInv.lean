/-
The star invariant behind C20: on a star input without capping, after an edge has been visited its message equals
its likelihood `(y, μ·span)`, all scales stay 1, and the posterior is the sum of the visited edges' likelihoods.
-/
import TsdateVerif.Proofs.EPStar
import TsdateVerif.Spec.EPStar

namespace Tsdate.EP
set_option linter.unusedSectionVars false
set_option linter.unusedVariables false

variable {α : Type} [Inhabited α] [Field α] [LinearOrder α] [IsStrictOrderedRing α]

/-- Shape of the edge table on a star input: leafward messages 0, rootward message 0 (not yet visited) or the
edge's likelihood, the latter for every edge in `V`. -/
def StarRows (net : Net α) (fac : Array (Msg α)) (V : Nat → Prop) : Prop :=
  ∀ k, k < net.ep.size →
    (aget fac k).l = 0 ∧ ((aget fac k).r = 0 ∨ (aget fac k).r = aget net.elik k) ∧
      (V k → (aget fac k).r = aget net.elik k)

/-- Facts about the accumulated messages of a `StarRows` table. -/
theorem starRows_sum (net : Net α) (N : Nat) (hnet : StarNet net N) (fac : Array (Msg α)) (V : Nat → Prop)
    (hrows : StarRows net fac V) (p : Nat) (K : Nat) (hK : K ≤ net.ep.size) :
    let A := accTo net.ep net.ec fac p 0 K
    (0 ≤ A.1 ∧ 0 ≤ A.2) ∧ A.1 ≤ (likSum net p K).1 ∧ (A = 0 ∨ 0 < A.2) ∧
      (∀ i, i < K → aget net.ep i = p → (aget fac i).r = aget net.elik i →
        (aget net.elik i).1 ≤ A.1 ∧ (aget net.elik i).2 ≤ A.2) ∧
      ((∀ i, i < K → aget net.ep i = p → (aget fac i).r = aget net.elik i) → A = likSum net p K) := by
  induction K with
  | zero =>
    refine ⟨⟨le_rfl, le_rfl⟩, le_rfl, Or.inl rfl, ?_, fun _ => rfl⟩
    intro i hi; omega
  | succ k ih =>
    have hk : k < net.ep.size := by omega
    obtain ⟨⟨h1, h2⟩, h3, h4, h5, h6⟩ := ih (by omega)
    obtain ⟨hl, hr, _⟩ := hrows k hk
    have hy := hnet.yNonneg k hk
    have hmu := hnet.muPos k hk
    -- the contribution of row k
    have hrow : rowC net.ep net.ec fac p k = if aget net.ep k = p then (aget fac k).r else 0 := by
      simp only [rowC, hl, ite_self, add_zero]
    simp only [accTo_succ, hrow, likSum]
    by_cases hp : aget net.ep k = p
    · simp only [if_pos hp]
      rcases hr with hr0 | hrl
      · -- not yet visited: contributes 0
        simp only [hr0, add_zero]
        refine ⟨⟨h1, h2⟩, ?_, h4, ?_, ?_⟩
        · simp only [Prod.fst_add]; linarith
        · intro i hi hpi hri
          by_cases hik : i = k
          · subst hik
            rw [hr0] at hri
            have : (aget net.elik i).2 = 0 := by rw [← hri]; rfl
            linarith
          · exact h5 i (by omega) hpi hri
        · intro hall
          have := hall k (by omega) hp
          rw [hr0] at this
          have : (aget net.elik k).2 = 0 := by rw [← this]; rfl
          linarith
      · -- visited: contributes the likelihood
        simp only [hrl]
        refine ⟨⟨?_, ?_⟩, ?_, Or.inr ?_, ?_, ?_⟩
        · simp only [Prod.fst_add]; linarith
        · simp only [Prod.snd_add]; linarith
        · simp only [Prod.fst_add]; linarith
        · simp only [Prod.snd_add]; linarith
        · intro i hi hpi hri
          by_cases hik : i = k
          · subst hik
            simp only [Prod.fst_add, Prod.snd_add]
            constructor <;> linarith
          · have := h5 i (by omega) hpi hri
            simp only [Prod.fst_add, Prod.snd_add]
            constructor <;> linarith
        · intro hall
          rw [h6 (fun i hi => hall i (by omega))]
    · simp only [if_neg hp, add_zero]
      refine ⟨⟨h1, h2⟩, h3, h4, ?_, ?_⟩
      · intro i hi hpi hri
        by_cases hik : i = k
        · subst hik; exact absurd hpi hp
        · exact h5 i (by omega) hpi hri
      · intro hall
        exact h6 (fun i hi => hall i (by omega))

/-- The invariant of a star run (no capping). -/
structure StarInv (net : Net α) (s : State α) (N : Nat) (V : Nat → Prop) : Prop where
  inv : Inv net s N
  scale1 : ∀ n, n < N → aget s.scale n = 1
  node0 : ∀ n, n < N → (aget s.node n).r = 0 ∧ (aget s.node n).l = 0
  rows : StarRows net s.edge V

theorem netOK_of_star (net : Net α) (N : Nat) (h : StarNet net N) : NetOK net N :=
  ⟨fun i hi => (h.inRange i hi).1, fun i hi => (h.inRange i hi).2,
   fun i hi => by rw [h.noBlocks] at hi; omega, fun i hi => by rw [h.noBlocks] at hi; omega⟩

/-- On a star state the posterior of `p` is the accumulated edge messages. -/
theorem star_post (net : Net α) (s : State α) (N : Nat) (V : Nat → Prop) (hnet : StarNet net N)
    (h : StarInv net s N V) (p : Nat) (hp : p < N) :
    aget s.post p = accTo net.ep net.ec s.edge p 0 net.ep.size := by
  rw [h.inv.asm p hp, h.scale1 p hp, message_one, assemble_eq]
  have hb : tot net.bj net.bk s.block p = 0 := by
    unfold tot
    rw [h.inv.sizes.block, hnet.noBlocks]
    rfl
  rw [hb, (h.node0 p hp).1, (h.node0 p hp).2]
  simp only [tot, h.inv.sizes.edge, add_zero]

/-! ### one star update -/

theorem branchOf_root_of (fx : Array Bool) (p c : Nat) (hp : aget fx p = false) (hc : aget fx c = true) :
    branchOf fx p c = .root := by
  unfold branchOf
  simp [hp, hc]

theorem prep_of_root (cfg : Cfg α) (net : Net α) (u : Bool) (i : Nat) (s : State α)
    (h : branchOf net.fixed (aget (parOf u net) i) (aget (chiOf u net) i) = .root) :
    prep cfg net u i s =
      ⟨.root, u, aget (parOf u net) i, aget (chiOf u net) i, aget net.lower (aget (chiOf u net) i),
        damp (aget s.post (aget (parOf u net) i))
          (message (aget (facOf u s) i).r (aget s.scale (aget (parOf u net) i))) cfg.minStep,
        1,
        cavity (aget s.post (aget (parOf u net) i))
          (message (aget (facOf u s) i).r (aget s.scale (aget (parOf u net) i)))
          (damp (aget s.post (aget (parOf u net) i))
            (message (aget (facOf u s) i).r (aget s.scale (aget (parOf u net) i))) cfg.minStep),
        pzero,
        dampLik (damp (aget s.post (aget (parOf u net) i))
          (message (aget (facOf u s) i).r (aget s.scale (aget (parOf u net) i))) cfg.minStep)
          (aget (likOf u net) i),
        dampOk (aget s.post (aget (parOf u net) i))
          (message (aget (facOf u s) i).r (aget s.scale (aget (parOf u net) i))) cfg.minStep⟩ := by
  unfold prep
  simp only [h]

/-- Unvisited edge (message 0): full step, conjugate projection, new message = the edge's likelihood. -/
theorem star_update_fresh (x lik : α × α) (s : α) (hs0 : 0 < s) (hs1 : s < 1)
    (hx : x = 0 ∨ (0 ≤ x.1 ∧ 0 < x.2)) (hy : 0 ≤ lik.1) (hmu : 0 < lik.2) :
    damp x (message (0 : α × α) 1) s = 1 ∧
      (rootwardT0 (cavity x (message (0 : α × α) 1) 1) (dampLik 1 lik)).getD
          (cavity x (message (0 : α × α) 1) 1) = x + lik ∧
      newFactor (0 : α × α) 1 (x + lik) (cavity x (message (0 : α × α) 1) 1) 1 = lik := by
  have hm : message (0 : α × α) 1 = 0 := message_zero 1
  have hcav : cavity x (0 : α × α) 1 = x := by
    apply Prod.ext <;> simp [cavity]
  have hlik : dampLik 1 lik = lik := by
    apply Prod.ext <;> simp [dampLik]
  rw [hm, hcav, hlik]
  refine ⟨?_, ?_, ?_⟩
  · rcases hx with hx | ⟨hx1, hx2⟩
    · unfold damp
      rw [if_pos]
      rw [Bool.and_eq_true]
      exact ⟨(pIsZero_iff 0).2 rfl, (pIsZero_iff x).2 hx⟩
    · by_cases hz : (pIsZero (0 : α × α) && pIsZero x) = true
      · unfold damp; rw [if_pos hz]
      · rw [damp_eq x 0 s hz]
        have ha : dampCand (1 + x.1) (0 : α × α).1 s = 1 := by
          unfold dampCand; rw [if_pos]; simp only [Prod.fst_zero, sub_zero]; nlinarith
        have hb : dampCand x.2 (0 : α × α).2 s = 1 := by
          unfold dampCand; rw [if_pos]; simp only [Prod.snd_zero, sub_zero]; nlinarith
        rw [ha, hb]; simp
  · have h1 : 0 < x.1 + 1 + lik.1 := by
      rcases hx with hx | ⟨hx1, _⟩
      · rw [hx]; simp only [Prod.fst_zero]; linarith
      · linarith
    have h2 : 0 < lik.2 + x.2 := by
      rcases hx with hx | ⟨_, hx2⟩
      · rw [hx]; simp only [Prod.snd_zero]; linarith
      · linarith
    rw [rootwardT0_conj x lik h1 h2]
    rfl
  · apply Prod.ext <;> simp [newFactor]

/-- Visited edge (message = its likelihood): for *any* damping the projection returns the old posterior and the
message stays the likelihood. -/
theorem star_update_again (x lik : α × α) (d : α) (hx1 : 0 ≤ x.1) (hx2 : 0 < x.2) :
    (rootwardT0 (cavity x (message lik 1) d) (dampLik d lik)).getD (cavity x (message lik 1) d) = x ∧
      newFactor lik d x (cavity x (message lik 1) d) 1 = lik := by
  have hm : message lik 1 = lik := message_one lik
  rw [hm]
  constructor
  · have h1 : 0 < (cavity x lik d).1 + 1 + (dampLik d lik).1 := by
      simp only [cavity, dampLik]; linarith
    have h2 : 0 < (dampLik d lik).2 + (cavity x lik d).2 := by
      simp only [cavity, dampLik]; linarith
    rw [rootwardT0_conj _ _ h1 h2]
    apply Prod.ext <;> simp [cavity, dampLik]
  · apply Prod.ext <;> simp [newFactor, cavity] <;> ring

end Tsdate.EP
