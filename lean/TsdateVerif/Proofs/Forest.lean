/-
Forests given by parent pointers (`nodes_parent` of `_count_mutations`): the descendant relation, what
linking a root under a node does to it, and counting marked nodes below a node.  Pure combinatorics
used by the size-biased part of C24 (Proofs/CountMutSB.lean).
-/
import Mathlib.Order.Basic
import Mathlib.Order.Lattice
import Mathlib.Tactic.SplitIfs
import Mathlib.Data.List.Basic
import TsdateVerif.Model.CountMut

namespace Tsdate.CountMut
set_option linter.unusedSectionVars false
set_option linter.unusedVariables false

/-- `Below par u v`: `u` is `v` or an ancestor of `v` along the parent pointers `par`
(equivalently: `v` is at or below `u`). -/
inductive Below (par : Nat → Option Nat) (u : Nat) : Nat → Prop
  | refl : Below par u u
  | step {v p : Nat} : par v = some p → Below par u p → Below par u v

namespace Below

theorem trans {par : Nat → Option Nat} {a b c : Nat} (h1 : Below par a b) (h2 : Below par b c) :
    Below par a c := by
  induction h2 with
  | refl => exact h1
  | step hp _ ih => exact step hp ih

/-- the ancestors of a node form a chain -/
theorem chain {par : Nat → Option Nat} {a b v : Nat} (ha : Below par a v) (hb : Below par b v) :
    Below par a b ∨ Below par b a := by
  induction ha with
  | refl => exact Or.inr hb
  | @step v p hp ha' ih =>
    cases hb with
    | refl => exact Or.inl (step hp ha')
    | @step _ p' hp' hb' =>
      have : p' = p := by rw [hp] at hp'; exact (Option.some.inj hp').symm
      subst this
      exact ih hb'

theorem of_root {par : Nat → Option Nat} {u c : Nat} (hc : par c = none) (h : Below par u c) :
    u = c := by
  cases h with
  | refl => rfl
  | step hp _ => rw [hc] at hp; exact absurd hp (by simp)

end Below

section Time
variable {β : Type} [LinearOrder β]

/-- every parent is strictly older than its child -/
def Older (time : Nat → β) (par : Nat → Option Nat) : Prop :=
  ∀ c p, par c = some p → time c < time p

theorem Below.time_le {time : Nat → β} {par : Nat → Option Nat} (ho : Older time par) {u v : Nat}
    (h : Below par u v) : time v ≤ time u := by
  induction h with
  | refl => exact le_refl _
  | step hp _ ih => exact le_trans (le_of_lt (ho _ _ hp)) ih

/-- a node is not below its own child -/
theorem not_below_parent {time : Nat → β} {par : Nat → Option Nat} (ho : Older time par) {v p : Nat}
    (hp : par v = some p) : ¬ Below par v p := by
  intro h
  exact absurd (lt_of_lt_of_le (ho _ _ hp) (h.time_le ho)) (lt_irrefl _)

theorem below_iff_parent {par : Nat → Option Nat} {u v p : Nat} (hp : par v = some p) :
    Below par u v ↔ u = v ∨ Below par u p := by
  constructor
  · intro h
    cases h with
    | refl => exact Or.inl rfl
    | @step _ p' hp' h' =>
      have : p' = p := by rw [hp] at hp'; exact (Option.some.inj hp').symm
      subst this
      exact Or.inr h'
  · rintro (rfl | h)
    · exact Below.refl
    · exact Below.step hp h

end Time

/-! ### linking a root `c0` under `p0` -/

/-- the parent pointers after `nodes_parent[c0] = p0` -/
def link (Q : Nat → Option Nat) (c0 p0 : Nat) : Nat → Option Nat :=
  fun c => if c = c0 then some p0 else Q c

section Link
variable {Q : Nat → Option Nat} {c0 p0 : Nat}

theorem below_link_mono (hc : Q c0 = none) {u v : Nat} (h : Below Q u v) :
    Below (link Q c0 p0) u v := by
  induction h with
  | refl => exact Below.refl
  | @step v p hp _ ih =>
    have hv : v ≠ c0 := fun hh => by rw [hh, hc] at hp; exact absurd hp (by simp)
    exact Below.step (by simp [link, hv, hp]) ih

/-- outside the subtree of `c0` nothing changes -/
theorem below_link_outside (hc : Q c0 = none) {u v : Nat} (hv : ¬ Below Q c0 v) :
    Below (link Q c0 p0) u v ↔ Below Q u v := by
  constructor
  · intro h
    induction h with
    | refl => exact Below.refl
    | @step v p hp _ ih =>
      have hvc : v ≠ c0 := fun hh => hv (hh ▸ Below.refl)
      have hp' : Q v = some p := by simpa [link, hvc] using hp
      have : ¬ Below Q c0 p := fun hh => hv (Below.step hp' hh)
      exact Below.step hp' (ih this)
  · exact below_link_mono hc

/-- inside the subtree of `c0` the new ancestors are those of `p0` -/
theorem below_link_inside (hc : Q c0 = none) {u v : Nat} (hv : Below Q c0 v) :
    Below (link Q c0 p0) u v ↔ Below Q u v ∨ Below (link Q c0 p0) u p0 := by
  constructor
  · intro h
    induction h with
    | refl => exact Or.inl Below.refl
    | @step v p hp _ ih =>
      by_cases hvc : v = c0
      · subst hvc
        have : p = p0 := by simpa [link] using hp.symm
        subst this
        right; assumption
      · have hp' : Q v = some p := by simpa [link, hvc] using hp
        have hcp : Below Q c0 p := by
          cases hv with
          | refl => exact absurd rfl hvc
          | @step _ p'' hp'' h'' =>
            have : p'' = p := by rw [hp'] at hp''; exact (Option.some.inj hp'').symm
            subst this; exact h''
        rcases ih hcp with h1 | h1
        · exact Or.inl (Below.step hp' h1)
        · exact Or.inr h1
  · rintro (h | h)
    · exact below_link_mono hc h
    · have h1 : Below (link Q c0 p0) p0 c0 := Below.step (by simp [link]) Below.refl
      exact (h.trans h1).trans (below_link_mono hc hv)

end Link

/-! ### counting marked nodes below a node -/

open Classical in
/-- number of marked nodes `v < n` at or below `u` -/
noncomputable def cntBelow (Q : Nat → Option Nat) (mark : Nat → Bool) (n u : Nat) : Nat :=
  (List.range n).countP fun v => mark v && decide (Below Q u v)

theorem countP_add_of_disjoint {γ : Type} (f g : γ → Bool) (l : List γ)
    (h : ∀ x ∈ l, ¬ (f x = true ∧ g x = true)) :
    l.countP (fun x => f x || g x) = l.countP f + l.countP g := by
  induction l with
  | nil => simp
  | cons a r ih =>
    have ih' := ih (fun x hx => h x (List.mem_cons_of_mem _ hx))
    have ha := h a (List.mem_cons_self ..)
    simp only [List.countP_cons, ih']
    cases hf : f a <;> cases hg : g a <;> simp_all <;> omega

open Classical in
/-- **Linking adds the subtree of `c0` to every ancestor of `p0`, and to nobody else.** -/
theorem cntBelow_link {β : Type} [LinearOrder β] (time : Nat → β) (Q : Nat → Option Nat)
    (c0 p0 : Nat) (mark : Nat → Bool) (n u : Nat) (hc : Q c0 = none)
    (ho : Older time (link Q c0 p0)) :
    cntBelow (link Q c0 p0) mark n u =
      cntBelow Q mark n u + (if Below Q u p0 then cntBelow Q mark n c0 else 0) := by
  have hlp : link Q c0 p0 c0 = some p0 := by simp [link]
  -- p0 is not in the subtree of c0
  have hnp : ¬ Below Q c0 p0 := fun h => not_below_parent ho hlp (below_link_mono hc h)
  have hp0 : ∀ u, Below (link Q c0 p0) u p0 ↔ Below Q u p0 := fun u => below_link_outside hc hnp
  unfold cntBelow
  by_cases hup : Below Q u p0
  · simp only [hup, if_true]
    rw [← countP_add_of_disjoint]
    · apply List.countP_congr
      intro v _
      by_cases hv : Below Q c0 v
      · have := (below_link_inside (p0 := p0) (u := u) hc hv)
        simp only [hp0] at this
        by_cases hm : mark v <;> simp [hm, this, hv, hup]
      · have := (below_link_outside (p0 := p0) (u := u) hc hv)
        by_cases hm : mark v <;> simp [hm, this, hv]
    · -- disjoint: v below u and below c0 while u is above p0 is impossible
      intro v _ ⟨h1, h2⟩
      simp only [Bool.and_eq_true, decide_eq_true_eq] at h1 h2
      rcases Below.chain h1.2 h2.2 with h | h
      · have : u = c0 := Below.of_root hc h
        subst this; exact hnp hup
      · exact hnp (h.trans hup)
  · simp only [hup, if_false, Nat.add_zero]
    apply List.countP_congr
    intro v _
    by_cases hv : Below Q c0 v
    · have := (below_link_inside (p0 := p0) (u := u) hc hv)
      simp only [hp0] at this
      by_cases hm : mark v <;> simp [hm, this, hup]
    · have := (below_link_outside (p0 := p0) (u := u) hc hv)
      by_cases hm : mark v <;> simp [hm, this]

open Classical in
/-- the subtree of `c0` itself is not changed by linking it -/
theorem cntBelow_link_self {β : Type} [LinearOrder β] (time : Nat → β) (Q : Nat → Option Nat)
    (c0 p0 : Nat) (mark : Nat → Bool) (n : Nat) (hc : Q c0 = none)
    (ho : Older time (link Q c0 p0)) :
    cntBelow (link Q c0 p0) mark n c0 = cntBelow Q mark n c0 := by
  rw [cntBelow_link time Q c0 p0 mark n c0 hc ho]
  have hlp : link Q c0 p0 c0 = some p0 := by simp [link]
  have hnp : ¬ Below Q c0 p0 := fun h => not_below_parent ho hlp (below_link_mono hc h)
  simp [hnp]

/-! ### number of ancestors (the fuel of the walk towards the root) -/

open Classical in
/-- number of nodes `u < n` that are `p` or an ancestor of `p` -/
noncomputable def ancCount (Q : Nat → Option Nat) (n p : Nat) : Nat :=
  (List.range n).countP fun u => decide (Below Q u p)

open Classical in
theorem ancCount_parent {β : Type} [LinearOrder β] (time : Nat → β) (Q : Nat → Option Nat)
    (ho : Older time Q) (n p q : Nat) (hp : p < n) (hq : Q p = some q) :
    ancCount Q n p = ancCount Q n q + 1 := by
  unfold ancCount
  have h1 : (List.range n).countP (fun u => decide (u = p)) = 1 := by
    have := List.count_range (a := p) (n := n)
    simp only [hp, if_true] at this
    rw [← this, List.count_eq_countP]
    apply List.countP_congr
    intro u _
    simp
  rw [← h1, Nat.add_comm, ← countP_add_of_disjoint]
  · apply List.countP_congr
    intro u _
    have := below_iff_parent (u := u) hq
    rw [Bool.eq_iff_iff]
    simp only [Bool.or_eq_true, decide_eq_true_eq]
    rw [iff_true]
    exact this
  · intro u _ ⟨h2, h3⟩
    simp only [decide_eq_true_eq] at h2 h3
    subst h2
    exact not_below_parent ho hq h3

open Classical in
theorem ancCount_pos (Q : Nat → Option Nat) (n p : Nat) (hp : p < n) : 0 < ancCount Q n p := by
  unfold ancCount
  rw [List.countP_pos_iff]
  exact ⟨p, List.mem_range.mpr hp, by simp [Below.refl]⟩

theorem ancCount_le (Q : Nat → Option Nat) (n p : Nat) : ancCount Q n p ≤ n := by
  unfold ancCount
  have := List.countP_le_length (p := fun u => @decide (Below Q u p) (Classical.propDecidable _))
    (l := List.range n)
  simpa using this

/-- the bounded search `reaches` decides `Below` once the fuel covers the ancestors -/
theorem reaches_sound (Q : Nat → Option Nat) (u : Nat) :
    ∀ (fuel v : Nat), reaches Q u fuel v = true → Below Q u v := by
  intro fuel
  induction fuel with
  | zero =>
    intro v h
    simp only [reaches, beq_iff_eq] at h
    subst h; exact Below.refl
  | succ k ih =>
    intro v h
    simp only [reaches, Bool.or_eq_true, beq_iff_eq] at h
    rcases h with h | h
    · subst h; exact Below.refl
    · cases hq : Q v with
      | none => simp [hq] at h
      | some p =>
        simp only [hq] at h
        exact Below.step hq (ih p h)

theorem reaches_complete {β : Type} [LinearOrder β] (time : Nat → β) (Q : Nat → Option Nat)
    (ho : Older time Q) (n : Nat) (hQ : ∀ c p, Q c = some p → p < n) (u : Nat) {v : Nat}
    (h : Below Q u v) : ∀ fuel, v < n → ancCount Q n v ≤ fuel + 1 → reaches Q u fuel v = true := by
  induction h with
  | refl =>
    intro fuel _ _
    cases fuel <;> simp [reaches]
  | @step v p hp _ ih =>
    intro fuel hv hf
    have hpn := hQ v p hp
    rw [ancCount_parent time Q ho n v p hv hp] at hf
    have := ancCount_pos Q n p hpn
    cases fuel with
    | zero => omega
    | succ k =>
      simp only [reaches, hp, Bool.or_eq_true, beq_iff_eq]
      right
      exact ih k hpn (by omega)

theorem reaches_iff {β : Type} [LinearOrder β] (time : Nat → β) (Q : Nat → Option Nat)
    (ho : Older time Q) (n : Nat) (hQ : ∀ c p, Q c = some p → p < n) (u v : Nat) (hv : v < n) :
    reaches Q u n v = true ↔ Below Q u v :=
  ⟨reaches_sound Q u n v, fun h =>
    reaches_complete time Q ho n hQ u h n hv (Nat.le_succ_of_le (ancCount_le Q n v))⟩

end Tsdate.CountMut
