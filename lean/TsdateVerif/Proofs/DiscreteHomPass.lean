/-
Naturality of the whole inside/outside computation in the probability space.
-/
import TsdateVerif.Proofs.DiscreteHomOut

namespace Tsdate.Discrete
open Tsdate

section
variable {β α : Type} [Inhabited β] [Inhabited α]
variable {ol : Ops β} {on : Ops α} {E F : β → α} {Pn : α → Prop}

/-- guard of one outside group on the linear run -/
def outsideGroupGuard (Pn : α → Prop) (on : Ops α) (inpN : Input α) (sN : InsideState α)
    (std ign : Bool) (outside : Array (Array α)) (g : Nat × List DEdge) : Prop :=
  aget inpN.fixed g.1 = false →
    (∀ e ∈ g.2, outsideEdgeGuard Pn on inpN sN std ign outside e) ∧
    (if std then
        on.maxl (g.2.foldl (outsideEdge on inpN sN std ign outside) (List.replicate inpN.G on.one))
      else aget sN.denom g.1) ≠ on.null

theorem outsideVal_hom (h : OpsHom ol on E F Pn) (hE : E default = default) (hF : F default = default)
    (inp : Input β) (s : InsideState β) (std ign : Bool) (outside : Array (Array β)) :
    ∀ (es : List DEdge) (v : List β),
      (∀ e ∈ es, outsideEdgeGuard Pn on (inp.mapE E F) (s.mapE E) std ign
        (outside.map (fun r : Array β => r.map E)) e) →
      (es.foldl (outsideEdge ol inp s std ign outside) v).map E
        = es.foldl (outsideEdge on (inp.mapE E F) (s.mapE E) std ign
            (outside.map (fun r : Array β => r.map E))) (v.map E)
  | [], _, _ => rfl
  | e :: es, v, hg => by
    simp only [List.foldl_cons]
    rw [outsideVal_hom h hE hF inp s std ign outside es _
      (fun e' he' => hg e' (List.mem_cons_of_mem _ he')),
      outsideEdge_hom h hE hF inp s std ign outside v e (hg e (List.mem_cons_self ..))]

theorem outsideGroup_hom (h : OpsHom ol on E F Pn) (hE : E default = default) (hF : F default = default)
    (inp : Input β) (s : InsideState β) (std ign : Bool) (outside : Array (Array β))
    (g : Nat × List DEdge)
    (hg : outsideGroupGuard Pn on (inp.mapE E F) (s.mapE E) std ign
      (outside.map (fun r : Array β => r.map E)) g) :
    (outsideGroup ol inp s std ign outside g).map (fun r : Array β => r.map E)
      = outsideGroup on (inp.mapE E F) (s.mapE E) std ign (outside.map (fun r : Array β => r.map E)) g := by
  unfold outsideGroup
  show _ = if aget inp.fixed g.1 = true then _ else _
  by_cases hf : aget inp.fixed g.1 = true
  · rw [if_pos hf, if_pos hf]
  · rw [if_neg hf, if_neg hf]
    have hfN : aget (inp.mapE E F).fixed g.1 = false := by
      show aget inp.fixed g.1 = false
      simpa using hf
    obtain ⟨hedges, hfin⟩ := hg hfN
    have hrep : (List.replicate inp.G ol.one).map E = List.replicate (inp.mapE E F).G on.one := by
      simp [h.one, Input.mapE]
    have hval := outsideVal_hom h hE hF inp s std ign outside g.2 (List.replicate inp.G ol.one) hedges
    rw [hrep] at hval
    simp only
    rw [aset_map]
    congr 1
    cases std
    · simp only [Bool.false_eq_true, if_false] at hfin ⊢
      have hdenE : aget (s.mapE E).denom g.1 = E (aget s.denom g.1) := aget_map E hE _ _
      have hdne : aget s.denom g.1 ≠ ol.null := by
        intro hn; apply hfin; rw [hdenE, hn]; exact (h.null_iff _).mpr rfl
      rw [← hval, hdenE]
      simp only [List.map_toArray, List.map_map]
      congr 1
      apply List.map_congr_left
      intro v _
      exact h.ratio v _ hdne
    · simp only [if_true] at hfin ⊢
      rw [← hval] at hfin ⊢
      have := std_hom h _ hfin
      simp only [List.map_toArray]
      rw [this]

/-- the guards of the outside pass along the linear run -/
def outsideGuards (Pn : α → Prop) (on : Ops α) (inpN : Input α) (sN : InsideState α) (std ign : Bool) :
    List (Nat × List DEdge) → Array (Array α) → Prop
  | [], _ => True
  | g :: rest, out =>
    outsideGroupGuard Pn on inpN sN std ign out g ∧
      outsideGuards Pn on inpN sN std ign rest (outsideGroup on inpN sN std ign out g)

theorem outsideFold_hom (h : OpsHom ol on E F Pn) (hE : E default = default) (hF : F default = default)
    (inp : Input β) (s : InsideState β) (std ign : Bool) :
    ∀ (gs : List (Nat × List DEdge)) (out : Array (Array β)),
      outsideGuards Pn on (inp.mapE E F) (s.mapE E) std ign gs (out.map (fun r : Array β => r.map E)) →
      (gs.foldl (outsideGroup ol inp s std ign) out).map (fun r : Array β => r.map E)
        = gs.foldl (outsideGroup on (inp.mapE E F) (s.mapE E) std ign)
            (out.map (fun r : Array β => r.map E))
  | [], _, _ => rfl
  | g :: rest, out, hg => by
    obtain ⟨h1, h2⟩ := hg
    simp only [List.foldl_cons]
    have hstep := outsideGroup_hom h hE hF inp s std ign out g h1
    rw [← hstep] at h2 ⊢
    exact outsideFold_hom h hE hF inp s std ign rest _ h2

theorem rootTerm_hom (h : OpsHom ol on E F Pn) (ins : Array (Array β)) (acc : β) (r : Nat × β)
    (hP : Pn (F r.2)) :
    E (rootTerm ol ins acc r)
      = rootTerm on (ins.map (fun r : Array β => r.map E)) (E acc) (r.1, F r.2) := by
  unfold rootTerm
  rw [h.combine, h.sum, aget_map_rows]
  congr 2
  simp only [Array.toList_map, List.map_map]
  apply List.map_congr_left
  intro v _
  exact h.scale _ _ hP

/-- **Inside pass, marginal likelihood and outside pass commute with `E`** (log space ↦ linear
space), under the guards evaluated on the linear run. -/
theorem pass_hom (h : OpsHom ol on E F Pn) (hE : E default = default) (hF : F default = default)
    (inp : Input β) (stdIn stdOut ign : Bool) (order : List DEdge) (zL : β) (zN : α)
    (hz : E (ol.ofLin zL) = on.ofLin zN)
    (hr : ∀ r ∈ inp.roots, E (ol.ofLin r.2) = on.ofLin (F r.2) ∧ Pn (F r.2))
    (hgi : insideGuards Pn on (inp.mapE E F) stdIn (groupRuns (·.p) inp.edges)
      ((insideInit ol inp).mapE E))
    (hgo : outsideGuards Pn on (inp.mapE E F) ((insidePass ol inp stdIn).1.mapE E) stdOut ign
      (groupRuns (·.c) order) (outsideInit on (inp.mapE E F) zN)) :
    (insidePass ol inp stdIn).1.mapE E = (insidePass on (inp.mapE E F) stdIn).1 ∧
    E (insidePass ol inp stdIn).2 = (insidePass on (inp.mapE E F) stdIn).2 ∧
    (outsidePass ol inp (insidePass ol inp stdIn).1 stdOut ign order zL).map
        (fun r : Array β => r.map E)
      = outsidePass on (inp.mapE E F) (insidePass on (inp.mapE E F) stdIn).1 stdOut ign order zN := by
  have hinit : (insideInit ol inp).mapE E = insideInit on (inp.mapE E F) := by
    unfold insideInit InsideState.mapE
    simp [Input.mapE, h.one]
  have hins : (insidePass ol inp stdIn).1.mapE E = (insidePass on (inp.mapE E F) stdIn).1 := by
    show (insideFold ol inp stdIn (groupRuns (·.p) inp.edges) (insideInit ol inp)).mapE E
      = insideFold on (inp.mapE E F) stdIn (groupRuns (·.p) inp.edges) (insideInit on (inp.mapE E F))
    rw [← hinit]
    exact insideFold_hom h hE hF inp stdIn _ _ hgi
  refine ⟨hins, ?_, ?_⟩
  · -- marginal likelihood epilogue
    show E (inp.roots.foldl (rootTerm ol (insidePass ol inp stdIn).1.inside) (insidePass ol inp stdIn).1.marg)
      = (inp.roots.map (fun r => (r.1, F r.2))).foldl
          (rootTerm on (insidePass on (inp.mapE E F) stdIn).1.inside) (insidePass on (inp.mapE E F) stdIn).1.marg
    rw [← hins]
    show _ = (inp.roots.map (fun r => (r.1, F r.2))).foldl
      (rootTerm on ((insidePass ol inp stdIn).1.inside.map (fun r : Array β => r.map E)))
      (E (insidePass ol inp stdIn).1.marg)
    generalize (insidePass ol inp stdIn).1.marg = acc
    revert hr
    generalize inp.roots = roots
    intro hr
    induction roots generalizing acc with
    | nil => rfl
    | cons r rest ih =>
      simp only [List.foldl_cons, List.map_cons]
      rw [ih _ (fun r' hr' => hr r' (List.mem_cons_of_mem _ hr')),
        rootTerm_hom h _ _ _ (hr r (List.mem_cons_self ..)).2]
  · unfold outsidePass
    rw [← hins]
    rw [← outsideInit_hom (E := E) (F := F) (ol := ol) (on := on) inp zL zN hz (fun r hr' => (hr r hr').1)]
    apply outsideFold_hom h hE hF
    rw [outsideInit_hom (E := E) (F := F) (ol := ol) (on := on) inp zL zN hz (fun r hr' => (hr r hr').1)]
    exact hgo

end
end Tsdate.Discrete
