/-
Integrals of step functions over a partition given by its break points (used by the size-biased span
clause of C24): `integ f [b0, b1, …, bk] = Σ f(b_i) * (b_{i+1} - b_i)`.
-/
import Mathlib.Algebra.Order.Field.Basic
import Mathlib.Tactic.Ring
import Mathlib.Tactic.Linarith
import Mathlib.Data.List.Basic

namespace Tsdate.CountMut
set_option linter.unusedSectionVars false
set_option linter.unusedVariables false

section
variable {α : Type} [Field α] [LinearOrder α] [IsStrictOrderedRing α]

/-- `Σ f(b_i) * (b_{i+1} - b_i)` over consecutive break points -/
def integ (f : α → α) : List α → α
  | a :: b :: rest => f a * (b - a) + integ f (b :: rest)
  | _ => 0

@[simp] theorem integ_nil (f : α → α) : integ f [] = 0 := rfl
@[simp] theorem integ_singleton (f : α → α) (a : α) : integ f [a] = 0 := rfl
theorem integ_cons_cons (f : α → α) (a b : α) (rest : List α) :
    integ f (a :: b :: rest) = f a * (b - a) + integ f (b :: rest) := rfl

/-- splitting the partition at a shared break point -/
theorem integ_append (f : α → α) (x : α) : ∀ (pre post : List α),
    integ f (pre ++ x :: post) = integ f (pre ++ [x]) + integ f (x :: post)
  | [], post => by simp
  | [a], post => by
    show f a * (x - a) + integ f (x :: post) = (f a * (x - a) + 0) + integ f (x :: post)
    ring
  | a :: b :: pre, post => by
    have ih := integ_append f x (b :: pre) post
    simp only [List.cons_append, integ_cons_cons] at ih ⊢
    rw [ih]; ring

/-- a function that is constant on all break points but the last integrates to `c * length` -/
theorem integ_const (f : α → α) (c : α) : ∀ (x : α) (mid : List α) (x' : α),
    (∀ a ∈ x :: mid, f a = c) → integ f (x :: mid ++ [x']) = c * (x' - x)
  | x, [], x', h => by
    show f x * (x' - x) + 0 = c * (x' - x)
    rw [h x (by simp), add_zero]
  | x, m :: mid, x', h => by
    have ih := integ_const f c m mid x' (fun a ha => h a (List.mem_cons_of_mem _ ha))
    simp only [List.cons_append, integ_cons_cons] at ih ⊢
    rw [ih, h x (by simp)]; ring

/-- a function vanishing on all break points integrates to `0` -/
theorem integ_zero (f : α → α) : ∀ (bs : List α), (∀ a ∈ bs, f a = 0) → integ f bs = 0
  | [], _ => rfl
  | [a], _ => rfl
  | a :: b :: rest, h => by
    have ih := integ_zero f (b :: rest) (fun x hx => h x (List.mem_cons_of_mem _ hx))
    rw [integ_cons_cons, ih, h a (List.mem_cons_self ..)]
    ring

/-- In a strictly increasing list, a later member lies in the tail after an earlier one, and
everything in between lies strictly between them. -/
theorem split_between (pre : List α) (x : α) (post : List α) (x' : α)
    (hs : (pre ++ x :: post).Pairwise (· < ·)) (hmem : x' ∈ pre ++ x :: post) (hlt : x < x') :
    ∃ mid post', post = mid ++ x' :: post' ∧ ∀ a ∈ mid, x < a ∧ a < x' := by
  have hs2 := (List.pairwise_append.mp hs)
  have hpost : x' ∈ post := by
    rcases List.mem_append.mp hmem with h | h
    · have := hs2.2.2 x' h x (List.mem_cons_self ..)
      exact absurd (lt_trans this hlt) (lt_irrefl _)
    · rcases List.mem_cons.mp h with h | h
      · exact absurd (h ▸ hlt) (lt_irrefl _)
      · exact h
  obtain ⟨mid, post', hsplit⟩ := List.append_of_mem hpost
  refine ⟨mid, post', hsplit, ?_⟩
  intro a ha
  have hxp := List.pairwise_cons.mp hs2.2.1
  have ha_post : a ∈ post := by rw [hsplit]; exact List.mem_append_left _ ha
  refine ⟨hxp.1 a ha_post, ?_⟩
  have := hxp.2
  rw [hsplit] at this
  exact (List.pairwise_append.mp this).2.2 a ha x' (List.mem_cons_self ..)

end

end Tsdate.CountMut
