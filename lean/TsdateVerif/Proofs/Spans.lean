/-
The run-length accumulator equals the direct tally for every adequate choice of flush sets (C15).
-/
import TsdateVerif.Spec.Spans
import Mathlib.Algebra.Group.Basic
import Mathlib.Tactic.Abel
import Mathlib.Tactic.SplitIfs

namespace Tsdate.Spans
set_option linter.unusedSectionVars false

variable {α : Type} [AddCommGroup α]

/-- What one flush of a node adds to the buckets selected by `cls`. -/
def contrib (cls : Nat → Nat → Bool) (t : TreeRec α) (st : Option α) (d : Option Nat) : α :=
  match st, d with
  | some p, some k => if cls t.total k = true then t.right - p else 0
  | _, _ => 0

/-- Does the node stay tracked after the transition? -/
def stays (next : Option (TreeRec α)) (u : Nat) : Bool :=
  match next with
  | some t' => present t' u
  | none => false

/-- The record `(T, k)` of node `u` in tree `t`. -/
def recOf (t : TreeRec α) (u : Nat) : Option (Nat × Nat) := (aget t.desc u).map (fun k => (t.total, k))

theorem flushNode_size (t : TreeRec α) (next) (s : State α) (v : Nat) :
    (flushNode t next s v).start.size = s.start.size := by
  simp [flushNode]

theorem flushNode_start_other (t : TreeRec α) (next) (s : State α) (v u : Nat) (h : u ≠ v) :
    aget (flushNode t next s v).start u = aget s.start u := by
  simp only [flushNode]
  exact aget_aset_other _ _ _ _ h

theorem flushNode_start_same (t : TreeRec α) (next) (s : State α) (u : Nat) (h : u < s.start.size) :
    aget (flushNode t next s u).start u = if stays next u then some t.right else none := by
  simp only [flushNode]
  rw [aget_aset_same _ _ _ h]
  rfl

theorem flushNode_log (cls) (t : TreeRec α) (next) (s : State α) (v u : Nat) :
    bucketC cls u (flushNode t next s v).log
      = bucketC cls u s.log + (if v = u then contrib cls t (aget s.start v) (aget t.desc v) else 0) := by
  simp only [flushNode, contrib]
  cases h1 : aget s.start v <;> cases h2 : aget t.desc v <;> simp only [bucketC, ite_self, add_zero]
  by_cases hvu : v = u
  · by_cases hc : cls t.total ‹ℕ› = true <;> simp [hvu, hc, add_comm]
  · simp [hvu]

theorem flushList_size (t : TreeRec α) (next) (F) (us : List Nat) :
    ∀ s : State α, (flushList t next F s us).start.size = s.start.size := by
  induction us with
  | nil => intro s; rfl
  | cons v vs ih =>
    intro s
    simp only [flushList, List.foldl_cons] at ih ⊢
    rw [ih]
    split_ifs
    · exact flushNode_size ..
    · rfl

/-- Nodes that are not visited keep their `stored_pos` and their buckets. -/
theorem flushList_other (cls) (t : TreeRec α) (next) (F) (u : Nat) (us : List Nat) (hu : u ∉ us) :
    ∀ s : State α, aget (flushList t next F s us).start u = aget s.start u ∧
      bucketC cls u (flushList t next F s us).log = bucketC cls u s.log := by
  induction us with
  | nil => intro s; exact ⟨rfl, rfl⟩
  | cons v vs ih =>
    intro s
    have hv : u ≠ v := fun h => hu (h ▸ List.mem_cons_self ..)
    have hvs : u ∉ vs := fun h => hu (List.mem_cons_of_mem _ h)
    simp only [flushList, List.foldl_cons] at ih ⊢
    obtain ⟨h1, h2⟩ := ih hvs (if F.contains v = true then flushNode t next s v else s)
    rw [h1, h2]
    split_ifs
    · refine ⟨flushNode_start_other _ _ _ _ _ hv, ?_⟩
      rw [flushNode_log, if_neg (Ne.symm hv), add_zero]
    · exact ⟨rfl, rfl⟩

/-- A visited node is flushed exactly once iff it is in the flush set. -/
theorem flushList_mem (cls) (t : TreeRec α) (next) (F) (u : Nat) (us : List Nat) (hnd : us.Nodup)
    (hu : u ∈ us) (s : State α) (hsz : u < s.start.size) :
    aget (flushList t next F s us).start u
        = (if F.contains u = true then (if stays next u then some t.right else none) else aget s.start u) ∧
      bucketC cls u (flushList t next F s us).log
        = bucketC cls u s.log
          + (if F.contains u = true then contrib cls t (aget s.start u) (aget t.desc u) else 0) := by
  obtain ⟨l1, l2, rfl⟩ := List.append_of_mem hu
  have hnd' := List.nodup_append.mp hnd
  have h1 : u ∉ l1 := fun h => (hnd'.2.2 u h u (List.mem_cons_self ..)) rfl
  have h2 : u ∉ l2 := (List.nodup_cons.mp hnd'.2.1).1
  have hsplit : flushList t next F s (l1 ++ u :: l2)
      = flushList t next F
          (if F.contains u = true then flushNode t next (flushList t next F s l1) u
            else flushList t next F s l1) l2 := by
    simp [flushList, List.foldl_append]
  rw [hsplit]
  obtain ⟨a1, a2⟩ := flushList_other cls t next F u l1 h1 s
  obtain ⟨b1, b2⟩ := flushList_other cls t next F u l2 h2
    (if F.contains u = true then flushNode t next (flushList t next F s l1) u else flushList t next F s l1)
  rw [b1, b2]
  by_cases hc : F.contains u = true
  · simp only [if_pos hc]
    rw [flushNode_start_same _ _ _ _ (by rw [flushList_size]; exact hsz), flushNode_log, if_pos rfl, a1, a2]
    exact ⟨rfl, rfl⟩
  · simp only [if_neg hc]
    rw [a1, a2, add_zero]
    exact ⟨rfl, rfl⟩

theorem transition_spec (cls) (N : Nat) (t : TreeRec α) (next) (F) (s : State α) (hN : s.start.size = N)
    (u : Nat) (hu : u < N) :
    (transition N t next F s).start.size = N ∧
    aget (transition N t next F s).start u
        = (if F.contains u = true then (if stays next u then some t.right else none) else aget s.start u) ∧
      bucketC cls u (transition N t next F s).log
        = bucketC cls u s.log
          + (if F.contains u = true then contrib cls t (aget s.start u) (aget t.desc u) else 0) := by
  refine ⟨by rw [transition, flushList_size, hN], ?_⟩
  exact flushList_mem cls t next F u (List.range N) List.nodup_range (List.mem_range.mpr hu) s (hN ▸ hu)

/-- Consecutive trees tile the genome and every node whose record `(presence, T, k)` changes is in
the flush set of the transition. -/
def Adequate (N : Nat) : TreeRec α → List (List Nat × TreeRec α) → Prop
  | _, [] => True
  | t, (F, t') :: rest =>
    t'.left = t.right ∧ (∀ u, u < N → recOf t u ≠ recOf t' u → F.contains u = true) ∧ Adequate N t' rest

/-- Every node of the tree is being tracked. -/
def Tracked (N : Nat) (s : State α) (t : TreeRec α) : Prop :=
  ∀ u, u < N → aget t.desc u ≠ none → aget s.start u ≠ none

/-- What the still-open run of node `u` has accumulated before tree `t`. -/
def carry (cls : Nat → Nat → Bool) (s : State α) (t : TreeRec α) (u : Nat) : α :=
  match aget s.start u, aget t.desc u with
  | some p, some k => if cls t.total k = true then t.left - p else 0
  | _, _ => 0

theorem tallyC_cons (cls) (u : Nat) (t : TreeRec α) (ts : List (TreeRec α)) :
    tallyC cls u (t :: ts)
      = (match aget t.desc u with
          | some k => if cls t.total k = true then t.right - t.left else 0
          | none => 0) + tallyC cls u ts := rfl

theorem go_spec (cls) (N : Nat) :
    ∀ (rest : List (List Nat × TreeRec α)) (s : State α) (t : TreeRec α),
      s.start.size = N → Tracked N s t → Adequate N t rest → ∀ u, u < N →
        bucketC cls u (go N s t rest).log
          = bucketC cls u s.log + carry cls s t u + tallyC cls u (t :: rest.map Prod.snd) := by
  intro rest
  induction rest with
  | nil =>
    intro s t hN htr _ u hu
    obtain ⟨_, _, h3⟩ := transition_spec cls N t none (List.range N) s hN u hu
    have hc : (List.range N).contains u = true := by simp [hu]
    simp only [go, List.map_nil]
    rw [h3, if_pos hc, tallyC_cons]
    simp only [tallyC, contrib, carry, add_zero]
    have htr' := htr u hu
    cases h1 : aget s.start u <;> cases h2 : aget t.desc u <;> simp_all
    split_ifs <;> abel
  | cons hd rest ih =>
    obtain ⟨F, t'⟩ := hd
    intro s t hN htr had u hu
    obtain ⟨hl, hF, had'⟩ := had
    have hsz := (transition_spec cls N t (some t') F s hN u hu).1
    have htr1 : Tracked N (transition N t (some t') F s) t' := by
      intro v hv hp
      obtain ⟨_, g2, _⟩ := transition_spec cls N t (some t') F s hN v hv
      rw [g2]
      by_cases hc : F.contains v = true
      · rw [if_pos hc]
        have : stays (some t') v = true := by
          simp only [stays, present]
          cases h : aget t'.desc v
          · exact absurd h hp
          · rfl
        rw [this]; simp
      · rw [if_neg hc]
        have hrec : recOf t v = recOf t' v := by
          by_contra hne
          exact hc (hF v hv hne)
        have : aget t.desc v ≠ none := by
          intro h0
          simp only [recOf, h0, Option.map_none] at hrec
          cases h : aget t'.desc v
          · exact hp h
          · simp [h] at hrec
        exact htr v hv this
    simp only [go, List.map_cons]
    rw [ih (transition N t (some t') F s) t' hsz htr1 had' u hu]
    obtain ⟨_, g2, g3⟩ := transition_spec cls N t (some t') F s hN u hu
    rw [g3, tallyC_cons cls u t, add_assoc, add_assoc, add_assoc]
    congr 1
    rw [← add_assoc, ← add_assoc]
    congr 1
    -- the local identity: contribution of the flush + new carry = old carry + this tree's term
    simp only [carry, contrib, g2]
    by_cases hc : F.contains u = true
    · simp only [if_pos hc]
      have htr' := htr u hu
      cases h1 : aget s.start u <;> cases h2 : aget t.desc u <;>
        cases h3 : aget t'.desc u <;> simp_all [stays, present] <;> (try split_ifs) <;> (try abel)
    · simp only [if_neg hc, zero_add]
      have hrec : recOf t u = recOf t' u := by
        by_contra hne
        exact hc (hF u hu hne)
      simp only [recOf] at hrec
      have htr' := htr u hu
      cases h1 : aget s.start u <;> cases h2 : aget t.desc u <;>
        cases h3 : aget t'.desc u <;> simp_all <;> (try split_ifs) <;> (try abel)

end Tsdate.Spans
