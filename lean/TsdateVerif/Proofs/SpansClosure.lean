/-
C15, closing part of the gap: the flush *rule* of `first_pass` is adequate.

`first_pass` flushes, at the transition from tree `t` to tree `t'`,
  * every node reached by walking **up the previous tree** from a "changed node" — the child of an
    edge going out, the child of an edge coming in, or the parent of an edge coming in —
  * and every node of the previous tree when the number of samples in the tree changes.
Here trees are parent functions `Nat → Option Nat`; an edge goes out / comes in at `c` iff
`t c ≠ t' c`.  The theorems say: a node whose set of descendant samples differs between `t` and `t'`
is in the upward closure (`desc_change_in_closure`), hence any node whose record `(presence, T, k)`
changes is covered by the rule (`rec_change_flush`), hence flush sets that contain the rule's set are
`Adequate` (`adequate_of_rule`).
-/
import TsdateVerif.Proofs.SpansMix
import Mathlib.Logic.Relation

namespace Tsdate.Spans
set_option linter.unusedSectionVars false
open Relation

/-- `u` is `c` or an ancestor of `c` in the tree with parent function `t`. -/
def Anc (t : Nat → Option Nat) : Nat → Nat → Prop := ReflTransGen (fun c p => t c = some p)

/-- The upward closure, in the previous tree `t`, of the changed nodes: children whose parent changes
and the new parents of such children. -/
def InClosure (t t' : Nat → Option Nat) (u : Nat) : Prop :=
  ∃ c, t c ≠ t' c ∧ (Anc t c u ∨ ∃ p, t' c = some p ∧ Anc t p u)

/-- A path of the old tree survives in the new one unless it passes a changed node below `u`. -/
theorem anc_old_new (t t' : Nat → Option Nat) {s u : Nat} (h : Anc t s u) :
    Anc t' s u ∨ ∃ x, t x ≠ t' x ∧ Anc t x u := by
  induction h using ReflTransGen.head_induction_on with
  | refl => exact Or.inl ReflTransGen.refl
  | head hstep hrest ih =>
    rename_i a b
    rcases ih with h' | ⟨x, hx, hxu⟩
    · by_cases hc : t a = t' a
      · left
        exact ReflTransGen.head (by rw [← hc]; exact hstep) h'
      · right
        exact ⟨a, hc, ReflTransGen.head hstep hrest⟩
    · exact Or.inr ⟨x, hx, hxu⟩

/-- A path of the new tree already existed in the old one from the new parent of its topmost changed
node upwards. -/
theorem anc_new_old (t t' : Nat → Option Nat) {s u : Nat} (h : Anc t' s u) :
    Anc t s u ∨ ∃ x p, t x ≠ t' x ∧ t' x = some p ∧ Anc t p u := by
  induction h using ReflTransGen.head_induction_on with
  | refl => exact Or.inl ReflTransGen.refl
  | head hstep hrest ih =>
    rename_i a b
    rcases ih with h' | h'
    · by_cases hc : t a = t' a
      · left
        exact ReflTransGen.head (by rw [hc]; exact hstep) h'
      · right
        exact ⟨a, b, hc, hstep, h'⟩
    · exact Or.inr h'

/-- **A node whose set of descendants changes is in the upward closure of the changed nodes.** -/
theorem desc_change_in_closure (t t' : Nat → Option Nat) (s u : Nat)
    (h : ¬ (Anc t s u ↔ Anc t' s u)) : InClosure t t' u := by
  by_cases h1 : Anc t s u
  · have h2 : ¬ Anc t' s u := fun h2 => h ⟨fun _ => h2, fun _ => h1⟩
    rcases anc_old_new t t' h1 with h3 | ⟨x, hx, hxu⟩
    · exact absurd h3 h2
    · exact ⟨x, hx, Or.inl hxu⟩
  · have h2 : Anc t' s u := by
      by_contra h2
      exact h ⟨fun a => absurd a h1, fun a => absurd a h2⟩
    rcases anc_new_old t t' h2 with h3 | ⟨x, p, hx, hp, hpu⟩
    · exact absurd h3 h1
    · exact ⟨x, hx, Or.inr ⟨p, hp, hpu⟩⟩

open Classical in
/-- Number of samples (from the list `S`) at or below `u`. -/
noncomputable def descCount (t : Nat → Option Nat) (S : List Nat) (u : Nat) : Nat :=
  (S.filter (fun s => decide (Anc t s u))).length

theorem descCount_congr (t t' : Nat → Option Nat) (S : List Nat) (u : Nat)
    (h : ∀ s ∈ S, (Anc t s u ↔ Anc t' s u)) : descCount t S u = descCount t' S u := by
  unfold descCount
  congr 1
  apply List.filter_congr
  intro s hs
  simp only [decide_eq_decide]
  exact h s hs

/-- The record of `u` derived from the tree: absent iff no sample below it. -/
noncomputable def recFrom (t : Nat → Option Nat) (S : List Nat) (T : Nat) (u : Nat) : Option (Nat × Nat) :=
  if descCount t S u = 0 then none else some (T, descCount t S u)

/-- The flush rule of `first_pass`. -/
def FlushRule (t t' : Nat → Option Nat) (S : List Nat) (T T' : Nat) (u : Nat) : Prop :=
  InClosure t t' u ∨ (T ≠ T' ∧ descCount t S u ≠ 0)

/-- **Every node whose record `(presence, T, k)` changes is covered by the rule.** -/
theorem rec_change_flush (t t' : Nat → Option Nat) (S : List Nat) (T T' : Nat) (u : Nat)
    (h : recFrom t S T u ≠ recFrom t' S T' u) : FlushRule t t' S T T' u := by
  by_cases hd : descCount t S u = descCount t' S u
  · -- same count: only T can differ, and the node must be present
    right
    unfold recFrom at h
    rw [← hd] at h
    by_cases h0 : descCount t S u = 0
    · simp [h0] at h
    · refine ⟨?_, h0⟩
      intro hT
      apply h
      simp [h0, hT]
  · left
    by_contra hcl
    apply hd
    apply descCount_congr
    intro s _
    by_contra hs
    exact hcl (desc_change_in_closure t t' s u hs)

/-- A tree record agrees with a parent function on the node ids `< N`. -/
def RecordsOf {α : Type} (N : Nat) (tr : TreeRec α) (t : Nat → Option Nat) (S : List Nat) : Prop :=
  ∀ u, u < N → recOf tr u = recFrom t S tr.total u

/-- Trees with their parent functions and flush sets: the flush sets contain the rule's set. -/
def FollowsRule {α : Type} [AddCommGroup α] (N : Nat) (S : List Nat) :
    (TreeRec α × (Nat → Option Nat)) → List (List Nat × (TreeRec α × (Nat → Option Nat))) → Prop
  | _, [] => True
  | (tr, t), (F, (tr', t')) :: rest =>
    tr'.left = tr.right ∧ RecordsOf N tr t S ∧ RecordsOf N tr' t' S ∧
      (∀ u, u < N → FlushRule t t' S tr.total tr'.total u → F.contains u = true) ∧
      FollowsRule N S (tr', t') rest

/-- **The rule is adequate**: flush sets that contain the rule's set satisfy the hypothesis of
`accumulate_eq_tally`. -/
theorem adequate_of_rule {α : Type} [AddCommGroup α] (N : Nat) (S : List Nat) :
    ∀ (first : TreeRec α × (Nat → Option Nat)) (rest : List (List Nat × (TreeRec α × (Nat → Option Nat)))),
      FollowsRule N S first rest →
        Adequate N first.1 (rest.map (fun x => (x.1, x.2.1))) := by
  intro first rest
  induction rest generalizing first with
  | nil => intro _; trivial
  | cons hd rest ih =>
    obtain ⟨tr, t⟩ := first
    obtain ⟨F, tr', t'⟩ := hd
    intro h
    obtain ⟨hl, hr, hr', hF, hrest⟩ := h
    refine ⟨hl, ?_, ih (tr', t') hrest⟩
    intro u hu hne
    apply hF u hu
    apply rec_change_flush
    rw [← hr u hu, ← hr' u hu]
    exact hne

/-! ### The executable rule contains the rule's set -/

theorem mem_upPath_self (par : Array (Option Nat)) (fuel u : Nat) : u ∈ upPath par fuel u := by
  cases fuel <;> simp [upPath]

/-- With a rank that increases towards the root (node times), `N` steps reach every ancestor. -/
theorem mem_upPath_of_anc (par : Array (Option Nat)) (N : Nat) (rank : Nat → Nat)
    (hrank : ∀ c p, aget par c = some p → rank c < rank p ∧ rank p < N) {c u : Nat}
    (h : Anc (fun x => aget par x) c u) : ∀ fuel, N - 1 - rank c ≤ fuel → u ∈ upPath par fuel c := by
  induction h using ReflTransGen.head_induction_on with
  | refl => intro fuel _; exact mem_upPath_self par fuel u
  | head hstep hrest ih =>
    rename_i a b
    intro fuel hf
    have hr := hrank a b hstep
    cases fuel with
    | zero => omega
    | succ f =>
      simp only [upPath, hstep, List.mem_cons]
      right
      exact ih f (by omega)

/-- **The executable flush rule is complete**: every node the rule names is in `ruleFlush`. -/
theorem ruleFlush_complete (N : Nat) (par par' : Array (Option Nat)) (S : List Nat) (T T' : Nat)
    (inPrev : Nat → Bool) (rank : Nat → Nat)
    (hsz : par.size ≤ N ∧ par'.size ≤ N)
    (hrank : ∀ c p, aget par c = some p → rank c < rank p ∧ rank p < N)
    (hin : ∀ u, u < N → descCount (fun x => aget par x) S u ≠ 0 → inPrev u = true)
    (u : Nat) (hu : u < N)
    (h : FlushRule (fun x => aget par x) (fun x => aget par' x) S T T' u) :
    (ruleFlush N par par' T T' inPrev).contains u = true := by
  have hlt : ∀ c, aget par c ≠ aget par' c → c < N := by
    intro c hc
    by_contra hge
    apply hc
    have e1 : par[c]? = none := Array.getElem?_eq_none (by omega)
    have e2 : par'[c]? = none := Array.getElem?_eq_none (by omega)
    have h1 : aget par c = none := by simp only [aget, e1, Option.getD_none]; rfl
    have h2 : aget par' c = none := by simp only [aget, e2, Option.getD_none]; rfl
    rw [h1, h2]
  simp only [List.contains_iff_mem, ruleFlush, List.mem_append, List.mem_flatMap]
  rcases h with ⟨c, hc, hcl⟩ | ⟨hT, hd⟩
  · left
    have hcN := hlt c hc
    have hcm : c ∈ (List.range N).filter (fun c => aget par c != aget par' c) := by
      simp [List.mem_filter, hcN, hc]
    rcases hcl with ha | ⟨p, hp, ha⟩
    · refine ⟨c, ?_, mem_upPath_of_anc par N rank hrank ha N (by omega)⟩
      simp only [changedNodes, List.mem_append]
      exact Or.inl hcm
    · refine ⟨p, ?_, mem_upPath_of_anc par N rank hrank ha N (by omega)⟩
      simp only [changedNodes, List.mem_append, List.mem_filterMap]
      exact Or.inr ⟨c, hcm, hp⟩
  · right
    have : (T != T') = true := by simpa using hT
    simp only [this, if_true, List.mem_filter, List.mem_range]
    exact ⟨hu, hin u hu hd⟩

end Tsdate.Spans
