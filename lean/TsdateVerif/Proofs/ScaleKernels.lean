/-
The hand-written `damp` / `rescaleEta` of `Model/Scale.lean` are the translator-generated kernels
`Gen.Kernels._damp` / `_rescale` (regenerated from tsdate/variational.py on every run), so the
scale-invariance theorems about them are theorems about the current source text.
-/
import TsdateVerif.Gen.Kernels
import TsdateVerif.Proofs.ScaleEP
import TsdateVerif.Proofs.KernelsScaleProj

namespace Tsdate.Scale
open Tsdate.Kernels
set_option linter.unusedSectionVars false
set_option linter.unusedVariables false

variable {α : Type} [Field α] [LinearOrder α] [IsStrictOrderedRing α]

theorem feq_zero_eq_isZero (x : α) : feq x ((0 : Nat) : α) = isZero x := by
  apply Bool.eq_iff_iff.mpr
  rw [isZero_iff]
  simp only [feq, Nat.cast_zero, Bool.and_eq_true, decide_eq_true_eq]
  exact ⟨fun h => le_antisymm h.1 h.2, fun h => by rw [h]; exact ⟨le_rfl, le_rfl⟩⟩

theorem pymin_eq_pmin (a b : α) : pymin a b = pmin a b := rfl

/-- the generated `_damp` is the model's `damp` -/
theorem gen_damp_eq (F : SpecFns α) (x y : α × α) (s : α) :
    Tsdate.Gen.Kernels._damp F x y s = damp x y s := by
  unfold Tsdate.Gen.Kernels._damp damp
  simp only [feq_zero_eq_isZero, Nat.cast_one, pymin_eq_pmin, gt_iff_lt, decide_eq_true_eq,
    Bool.and_assoc]

/-- the generated `_rescale` is the model's `rescaleEta` -/
theorem gen_rescale_eq (F : SpecFns α) (x : α × α) (s : α) :
    Tsdate.Gen.Kernels._rescale F x s = rescaleEta x s := by
  unfold Tsdate.Gen.Kernels._rescale rescaleEta
  simp only [feq_zero_eq_isZero, Nat.cast_one, gt_iff_lt, decide_eq_true_eq]

/-- hence: the translated `_damp` and `_rescale` do not see the unit of time -/
theorem gen_damp_invariant (F : SpecFns α) (k : α) (hk : 0 < k) (x y : α × α) (s : α) :
    Tsdate.Gen.Kernels._damp F (rmul k x) (rmul k y) s = Tsdate.Gen.Kernels._damp F x y s := by
  rw [gen_damp_eq, gen_damp_eq, damp_invariant k hk]

theorem gen_rescale_invariant (F : SpecFns α) (k : α) (hk : 0 < k) (x : α × α) (s : α) :
    Tsdate.Gen.Kernels._rescale F (rmul k x) s = Tsdate.Gen.Kernels._rescale F x s := by
  rw [gen_rescale_eq, gen_rescale_eq, rescaleEta_invariant k hk]

/-- the projections of the EP skeleton instantiated with the translator-generated kernels of approx.py
(`gamma_projection`, `rootward_projection`, `leafward_projection`; normalising constant dropped) -/
def genProjections (F : SpecFns α) : Projections α :=
  { gamma := fun a b l => (Tsdate.Gen.Kernels.gamma_projection F a b l).2
    rootward := fun t a l => (Tsdate.Gen.Kernels.rootward_projection F t a l).2
    leafward := fun t a l => (Tsdate.Gen.Kernels.leafward_projection F t a l).2 }

theorem rmul_eq_scNat (c : α) (p : α × α) : rmul (1 / c) p = scNat c p := by
  simp only [rmul, scNat]; congr 1; ring

/-- **The hypothesis of the EP theorems is discharged for the translated kernels** (kernels cluster,
`Proofs/KernelsScaleProj.lean`): for every interpretation of exp/log/sqrt/lgamma (`isFinite` value-independent),
ages × c and rates ÷ c give natural parameters with rates ÷ c. -/
theorem genProjections_equivariant (F : SpecFns α) (c : α) (hc : 0 < c) (hfin : ∀ x, F.isFinite x = true) :
    ProjEquivariant c (1 / c) (genProjections F) := by
  refine ⟨?_, ?_, ?_⟩
  · intro pi pj pij
    simp only [genProjections, rmul_eq_scNat]
    exact (gamma_projection_scale F c hc hfin pi pj pij).2
  · intro t pi pij
    simp only [genProjections, rmul_eq_scNat]
    exact (rootward_projection_scale F c hc hfin t pi pij).2
  · intro t pj pij
    simp only [genProjections, rmul_eq_scNat]
    exact (leafward_projection_scale F c hc hfin t pj pij).2

end Tsdate.Scale
