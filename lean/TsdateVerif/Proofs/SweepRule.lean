/-
`go_rule`: the invariant rule for the sweep loop of Model/Sweep.lean (see Proofs/Sweep.lean for the
fact bundles it hands to the kernel-specific hooks).
-/
import TsdateVerif.Proofs.Sweep

namespace Tsdate.Sweep
set_option linter.unusedSectionVars false
set_option linter.unusedVariables false

section
variable {α σ : Type} [Inhabited α] [LinearOrder α] [OfNat α 0]

theorem length_dropWhile_le {β : Type} (p : β → Bool) (l : List β) :
    (l.dropWhile p).length ≤ l.length := by
  induction l with
  | nil => simp
  | cons a r ih =>
    rw [List.dropWhile_cons]
    split_ifs
    · exact Nat.le_succ_of_le ih
    · exact Nat.le_refl _

theorem length_dropWhile_lt {β : Type} (p : β → Bool) (a : β) (r : List β) (h : p a = true) :
    ((a :: r).dropWhile p).length < (a :: r).length := by
  rw [List.dropWhile_cons, if_pos h]
  exact Nat.lt_succ_of_le (length_dropWhile_le p r)

/-- The fuel bookkeeping of `go_rule`. -/
def FuelOk (T : Tables α) (fuel : Nat) (x : α) (insR remR : List Nat) : Prop :=
  insR.length + remR.length ≤ fuel ∧
  (StartsEvent T x insR remR ∨ (insR = [] ∧ remR = []) ∨ insR.length + remR.length + 1 ≤ fuel)

/-- What one pass through the two inner loops at `x` does to the pointers. -/
theorem drains_facts (T : Tables α) (hV : Valid T) (x : α) (insD insR remD remR : List Nat)
    (I : HeadInv T x insD insR remD remR) :
    let p := fun e => T.r e == x
    let q := fun e => T.l e == x
    (∀ e ∈ remR.takeWhile p, T.r e = x) ∧ (∀ e ∈ remR.dropWhile p, x < T.r e) ∧
    (∀ e ∈ insR.takeWhile q, T.l e = x) ∧ (∀ e ∈ insR.dropWhile q, x < T.l e) := by
  intro p q
  have hrs : remR.Pairwise (fun a b => T.r a ≤ T.r b) := by
    have := hV.remSorted; rw [I.hrem] at this; exact (List.pairwise_append.mp this).2.1
  have his : insR.Pairwise (fun a b => T.l a ≤ T.l b) := by
    have := hV.insSorted; rw [I.hins] at this; exact (List.pairwise_append.mp this).2.1
  have h1 := split_sorted T.r x remR hrs I.remR_ge
  have h2 := split_sorted T.l x insR his I.insR_ge
  exact ⟨h1.1, h1.2, h2.1, h2.2⟩

theorem go_rule (T : Tables α) (hV : Valid T) (H : Hooks α σ)
    (Hd Dr : α → List Nat → List Nat → σ → Prop) (Post : σ → Prop)
    (h_head : ∀ x insD remD s, Hd x insD remD s → Dr x insD remD (H.head x s))
    (h_rem : ∀ x insD insR remD e remR s, RemFacts T x insD insR remD e remR →
        Dr x insD remD s → Dr x insD (remD ++ [e]) (H.remove x s e))
    (h_ins : ∀ x insD e insR remD remR s, InsFacts T x insD e insR remD remR →
        Dr x insD remD s → Dr x (insD ++ [e]) remD (H.insert x s e))
    (h_adv : ∀ x x' insD insR remD remR s, AdvFacts T x x' insD insR remD remR →
        Dr x insD remD s →
        (H.stop (H.mid x s) = true → Post (H.mid x s)) ∧
        (H.stop (H.mid x s) = false → Hd x' insD remD (H.tail x' (H.mid x s))))
    (h_exit : ∀ x s, (∀ e, e < T.numEdges → T.r e ≤ x) → x ≤ T.seqLen → Hd x T.ins T.rem s → Post s) :
    ∀ (fuel : Nat) (x : α) (insD insR remD remR : List Nat) (s : σ),
      HeadInv T x insD insR remD remR → FuelOk T fuel x insR remR → Hd x insD remD s →
      ∃ s', go T H fuel x insR remR s = some s' ∧ Post s' := by
  -- leaving the loop
  have exit : ∀ x insD remD s, HeadInv T x insD [] remD [] → Hd x insD remD s → Post s := by
    intro x insD remD s I hHd
    have hi : T.ins = insD := by rw [I.hins]; simp
    have hr : T.rem = remD := by rw [I.hrem]; simp
    apply h_exit x s _ I.le_len (by rw [hi, hr]; exact hHd)
    intro e he
    exact I.remD_le e (by rw [← hr]; exact hV.mem_rem.mpr he)
  intro fuel
  induction fuel with
  | zero =>
    intro x insD insR remD remR s I hF hHd
    have hlen := hF.1
    have hi : insR = [] := List.eq_nil_of_length_eq_zero (by omega)
    have hr : remR = [] := List.eq_nil_of_length_eq_zero (by omega)
    subst hi hr
    exact ⟨s, by simp [go], exit x insD remD s I hHd⟩
  | succ n ih =>
    intro x insD insR remD remR s I hF hHd
    by_cases hemp : insR = [] ∧ remR = []
    · obtain ⟨hi, hr⟩ := hemp
      subst hi hr
      exact ⟨s, by simp [go], exit x insD remD s I hHd⟩
    have hemp' : (insR.isEmpty && remR.isEmpty) = false := by
      rcases insR with _ | ⟨a, r⟩ <;> rcases remR with _ | ⟨b, r'⟩ <;> simp_all
    -- the two inner loops
    obtain ⟨hk1, hk2, hk3, hk4⟩ := drains_facts T hV x insD insR remD remR I
    set p : Nat → Bool := fun e => T.r e == x with hp
    set q : Nat → Bool := fun e => T.l e == x with hq
    set Dtk := remR.takeWhile p with hDtk
    set Rdp := remR.dropWhile p with hRdp
    set Itk := insR.takeWhile q with hItk
    set Idp := insR.dropWhile q with hIdp
    have hremR : remR = Dtk ++ Rdp := (List.takeWhile_append_dropWhile).symm
    have hinsR : insR = Itk ++ Idp := (List.takeWhile_append_dropWhile).symm
    have hDr0 := h_head x insD remD s hHd
    -- edges out
    have hDr1 : Dr x insD (remD ++ Dtk) (Dtk.foldl (H.remove x) (H.head x s)) := by
      apply foldl_prefix_inv (H.remove x) (fun d s => Dr x insD (remD ++ d) s) Dtk
      · simpa using hDr0
      · intro d e r s' hsplit hP
        have hmem : ∀ e' ∈ d ++ e :: r, T.r e' = x := fun e' he' => hk1 e' (hsplit ▸ he')
        have F : RemFacts T x insD insR (remD ++ d) e (r ++ Rdp) := {
          hins := I.hins
          hrem := by rw [I.hrem, hremR, hsplit]; simp
          key := hmem e (by simp)
          insD_lt := I.insD_lt
          insR_ge := I.insR_ge
          remD_le := by
            intro e' he'
            rcases List.mem_append.mp he' with h | h
            · exact I.remD_le e' h
            · exact le_of_eq (hmem e' (by simp [h]))
          remR_ge := by
            intro e' he'
            rcases List.mem_append.mp he' with h | h
            · exact le_of_eq (hmem e' (by simp [h])).symm
            · exact le_of_lt (hk2 e' h) }
        have := h_rem x insD insR (remD ++ d) e (r ++ Rdp) s' F hP
        simpa [List.append_assoc] using this
    -- edges in
    have hDr2 : Dr x (insD ++ Itk) (remD ++ Dtk)
        (Itk.foldl (H.insert x) (Dtk.foldl (H.remove x) (H.head x s))) := by
      apply foldl_prefix_inv (H.insert x) (fun d s => Dr x (insD ++ d) (remD ++ Dtk) s) Itk
      · simpa using hDr1
      · intro d e r s' hsplit hP
        have hmem : ∀ e' ∈ d ++ e :: r, T.l e' = x := fun e' he' => hk3 e' (hsplit ▸ he')
        have F : InsFacts T x (insD ++ d) e (r ++ Idp) (remD ++ Dtk) Rdp := {
          hins := by rw [I.hins, hinsR, hsplit]; simp
          hrem := by rw [I.hrem, hremR]; simp
          key := hmem e (by simp)
          insD_le := by
            intro e' he'
            rcases List.mem_append.mp he' with h | h
            · exact le_of_lt (I.insD_lt e' h)
            · exact le_of_eq (hmem e' (by simp [h]))
          insR_ge := by
            intro e' he'
            rcases List.mem_append.mp he' with h | h
            · exact le_of_eq (hmem e' (by simp [h])).symm
            · exact le_of_lt (hk4 e' h)
          remD_le := by
            intro e' he'
            rcases List.mem_append.mp he' with h | h
            · exact I.remD_le e' h
            · exact le_of_eq (hk1 e' h)
          remR_gt := hk2 }
        have := h_ins x (insD ++ d) e (r ++ Idp) (remD ++ Dtk) Rdp s' F hP
        simpa [List.append_assoc] using this
    -- membership / bounds for what is left
    have hinsS : T.ins = (insD ++ Itk) ++ Idp := by rw [I.hins, hinsR]; simp
    have hremS : T.rem = (remD ++ Dtk) ++ Rdp := by rw [I.hrem, hremR]; simp
    have hIdpE : ∀ e ∈ Idp, e < T.numEdges := fun e he =>
      hV.mem_ins.mp (by rw [hinsS]; exact List.mem_append_right _ he)
    have hRdpE : ∀ e ∈ Rdp, e < T.numEdges := fun e he =>
      hV.mem_rem.mp (by rw [hremS]; exact List.mem_append_right _ he)
    have hInsDE : ∀ e ∈ insD ++ Itk, e < T.numEdges := fun e he =>
      hV.mem_ins.mp (by rw [hinsS]; exact List.mem_append_left _ he)
    have hIdpS : Idp.Pairwise (fun a b => T.l a ≤ T.l b) := by
      have := hV.insSorted; rw [hinsS] at this; exact (List.pairwise_append.mp this).2.1
    have hRdpS : Rdp.Pairwise (fun a b => T.r a ≤ T.r b) := by
      have := hV.remSorted; rw [hremS] at this; exact (List.pairwise_append.mp this).2.1
    set x' := nextPos T Idp Rdp with hx'
    have hxL : Idp ≠ [] ∨ Rdp ≠ [] → x < T.seqLen := by
      rintro (h | h)
      · obtain ⟨a, r, ha⟩ := List.exists_cons_of_ne_nil h
        have hm : a ∈ Idp := by rw [ha]; exact List.mem_cons_self ..
        have g := hV.geom a (hIdpE a hm)
        exact lt_of_lt_of_le (lt_trans (hk4 a hm) g.2.1) g.2.2
      · obtain ⟨a, r, ha⟩ := List.exists_cons_of_ne_nil h
        have hm : a ∈ Rdp := by rw [ha]; exact List.mem_cons_self ..
        exact lt_of_lt_of_le (hk2 a hm) (hV.geom a (hRdpE a hm)).2.2
    have hlt : Idp ≠ [] ∨ Rdp ≠ [] → x < x' := fun h => lt_nextPos T x Idp Rdp (hxL h) hk4 hk2
    have hlast : Idp = [] → Rdp = [] → x' = T.seqLen := by
      intro h1 h2; rw [hx', h1, h2]; rfl
    have hle : x ≤ x' := by
      by_cases h : Idp ≠ [] ∨ Rdp ≠ []
      · exact le_of_lt (hlt h)
      · simp only [not_or, ne_eq, not_not] at h
        rw [hlast h.1 h.2]; exact I.le_len
    have F : AdvFacts T x x' (insD ++ Itk) Idp (remD ++ Dtk) Rdp := {
      hins := hinsS
      hrem := hremS
      insD_le := by
        intro e' he'
        rcases List.mem_append.mp he' with h | h
        · exact le_of_lt (I.insD_lt e' h)
        · exact le_of_eq (hk3 e' h)
      insR_ge := by
        intro e' he'
        rcases hc : Idp with _ | ⟨a, r⟩
        · rw [hc] at he'; simp at he'
        · rw [hc] at he' hIdpS
          have h1 : x' ≤ T.l a := by rw [hx', hc]; exact nextPos_le_ins T Rdp a r
          rcases List.mem_cons.mp he' with rfl | h
          · exact h1
          · exact le_trans h1 (List.rel_of_pairwise_cons hIdpS h)
      remD_le := by
        intro e' he'
        rcases List.mem_append.mp he' with h | h
        · exact I.remD_le e' h
        · exact le_of_eq (hk1 e' h)
      remR_ge := by
        intro e' he'
        rcases hc : Rdp with _ | ⟨a, r⟩
        · rw [hc] at he'; simp at he'
        · rw [hc] at he' hRdpS
          have h1 : x' ≤ T.r a := by rw [hx', hc]; exact nextPos_le_rem T Idp a r
          rcases List.mem_cons.mp he' with rfl | h
          · exact h1
          · exact le_trans h1 (List.rel_of_pairwise_cons hRdpS h)
      le := hle
      le_len := nextPos_le_len T Idp Rdp
      lt := hlt
      last := hlast
      isBreak := by
        rcases nextPos_cases T Idp Rdp with h | ⟨e, he, h⟩ | ⟨e, he, h⟩
        · exact Or.inl h
        · exact Or.inr ⟨e, hRdpE e he, Or.inr h⟩
        · exact Or.inr ⟨e, hIdpE e he, Or.inl h⟩ }
    obtain ⟨hstop, hcont⟩ := h_adv x x' (insD ++ Itk) Idp (remD ++ Dtk) Rdp _ F hDr2
    -- unfold one iteration of the model
    have hgo : go T H (n + 1) x insR remR s =
        (let s3 := H.mid x (Itk.foldl (H.insert x) (Dtk.foldl (H.remove x) (H.head x s)))
         if H.stop s3 then some s3 else go T H n x' Idp Rdp (H.tail x' s3)) := by
      rw [go]
      simp only [hemp', drainWhile_eq]
      rfl
    rw [hgo]
    by_cases hs : H.stop (H.mid x (Itk.foldl (H.insert x) (Dtk.foldl (H.remove x) (H.head x s)))) = true
    · exact ⟨_, by simp [hs], hstop hs⟩
    · have hs' := Bool.eq_false_iff.mpr hs
      simp only [hs']
      have I' : HeadInv T x' (insD ++ Itk) Idp (remD ++ Dtk) Rdp := {
        hins := hinsS
        hrem := hremS
        insD_lt := by
          intro e' he'
          by_cases h : Idp ≠ [] ∨ Rdp ≠ []
          · exact lt_of_le_of_lt (F.insD_le e' he') (hlt h)
          · simp only [not_or, ne_eq, not_not] at h
            rw [hlast h.1 h.2]
            have g := hV.geom e' (hInsDE e' he')
            exact lt_of_lt_of_le g.2.1 g.2.2
        insR_ge := F.insR_ge
        remD_le := fun e' he' => le_trans (F.remD_le e' he') hle
        remR_ge := F.remR_ge
        le_len := F.le_len }
      have hF' : FuelOk T n x' Idp Rdp := by
        have hlenI : Idp.length ≤ insR.length := length_dropWhile_le q insR
        have hlenR : Rdp.length ≤ remR.length := length_dropWhile_le p remR
        constructor
        · rcases hF.2 with hS | hE | hB
          · rcases hS with ⟨e, r, he, hk⟩ | ⟨e, r, he, hk⟩
            · have : Rdp.length < remR.length := by
                rw [hRdp, he]; exact length_dropWhile_lt p e r (by simp [hp, hk])
              have := hF.1; omega
            · have : Idp.length < insR.length := by
                rw [hIdp, he]; exact length_dropWhile_lt q e r (by simp [hq, hk])
              have := hF.1; omega
          · exact absurd hE hemp
          · omega
        · by_cases h : Idp ≠ [] ∨ Rdp ≠ []
          · left
            apply nextPos_starts T Idp Rdp _ _ h
            · intro e he
              have g := hV.geom e (hIdpE e he)
              exact le_trans (le_of_lt g.2.1) g.2.2
            · intro e he
              exact (hV.geom e (hRdpE e he)).2.2
          · simp only [not_or, ne_eq, not_not] at h
            right; left; exact h
      exact ih x' (insD ++ Itk) Idp (remD ++ Dtk) Rdp _ I' hF' (hcont hs')

/-- The rule for the whole sweep from `left = 0`. -/
theorem sweep_rule (T : Tables α) (hV : Valid T) (H : Hooks α σ)
    (Hd Dr : α → List Nat → List Nat → σ → Prop) (Post : σ → Prop) (s0 : σ)
    (h_init : Hd 0 [] [] s0)
    (h_head : ∀ x insD remD s, Hd x insD remD s → Dr x insD remD (H.head x s))
    (h_rem : ∀ x insD insR remD e remR s, RemFacts T x insD insR remD e remR →
        Dr x insD remD s → Dr x insD (remD ++ [e]) (H.remove x s e))
    (h_ins : ∀ x insD e insR remD remR s, InsFacts T x insD e insR remD remR →
        Dr x insD remD s → Dr x (insD ++ [e]) remD (H.insert x s e))
    (h_adv : ∀ x x' insD insR remD remR s, AdvFacts T x x' insD insR remD remR →
        Dr x insD remD s →
        (H.stop (H.mid x s) = true → Post (H.mid x s)) ∧
        (H.stop (H.mid x s) = false → Hd x' insD remD (H.tail x' (H.mid x s))))
    (h_exit : ∀ x s, (∀ e, e < T.numEdges → T.r e ≤ x) → x ≤ T.seqLen → Hd x T.ins T.rem s → Post s) :
    ∃ s', sweep T H s0 = some s' ∧ Post s' := by
  unfold sweep
  apply go_rule T hV H Hd Dr Post h_head h_rem h_ins h_adv h_exit _ 0 [] T.ins [] T.rem s0 _ _ h_init
  · exact {
      hins := by simp
      hrem := by simp
      insD_lt := by simp
      insR_ge := fun e he => (hV.geom e (hV.mem_ins.mp he)).1
      remD_le := by simp
      remR_ge := fun e he =>
        le_of_lt (lt_of_le_of_lt (hV.geom e (hV.mem_rem.mp he)).1 (hV.geom e (hV.mem_rem.mp he)).2.1)
      le_len := hV.lenNonneg }
  · exact ⟨by omega, Or.inr (Or.inr (le_refl _))⟩

end

end Tsdate.Sweep
