/-
Lemmas about the `set_time_metadata` model (C32). Core Lean only.
-/
import TsdateVerif.Spec.Metadata

namespace Tsdate.Metadata

variable {S V : Type}

/-! ### dict update -/

theorem get_upsert_same (k : String) (v : V) (r : Row V) : get k (upsert k v r) = some v := by
  induction r with
  | nil => simp [upsert, get]
  | cons kv r ih =>
    obtain ⟨k', v'⟩ := kv
    by_cases h : k' = k
    · simp [upsert, get, h]
    · simp [upsert, get, h, ih]

theorem get_upsert_other (k k' : String) (v : V) (r : Row V) (h : k' ≠ k) :
    get k' (upsert k v r) = get k' r := by
  induction r with
  | nil =>
    have h' : ¬ k = k' := fun e => h e.symm
    simp [upsert, get, h']
  | cons kv r ih =>
    obtain ⟨k'', v''⟩ := kv
    by_cases h2 : k'' = k
    · subst h2
      simp [upsert, get, Ne.symm h]
    · by_cases h3 : k'' = k'
      · subst h3
        simp [upsert, get, h2]
      · simp [upsert, get, h2, h3, ih]

/-- The keys after an update: unchanged if the key was present, else the key is appended. -/
theorem keys_upsert (k : String) (v : V) (r : Row V) :
    (upsert k v r).map Prod.fst
      = if k ∈ r.map Prod.fst then r.map Prod.fst else r.map Prod.fst ++ [k] := by
  induction r with
  | nil => simp [upsert]
  | cons kv r ih =>
    obtain ⟨k', v'⟩ := kv
    by_cases h : k' = k
    · subst h
      simp [upsert]
    · have h' : ¬ k = k' := fun e => h e.symm
      simp only [upsert, if_neg h, List.map_cons, ih, List.mem_cons, h', false_or]
      split <;> simp

theorem length_upsert_ge (k : String) (v : V) (r : Row V) : r.length ≤ (upsert k v r).length := by
  induction r with
  | nil => simp [upsert]
  | cons kv r ih =>
    obtain ⟨k', v'⟩ := kv
    by_cases h : k' = k
    · simp [upsert, h]
    · simp [upsert, h]; exact ih

theorem get_mergeTime_mn (r : Row V) (mn vr : V) : get "mn" (mergeTime r mn vr) = some mn := by
  unfold mergeTime
  rw [get_upsert_other _ _ _ _ (by decide), get_upsert_same]

theorem get_mergeTime_vr (r : Row V) (mn vr : V) : get "vr" (mergeTime r mn vr) = some vr := by
  unfold mergeTime
  rw [get_upsert_same]

theorem get_mergeTime_other (r : Row V) (mn vr : V) (k : String) (h1 : k ≠ "mn") (h2 : k ≠ "vr") :
    get k (mergeTime r mn vr) = get k r := by
  unfold mergeTime
  rw [get_upsert_other _ _ _ _ h2, get_upsert_other _ _ _ _ h1]

/-! ### the `_time_md_array` loop -/

theorem timeRows_eq (ok : Row V → Bool) : ∀ (rs : List (Row V)) (mns vrs : List V),
    timeRows ok rs mns vrs
      = if (mergedRows rs mns vrs).all ok then some (mergedRows rs mns vrs) else none := by
  intro rs
  induction rs with
  | nil => intro mns vrs; simp [timeRows, mergedRows]
  | cons r rs ih =>
    intro mns vrs
    cases mns with
    | nil => simp [timeRows, mergedRows]
    | cons mn mns =>
      cases vrs with
      | nil => simp [timeRows, mergedRows]
      | cons vr vrs =>
        simp only [timeRows, mergedRows, ih, List.all_cons]
        by_cases h1 : ok (mergeTime r mn vr) = true
        · by_cases h2 : (mergedRows rs mns vrs).all ok = true
          · simp [h1, h2]
          · simp [h1, h2]
        · simp [h1]

theorem timeMdArray_eq (admits : S → Row V → Bool) (t : Table S V) (mean var : List V) :
    timeMdArray admits t mean var
      = if canEncode admits t mean var then some (mergedRows (decoded t) mean var) else none := by
  unfold timeMdArray canEncode
  cases t.schema with
  | none => simp
  | some s => simp [timeRows_eq]

theorem length_mergedRows : ∀ (rs : List (Row V)) (mns vrs : List V),
    (mergedRows rs mns vrs).length = min rs.length (min mns.length vrs.length) := by
  intro rs
  induction rs with
  | nil => intro mns vrs; simp [mergedRows]
  | cons r rs ih =>
    intro mns vrs
    cases mns with
    | nil => simp [mergedRows]
    | cons mn mns =>
      cases vrs with
      | nil => simp [mergedRows]
      | cons vr vrs => simp [mergedRows, ih]

theorem getElem?_mergedRows : ∀ (rs : List (Row V)) (mns vrs : List V) (i : Nat) (r : Row V) (mn vr : V),
    rs[i]? = some r → mns[i]? = some mn → vrs[i]? = some vr →
    (mergedRows rs mns vrs)[i]? = some (mergeTime r mn vr) := by
  intro rs
  induction rs with
  | nil => intro mns vrs i r mn vr h; simp at h
  | cons r0 rs ih =>
    intro mns vrs i r mn vr h1 h2 h3
    cases mns with
    | nil => simp at h2
    | cons mn0 mns =>
      cases vrs with
      | nil => simp at h3
      | cons vr0 vrs =>
        cases i with
        | zero =>
          simp at h1 h2 h3
          simp [mergedRows, h1, h2, h3]
        | succ i =>
          simp at h1 h2 h3
          simp [mergedRows]
          exact ih mns vrs i r mn vr h1 h2 h3

theorem length_decoded (t : Table S V) : (decoded t).length = t.cells.length := by
  unfold decoded
  split <;> simp

/-! ### tables -/

theorem hasBytes_drop (t : Table S V) : hasBytes (dropMetadata t) = false := by
  simp [hasBytes, dropMetadata]

theorem decoded_of_noBytes (t : Table S V) (h : hasBytes t = false) :
    decoded t = t.cells.map (fun _ => ([] : Row V)) := by
  simp [decoded, h]

/-- The table on which the second `_time_md_array` runs has only empty cells. -/
theorem cells_cleared (t : Table S V) :
    (if hasBytes t || t.schema.isSome then dropMetadata t else t).cells
      = t.cells.map (fun _ => (none : Option (Row V))) := by
  by_cases h : (hasBytes t || t.schema.isSome) = true
  · rw [if_pos h]; rfl
  · rw [if_neg h]
    have hb : hasBytes t = false := by
      cases hh : hasBytes t with
      | false => rfl
      | true => simp [hh] at h
    unfold hasBytes at hb
    rw [List.any_eq_false] at hb
    apply List.ext_getElem
    · simp
    · intro i h1 h2
      have := hb (t.cells[i]) (List.getElem_mem h1)
      cases hc : t.cells[i] with
      | none => simp
      | some r => simp [hc] at this

theorem all_default (admits : S → Row V → Bool) (dflt : S)
    (hd : ∀ mn vr, admits dflt (mergeTime [] mn vr) = true) :
    ∀ (n : List (Option (Row V))) (mean var : List V),
      (mergedRows (n.map (fun _ => ([] : Row V))) mean var).all (admits dflt) = true := by
  intro n
  induction n with
  | nil => intro mean var; simp [mergedRows]
  | cons c n ih =>
    intro mean var
    cases mean with
    | nil => simp [mergedRows]
    | cons mn mns =>
      cases var with
      | nil => simp [mergedRows]
      | cons vr vrs => simp only [List.map_cons, mergedRows, List.all_cons, hd, ih, Bool.and_self]

/-- Clearing and rewriting always succeeds when the default schema validates `{mn, vr}`. -/
theorem clearAndWrite_eq (admits : S → Row V → Bool) (dflt : S) (t : Table S V) (mean var : List V)
    (hd : ∀ mn vr, admits dflt (mergeTime [] mn vr) = true) :
    clearAndWrite admits dflt t mean var = ⟨replacedTable dflt t mean var, .replaced⟩ := by
  unfold clearAndWrite
  simp only [cells_cleared]
  have hdec : decoded ({ schema := some dflt, cells := t.cells.map (fun _ => none) } : Table S V)
      = t.cells.map (fun _ => ([] : Row V)) := by
    rw [decoded_of_noBytes]
    · simp
    · simp [hasBytes]
  have hce : canEncode admits
      ({ schema := some dflt, cells := t.cells.map (fun _ => none) } : Table S V) mean var = true := by
    simp only [canEncode, hdec]
    exact all_default admits dflt hd t.cells mean var
  rw [timeMdArray_eq, hce]
  simp [packset, replacedTable, hdec]

/-- Full case analysis of the model, for `set_metadata ≠ False` and a variance present.
`hd`: the default schema validates a `{mn, vr}` row (true of tskit's JSON codec for floats). -/
theorem setTimeMetadata_some (admits : S → Row V → Bool) (dflt : S) (sm : SetMd) (hsm : sm ≠ .off)
    (t : Table S V) (mean var : List V)
    (hd : ∀ mn vr, admits dflt (mergeTime [] mn vr) = true) :
    (canEncode admits t mean var = true →
        setTimeMetadata admits dflt sm t mean (some var) = ⟨mergedTable t mean var, .merged⟩) ∧
    (canEncode admits t mean var = false → blank t = false → sm = .auto →
        setTimeMetadata admits dflt sm t mean (some var) = ⟨t, .warned⟩) ∧
    (canEncode admits t mean var = false → (blank t = true ∨ sm = .force) →
        setTimeMetadata admits dflt sm t mean (some var)
          = ⟨replacedTable dflt t mean var, .replaced⟩) := by
  refine ⟨?_, ?_, ?_⟩
  · intro hc
    cases sm with
    | off => exact absurd rfl hsm
    | auto => simp [setTimeMetadata, timeMdArray_eq, hc, packset, mergedTable]
    | force => simp [setTimeMetadata, timeMdArray_eq, hc, packset, mergedTable]
  · intro hc hb hs
    subst hs
    have hb' : (hasBytes t || t.schema.isSome) = true := by
      cases hx : (hasBytes t || t.schema.isSome) with
      | true => rfl
      | false => simp [blank, hx] at hb
    simp [setTimeMetadata, timeMdArray_eq, hc, hb']
  · intro hc hor
    cases sm with
    | off => exact absurd rfl hsm
    | auto =>
      rcases hor with hb | hs
      · have hb' : (hasBytes t || t.schema.isSome) = false := by
          cases hx : (hasBytes t || t.schema.isSome) with
          | false => rfl
          | true => simp [blank, hx] at hb
        simp [setTimeMetadata, timeMdArray_eq, hc, hb', clearAndWrite_eq admits dflt t mean var hd]
      · exact absurd hs (by decide)
    | force =>
      simp [setTimeMetadata, timeMdArray_eq, hc, clearAndWrite_eq admits dflt t mean var hd]

end Tsdate.Metadata
