/-
C26: soundness of the PELT pruning step of `_poisson_changepoints` for superadditive losses.

Invariant: every index already computed is *dominated* by a surviving candidate — some candidate's
cost is no larger for every later end point — so the minimum over the surviving candidates equals the
minimum over all indices, and `F` is the true optimum.
-/
import TsdateVerif.Proofs.Changepoints

namespace Tsdate.Changepoints
set_option linter.unusedSectionVars false

section Pelt
variable {κ : Type} [Inhabited κ] [AddCommMonoid κ] [LinearOrder κ] [IsOrderedAddMonoid κ]

/-- invariant of the pruned `j` loop for observations `0..n` -/
structure PInv (f : Nat → Nat → κ) (pen F0 : κ) (n : Nat) (s : St κ) : Prop where
  len : s.P.length = s.F.length
  pos : 0 < s.F.length
  f0 : lget s.F 0 = F0
  candsLt : ∀ i ∈ s.cands, i < s.F.length
  lower : ∀ i, i < s.F.length → ∀ seg, IsSeg i seg → lget s.F i ≤ segCost f pen F0 seg
  attain : ∀ i, i < s.F.length →
    IsSeg i (lget s.P i ++ [i]) ∧ segCost f pen F0 (lget s.P i ++ [i]) = lget s.F i
  dom : ∀ i, i < s.F.length → ∃ i' ∈ s.cands, ∀ t, s.F.length ≤ t → t ≤ n →
    lget s.F i' + f i' t + pen ≤ lget s.F i + f i t + pen

theorem pInv_init (f : Nat → Nat → κ) (pen F0 : κ) (n : Nat) : PInv f pen F0 n (init F0) := by
  have hd := dpInv_init f pen F0
  refine ⟨hd.len, hd.pos, by simp [init, lget], by simp [init], hd.lower, hd.attain, ?_⟩
  intro i hi
  have : i = 0 := by simpa [init] using hi
  subst this
  exact ⟨0, by simp [init], fun t _ _ => le_rfl⟩

/-- membership in the pruned candidate list -/
theorem mem_pruned (f : Nat → Nat → κ) (pen : κ) (F : List κ) (cands : List Nat) (j : Nat) (m : κ)
    (i : Nat) :
    i ∈ ((stepCosts f pen F cands j).filter (fun c => !(decide (m + pen < c.2)))).map (·.1) ↔
      i ∈ cands ∧ ¬ (m + pen < lget F i + f i j + pen) := by
  simp only [stepCosts, List.mem_map, List.mem_filter, Bool.not_eq_eq_eq_not, Bool.not_true,
    decide_eq_false_iff_not]
  constructor
  · rintro ⟨c, ⟨⟨i0, hi0, rfl⟩, hp⟩, rfl⟩
    exact ⟨hi0, hp⟩
  · rintro ⟨hi, hp⟩
    exact ⟨(i, lget F i + f i j + pen), ⟨⟨i, hi, rfl⟩, hp⟩, rfl⟩

theorem pInv_step (f : Nat → Nat → κ) (pen top F0 : κ) (hpen : 0 ≤ pen)
    (n : Nat) (hsup : ∀ i j t, i < j → j < t → t ≤ n → f i j + f j t ≤ f i t)
    (hfin : ∀ t, 0 < t → t ≤ n → F0 + f 0 t + pen < top)
    (s : St κ) (h : PInv f pen F0 n s) (hJ : s.F.length ≤ n) :
    ∃ s', step true f pen top s = some s' ∧ PInv f pen F0 n s' ∧ s'.F.length = s.F.length + 1 := by
  set J := s.F.length with hJdef
  set cs := stepCosts f pen s.F s.cands J with hcs
  set am := argminFold top cs with ham_def
  have hle : ∀ i ∈ s.cands, am.2 ≤ lget s.F i + f i J + pen := fun i hi =>
    foldMin_le_mem _ _ _ (mem_stepCosts f pen s.F s.cands J i hi)
  -- some candidate is strictly below `top`, so the fold picked a real candidate
  have hlt_top : am.2 < top := by
    obtain ⟨i', hi', hd⟩ := h.dom 0 h.pos
    have := hd J le_rfl hJ
    rw [h.f0] at this
    exact lt_of_le_of_lt (le_trans (hle i' hi') this) (hfin J h.pos hJ)
  have ham_mem : am ∈ cs := by
    rcases foldMin_mem cs (0, top) with e | e
    · exact absurd (congrArg Prod.snd e) (ne_of_lt hlt_top)
    · exact e
  obtain ⟨ham, hcost⟩ := of_mem_stepCosts f pen s.F s.cands J am ham_mem
  have hamlt : am.1 < J := h.candsLt _ ham
  have hkeep : ¬ (am.2 + pen < lget s.F am.1 + f am.1 J + pen) := by
    rw [← hcost]
    exact not_lt.mpr (le_add_of_nonneg_right hpen)
  set cands' := (cs.filter (fun c => !(decide (am.2 + pen < c.2)))).map (·.1) with hc'
  have ham' : am.1 ∈ cands' := (mem_pruned f pen s.F s.cands J am.2 am.1).mpr ⟨ham, hkeep⟩
  refine ⟨{ F := s.F ++ [am.2], P := s.P ++ [lget s.P am.1 ++ [am.1]], cands := cands' ++ [J] },
    ?_, ?_, by simp [hJdef]⟩
  · unfold step
    simp only [if_true, ← hJdef, ← hcs, ← ham_def, ← hc']
    rw [if_pos (by simpa using ham')]
  · have hFl : (s.F ++ [am.2]).length = J + 1 := by simp [hJdef]
    refine ⟨by simp [h.len], by simp, ?_, ?_, ?_, ?_, ?_⟩
    · rw [lget_append_left _ _ _ h.pos]; exact h.f0
    · intro i hi
      rw [hFl]
      rcases List.mem_append.mp hi with hi | hi
      · have := ((mem_pruned f pen s.F s.cands J am.2 i).mp hi).1
        exact Nat.lt_succ_of_lt (h.candsLt i this)
      · simp only [List.mem_singleton] at hi; omega
    · -- lower bound
      intro i hi seg hseg
      rw [hFl] at hi
      by_cases hlt : i < J
      · rw [lget_append_left _ _ _ hlt]
        exact h.lower i hlt seg hseg
      · have hij : i = J := by omega
        cases hseg with
        | base => exact absurd h.pos (by omega)
        | @snoc i0 _ s0 hs0 hlt0 =>
          subst hij
          rw [lget_append_length, segCost_snoc f pen s0 F0 i0 _ hs0.getLast]
          have h1 := h.lower i0 hlt0 s0 hs0
          have h2 : lget s.F i0 + f i0 J + pen ≤ segCost f pen F0 s0 + f i0 J + pen :=
            add_le_add (add_le_add h1 le_rfl) le_rfl
          obtain ⟨i', hi', hd⟩ := h.dom i0 hlt0
          exact le_trans (le_trans (hle i' hi') (hd J le_rfl hJ)) h2
    · -- attained
      intro i hi
      rw [hFl] at hi
      by_cases hlt : i < J
      · rw [lget_append_left _ _ _ hlt, lget_append_left _ _ _ (by rw [h.len]; exact hlt)]
        exact h.attain i hlt
      · have hij : i = J := by omega
        subst hij
        rw [lget_append_length]
        have hP : lget (s.P ++ [lget s.P am.1 ++ [am.1]]) J = lget s.P am.1 ++ [am.1] := by
          rw [hJdef, ← h.len]; exact lget_append_length _ _
        rw [hP]
        obtain ⟨a1, a2⟩ := h.attain am.1 hamlt
        refine ⟨IsSeg.snoc a1 hamlt, ?_⟩
        rw [segCost_snoc f pen _ F0 am.1 _ a1.getLast, a2, hcost]
    · -- domination
      intro i hi
      rw [hFl] at hi
      -- the new index dominates itself
      have hselfJ : ∀ t, lget (s.F ++ [am.2]) J + f J t + pen = am.2 + f J t + pen := by
        intro t; rw [hJdef, lget_append_length]
      by_cases hlt : i < J
      · obtain ⟨i', hi', hd⟩ := h.dom i hlt
        have hi'lt : i' < J := h.candsLt i' hi'
        by_cases hp : am.2 + pen < lget s.F i' + f i' J + pen
        · -- i' is pruned: J takes over
          refine ⟨J, by simp, ?_⟩
          intro t ht htn
          rw [hFl] at ht
          rw [hselfJ t, lget_append_left _ _ _ hlt]
          have h1 : am.2 ≤ lget s.F i' + f i' J := by
            by_contra hcon
            have := add_le_add (not_le.mp hcon).le (le_refl pen)
            exact absurd hp (not_lt.mpr this)
          have h2 : f i' J + f J t ≤ f i' t := hsup i' J t hi'lt (by omega) htn
          calc am.2 + f J t + pen
              ≤ (lget s.F i' + f i' J) + f J t + pen := add_le_add (add_le_add h1 le_rfl) le_rfl
            _ = lget s.F i' + (f i' J + f J t) + pen := by rw [add_assoc (lget s.F i')]
            _ ≤ lget s.F i' + f i' t + pen := add_le_add (add_le_add le_rfl h2) le_rfl
            _ ≤ lget s.F i + f i t + pen := hd t (by omega) htn
        · refine ⟨i', List.mem_append_left _ ((mem_pruned f pen s.F s.cands J am.2 i').mpr ⟨hi', hp⟩), ?_⟩
          intro t ht htn
          rw [hFl] at ht
          rw [lget_append_left _ _ _ hi'lt, lget_append_left _ _ _ hlt]
          exact hd t (by omega) htn
      · have hij : i = J := by omega
        subst hij
        exact ⟨J, by simp, fun t _ _ => le_rfl⟩

theorem pInv_iter (f : Nat → Nat → κ) (pen top F0 : κ) (hpen : 0 ≤ pen)
    (n : Nat) (hsup : ∀ i j t, i < j → j < t → t ≤ n → f i j + f j t ≤ f i t)
    (hfin : ∀ t, 0 < t → t ≤ n → F0 + f 0 t + pen < top)
    (m : Nat) (s : St κ) (h : PInv f pen F0 n s) (hm : s.F.length + m ≤ n + 1) :
    ∃ s', iter true f pen top m s = some s' ∧ PInv f pen F0 n s' ∧ s'.F.length = s.F.length + m := by
  induction m generalizing s with
  | zero => exact ⟨s, rfl, h, rfl⟩
  | succ m ih =>
    obtain ⟨s1, e1, h1, l1⟩ := pInv_step f pen top F0 hpen n hsup hfin s h (by omega)
    obtain ⟨s2, e2, h2, l2⟩ := ih s1 h1 (by omega)
    refine ⟨s2, ?_, h2, by omega⟩
    simp [iter, e1, e2]

/-- the pruned recursion returns an optimal segmentation when the loss is superadditive -/
theorem pelt_optimal (f : Nat → Nat → κ) (pen top F0 : κ) (hpen : 0 ≤ pen)
    (n : Nat) (hsup : ∀ i j t, i < j → j < t → t ≤ n → f i j + f j t ≤ f i t)
    (hfin : ∀ t, 0 < t → t ≤ n → F0 + f 0 t + pen < top) :
    ∃ seg, segment true f F0 pen top n = some seg ∧ IsSeg n seg ∧
      ∀ seg', IsSeg n seg' → segCost f pen F0 seg ≤ segCost f pen F0 seg' := by
  obtain ⟨s, e, h, l⟩ := pInv_iter f pen top F0 hpen n hsup hfin n (init F0)
    (pInv_init f pen F0 n) (by simp [init]; omega)
  have hn : n < s.F.length := by rw [l]; simp [init]
  obtain ⟨a1, a2⟩ := h.attain n hn
  refine ⟨lget s.P n ++ [n], by simp [segment, e], a1, ?_⟩
  intro seg' hseg'
  rw [a2]
  exact h.lower n hn seg' hseg'

end Pelt

end Tsdate.Changepoints
