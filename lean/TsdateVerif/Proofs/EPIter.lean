/-
`_rescale_factors`, `propagate_prior`, the sweeps and `iterate` keep the invariant of `Proofs/EP.lean`;
fixed nodes are never written.
-/
import TsdateVerif.Proofs.EPInv

namespace Tsdate.EP
set_option linter.unusedSectionVars false
set_option linter.unusedVariables false

variable {α : Type} [Inhabited α] [Field α] [LinearOrder α] [IsStrictOrderedRing α]

/-! ### `_rescale_factors` -/

theorem message_add (x y : α × α) (c : α) : message (x + y) c = message x c + message y c := by
  apply Prod.ext <;> simp [message, add_mul]

theorem message_zero (c : α) : message (0 : α × α) c = 0 := by
  apply Prod.ext <;> simp [message]

theorem message_one (x : α × α) : message x 1 = x := by
  apply Prod.ext <;> simp [message]

/-- Accumulating over a table whose rows were multiplied by the scale of the node they are addressed to. -/
theorem accTo_scaled (par chi : Array Nat) (fac : Array (Msg α)) (g : Nat → α) (n : Nat) (acc : α × α)
    (K : Nat) (hK : K ≤ fac.size) :
    accTo par chi
        (fac.mapIdx (fun k m => ⟨message m.r (g (aget par k)), message m.l (g (aget chi k))⟩)) n
        (message acc (g n)) K =
      message (accTo par chi fac n acc K) (g n) := by
  induction K with
  | zero => rfl
  | succ k ih =>
    have hk : k < fac.size := by omega
    rw [accTo_succ, accTo_succ, ih (by omega), message_add]
    congr 1
    simp only [rowC, aget_mapIdx _ _ _ hk, message_add]
    congr 1
    · split_ifs with h
      · rw [h]
      · rw [message_zero]
    · split_ifs with h
      · rw [h]
      · rw [message_zero]

theorem tot_scaled (par chi : Array Nat) (fac : Array (Msg α)) (g : Nat → α) (n : Nat) :
    tot par chi (fac.mapIdx (fun k m => ⟨message m.r (g (aget par k)), message m.l (g (aget chi k))⟩)) n =
      message (tot par chi fac n) (g n) := by
  unfold tot
  have := accTo_scaled par chi fac g n 0 fac.size le_rfl
  rw [message_zero] at this
  rw [Array.size_mapIdx]
  exact this

/-- **`_rescale_factors` absorbs the scales into the messages**: afterwards every scale is 1, the posteriors are
untouched and the messages sum to the posterior. -/
theorem rescaleFactors_spec (net : Net α) (s : State α) (N : Nat) (hinv : Inv net s N) :
    Inv net (rescaleFactors net s) N ∧ (rescaleFactors net s).post = s.post ∧
      (∀ n, n < N → aget (rescaleFactors net s).scale n = 1) ∧
      (∀ n, n < N → assemble net (rescaleFactors net s) n = aget s.post n) := by
  have hsz := hinv.sizes
  have hasm : ∀ n, n < N → assemble net (rescaleFactors net s) n = aget s.post n := by
    intro n hn
    rw [hinv.asm n hn, assemble_eq, assemble_eq]
    simp only [rescaleFactors]
    rw [tot_scaled net.ep net.ec s.edge (fun k => aget s.scale k) n,
      tot_scaled net.bj net.bk s.block (fun k => aget s.scale k) n,
      aget_mapIdx _ _ _ (by rw [hsz.node]; exact hn)]
    simp only [message_add]
  have hsc : ∀ n, n < N → aget (rescaleFactors net s).scale n = 1 := by
    intro n hn
    simp only [rescaleFactors]
    exact aget_replicate _ _ _ (by rw [hsz.scale]; exact hn)
  refine ⟨⟨⟨?_, ?_, hsz.post, ?_, ?_⟩, ?_, ?_⟩, rfl, hsc, hasm⟩
  · simp [rescaleFactors, hsz.node]
  · simp [rescaleFactors, hsz.scale]
  · simp [rescaleFactors, hsz.edge]
  · simp [rescaleFactors, hsz.block]
  · intro n hn
    rw [hsc n hn, message_one, hasm n hn]
    rfl
  · intro n hn
    rw [hsc n hn]
    exact one_ne_zero

theorem tinyCheck_inv (cfg : Cfg α) (net : Net α) (N : Nat) (u : Bool) (i : Nat) (s : State α)
    (hinv : Inv net s N) : Inv net (tinyCheck cfg net u i s) N := by
  unfold tinyCheck
  split_ifs
  · exact (rescaleFactors_spec net s N hinv).1
  · exact hinv

theorem tinyCheck_post (cfg : Cfg α) (net : Net α) (u : Bool) (i : Nat) (s : State α) :
    (tinyCheck cfg net u i s).post = s.post := by
  unfold tinyCheck
  split_ifs <;> rfl

/-! ### sweeps -/

theorem stepEdge_inv (proj : Req α → Res α) (cfg : Cfg α) (net : Net α) (N : Nat) (u : Bool) (s : State α)
    (i : Nat) (hinv : Inv net s N) (hnet : NetOK net N) (hi : i < (parOf u net).size)
    (hs : 1 < cfg.maxShape) : Inv net (stepEdge proj cfg net u s i) N := by
  unfold stepEdge
  exact stepApply_inv cfg net N u i _ (tinyCheck_inv cfg net N u i s hinv) hnet hi hs _

theorem sweep_inv (proj : Req α → Res α) (cfg : Cfg α) (net : Net α) (N : Nat) (u : Bool)
    (order : List Nat) (s : State α) (hinv : Inv net s N) (hnet : NetOK net N)
    (hord : ∀ i ∈ order, i < (parOf u net).size) (hs : 1 < cfg.maxShape) :
    Inv net (sweep proj cfg net u order s) N := by
  unfold sweep
  induction order generalizing s with
  | nil => exact hinv
  | cons i rest ih =>
    rw [List.foldl_cons]
    exact ih _ (stepEdge_inv proj cfg net N u s i hinv hnet (hord i (List.mem_cons_self ..)) hs)
      (fun j hj => hord j (List.mem_cons_of_mem _ hj))

/-! ### `propagate_prior` -/

/-- The scalar identities behind `propagate_prior` (first and second natural parameter). -/
theorem prior_scalar1 (T f sc eta post : α) (hsc : sc ≠ 0) (hpost : post = T * sc) :
    post * eta = (T + ((post - (post - 1 * (f * sc))) / sc - f)) * (sc * eta) := by
  subst hpost; field_simp; ring

theorem prior_scalar2 (T f sc eta post pen : α) (hsc : sc ≠ 0) (hpost : post = T * sc) :
    (post - 1 * (f * sc) + pen) * eta =
      (T + ((post - 1 * (f * sc) + pen - (post - 1 * (f * sc))) / sc - f)) * (sc * eta) := by
  subst hpost; field_simp; ring

theorem assemble_node (net : Net α) (s : State α) (n : Nat) (m' : Msg α) (hn : n < s.node.size) (k : Nat) :
    assemble net { s with node := aset s.node n m' } k =
      assemble net s k + (if k = n then (m'.r - (aget s.node n).r) + (m'.l - (aget s.node n).l) else 0) := by
  rw [assemble_eq, assemble_eq]
  by_cases h : k = n
  · subst h
    simp only [aget_aset_same _ _ _ hn, if_true]; abel
  · simp only [aget_aset_other _ _ _ _ h, if_neg h]; abel

theorem priorNode_inv (cfg : Cfg α) (net : Net α) (N : Nat) (pen : α) (s : State α) (n : Nat)
    (hinv : Inv net s N) (hn : n < N) (hs : 1 < cfg.maxShape) : Inv net (priorNode cfg pen s n) N := by
  have hsz := hinv.sizes
  have hnn : n < s.node.size := by rw [hsz.node]; exact hn
  have hnp : n < s.post.size := by rw [hsz.post]; exact hn
  have hns : n < s.scale.size := by rw [hsz.scale]; exact hn
  have hscnz := hinv.nz n hn
  have heta := ne_of_gt (rescale_pos ((aget s.post n).1,
    (cavity (aget s.post n) (message (aget s.node n).r (aget s.scale n)) 1).2 + pen) cfg.maxShape hs)
  unfold priorNode
  dsimp only
  refine ⟨⟨by simp [hsz.node], by simp [hsz.scale], by simp [hsz.post], hsz.edge, hsz.block⟩, ?_, ?_⟩
  · intro k hk
    have := assemble_node net s n ⟨(((aget s.post n).1 -
        (cavity (aget s.post n) (message (aget s.node n).r (aget s.scale n)) 1).1) / aget s.scale n,
      ((cavity (aget s.post n) (message (aget s.node n).r (aget s.scale n)) 1).2 + pen -
        (cavity (aget s.post n) (message (aget s.node n).r (aget s.scale n)) 1).2) / aget s.scale n),
      (aget s.node n).l⟩ hnn k
    show _ = message (assemble net { s with node := _ } k) _
    rw [this]
    by_cases h : k = n
    · subst h
      simp only [aget_aset_same _ _ _ hnp, aget_aset_same _ _ _ hns, if_true, sub_self, add_zero]
      have hA := hinv.asm k hk
      apply Prod.ext
      · simp only [scalePost, message, cavity, Prod.fst_add, Prod.fst_sub]
        have h1 : (aget s.post k).1 = (assemble net s k).1 * aget s.scale k := by rw [hA]; rfl
        exact prior_scalar1 _ _ _ _ _ hscnz h1
      · simp only [scalePost, message, cavity, Prod.snd_add, Prod.snd_sub]
        have h1 : (aget s.post k).2 = (assemble net s k).2 * aget s.scale k := by rw [hA]; rfl
        exact prior_scalar2 _ _ _ _ _ _ hscnz h1
    · simp only [aget_aset_other _ _ _ _ h, if_neg h, add_zero]
      exact hinv.asm k hk
  · intro k hk
    by_cases h : k = n
    · subst h
      simp only [aget_aset_same _ _ _ hns]
      exact mul_ne_zero hscnz heta
    · simp only [aget_aset_other _ _ _ _ h]
      exact hinv.nz k hk

theorem priorNode_post_other (cfg : Cfg α) (pen : α) (s : State α) (n m : Nat) (h : m ≠ n) :
    aget (priorNode cfg pen s n).post m = aget s.post m := by
  unfold priorNode
  dsimp only
  rw [aget_aset_other _ _ _ _ h]

theorem mem_freeList (free : Array Bool) (n : Nat) (h : n ∈ freeList free) :
    n < free.size ∧ aget free n = true := by
  unfold freeList at h
  rw [List.mem_filter, List.mem_range] at h
  exact h

theorem priorWith_inv (cfg : Cfg α) (net : Net α) (N : Nat) (free : Array Bool) (pen : α) (s : State α)
    (hinv : Inv net s N) (hfree : free.size ≤ N) (hs : 1 < cfg.maxShape) :
    Inv net (priorWith cfg free pen s) N := by
  unfold priorWith
  have : ∀ (l : List Nat), (∀ n ∈ l, n < N) → ∀ s : State α, Inv net s N →
      Inv net (l.foldl (priorNode cfg pen) s) N := by
    intro l
    induction l with
    | nil => intro _ s h; exact h
    | cons n rest ih =>
      intro hl s h
      rw [List.foldl_cons]
      exact ih (fun m hm => hl m (List.mem_cons_of_mem _ hm)) _
        (priorNode_inv cfg net N pen s n h (hl n (List.mem_cons_self ..)) hs)
  exact this _ (fun n hn => lt_of_lt_of_le (mem_freeList free n hn).1 hfree) s hinv

/-- **`propagate_prior` keeps the bookkeeping identity** — for whatever penalty the EM loop produced. -/
theorem prior_inv (cfg : Cfg α) (net : Net α) (N : Nat) (free : Array Bool) (cnt reltol : α) (maxitt : Nat)
    (s : State α) (hinv : Inv net s N) (hfree : free.size ≤ N) (hs : 1 < cfg.maxShape) :
    Inv net (prior cfg free cnt reltol maxitt s) N := by
  unfold prior
  split_ifs
  · exact hinv
  · exact priorWith_inv cfg net N free _ s hinv hfree hs

/-! ### `iterate` -/

/-- What the static inputs of `iterate` must satisfy (all decidable; the harness evaluates them). -/
structure SchedOK (net : Net α) (sch : Sched α) (N : Nat) : Prop where
  netok : NetOK net N
  border : ∀ i ∈ sch.blockOrder, i < net.bj.size
  eorder : ∀ i ∈ sch.edgeOrder, i < net.ep.size
  free : sch.free.size ≤ N

theorem iterate_spec (proj : Req α → Res α) (cfg : Cfg α) (net : Net α) (sch : Sched α) (N : Nat)
    (s : State α) (hinv : Inv net s N) (hok : SchedOK net sch N) (hs : 1 < cfg.maxShape) :
    Inv net (iterate proj cfg net sch s) N ∧
      (∀ n, n < N → aget (iterate proj cfg net sch s).scale n = 1) ∧
      (∀ n, n < N → assemble net (iterate proj cfg net sch s) n = aget (iterate proj cfg net sch s).post n) := by
  unfold iterate
  dsimp only
  have h1 := sweep_inv proj cfg net N true sch.blockOrder s hinv hok.netok hok.border hs
  have h2 := sweep_inv proj cfg net N false sch.edgeOrder _ h1 hok.netok hok.eorder hs
  have h3 : Inv net (if sch.regularise = true then
      prior cfg sch.free sch.cnt sch.reltol sch.maxitt
        (sweep proj cfg net false sch.edgeOrder (sweep proj cfg net true sch.blockOrder s))
      else sweep proj cfg net false sch.edgeOrder (sweep proj cfg net true sch.blockOrder s)) N := by
    split_ifs
    · exact prior_inv cfg net N sch.free _ _ _ _ h2 hok.free hs
    · exact h2
  obtain ⟨ha, hb, hc, hd⟩ := rescaleFactors_spec net _ N h3
  refine ⟨ha, hc, ?_⟩
  intro n hn
  rw [hd n hn, hb]

theorem iterateN_inv (proj : Req α → Res α) (cfg : Cfg α) (net : Net α) (sch : Sched α) (N : Nat)
    (k : Nat) (s : State α) (hinv : Inv net s N) (hok : SchedOK net sch N) (hs : 1 < cfg.maxShape) :
    Inv net (iterateN proj cfg net sch k s) N := by
  induction k generalizing s with
  | zero => exact hinv
  | succ k ih => exact ih _ (iterate_spec proj cfg net sch N s hinv hok hs).1

theorem iterateN_succ (proj : Req α → Res α) (cfg : Cfg α) (net : Net α) (sch : Sched α) (k : Nat)
    (s : State α) :
    iterateN proj cfg net sch (k + 1) s = iterate proj cfg net sch (iterateN proj cfg net sch k s) := by
  induction k generalizing s with
  | zero => rfl
  | succ k ih =>
    show iterateN proj cfg net sch (k + 1) (iterate proj cfg net sch s) = _
    rw [ih]
    rfl

/-! ### the initial state -/

theorem accTo_init (par chi : Array Nat) (E : Nat) (n K : Nat) (hK : K ≤ E) :
    accTo par chi (Array.replicate E (⟨pzero, pzero⟩ : Msg α)) n 0 K = 0 := by
  induction K with
  | zero => rfl
  | succ k ih =>
    rw [accTo_succ, ih (by omega)]
    simp only [rowC, aget_replicate _ _ _ (show k < E by omega), pzero_eq]
    split_ifs <;> simp

theorem init_inv (net : Net α) (N : Nat) :
    Inv net (initState N net.ep.size net.bj.size) N := by
  refine ⟨⟨by simp [initState], by simp [initState], by simp [initState], by simp [initState],
    by simp [initState]⟩, ?_, ?_⟩
  · intro n hn
    rw [assemble_eq]
    simp only [initState, tot, Array.size_replicate]
    rw [accTo_init _ _ _ _ _ le_rfl, accTo_init _ _ _ _ _ le_rfl, aget_replicate _ _ _ hn,
      aget_replicate _ _ _ hn, aget_replicate _ _ _ hn]
    simp only [pzero_eq, add_zero, message, Prod.fst_zero, Prod.snd_zero, zero_mul]
    rfl
  · intro n hn
    simp only [initState]
    rw [aget_replicate _ _ _ hn]
    exact one_ne_zero

/-! ### fixed nodes are never written -/

theorem stepApply_post_fixed (cfg : Cfg α) (net : Net α) (u : Bool) (i : Nat) (s : State α) (r : Res α)
    (m : Nat) (hm : aget net.fixed m = true) :
    aget (stepApply cfg (prep cfg net u i s) i r s).post m = aget s.post m := by
  have hbr := prep_branch cfg net u i s
  have hpp := prep_p cfg net u i s
  have hcc := prep_c cfg net u i s
  unfold stepApply
  generalize hrq : prep cfg net u i s = rq at *
  cases hb : rq.branch
  · rfl
  · rw [hb] at hbr
    have := (branchOf_leaf _ _ _ hbr.symm).2
    simp only [hcc]
    exact applyEnd_post_other _ _ _ _ _ _ _ _ _ _ (fun h => by rw [h] at hm; simp_all)
  · rw [hb] at hbr
    have := (branchOf_root _ _ _ hbr.symm).1
    simp only [hpp]
    exact applyEnd_post_other _ _ _ _ _ _ _ _ _ _ (fun h => by rw [h] at hm; simp_all)
  · rw [hb] at hbr
    have := (branchOf_twin _ _ _ hbr.symm).1
    simp only [hpp]
    exact applyEnd_post_other _ _ _ _ _ _ _ _ _ _ (fun h => by rw [h] at hm; simp_all)
  · rw [hb] at hbr
    have h1 := (branchOf_both _ _ _ hbr.symm).1
    have h2 := (branchOf_both _ _ _ hbr.symm).2.1
    simp only [hpp, hcc]
    rw [applyEnd_post_other _ _ _ _ _ _ _ _ _ _ (fun h => by rw [h] at hm; simp_all),
      applyEnd_post_other _ _ _ _ _ _ _ _ _ _ (fun h => by rw [h] at hm; simp_all)]

theorem sweep_post_fixed (proj : Req α → Res α) (cfg : Cfg α) (net : Net α) (u : Bool) (order : List Nat)
    (s : State α) (m : Nat) (hm : aget net.fixed m = true) :
    aget (sweep proj cfg net u order s).post m = aget s.post m := by
  unfold sweep
  induction order generalizing s with
  | nil => rfl
  | cons i rest ih =>
    rw [List.foldl_cons, ih]
    unfold stepEdge
    dsimp only
    rw [stepApply_post_fixed cfg net u i _ _ m hm, tinyCheck_post]

theorem priorWith_post_fixed (cfg : Cfg α) (free : Array Bool) (pen : α) (s : State α) (m : Nat)
    (hm : aget free m = false) : aget (priorWith cfg free pen s).post m = aget s.post m := by
  unfold priorWith
  have : ∀ (l : List Nat), (∀ n ∈ l, n ≠ m) → ∀ s : State α,
      aget (l.foldl (priorNode cfg pen) s).post m = aget s.post m := by
    intro l
    induction l with
    | nil => intro _ s; rfl
    | cons n rest ih =>
      intro hl s
      rw [List.foldl_cons, ih (fun k hk => hl k (List.mem_cons_of_mem _ hk)),
        priorNode_post_other _ _ _ _ _ (hl n (List.mem_cons_self ..)).symm]
  exact this _ (fun n hn h => by rw [h] at hn; have := (mem_freeList free m hn).2; simp_all) s

/-- Fixed (sample) nodes: `iterate` never writes their posterior, for any projections, provided the prior is
only applied to non-fixed nodes (`unconstrained_roots` excludes the samples). -/
theorem iterate_post_fixed (proj : Req α → Res α) (cfg : Cfg α) (net : Net α) (sch : Sched α) (s : State α)
    (m : Nat) (hm : aget net.fixed m = true) (hfree : aget sch.free m = false) :
    aget (iterate proj cfg net sch s).post m = aget s.post m := by
  unfold iterate
  dsimp only
  show aget (rescaleFactors net _).post m = _
  have : ∀ t : State α, (rescaleFactors net t).post = t.post := fun t => rfl
  rw [this]
  split_ifs
  · unfold prior
    split_ifs
    · rw [sweep_post_fixed _ _ _ _ _ _ _ hm, sweep_post_fixed _ _ _ _ _ _ _ hm]
    · rw [priorWith_post_fixed _ _ _ _ _ hfree, sweep_post_fixed _ _ _ _ _ _ _ hm,
        sweep_post_fixed _ _ _ _ _ _ _ hm]
  · rw [sweep_post_fixed _ _ _ _ _ _ _ hm, sweep_post_fixed _ _ _ _ _ _ _ hm]

end Tsdate.EP
