/-
The facts about a single-tree input and its final inside state, bundled (used by `posterior_exact`).
-/
import TsdateVerif.Proofs.DiscreteFinal

namespace Tsdate.Discrete
open Tsdate

theorem groupsOK_lt (fixed : Array Bool) (n : Nat) : ∀ gs : List (Nat × List DEdge),
    groupsOK fixed n gs = true → ∀ g ∈ gs, aget fixed g.1 = false → g.1 < n
  | [], _, g, hg, _ => by cases hg
  | g0 :: rest, hok, g, hg, hf => by
    simp only [groupsOK, Bool.and_eq_true] at hok
    rcases List.mem_cons.mp hg with rfl | hg'
    · have := hok.1
      simp only [hf, Bool.false_or, Bool.and_eq_true, decide_eq_true_eq] at this
      exact this.1.1
    · exact groupsOK_lt fixed n rest hok.2 g hg' hf

section
variable {α : Type} [Field α] [Inhabited α]

/-- Everything `singleTreeOK` and the inside equations give about the final inside state. -/
theorem single_tree_facts (o : Ops α) (ho : IsLinOps o) (inp : Input α) (std : Bool)
    (hok : singleTreeOK inp = true)
    (hfrac : ∀ e ∈ inp.edges, aget inp.frac e.id = 1)
    (hd : ∀ g ∈ groupRuns (·.p) inp.edges, aget (insidePass o inp std).1.denom g.1 ≠ 0) :
    groupRuns (·.p) inp.edges ≠ [] ∧
    (∀ g ∈ groupRuns (·.p) inp.edges, aget inp.fixed g.1 = false ∧ g.1 < inp.numNodes ∧
      (aget (insidePass o inp std).1.inside g.1).size = inp.G) ∧
    (groupRuns (·.p) inp.edges).flatMap (·.2) = inp.edges ∧
    (∀ e ∈ inp.edges, aget inp.fixed e.c = false →
      (aget inp.lik e.id).size = triSize inp.G ∧ e.c ∈ (groupRuns (·.p) inp.edges).map (·.1)) ∧
    TreeOK inp.G inp.toTreeModel.fixed inp.toTreeModel.prior inp.toTreeModel.lik
      (insI (insidePass o inp std).1.inside) (fun u => aget (insidePass o inp std).1.denom u)
      (groupRuns (·.p) inp.edges) ∧
    inp.toTreeModel.nodes = (groupRuns (·.p) inp.edges).map (·.1) ∧
    inp.toTreeModel.edges = (groupRuns (·.p) inp.edges).flatMap (·.2) := by
  unfold singleTreeOK at hok
  simp only [Bool.and_eq_true, Bool.not_eq_true', List.all_eq_true, beq_iff_eq,
    Bool.or_eq_true, List.contains_iff_mem] at hok
  obtain ⟨⟨⟨⟨hne0, hnofix⟩, hgok⟩, hstars⟩, hsizes⟩ := hok
  set gs := groupRuns (·.p) inp.edges with hgs
  have hne : gs ≠ [] := by
    intro h; rw [h] at hne0; simp at hne0
  have hfin : (insidePass o inp std).1 = insideFold o inp std gs (insideInit o inp) := rfl
  set fin := insideFold o inp std gs (insideInit o inp) with hfindef
  rw [hfin] at hd ⊢
  have hsz0 : (insideInit o inp).denom.size = (insideInit o inp).inside.size := by simp [insideInit]
  have hn0 : (insideInit o inp).inside.size = inp.numNodes := by simp [insideInit]
  have spec := insideFold_spec o inp std gs (insideInit o inp) hsz0 (by rw [hn0]; exact hgok)
  have hflat : gs.flatMap (·.2) = inp.edges := groupRuns_flatMap _ _
  have hkey := groupRuns_key (·.p) inp.edges
  have hloc : ∀ g ∈ gs, aget inp.fixed g.1 = false ∧ (aget inp.prior g.1).size = inp.G ∧
      (∀ e ∈ g.2, e.p = g.1 ∧ aget inp.frac e.id = 1 ∧
        (aget inp.fixed e.c = false → (aget inp.lik e.id).size = triSize inp.G)) ∧
      aget fin.inside g.1 = ((groupVal o inp fin.inside g).map (fun v => o.ratio v (aget fin.denom g.1))).toArray ∧
      aget fin.denom g.1 ≠ 0 := by
    intro g hg
    have hf := hnofix g hg
    refine ⟨hf, (hsizes g hg).1, ?_, (spec g hg hf).2, hd g hg⟩
    intro e he
    have hmem : e ∈ inp.edges := by
      rw [← hflat]; exact List.mem_flatMap.mpr ⟨g, hg, he⟩
    refine ⟨hkey g hg e he, hfrac e hmem, ?_⟩
    intro hfc
    rcases (hsizes g hg).2 e he with h | h
    · rw [hfc] at h; exact absurd h (by simp)
    · exact h.1
  have tree := treeOK_of o ho inp fin.inside fin.denom gs hloc hgok hstars
  have hfilter : gs.filter (fun g => !aget inp.fixed g.1) = gs := by
    apply List.filter_eq_self.mpr
    intro g hg
    simp [hnofix g hg]
  refine ⟨hne, ?_, hflat, ?_, tree, ?_, ?_⟩
  · intro g hg
    refine ⟨hnofix g hg, groupsOK_lt inp.fixed inp.numNodes gs hgok g hg (hnofix g hg), ?_⟩
    rw [(hloc g hg).2.2.2.1]
    simp only [List.size_toArray, List.length_map]
    exact groupVal_length o inp fin.inside g (hloc g hg).2.1
  · intro e he hfc
    rw [← hflat] at he
    obtain ⟨g, hg, heg⟩ := List.mem_flatMap.mp he
    rcases (hsizes g hg).2 e heg with h | h
    · rw [hfc] at h; exact absurd h (by simp)
    · exact ⟨h.1, h.2⟩
  · show ((groupRuns (·.p) inp.edges).filter _).map _ = _
    rw [← hgs, hfilter]
  · show ((groupRuns (·.p) inp.edges).filter _).flatMap _ = _
    rw [← hgs, hfilter]

end
end Tsdate.Discrete
