/-
The outer loop of `_marginalize_over_ancestors`: every output row is the closed-form expectation
(C14).
-/
import TsdateVerif.Proofs.Coalescent
import TsdateVerif.Proofs.CoalescentBinom
import Mathlib.Algebra.BigOperators.Group.Finset.Basic
import Mathlib.Algebra.BigOperators.Intervals

namespace Tsdate.Coalescent
open Finset
set_option linter.unusedSectionVars false

variable {α : Type} [Field α] [CharZero α]

/-- Row `k` of the output, as the model computes it once `pr` is known to be the closed form. -/
def rowClosed (n : ℕ) (val : ℕ → α) (k : ℕ) : α := dotFrom val 2 (closedList n k 2 (n - k))

theorem margLoop_closed (n : ℕ) (val : ℕ → α) :
    ∀ (fuel k : ℕ) (s : MState α), k = fuel + 1 → k + 1 ≤ n → s.pr = closedList n k 2 (n - k) →
      (margLoop n val fuel k s).out
        = (List.range' 2 fuel).map (fun k' => (k', rowClosed n val k')) ++ s.out := by
  intro fuel
  induction fuel with
  | zero => intro k s _ _ _; simp [margLoop]
  | succ f ih =>
    intro k s hk hkn hpr
    subst hk
    rw [margLoop]
    rcases Nat.eq_zero_or_pos f with hf | hf
    · subst hf
      simp only [margLoop, margBody_eq_ref, margBodyRef, hpr, rowClosed]
      rfl
    · have hs : (margBody n val s (f + 1 + 1)).pr
          = closedList n (f + 1 + 1 - 1) 2 (n - (f + 1 + 1 - 1)) := by
        simp only [margBody_eq_ref, margBodyRef, if_pos (show 2 < f + 1 + 1 by omega), hpr]
        rw [margStep_closed n (f + 1 + 1) (by omega) hkn]
        congr 1; omega
      rw [ih (f + 1 + 1 - 1) _ (by omega) (by omega) hs]
      simp only [margBody_eq_ref, margBodyRef, hpr]
      rw [List.range'_concat]
      simp only [List.map_append, List.map_cons, List.map_nil, List.append_assoc, List.cons_append,
        List.nil_append, rowClosed, Nat.one_mul]
      rw [show 2 + f = f + 1 + 1 by omega]

theorem closedP_top (n : ℕ) (hn : 3 ≤ n) : closedP (α := α) n (n - 1) 2 = 1 := by
  unfold closedP
  have e1 : n - 2 - 1 = n - 1 - 2 := by omega
  have e2 : n - 1 + 1 = n := by omega
  rw [e1, e2, Nat.choose_self, Nat.choose_self, Nat.choose_self]
  simp

/-- **The model's output, row by row**: rows `k = 2 … n-1` are closed-form expectations, row `n` is
`val[1]`. -/
theorem marginalize_eq (n : ℕ) (hn : 2 ≤ n) (val : ℕ → α) :
    marginalize n val
      = (List.range' 2 (n - 2)).map (fun k => (k, rowClosed n val k)) ++ [(n, val 1)] := by
  unfold marginalize
  rcases Nat.lt_or_ge 2 n with h | h
  · rw [margLoop_closed n val (n - 2) (n - 1) _ (by omega) (by omega)]
    · simp
    · have : n - (n - 1) = 1 := by omega
      simp only [this, closedList, closedP_top n h, Nat.cast_one]
  · have : n = 2 := by omega
    subst this
    simp [margLoop]

/-- The dot product over a closed-form list as a finite sum. -/
theorem dotFrom_closedList (n k : ℕ) (val : ℕ → α) (len : ℕ) :
    ∀ a, dotFrom val a (closedList n k a len) = ∑ i ∈ range len, closedP n k (a + i) * val (a + i) := by
  induction len with
  | zero => intro a; simp [closedList, dotFrom]
  | succ len ih =>
    intro a
    rw [closedList, dotFrom, ih (a + 1), sum_range_succ']
    simp only [Nat.add_zero]
    rw [add_comm]
    congr 1
    apply sum_congr rfl
    intro i _
    rw [show a + 1 + i = a + (i + 1) by omega]

theorem rowClosed_eq_sum (n : ℕ) (val : ℕ → α) (k : ℕ) :
    rowClosed n val k = ∑ a ∈ Ico 2 (n - k + 2), closedP n k a * val a := by
  rw [rowClosed, dotFrom_closedList, sum_Ico_eq_sum_range]
  rw [show n - k + 2 - 2 = n - k by omega]

end Tsdate.Coalescent
