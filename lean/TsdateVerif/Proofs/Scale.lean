/-
Scale-equivariance lemmas for the models in `Model/Scale.lean` (used by Props/C06, Props/C07).

The degree discipline: `Scaled c d x x'` says `x' = c^d * x`.  Times, ages, grid points, `eps`,
`min_branch_length`, population sizes have degree +1; rates (mutation rate, gamma rate parameters,
the regularisation penalty) have degree −1; variances +2; counts, shapes, probabilities, span
fractions, damping factors 0.  Lemmas are stated with explicit factors (`c * x`, `x / c`), the
relation is used in the property files to phrase the top-level statements.
-/
import Mathlib.Algebra.Order.Field.Basic
import Mathlib.Tactic.Ring
import Mathlib.Tactic.FieldSimp
import Mathlib.Tactic.Linarith
import Mathlib.Tactic.Positivity
import Mathlib.Tactic.SplitIfs
import TsdateVerif.Model.Scale

namespace Tsdate.Scale
set_option linter.unusedSectionVars false
set_option linter.unusedVariables false

variable {α : Type} [Field α] [LinearOrder α] [IsStrictOrderedRing α]

/-- `x'` is `x` expressed in a unit `c` times smaller, for a quantity of degree `d`. -/
def Scaled (c : α) (d : Int) (x x' : α) : Prop := x' = c ^ d * x

/-- pointwise scaling of a list -/
def smul (c : α) (xs : List α) : List α := xs.map (fun x => c * x)

@[simp] theorem smul_nil (c : α) : smul c [] = [] := rfl
@[simp] theorem smul_cons (c x : α) (xs : List α) : smul c (x :: xs) = (c * x) :: smul c xs := rfl
@[simp] theorem smul_length (c : α) (xs : List α) : (smul c xs).length = xs.length := by simp [smul]
theorem smul_append (c : α) (xs ys : List α) : smul c (xs ++ ys) = smul c xs ++ smul c ys := by
  simp [smul]
theorem smul_smul (a b : α) (xs : List α) : smul a (smul b xs) = smul (a * b) xs := by
  simp [smul, mul_assoc]
theorem smul_one (xs : List α) : smul (1 : α) xs = xs := by simp [smul]
theorem smul_tail (c : α) (xs : List α) : (smul c xs).tail = smul c xs.tail := by
  cases xs <;> rfl
theorem smul_take (c : α) (xs : List α) (n : Nat) : (smul c xs).take n = smul c (xs.take n) := by
  simp [smul, List.map_take]
theorem smul_drop (c : α) (xs : List α) (n : Nat) : (smul c xs).drop n = smul c (xs.drop n) := by
  simp [smul, List.map_drop]

/-! ### list utilities -/

theorem nth_smul (c : α) (xs : List α) (i : Nat) : nth (smul c xs) i = c * nth xs i := by
  induction xs generalizing i with
  | nil => simp [nth]
  | cons x xs ih =>
    cases i with
    | zero => simp [nth]
    | succ i => simpa [nth] using ih i

theorem foldl_add_smul (c a : α) (xs : List α) :
    (smul c xs).foldl (· + ·) (c * a) = c * xs.foldl (· + ·) a := by
  induction xs generalizing a with
  | nil => rfl
  | cons x xs ih => simp only [smul_cons, List.foldl_cons, ← mul_add, ih]

theorem sumL_smul (c : α) (xs : List α) : sumL (smul c xs) = c * sumL xs := by
  have := foldl_add_smul c 0 xs
  rw [mul_zero] at this
  exact this

theorem cumsumFrom_smul (c a : α) (xs : List α) :
    cumsumFrom (c * a) (smul c xs) = smul c (cumsumFrom a xs) := by
  induction xs generalizing a with
  | nil => rfl
  | cons x xs ih => simp only [smul_cons, cumsumFrom, ← mul_add, ih]

theorem cumsum_smul (c : α) (xs : List α) : cumsum (smul c xs) = smul c (cumsum xs) := by
  have := cumsumFrom_smul c 0 xs
  rw [mul_zero] at this
  exact this

theorem diff_smul (c : α) : ∀ xs : List α, diff (smul c xs) = smul c (diff xs)
  | [] => rfl
  | [_] => rfl
  | a :: b :: rest => by
    have ih := diff_smul c (b :: rest)
    simp only [smul_cons] at ih ⊢
    simp only [diff, ih, smul_cons, mul_sub]

theorem sumRange_smul (c : α) (xs : List α) (i j : Nat) :
    sumRange (smul c xs) i j = c * sumRange xs i j := by
  simp only [sumRange, smul_drop, smul_take, sumL_smul]

theorem zipWith_mul_smul (a b : α) (xs ys : List α) :
    List.zipWith (· * ·) (smul a xs) (smul b ys) = smul (a * b) (List.zipWith (· * ·) xs ys) := by
  induction xs generalizing ys with
  | nil => simp
  | cons x xs ih =>
    cases ys with
    | nil => simp
    | cons y ys => simp only [smul_cons, List.zipWith_cons_cons, ih]; congr 1; ring

theorem zipWith_sub_smul (c : α) (xs ys : List α) :
    List.zipWith (· - ·) (smul c xs) (smul c ys) = smul c (List.zipWith (· - ·) xs ys) := by
  induction xs generalizing ys with
  | nil => simp
  | cons x xs ih =>
    cases ys with
    | nil => simp
    | cons y ys => simp only [smul_cons, List.zipWith_cons_cons, ih, mul_sub]

theorem zipWith_add_smul (c : α) (xs ys : List α) :
    List.zipWith (· + ·) (smul c xs) (smul c ys) = smul c (List.zipWith (· + ·) xs ys) := by
  induction xs generalizing ys with
  | nil => simp
  | cons x xs ih =>
    cases ys with
    | nil => simp
    | cons y ys => simp only [smul_cons, List.zipWith_cons_cons, ih, mul_add]

/-- comparisons are unchanged by a positive factor: `searchsorted` returns the same index -/
theorem searchRight_smul (c : α) (hc : 0 < c) (bs : List α) (x : α) :
    searchRight (smul c bs) (c * x) = searchRight bs x := by
  unfold searchRight smul
  rw [List.countP_map]
  apply List.countP_congr
  intro b _
  simp [mul_le_mul_iff_right₀ hc]

theorem maxL_smul (c : α) (hc : 0 < c) (xs : List α) : maxL (smul c xs) = c * maxL xs := by
  cases xs with
  | nil => simp [maxL]
  | cons x xs =>
    simp only [smul_cons, maxL]
    induction xs generalizing x with
    | nil => rfl
    | cons y ys ih =>
      simp only [smul_cons, List.foldl_cons]
      by_cases h : x < y
      · rw [if_pos h, if_pos ((mul_lt_mul_iff_right₀ hc).mpr h)]; exact ih y
      · rw [if_neg h, if_neg (fun h' => h ((mul_lt_mul_iff_right₀ hc).mp h'))]; exact ih x

/-! ### discrete-time pieces -/

/-- `timediff` has degree +1 when timepoints and `eps` have. -/
theorem timediff_smul (c : α) (tp : List α) (eps : α) :
    timediff (smul c tp) (c * eps) = smul c (timediff tp eps) := by
  cases tp with
  | nil => rfl
  | cons t0 rest =>
    simp only [timediff, smul, List.map_cons, List.map_map]
    refine congrArg₂ _ (by ring) ?_
    apply List.map_congr_left
    intro t _
    simp only [Function.comp]
    ring

theorem lowerTriFrom_smul (c eps : α) (pre tp : List α) :
    lowerTriFrom (c * eps) (smul c pre) (smul c tp) = smul c (lowerTriFrom eps pre tp) := by
  induction tp generalizing pre with
  | nil => rfl
  | cons t rest ih =>
    have h1 : smul c pre ++ [c * t] = smul c (pre ++ [t]) := by simp [smul]
    show ((smul c pre ++ [c * t]).map (fun s => c * t - s + c * eps))
        ++ lowerTriFrom (c * eps) (smul c pre ++ [c * t]) (smul c rest) = _
    rw [h1, ih]
    show _ = smul c (((pre ++ [t]).map (fun s => t - s + eps)) ++ lowerTriFrom eps (pre ++ [t]) rest)
    rw [smul_append c ((pre ++ [t]).map (fun s => t - s + eps))]
    congr 1
    simp only [smul, List.map_map]
    apply List.map_congr_left
    intro s _
    simp only [Function.comp]
    ring

/-- `timediff_lower_tri` has degree +1. -/
theorem timediffLowerTri_smul (c : α) (tp : List α) (eps : α) :
    timediffLowerTri (smul c tp) (c * eps) = smul c (timediffLowerTri tp eps) := by
  have := lowerTriFrom_smul c eps [] tp
  simpa [timediffLowerTri] using this

/-- **C06, likelihood argument**: `(c·Δt)·(μ/c)·span = Δt·μ·span`. -/
theorem likArgs_time_invariant (c : α) (hc : c ≠ 0) (dts : List α) (mu span : α) :
    likArgs (smul c dts) (mu / c) span = likArgs dts mu span := by
  simp only [likArgs, smul, List.map_map]
  apply List.map_congr_left
  intro dt _
  simp only [Function.comp]
  field_simp

/-- **C07, likelihood argument**: `Δt·(μ/c)·(c·span) = Δt·μ·span`. -/
theorem likArgs_coord_invariant (c : α) (hc : c ≠ 0) (dts : List α) (mu span : α) :
    likArgs dts (mu / c) (c * span) = likArgs dts mu span := by
  simp only [likArgs]
  apply List.map_congr_left
  intro dt _
  field_simp

theorem maxDts_smul (c : α) (tp : List α) (pi yi : Nat) (eps : α) :
    maxDts (smul c tp) pi yi (c * eps) = smul c (maxDts tp pi yi eps) := by
  simp only [maxDts, smul_take, nth_smul]
  simp only [smul, List.map_map]
  apply List.map_congr_left
  intro s _
  simp only [Function.comp]
  ring

theorem maxArgs_time_invariant (c : α) (hc : c ≠ 0) (tp : List α) (pi yi : Nat) (eps mu span : α) :
    maxArgs (smul c tp) pi yi (c * eps) (mu / c) span = maxArgs tp pi yi eps mu span := by
  simp only [maxArgs, maxDts_smul, likArgs_time_invariant c hc]

theorem maxArgs_coord_invariant (c : α) (hc : c ≠ 0) (tp : List α) (pi yi : Nat) (eps mu span : α) :
    maxArgs tp pi yi eps (mu / c) (c * span) = maxArgs tp pi yi eps mu span := by
  simp only [maxArgs, likArgs_coord_invariant c hc]

/-- span fractions are invariant under coordinate scaling -/
theorem spanFrac_invariant (c : α) (hc : c ≠ 0) (span total : α) :
    spanFrac (c * span) (c * total) = spanFrac span total := by
  unfold spanFrac
  rw [mul_div_mul_left _ _ hc]

/-! ### `_change_time_measure` -/

theorem inv_map_smul (b : α) (tm : List α) :
    (smul b tm).map (fun m => 1 / m) = smul (1 / b) (tm.map (fun m => 1 / m)) := by
  simp only [smul, List.map_map]
  apply List.map_congr_left
  intro m _
  simp only [Function.comp]
  rw [one_div_mul_one_div]

theorem ctmStep_smul (a b : α) (breaks tm : List α) :
    ctmStep (smul a breaks) (smul b tm) = smul (a / b) (ctmStep breaks tm) := by
  simp only [ctmStep, inv_map_smul, smul_tail, zipWith_sub_smul, zipWith_mul_smul, cumsum_smul,
    smul_cons, mul_zero]
  rw [show a * (1 / b) = a / b by ring]

theorem ctmMeasure_smul (b : α) (tm : List α) : ctmMeasure (smul b tm) = smul (1 / b) (ctmMeasure tm) :=
  inv_map_smul b tm

/-- **Change of time measure is homogeneous**: times and breakpoints in a unit `a`, the measure in a
unit `b` ⇒ converted times in the unit `a / b`. -/
theorem ctmTimes_smul (a b : α) (ha : 0 < a) (hb : b ≠ 0) (times breaks tm : List α) :
    ctmTimes (smul a times) (smul a breaks) (smul b tm) = smul (a / b) (ctmTimes times breaks tm) := by
  simp only [ctmTimes, ctmStep_smul]
  simp only [smul, List.map_map]
  apply List.map_congr_left
  intro t _
  simp only [Function.comp]
  have h1 := searchRight_smul a ha breaks t
  simp only [smul] at h1
  rw [h1]
  have h2 := nth_smul b tm (searchRight breaks t - 1)
  have h3 := nth_smul (a / b) (ctmStep breaks tm) (searchRight breaks t - 1)
  simp only [smul] at h2 h3
  rw [h2, h3]
  by_cases hz : nth tm (searchRight breaks t - 1) = 0
  · simp [hz]
  · field_simp

theorem zipWith_div_smul (a b : α) (hb : b ≠ 0) (xs ys : List α) :
    List.zipWith (fun x m => x * 1 / m) (smul a xs) (smul b ys)
      = smul (a / b) (List.zipWith (fun x m => x * 1 / m) xs ys) := by
  induction xs generalizing ys with
  | nil => simp
  | cons x xs ih =>
    cases ys with
    | nil => simp
    | cons y ys =>
      simp only [smul_cons, List.zipWith_cons_cons, ih]
      congr 1
      by_cases hy : y = 0
      · simp [hy]
      · field_simp

theorem ctmBreaks_smul (a b : α) (hb : b ≠ 0) (breaks tm : List α) :
    ctmBreaks (smul a breaks) (smul b tm) = smul (a / b) (ctmBreaks breaks tm) := by
  simp only [ctmBreaks, ctmStep_smul, zipWith_div_smul a b hb, zipWith_add_smul]

end Tsdate.Scale
