/-
Scale equivariance of the time-rescaling step of the variational method (tsdate/rescaling.py):
`mutational_area`, `mutational_timescale`, `piecewise_scale_point_estimate` and the loop that alternates
them.  Times are in a unit `c` times smaller (`smul c t`), mutational target sizes `span·μ` are rates
(`k * m` with `c * k = 1`).
-/
import TsdateVerif.Proofs.Scale

namespace Tsdate.Scale
set_option linter.unusedSectionVars false
set_option linter.unusedVariables false

variable {α : Type} [Field α] [LinearOrder α] [IsStrictOrderedRing α]

/-- both columns of a row multiplied by `k` -/
def pmul (k : α) (p : α × α) : α × α := (k * p.1, k * p.2)

/-- likelihood rows (count, target size) with the target size in the new unit -/
def rateRows (k : α) (lik : List (α × α)) : List (α × α) := lik.map (fun l => (l.1, k * l.2))

/-- (time, node) pairs with the time in the new unit -/
def tmul (c : α) (a : α × Nat) : α × Nat := (c * a.1, a.2)

theorem zipIdx_smul (c : α) (t : List α) (n : Nat) :
    (smul c t).zipIdx n = (t.zipIdx n).map (tmul c) := by
  induction t generalizing n with
  | nil => rfl
  | cons x xs ih => simp only [smul_cons, List.zipIdx_cons, List.map_cons, ih]; rfl

/-- sorting by time commutes with the change of unit -/
theorem sortByTime_smul (c : α) (hc : 0 < c) (t : List α) :
    sortByTime (smul c t) = (sortByTime t).map (tmul c) := by
  unfold sortByTime
  rw [zipIdx_smul]
  symm
  apply List.map_mergeSort
  intro a _ b _
  simp only [tmul]
  exact decide_eq_decide.mpr (mul_le_mul_iff_right₀ hc).symm

theorem epochWalk_smul (c : α) (hc : 0 < c) (prev : α) (k : Nat) (srt : List (α × Nat)) :
    epochWalk (c * prev) k (srt.map (tmul c))
      = (smul c (epochWalk prev k srt).1, (epochWalk prev k srt).2) := by
  induction srt generalizing prev k with
  | nil => rfl
  | cons a rest ih =>
    obtain ⟨t, i⟩ := a
    simp only [List.map_cons, tmul, epochWalk]
    by_cases h : prev < t
    · rw [if_pos h, if_pos ((mul_lt_mul_iff_right₀ hc).mpr h)]
      simp only [ih t (k + 1), smul_cons]
    · rw [if_neg h, if_neg (fun h' => h ((mul_lt_mul_iff_right₀ hc).mp h'))]
      simp only [ih t k]

/-- epoch breaks scale, the epoch index of every node is unchanged -/
theorem epochIndex_smul (c : α) (hc : 0 < c) (n : Nat) (srt : List (α × Nat)) :
    epochIndex n (srt.map (tmul c)) = (smul c (epochIndex n srt).1, (epochIndex n srt).2) := by
  cases srt with
  | nil => simp [epochIndex]
  | cons a rest =>
    obtain ⟨t0, i0⟩ := a
    simp only [List.map_cons, tmul, epochIndex, epochWalk_smul c hc, smul_cons, mul_zero]

theorem modifyAt_map {β γ : Type} (g : β → γ) (f : β → β) (f' : γ → γ) (h : ∀ x, f' (g x) = g (f x))
    (i : Nat) (l : List β) : modifyAt f' i (l.map g) = (modifyAt f i l).map g := by
  induction l generalizing i with
  | nil => cases i <;> rfl
  | cons x xs ih =>
    cases i with
    | zero => simp only [List.map_cons, modifyAt, h]
    | succ i => simp only [List.map_cons, modifyAt, ih]

theorem modifyAt_length {β : Type} (f : β → β) (i : Nat) (l : List β) :
    (modifyAt f i l).length = l.length := by
  induction l generalizing i with
  | nil => cases i <;> rfl
  | cons x xs ih => cases i <;> simp [modifyAt, ih]

/-- one edge of `mutational_area`: the per-time mutation count `y/Δt` and the target size are rates -/
theorem areaEdge_smul (c k : α) (hc : 0 < c) (hk : c * k = 1) (t : List α) (idx : List Nat) (ne : Nat)
    (acc : List (α × α)) (e : Nat × Nat) (l : α × α) :
    areaEdge (smul c t) idx ne (acc.map (pmul k)) (e, (l.1, k * l.2))
      = (areaEdge t idx ne acc (e, l)).map (pmul k) := by
  have hc0 : c ≠ 0 := ne_of_gt hc
  have hkinv : k = c⁻¹ := eq_inv_of_mul_eq_one_right hk
  simp only [areaEdge, nth_smul, ← mul_sub]
  by_cases h : 0 < nth t e.1 - nth t e.2
  · rw [if_pos h, if_pos (mul_pos hc h)]
    have hcnt : ((l.1 / (c * (nth t e.1 - nth t e.2)), k * l.2) : α × α)
        = pmul k (l.1 / (nth t e.1 - nth t e.2), l.2) := by
      simp only [pmul]
      congr 1
      rw [hkinv]; field_simp
    rw [hcnt]
    generalize ((l.1 / (nth t e.1 - nth t e.2), l.2) : α × α) = cnt
    have hadd : ∀ x : α × α, padd (pmul k cnt) (pmul k x) = pmul k (padd cnt x) := by
      intro x; simp only [padd, pmul, mul_add]
    have hsub : ∀ x : α × α, psub (pmul k cnt) (pmul k x) = pmul k (psub cnt x) := by
      intro x; simp only [psub, pmul, mul_sub]
    by_cases ha : idx.getD e.2 0 < ne <;> by_cases hb : idx.getD e.1 0 < ne <;>
      simp only [ha, hb, if_true, if_false, modifyAt_map (pmul k) _ _ hadd, modifyAt_map (pmul k) _ _ hsub]
  · rw [if_neg h, if_neg (fun h' => h ((mul_pos_iff_of_pos_left hc).mp h'))]

theorem areaFold_smul (c k : α) (hc : 0 < c) (hk : c * k = 1) (t : List α) (idx : List Nat) (ne : Nat)
    (edges : List (Nat × Nat)) (lik acc : List (α × α)) :
    (edges.zip (rateRows k lik)).foldl (areaEdge (smul c t) idx ne) (acc.map (pmul k))
      = ((edges.zip lik).foldl (areaEdge t idx ne) acc).map (pmul k) := by
  induction edges generalizing lik acc with
  | nil => rfl
  | cons e es ih =>
    cases lik with
    | nil => rfl
    | cons l ls =>
      simp only [rateRows, List.map_cons, List.zip_cons_cons, List.foldl_cons]
      rw [areaEdge_smul c k hc hk]
      exact ih ls _

theorem map_fst_pmul (k : α) (l : List (α × α)) :
    (l.map (pmul k)).map (fun x => x.1) = smul k (l.map (fun x => x.1)) := by
  simp [smul, pmul, List.map_map, Function.comp]

theorem map_snd_pmul (k : α) (l : List (α × α)) :
    (l.map (pmul k)).map (fun x => x.2) = smul k (l.map (fun x => x.2)) := by
  simp [smul, pmul, List.map_map, Function.comp]

/-- **`mutational_area` is graded**: counts and offsets are rates (degree −1), durations are times
(degree +1), the epoch index of every node is unchanged. -/
theorem mutArea_smul (c k : α) (hc : 0 < c) (hk : c * k = 1) (t : List α) (lik : List (α × α))
    (edges : List (Nat × Nat)) :
    mutArea (smul c t) (rateRows k lik) edges =
      (smul k (mutArea t lik edges).1, smul k (mutArea t lik edges).2.1,
        smul c (mutArea t lik edges).2.2.1, (mutArea t lik edges).2.2.2) := by
  have hrep : ∀ n : Nat, List.replicate n ((0 : α), (0 : α)) = (List.replicate n ((0 : α), (0 : α))).map (pmul k) := by
    intro n; simp [pmul]
  simp only [mutArea, sortByTime_smul c hc, epochIndex_smul c hc, smul_length]
  rw [hrep, areaFold_smul c k hc hk, ← hrep, map_fst_pmul, map_snd_pmul, cumsum_smul, cumsum_smul, diff_smul]

theorem zipWith_div_smul_same (c : α) (hc : c ≠ 0) (xs ys : List α) :
    List.zipWith (· / ·) (smul c xs) (smul c ys) = List.zipWith (· / ·) xs ys := by
  induction xs generalizing ys with
  | nil => simp
  | cons x xs ih =>
    cases ys with
    | nil => simp
    | cons y ys => simp only [smul_cons, List.zipWith_cons_cons, ih, mul_div_mul_left _ _ hc]

theorem mergeStep_smul (c : α) (hc : 0 < c) (origin adjust : List α) (st : List Nat × Nat × Nat) (k : Nat) :
    mergeStep (smul c origin) (smul c adjust) st k = mergeStep origin adjust st k := by
  unfold mergeStep
  simp only [nth_smul, mul_lt_mul_iff_right₀ hc]

/-- **The merging step is equivariant**: it compares origins with origins and adjusted times with adjusted
times, so the same breakpoints are kept. -/
theorem mergeBreaks_smul (c : α) (hc : 0 < c) (origin adjust : List α) :
    mergeBreaks (smul c origin) (smul c adjust)
      = (smul c (mergeBreaks origin adjust).1, smul c (mergeBreaks origin adjust).2) := by
  have hstep : mergeStep (smul c origin) (smul c adjust) = mergeStep origin adjust := by
    funext st k; exact mergeStep_smul c hc origin adjust st k
  have hmap : ∀ (l : List Nat) (xs : List α), l.map (nth (smul c xs)) = smul c (l.map (nth xs)) := by
    intro l xs
    simp only [smul, List.map_map]
    apply List.map_congr_left
    intro i _
    exact nth_smul c xs i
  unfold mergeBreaks
  simp only [smul_length, hstep, nth_smul, mul_lt_mul_iff_right₀ hc, hmap]
  split_ifs <;> simp [smul]

/-- **`mutational_timescale` is equivariant**: the weights `offset·duration` handed to
`_fixed_changepoints` have degree 0, so the changepoints are the same; `origin` and `adjust` are times, and
the final merging of uninformative intervals keeps the same breakpoints. -/
theorem mutTimescale_smul (ofNat : Nat → α) (c k : α) (hc : 0 < c) (hk : c * k = 1) (t : List α)
    (lik : List (α × α)) (edges : List (Nat × Nat)) (maxIntervals : Nat) :
    mutTimescale ofNat (smul c t) (rateRows k lik) edges maxIntervals =
      (smul c (mutTimescale ofNat t lik edges maxIntervals).1,
        smul c (mutTimescale ofNat t lik edges maxIntervals).2) := by
  have hkc : k * c = 1 := by rw [mul_comm]; exact hk
  have hk0 : k ≠ 0 := fun h => by rw [h, mul_zero] at hk; exact zero_ne_one hk
  simp only [mutTimescale, mutArea_smul c k hc hk, zipWith_mul_smul, hkc, smul_one, cumsum_smul]
  have horig : ∀ cp : List Nat, cp.map (fun i => nth (0 :: smul c (cumsum (mutArea t lik edges).2.2.1)) i)
      = smul c (cp.map (fun i => nth (0 :: cumsum (mutArea t lik edges).2.2.1) i)) := by
    intro cp
    simp only [smul, List.map_map]
    apply List.map_congr_left
    intro i _
    have := nth_smul c (0 :: cumsum (mutArea t lik edges).2.2.1) i
    simpa [smul] using this
  have hadj : ∀ cp : List (Nat × Nat),
      cp.map (fun ij => sumRange (smul c (mutArea t lik edges).2.2.1) ij.1 ij.2
          * sumRange (smul k (mutArea t lik edges).1) ij.1 ij.2
          / sumRange (smul k (mutArea t lik edges).2.1) ij.1 ij.2)
        = smul c (cp.map (fun ij => sumRange (mutArea t lik edges).2.2.1 ij.1 ij.2
          * sumRange (mutArea t lik edges).1 ij.1 ij.2 / sumRange (mutArea t lik edges).2.1 ij.1 ij.2)) := by
    intro cp
    simp only [smul, List.map_map]
    apply List.map_congr_left
    intro ij _
    simp only [Function.comp]
    have h1 := sumRange_smul c (mutArea t lik edges).2.2.1 ij.1 ij.2
    have h2 := sumRange_smul k (mutArea t lik edges).1 ij.1 ij.2
    have h3 := sumRange_smul k (mutArea t lik edges).2.1 ij.1 ij.2
    simp only [smul] at h1 h2 h3
    rw [h1, h2, h3]
    by_cases hn : sumRange (mutArea t lik edges).2.1 ij.1 ij.2 = 0
    · simp [hn]
    · field_simp
  have h0 : ∀ l : List α, (0 : α) :: smul c l = smul c (0 :: l) := by intro l; simp
  rw [horig, hadj, h0, cumsum_smul]
  exact mergeBreaks_smul c hc _ _

/-- **`piecewise_scale_point_estimate` is equivariant**: the slopes are ratios of times (degree 0), the
interval of every point is found by comparisons, the mapped times scale. -/
theorem piecewisePoint_smul (c : α) (hc : 0 < c) (x : List α) (fixed : List Bool) (orig resc : List α) :
    piecewisePoint (smul c x) fixed (smul c orig) (smul c resc)
      = smul c (piecewisePoint x fixed orig resc) := by
  simp only [piecewisePoint, diff_smul, zipWith_div_smul_same c (ne_of_gt hc)]
  generalize List.zipWith (· / ·) (diff resc) (diff orig) ++ [0] = scal
  induction x generalizing fixed with
  | nil => simp
  | cons xi xs ih =>
    cases fixed with
    | nil => simp
    | cons f fs =>
      simp only [smul_cons, List.zipWith_cons_cons, ih]
      congr 1
      cases f with
      | true => simp
      | false =>
        simp only [Bool.false_eq_true, if_false, searchRight_smul c hc, nth_smul]
        ring

/-- **The rescaling loop of `ExpectationPropagation.rescale` is equivariant**, for any number of
iterations. -/
theorem rescaleLoop_smul (ofNat : Nat → α) (c k : α) (hc : 0 < c) (hk : c * k = 1)
    (lik : List (α × α)) (edges : List (Nat × Nat)) (fixed : List Bool) (maxIntervals n : Nat)
    (t : List α) :
    rescaleLoop ofNat (rateRows k lik) edges fixed maxIntervals n (smul c t)
      = smul c (rescaleLoop ofNat lik edges fixed maxIntervals n t) := by
  induction n generalizing t with
  | zero => rfl
  | succ n ih =>
    simp only [rescaleLoop, mutTimescale_smul ofNat c k hc hk, piecewisePoint_smul c hc, ih]

end Tsdate.Scale
