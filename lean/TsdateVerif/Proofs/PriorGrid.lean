/-
Lemmas about the prior-grid model (C16): running maximum, differences, the stored row, the
timepoint list, the non-fixed node list.
-/
import TsdateVerif.Model.PriorGrid
import Mathlib.Algebra.Order.Field.Basic
import Mathlib.Order.Basic
import Mathlib.Data.List.Sort
import Mathlib.Data.List.Perm.Basic
import Mathlib.Algebra.BigOperators.Group.List.Basic
import Mathlib.Tactic.Ring
import Mathlib.Tactic.FieldSimp
import Mathlib.Tactic.Positivity
import Mathlib.Tactic.Linarith
import Mathlib.Tactic.SplitIfs

namespace Tsdate.PriorGrid
set_option linter.unusedSectionVars false

section Max
variable {α : Type} [Field α] [LinearOrder α] [IsStrictOrderedRing α]

theorem maxL_ge_init (xs : List α) : ∀ m, m ≤ maxL xs m := by
  induction xs with
  | nil => intro m; exact le_rfl
  | cons x xs ih =>
    intro m
    rw [maxL]
    split_ifs with h
    · exact le_trans h.le (ih x)
    · exact ih m

theorem maxL_ge_mem (xs : List α) : ∀ m, ∀ x ∈ xs, x ≤ maxL xs m := by
  induction xs with
  | nil => intro m x hx; simp at hx
  | cons y ys ih =>
    intro m x hx
    rw [maxL]
    rcases List.mem_cons.mp hx with rfl | hx
    · split_ifs with h
      · exact maxL_ge_init ys x
      · exact le_trans (not_lt.mp h) (maxL_ge_init ys m)
    · exact ih _ x hx

theorem maxL_mem (xs : List α) : ∀ m, maxL xs m = m ∨ maxL xs m ∈ xs := by
  induction xs with
  | nil => intro m; left; rfl
  | cons y ys ih =>
    intro m
    rw [maxL]
    split_ifs with h
    · rcases ih y with h1 | h1
      · right; rw [h1]; exact List.mem_cons_self ..
      · right; exact List.mem_cons_of_mem _ h1
    · rcases ih m with h1 | h1
      · left; exact h1
      · right; exact List.mem_cons_of_mem _ h1

theorem maxOf_ge (xs : List α) : ∀ x ∈ xs, x ≤ maxOf xs := by
  cases xs with
  | nil => intro x hx; simp at hx
  | cons y ys =>
    intro x hx
    rw [maxOf]
    rcases List.mem_cons.mp hx with rfl | hx
    · exact maxL_ge_init ys x
    · exact maxL_ge_mem ys y x hx

theorem maxOf_mem (xs : List α) (h : xs ≠ []) : maxOf xs ∈ xs := by
  cases xs with
  | nil => exact absurd rfl h
  | cons y ys =>
    rw [maxOf]
    rcases maxL_mem ys y with h1 | h1
    · rw [h1]; exact List.mem_cons_self ..
    · exact List.mem_cons_of_mem _ h1

/-- Dividing by a positive number commutes with the running maximum. -/
theorem maxL_map_div (c : α) (hc : 0 < c) (xs : List α) :
    ∀ m, maxL (xs.map (fun x => x / c)) (m / c) = maxL xs m / c := by
  induction xs with
  | nil => intro m; rfl
  | cons y ys ih =>
    intro m
    simp only [List.map_cons, maxL]
    have : (m / c < y / c) ↔ (m < y) := div_lt_div_iff_of_pos_right hc
    by_cases h : m < y
    · rw [if_pos h, if_pos (this.mpr h)]; exact ih y
    · rw [if_neg h, if_neg (fun h' => h (this.mp h'))]; exact ih m

theorem maxOf_map_div (c : α) (hc : 0 < c) (xs : List α) :
    maxOf (xs.map (fun x => x / c)) = maxOf xs / c := by
  cases xs with
  | nil => simp [maxOf]
  | cons y ys => simp only [List.map_cons, maxOf]; exact maxL_map_div c hc ys y

theorem diffs_map_div (c : α) : ∀ F : List α, diffs (F.map (fun x => x / c)) = (diffs F).map (fun d => d / c)
  | [] => rfl
  | [_] => rfl
  | a :: b :: rest => by
    simp only [List.map_cons, diffs]
    rw [← sub_div]
    congr 1
    have := diffs_map_div c (b :: rest)
    simpa using this

theorem diffs_length : ∀ F : List α, (diffs F).length = F.length - 1
  | [] => rfl
  | [_] => rfl
  | a :: b :: rest => by
    simp only [diffs, List.length_cons]
    have := diffs_length (b :: rest)
    simp only [List.length_cons] at this
    omega

theorem diffs_getD : ∀ (F : List α) (i : Nat), i + 1 < F.length →
    (diffs F).getD i 0 = F.getD (i + 1) 0 - F.getD i 0
  | [], i, h => by simp at h
  | [_], i, h => by simp at h
  | a :: b :: rest, 0, _ => by simp [diffs]
  | a :: b :: rest, i + 1, h => by
    simp only [diffs, List.getD_cons_succ]
    exact diffs_getD (b :: rest) i (by simpa using h)

/-- Differences of a non-decreasing list are non-negative. -/
theorem diffs_nonneg : ∀ F : List α, F.Pairwise (· ≤ ·) → ∀ d ∈ diffs F, 0 ≤ d
  | [], _, d, hd => by simp [diffs] at hd
  | [_], _, d, hd => by simp [diffs] at hd
  | a :: b :: rest, h, d, hd => by
    simp only [diffs, List.mem_cons] at hd
    rcases hd with rfl | hd
    · have := (List.pairwise_cons.mp h).1 b (List.mem_cons_self ..)
      linarith
    · exact diffs_nonneg (b :: rest) (List.pairwise_cons.mp h).2 d hd

/-- Differences telescope: their sum is last − first. -/
theorem diffs_sum : ∀ (a : α) (F : List α), (diffs (a :: F)).sum = (a :: F).getLast (List.cons_ne_nil _ _) - a
  | a, [] => by simp [diffs]
  | a, b :: rest => by
    have ih := diffs_sum b rest
    simp only [diffs, List.sum_cons, ih, List.getLast_cons_cons]
    ring

theorem sum_map_mul_left' (c : α) (l : List α) : (l.map (fun d => c * d)).sum = c * l.sum := by
  induction l with
  | nil => simp
  | cons x xs ih => simp only [List.map_cons, List.sum_cons, ih]; ring

/-- The stored row in closed form. -/
theorem fillRow_eq (F : List α) :
    fillRow F = 0 :: (diffs F).map
      (fun d => d / maxOf F / maxOf ((diffs F).map (fun d => d / maxOf F))) := by
  simp only [fillRow, standardizeRow, rawRow, List.tail_cons, List.map_cons, zero_div, diffs_map_div,
    List.map_map]
  rfl

end Max

section Sorting
variable {α : Type} [LinearOrder α]

theorem le_trans_dec : ∀ (a b c : α), decide (a ≤ b) = true → decide (b ≤ c) = true → decide (a ≤ c) = true := by
  intro a b c h1 h2
  simp only [decide_eq_true_eq] at *
  exact le_trans h1 h2

theorem le_total_dec : ∀ (a b : α), (decide (a ≤ b) || decide (b ≤ a)) = true := by
  intro a b
  rcases le_total a b with h | h <;> simp [h]

theorem sorted_mergeSort_le (l : List α) : (l.mergeSort (fun a b => decide (a ≤ b))).Pairwise (· ≤ ·) := by
  have := List.pairwise_mergeSort (le := fun a b => decide (a ≤ b)) le_trans_dec le_total_dec l
  exact this.imp (fun h => by simpa using h)

theorem strict_of_sorted_nodup (l : List α) (h : l.Pairwise (· ≤ ·)) (hn : l.Nodup) : l.Pairwise (· < ·) := by
  have := h.and hn
  exact this.imp (fun ⟨h1, h2⟩ => lt_of_le_of_ne h1 h2)

end Sorting

section TP
variable {α : Type} [Field α] [LinearOrder α] [IsStrictOrderedRing α]

theorem tpStep_prefix (ppf cdf : Nat → α → α) (ps : List α) (sep : α) (tset : List α) (i : Nat) :
    tset <+: tpStep ppf cdf ps sep tset i := by
  unfold tpStep
  simp only
  split_ifs
  · exact List.prefix_refl _
  · exact List.prefix_append _ _

theorem foldl_tpStep_prefix (ppf cdf : Nat → α → α) (ps : List α) (sep : α) (is : List Nat) :
    ∀ tset, tset <+: is.foldl (tpStep ppf cdf ps sep) tset := by
  induction is with
  | nil => intro tset; exact List.prefix_refl _
  | cons i is ih =>
    intro tset
    exact (tpStep_prefix ppf cdf ps sep tset i).trans (ih _)

/-- Every element added in step `i` is a quantile `ppf i p` of a percentile `p` that was farther than
`sep` from all projected timepoints; nothing else is added. -/
theorem tpStep_mem (ppf cdf : Nat → α → α) (ps : List α) (sep : α) (tset : List α) (i : Nat) (t : α) :
    t ∈ tpStep ppf cdf ps sep tset i ↔
      t ∈ tset ∨ ∃ p ∈ ps, sep < minAbsDist p (tset.map (cdf i)) ∧ t = ppf i p := by
  unfold tpStep selected
  simp only
  split_ifs with h
  · constructor
    · intro ht; exact Or.inl ht
    · rintro (ht | ⟨p, hp, hs, rfl⟩)
      · exact ht
      · exfalso
        have : p ∈ ps.filter (fun p => decide (sep < minAbsDist p (tset.map (cdf i)))) :=
          List.mem_filter.mpr ⟨hp, by simpa using hs⟩
        rw [List.isEmpty_iff.mp h] at this
        simp at this
  · simp only [List.mem_append, List.mem_map, List.mem_filter, decide_eq_true_eq]
    constructor
    · rintro (ht | ⟨p, ⟨hp, hs⟩, rfl⟩)
      · exact Or.inl ht
      · exact Or.inr ⟨p, hp, hs, rfl⟩
    · rintro (ht | ⟨p, hp, hs, rfl⟩)
      · exact Or.inl ht
      · exact Or.inr ⟨p, ⟨hp, hs⟩, rfl⟩

/-! ### Coverage: after row `i` has been processed every percentile is within `sep` of a projected point -/

theorem minL_le_init (xs : List α) : ∀ m, minL xs m ≤ m := by
  induction xs with
  | nil => intro m; exact le_rfl
  | cons x xs ih =>
    intro m
    rw [minL]
    split_ifs with h
    · exact le_trans (ih x) h.le
    · exact ih m

theorem minL_le_mem (xs : List α) : ∀ m, ∀ x ∈ xs, minL xs m ≤ x := by
  induction xs with
  | nil => intro m x hx; simp at hx
  | cons y ys ih =>
    intro m x hx
    rw [minL]
    rcases List.mem_cons.mp hx with rfl | hx
    · split_ifs with h
      · exact minL_le_init ys x
      · exact le_trans (minL_le_init ys m) (not_lt.mp h)
    · exact ih _ x hx

theorem minL_mem (xs : List α) : ∀ m, minL xs m = m ∨ minL xs m ∈ xs := by
  induction xs with
  | nil => intro m; left; rfl
  | cons y ys ih =>
    intro m
    rw [minL]
    split_ifs with h
    · rcases ih y with h1 | h1
      · right; rw [h1]; exact List.mem_cons_self ..
      · right; exact List.mem_cons_of_mem _ h1
    · rcases ih m with h1 | h1
      · left; exact h1
      · right; exact List.mem_cons_of_mem _ h1

theorem minAbsDist_le (v : α) (l : List α) (x : α) (hx : x ∈ l) : minAbsDist v l ≤ absSub v x := by
  cases l with
  | nil => simp at hx
  | cons p ps =>
    rw [minAbsDist]
    rcases List.mem_cons.mp hx with rfl | hx
    · exact minL_le_init _ _
    · exact minL_le_mem _ _ _ (List.mem_map.mpr ⟨x, hx, rfl⟩)

theorem minAbsDist_mem (v : α) (l : List α) (h : l ≠ []) : ∃ x ∈ l, minAbsDist v l = absSub v x := by
  cases l with
  | nil => exact absurd rfl h
  | cons p ps =>
    rw [minAbsDist]
    rcases minL_mem (ps.map (absSub v)) (absSub v p) with h1 | h1
    · exact ⟨p, List.mem_cons_self .., h1⟩
    · obtain ⟨x, hx, hxe⟩ := List.mem_map.mp h1
      exact ⟨x, List.mem_cons_of_mem _ hx, hxe.symm⟩

theorem minAbsDist_mono (v : α) (l l' : List α) (h : l ≠ []) (hsub : ∀ x ∈ l, x ∈ l') :
    minAbsDist v l' ≤ minAbsDist v l := by
  obtain ⟨x, hx, he⟩ := minAbsDist_mem v l h
  rw [he]
  exact minAbsDist_le v l' x (hsub x hx)

theorem absSub_self (v : α) : absSub v v = 0 := by
  simp [absSub]

/-- One step establishes coverage for its own row (needs `cdf i ∘ ppf i = id` on the percentiles). -/
theorem tpStep_coverage (ppf cdf : Nat → α → α) (ps : List α) (sep : α) (hsep : 0 ≤ sep) (tset : List α)
    (hne : tset ≠ []) (i : Nat) (hinv : ∀ p ∈ ps, cdf i (ppf i p) = p) :
    ∀ p ∈ ps, minAbsDist p ((tpStep ppf cdf ps sep tset i).map (cdf i)) ≤ sep := by
  intro p hp
  by_cases hsel : sep < minAbsDist p (tset.map (cdf i))
  · have hmem : ppf i p ∈ tpStep ppf cdf ps sep tset i :=
      (tpStep_mem ppf cdf ps sep tset i _).mpr (Or.inr ⟨p, hp, hsel, rfl⟩)
    have : p ∈ (tpStep ppf cdf ps sep tset i).map (cdf i) :=
      List.mem_map.mpr ⟨ppf i p, hmem, hinv p hp⟩
    calc minAbsDist p _ ≤ absSub p p := minAbsDist_le p _ p this
      _ = 0 := absSub_self p
      _ ≤ sep := hsep
  · have hle := not_lt.mp hsel
    refine le_trans (minAbsDist_mono p (tset.map (cdf i)) _ (by simpa using hne) ?_) hle
    intro x hx
    obtain ⟨t, ht, rfl⟩ := List.mem_map.mp hx
    exact List.mem_map.mpr ⟨t, (tpStep_prefix ppf cdf ps sep tset i).subset ht, rfl⟩

theorem foldl_tpStep_coverage (ppf cdf : Nat → α → α) (ps : List α) (sep : α) (hsep : 0 ≤ sep)
    (is : List Nat) (hinv : ∀ i ∈ is, ∀ p ∈ ps, cdf i (ppf i p) = p) :
    ∀ tset, tset ≠ [] → ∀ i ∈ is, ∀ p ∈ ps,
      minAbsDist p ((is.foldl (tpStep ppf cdf ps sep) tset).map (cdf i)) ≤ sep := by
  induction is with
  | nil => intro tset _ i hi; simp at hi
  | cons i0 rest ih =>
    intro tset hne i hi p hp
    have hne1 : tpStep ppf cdf ps sep tset i0 ≠ [] := by
      intro h
      have := (tpStep_prefix ppf cdf ps sep tset i0)
      rw [h] at this
      exact hne (List.prefix_nil.mp this)
    simp only [List.foldl_cons]
    rcases List.mem_cons.mp hi with rfl | hi
    · have hcov := tpStep_coverage ppf cdf ps sep hsep tset hne i
        (hinv i (List.mem_cons_self ..)) p hp
      refine le_trans (minAbsDist_mono p _ _ (by simpa using hne1) ?_) hcov
      intro x hx
      obtain ⟨t, ht, rfl⟩ := List.mem_map.mp hx
      exact List.mem_map.mpr ⟨t, (foldl_tpStep_prefix ppf cdf ps sep rest _).subset ht, rfl⟩
    · exact ih (fun j hj => hinv j (List.mem_cons_of_mem _ hj)) _ hne1 i hi p hp

end TP

end Tsdate.PriorGrid
