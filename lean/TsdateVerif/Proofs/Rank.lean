/-
Lemmas for C25: the dense ranks `nodes_index` of `mutational_area` and the intervals between consecutive
distinct node times.  `distinctSorted ts` is strictly increasing and has exactly the values of `ts`;
the rank of a node time is its position there; hence "child index ≤ k < parent index" says exactly that
the edge covers the whole `k`-th interval `[d[k], d[k+1]]`.
-/
import Mathlib.Order.Basic
import Mathlib.Order.Defs.LinearOrder
import Mathlib.Tactic.SplitIfs
import TsdateVerif.Model.Rescale

namespace Tsdate.Rescale
set_option linter.unusedSectionVars false

variable {α : Type} [LinearOrder α]

/-! ### `insertDistinct` / `distinctSorted` -/

theorem mem_insertDistinct (x y : α) (l : List α) :
    y ∈ insertDistinct x l ↔ y = x ∨ y ∈ l := by
  induction l with
  | nil => simp [insertDistinct]
  | cons a t ih =>
    unfold insertDistinct
    split_ifs with h1 h2
    · simp
    · simp only [List.mem_cons, ih]
      constructor
      · rintro (h | h | h)
        · exact Or.inr (Or.inl h)
        · exact Or.inl h
        · exact Or.inr (Or.inr h)
      · rintro (h | h | h)
        · exact Or.inr (Or.inl h)
        · exact Or.inl h
        · exact Or.inr (Or.inr h)
    · have : x = a := le_antisymm (not_lt.mp h2) (not_lt.mp h1)
      subst this
      simp

theorem sorted_insertDistinct (x : α) (l : List α) (h : l.Pairwise (· < ·)) :
    (insertDistinct x l).Pairwise (· < ·) := by
  induction l with
  | nil => simp [insertDistinct]
  | cons a t ih =>
    rw [List.pairwise_cons] at h
    unfold insertDistinct
    split_ifs with h1 h2
    · refine List.pairwise_cons.mpr ⟨?_, List.pairwise_cons.mpr h⟩
      intro b hb
      rcases List.mem_cons.mp hb with rfl | hb
      · exact h1
      · exact lt_trans h1 (h.1 b hb)
    · refine List.pairwise_cons.mpr ⟨?_, ih h.2⟩
      intro b hb
      rcases (mem_insertDistinct x b t).mp hb with rfl | hb
      · exact h2
      · exact h.1 b hb
    · exact List.pairwise_cons.mpr h

theorem mem_distinctSorted (ts : List α) (y : α) : y ∈ distinctSorted ts ↔ y ∈ ts := by
  induction ts with
  | nil => simp [distinctSorted]
  | cons a t ih =>
    show y ∈ insertDistinct a (distinctSorted t) ↔ _
    rw [mem_insertDistinct, ih]; simp

theorem sorted_distinctSorted (ts : List α) : (distinctSorted ts).Pairwise (· < ·) := by
  induction ts with
  | nil => simp [distinctSorted]
  | cons a t ih => exact sorted_insertDistinct a _ ih

/-! ### counting a downward-closed predicate on a sorted list -/

/-- On a non-decreasing list the entries satisfying a downward-closed predicate are exactly the first
`countP p` ones. -/
theorem count_downward (l : List α) (p : α → Bool) (hp : ∀ a b, a ≤ b → p b = true → p a = true)
    (hs : l.Pairwise (· ≤ ·)) (i : Nat) (h : i < l.length) : p l[i] = true ↔ i < l.countP p := by
  induction l generalizing i with
  | nil => simp at h
  | cons a l ih =>
    rw [List.pairwise_cons] at hs
    rw [List.countP_cons]
    by_cases ha : p a = true
    · simp only [ha, if_true]
      cases i with
      | zero => simp [ha]
      | succ i =>
        simp only [List.getElem_cons_succ]
        rw [ih hs.2 i (by simpa using h)]
        omega
    · have hz : l.countP p = 0 := by
        rw [List.countP_eq_zero]
        intro b hb hpb
        exact ha (hp a b (hs.1 b hb) hpb)
      simp only [ha, hz]
      cases i with
      | zero => simp [ha]
      | succ i =>
        simp only [List.getElem_cons_succ]
        have hi' : i < l.length := by simpa using h
        have hmem : l[i] ∈ l := List.getElem_mem hi'
        constructor
        · intro hpi; exact absurd (hp a _ (hs.1 _ hmem) hpi) ha
        · intro hlt; simp at hlt

theorem pairwise_le_of_lt (l : List α) (h : l.Pairwise (· < ·)) : l.Pairwise (· ≤ ·) :=
  h.imp (fun hab => le_of_lt hab)

/-- entries of a strictly increasing list compare like their positions -/
theorem getElem_lt_iff (l : List α) (h : l.Pairwise (· < ·)) (i j : Nat) (hi : i < l.length)
    (hj : j < l.length) : l[i] < l[j] ↔ i < j := by
  constructor
  · intro hlt
    by_contra hcon
    rcases Nat.lt_or_ge j i with hji | hji
    · exact absurd (lt_trans (List.pairwise_iff_getElem.mp h j i hj hi hji) hlt) (lt_irrefl _)
    · have : i = j := by omega
      subst this; exact absurd hlt (lt_irrefl _)
  · intro hij
    exact List.pairwise_iff_getElem.mp h i j hi hj hij

theorem getElem_le_iff (l : List α) (h : l.Pairwise (· < ·)) (i j : Nat) (hi : i < l.length)
    (hj : j < l.length) : l[i] ≤ l[j] ↔ i ≤ j := by
  rw [← not_lt, getElem_lt_iff l h j i hj hi]; omega

/-! ### ranks -/

/-- the rank of a member of a strictly increasing list is its position -/
theorem nodeIndex_getElem (d : List α) (h : d.Pairwise (· < ·)) (j : Nat) (hj : j < d.length) :
    nodeIndex d d[j] = j := by
  unfold nodeIndex
  have key := fun i hi => count_downward d (fun x => decide (x < d[j]))
    (fun a b hab hb => by simp only [decide_eq_true_eq] at hb ⊢; exact lt_of_le_of_lt hab hb)
    (pairwise_le_of_lt d h) i hi
  -- every index below j counts, index j does not
  have h1 : ¬ j < d.countP (fun x => decide (x < d[j])) := by
    rw [← key j hj]; simp
  have h2 : ∀ i, i < j → i < d.countP (fun x => decide (x < d[j])) := by
    intro i hij
    rw [← key i (by omega)]
    simp only [decide_eq_true_eq]
    exact (getElem_lt_iff d h i j (by omega) hj).mpr hij
  rcases Nat.eq_zero_or_pos j with h0 | h0
  · omega
  · have := h2 (j - 1) (by omega); omega

theorem nodeIndex_lt_length (d : List α) (t : α) (ht : t ∈ d) (h : d.Pairwise (· < ·)) :
    nodeIndex d t < d.length ∧ d[nodeIndex d t]? = some t := by
  obtain ⟨j, hj, rfl⟩ := List.getElem_of_mem ht
  rw [nodeIndex_getElem d h j hj]
  exact ⟨hj, by simp [hj]⟩

/-- **Ranks versus interval ends.** For node times `tc`, `tp` occurring in `d` (the strictly increasing
list of distinct node times) and an interval number `k` with `k + 1 < d.length`:
`rank tc ≤ k` iff `tc ≤ d[k]`, and `k < rank tp` iff `d[k+1] ≤ tp`. -/
theorem rank_le_iff (d : List α) (h : d.Pairwise (· < ·)) (tc : α) (hc : tc ∈ d) (k : Nat)
    (hk : k < d.length) : nodeIndex d tc ≤ k ↔ tc ≤ d[k] := by
  obtain ⟨j, hj, rfl⟩ := List.getElem_of_mem hc
  rw [nodeIndex_getElem d h j hj, getElem_le_iff d h j k hj hk]

theorem lt_rank_iff (d : List α) (h : d.Pairwise (· < ·)) (tp : α) (hp : tp ∈ d) (k : Nat)
    (hk : k + 1 < d.length) : k < nodeIndex d tp ↔ d[k + 1] ≤ tp := by
  obtain ⟨j, hj, rfl⟩ := List.getElem_of_mem hp
  rw [nodeIndex_getElem d h j hj, getElem_le_iff d h (k + 1) j hk hj]
  omega

end Tsdate.Rescale
