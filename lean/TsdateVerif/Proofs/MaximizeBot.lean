/-
Logarithmic probability space with `-inf`: the carrier `WithBot β` (`⊥` = log 0), used by
`C13.max_rule_log_bot`, and the soundness of the decidable order test run by the driver.
-/
import Mathlib.Algebra.Order.Monoid.WithTop
import Mathlib.Algebra.Order.Group.Defs
import TsdateVerif.Proofs.Maximize

namespace Tsdate.Maximize
open Tsdate
set_option linter.unusedSectionVars false

section Bot
variable {β : Type} [AddCommGroup β] [LinearOrder β] [IsOrderedAddMonoid β]

/-- log-space operations on `WithBot β`: `combine = +` (`⊥` absorbing, as `-inf + x = -inf`);
`ratio x m = x - m` for finite `m` (and `⊥` when `m = ⊥`, where IEEE gives NaN/+inf: excluded by
hypothesis wherever the theorems use it). -/
def logOpsBot : Ops (WithBot β) where
  comb := (· + ·)
  ratio := fun x m => match m with
    | ⊥ => ⊥
    | (m' : β) => x + ((-m' : β) : WithBot β)

theorem logOpsBot_laws : OpsLaws (logOpsBot : Ops (WithBot β)) :=
  ⟨fun a b => add_comm a b, fun a b c => add_assoc a b c⟩

/-- every finite constant can be subtracted without changing the order of the scores -/
theorem scalable_bot (m : WithBot β) (hm : m ≠ ⊥) : Scalable (logOpsBot : Ops (WithBot β)) m := by
  obtain ⟨m', rfl⟩ := WithBot.ne_bot_iff_exists.mp hm
  refine ⟨((-m' : β) : WithBot β), fun x => rfl, ?_⟩
  intro a b h
  exact WithBot.add_lt_add_right WithBot.coe_ne_bot h

end Bot

/-! ### the decidable order test of the driver is sound -/

theorem pairwiseB_iff {ε : Type} (r : ε → ε → Bool) (l : List ε) :
    pairwiseB r l = true ↔ l.Pairwise (fun a b => r a b = true) := by
  induction l with
  | nil => simp [pairwiseB]
  | cons x xs ih =>
    simp only [pairwiseB, Bool.and_eq_true, List.all_eq_true, List.pairwise_cons, ih]

theorem validOrderB_sound (es : List MEdge) (h : validOrderB es = true) :
    ((Order.runsBy (·.c) es).map gchild).Nodup ∧ Order.FlatDone (·.c) (·.p) es := by
  simp only [validOrderB, Bool.and_eq_true, pairwiseB_iff, List.all_eq_true] at h
  obtain ⟨⟨h1, h2⟩, h3⟩ := h
  refine ⟨?_, ?_, ?_⟩
  · exact h1.imp (fun hab => by simpa using hab)
  · exact h2.imp (fun hab => by simpa using hab)
  · intro e he
    simpa using h3 e he

end Tsdate.Maximize
