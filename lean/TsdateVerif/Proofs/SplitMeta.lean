/-
Node metadata written by `split_disjoint_nodes` / `_reorder_nodes`: which rows carry the re-encoded
metadata (with `unsplit_node_id`) and which keep the original row.
-/
import TsdateVerif.Proofs.SplitNoop

namespace Tsdate.Split
set_option linter.unusedSectionVars false
set_option linter.unusedVariables false

variable {β : Type}

/-- The nodes reached by the `try` loop before its first failure. -/
def okPrefix (enc : Nat → Option β) (split : List Nat) : List Nat :=
  split.takeWhile (fun u => (enc u).isSome)

theorem extraGo_eq (enc : Nat → Option β) (us : List Nat) (acc : List (Nat × β)) :
    extraGo enc us acc = acc ++ (okPrefix enc us).filterMap (fun u => (enc u).map (fun b => (u, b))) := by
  induction us generalizing acc with
  | nil => simp [extraGo, okPrefix]
  | cons u us ih =>
    unfold extraGo okPrefix
    cases h : enc u with
    | none => simp [h]
    | some b =>
      simp only [h, Option.isSome_some, List.takeWhile_cons_of_pos, List.filterMap_cons, Option.map_some]
      rw [ih]
      simp [okPrefix, List.append_assoc]

theorem extraMd_eq (enc : Nat → Option β) (split : List Nat) :
    extraMd enc split = (okPrefix enc split).filterMap (fun u => (enc u).map (fun b => (u, b))) := by
  unfold extraMd; rw [extraGo_eq]; simp

theorem okPrefix_isSome (enc : Nat → Option β) (split : List Nat) (u : Nat) (h : u ∈ okPrefix enc split) :
    (enc u).isSome = true := by
  unfold okPrefix at h
  induction split with
  | nil => simp at h
  | cons a l ih =>
    by_cases ha : (enc a).isSome = true
    · rw [List.takeWhile_cons_of_pos (p := fun u => (enc u).isSome) ha] at h
      rcases List.mem_cons.mp h with rfl | h
      · exact ha
      · exact ih h
    · rw [List.takeWhile_cons_of_neg (p := fun u => (enc u).isSome) ha] at h; simp at h

/-- `extra_md.get(i)`: the re-encoded row for the nodes reached before the first failure, nothing
for all others. -/
theorem lookup_extraMd (enc : Nat → Option β) (split : List Nat) (i : Nat) :
    lookupMd (extraMd enc split) i = if i ∈ okPrefix enc split then enc i else none := by
  rw [extraMd_eq]
  generalize hP : okPrefix enc split = P
  have hsome : ∀ u ∈ P, (enc u).isSome = true := by
    intro u hu; rw [← hP] at hu; exact okPrefix_isSome enc split u hu
  clear hP
  unfold lookupMd
  induction P with
  | nil => simp
  | cons a l ih =>
    have ha := hsome a (List.mem_cons_self ..)
    obtain ⟨b, hb⟩ := Option.isSome_iff_exists.mp ha
    simp only [List.filterMap_cons, hb, Option.map_some]
    by_cases hia : a = i
    · subst hia
      simp [List.find?_cons, hb]
    · have hne : (a == i) = false := by simpa using hia
      rw [List.find?_cons]
      simp only [hne]
      rw [ih (fun u hu => hsome u (List.mem_cons_of_mem _ hu))]
      have : i ≠ a := fun h => hia h.symm
      simp [List.mem_cons, this]

theorem okPrefix_all (enc : Nat → Option β) (split : List Nat)
    (h : ∀ u ∈ split, (enc u).isSome = true) : okPrefix enc split = split := by
  unfold okPrefix
  induction split with
  | nil => rfl
  | cons a l ih =>
    rw [List.takeWhile_cons_of_pos (p := fun u => (enc u).isSome) (h a (List.mem_cons_self ..)),
      ih (fun u hu => h u (List.mem_cons_of_mem _ hu))]

theorem okPrefix_head_fail (enc : Nat → Option β) (u : Nat) (us : List Nat) (h : enc u = none) :
    okPrefix enc (u :: us) = [] := by
  unfold okPrefix
  rw [List.takeWhile_cons_of_neg (p := fun u => (enc u).isSome) (by simp [h])]

section Out
variable [Inhabited β]

/-- Row `v` of the output metadata column: the re-encoded row if there is one for the node `v` was
copied from, else that node's original row.  `hE`: there is only one empty row. -/
theorem outMetadata_get (isEmpty : β → Bool) (empty : β) (hE : ∀ b, isEmpty b = true → b = empty)
    (rows : Array β) (o : Out) (extra : List (Nat × β)) (v : Nat) (hv : v < o.order.length)
    (hr : orig o v < rows.size) :
    (outMetadata isEmpty empty rows o.order extra)[v]? =
      some ((lookupMd extra (orig o v)).getD (aget rows (orig o v))) := by
  have horig : o.order[v]? = some (orig o v) := by
    unfold orig
    rw [List.getD_eq_getElem?_getD, List.getElem?_eq_getElem hv]
    rfl
  unfold outMetadata
  split_ifs with hall
  · rw [List.getElem?_map, horig]
    simp only [Option.map_some, Option.some.injEq]
    rw [Bool.and_eq_true] at hall
    cases hl : lookupMd extra (orig o v) with
    | none =>
      simp only [Option.getD_none]
      have : aget rows (orig o v) ∈ rows.toList := by
        simp only [aget]
        rw [Array.getElem?_eq_getElem hr]
        simp
      exact (hE _ (List.all_eq_true.mp hall.1 _ this)).symm
    | some b =>
      simp only [Option.getD_some]
      unfold lookupMd at hl
      obtain ⟨kv, hkv, rfl⟩ := Option.map_eq_some_iff.mp hl
      have hm := List.mem_of_find?_eq_some hkv
      exact (hE _ (List.all_eq_true.mp hall.2 kv hm)).symm
  · rw [List.getElem?_map, horig]
    rfl

end Out

section WithSplit
variable {α : Type} [Inhabited α] [LinearOrder α] [Inhabited β]
variable {N : Nat} (excl : Array Bool) {es : Array (SEdge α)} {ord : List Nat}

theorem orig_lt (hv : Valid N es ord) (v : Nat)
    (hlt : v < (splitDisjoint N excl es ord).order.length) :
    orig (splitDisjoint N excl es ord) v < N := by
  have hshape : (splitDisjoint N excl es ord).order
      = List.range N ++ (splitDisjoint N excl es ord).split := rfl
  unfold orig
  rw [List.getD_eq_getElem?_getD, List.getElem?_eq_getElem hlt]
  simp only [Option.getD_some]
  have hmem : (splitDisjoint N excl es ord).order[v] ∈ List.range N ++ (splitDisjoint N excl es ord).split := by
    rw [← hshape]; exact List.getElem_mem _
  rcases List.mem_append.mp hmem with h | h
  · exact List.mem_range.mp h
  · exact (split_mem excl hv _ h).1

/-- Row `v` of the output metadata, for an arbitrary codec `enc`. -/
theorem metadata_row (isEmpty : β → Bool) (empty : β) (hE : ∀ b, isEmpty b = true → b = empty)
    (rows : Array β) (enc : Nat → Option β) (hv : Valid N es ord) (hrows : rows.size = N) (v : Nat)
    (hlt : v < (splitDisjoint N excl es ord).order.length) :
    (outMetadata isEmpty empty rows (splitDisjoint N excl es ord).order
        (extraMd enc (splitDisjoint N excl es ord).split))[v]? =
      some ((if orig (splitDisjoint N excl es ord) v ∈ okPrefix enc (splitDisjoint N excl es ord).split
              then enc (orig (splitDisjoint N excl es ord) v) else none).getD
            (aget rows (orig (splitDisjoint N excl es ord) v))) := by
  rw [outMetadata_get isEmpty empty hE rows _ _ v hlt (by rw [hrows]; exact orig_lt excl hv v hlt),
    lookup_extraMd]

end WithSplit

end Tsdate.Split
