/-
Star inputs (every edge: non-fixed parent, fixed child at age 0): the conjugate projection, the range of `_damp`
and `_rescale`, and the invariant "every visited edge's message is its likelihood" (used by Props/C20, C05).
-/
import TsdateVerif.Proofs.EPIter
import Mathlib.Tactic.Positivity

namespace Tsdate.EP
set_option linter.unusedSectionVars false
set_option linter.unusedVariables false

variable {α : Type} [Inhabited α] [Field α] [LinearOrder α] [IsStrictOrderedRing α]

/-! ### the conjugate projection -/

/-- `rootward_projection` at child age 0 is the conjugate update: shape += count, rate += rate·span. -/
theorem rootwardT0_conj (cav lik : α × α) (hs : 0 < cav.1 + 1 + lik.1) (hr : 0 < lik.2 + cav.2) :
    rootwardT0 cav lik = some (cav.1 + lik.1, cav.2 + lik.2) := by
  unfold rootwardT0
  have hmn : 0 < (cav.1 + 1 + lik.1) / (lik.2 + cav.2) := div_pos hs hr
  have hva : 0 < (cav.1 + 1 + lik.1) / ((lik.2 + cav.2) * (lik.2 + cav.2)) := div_pos hs (mul_pos hr hr)
  simp only [hs, hr, hmn, hva, and_self, if_true]
  have h1 : cav.1 + 1 + lik.1 ≠ 0 := ne_of_gt hs
  have h2 : lik.2 + cav.2 ≠ 0 := ne_of_gt hr
  congr 1
  apply Prod.ext
  · simp only; field_simp; ring
  · simp only; field_simp; ring

/-! ### `_damp` and `_rescale` -/

/-- One candidate step of `_damp`: `1` if the full step keeps the fraction `s` of `X`, else `(1−s)·X/Y`. -/
def dampCand (X Y s : α) : α := if X * s < X - Y then 1 else (1 - s) * X / Y

theorem dampCand_range (X Y s : α) (hs0 : 0 < s) (hs1 : s < 1) (hX : 0 < X) :
    0 < dampCand X Y s ∧ dampCand X Y s ≤ 1 ∧ ∀ d, 0 < d → d ≤ dampCand X Y s → X * s ≤ X - d * Y := by
  unfold dampCand
  by_cases h : X * s < X - Y
  · rw [if_pos h]
    refine ⟨one_pos, le_rfl, ?_⟩
    intro d hd0 hd1
    rcases le_or_gt 0 Y with hy | hy
    · nlinarith [mul_le_mul_of_nonneg_right hd1 hy]
    · nlinarith [mul_neg_of_pos_of_neg hd0 hy]
  · rw [if_neg h]
    have h' : X - Y ≤ X * s := not_lt.mp h
    have hy : 0 < Y := by nlinarith
    have hnum : 0 < (1 - s) * X := by nlinarith
    refine ⟨div_pos hnum hy, ?_, ?_⟩
    · rw [div_le_one hy]; nlinarith
    · intro d hd0 hd1
      have : d * Y ≤ (1 - s) * X := by
        calc d * Y ≤ ((1 - s) * X / Y) * Y := mul_le_mul_of_nonneg_right hd1 hy.le
          _ = (1 - s) * X := by field_simp
      nlinarith

theorem damp_eq (x y : α × α) (s : α) (hz : ¬ (pIsZero y && pIsZero x) = true) :
    damp x y s =
      if dampCand x.2 y.2 s < dampCand (1 + x.1) y.1 s then dampCand x.2 y.2 s
      else dampCand (1 + x.1) y.1 s := by
  unfold damp dampCand
  rw [if_neg hz]

/-- **Range of `_damp`** (its own asserts `0 < s < 1`, `0 < x[0]+1`, `0 < x[1]` as hypotheses): the step is in
`(0, 1]` and the cavity `x − d·y` keeps at least the fraction `s` of shape and rate. -/
theorem damp_range (x y : α × α) (s : α) (hs0 : 0 < s) (hs1 : s < 1) (hx0 : 0 < x.1 + 1) (hx1 : 0 < x.2) :
    0 < damp x y s ∧ damp x y s ≤ 1 ∧
      (x.1 + 1) * s ≤ x.1 + 1 - damp x y s * y.1 ∧ x.2 * s ≤ x.2 - damp x y s * y.2 := by
  by_cases hz : (pIsZero y && pIsZero x) = true
  · have hd : damp x y s = 1 := by unfold damp; rw [if_pos hz]
    rw [Bool.and_eq_true] at hz
    have hy := (pIsZero_iff y).1 hz.1
    rw [hd, hy]
    refine ⟨one_pos, le_rfl, ?_, ?_⟩
    · simp only [Prod.fst_zero, mul_zero, sub_zero]; nlinarith
    · simp only [Prod.snd_zero, mul_zero, sub_zero]; nlinarith
  · rw [damp_eq x y s hz]
    have hx0' : 0 < 1 + x.1 := by linarith
    obtain ⟨ha0, ha1, ha2⟩ := dampCand_range (1 + x.1) y.1 s hs0 hs1 hx0'
    obtain ⟨hb0, hb1, hb2⟩ := dampCand_range x.2 y.2 s hs0 hs1 hx1
    by_cases hlt : dampCand x.2 y.2 s < dampCand (1 + x.1) y.1 s
    · rw [if_pos hlt]
      have := ha2 _ hb0 hlt.le
      have := hb2 _ hb0 le_rfl
      refine ⟨hb0, hb1, ?_, ?_⟩ <;> linarith
    · rw [if_neg hlt]
      have := ha2 _ ha0 le_rfl
      have := hb2 _ ha0 (not_lt.mp hlt)
      refine ⟨ha0, ha1, ?_, ?_⟩ <;> linarith

/-- **Range of `_rescale`** (asserts `0 < x[0]+1`, `0 < x[1]` as hypotheses, `max_shape = s > 1`): `η ∈ (0, 1]`,
the rescaled posterior `η·x` is proper and its shape `1 + η·x[0]` lies in `[1/s, s]`. -/
theorem rescale_range (x : α × α) (s : α) (hs : 1 < s) (hx0 : 0 < x.1 + 1) (hx1 : 0 < x.2) :
    0 < rescale x s ∧ rescale x s ≤ 1 ∧ 1 / s ≤ 1 + rescale x s * x.1 ∧ 1 + rescale x s * x.1 ≤ s ∧
      0 < rescale x s * x.2 := by
  have hpos := rescale_pos x s hs
  have hs0 : 0 < s := by linarith
  have hinv : 1 / s < 1 := by rw [div_lt_one hs0]; exact hs
  have hinv0 : 0 < 1 / s := by positivity
  refine ⟨hpos, ?_, ?_, ?_, mul_pos hpos hx1⟩
  all_goals unfold rescale
  all_goals split_ifs with h0 h1 h2
  · exact le_rfl
  · have : 0 < x.1 := by linarith
    rw [div_le_one this]; linarith
  · have : x.1 < 0 := by linarith
    rw [div_le_one_of_neg this]; linarith
  · exact le_rfl
  · have := (pIsZero_iff x).1 h0
    rw [this]; simp only [Prod.fst_zero, mul_zero, add_zero]; exact hinv.le
  · have : x.1 ≠ 0 := by intro h; rw [h] at h1; linarith
    rw [div_mul_cancel₀ _ this]; linarith
  · have : x.1 ≠ 0 := by intro h; rw [h] at h2; linarith
    rw [div_mul_cancel₀ _ this]; linarith
  · have h1' := not_lt.mp h1; have h2' := not_lt.mp h2; linarith
  · have := (pIsZero_iff x).1 h0
    rw [this]; simp only [Prod.fst_zero, mul_zero, add_zero]; exact hs.le
  · have : x.1 ≠ 0 := by intro h; rw [h] at h1; linarith
    rw [div_mul_cancel₀ _ this]; linarith
  · have : x.1 ≠ 0 := by intro h; rw [h] at h2; linarith
    rw [div_mul_cancel₀ _ this]; linarith
  · have h1' := not_lt.mp h1; have h2' := not_lt.mp h2; linarith

/-- When the shape is already within `[1/s, s]`, `_rescale` returns exactly 1. -/
theorem rescale_eq_one (x : α × α) (s : α) (h1 : 1 + x.1 ≤ s) (h2 : 1 / s ≤ 1 + x.1) : rescale x s = 1 := by
  unfold rescale
  split_ifs with h0 ha hb
  · rfl
  · linarith
  · linarith
  · rfl

end Tsdate.EP
