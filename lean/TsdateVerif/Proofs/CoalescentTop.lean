/-
Top-level characterisation of the model's outputs (C14): `condCoalMean`, `condCoalVar`, `prAt`,
`tauVarMrca`.
-/
import TsdateVerif.Proofs.CoalescentArrays
import Mathlib.Algebra.Order.Field.Basic
import Mathlib.Algebra.Order.BigOperators.Ring.Finset
import Mathlib.Tactic.Positivity

namespace Tsdate.Coalescent
open Finset
set_option linter.unusedSectionVars false

section
variable {α : Type} [Field α] [CharZero α]

theorem margLoop_pr (n : ℕ) (val : ℕ → α) :
    ∀ (fuel k : ℕ) (s : MState α), fuel + 2 ≤ k → k + 1 ≤ n → s.pr = closedList n k 2 (n - k) →
      (margLoop n val fuel k s).pr = closedList n (k - fuel) 2 (n - (k - fuel)) := by
  intro fuel
  induction fuel with
  | zero => intro k s _ _ h; simpa [margLoop] using h
  | succ f ih =>
    intro k s hk hkn hpr
    rw [margLoop]
    have hs : (margBody n val s k).pr = closedList n (k - 1) 2 (n - (k - 1)) := by
      simp only [margBody_eq_ref, margBodyRef, if_pos (show 2 < k by omega), hpr]
      rw [margStep_closed n k (by omega) hkn]
      congr 1; omega
    rw [ih (k - 1) _ (by omega) (by omega) hs]
    congr 1 <;> omega

theorem prAt_eq (n k : ℕ) (hk : 2 ≤ k) (hkn : k < n) :
    prAt (α := α) n k = closedList n k 2 (n - k) := by
  unfold prAt
  rw [margLoop_pr n _ (n - 1 - k) (n - 1) _ (by omega) (by omega)]
  · congr 1 <;> omega
  · have : n - (n - 1) = 1 := by omega
    simp only [this, closedList, closedP_top n (by omega), Nat.cast_one]

theorem closedList_getD (n k : ℕ) (len : ℕ) :
    ∀ a i, i < len → (closedList (α := α) n k a len).getD i 0 = closedP n k (a + i) := by
  induction len with
  | zero => intro a i h; omega
  | succ len ih =>
    intro a i h
    rw [closedList]
    cases i with
    | zero => simp
    | succ i =>
      simp only [List.getD_cons_succ]
      rw [ih (a + 1) i (by omega)]
      congr 1; omega

theorem zipWith_rows {β : Type} (f : ℕ × α → ℕ × α → β) (l : List ℕ) (g1 g2 : ℕ → α) (x y : ℕ × α) :
    List.zipWith f (l.map (fun k => (k, g1 k)) ++ [x]) (l.map (fun k => (k, g2 k)) ++ [y])
      = l.map (fun k => f (k, g1 k) (k, g2 k)) ++ [f x y] := by
  rw [List.zipWith_append (by simp)]
  congr 1
  induction l with
  | nil => rfl
  | cons a l ih => simp [ih]

theorem rowClosed_val1 (n k : ℕ) (hk : 2 ≤ k) (hkn : k < n) :
    rowClosed (α := α) n (val1 n) k = specMean n k := by
  rw [rowClosed_eq_sum, specMean]
  apply sum_congr rfl
  intro a ha
  have := mem_Ico.mp ha
  rw [val1_eq_spec n a (by omega) (by omega)]

theorem rowClosed_val2 (n k : ℕ) (hk : 2 ≤ k) (hkn : k < n) :
    rowClosed (α := α) n (val2 n) k = specSecond n k := by
  rw [rowClosed_eq_sum, specSecond]
  apply sum_congr rfl
  intro a ha
  have := mem_Ico.mp ha
  rw [val2_eq_spec n a (by omega) (by omega)]

theorem specMean_eq (n k : ℕ) (hk : 2 ≤ k) (hkn : k < n) :
    specMean (α := α) n k = ((k - 1 : ℕ) : α) / (n : α) := by
  rw [specMean, ← closed_mean' n k hk hkn]
  apply sum_congr rfl
  intro a ha
  have := mem_Ico.mp ha
  rw [hypoMeanSpec_closed n a (by omega) (by omega)]

theorem condCoalMean_eq (n : ℕ) (hn : 2 ≤ n) :
    condCoalMean (α := α) n
      = (List.range' 2 (n - 2)).map (fun k => (k, rowClosed n (val1 n) k)) ++ [(n, val1 n 1)] := by
  have := marginalize_eq n hn (val1 (α := α) n)
  exact this

theorem condCoalVar_eq (n : ℕ) (hn : 2 ≤ n) :
    condCoalVar (α := α) n
      = (List.range' 2 (n - 2)).map
          (fun k => (k, rowClosed n (val2 n) k - rowClosed n (val1 n) k * rowClosed n (val1 n) k))
        ++ [(n, val2 n 1 - val1 n 1 * val1 n 1)] := by
  have h1 := marginalize_eq n hn (val1 (α := α) n)
  have h2 := marginalize_eq n hn (val2 (α := α) n)
  show List.zipWith _ (marginalize n (val1 n)) (marginalize n (val2 n)) = _
  rw [h1, h2, zipWith_rows]

end

section Ordered
variable {α : Type} [Field α] [LinearOrder α] [IsStrictOrderedRing α]

theorem mrcaSum_eq (n : ℕ) :
    (4 : α) * mrcaSum n = hypoVarSpec n 1 := by
  unfold hypoVarSpec
  induction n with
  | zero => simp [mrcaSum]
  | succ n ih =>
    cases n with
    | zero => simp [mrcaSum]
    | succ m =>
      have hs := sum_Ico_succ_top (show 1 + 1 ≤ m + 1 + 1 by omega)
        (fun i : ℕ => ((2 : α) / ((i : α) * ((i : α) - 1))) ^ 2)
      have e : mrcaSum (α := α) (m + 1 + 1) = mrcaSum (m + 1)
          + ((1 : ℕ) : α) / ((((m + 1 + 1) * (m + 1 + 1)) * ((m + 1) * (m + 1)) : ℕ) : α) := rfl
      rw [e, mul_add, ih, hs]
      congr 1
      have h1 : ((m + 1 : ℕ) : α) ≠ 0 := Nat.cast_ne_zero.mpr (by omega)
      have h2 : ((m + 1 + 1 : ℕ) : α) ≠ 0 := Nat.cast_ne_zero.mpr (by omega)
      have h4 : ((m + 1 + 1 : ℕ) : α) - 1 = ((m + 1 : ℕ) : α) := by push_cast; ring
      rw [h4]
      push_cast
      field_simp
      ring

theorem hypoVarSpec_nonneg (n a : ℕ) : (0 : α) ≤ hypoVarSpec n a := by
  unfold hypoVarSpec
  exact sum_nonneg (fun i _ => sq_nonneg _)

theorem tauVarMrca_eq (n : ℕ) : tauVarMrca (α := α) n = hypoVarSpec n 1 := by
  unfold tauVarMrca
  simp only [Nat.cast_ofNat, Nat.cast_zero]
  rw [mrcaSum_eq, if_neg (not_lt.mpr (hypoVarSpec_nonneg n 1))]

end Ordered

end Tsdate.Coalescent
