/-
C20: the star invariant is preserved by every edge update, by sweeps and by `iterate`; closed form after one
iteration.
-/
import TsdateVerif.Proofs.EPStarInv

namespace Tsdate.EP
set_option linter.unusedSectionVars false
set_option linter.unusedVariables false

variable {α : Type} [Inhabited α] [Field α] [LinearOrder α] [IsStrictOrderedRing α]

/-- Configuration hypotheses of the star theorems: `0 < min_step < 1 < max_shape`, `TINY ≤ 1`. -/
structure StarCfg (cfg : Cfg α) : Prop where
  s0 : 0 < cfg.minStep
  s1 : cfg.minStep < 1
  ms : 1 < cfg.maxShape
  tiny : cfg.tiny ≤ 1

/-- The loop body on a star edge, written out: `tinyCheck` does nothing (all scales are 1), the branch is `root`
with child age 0, the projection is the model's conjugate `rootwardT0`. -/
theorem stepEdge_star (other : Req α → Res α) (cfg : Cfg α) (net : Net α) (N : Nat) (V : Nat → Prop)
    (s : State α) (i : Nat) (hnet : StarNet net N) (hcfg : StarCfg cfg) (h : StarInv net s N V)
    (hi : i < net.ep.size) :
    stepEdge (starProj other) cfg net false s i =
      applyEnd cfg false i false (aget net.ep i)
        (damp (aget s.post (aget net.ep i)) (message (aget s.edge i).r 1) cfg.minStep)
        (cavity (aget s.post (aget net.ep i)) (message (aget s.edge i).r 1)
          (damp (aget s.post (aget net.ep i)) (message (aget s.edge i).r 1) cfg.minStep))
        ((rootwardT0
            (cavity (aget s.post (aget net.ep i)) (message (aget s.edge i).r 1)
              (damp (aget s.post (aget net.ep i)) (message (aget s.edge i).r 1) cfg.minStep))
            (dampLik (damp (aget s.post (aget net.ep i)) (message (aget s.edge i).r 1) cfg.minStep)
              (aget net.elik i))).getD
          (cavity (aget s.post (aget net.ep i)) (message (aget s.edge i).r 1)
            (damp (aget s.post (aget net.ep i)) (message (aget s.edge i).r 1) cfg.minStep)))
        s := by
  obtain ⟨hp, hc⟩ := hnet.inRange i hi
  have hsp := h.scale1 _ hp
  have hsc := h.scale1 _ hc
  have htiny : tinyCheck cfg net false i s = s := by
    unfold tinyCheck
    rw [if_neg]
    simp only [parOf, chiOf, Bool.false_eq_true, if_false, hsp, hsc, or_self, not_lt]
    exact hcfg.tiny
  have hbr : branchOf net.fixed (aget (parOf false net) i) (aget (chiOf false net) i) = .root :=
    branchOf_root_of _ _ _ (hnet.parentFree i hi) (hnet.childFixed i hi)
  unfold stepEdge
  rw [htiny]
  dsimp only
  rw [prep_of_root cfg net false i s hbr]
  have hage : isZero (aget net.lower (aget (chiOf false net) i)) = true := by
    rw [isZero_iff]; exact hnet.age0 i hi
  simp only [starProj, hage, and_self, if_true, stepApply]
  simp only [parOf, facOf, likOf, Bool.false_eq_true, if_false, hsp]

/-- **Every star update**: afterwards the visited edge's message is exactly its likelihood, all scales are still
1, and the invariant holds with the edge added to the visited set — for any damping the real `_damp` picks. -/
theorem star_step (other : Req α → Res α) (cfg : Cfg α) (net : Net α) (N : Nat) (V : Nat → Prop)
    (s : State α) (i : Nat) (hnet : StarNet net N) (hcfg : StarCfg cfg)
    (hcap : ∀ p, p < N → 1 + (likSum net p net.ep.size).1 ≤ cfg.maxShape)
    (h : StarInv net s N V) (hi : i < net.ep.size) :
    StarInv net (stepEdge (starProj other) cfg net false s i) N (fun k => k = i ∨ V k) := by
  obtain ⟨hp, hc⟩ := hnet.inRange i hi
  have hnok := netOK_of_star net N hnet
  have hinv' : Inv net (stepEdge (starProj other) cfg net false s i) N :=
    stepEdge_inv _ cfg net N false s i h.inv hnok (by simpa [parOf] using hi) hcfg.ms
  have hesz : i < s.edge.size := by rw [h.inv.sizes.edge]; exact hi
  -- the posterior of the parent and the row being updated
  have hpost := star_post net s N V hnet h _ hp
  obtain ⟨⟨hA1, hA2⟩, hAle, hAz, hAge, _⟩ :=
    starRows_sum net N hnet s.edge V h.rows (aget net.ep i) net.ep.size le_rfl
  rw [← hpost] at hA1 hA2 hAle hAz hAge
  obtain ⟨hl, hr, _⟩ := h.rows i hi
  have hy := hnet.yNonneg i hi
  have hmu := hnet.muPos i hi
  have hms0 : (0 : α) < cfg.maxShape := lt_trans one_pos hcfg.ms
  have hinvms : 1 / cfg.maxShape ≤ 1 := by rw [div_le_one hms0]; exact hcfg.ms.le
  -- the update, in closed form: new row `⟨lik, 0⟩`, scale stays 1
  have key : ∃ proj : α × α,
      stepEdge (starProj other) cfg net false s i =
        writeEnd false i ⟨aget net.elik i, 0⟩ (aget net.ep i) proj 1 s := by
    rw [stepEdge_star other cfg net N V s i hnet hcfg h hi, applyEnd_eq]
    simp only [facOf, Bool.false_eq_true, if_false, h.scale1 _ hp, hl]
    rcases hr with hr0 | hrl
    · -- first visit
      have hx : aget s.post (aget net.ep i) = 0 ∨
          (0 ≤ (aget s.post (aget net.ep i)).1 ∧ 0 < (aget s.post (aget net.ep i)).2) := by
        rcases hAz with hz | hz
        · exact Or.inl hz
        · exact Or.inr ⟨hA1, hz⟩
      obtain ⟨hd, hproj, hnf⟩ := star_update_fresh (aget s.post (aget net.ep i)) (aget net.elik i)
        cfg.minStep hcfg.s0 hcfg.s1 hx hy hmu
      rw [hr0, hd, hproj, hnf]
      -- no capping: the new table (row i := lik) is still a star table, so its sum is below the cap
      have hrows' : StarRows net (aset s.edge i ⟨aget net.elik i, 0⟩) V := by
        intro k hk
        by_cases hki : k = i
        · subst hki
          rw [aget_aset_same _ _ _ hesz]
          exact ⟨rfl, Or.inr rfl, fun _ => rfl⟩
        · rw [aget_aset_other _ _ _ _ hki]
          exact h.rows k hk
      obtain ⟨_, hAle', _, _, _⟩ :=
        starRows_sum net N hnet _ V hrows' (aget net.ep i) net.ep.size le_rfl
      have htot : accTo net.ep net.ec (aset s.edge i ⟨aget net.elik i, 0⟩) (aget net.ep i) 0 net.ep.size =
          aget s.post (aget net.ep i) + aget net.elik i := by
        have := tot_aset net.ep net.ec s.edge (aget net.ep i) i ⟨aget net.elik i, 0⟩ hesz
        unfold tot at this
        rw [size_aset, h.inv.sizes.edge] at this
        rw [this, hpost, hr0, hl]
        simp
      rw [htot] at hAle'
      have hcapp := hcap _ hp
      have heta : rescale (aget s.post (aget net.ep i) + aget net.elik i) cfg.maxShape = 1 := by
        apply rescale_eq_one
        · simp only [Prod.fst_add] at hAle' ⊢; linarith
        · simp only [Prod.fst_add]; linarith
      rw [heta, mul_one]
      exact ⟨_, rfl⟩
    · -- revisit
      have hge := hAge i hi rfl hrl
      have hx1 : 0 ≤ (aget s.post (aget net.ep i)).1 := hA1
      have hx2 : 0 < (aget s.post (aget net.ep i)).2 := lt_of_lt_of_le hmu hge.2
      obtain ⟨hproj, hnf⟩ := star_update_again (aget s.post (aget net.ep i)) (aget net.elik i)
        (damp (aget s.post (aget net.ep i)) (message (aget net.elik i) 1) cfg.minStep) hx1 hx2
      rw [hrl, hproj, hnf]
      have hcapp := hcap _ hp
      have heta : rescale (aget s.post (aget net.ep i)) cfg.maxShape = 1 := by
        apply rescale_eq_one <;> linarith
      rw [heta, mul_one]
      exact ⟨_, rfl⟩
  obtain ⟨proj, hkey⟩ := key
  refine ⟨hinv', ?_, ?_, ?_⟩
  · intro n hn
    rw [hkey, writeEnd_scale]
    by_cases hnp : n = aget net.ep i
    · rw [hnp, aget_aset_same _ _ _ (by rw [h.inv.sizes.scale]; exact hp)]
    · rw [aget_aset_other _ _ _ _ hnp]; exact h.scale1 n hn
  · intro n hn
    rw [hkey, writeEnd_node]; exact h.node0 n hn
  · intro k hk
    rw [hkey]
    have : (writeEnd false i ⟨aget net.elik i, 0⟩ (aget net.ep i) proj 1 s).edge =
        aset s.edge i ⟨aget net.elik i, 0⟩ := rfl
    rw [this]
    by_cases hki : k = i
    · subst hki
      rw [aget_aset_same _ _ _ hesz]
      exact ⟨rfl, Or.inr rfl, fun _ => rfl⟩
    · rw [aget_aset_other _ _ _ _ hki]
      obtain ⟨a, b, c⟩ := h.rows k hk
      exact ⟨a, b, fun hv => by rcases hv with hv | hv; exact absurd hv hki; exact c hv⟩

theorem StarInv.mono (net : Net α) (s : State α) (N : Nat) (V W : Nat → Prop) (h : StarInv net s N V)
    (hVW : ∀ k, W k → V k) : StarInv net s N W :=
  ⟨h.inv, h.scale1, h.node0, fun k hk => let ⟨a, b, c⟩ := h.rows k hk; ⟨a, b, fun hw => c (hVW k hw)⟩⟩

/-- A sweep over any edge order visits the edges of the order. -/
theorem star_sweep (other : Req α → Res α) (cfg : Cfg α) (net : Net α) (N : Nat) (V : Nat → Prop)
    (order : List Nat) (s : State α) (hnet : StarNet net N) (hcfg : StarCfg cfg)
    (hcap : ∀ p, p < N → 1 + (likSum net p net.ep.size).1 ≤ cfg.maxShape)
    (h : StarInv net s N V) (hord : ∀ i ∈ order, i < net.ep.size) :
    StarInv net (sweep (starProj other) cfg net false order s) N (fun k => k ∈ order ∨ V k) := by
  unfold sweep
  induction order generalizing s V with
  | nil => exact StarInv.mono net s N V _ h (fun k hk => by simpa using hk)
  | cons i rest ih =>
    rw [List.foldl_cons]
    have h1 := star_step other cfg net N V s i hnet hcfg hcap h (hord i (List.mem_cons_self ..))
    have h2 := ih _ _ h1 (fun j hj => hord j (List.mem_cons_of_mem _ hj))
    refine StarInv.mono net _ N _ _ h2 ?_
    intro k hk
    rcases hk with hk | hk
    · rcases List.mem_cons.mp hk with hk | hk
      · exact Or.inr (Or.inl hk)
      · exact Or.inl hk
    · exact Or.inr (Or.inr hk)

/-- `_rescale_factors` on a star state changes nothing that matters (all scales are 1). -/
theorem star_rescaleFactors (net : Net α) (N : Nat) (V : Nat → Prop) (s : State α) (hnet : StarNet net N)
    (h : StarInv net s N V) : StarInv net (rescaleFactors net s) N V := by
  obtain ⟨hinv, _, hsc, _⟩ := rescaleFactors_spec net s N h.inv
  refine ⟨hinv, hsc, ?_, ?_⟩
  · intro n hn
    simp only [rescaleFactors]
    rw [aget_mapIdx _ _ _ (by rw [h.inv.sizes.node]; exact hn), h.scale1 n hn, message_one, message_one]
    exact h.node0 n hn
  · intro k hk
    obtain ⟨hp, hc⟩ := hnet.inRange k hk
    simp only [rescaleFactors]
    rw [aget_mapIdx _ _ _ (by rw [h.inv.sizes.edge]; exact hk), h.scale1 _ hp, h.scale1 _ hc,
      message_one, message_one]
    exact h.rows k hk

theorem star_init (net : Net α) (N : Nat) :
    StarInv net (initState N net.ep.size net.bj.size) N (fun _ => False) := by
  refine ⟨init_inv net N, ?_, ?_, ?_⟩
  · intro n hn; simp only [initState]; exact aget_replicate _ _ _ hn
  · intro n hn; simp only [initState]; rw [aget_replicate _ _ _ hn]; exact ⟨rfl, rfl⟩
  · intro k hk; simp only [initState]; rw [aget_replicate _ _ _ hk]
    exact ⟨rfl, Or.inl rfl, fun hf => absurd hf id⟩

/-- Schedule of a star run: no blocks to visit, no root regularisation, edge indices in range. -/
structure StarSched (net : Net α) (sch : Sched α) : Prop where
  noBlocks : sch.blockOrder = []
  noReg : sch.regularise = false
  inRange : ∀ i ∈ sch.edgeOrder, i < net.ep.size

theorem star_iterate (other : Req α → Res α) (cfg : Cfg α) (net : Net α) (sch : Sched α) (N : Nat)
    (V : Nat → Prop) (s : State α) (hnet : StarNet net N) (hcfg : StarCfg cfg) (hsch : StarSched net sch)
    (hcap : ∀ p, p < N → 1 + (likSum net p net.ep.size).1 ≤ cfg.maxShape) (h : StarInv net s N V) :
    StarInv net (iterate (starProj other) cfg net sch s) N (fun k => k ∈ sch.edgeOrder ∨ V k) := by
  unfold iterate
  simp only [hsch.noBlocks, hsch.noReg, sweep, List.foldl_nil, Bool.false_eq_true, if_false]
  exact star_rescaleFactors net N _ _ hnet
    (star_sweep other cfg net N V sch.edgeOrder s hnet hcfg hcap h hsch.inRange)

theorem star_iterateN (other : Req α → Res α) (cfg : Cfg α) (net : Net α) (sch : Sched α) (N : Nat)
    (hnet : StarNet net N) (hcfg : StarCfg cfg) (hsch : StarSched net sch)
    (hcap : ∀ p, p < N → 1 + (likSum net p net.ep.size).1 ≤ cfg.maxShape) (k : Nat) :
    StarInv net (iterateN (starProj other) cfg net sch (k + 1) (initState N net.ep.size net.bj.size)) N
      (fun j => j ∈ sch.edgeOrder) := by
  induction k with
  | zero =>
    have := star_iterate other cfg net sch N _ _ hnet hcfg hsch hcap (star_init net N)
    exact StarInv.mono net _ N _ _ this (fun j hj => Or.inl hj)
  | succ k ih =>
    rw [iterateN_succ]
    have := star_iterate other cfg net sch N _ _ hnet hcfg hsch hcap ih
    exact StarInv.mono net _ N _ _ this (fun j hj => Or.inl hj)

end Tsdate.EP
