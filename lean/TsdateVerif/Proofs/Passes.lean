/-
Lemmas about the ignore rule and the concrete linear-space passes (Model/Passes.lean),
used by Props/C11 and Props/C38.
-/
import Mathlib.Algebra.Order.Field.Basic
import Mathlib.Tactic.SplitIfs
import TsdateVerif.Model.Passes
import TsdateVerif.Proofs.Order

namespace Tsdate.Order
open Tsdate
set_option linter.unusedSectionVars false
set_option linter.unusedVariables false

section Ignore
variable {β : Type} [Inhabited β]

theorem withIgnore_comm (ops : PassOps β) (ign : Nat → Bool) (h : StepComm ops) :
    StepComm (withIgnore ops ign) := by
  intro e1 e2 x1 x2 v
  simp only [withIgnore]
  split_ifs
  · rfl
  · rfl
  · rfl
  · exact h e1 e2 x1 x2 v

/-- skipping the ignored edges inside the loop is folding over the list without them -/
theorem withIgnore_fold (ops : PassOps β) (ign : Nat → Bool) (look : Nat → β) (g : List DEdge)
    (a : β) :
    g.foldl (fun v e => (withIgnore ops ign).step e (look e.src) v) a
      = (g.filter (fun e => !ign e.src)).foldl (fun v e => ops.step e (look e.src) v) a := by
  induction g generalizing a with
  | nil => rfl
  | cons e g ih =>
    rw [List.foldl_cons, ih, List.filter_cons]
    by_cases h : ign e.src = true
    · simp [withIgnore, h]
    · have h' : ign e.src = false := by simpa using h
      simp [withIgnore, h']

theorem withIgnore_relabel (π σ : Nat → Nat) (n : Nat) (ops ops' : PassOps β)
    (ign ign' : Nat → Bool) (h : OpsRelabel π σ n ops ops')
    (hign : ∀ u, u < n → ign' (π u) = ign u) :
    OpsRelabel π σ n (withIgnore ops ign) (withIgnore ops' ign') := by
  refine ⟨h.init, ?_, h.finish, h.skip⟩
  intro e hs hd
  funext x v
  simp only [withIgnore]
  have h1 : (relabelE π σ e).src = π e.src := rfl
  rw [h1, hign _ hs, h.step e hs hd]

end Ignore

section Oldest
variable {α : Type} [LinearOrder α]

/-- the specified ignored set (the roots of greatest time) is carried along by a renumbering -/
theorem ignOldest_relabel (π : Nat → Nat) (hinj : Function.Injective π) (time time' : Nat → α)
    (roots roots' : List Nat) (htime : ∀ u, time' (π u) = time u)
    (hroots : ∀ v, v ∈ roots' ↔ v ∈ roots.map π) (p : Nat) :
    ignOldest time' roots' (π p) = ignOldest time roots p := by
  unfold ignOldest
  rw [Bool.eq_iff_iff]
  simp only [Bool.and_eq_true, List.contains_iff_mem, List.all_eq_true, Bool.not_eq_true',
    decide_eq_false_iff_not]
  constructor
  · rintro ⟨h1, h2⟩
    refine ⟨?_, ?_⟩
    · obtain ⟨q, hq, hqp⟩ := List.mem_map.mp ((hroots _).mp h1)
      rw [← hinj hqp]; exact hq
    · intro r hr
      have := h2 (π r) ((hroots _).mpr (List.mem_map.mpr ⟨r, hr, rfl⟩))
      rwa [htime, htime] at this
  · rintro ⟨h1, h2⟩
    refine ⟨(hroots _).mpr (List.mem_map.mpr ⟨p, h1, rfl⟩), ?_⟩
    intro r' hr'
    obtain ⟨r, hr, rfl⟩ := List.mem_map.mp ((hroots _).mp hr')
    rw [htime, htime]
    exact h2 r hr

/-- when the unique oldest root happens to have the highest id (msprime / tsinfer output) the
code's rule and the specified rule agree -/
theorem ignCode_eq_ignOldest (n : Nat) (time : Nat → α) (roots : List Nat)
    (hlast : n - 1 ∈ roots) (hold : ∀ r ∈ roots, r ≠ n - 1 → time r < time (n - 1)) (p : Nat) :
    ignCode n p = ignOldest time roots p := by
  unfold ignCode ignOldest
  rw [Bool.eq_iff_iff]
  simp only [beq_iff_eq, Bool.and_eq_true, List.contains_iff_mem, List.all_eq_true,
    Bool.not_eq_true', decide_eq_false_iff_not]
  constructor
  · rintro rfl
    refine ⟨hlast, ?_⟩
    intro r hr
    by_cases h : r = n - 1
    · rw [h]; exact lt_irrefl _
    · exact not_lt.mpr (le_of_lt (hold r hr h))
  · rintro ⟨h1, h2⟩
    by_contra hne
    exact h2 (n - 1) hlast (hold p h1 hne)

end Oldest

/-! ### the concrete passes: messages commute -/

section Concrete
variable {α : Type} [Inhabited α] [Field α] [LinearOrder α] [IsStrictOrderedRing α]

theorem vmul_right_comm (v a b : List α) : vmul (vmul v a) b = vmul (vmul v b) a := by
  unfold vmul
  induction v generalizing a b with
  | nil => simp
  | cons x v ih =>
    cases a with
    | nil => cases b <;> simp
    | cons y a =>
      cases b with
      | nil => simp
      | cons z b =>
        simp only [List.zipWith_cons_cons]
        rw [ih, mul_right_comm]

theorem insideOps_comm (d : GridData α) : StepComm (insideOps d) := by
  intro e1 e2 x1 x2 v
  simp only [insideOps]
  rw [vmul_right_comm]

theorem outsideOps_comm (d : GridData α) (ins : Nat → List α) (den : Nat → α) (std : Bool) :
    StepComm (outsideOps d ins den std) := by
  intro e1 e2 x1 x2 v
  simp only [outsideOps]
  rw [vmul_right_comm]

end Concrete

end Tsdate.Order
