/-
The two edges of a block are different edges (used by Props/C22 and, through it, to discharge the
"block edges distinct" hypothesis of Props/C23).

This needs one fact about the control of the sweep — an edge is inserted when the insertion pointer `a` passes
it, and the insertion index lists every edge once — so the induction principle here carries the pointer:
`sweep_inductionA` is `sweep_induction` for predicates `P a D` that may mention the insertion pointer.
-/
import TsdateVerif.Proofs.Blocks

namespace Tsdate.Blocks
set_option linter.unusedSectionVars false
set_option linter.unusedVariables false

section
variable {α : Type} [Inhabited α] [Sub α] [BEq α] [LT α] [DecidableLT α]

/-- A predicate on (insertion pointer, data) preserved by the three loop bodies; inserting the `a`-th edge of
the insertion index advances the pointer. -/
structure PreservedA (inp : EdgeInput α) (mi : Nat → Option Nat) (P : Nat → Data α → Prop) : Prop where
  rem : ∀ a D e left D', e < inp.child.size → P a D → removeEdge (edgeInd inp e) D e left = some D' → P a D'
  ins : ∀ a D left D', a < inp.child.size → P a D →
    insertEdge (edgeInd inp (aget inp.insOrder a)) D (aget inp.insOrder a) left = some D' → P (a + 1) D'
  onMut : ∀ a D m, P a D → P a (mutStep (mi m) D m)

theorem removeLoop_invA (inp : EdgeInput α) (mi : Nat → Option Nat) (P : Nat → Data α → Prop)
    (hP : PreservedA inp mi P) (hr : OrdersInRange inp) (left : α) (a : Nat) :
    ∀ fuel b D r, P a D → removeLoop inp left fuel b D = some r → P a r.2 := by
  intro fuel
  induction fuel with
  | zero => intro b D r _ h; simp [removeLoop] at h
  | succ n ih =>
    intro b D r hD h
    unfold removeLoop at h
    split_ifs at h with hc
    · cases hre : removeEdge (edgeInd inp (aget inp.remOrder b)) D (aget inp.remOrder b) left with
      | none => simp [hre] at h
      | some D' =>
        simp only [hre] at h
        exact ih _ _ _ (hP.rem _ _ _ _ _ (hr.1 b hc.1) hD hre) h
    · cases h; exact hD

theorem insertLoop_invA (inp : EdgeInput α) (mi : Nat → Option Nat) (P : Nat → Data α → Prop)
    (hP : PreservedA inp mi P) (left : α) :
    ∀ fuel a D r, P a D → insertLoop inp left fuel a D = some r → P r.1 r.2 := by
  intro fuel
  induction fuel with
  | zero => intro a D r _ h; simp [insertLoop] at h
  | succ n ih =>
    intro a D r hD h
    unfold insertLoop at h
    split_ifs at h with hc
    · cases hre : insertEdge (edgeInd inp (aget inp.insOrder a)) D (aget inp.insOrder a) left with
      | none => simp [hre] at h
      | some D' =>
        simp only [hre] at h
        exact ih _ _ _ (hP.ins _ _ _ _ hc.1 hD hre) h
    · cases h; exact hD

theorem mutLoop_invA (inp : EdgeInput α) (mutPos : Array α) (mi : Nat → Option Nat)
    (P : Nat → Data α → Prop) (hP : PreservedA inp mi P) (right : α) (a : Nat) :
    ∀ order D, P a D → P a (mutLoop mutPos mi right order D).2 := by
  intro order
  induction order with
  | nil => intro D hD; exact hD
  | cons m rest ih =>
    intro D hD
    unfold mutLoop
    split_ifs
    · exact ih _ (hP.onMut _ _ _ hD)
    · exact hD

theorem outer_invA (inp : EdgeInput α) (mutPos : Array α) (mi : Nat → Option Nat)
    (P : Nat → Data α → Prop) (hP : PreservedA inp mi P) (hr : OrdersInRange inp) :
    ∀ fuel a b order left D D', P a D → outer inp mutPos mi fuel a b order left D = some D' →
      ∃ a', P a' D' := by
  intro fuel
  induction fuel with
  | zero => intro a b order left D D' _ h; simp [outer] at h
  | succ n ih =>
    intro a b order left D D' hD h
    unfold outer at h
    split_ifs at h with hc
    · cases h1 : removeLoop inp left (inp.child.size + 1) b D with
      | none => simp [h1] at h
      | some r1 =>
        obtain ⟨b', D1⟩ := r1
        simp only [h1] at h
        cases h2 : insertLoop inp left (inp.child.size + 1) a D1 with
        | none => simp [h2] at h
        | some r2 =>
          obtain ⟨a', D2⟩ := r2
          simp only [h2] at h
          have hD1 : P a D1 := removeLoop_invA inp mi P hP hr left a _ _ _ _ hD h1
          have hD2 : P a' D2 := insertLoop_invA inp mi P hP left _ _ _ _ hD1 h2
          exact ih _ _ _ _ _ _ (mutLoop_invA inp mutPos mi P hP _ a' _ _ hD2) h
    · cases h; exact ⟨a, hD⟩

/-- **Induction principle of the sweep, with the insertion pointer.** -/
theorem sweep_inductionA (inp : EdgeInput α) (mutPos : Array α) (nMut : Nat) (mi : Nat → Option Nat) (zero : α)
    (P : Nat → Data α → Prop) (hP : PreservedA inp mi P) (hr : OrdersInRange inp)
    (h0 : P 0 (Data.init inp.unphased.size nMut)) {D : Data α}
    (h : sweepCore inp mutPos nMut mi zero = some D) : ∃ a, P a D :=
  outer_invA inp mutPos mi P hP hr _ _ _ _ _ _ _ h0 h

/-- The insertion index lists no edge twice (tskit: it is a permutation of the edge ids). -/
def InsertionInjective (inp : EdgeInput α) : Prop :=
  ∀ k k', k < inp.child.size → k' < inp.child.size → aget inp.insOrder k = aget inp.insOrder k' → k = k'

/-- Invariant D: live edges were inserted before the pointer; the two live edges of an individual differ;
the two edges of a flushed block differ. -/
structure InvD (inp : EdgeInput α) (a : Nat) (D : Data α) : Prop where
  before : ∀ i e, ((aget D.iedges i).1 = some e ∨ (aget D.iedges i).2 = some e) →
    ∃ k, k < a ∧ k < inp.child.size ∧ aget inp.insOrder k = e
  pair : ∀ i e, (aget D.iedges i).1 = some e → (aget D.iedges i).2 ≠ some e
  fl : ∀ f ∈ D.flushed, f.e0 ≠ f.e1

theorem invD_init (inp : EdgeInput α) (n m : Nat) : InvD inp 0 (Data.init n m : Data α) := by
  have hrep : ∀ i, aget (Array.replicate n ((none : Option Nat), (none : Option Nat))) i = (none, none) := by
    intro i
    simp only [aget]
    by_cases hi : i < n
    · simp [hi]
    · simp [hi]; rfl
  constructor
  · intro i e h; simp [Data.init, hrep] at h
  · intro i e h; simp [Data.init, hrep] at h
  · intro f hf; simp [Data.init] at hf

theorem invD_preserved (inp : EdgeInput α) (mi : Nat → Option Nat) (hinj : InsertionInjective inp) :
    PreservedA inp mi (InvD inp) := by
  constructor
  · -- removeEdge
    intro a D e left D' he hD h
    cases hi : edgeInd inp e with
    | none => rw [hi] at h; simp [removeEdge] at h; subst h; exact hD
    | some i =>
      rw [hi] at h
      obtain ⟨hg, h | ⟨s', hs'', h⟩⟩ := removeEdge_some_strong h
      · subst h
        refine ⟨?_, ?_, hD.fl⟩
        · intro i' e' h'
          simp only [aget_aset_ite] at h'
          split_ifs at h' with hc
          · simp at h'
          · exact hD.before _ _ h'
        · intro i' e' h'
          by_cases hc : i' = i ∧ i < D.iedges.size
          · rw [aget_aset_pos _ hc] at h'; simp at h'
          · rw [aget_aset_neg _ hc] at h' ⊢; exact hD.pair _ _ h'
      · -- flush: the surviving entry differs from the removed edge
        have hne : e ≠ s' := by
          intro hes
          subst hes
          rcases hs'' with ⟨hv, hu⟩ | ⟨hv, hv'⟩
          · exact hD.pair i e hu hv
          · exact hv hv'
        have hs' : (aget D.iedges i).1 = some s' ∨ (aget D.iedges i).2 = some s' := by
          rcases hs'' with ⟨_, h3⟩ | ⟨_, h3⟩
          · exact Or.inl h3
          · exact Or.inr h3
        subst h
        refine ⟨?_, ?_, ?_⟩
        · intro i' e' h'
          simp only [aget_aset_ite] at h'
          split_ifs at h' with hc
          · simp at h'
            subst h'
            exact hD.before _ _ hs'
          · exact hD.before _ _ h'
        · intro i' e' h'
          by_cases hc : i' = i ∧ i < D.iedges.size
          · rw [aget_aset_pos _ hc]; simp
          · rw [aget_aset_neg _ hc] at h' ⊢; exact hD.pair _ _ h'
        · intro f hf
          simp only [List.mem_append, List.mem_singleton] at hf
          rcases hf with hf | hf
          · exact hD.fl f hf
          · subst hf; exact hne
  · -- insertEdge
    intro a D left D' ha hD h
    cases hi : edgeInd inp (aget inp.insOrder a) with
    | none =>
      rw [hi] at h; simp [insertEdge] at h; subst h
      exact ⟨fun i e h' => by
        obtain ⟨k, hk, hk2, hk3⟩ := hD.before i e h'
        exact ⟨k, Nat.lt_succ_of_lt hk, hk2, hk3⟩, hD.pair, hD.fl⟩
    | some i =>
      rw [hi] at h
      have hfresh : omax (aget D.iedges i).1 (aget D.iedges i).2 ≠ some (aget inp.insOrder a) := by
        intro hom
        obtain ⟨hg, _⟩ := insertEdge_some h
        obtain ⟨k, hk, hk2, hk3⟩ := hD.before i _ (omax_mem hg hom)
        have := hinj k a hk2 ha hk3
        omega
      obtain ⟨hg, ⟨_, h⟩ | ⟨_, h⟩⟩ := insertEdge_some h <;>
      · subst h
        refine ⟨?_, ?_, hD.fl⟩
        · intro i' e' h'
          simp only [aget_aset_ite] at h'
          split_ifs at h' with hc
          · rcases h' with h' | h'
            · simp at h'; subst h'; exact ⟨a, Nat.lt_succ_self a, ha, rfl⟩
            · obtain ⟨k, hk, hk2, hk3⟩ := hD.before i e' (omax_mem hg h')
              exact ⟨k, Nat.lt_succ_of_lt hk, hk2, hk3⟩
          · obtain ⟨k, hk, hk2, hk3⟩ := hD.before i' e' h'
            exact ⟨k, Nat.lt_succ_of_lt hk, hk2, hk3⟩
        · intro i' e' h'
          by_cases hc : i' = i ∧ i < D.iedges.size
          · rw [aget_aset_pos _ hc] at h' ⊢
            simp at h'; subst h'; exact hfresh
          · rw [aget_aset_neg _ hc] at h' ⊢; exact hD.pair _ _ h'
  · -- mutStep
    intro a D m hD
    cases hm : mi m with
    | none => simp [mutStep]; exact hD
    | some i => exact ⟨hD.before, hD.pair, hD.fl⟩

/-- The two edges of every row of `blocks_edges` are different edges. -/
theorem blockSingletons_edges_distinct {inp : Input α} {zero : α} {out : Output α}
    (h : blockSingletons inp zero = some out) (hinj : InsertionInjective inp.toEdgeInput) :
    ∀ (b e0 e1 : Nat), out.edges[b]? = some (e0, e1) → e0 ≠ e1 := by
  obtain ⟨hwf, D, hs, hf⟩ := blockSingletons_some h
  obtain ⟨a, hD⟩ := sweep_inductionA inp.toEdgeInput inp.mutPos inp.mutNode.size (mutInd inp) zero _
    (invD_preserved _ _ hinj) (wellFormed_orders hwf) (invD_init _ _ _) hs
  intro b e0 e1 hb
  obtain ⟨_, _, _, hrow⟩ := finish_spec hf
  obtain ⟨f, hmem, _, h0, h1⟩ := hrow b e0 e1 hb
  rw [← h0, ← h1]
  exact hD.fl f hmem

end

end Tsdate.Blocks
