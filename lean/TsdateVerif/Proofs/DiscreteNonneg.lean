/-
Non-negativity of the inside rows from non-negative inputs and positive denominators
(discharges a hypothesis of `posterior_exact`).
-/
import Mathlib.Algebra.Order.BigOperators.Group.List
import Mathlib.Algebra.Order.BigOperators.Ring.List
import TsdateVerif.Proofs.DiscretePosterior2

namespace Tsdate.Discrete
open Tsdate

section
variable {α : Type} [Field α] [LinearOrder α] [IsStrictOrderedRing α]
variable (G : Nat) (fixed : Nat → Bool) (prior : Nat → Nat → α) (L : DEdge → Nat → Nat → α)
  (I : Nat → Nat → α) (d : Nat → α)

theorem list_prod_nonneg' : ∀ l : List α, (∀ x ∈ l, 0 ≤ x) → 0 ≤ l.prod
  | [], _ => by simp
  | x :: l, h => by
    rw [List.prod_cons]
    exact mul_nonneg (h x (List.mem_cons_self ..))
      (list_prod_nonneg' l (fun y hy => h y (List.mem_cons_of_mem _ hy)))

/-- rows of the groups of `A` are non-negative below the grid size -/
def RowsNonneg (A : List (Nat × List DEdge)) : Prop := ∀ g ∈ A, ∀ b, b < G → 0 ≤ I g.1 b

theorem inside_nonneg_aux :
    ∀ (B A : List (Nat × List DEdge)), TreeOK G fixed prior L I d (A ++ B) →
      (∀ g ∈ A ++ B, 0 < d g.1) →
      (∀ g ∈ A ++ B, ∀ t, t < G → 0 ≤ prior g.1 t) →
      (∀ e ∈ (A ++ B).flatMap (·.2), ∀ a b, a < G → b ≤ a → 0 ≤ L e a b) →
      (∀ e ∈ (A ++ B).flatMap (·.2), fixed e.c = true ∨ e.c ∈ (A ++ B).map (·.1)) →
      RowsNonneg G I A → RowsNonneg G I (A ++ B)
  | [], A, _, _, _, _, _, hA => by simpa using hA
  | g :: B, A, htree, hd, hp, hL, hlive, hA => by
    have hassoc : A ++ g :: B = (A ++ [g]) ++ B := by simp
    have hsuf := TreeOK.suffix G fixed prior L I d A (g :: B) htree
    have hgmem : g ∈ A ++ g :: B := by simp
    -- the row of `g`
    have hg : ∀ b, b < G → 0 ≤ I g.1 b := by
      intro b hb
      have heq := hsuf.1.eq b hb
      have hdg := hd g hgmem
      have hprod : 0 ≤ (g.2.map (fun e => smsg fixed L I e b)).prod := by
        apply list_prod_nonneg'
        intro x hx
        obtain ⟨e, he, rfl⟩ := List.mem_map.mp hx
        have hemem : e ∈ (A ++ g :: B).flatMap (·.2) := List.mem_flatMap.mpr ⟨g, hgmem, he⟩
        unfold smsg
        split_ifs with hf
        · exact hL e hemem b 0 hb (Nat.zero_le _)
        · apply List.sum_nonneg
          intro y hy
          obtain ⟨s, hs, rfl⟩ := List.mem_map.mp hy
          have hs' := List.mem_range.mp hs
          -- the child is a parent that is neither `g` nor later, hence in `A`
          have hcA : e.c ∈ A.map (·.1) := by
            have h1 := (hlive e hemem).elim (fun h' => absurd h' hf) id
            have h2 := (hsuf.1.es_c e he).elim (fun h' => absurd h' hf) id
            simp only [List.map_append, List.map_cons, List.mem_append, List.mem_cons] at h1
            rcases h1 with h1 | h1 | h1
            · exact h1
            · exact absurd h1 h2.1
            · exact absurd h1 h2.2
          obtain ⟨gc, hgc, hgce⟩ := List.mem_map.mp hcA
          exact mul_nonneg (hgce ▸ hA gc hgc s (by omega)) (hL e hemem b s hb (by omega))
      have hnum : 0 ≤ d g.1 * I g.1 b := by
        rw [← heq]; exact mul_nonneg (hp g hgmem b hb) hprod
      exact nonneg_of_mul_nonneg_right hnum hdg
    have hA' : RowsNonneg G I (A ++ [g]) := by
      intro g' hg' b hb
      rcases List.mem_append.mp hg' with h | h
      · exact hA g' h b hb
      · simp only [List.mem_singleton] at h; rw [h]; exact hg b hb
    rw [hassoc] at htree hd hp hL hlive ⊢
    exact inside_nonneg_aux B (A ++ [g]) htree hd hp hL hlive hA'

/-- **Inside rows are non-negative** when priors and tables are and the denominators are positive. -/
theorem inside_nonneg (gs : List (Nat × List DEdge)) (htree : TreeOK G fixed prior L I d gs)
    (hd : ∀ g ∈ gs, 0 < d g.1) (hp : ∀ g ∈ gs, ∀ t, t < G → 0 ≤ prior g.1 t)
    (hL : ∀ e ∈ gs.flatMap (·.2), ∀ a b, a < G → b ≤ a → 0 ≤ L e a b)
    (hlive : ∀ e ∈ gs.flatMap (·.2), fixed e.c = true ∨ e.c ∈ gs.map (·.1)) :
    ∀ g ∈ gs, ∀ b, b < G → 0 ≤ I g.1 b := by
  have := inside_nonneg_aux G fixed prior L I d gs [] (by simpa using htree) (by simpa using hd)
    (by simpa using hp) (by simpa using hL) (by simpa using hlive) (fun g hg => by cases hg)
  simpa [RowsNonneg] using this

end
end Tsdate.Discrete
