/-
Variable elimination on a tree: the heart of `inside_marginal` (C10).

Abstract setting over a commutative semiring: functions `I` (normalised inside values) and `d`
(denominators) that satisfy, for every parent group `(u, es)`, the recursive equation
`prior u t * Π_{e ∈ es} smsg I e t = d u * I u t`.  Eliminating the groups in processing order turns
the exhaustive sum over all assignments into `Π d * Σ_t I root t`.
-/
import Mathlib.Algebra.BigOperators.Group.List.Basic
import Mathlib.Algebra.Ring.Defs
import Mathlib.Tactic.Ring
import Mathlib.Tactic.SplitIfs
import Mathlib.Data.List.Basic
import TsdateVerif.Spec.BruteForce

namespace Tsdate.Discrete
open Tsdate

section
variable {α : Type} [CommSemiring α]

/-! ### Sums over a grid and over assignments (Mathlib `List.sum` versions) -/

/-- `Σ_{t<G} f t` -/
def sumR (G : Nat) (f : Nat → α) : α := ((List.range G).map f).sum

theorem sumR_succ (n : Nat) (f : Nat → α) : sumR (n + 1) f = sumR n f + f n := by
  simp [sumR, List.range_succ]

theorem sumR_congr (G : Nat) (f g : Nat → α) (h : ∀ t, t < G → f t = g t) : sumR G f = sumR G g := by
  unfold sumR
  congr 1
  apply List.map_congr_left
  intro t ht
  exact h t (List.mem_range.mp ht)

theorem sumR_mul_left (G : Nat) (c : α) (f : Nat → α) : sumR G (fun t => c * f t) = c * sumR G f := by
  induction G with
  | zero => simp [sumR]
  | succ n ih => rw [sumR_succ, sumR_succ, ih]; ring

theorem sumR_add (G : Nat) (f g : Nat → α) : sumR G (fun t => f t + g t) = sumR G f + sumR G g := by
  induction G with
  | zero => simp [sumR]
  | succ n ih => rw [sumR_succ, sumR_succ, sumR_succ, ih]; ring

theorem sumR_zero (G : Nat) : sumR G (fun _ => (0 : α)) = 0 := by
  induction G with
  | zero => simp [sumR]
  | succ n ih => rw [sumR_succ, ih]; ring

theorem sumR_comm (G H : Nat) (f : Nat → Nat → α) :
    sumR G (fun t => sumR H (fun s => f t s)) = sumR H (fun s => sumR G (fun t => f t s)) := by
  induction G with
  | zero => simp [sumR]
  | succ n ih =>
    rw [sumR_succ, ih]
    have : (fun s => sumR (n + 1) (fun t => f t s)) = (fun s => sumR n (fun t => f t s) + f n s) := by
      funext s; rw [sumR_succ]
    rw [this, sumR_add]

/-- `Σ_{t<G} [t ≤ a] h t = Σ_{t ≤ a} h t` for `a < G`. -/
theorem sumR_indicator (G a : Nat) (ha : a < G) (h : Nat → α) :
    sumR G (fun t => if t ≤ a then h t else 0) = ((List.range (a + 1)).map h).sum := by
  have key : ∀ n, a + 1 ≤ n → sumR n (fun t => if t ≤ a then h t else 0) = sumR (a + 1) h := by
    intro n hn
    induction n, hn using Nat.le_induction with
    | base =>
      apply sumR_congr
      intro t ht
      rw [if_pos (by omega)]
    | succ n hn ih =>
      rw [sumR_succ, ih, if_neg (by omega), add_zero]
  exact key G ha

/-- Sum of `F` over all assignments of `{0,…,G-1}` to the listed nodes. -/
def sumA (G : Nat) : List Nat → (Nat → Nat) → ((Nat → Nat) → α) → α
  | [], x, F => F x
  | u :: us, x, F => sumR G (fun t => sumA G us (upd x u t) F)

theorem upd_comm (x : Nat → Nat) (u v s t : Nat) (h : u ≠ v) :
    upd (upd x u t) v s = upd (upd x v s) u t := by
  funext w
  unfold upd
  by_cases h1 : w = v
  · by_cases h2 : w = u
    · exact absurd (h2.symm.trans h1) h
    · simp [h1, h2, Ne.symm h]
  · by_cases h2 : w = u
    · simp [h2, h]
    · simp [h1, h2]

theorem sumA_upd_comm (G : Nat) (P : List Nat) (x : Nat → Nat) (u t : Nat) (hu : u ∉ P)
    (F : (Nat → Nat) → α) :
    sumA G P (upd x u t) F = sumA G P x (fun y => F (upd y u t)) := by
  induction P generalizing x with
  | nil => rfl
  | cons v vs ih =>
    simp only [sumA]
    apply sumR_congr
    intro s _
    have hne : u ≠ v := fun h => hu (h ▸ List.mem_cons_self ..)
    rw [upd_comm x u v s t hne]
    exact ih (upd x v s) (fun h => hu (List.mem_cons_of_mem _ h))

theorem sumA_sumR_comm (G H : Nat) (P : List Nat) (x : Nat → Nat) (F : Nat → (Nat → Nat) → α) :
    sumR H (fun t => sumA G P x (F t)) = sumA G P x (fun y => sumR H (fun t => F t y)) := by
  induction P generalizing x with
  | nil => rfl
  | cons v vs ih =>
    simp only [sumA]
    rw [sumR_comm]
    apply sumR_congr
    intro s _
    exact ih (upd x v s)

theorem sumA_mul_left (G : Nat) (P : List Nat) (x : Nat → Nat) (c : α) (F : (Nat → Nat) → α) :
    sumA G P x (fun y => c * F y) = c * sumA G P x F := by
  induction P generalizing x with
  | nil => rfl
  | cons v vs ih =>
    simp only [sumA]
    rw [← sumR_mul_left]
    apply sumR_congr
    intro s _
    exact ih (upd x v s)

/-- Congruence: the summand is only evaluated at assignments that are `< G` on the listed nodes
(and on any node where the base assignment already was). -/
theorem sumA_congr (G : Nat) (P : List Nat) (x : Nat → Nat) (B : Nat → Prop)
    (hB : ∀ v, B v → x v < G) (F F' : (Nat → Nat) → α)
    (h : ∀ y, (∀ v, v ∈ P ∨ B v → y v < G) → F y = F' y) :
    sumA G P x F = sumA G P x F' := by
  induction P generalizing x B with
  | nil => exact h x (fun v hv => hv.elim (fun h' => by cases h') (hB v))
  | cons u us ih =>
    simp only [sumA]
    apply sumR_congr
    intro t ht
    apply ih (upd x u t) (fun v => B v ∨ v = u)
    · intro v hv
      unfold upd
      by_cases hvu : v = u
      · simp [hvu, ht]
      · rw [if_neg hvu]
        rcases hv with hv | hv
        · exact hB v hv
        · exact absurd hv hvu
    · intro y hy
      apply h y
      intro v hv
      apply hy v
      rcases hv with hv | hv
      · rcases List.mem_cons.mp hv with rfl | hv'
        · exact Or.inr (Or.inr rfl)
        · exact Or.inl hv'
      · exact Or.inr (Or.inl hv)

/-! ### Messages and partially eliminated weights -/

variable (fixed : Nat → Bool) (prior : Nat → Nat → α) (L : DEdge → Nat → Nat → α)

/-- The inside message of edge `e` at parent index `a`, computed from inside values `I`. -/
def smsg (I : Nat → Nat → α) (e : DEdge) (a : Nat) : α :=
  if fixed e.c then L e a 0 else ((List.range (a + 1)).map (fun b => I e.c b * L e a b)).sum

/-- Factor of edge `e` when the nodes in `live` are still summation variables and every other
non-fixed child has been summarised into its message. -/
def mfac (live : List Nat) (I : Nat → Nat → α) (x : Nat → Nat) (e : DEdge) : α :=
  if fixed e.c then L e (x e.p) 0
  else if e.c ∈ live then (if x e.c ≤ x e.p then L e (x e.p) (x e.c) else 0)
  else smsg fixed L I e (x e.p)

/-- Weight of the remaining groups. -/
def Wt (live : List Nat) (I : Nat → Nat → α) (gs : List (Nat × List DEdge)) (x : Nat → Nat) : α :=
  (gs.map (fun g => prior g.1 (x g.1))).prod * ((gs.flatMap (·.2)).map (mfac fixed L live I x)).prod

theorem mfac_upd_other (P : List Nat) (I : Nat → Nat → α) (y : Nat → Nat) (u t : Nat) (e : DEdge)
    (hp : e.p ≠ u) (hc : fixed e.c = true ∨ e.c ≠ u) :
    mfac fixed L (u :: P) I (upd y u t) e = mfac fixed L P I y e := by
  unfold mfac
  have h1 : upd y u t e.p = y e.p := by unfold upd; rw [if_neg hp]
  rw [h1]
  by_cases hf : fixed e.c = true
  · rw [if_pos hf, if_pos hf]
  · rw [if_neg hf, if_neg hf]
    have hcu : e.c ≠ u := hc.elim (fun h' => absurd h' hf) id
    have h2 : upd y u t e.c = y e.c := by unfold upd; rw [if_neg hcu]
    have h3 : (e.c ∈ u :: P) ↔ e.c ∈ P := by simp [hcu]
    rw [h2]
    by_cases hm : e.c ∈ P
    · rw [if_pos hm, if_pos (h3.mpr hm)]
    · rw [if_neg hm, if_neg (fun h => hm (h3.mp h))]

theorem mfac_upd_star (P : List Nat) (I : Nat → Nat → α) (y : Nat → Nat) (u t : Nat) (e : DEdge)
    (hp : e.p ≠ u) (hc : e.c = u) (hf : fixed u = false) :
    mfac fixed L (u :: P) I (upd y u t) e = if t ≤ y e.p then L e (y e.p) t else 0 := by
  unfold mfac
  have h1 : upd y u t e.p = y e.p := by unfold upd; rw [if_neg hp]
  have h2 : upd y u t e.c = t := by unfold upd; rw [if_pos hc]
  rw [h1, h2, hc, if_neg (by simp [hf]), if_pos (List.mem_cons_self ..)]

theorem mfac_dead (P : List Nat) (I : Nat → Nat → α) (y : Nat → Nat) (e : DEdge)
    (hc : fixed e.c = true ∨ e.c ∉ P) : mfac fixed L P I y e = smsg fixed L I e (y e.p) := by
  unfold mfac smsg
  by_cases hf : fixed e.c = true
  · rw [if_pos hf, if_pos hf]
  · rw [if_neg hf, if_neg hf]
    have : e.c ∉ P := hc.elim (fun h' => absurd h' hf) id
    rw [if_neg this]

/-! ### One elimination step -/

theorem elim_step (G : Nat) (I : Nat → Nat → α) (d : Nat → α) (u : Nat) (es : List DEdge)
    (rest : List (Nat × List DEdge)) (l1 l2 : List DEdge) (estar : DEdge)
    (hflat : rest.flatMap (·.2) = l1 ++ estar :: l2)
    (hstar : estar.c = u) (hufix : fixed u = false)
    (hstarp : estar.p ∈ rest.map (·.1))
    (hl : ∀ e ∈ l1 ++ l2, fixed e.c = true ∨ e.c ≠ u)
    (hp : ∀ e ∈ l1 ++ estar :: l2, e.p ≠ u)
    (hu : u ∉ rest.map (·.1))
    (hes_p : ∀ e ∈ es, e.p = u)
    (hes_c : ∀ e ∈ es, fixed e.c = true ∨ (e.c ≠ u ∧ e.c ∉ rest.map (·.1)))
    (heq : ∀ t, t < G → prior u t * (es.map (fun e => smsg fixed L I e t)).prod = d u * I u t)
    (x0 : Nat → Nat) :
    sumA G (u :: rest.map (·.1)) x0 (Wt fixed prior L (u :: rest.map (·.1)) I ((u, es) :: rest))
      = d u * sumA G (rest.map (·.1)) x0 (Wt fixed prior L (rest.map (·.1)) I rest) := by
  set P := rest.map (·.1) with hP
  show sumR G (fun t => sumA G P (upd x0 u t) (Wt fixed prior L (u :: P) I ((u, es) :: rest))) = _
  have e1 : ∀ t, sumA G P (upd x0 u t) (Wt fixed prior L (u :: P) I ((u, es) :: rest))
      = sumA G P x0 (fun y => Wt fixed prior L (u :: P) I ((u, es) :: rest) (upd y u t)) :=
    fun t => sumA_upd_comm G P x0 u t hu _
  simp only [e1]
  rw [sumA_sumR_comm, ← sumA_mul_left]
  apply sumA_congr G P x0 (fun _ => False) (fun _ h => h.elim)
  intro y hy
  -- pointwise in the remaining assignment `y`
  have hya : y estar.p < G := hy _ (Or.inl hstarp)
  set a := y estar.p with ha
  set R := (rest.map (fun g => prior g.1 (y g.1))).prod with hR
  set A := (l1.map (mfac fixed L P I y)).prod with hA
  set Bv := (l2.map (mfac fixed L P I y)).prod with hBv
  -- the weight of the remaining groups
  have hW' : Wt fixed prior L P I rest y = R * (A * smsg fixed L I estar a * Bv) := by
    unfold Wt
    rw [hflat, List.map_append, List.prod_append, List.map_cons, List.prod_cons,
      mfac_dead fixed L P I y estar (Or.inr (hstar ▸ hu))]
    ring
  -- the weight before elimination, at `y[u := t]`
  have hW : ∀ t, Wt fixed prior L (u :: P) I ((u, es) :: rest) (upd y u t)
      = (prior u t * (es.map (fun e => smsg fixed L I e t)).prod)
        * (R * (A * (if t ≤ a then L estar a t else 0) * Bv)) := by
    intro t
    unfold Wt
    have hpri : (((u, es) :: rest).map (fun g => prior g.1 (upd y u t g.1))).prod = prior u t * R := by
      rw [List.map_cons, List.prod_cons]
      have h1 : upd y u t u = t := by unfold upd; rw [if_pos rfl]
      have h2 : rest.map (fun g => prior g.1 (upd y u t g.1)) = rest.map (fun g => prior g.1 (y g.1)) := by
        apply List.map_congr_left
        intro g hg
        have : g.1 ≠ u := fun h => hu (h ▸ List.mem_map_of_mem hg)
        show prior g.1 (upd y u t g.1) = prior g.1 (y g.1)
        unfold upd; rw [if_neg this]
      show prior u (upd y u t u) * _ = _
      rw [h1, h2]
    have hes : (es.map (mfac fixed L (u :: P) I (upd y u t))).prod
        = (es.map (fun e => smsg fixed L I e t)).prod := by
      congr 1
      apply List.map_congr_left
      intro e he
      have hdead : fixed e.c = true ∨ e.c ∉ u :: P := by
        rcases hes_c e he with h | h
        · exact Or.inl h
        · exact Or.inr (by simp [h.1, h.2])
      rw [mfac_dead fixed L (u :: P) I _ e hdead, hes_p e he]
      have : upd y u t u = t := by unfold upd; rw [if_pos rfl]
      rw [this]
    have hl1 : (l1.map (mfac fixed L (u :: P) I (upd y u t))) = l1.map (mfac fixed L P I y) := by
      apply List.map_congr_left
      intro e he
      exact mfac_upd_other fixed L P I y u t e (hp e (List.mem_append_left _ he))
        (hl e (List.mem_append_left _ he))
    have hl2 : (l2.map (mfac fixed L (u :: P) I (upd y u t))) = l2.map (mfac fixed L P I y) := by
      apply List.map_congr_left
      intro e he
      exact mfac_upd_other fixed L P I y u t e
        (hp e (List.mem_append_right _ (List.mem_cons_of_mem _ he)))
        (hl e (List.mem_append_right _ he))
    have hst := mfac_upd_star fixed L P I y u t estar
      (hp estar (List.mem_append_right _ (List.mem_cons_self ..))) hstar hufix
    rw [hpri, List.flatMap_cons, List.map_append, List.prod_append, hes, hflat, List.map_append,
      List.prod_append, List.map_cons, List.prod_cons, hl1, hl2, hst]
    ring
  simp only [hW]
  rw [hW']
  -- use the recursive equation, pull constants out, collapse the indicator
  have hterm : ∀ t, t < G →
      (prior u t * (es.map (fun e => smsg fixed L I e t)).prod)
        * (R * (A * (if t ≤ a then L estar a t else 0) * Bv))
      = (d u * (R * A * Bv)) * (if t ≤ a then I u t * L estar a t else 0) := by
    intro t ht
    rw [heq t ht]
    by_cases hta : t ≤ a
    · rw [if_pos hta, if_pos hta]; ring
    · rw [if_neg hta, if_neg hta]; ring
  rw [sumR_congr G _ _ hterm, sumR_mul_left, sumR_indicator G a hya]
  have hs : smsg fixed L I estar a = ((List.range (a + 1)).map (fun b => I u b * L estar a b)).sum := by
    unfold smsg
    rw [hstar, if_neg (by simp [hufix])]
  rw [hs]
  ring

end

end Tsdate.Discrete
