/-
The phase-1 invariant of `_split_disjoint_nodes` is preserved by one inner-loop step (`inv_step`),
hence holds after every prefix of a sorted event list (`inv_prefix`).
-/
import Mathlib.Data.List.Induction
import TsdateVerif.Proofs.SplitPhase1

namespace Tsdate.Split
set_option linter.unusedSectionVars false
set_option linter.unusedVariables false

variable {α : Type} [Inhabited α] [LinearOrder α]

/-- Facts about the value `s = newSeg a ev` written by a step on a non-excluded node. -/
structure StepFacts (P : List (Ev α)) (a : ASt α) (ev : Ev α) : Prop where
  sNonneg : 0 ≤ newSeg a ev
  sGe : a.seg ev.node ≤ newSeg a ev
  oldLt : ∀ ev0 ∈ P, ev0.node = ev.node → a.lab ev0.key < newSeg a ev → ev0.right < ev.left
  sameLab : ∀ ev0 ∈ P, ev0.node = ev.node → a.lab ev0.key = newSeg a ev →
    ∃ r, a.right ev.node = some r ∧ ev.left ≤ r
  zero : a.right ev.node = none → newSeg a ev = 0

theorem stepFacts {excl : Nat → Bool} {N E : Nat} {P : List (Ev α)} {a : ASt α} {ev : Ev α}
    (h : Inv excl N E P a) (hx : excl ev.node = false)
    (hsorted : ∀ ev0 ∈ P, ev0.left ≤ ev.left) (hn : ev.node < N) : StepFacts P a ev := by
  cases hr : a.right ev.node with
  | none =>
    have hs : newSeg a ev = 0 := by
      simp [newSeg, hr, gtRight, h.segNone _ hn hr]
    have hno : ∀ ev0 ∈ P, ev0.node = ev.node → False := by
      intro ev0 h0 hnode
      obtain ⟨r, hr0, _⟩ := h.rightBd ev0 h0 (by rw [hnode]; exact hx)
      rw [hnode, hr] at hr0; cases hr0
    refine ⟨by rw [hs], by rw [hs, h.segNone _ hn hr]; decide, ?_, ?_, fun _ => hs⟩
    · intro ev0 h0 hnode; exact (hno ev0 h0 hnode).elim
    · intro ev0 h0 hnode; exact (hno ev0 h0 hnode).elim
  | some r =>
    have hseg := h.segSome _ _ hr
    by_cases hgt : r < ev.left
    · have hs : newSeg a ev = a.seg ev.node + 1 := by simp [newSeg, hr, gtRight, hgt]
      refine ⟨by rw [hs]; omega, by rw [hs]; omega, ?_, ?_, fun h' => absurd (hr.symm.trans h') (by simp)⟩
      · intro ev0 h0 hnode _
        obtain ⟨r0, hr0, hle⟩ := h.rightBd ev0 h0 (by rw [hnode]; exact hx)
        rw [hnode, hr] at hr0; cases hr0
        exact lt_of_le_of_lt hle hgt
      · intro ev0 h0 hnode hl
        have := (h.labRange ev0 h0 (by rw [hnode]; exact hx)).2
        rw [hnode] at this; omega
    · have hs : newSeg a ev = a.seg ev.node := by simp [newSeg, hr, gtRight, hgt]
      refine ⟨by rw [hs]; exact hseg, by rw [hs], ?_, ?_, fun h' => absurd (hr.symm.trans h') (by simp)⟩
      · intro ev0 h0 hnode hl
        obtain ⟨ev1, h1, hn1, hl1⟩ := h.curAtt _ _ hr
        rw [hs, ← hl1] at hl
        have := h.sep ev0 h0 ev1 h1 (by rw [hnode, hn1]) (by rw [hnode]; exact hx) hl
        exact lt_of_lt_of_le this (hsorted ev1 h1)
      · intro ev0 h0 hnode hl
        exact ⟨r, hr, le_of_not_gt hgt⟩

theorem inv_step {excl : Nat → Bool} {N E : Nat} {P : List (Ev α)} {a : ASt α} {ev : Ev α}
    (h : Inv excl N E P a)
    (hsorted : ∀ ev0 ∈ P, ev0.left ≤ ev.left)
    (hkeys : ∀ ev0 ∈ P, ev0.key ≠ ev.key)
    (hn : ev.node < N) (he : ev.e < E) (hpos : ev.left < ev.right) :
    Inv excl N E (P ++ [ev]) (astep excl a ev) := by
  by_cases hx : excl ev.node = true
  · -- excluded node: nothing changes
    rw [astep_excl hx]
    have mem : ∀ {x : Ev α}, x ∈ P → x ∈ P ++ [ev] := fun hx => List.mem_append_left _ hx
    have split : ∀ {x : Ev α}, x ∈ P ++ [ev] → excl x.node = false → x ∈ P := by
      intro x hx' hxe
      rcases List.mem_append.mp hx' with h1 | h1
      · exact h1
      · rw [List.mem_singleton] at h1; subst h1; rw [hx] at hxe; cases hxe
    refine ⟨h.segNone, h.segSome, ?_, ?_, ?_, ?_, ?_, ?_, ?_, ?_⟩
    · intro n r hr
      obtain ⟨e1, h1, h2⟩ := h.rightAtt n r hr
      exact ⟨e1, mem h1, h2⟩
    · intro e1 h1 hxe; exact h.rightBd e1 (split h1 hxe) hxe
    · intro e1 h1 hxe; exact h.labRange e1 (split h1 hxe) hxe
    · intro n r hr
      obtain ⟨e1, h1, h2⟩ := h.curAtt n r hr
      exact ⟨e1, mem h1, h2⟩
    · intro n r hr
      obtain ⟨e1, h1, h2⟩ := h.zeroAtt n r hr
      exact ⟨e1, mem h1, h2⟩
    · intro e1 h1 e2 h2 hnode hxe hl
      exact h.sep e1 (split h1 hxe) e2 (split h2 (by rw [← hnode]; exact hxe)) hnode hxe hl
    · intro e1 h1 e2 h2 hnode hxe hl y hy1 hy2
      obtain ⟨e3, h3, h4⟩ := h.convex e1 (split h1 hxe) e2 (split h2 (by rw [← hnode]; exact hxe))
        hnode hxe hl y hy1 hy2
      exact ⟨e3, mem h3, h4⟩
    · intro k hk hall
      exact h.other k hk (fun e1 h1 hk1 => hall e1 (mem h1) hk1)
  · have hx : excl ev.node = false := by simpa using hx
    rw [astep_not_excl hx]
    suffices key : ∀ b : ASt α, b.seg = Function.update a.seg ev.node (newSeg a ev) →
        b.right = Function.update a.right ev.node (some (newRight a ev)) →
        b.lab = Function.update a.lab ev.key (newSeg a ev) → Inv excl N E (P ++ [ev]) b from
      key _ rfl rfl rfl
    intro b hbseg hbright hblab
    have F := stepFacts h hx hsorted hn
    set s := newSeg a ev with hs
    set r' := newRight a ev with hr'
    have mem : ∀ {x : Ev α}, x ∈ P → x ∈ P ++ [ev] := fun hx => List.mem_append_left _ hx
    have memev : ev ∈ P ++ [ev] := List.mem_append_right _ (List.mem_singleton.mpr rfl)
    have labOld : ∀ e1 ∈ P, b.lab e1.key = a.lab e1.key :=
      fun e1 h1 => by rw [hblab]; exact Function.update_of_ne (hkeys e1 h1) _ _
    have labNew : b.lab ev.key = s := by rw [hblab]; exact Function.update_self ..
    have segNew : b.seg ev.node = s := by rw [hbseg]; exact Function.update_self ..
    have segOld : ∀ n, n ≠ ev.node → b.seg n = a.seg n :=
      fun n hne => by rw [hbseg]; exact Function.update_of_ne hne _ _
    have rightNew : b.right ev.node = some r' := by rw [hbright]; exact Function.update_self ..
    have rightOld : ∀ n, n ≠ ev.node → b.right n = a.right n :=
      fun n hne => by rw [hbright]; exact Function.update_of_ne hne _ _
    have cases : ∀ {x : Ev α}, x ∈ P ++ [ev] → x ∈ P ∨ x = ev := by
      intro x hx'
      rcases List.mem_append.mp hx' with h1 | h1
      · exact Or.inl h1
      · exact Or.inr (List.mem_singleton.mp h1)
    refine ⟨?_, ?_, ?_, ?_, ?_, ?_, ?_, ?_, ?_, ?_⟩
    · -- segNone
      intro n hnN hr
      by_cases hne : n = ev.node
      · subst hne; rw [rightNew] at hr; cases hr
      · rw [rightOld n hne] at hr; rw [segOld n hne]; exact h.segNone n hnN hr
    · -- segSome
      intro n r hr
      by_cases hne : n = ev.node
      · subst hne; rw [segNew]; exact F.sNonneg
      · rw [rightOld n hne] at hr; rw [segOld n hne]; exact h.segSome n r hr
    · -- rightAtt
      intro n r hr
      by_cases hne : n = ev.node
      · subst hne
        rw [rightNew] at hr
        have hrr : r' = r := Option.some.inj hr
        rcases newRight_cases a ev with hc | hc
        · exact ⟨ev, memev, rfl, hx, by rw [← hrr, hr', hc]⟩
        · obtain ⟨e1, h1, h2⟩ := h.rightAtt _ _ hc
          exact ⟨e1, mem h1, by rw [← hrr]; exact h2⟩
      · rw [rightOld n hne] at hr
        obtain ⟨e1, h1, h2⟩ := h.rightAtt n r hr
        exact ⟨e1, mem h1, h2⟩
    · -- rightBd
      intro e1 h1 hxe
      rcases cases h1 with h1 | h1
      · by_cases hne : e1.node = ev.node
        · obtain ⟨r0, hr0, hle⟩ := h.rightBd e1 h1 hxe
          rw [hne] at hr0 ⊢
          exact ⟨r', rightNew, le_trans hle (newRight_ge_old a ev r0 hr0)⟩
        · rw [rightOld _ hne]; exact h.rightBd e1 h1 hxe
      · subst h1; exact ⟨r', rightNew, newRight_ge a e1⟩
    · -- labRange
      intro e1 h1 hxe
      rcases cases h1 with h1 | h1
      · rw [labOld e1 h1]
        have := h.labRange e1 h1 hxe
        by_cases hne : e1.node = ev.node
        · rw [hne, segNew]; rw [hne] at this
          exact ⟨this.1, le_trans this.2 F.sGe⟩
        · rw [segOld _ hne]; exact this
      · subst h1; rw [labNew, segNew]; exact ⟨F.sNonneg, le_rfl⟩
    · -- curAtt
      intro n r hr
      by_cases hne : n = ev.node
      · subst hne; exact ⟨ev, memev, rfl, by rw [labNew, segNew]⟩
      · rw [rightOld n hne] at hr
        obtain ⟨e1, h1, h2, h3⟩ := h.curAtt n r hr
        exact ⟨e1, mem h1, h2, by rw [labOld e1 h1, segOld n hne]; exact h3⟩
    · -- zeroAtt
      intro n r hr
      by_cases hne : n = ev.node
      · subst hne
        cases hro : a.right ev.node with
        | none => exact ⟨ev, memev, rfl, by rw [labNew]; exact F.zero hro⟩
        | some r0 =>
          obtain ⟨e1, h1, h2, h3⟩ := h.zeroAtt _ _ hro
          exact ⟨e1, mem h1, h2, by rw [labOld e1 h1]; exact h3⟩
      · rw [rightOld n hne] at hr
        obtain ⟨e1, h1, h2, h3⟩ := h.zeroAtt n r hr
        exact ⟨e1, mem h1, h2, by rw [labOld e1 h1]; exact h3⟩
    · -- sep
      intro e1 m1 e2 m2 hnode hxe hl
      rcases cases m1 with h1 | h1 <;> rcases cases m2 with h2 | h2 <;> clear m1 m2
      · rw [labOld e1 h1, labOld e2 h2] at hl
        exact h.sep e1 h1 e2 h2 hnode hxe hl
      · subst h2
        rw [labOld e1 h1, labNew] at hl
        exact F.oldLt e1 h1 hnode hl
      · subst h1
        rw [labOld e2 h2, labNew] at hl
        have := (h.labRange e2 h2 (by rw [← hnode]; exact hxe)).2
        rw [← hnode] at this
        have := F.sGe
        omega
      · subst h1; subst h2; exact absurd hl (lt_irrefl _)
    · -- convex
      intro e1 m1 e2 m2 hnode hxe hl y hy1 hy2
      rcases cases m1 with h1 | h1 <;> rcases cases m2 with h2 | h2 <;> clear m1 m2
      · rw [labOld e1 h1, labOld e2 h2] at hl
        obtain ⟨e3, h3, h4, h5, h6⟩ := h.convex e1 h1 e2 h2 hnode hxe hl y hy1 hy2
        exact ⟨e3, mem h3, h4, by rw [labOld e3 h3, labOld e1 h1]; exact h5, h6⟩
      · subst h2
        rw [labOld e1 h1, labNew] at hl
        by_cases hy : e2.left ≤ y
        · exact ⟨e2, memev, hnode.symm, by rw [labNew, labOld e1 h1]; exact hl.symm, hy, hy2⟩
        · have hy : y < e2.left := lt_of_not_ge hy
          obtain ⟨r, hr, hler⟩ := F.sameLab e1 h1 hnode hl
          obtain ⟨e4, h4, hn4, _, hr4⟩ := h.rightAtt _ _ hr
          -- e4 attains the running right end; it carries the current label
          have hl4 : a.lab e4.key = a.lab e1.key := by
            have hle4 := (h.labRange e4 h4 (by rw [hn4]; exact hx)).2
            rw [hn4] at hle4
            rcases lt_or_eq_of_le (le_trans hle4 F.sGe) with hlt | heq
            · have hlt : a.lab e4.key < a.lab e1.key := lt_of_lt_of_eq hlt hl.symm
              have := h.sep e4 h4 e1 h1 (by rw [hn4, hnode]) (by rw [hn4]; exact hx) hlt
              rw [hr4] at this
              exact absurd (lt_of_le_of_lt hy1 (lt_of_lt_of_le hy hler)) (not_lt.mpr (le_of_lt this))
            · exact heq.trans hl.symm
          obtain ⟨e3, h3, hn3, hl3, hy3⟩ := h.convex e1 h1 e4 h4 (by rw [hnode, hn4]) hxe hl4.symm
            y hy1 (by rw [hr4]; exact lt_of_lt_of_le hy hler)
          exact ⟨e3, mem h3, hn3, by rw [labOld e3 h3, labOld e1 h1]; exact hl3, hy3⟩
      · subst h1
        rw [labNew, labOld e2 h2] at hl
        have hxe2 : excl e2.node = false := by rw [← hnode]; exact hxe
        obtain ⟨e3, h3, hn3, hl3, hy3⟩ := h.convex e2 h2 e2 h2 rfl hxe2 rfl y
          (le_trans (hsorted e2 h2) hy1) hy2
        exact ⟨e3, mem h3, by rw [hn3, hnode], by rw [labOld e3 h3, labNew, hl]; exact hl3, hy3⟩
      · subst h1; subst h2
        exact ⟨_, memev, rfl, rfl, hy1, hy2⟩
    · -- other
      intro k hk hall
      have hne : k ≠ ev.key := by
        intro hk'
        have := hall ev memev hk'.symm
        rw [hx] at this; cases this
      rw [hblab, Function.update_of_ne hne]
      exact h.other k hk (fun e1 h1 hk1 => hall e1 (mem h1) hk1)

/-- Abstract phase 1. -/
def aphase1 (excl : Nat → Bool) (N E : Nat) (evs : List (Ev α)) : ASt α :=
  evs.foldl (astep excl) (a0 N E)

theorem inv_prefix {excl : Nat → Bool} {N E : Nat} {evs : List (Ev α)} (hok : EvsOK N E evs) :
    ∀ P R, evs = P ++ R → Inv excl N E P (aphase1 excl N E P) := by
  intro P
  induction P using List.reverseRec with
  | nil => intro R _; exact inv_init excl N E
  | append_singleton P ev ih =>
    intro R hPR
    have hPR' : evs = P ++ (ev :: R) := by rw [hPR]; simp
    have ih' := ih (ev :: R) hPR'
    have hmem : ev ∈ evs := by rw [hPR']; simp
    have hs : ∀ ev0 ∈ P, ev0.left ≤ ev.left := by
      intro ev0 h0
      have := hok.sorted
      rw [hPR'] at this
      exact (List.pairwise_append.mp this).2.2 ev0 h0 ev (List.mem_cons_self ..)
    have hk : ∀ ev0 ∈ P, ev0.key ≠ ev.key := by
      intro ev0 h0
      have := hok.keys
      rw [hPR'] at this
      exact (List.pairwise_append.mp this).2.2 ev0 h0 ev (List.mem_cons_self ..)
    have := inv_step ih' hs hk (hok.nodeLt ev hmem) (hok.eLt ev hmem) (hok.pos ev hmem)
    simpa [aphase1, List.foldl_append] using this

theorem inv_final {excl : Nat → Bool} {N E : Nat} {evs : List (Ev α)} (hok : EvsOK N E evs) :
    Inv excl N E evs (aphase1 excl N E evs) :=
  inv_prefix hok evs [] (by simp)

end Tsdate.Split
