/-
Lemmas for C19 about the hand models of `Model/Special.lean` (recursion shape of `_digamma`/`_trigamma`, the
Newton loops of the KL and quantile fits) (the Bernoulli table is in Proofs/Bernoulli.lean).
-/
import Mathlib.Algebra.Order.Field.Basic
import Mathlib.Algebra.Order.AbsoluteValue.Basic
import Mathlib.Tactic.FieldSimp
import Mathlib.Tactic.Ring
import Mathlib.Tactic.Positivity
import Mathlib.Tactic.Linarith
import Mathlib.Tactic.NormNum
import Mathlib.Tactic.SplitIfs
import TsdateVerif.Model.Special

namespace Tsdate.Kernels
set_option linter.unusedSectionVars false

variable {α : Type} [Field α] [LinearOrder α] [IsStrictOrderedRing α]

theorem pyabs_eq_abs (x : α) : pyabs x = |x| := by
  unfold pyabs
  simp only [Nat.cast_zero]
  split_ifs with h
  · exact (abs_of_neg h).symm
  · exact (abs_of_nonneg (not_lt.1 h)).symm

/-! ## `_digamma`: the recursion is exact — the error at `x` is the error of a leaf formula at `x + n` -/

/-- The three cases of one call (for `x` above the reflection cut-off). -/
theorem digamma_unfold (F : SpecFns α) (C : DigammaConsts α) (fuel : Nat) (x : α) (h0 : C.c0 < x) :
    digamma F C (fuel + 1) x =
      if x ≤ C.c1 then some (-C.eulerGamma - 1 / x)
      else if x < C.c2 then (digamma F C fuel (1 + x)).map (fun v => v - 1 / x)
      else some (digammaSeries F C x) := by
  simp only [digamma, Nat.cast_one, not_le.2 h0, if_false]

/-- **Error transport.**  Let `ψ` be any function with `ψ x = ψ (1 + x) − 1/x` for `x > 0` (the digamma
recurrence).  If both leaf formulas are within `ε` of `ψ` on their own domains, then whatever `_digamma` returns
at any `x > c0 ≥ 0` is within `ε` of `ψ x`: the recursion itself adds no error (in exact arithmetic). -/
theorem digamma_error_transport (F : SpecFns α) (C : DigammaConsts α) (ψ : α → α) (ε : α)
    (hc0 : 0 ≤ C.c0)
    (hrec : ∀ x, 0 < x → ψ x = ψ (1 + x) - 1 / x)
    (hsmall : ∀ x, C.c0 < x → x ≤ C.c1 → |(-C.eulerGamma - 1 / x) - ψ x| ≤ ε)
    (hseries : ∀ x, C.c0 < x → C.c2 ≤ x → |digammaSeries F C x - ψ x| ≤ ε) :
    ∀ fuel x v, C.c0 < x → digamma F C fuel x = some v → |v - ψ x| ≤ ε := by
  intro fuel
  induction fuel with
  | zero => intro x v _ h; simp [digamma] at h
  | succ n ih =>
    intro x v hx h
    rw [digamma_unfold F C n x hx] at h
    split_ifs at h with h1 h2
    · simp only [Option.some.injEq] at h; subst h; exact hsmall x hx h1
    · cases hrecv : digamma F C n (1 + x) with
      | none => rw [hrecv] at h; simp at h
      | some w =>
        rw [hrecv] at h
        simp only [Option.map_some, Option.some.injEq] at h
        subst h
        have hx0 : 0 < x := lt_of_le_of_lt hc0 hx
        have := ih (1 + x) w (by linarith) hrecv
        rw [hrec x hx0]
        have e : w - 1 / x - (ψ (1 + x) - 1 / x) = w - ψ (1 + x) := by ring
        rw [e]; exact this
    · simp only [Option.some.injEq] at h; subst h; exact hseries x hx (not_lt.1 h2)

/-- `_digamma` returns a value as soon as the recursion depth covers the distance to the series cut-off. -/
theorem digamma_defined (F : SpecFns α) (C : DigammaConsts α) :
    ∀ (n : Nat) (x : α), C.c0 < x → C.c2 ≤ x + n → ∃ v, digamma F C (n + 1) x = some v := by
  intro n
  induction n with
  | zero =>
    intro x hx h
    rw [digamma_unfold F C 0 x hx]
    simp only [Nat.cast_zero, add_zero] at h
    split_ifs with h1 h2
    · exact ⟨_, rfl⟩
    · exact absurd h (not_le.2 h2)
    · exact ⟨_, rfl⟩
  | succ n ih =>
    intro x hx h
    rw [digamma_unfold F C (n + 1) x hx]
    split_ifs with h1 h2
    · exact ⟨_, rfl⟩
    · obtain ⟨w, hw⟩ := ih (1 + x) (by linarith) (by push_cast at h; linarith)
      exact ⟨_, by rw [hw]; rfl⟩
    · exact ⟨_, rfl⟩

/-! ## `_trigamma` -/

theorem trigamma_unfold (pw : α → Nat → α) (C : TrigammaConsts α) (fuel : Nat) (x : α) (h0 : C.c0 < x) :
    trigamma pw C (fuel + 1) x =
      if x ≤ C.c1 then some (1 / (x * x))
      else if x < C.c2 then (trigamma pw C fuel (1 + x)).map (fun v => v + 1 / (x * x))
      else some (trigammaSeries pw C x) := by
  simp only [trigamma, Nat.cast_one, not_le.2 h0, if_false]

/-- Error transport for `_trigamma` along `ψ' x = ψ' (1 + x) + 1/x²`. -/
theorem trigamma_error_transport (pw : α → Nat → α) (C : TrigammaConsts α) (ψ' : α → α) (ε : α)
    (hc0 : 0 ≤ C.c0)
    (hrec : ∀ x, 0 < x → ψ' x = ψ' (1 + x) + 1 / (x * x))
    (hsmall : ∀ x, C.c0 < x → x ≤ C.c1 → |1 / (x * x) - ψ' x| ≤ ε)
    (hseries : ∀ x, C.c0 < x → C.c2 ≤ x → |trigammaSeries pw C x - ψ' x| ≤ ε) :
    ∀ fuel x v, C.c0 < x → trigamma pw C fuel x = some v → |v - ψ' x| ≤ ε := by
  intro fuel
  induction fuel with
  | zero => intro x v _ h; simp [trigamma] at h
  | succ n ih =>
    intro x v hx h
    rw [trigamma_unfold pw C n x hx] at h
    split_ifs at h with h1 h2
    · simp only [Option.some.injEq] at h; subst h; exact hsmall x hx h1
    · cases hrecv : trigamma pw C n (1 + x) with
      | none => rw [hrecv] at h; simp at h
      | some w =>
        rw [hrecv] at h
        simp only [Option.map_some, Option.some.injEq] at h
        subst h
        have hx0 : 0 < x := lt_of_le_of_lt hc0 hx
        have := ih (1 + x) w (by linarith) hrecv
        rw [hrec x hx0]
        have e : w + 1 / (x * x) - (ψ' (1 + x) + 1 / (x * x)) = w - ψ' (1 + x) := by ring
        rw [e]; exact this
    · simp only [Option.some.injEq] at h; subst h; exact hseries x hx (not_lt.1 h2)

theorem trigamma_defined (pw : α → Nat → α) (C : TrigammaConsts α) :
    ∀ (n : Nat) (x : α), C.c0 < x → C.c2 ≤ x + n → ∃ v, trigamma pw C (n + 1) x = some v := by
  intro n
  induction n with
  | zero =>
    intro x hx h
    rw [trigamma_unfold pw C 0 x hx]
    simp only [Nat.cast_zero, add_zero] at h
    split_ifs with h1 h2
    · exact ⟨_, rfl⟩
    · exact absurd h (not_le.2 h2)
    · exact ⟨_, rfl⟩
  | succ n ih =>
    intro x hx h
    rw [trigamma_unfold pw C (n + 1) x hx]
    split_ifs with h1 h2
    · exact ⟨_, rfl⟩
    · obtain ⟨w, hw⟩ := ih (1 + x) (by linarith) (by push_cast at h; linarith)
      exact ⟨_, by rw [hw]; rfl⟩
    · exact ⟨_, rfl⟩

/-! ## The Newton loop of `approximate_gamma_kl` -/

/-- Loop invariant: the current `delta`, if any, is the Newton step that produced the current `alpha`. -/
def KLInv (K : KLFns α) (x logx alpha : α) (delta : Option α) : Prop :=
  ∀ d, delta = some d → ∃ a, d = klStep K x logx a ∧ alpha = a - d

/-- What a normal exit of the loop guarantees: the returned shape `s + 1` is positive, the rate is
`shape / x`, and the shape was produced by a Newton step `d` (taken at some `a`) that passes the exit test
`|d| ≤ |shape| · reltol` (the loop body always runs at least once because `delta` starts as `inf`). -/
theorem klLoop_ok (K : KLFns α) (x logx : α) :
    ∀ fuel itt alpha delta s r,
      klLoop K x logx fuel itt alpha delta = .ok s r → KLInv K x logx alpha delta →
      0 < s + 1 ∧ r = (s + 1) / x ∧
        ∃ a d, d = klStep K x logx a ∧ s + 1 = a - d ∧ |d| ≤ |s + 1| * K.reltol := by
  intro fuel
  induction fuel with
  | zero => intro itt alpha delta s r h; simp [klLoop] at h
  | succ n ih =>
    intro itt alpha delta s r h hinv
    have hstep : KLInv K x logx (alpha - klStep K x logx alpha) (some (klStep K x logx alpha)) := by
      intro d hd
      simp only [Option.some.injEq] at hd
      exact ⟨alpha, hd.symm, by rw [hd]⟩
    cases delta with
    | none =>
      simp only [klLoop, if_true] at h
      split_ifs at h with hit
      exact ih _ _ _ s r h hstep
    | some d0 =>
      simp only [klLoop, Nat.cast_zero, Nat.cast_one] at h
      split_ifs at h with hgo hit hbad
      · exact ih _ _ _ s r h hstep
      · simp only [Fit.ok.injEq] at h
        obtain ⟨hs, hr⟩ := h
        have hpos : 0 < alpha := by
          simp only [Bool.or_eq_true, Bool.not_eq_true', decide_eq_true_eq, not_or, not_le] at hbad
          exact hbad.2
        obtain ⟨a, hd, ha⟩ := hinv d0 rfl
        simp only [decide_eq_true_eq, not_lt] at hgo
        rw [pyabs_eq_abs, pyabs_eq_abs] at hgo
        subst hs hr
        refine ⟨by linarith, by ring_nf, a, d0, hd, by linarith, ?_⟩
        have e : alpha - 1 + 1 = alpha := by ring
        rw [e]; exact hgo

/-- The KL fit reproduces the requested mean exactly and obeys the Newton exit test, or fails. -/
theorem approxGammaKL_ok (K : KLFns α) (x logx s r : α) (h : approxGammaKL K x logx = .ok s r) :
    0 < x ∧ logx < K.log x ∧ 0 < s + 1 ∧ (s + 1) / r = x ∧
      ((1 / (s + 1) < K.asym ∧ s + 1 = 1 / 2 / (K.log x - logx)) ∨
        ∃ a d, d = klStep K x logx a ∧ s + 1 = a - d ∧ |d| ≤ |s + 1| * K.reltol) := by
  simp only [approxGammaKL, Nat.cast_zero, Nat.cast_one, Nat.cast_ofNat] at h
  split_ifs at h with h1 h2 h3
  · -- asymptotic regime
    simp only [Bool.or_eq_true, decide_eq_true_eq, not_or, not_le] at h1
    simp only [Bool.not_eq_true', decide_eq_false_iff_not, not_not] at h2
    simp only [Fit.ok.injEq] at h
    obtain ⟨hs, hr⟩ := h
    have hx : x ≠ 0 := ne_of_gt h1.1
    have hd : 0 < K.log x - logx := by linarith
    have ha : 0 < 1 / 2 / (K.log x - logx) := by positivity
    have e : s + 1 = 1 / 2 / (K.log x - logx) := by rw [← hs]; ring
    refine ⟨h1.1, h2, by rw [e]; exact ha, ?_, Or.inl ⟨by rw [e]; exact h3, e⟩⟩
    rw [← hr, e]
    have ha' : 1 / 2 / (K.log x - logx) ≠ 0 := ne_of_gt ha
    field_simp
  · simp only [Bool.or_eq_true, decide_eq_true_eq, not_or, not_le] at h1
    simp only [Bool.not_eq_true', decide_eq_false_iff_not, not_not] at h2
    obtain ⟨hpos, hr, hex⟩ := klLoop_ok K x logx _ _ _ _ s r h (by intro d hd; cases hd)
    have hx : x ≠ 0 := ne_of_gt h1.1
    have hs : s + 1 ≠ 0 := ne_of_gt hpos
    refine ⟨h1.1, h2, hpos, ?_, Or.inr hex⟩
    rw [hr]; field_simp

/-! ## The Newton loop of `approximate_gamma_iqr` -/

def IQRInv (Q : IQRFns α) (q1 q2 x1 x2 alpha : α) (delta : Option α) : Prop :=
  ∀ d, delta = some d → ∃ a, d = iqrStep Q q1 q2 x1 x2 a ∧ alpha = a + d

/-- A normal exit of the quantile-matching loop: either the capped fit, or a positive shape `≤ max_shape` that
was produced by a Newton step passing the exit test, with rate `gammaincinv(shape, q1) / x1`. -/
theorem iqrLoop_ok (Q : IQRFns α) (q1 q2 x1 x2 maxShape : α) :
    ∀ fuel itt alpha delta s r,
      iqrLoop Q q1 q2 x1 x2 maxShape fuel itt alpha delta = .ok s r → IQRInv Q q1 q2 x1 x2 alpha delta →
      (s + 1 = maxShape ∧ r = Q.gammaincInv maxShape q1 / x1) ∨
      (0 < s + 1 ∧ s + 1 ≤ maxShape ∧ r = Q.gammaincInv (s + 1) q1 / x1 ∧
        ∃ a d, d = iqrStep Q q1 q2 x1 x2 a ∧ s + 1 = a + d ∧ |d| ≤ |s + 1| * Q.reltol) := by
  intro fuel
  induction fuel with
  | zero => intro itt alpha delta s r h; simp [iqrLoop] at h
  | succ n ih =>
    intro itt alpha delta s r h hinv
    have hstep : IQRInv Q q1 q2 x1 x2 (alpha + iqrStep Q q1 q2 x1 x2 alpha) (some (iqrStep Q q1 q2 x1 x2 alpha)) := by
      intro d hd
      simp only [Option.some.injEq] at hd
      exact ⟨alpha, hd.symm, by rw [hd]⟩
    cases delta with
    | none =>
      simp only [iqrLoop, if_true] at h
      split_ifs at h with hit
      exact ih _ _ _ s r h hstep
    | some d0 =>
      simp only [iqrLoop, Nat.cast_zero, Nat.cast_one] at h
      split_ifs at h with hgo hit hneg hcap
      · exact ih _ _ _ s r h hstep
      · left
        simp only [iqrCap, Nat.cast_one, Fit.ok.injEq] at h
        exact ⟨by rw [← h.1]; ring, h.2.symm⟩
      · right
        simp only [Fit.ok.injEq] at h
        obtain ⟨hs, hr⟩ := h
        simp only [Bool.not_eq_true', decide_eq_false_iff_not, not_not] at hneg
        obtain ⟨a, hd, ha⟩ := hinv d0 rfl
        simp only [decide_eq_true_eq, not_lt] at hgo
        rw [pyabs_eq_abs, pyabs_eq_abs] at hgo
        have e : s + 1 = alpha := by rw [← hs]; ring
        refine ⟨by rw [e]; exact hneg, by rw [e]; exact not_lt.1 hcap, by rw [e]; exact hr.symm,
          a, d0, hd, by rw [e]; exact ha, by rw [e]; exact hgo⟩

/-- All normal returns of `approximate_gamma_iqr`. -/
theorem approxGammaIQR_ok (Q : IQRFns α) (q1 q2 x1 x2 maxShape s r : α)
    (h : approxGammaIQR Q q1 q2 x1 x2 maxShape = .ok s r) :
    (s + 1 = maxShape ∧ r = Q.gammaincInv maxShape q1 / x1) ∨
    (0 < s + 1 ∧ s + 1 ≤ maxShape ∧ r = Q.gammaincInv (s + 1) q1 / x1 ∧
      ∃ a d, d = iqrStep Q q1 q2 x1 x2 a ∧ s + 1 = a + d ∧ |d| ≤ |s + 1| * Q.reltol) := by
  simp only [approxGammaIQR] at h
  split_ifs at h with h1 h2 h3
  · left
    simp only [iqrCap, Nat.cast_one, Fit.ok.injEq] at h
    exact ⟨by rw [← h.1]; ring, h.2.symm⟩
  · left
    simp only [iqrCap, Nat.cast_one, Fit.ok.injEq] at h
    exact ⟨by rw [← h.1]; ring, h.2.symm⟩
  · exact iqrLoop_ok Q q1 q2 x1 x2 maxShape _ _ _ _ s r h (by intro d hd; cases hd)

end Tsdate.Kernels
