/-
The exact marginal of a node, abstractly: `Σ_{x : x_c = t} weight x = Π d · I c t · outU B c t`.
-/
import TsdateVerif.Proofs.DiscretePosterior

namespace Tsdate.Discrete
open Tsdate

section
variable {α : Type} [Field α]
variable (G : Nat) (fixed : Nat → Bool) (prior : Nat → Nat → α) (L : DEdge → Nat → Nat → α)
  (I : Nat → Nat → α) (d : Nat → α)

theorem TreeOK.suffix : ∀ (A R : List (Nat × List DEdge)), TreeOK G fixed prior L I d (A ++ R) →
    TreeOK G fixed prior L I d R
  | [], _, h => h
  | _ :: A, R, h => TreeOK.suffix A R h.2.2

theorem TreeOK.nodup : ∀ gs, TreeOK G fixed prior L I d gs → (gs.map (·.1)).Nodup
  | [], _ => List.nodup_nil
  | g :: rest, h => by
    simp only [List.map_cons, List.nodup_cons]
    exact ⟨h.1.unot, TreeOK.nodup rest h.2.2⟩

theorem treeOK_mem_eq : ∀ gs, TreeOK G fixed prior L I d gs → ∀ g ∈ gs, ∀ t, t < G →
    prior g.1 t * (g.2.map (fun e => smsg fixed L I e t)).prod = d g.1 * I g.1 t
  | [], _, g, hg => by cases hg
  | g0 :: rest, h, g, hg => by
    rcases List.mem_cons.mp hg with rfl | hg'
    · exact h.1.eq
    · exact treeOK_mem_eq rest h.2.2 g hg'

/-- with all non-fixed children live, the weight does not read the rows at all -/
theorem Wt_live_indep (live : List Nat) (I' : Nat → Nat → α) (gs : List (Nat × List DEdge))
    (hlive : ∀ e ∈ gs.flatMap (·.2), fixed e.c = true ∨ e.c ∈ live) (x : Nat → Nat) :
    Wt fixed prior L live I gs x = Wt fixed prior L live I' gs x := by
  unfold Wt
  congr 2
  apply List.map_congr_left
  intro e he
  unfold mfac
  by_cases hf : fixed e.c = true
  · rw [if_pos hf, if_pos hf]
  · rw [if_neg hf, if_neg hf]
    have : e.c ∈ live := (hlive e he).elim (fun h' => absurd h' hf) id
    rw [if_pos this, if_pos this]

/-- re-solving groups whose equations hold reproduces the true rows (below the grid size) -/
theorem resolve_true (prior' : Nat → Nat → α) : ∀ (A : List (Nat × List DEdge)) (J : Nat → Nat → α),
    AgreeBelow G J I →
    (∀ g ∈ A, ∀ a, a < G → rowOf fixed prior' L d I g a = I g.1 a) →
    AgreeBelow G (resolve fixed prior' L d A J) I
  | [], _, h, _ => h
  | g :: A, J, h, heq => by
    apply resolve_true prior' A _ _ (fun g' hg' => heq g' (List.mem_cons_of_mem _ hg'))
    intro w b hb
    show upF J g.1 (rowOf fixed prior' L d J g) w b = I w b
    by_cases hw : w = g.1
    · rw [hw, upF_same, rowOf_congr G fixed prior' L d J I h g b hb, heq g (List.mem_cons_self ..) b hb]
    · rw [upF_other J g.1 w _ hw]; exact h w b hb

/-- away from the modified node the two recursions coincide -/
theorem resolve_priorMod (c : Nat) (φ : Nat → α) : ∀ (B : List (Nat × List DEdge)) (J : Nat → Nat → α),
    c ∉ B.map (·.1) →
    resolve fixed (priorMod prior c φ) L d B J = resolve fixed prior L d B J
  | [], _, _ => rfl
  | g :: B, J, hc => by
    have hg : g.1 ≠ c := fun h => hc (by simp [h])
    have hstep : stepJ fixed (priorMod prior c φ) L d J g = stepJ fixed prior L d J g := by
      unfold stepJ
      congr 1
      funext a
      unfold rowOf priorMod
      rw [if_neg hg]
    show resolve fixed (priorMod prior c φ) L d B (stepJ fixed (priorMod prior c φ) L d J g) = _
    rw [hstep]
    exact resolve_priorMod c φ B _ (fun h => hc (List.mem_cons_of_mem _ h))

theorem sumR_delta (t : Nat) (ht : t < G) (h : Nat → α) :
    sumR G (fun s => if s = t then h s else 0) = h t := by
  have key : ∀ n, t < n → sumR n (fun s => if s = t then h s else 0) = h t := by
    intro n hn
    induction n with
    | zero => omega
    | succ n ih =>
      rw [sumR_succ]
      by_cases hnt : n = t
      · have h0 : sumR n (fun s => if s = t then h s else 0) = 0 := by
          have : sumR n (fun s => if s = t then h s else 0) = sumR n (fun _ => (0 : α)) := by
            apply sumR_congr
            intro s hs
            rw [if_neg (by omega)]
          rw [this, sumR_zero]
        rw [h0, if_pos hnt, hnt, zero_add]
      · rw [ih (by omega), if_neg hnt, add_zero]
  exact key G ht

/-- **The marginal weight of node `c` at grid index `t`** for groups `A ++ gc :: B` forming a tree:
the sum over all assignments with `x c = t` equals the product of the denominators times
`I c t * outU B c t`. -/
theorem marginal_abstract (A B : List (Nat × List DEdge)) (gc : Nat × List DEdge)
    (htree : TreeOK G fixed prior L I d (A ++ gc :: B))
    (hd : ∀ g ∈ A ++ gc :: B, d g.1 ≠ 0)
    (hlive : ∀ e ∈ (A ++ gc :: B).flatMap (·.2), fixed e.c = true ∨ e.c ∈ (A ++ gc :: B).map (·.1))
    (φ : Nat → α) (x0 : Nat → Nat) :
    sumA G ((A ++ gc :: B).map (·.1)) x0
        (fun x => Wt fixed prior L ((A ++ gc :: B).map (·.1)) I (A ++ gc :: B) x * φ (x gc.1))
      = ((A ++ gc :: B).map (fun g => d g.1)).prod
          * sumR G (fun s => I gc.1 s * φ s * outU G fixed prior L I d B gc.1 s) := by
  set gs := A ++ gc :: B with hgs
  set c := gc.1 with hc
  have hne : gs ≠ [] := by simp [hgs]
  have hnd := TreeOK.nodup G fixed prior L I d gs htree
  have hcm : c ∈ gs.map (·.1) := by simp [hgs, hc]
  -- the re-solved rows
  set I' := resolve fixed (priorMod prior c φ) L d gs I with hI'
  have hstruct := TreeOK.struct G fixed prior L I d gs htree
  have htree' : TreeOK G fixed (priorMod prior c φ) L I' d gs := by
    apply TreeOK.of_eq G fixed prior L I d (priorMod prior c φ) I' gs htree
    intro g hg t _
    have := resolve_spec fixed (priorMod prior c φ) L d gs I hstruct g hg t
    rw [← hI'] at this
    rw [this]
    unfold rowOf
    field_simp [hd g hg]
  -- rewrite the summand
  have hfun : (fun x => Wt fixed prior L (gs.map (·.1)) I gs x * φ (x c))
      = Wt fixed (priorMod prior c φ) L (gs.map (·.1)) I' gs := by
    funext x
    rw [← Wt_priorMod fixed prior L I (gs.map (·.1)) c φ gs hnd hcm x]
    exact Wt_live_indep fixed (priorMod prior c φ) L I (gs.map (·.1)) I' gs hlive x
  rw [hfun, elim_all G fixed (priorMod prior c φ) L I' d gs hne htree' x0]
  congr 1
  -- the root row of the re-solved rows, via the response theorem
  have hcA : c ∉ A.map (·.1) := by
    have : (A.map (·.1) ++ c :: B.map (·.1)).Nodup := by simpa [hgs] using hnd
    exact fun h => (List.nodup_append.mp this).2.2 c h c (List.mem_cons_self ..) rfl
  have hcB : c ∉ B.map (·.1) := by
    have : (A.map (·.1) ++ c :: B.map (·.1)).Nodup := by simpa [hgs] using hnd
    exact (List.nodup_cons.mp (List.nodup_append.mp this).2.1).1
  have heqA : ∀ g ∈ A, ∀ a, a < G → rowOf fixed (priorMod prior c φ) L d I g a = I g.1 a := by
    intro g hg a ha
    have hgc : g.1 ≠ c := fun h => hcA (h ▸ List.mem_map_of_mem hg)
    have hmem : g ∈ gs := by simp [hgs, hg]
    have heq := (treeOK_mem_eq G fixed prior L I d gs htree g hmem) a ha
    unfold rowOf priorMod
    rw [if_neg hgc, heq]
    field_simp [hd g hmem]
  have h1 := resolve_true G fixed L I d (priorMod prior c φ) A I (fun _ _ _ => rfl) heqA
  have hsplit : I' = resolve fixed (priorMod prior c φ) L d B
      (stepJ fixed (priorMod prior c φ) L d (resolve fixed (priorMod prior c φ) L d A I) gc) := by
    rw [hI', hgs]
    unfold resolve
    rw [List.foldl_append, List.foldl_cons]
  have hgcm : gc ∈ gs := by simp [hgs]
  have h2 : AgreeBelow G
      (stepJ fixed (priorMod prior c φ) L d (resolve fixed (priorMod prior c φ) L d A I) gc)
      (upF I c (fun s => I c s * φ s)) := by
    intro w b hb
    show upF _ gc.1 (rowOf fixed (priorMod prior c φ) L d _ gc) w b = _
    by_cases hw : w = c
    · rw [hw, ← hc, upF_same, upF_same,
        rowOf_congr G fixed (priorMod prior c φ) L d _ I h1 gc b hb]
      have heq := (treeOK_mem_eq G fixed prior L I d gs htree gc hgcm) b hb
      unfold rowOf priorMod
      rw [if_pos rfl, mul_right_comm, heq]
      field_simp [hd gc hgcm]
      rw [hc]; ring
    · rw [← hc, upF_other _ c w _ hw, upF_other _ c w _ hw]
      exact h1 w b hb
  have h3 := resolve_congr G fixed prior L d B _ _ h2
  have hroot : (gs.getLast hne).1 = ((gc :: B).getLast (by simp)).1 := by
    congr 1
    simp only [hgs]
    rw [List.getLast_append_of_ne_nil]
  rw [hsplit, resolve_priorMod fixed prior L d c φ B _ hcB]
  rw [sumR_congr G _ _ (fun s hs => h3 (gs.getLast hne).1 s hs)]
  have hsuf := TreeOK.suffix G fixed prior L I d A (gc :: B) htree
  rw [response G fixed prior L I d (gs.getLast hne).1 B gc (fun s => I c s * φ s) hsuf
    (fun g hg => hd g (by simp only [hgs, List.mem_append]; exact Or.inr hg)) hroot]

end
end Tsdate.Discrete
