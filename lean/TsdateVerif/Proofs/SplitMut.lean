/-
`_relabel_mutations_node` applied to the output of `_split_disjoint_nodes`: the node a mutation is
moved to maps back to its old node, and is the piece present at the mutation's position whenever the
old node is present there.
-/
import TsdateVerif.Proofs.SplitSweep
import TsdateVerif.Proofs.SplitNoop

namespace Tsdate.Split
set_option linter.unusedSectionVars false
set_option linter.unusedVariables false

variable {α : Type} [Inhabited α] [LinearOrder α]

/-- The edges as the sweep sees them, in insertion order `insIdx`. -/
def insEvs (es : Array (SEdge α)) (o : Out) (insIdx : List Nat) : List (InsEv α) :=
  insIdx.map (fun e => { pos := (aget es e).left, child := newNode o e true, parent := newNode o e false })

theorem orig_eq_aget (o : Out) (v : Nat) : aget o.order.toArray v = orig o v := by
  simp [aget, orig, List.getD_eq_getElem?_getD]

/-- Every entry of `nodes_map` maps back (through `nodes_order`) to its own index. -/
def MapOK (o : Out) (M : Array (Option Nat)) : Prop := ∀ u v, aget M u = some v → orig o v = u

theorem mapOK_insert (o : Out) (M : Array (Option Nat)) (ie : InsEv α) (h : MapOK o M) :
    MapOK o (insertEdge o.order.toArray M ie) := by
  unfold insertEdge
  have step : ∀ (M : Array (Option Nat)) (w : Nat), MapOK o M →
      MapOK o (aset M (aget o.order.toArray w) (some w)) := by
    intro M w hM u v huv
    by_cases hk : aget o.order.toArray w < M.size
    · rw [aget_aset _ _ _ _ hk] at huv
      split_ifs at huv with hu
      · cases huv; rw [hu, orig_eq_aget]
      · exact hM u v huv
    · have : aset M (aget o.order.toArray w) (some w) = M := by
        simp [aset, Array.setIfInBounds, hk]
      rw [this] at huv; exact hM u v huv
  exact step _ _ (step _ _ h)

theorem mapOK_foldl (o : Out) (l : List (InsEv α)) (M : Array (Option Nat)) (h : MapOK o M) :
    MapOK o (l.foldl (insertEdge o.order.toArray) M) := by
  induction l generalizing M with
  | nil => exact h
  | cons a l ih => exact ih _ (mapOK_insert o M a h)

theorem aget_replicate_none (n u : Nat) : aget (Array.replicate n (none : Option Nat)) u = none := by
  unfold aget
  rw [Array.getElem?_replicate]
  split_ifs <;> rfl

theorem mapOK_init (o : Out) (n : Nat) : MapOK o (Array.replicate n none) := by
  intro u v h
  rw [aget_replicate_none] at h
  cases h

section WithSplit
variable {N : Nat} (excl : Array Bool) {es : Array (SEdge α)} {ord : List Nat}

/-- **A mutation's new node maps back to its old node**, whatever its position. -/
theorem assign_maps_back (hv : Valid N es ord) (insIdx : List Nat) (x : α) (u : Nat) (hu : u < N) :
    orig (splitDisjoint N excl es ord)
      (assign (mapUpTo (splitDisjoint N excl es ord).order.toArray
        (insEvs es (splitDisjoint N excl es ord) insIdx) x) u) = u := by
  have hM := mapOK_foldl (splitDisjoint N excl es ord)
    ((insEvs es (splitDisjoint N excl es ord) insIdx).filter (fun i => decide (i.pos ≤ x))) _
    (mapOK_init (splitDisjoint N excl es ord) (splitDisjoint N excl es ord).order.toArray.size)
  unfold assign mapUpTo
  split
  · rename_i v hv'; exact hM u v hv'
  · show (List.range N ++ _).getD u 0 = u
    rw [List.getD_eq_getElem?_getD, List.getElem?_append_left (by simpa using hu)]
    simp [hu]

/-- One edge inserted: what happens to entry `u` of `nodes_map`. -/
theorem insert_get (hv : Valid N es ord) (M : Array (Option Nat))
    (hsz : M.size = (splitDisjoint N excl es ord).order.length) (e : Nat) (he : e < es.size) (u : Nat) :
    aget (insertEdge (splitDisjoint N excl es ord).order.toArray M
      ({ pos := (aget es e).left, child := newNode (splitDisjoint N excl es ord) e true,
         parent := newNode (splitDisjoint N excl es ord) e false } : InsEv α)) u =
      if oldNode es e false = u then some (newNode (splitDisjoint N excl es ord) e false)
      else if oldNode es e true = u then some (newNode (splitDisjoint N excl es ord) e true)
      else aget M u := by
  unfold insertEdge
  simp only [orig_eq_aget, orig_newNode excl hv e he]
  have hlt : ∀ r, oldNode es e r < M.size := by
    intro r
    rw [hsz]
    show _ < (List.range N ++ _).length
    have := oldNode_lt hv e he r
    simp; omega
  rw [aget_aset _ _ _ _ (by simpa using hlt false)]
  by_cases h1 : u = oldNode es e false
  · simp [h1]
  · rw [if_neg h1, if_neg (fun h => h1 h.symm), aget_aset _ _ _ _ (hlt true)]
    by_cases h2 : u = oldNode es e true
    · simp [h2]
    · rw [if_neg h2, if_neg (fun h => h2 h.symm)]

theorem insert_size (order : Array Nat) (M : Array (Option Nat)) (ie : InsEv α) :
    (insertEdge order M ie).size = M.size := by simp [insertEdge]

/-- The fold over a list of edge ids, as a function on `nodes_map`. -/
def foldIds (es : Array (SEdge α)) (o : Out) (ids : List Nat) (M : Array (Option Nat)) :
    Array (Option Nat) :=
  (insEvs es o ids).foldl (insertEdge o.order.toArray) M

theorem foldIds_size (es : Array (SEdge α)) (o : Out) (ids : List Nat) (M : Array (Option Nat)) :
    (foldIds es o ids M).size = M.size := by
  unfold foldIds insEvs
  induction ids generalizing M with
  | nil => rfl
  | cons a l ih => simp only [List.map_cons, List.foldl_cons]; rw [ih, insert_size]

theorem foldIds_cons (es : Array (SEdge α)) (o : Out) (a : Nat) (ids : List Nat) (M : Array (Option Nat)) :
    foldIds es o (a :: ids) M = foldIds es o ids (insertEdge o.order.toArray M
      { pos := (aget es a).left, child := newNode o a true, parent := newNode o a false }) := rfl

theorem foldIds_append (es : Array (SEdge α)) (o : Out) (a b : List Nat) (M : Array (Option Nat)) :
    foldIds es o (a ++ b) M = foldIds es o b (foldIds es o a M) := by
  simp [foldIds, insEvs, List.foldl_append]

/-- Entries of nodes that none of the inserted edges touches are unchanged. -/
theorem foldIds_untouched (hv : Valid N es ord) (ids : List Nat) (hids : ∀ e ∈ ids, e < es.size)
    (M : Array (Option Nat)) (hsz : M.size = (splitDisjoint N excl es ord).order.length) (u : Nat)
    (hno : ∀ e ∈ ids, ∀ r, oldNode es e r ≠ u) :
    aget (foldIds es (splitDisjoint N excl es ord) ids M) u = aget M u := by
  induction ids generalizing M with
  | nil => rfl
  | cons a l ih =>
    rw [foldIds_cons, ih (fun e he => hids e (List.mem_cons_of_mem _ he)) _
      (by rw [insert_size]; exact hsz) (fun e he => hno e (List.mem_cons_of_mem _ he)),
      insert_get excl hv M hsz a (hids a (List.mem_cons_self ..)) u,
      if_neg (hno a (List.mem_cons_self ..) false), if_neg (hno a (List.mem_cons_self ..) true)]

/-- If every inserted edge that touches `u` gives it the same output node `v`, and the entry is
already `v`, it stays `v`. -/
theorem foldIds_stable (hv : Valid N es ord) (ids : List Nat) (hids : ∀ e ∈ ids, e < es.size)
    (M : Array (Option Nat)) (hsz : M.size = (splitDisjoint N excl es ord).order.length) (u v : Nat)
    (hM : aget M u = some v)
    (hall : ∀ e ∈ ids, ∀ r, oldNode es e r = u → newNode (splitDisjoint N excl es ord) e r = v) :
    aget (foldIds es (splitDisjoint N excl es ord) ids M) u = some v := by
  induction ids generalizing M with
  | nil => exact hM
  | cons a l ih =>
    rw [foldIds_cons]
    apply ih (fun e he => hids e (List.mem_cons_of_mem _ he)) _ (by rw [insert_size]; exact hsz)
    · rw [insert_get excl hv M hsz a (hids a (List.mem_cons_self ..)) u]
      split_ifs with h1 h2
      · rw [hall a (List.mem_cons_self ..) false h1]
      · rw [hall a (List.mem_cons_self ..) true h2]
      · exact hM
    · exact fun e he => hall e (List.mem_cons_of_mem _ he)

/-- **A mutation moves to the piece present at its position.**  `insIdx` is tskit's edge insertion
order (any enumeration of the edge ids sorted by left coordinate).  If the mutation's node `u` is in
the local tree at `x` through edge `e` (role `r`), the sweep assigns the mutation to the output node
that edge `e` has in that role. -/
theorem assign_present (hv : Valid N es ord) (insIdx : List Nat) (hvi : Valid N es insIdx) (x : α)
    (e : Nat) (he : e < es.size) (r : Bool) (hc : covers es e x) :
    assign (mapUpTo (splitDisjoint N excl es ord).order.toArray
      (insEvs es (splitDisjoint N excl es ord) insIdx) x) (oldNode es e r)
      = newNode (splitDisjoint N excl es ord) e r := by
  set o := splitDisjoint N excl es ord with ho
  set u := oldNode es e r with hu
  -- the edges inserted up to position x, as a list of edge ids
  set F := insIdx.filter (fun e' => decide ((aget es e').left ≤ x)) with hF
  have hmap : mapUpTo o.order.toArray (insEvs es o insIdx) x =
      foldIds es o F (Array.replicate o.order.toArray.size none) := by
    unfold mapUpTo foldIds insEvs
    rw [List.filter_map]
    rfl
  have hFlt : ∀ e' ∈ F, e' < es.size := fun e' h' => hvi.ordLt e' ((List.mem_filter.mp h').1)
  have hFx : ∀ e' ∈ F, (aget es e').left ≤ x := by
    intro e' h'; simpa using (List.mem_filter.mp h').2
  have heF : e ∈ F := List.mem_filter.mpr ⟨hvi.ordAll e he, by simpa using hc.1⟩
  have hFsorted : F.Pairwise (fun a b => (aget es a).left ≤ (aget es b).left) :=
    hvi.ordSorted.sublist List.filter_sublist
  obtain ⟨A, B, hAB⟩ := List.append_of_mem heF
  have hB : ∀ e' ∈ B, (aget es e).left ≤ (aget es e').left := by
    rw [hAB] at hFsorted
    exact (List.pairwise_cons.mp (List.pairwise_append.mp hFsorted).2.1).1
  have hsz0 : (Array.replicate o.order.toArray.size (none : Option Nat)).size = o.order.length := by simp
  -- every edge at or after `e` in `F` that touches `u` is in the same piece as `(e, r)`
  have hsame : ∀ e' ∈ e :: B, ∀ r', oldNode es e' r' = u → newNode o e' r' = newNode o e r := by
    intro e' he' r' hr'
    have he'F : e' ∈ F := by rw [hAB]; exact List.mem_append_right _ he'
    have hle : (aget es e).left ≤ (aget es e').left := by
      rcases List.mem_cons.mp he' with rfl | h
      · exact le_rfl
      · exact hB e' h
    have hlt' := hFlt e' he'F
    refine same_piece_of_overlap excl hv e' e hlt' he r' r hr' (aget es e').left
      ⟨le_rfl, hv.pos e' hlt'⟩ ⟨hle, lt_of_le_of_lt (hFx e' he'F) hc.2⟩
  -- after inserting `e` the entry of `u` is the piece of `(e, r)`
  set M1 := foldIds es o A (Array.replicate o.order.toArray.size none) with hM1
  have hsz1 : M1.size = o.order.length := by rw [hM1, foldIds_size]; exact hsz0
  have hstep : aget (insertEdge o.order.toArray M1
      ({ pos := (aget es e).left, child := newNode o e true, parent := newNode o e false } : InsEv α)) u
      = some (newNode o e r) := by
    rw [insert_get excl hv M1 hsz1 e he u]
    split_ifs with h1 h2
    · rw [hsame e (List.mem_cons_self ..) false h1]
    · rw [hsame e (List.mem_cons_self ..) true h2]
    · exfalso
      cases r
      · exact h1 rfl
      · exact h2 rfl
  have hfinal : aget (foldIds es o F (Array.replicate o.order.toArray.size none)) u = some (newNode o e r) := by
    rw [hAB, foldIds_append, foldIds_cons]
    apply foldIds_stable excl hv B (fun e' h' => hFlt e' (by rw [hAB]; simp [h'])) _
      (by rw [insert_size]; exact hsz1) u _ hstep
    exact fun e' h' => hsame e' (List.mem_cons_of_mem _ h')
  rw [hmap]
  unfold assign
  rw [hfinal]

/-- **A mutation whose node has no edge starting at or left of its position keeps its node id**
(e.g. a sample that is isolated up to there, or a site left of all edges). -/
theorem assign_absent (hv : Valid N es ord) (insIdx : List Nat) (hvi : Valid N es insIdx) (x : α) (u : Nat)
    (hno : ∀ e, e < es.size → ∀ r, oldNode es e r = u → x < (aget es e).left) :
    assign (mapUpTo (splitDisjoint N excl es ord).order.toArray
      (insEvs es (splitDisjoint N excl es ord) insIdx) x) u = u := by
  set o := splitDisjoint N excl es ord with ho
  set F := insIdx.filter (fun e' => decide ((aget es e').left ≤ x)) with hF
  have hmap : mapUpTo o.order.toArray (insEvs es o insIdx) x =
      foldIds es o F (Array.replicate o.order.toArray.size none) := by
    unfold mapUpTo foldIds insEvs
    rw [List.filter_map]
    rfl
  have hFlt : ∀ e' ∈ F, e' < es.size := fun e' h' => hvi.ordLt e' ((List.mem_filter.mp h').1)
  have hnone := foldIds_untouched excl hv F hFlt (Array.replicate o.order.toArray.size none)
    (by rw [ho]; simp) u
    (by
      intro e' h' r' hr'
      have h1 : (aget es e').left ≤ x := by simpa using (List.mem_filter.mp h').2
      exact absurd (hno e' (hFlt e' h') r' hr') (not_lt.mpr h1))
  rw [hmap]
  unfold assign
  rw [hnone, aget_replicate_none]

/-- What the sweep needs of the removal index `remIdx` (tskit's edge removal order). -/
structure RemOK (es : Array (SEdge α)) (remIdx : List Nat) : Prop where
  lt : ∀ e ∈ remIdx, e < es.size
  all : ∀ e, e < es.size → e ∈ remIdx
  sorted : remIdx.Pairwise (fun a b => (aget es a).right ≤ (aget es b).right)

theorem le_getLast_of_sorted {l : List α} (hs : l.Pairwise (· ≤ ·)) {s : α} (h : l.getLast? = some s) :
    ∀ x ∈ l, x ≤ s := by
  obtain ⟨ys, rfl⟩ := List.getLast?_eq_some_iff.mp h
  intro x hx
  rcases List.mem_append.mp hx with hx | hx
  · exact (List.pairwise_append.mp hs).2.2 x hx s (by simp)
  · simp only [List.mem_singleton] at hx; rw [hx]

/-- The table-level hypotheses give the hypotheses of the sweep refinement. -/
theorem sweepOK_of_tables (zero : α) (o : Out) (insIdx remIdx : List Nat) (muts : List (α × Nat))
    (hvi : Valid N es insIdx) (hrem : RemOK es remIdx)
    (h0 : ∀ e, e < es.size → zero ≤ (aget es e).left)
    (hms : muts.Pairwise (fun a b => a.1 ≤ b.1)) (hm0 : ∀ m ∈ muts, zero ≤ m.1) :
    SweepOK zero (insEvs es o insIdx) (remIdx.map (fun e => (aget es e).right)) muts := by
  refine ⟨?_, ?_, hms, ?_, ?_, hm0, ?_, ?_⟩
  · unfold insEvs; rw [List.pairwise_map]; exact hvi.ordSorted
  · rw [List.pairwise_map]; exact hrem.sorted
  · intro i hi
    obtain ⟨e, he, rfl⟩ := List.mem_map.mp hi
    exact h0 e (hvi.ordLt e he)
  · intro r hr
    obtain ⟨e, he, rfl⟩ := List.mem_map.mp hr
    exact le_trans (h0 e (hrem.lt e he)) (le_of_lt (hvi.pos e (hrem.lt e he)))
  · intro s hs i hi
    obtain ⟨e, he, rfl⟩ := List.mem_map.mp hi
    have hlt := hvi.ordLt e he
    have hmem : (aget es e).right ∈ remIdx.map (fun e => (aget es e).right) :=
      List.mem_map.mpr ⟨e, hrem.all e hlt, rfl⟩
    have hsorted : (remIdx.map (fun e => (aget es e).right)).Pairwise (· ≤ ·) := by
      rw [List.pairwise_map]; exact hrem.sorted
    exact lt_of_lt_of_le (hvi.pos e hlt) (le_getLast_of_sorted hsorted hs _ hmem)
  · intro hnil
    have hr : remIdx = [] := List.map_eq_nil_iff.mp hnil
    have hE : es.size = 0 := by
      by_contra hne
      have := hrem.all 0 (Nat.pos_of_ne_zero hne)
      rw [hr] at this; simp at this
    unfold insEvs
    rw [List.map_eq_nil_iff]
    apply List.eq_nil_iff_forall_not_mem.mpr
    intro e he
    have := hvi.ordLt e he
    omega

end WithSplit

end Tsdate.Split
