/-
`posterior_exact` for the model: on a single tree, in linear space, inside × outside of every
non-fixed node is a non-zero multiple of the brute-force marginal.
-/
import TsdateVerif.Proofs.DiscreteOutLin
import TsdateVerif.Proofs.DiscretePosterior3
import TsdateVerif.Proofs.DiscreteFinal
import TsdateVerif.Proofs.DiscreteHom

namespace Tsdate.Discrete
open Tsdate

/-- **Decidable hypothesis on the outside edge order** (evaluated by the harness on the real
`edges_by_child_desc` order): `outGroupsOK` (children contiguous, in range, parents finished first),
every non-fixed child group is a single input edge, and every input edge with a non-fixed child has
its group. -/
def outsideOK {α : Type} [Inhabited α] (inp : Input α) (order : List DEdge) : Bool :=
  let cg := groupRuns (·.c) order
  outGroupsOK inp.fixed inp.numNodes cg &&
  cg.all (fun g => aget inp.fixed g.1 ||
    (match g.2 with
     | [e] => e.c == g.1 && inp.edges.contains e
     | _ => false)) &&
  inp.edges.all (fun e => aget inp.fixed e.c || cg.contains (e.c, [e]))

section
variable {α : Type} [Field α]
variable (G : Nat) (fixed : Nat → Bool) (prior : Nat → Nat → α) (L : DEdge → Nat → Nat → α)
  (I : Nat → Nat → α) (d : Nat → α)

/-- the root (last parent) is not the non-fixed child of any edge -/
theorem root_not_child : ∀ (gs : List (Nat × List DEdge)) (hne : gs ≠ []),
    TreeOK G fixed prior L I d gs → ∀ e ∈ gs.flatMap (·.2), fixed e.c = false →
      e.c ≠ (gs.getLast hne).1
  | [], hne, _, _, _, _ => absurd rfl hne
  | [g], _, h, e, he, hf => by
    simp only [List.flatMap_cons, List.flatMap_nil, List.append_nil] at he
    simp only [List.getLast_singleton]
    rcases h.1.es_c e he with h' | h'
    · rw [hf] at h'; cases h'
    · exact h'.1
  | g :: g' :: rest, _, h, e, he, hf => by
    rw [List.getLast_cons (by simp)]
    rw [List.flatMap_cons, List.mem_append] at he
    rcases he with he | he
    · rcases h.1.es_c e he with h' | h'
      · rw [hf] at h'; cases h'
      · intro heq
        apply h'.2
        rw [heq]
        exact List.mem_map_of_mem (List.getLast_mem _)
    · exact root_not_child (g' :: rest) (by simp) h.2.2 e he hf

end

section
variable {α : Type} [Inhabited α]

theorem aset_oob (a : Array α) (i : Nat) (v : α) (h : ¬ i < a.size) : aset a i v = a := by
  unfold aset Array.setIfInBounds
  rw [dif_neg h]

theorem outsideFold_rowsize {β : Type} [Field β] [Inhabited β] (o : Ops β) (inp : Input β)
    (s : InsideState β) (std ign : Bool) (gs : List (Nat × List DEdge)) (out : Array (Array β))
    (u : Nat) (h : (aget out u).size = inp.G) :
    (aget (outsideFold o inp s std ign gs out) u).size = inp.G := by
  induction gs generalizing out with
  | nil => exact h
  | cons g rest ih =>
    apply ih
    by_cases hf : aget inp.fixed g.1 = true
    · rw [outsideGroup_fixed o inp s std ign out g hf]; exact h
    · rw [outsideGroup_eq o inp s std ign out g (by simpa using hf)]
      by_cases hu : u = g.1
      · by_cases hlt : g.1 < out.size
        · rw [hu, aget_aset_same _ _ _ hlt]
          simp [length_outRow]
        · rw [aset_oob _ _ _ hlt]; exact h
      · rw [aget_aset_other _ _ _ _ hu]; exact h

end
end Tsdate.Discrete
