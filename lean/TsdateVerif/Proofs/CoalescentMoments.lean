/-
Moments under the closed form: total mass 1, mean `(k-1)/n` (= `tau_expect`), and the arrays
`mean`, `variance` of `conditional_coalescent_variance` (C14).
-/
import TsdateVerif.Proofs.CoalescentLoop
import Mathlib.Algebra.BigOperators.Ring.Finset
import Mathlib.Algebra.BigOperators.Field

namespace Tsdate.Coalescent
open Finset
set_option linter.unusedSectionVars false

variable {α : Type} [Field α] [CharZero α]

/-! ### Sums over the closed form (parameters `k = s+2`, `n = M+s+3`, `a = i+2`) -/

theorem closedP_param (M s i : ℕ) (hi : i ≤ M) :
    closedP (α := α) (M + s + 3) (s + 2) (2 + i)
      = ((i + 2).choose 2 : α) * ((M - i + s).choose s : α) / ((M + s + 3).choose (s + 3) : α) := by
  unfold closedP
  have e1 : M + s + 3 - (2 + i) - 1 = M - i + s := by omega
  rw [e1, show s + 2 - 2 = s by omega, show 2 + i = i + 2 by omega]

theorem sum_closed_param (M s : ℕ) (g : ℕ → α) :
    ∑ a ∈ Ico 2 (M + s + 3 - (s + 2) + 2), closedP (M + s + 3) (s + 2) a * g a
      = ∑ i ∈ range (M + 1),
          ((i + 2).choose 2 : α) * ((M - i + s).choose s : α) / ((M + s + 3).choose (s + 3) : α)
            * g (2 + i) := by
  rw [sum_Ico_eq_sum_range, show M + s + 3 - (s + 2) + 2 - 2 = M + 1 by omega]
  apply sum_congr rfl
  intro i hi
  rw [closedP_param M s i (Nat.lt_succ_iff.mp (mem_range.mp hi))]

theorem closed_total_param (M s : ℕ) :
    ∑ i ∈ range (M + 1),
        ((i + 2).choose 2 : α) * ((M - i + s).choose s : α) / ((M + s + 3).choose (s + 3) : α) = 1 := by
  have hD : ((M + s + 3).choose (s + 3) : α) ≠ 0 := choose_cast_ne_zero (by omega)
  rw [← sum_div, div_eq_one_iff_eq hD]
  have := vander 2 s M
  rw [show M + 2 + s + 1 = M + s + 3 by omega, show 2 + s + 1 = s + 3 by omega] at this
  exact_mod_cast this

theorem closed_mean_param (M s : ℕ) :
    ∑ i ∈ range (M + 1),
        ((i + 2).choose 2 : α) * ((M - i + s).choose s : α) / ((M + s + 3).choose (s + 3) : α)
          * (2 * (1 / ((2 + i : ℕ) : α) - 1 / ((M + s + 3 : ℕ) : α)))
      = ((s + 1 : ℕ) : α) / ((M + s + 3 : ℕ) : α) := by
  have hD : ((M + s + 3).choose (s + 3) : α) ≠ 0 := choose_cast_ne_zero (by omega)
  have hn : ((M + s + 3 : ℕ) : α) ≠ 0 := Nat.cast_ne_zero.mpr (by omega)
  -- split each term
  have hterm : ∀ i ∈ range (M + 1),
      ((i + 2).choose 2 : α) * ((M - i + s).choose s : α) / ((M + s + 3).choose (s + 3) : α)
          * (2 * (1 / ((2 + i : ℕ) : α) - 1 / ((M + s + 3 : ℕ) : α)))
        = (((i + 1).choose 1 * (M - i + s).choose s : ℕ) : α) / ((M + s + 3).choose (s + 3) : α)
          - 2 / ((M + s + 3 : ℕ) : α)
            * (((i + 2).choose 2 : α) * ((M - i + s).choose s : α) / ((M + s + 3).choose (s + 3) : α)) := by
    intro i _
    have hi2 : ((2 + i : ℕ) : α) ≠ 0 := Nat.cast_ne_zero.mpr (by omega)
    have h2 : ((i + 2).choose 2 : α) * 2 = ((2 + i : ℕ) : α) * ((i + 1).choose 1 : α) := by
      have := Nat.add_one_mul_choose_eq (i + 1) 1
      rw [show i + 1 + 1 = 2 + i by omega] at this
      rw [show i + 2 = 2 + i by omega]
      exact_mod_cast this.symm
    rw [Nat.cast_mul]
    field_simp
    linear_combination (((M - i + s).choose s : α) * ((M + s + 3 : ℕ) : α)) * h2
  rw [sum_congr rfl hterm, sum_sub_distrib, ← mul_sum, closed_total_param, ← sum_div, ← Nat.cast_sum]
  have hv := vander 1 s M
  rw [show M + 1 + s + 1 = M + s + 2 by omega, show 1 + s + 1 = s + 2 by omega] at hv
  have hv' : ∑ i ∈ range (M + 1), (i + 1).choose 1 * (M - i + s).choose s = (M + s + 2).choose (s + 2) := hv
  rw [hv']
  have hr : ((M + s + 3 : ℕ) : α) * ((M + s + 2).choose (s + 2) : α)
      = ((M + s + 3).choose (s + 3) : α) * ((s + 3 : ℕ) : α) := by
    have := Nat.add_one_mul_choose_eq (M + s + 2) (s + 2)
    exact_mod_cast this
  have e : ((s + 3 : ℕ) : α) = ((s + 1 : ℕ) : α) + 2 := by push_cast; ring
  field_simp
  linear_combination hr + ((M + s + 3).choose (s + 3) : α) * e

/-- **Total mass**: the closed form sums to one over `a = 2 … n-k+1`. -/
theorem closed_sums_to_one' (n k : ℕ) (hk : 2 ≤ k) (hkn : k < n) :
    ∑ a ∈ Ico 2 (n - k + 2), closedP (α := α) n k a = 1 := by
  obtain ⟨s, rfl⟩ : ∃ s, k = s + 2 := ⟨k - 2, by omega⟩
  obtain ⟨M, rfl⟩ : ∃ M, n = M + s + 3 := ⟨n - s - 3, by omega⟩
  have := sum_closed_param (α := α) M s (fun _ => 1)
  simp only [mul_one] at this
  rw [this, closed_total_param]

/-- **Mean**: `Σ_a P(a|k,n) · 2(1/a − 1/n) = (k−1)/n`. -/
theorem closed_mean' (n k : ℕ) (hk : 2 ≤ k) (hkn : k < n) :
    ∑ a ∈ Ico 2 (n - k + 2), closedP (α := α) n k a * (2 * (1 / (a : α) - 1 / (n : α)))
      = ((k - 1 : ℕ) : α) / (n : α) := by
  obtain ⟨s, rfl⟩ : ∃ s, k = s + 2 := ⟨k - 2, by omega⟩
  obtain ⟨M, rfl⟩ : ∃ M, n = M + s + 3 := ⟨n - s - 3, by omega⟩
  rw [sum_closed_param (α := α) M s (fun a => 2 * (1 / (a : α) - 1 / ((M + s + 3 : ℕ) : α))),
    closed_mean_param, show s + 2 - 1 = s + 1 by omega]

end Tsdate.Coalescent
