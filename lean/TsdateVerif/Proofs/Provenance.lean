/-
Lemmas about the provenance model (C33). Core Lean only.
-/
import TsdateVerif.Model.Provenance

namespace Tsdate.Provenance

variable {R : Type}

/-- Whatever sites are executed, in whatever order and however often, the table only grows at the
end: the old records are a prefix of the new table. -/
theorem execPath_prefix (user : Bool) (mk : Site → R) : ∀ (path : List Site) (prov out : List R),
    execPath user mk prov path = some out → ∃ suffix, out = prov ++ suffix := by
  intro path
  induction path with
  | nil => intro prov out h; simp [execPath] at h; exact ⟨[], by simp [h]⟩
  | cons s rest ih =>
    intro prov out h
    simp only [execPath] at h
    cases hf : s.flag.fires user with
    | none => simp [hf] at h
    | some b =>
      cases b with
      | true =>
        simp only [hf] at h
        obtain ⟨suf, hs⟩ := ih _ _ h
        exact ⟨mk s :: suf, by simp [hs]⟩
      | false =>
        simp only [hf] at h
        exact ih _ _ h

/-- On a path whose record sites are guarded by the user's flag and whose other sites are switched
off, the table ends up as the old table plus one row per executed record site (if recording is on)
or unchanged (if it is off). -/
theorem execPath_wf (user : Bool) (mk : Site → R) : ∀ (path : List Site) (prov : List R),
    (∀ s ∈ path, s.isRecord = true → s.flag = Flag.user) →
    (∀ s ∈ path, s.isRecord = false → s.flag = Flag.constFalse) →
    execPath user mk prov path
      = some (prov ++ (if user then (path.filter Site.isRecord).map mk else [])) := by
  intro path
  induction path with
  | nil => intro prov _ _; cases user <;> simp [execPath]
  | cons s rest ih =>
    intro prov h1 h2
    have h1' : ∀ s' ∈ rest, s'.isRecord = true → s'.flag = Flag.user :=
      fun s' hs => h1 s' (List.mem_cons_of_mem _ hs)
    have h2' : ∀ s' ∈ rest, s'.isRecord = false → s'.flag = Flag.constFalse :=
      fun s' hs => h2 s' (List.mem_cons_of_mem _ hs)
    cases hr : s.isRecord with
    | true =>
      have hf := h1 s (List.mem_cons_self ..) hr
      cases user with
      | true =>
        simp only [execPath, hf, Flag.fires]
        rw [ih _ h1' h2']
        simp [hr]
      | false =>
        simp only [execPath, hf, Flag.fires]
        rw [ih _ h1' h2']
        simp
    | false =>
      have hf := h2 s (List.mem_cons_self ..) hr
      simp only [execPath, hf, Flag.fires]
      rw [ih _ h1' h2']
      simp [hr]

theorem sitesOk_spec (sites : List Site) (h : sitesOk sites = true) :
    (∀ s ∈ opSites sites, s.isRecord = true → s.flag = Flag.user) ∧
    (∀ s ∈ opSites sites, s.isRecord = false → s.flag = Flag.constFalse) := by
  unfold sitesOk at h
  rw [List.all_eq_true] at h
  constructor
  · intro s hs hr
    have hm : s ∈ sites := (List.mem_filter.mp hs).1
    have := h s hm
    simp only [Site.isRecord] at hr
    simpa [hr] using this
  · intro s hs hr
    have hm : s ∈ sites := (List.mem_filter.mp hs).1
    have hk : (s.kind != "addrow") = true := (List.mem_filter.mp hs).2
    have := h s hm
    simp only [Site.isRecord] at hr
    have hk' : (s.kind == "addrow") = false := by simpa using hk
    simpa [hr, hk'] using this

/-! ### dictionaries -/

theorem dget_dset_same (k : String) (v : PVal) (d : Dict) : dget k (dset k v d) = some v := by
  induction d with
  | nil => simp [dset, dget]
  | cons kv d ih =>
    obtain ⟨k', v'⟩ := kv
    by_cases h : k' = k
    · simp [dset, dget, h]
    · simp [dset, dget, h, ih]

theorem dget_dset_other (k k' : String) (v : PVal) (d : Dict) (h : k' ≠ k) :
    dget k' (dset k v d) = dget k' d := by
  induction d with
  | nil =>
    have h' : ¬ k = k' := fun e => h e.symm
    simp [dset, dget, h']
  | cons kv d ih =>
    obtain ⟨k'', v''⟩ := kv
    by_cases h2 : k'' = k
    · subst h2
      simp [dset, dget, Ne.symm h]
    · by_cases h3 : k'' = k'
      · subst h3
        simp [dset, dget, h2]
      · simp [dset, dget, h2, h3, ih]

/-- `d.update({k: f k for k in ks})`: keys in `ks` get `f k`, the others keep their value. -/
theorem dget_dupdate_map (f : String → PVal) (k : String) : ∀ (ks : List String) (d : Dict),
    dget k (dupdate d (ks.map (fun x => (x, f x))))
      = if k ∈ ks then some (f k) else dget k d := by
  intro ks
  induction ks with
  | nil => intro d; simp [dupdate]
  | cons x ks ih =>
    intro d
    simp only [dupdate, List.map_cons, List.foldl_cons] at ih ⊢
    rw [ih]
    by_cases hk : k ∈ ks
    · simp [hk]
    · by_cases hx : k = x
      · subst hx
        simp [hk, dget_dset_same]
      · simp [hk, hx, dget_dset_other _ _ _ _ hx]

/-- the keys of a dictionary, in order -/
def dkeys (d : Dict) : List String := d.map Prod.fst

theorem dkeys_dset_new (k : String) (v : PVal) (d : Dict) (h : k ∉ dkeys d) :
    dkeys (dset k v d) = dkeys d ++ [k] := by
  induction d with
  | nil => simp [dset, dkeys]
  | cons kv d ih =>
    obtain ⟨k', v'⟩ := kv
    have hne : ¬ k' = k := fun e => h (by simp [dkeys, e])
    have hd : k ∉ dkeys d := fun hm => h (by simp only [dkeys, List.map_cons, List.mem_cons]; exact Or.inr hm)
    have := ih hd
    simp only [dkeys] at this ⊢
    simp [dset, hne, this]

/-- updating with fresh, pairwise distinct keys appends exactly those keys, in order -/
theorem dkeys_dupdate_map (f : String → PVal) : ∀ (ks : List String) (d : Dict),
    ks.Nodup → (∀ k ∈ ks, k ∉ dkeys d) →
    dkeys (dupdate d (ks.map (fun x => (x, f x)))) = dkeys d ++ ks := by
  intro ks
  induction ks with
  | nil => intro d _ _; simp [dupdate]
  | cons x ks ih =>
    intro d hnd hfresh
    have hx : x ∉ dkeys d := hfresh x (List.mem_cons_self ..)
    have hnd' : ks.Nodup := (List.nodup_cons.mp hnd).2
    have hxks : x ∉ ks := (List.nodup_cons.mp hnd).1
    have hfresh' : ∀ k ∈ ks, k ∉ dkeys (dset x (f x) d) := by
      intro k hk
      rw [dkeys_dset_new _ _ _ hx]
      intro hm
      rcases List.mem_append.mp hm with h | h
      · exact hfresh k (List.mem_cons_of_mem _ hk) h
      · have : k = x := by simpa using h
        exact hxks (this ▸ hk)
    have := ih (dset x (f x) d) hnd' hfresh'
    simp only [dupdate, List.map_cons, List.foldl_cons] at this ⊢
    rw [this, dkeys_dset_new _ _ _ hx]
    simp

end Tsdate.Provenance
