/-
The inside pass of `Model/Discrete.lean` (a fold over parent groups that threads mutable arrays)
satisfies the order-free recursive equations: the row of every parent is the group computation
evaluated on the *final* inside rows.  Generic in the probability space (`Ops`).
-/
import Mathlib.Tactic.SplitIfs
import Mathlib.Data.List.Basic
import TsdateVerif.Proofs.DiscreteRows

namespace Tsdate.Discrete
open Tsdate

/-- Decidable hypothesis on the parent groups (tskit's edge order gives it): for every non-fixed
parent, the node id is in range, no later group has the same parent (all edges of a parent are
contiguous), and none of its non-fixed children is the parent of this or a later group (children are
finished before they are read). -/
def groupsOK (fixed : Array Bool) (n : Nat) : List (Nat × List DEdge) → Bool
  | [] => true
  | g :: rest =>
    (aget fixed g.1 ||
      (decide (g.1 < n) && rest.all (fun g' => g'.1 != g.1) &&
       g.2.all (fun e => aget fixed e.c || (e.c != g.1 && rest.all (fun g' => g'.1 != e.c)))))
    && groupsOK fixed n rest

section
variable {α : Type} [Inhabited α]

/-- The value `val` a parent group accumulates: prior row combined with every edge message, the
messages being computed from the inside rows `inside`. -/
def groupVal (o : Ops α) (inp : Input α) (inside : Array (Array α)) (g : Nat × List DEdge) : List α :=
  g.2.foldl (fun acc e => List.zipWith o.combine acc (edgeMsg o inp inside e)) (aget inp.prior g.1).toList

theorem insideEdge_fold_fst (o : Ops α) (inp : Input α) (ins : Array (Array α)) (es : List DEdge)
    (v : List α) (gi : Array (Array α)) :
    (es.foldl (insideEdge o inp ins) (v, gi)).1
      = es.foldl (fun acc e => List.zipWith o.combine acc (edgeMsg o inp ins e)) v := by
  induction es generalizing v gi with
  | nil => rfl
  | cons e es ih => simp only [List.foldl_cons, insideEdge]; exact ih _ _

theorem edgeMsg_congr (o : Ops α) (inp : Input α) (i1 i2 : Array (Array α)) (e : DEdge)
    (h : aget inp.fixed e.c = false → aget i1 e.c = aget i2 e.c) :
    edgeMsg o inp i1 e = edgeMsg o inp i2 e := by
  unfold edgeMsg
  split_ifs with hf
  · rfl
  · rw [h (by simpa using hf)]

theorem groupVal_congr (o : Ops α) (inp : Input α) (i1 i2 : Array (Array α)) (g : Nat × List DEdge)
    (h : ∀ e ∈ g.2, aget inp.fixed e.c = false → aget i1 e.c = aget i2 e.c) :
    groupVal o inp i1 g = groupVal o inp i2 g := by
  unfold groupVal
  generalize (aget inp.prior g.1).toList = v
  revert h
  generalize g.2 = es
  intro h
  induction es generalizing v with
  | nil => rfl
  | cons e es ih =>
    simp only [List.foldl_cons]
    rw [edgeMsg_congr o inp i1 i2 e (h e (List.mem_cons_self ..))]
    exact ih _ (fun e' he' => h e' (List.mem_cons_of_mem _ he'))

/-! ### One group -/

theorem insideGroup_fixed (o : Ops α) (inp : Input α) (std : Bool) (s : InsideState α)
    (g : Nat × List DEdge) (h : aget inp.fixed g.1 = true) : insideGroup o inp std s g = s := by
  unfold insideGroup; rw [if_pos h]

theorem insideGroup_inside (o : Ops α) (inp : Input α) (std : Bool) (s : InsideState α)
    (g : Nat × List DEdge) (h : aget inp.fixed g.1 = false) :
    (insideGroup o inp std s g).inside = aset s.inside g.1
      ((groupVal o inp s.inside g).map (fun v => o.ratio v
        (if std then o.maxl (groupVal o inp s.inside g) else o.one))).toArray := by
  unfold insideGroup
  rw [if_neg (by simp [h])]
  simp only [insideEdge_fold_fst]
  rfl

theorem insideGroup_denom (o : Ops α) (inp : Input α) (std : Bool) (s : InsideState α)
    (g : Nat × List DEdge) (h : aget inp.fixed g.1 = false) :
    (insideGroup o inp std s g).denom = aset s.denom g.1
        (if std then o.maxl (groupVal o inp s.inside g) else o.one) := by
  unfold insideGroup
  rw [if_neg (by simp [h])]
  simp only [insideEdge_fold_fst]
  rfl

theorem insideGroup_marg (o : Ops α) (inp : Input α) (std : Bool) (s : InsideState α)
    (g : Nat × List DEdge) (h : aget inp.fixed g.1 = false) :
    (insideGroup o inp std s g).marg
      = if std then o.combine s.marg (o.maxl (groupVal o inp s.inside g)) else s.marg := by
  unfold insideGroup
  rw [if_neg (by simp [h])]
  simp only [insideEdge_fold_fst]
  cases std <;> rfl

theorem insideGroup_sizes (o : Ops α) (inp : Input α) (std : Bool) (s : InsideState α)
    (g : Nat × List DEdge) :
    (insideGroup o inp std s g).inside.size = s.inside.size ∧
    (insideGroup o inp std s g).denom.size = s.denom.size := by
  by_cases h : aget inp.fixed g.1 = true
  · rw [insideGroup_fixed o inp std s g h]; exact ⟨rfl, rfl⟩
  · have h' : aget inp.fixed g.1 = false := by simpa using h
    rw [insideGroup_inside o inp std s g h', insideGroup_denom o inp std s g h']
    simp

theorem insideGroup_other (o : Ops α) (inp : Input α) (std : Bool) (s : InsideState α)
    (g : Nat × List DEdge) (u : Nat) (hu : aget inp.fixed g.1 = false → u ≠ g.1) :
    aget (insideGroup o inp std s g).inside u = aget s.inside u ∧
    aget (insideGroup o inp std s g).denom u = aget s.denom u := by
  by_cases h : aget inp.fixed g.1 = true
  · rw [insideGroup_fixed o inp std s g h]; exact ⟨rfl, rfl⟩
  · have h' : aget inp.fixed g.1 = false := by simpa using h
    rw [insideGroup_inside o inp std s g h', insideGroup_denom o inp std s g h']
    exact ⟨aget_aset_other _ _ _ _ (hu h'), aget_aset_other _ _ _ _ (hu h')⟩

/-! ### The fold -/

/-- the fold of the inside pass over a list of groups -/
def insideFold (o : Ops α) (inp : Input α) (std : Bool) (gs : List (Nat × List DEdge))
    (s : InsideState α) : InsideState α := gs.foldl (insideGroup o inp std) s

theorem insideFold_sizes (o : Ops α) (inp : Input α) (std : Bool) (gs : List (Nat × List DEdge))
    (s : InsideState α) :
    (insideFold o inp std gs s).inside.size = s.inside.size ∧
    (insideFold o inp std gs s).denom.size = s.denom.size := by
  induction gs generalizing s with
  | nil => exact ⟨rfl, rfl⟩
  | cons g gs ih =>
    have h1 := ih (insideGroup o inp std s g)
    have h2 := insideGroup_sizes o inp std s g
    exact ⟨h1.1.trans h2.1, h1.2.trans h2.2⟩

theorem insideFold_other (o : Ops α) (inp : Input α) (std : Bool) (gs : List (Nat × List DEdge))
    (s : InsideState α) (u : Nat) (hu : ∀ g ∈ gs, aget inp.fixed g.1 = false → u ≠ g.1) :
    aget (insideFold o inp std gs s).inside u = aget s.inside u ∧
    aget (insideFold o inp std gs s).denom u = aget s.denom u := by
  induction gs generalizing s with
  | nil => exact ⟨rfl, rfl⟩
  | cons g gs ih =>
    have h1 := ih (insideGroup o inp std s g) (fun g' hg' => hu g' (List.mem_cons_of_mem _ hg'))
    have h2 := insideGroup_other o inp std s g u (hu g (List.mem_cons_self ..))
    exact ⟨h1.1.trans h2.1, h1.2.trans h2.2⟩

/-- **The inside pass satisfies the recursive equations, for any child-before-parent edge order.**
After folding over groups that satisfy `groupsOK`, for every non-fixed parent `g.1`:
`denominator[g.1]` is `max(val)` (or the identity), and `inside[g.1] = ratio(val, denominator)`,
where `val` is the prior row combined with all edge messages *computed from the final inside rows*.
Nothing about the processing order remains in the statement. -/
theorem insideFold_spec (o : Ops α) (inp : Input α) (std : Bool) (gs : List (Nat × List DEdge))
    (s : InsideState α) (hsz : s.denom.size = s.inside.size)
    (hok : groupsOK inp.fixed s.inside.size gs = true) :
    ∀ g ∈ gs, aget inp.fixed g.1 = false →
      aget (insideFold o inp std gs s).denom g.1
        = (if std then o.maxl (groupVal o inp (insideFold o inp std gs s).inside g) else o.one) ∧
      aget (insideFold o inp std gs s).inside g.1
        = ((groupVal o inp (insideFold o inp std gs s).inside g).map
            (fun v => o.ratio v (aget (insideFold o inp std gs s).denom g.1))).toArray := by
  induction gs generalizing s with
  | nil => intro g hg; cases hg
  | cons g0 rest ih =>
    simp only [groupsOK, Bool.and_eq_true] at hok
    obtain ⟨hhead, hrest⟩ := hok
    have hsizes := insideGroup_sizes o inp std s g0
    have ih' := ih (insideGroup o inp std s g0) (by rw [hsizes.1, hsizes.2]; exact hsz)
      (by rw [hsizes.1]; exact hrest)
    intro g hg hfix
    rcases List.mem_cons.mp hg with rfl | hg'
    · -- the head group: its row is written now and never touched again
      have hh : aget inp.fixed g.1 = false := hfix
      simp only [hh, Bool.false_or, Bool.and_eq_true, decide_eq_true_eq, List.all_eq_true,
        bne_iff_ne, ne_eq, Bool.or_eq_true] at hhead
      obtain ⟨⟨hlt, hnodup⟩, hkids⟩ := hhead
      have hframe := insideFold_other o inp std rest (insideGroup o inp std s g) g.1
        (fun g' hg' _ => fun h => hnodup g' hg' h.symm)
      have hval : groupVal o inp (insideFold o inp std (g :: rest) s).inside g
          = groupVal o inp s.inside g := by
        apply groupVal_congr
        intro e he hfe
        have hk := hkids e he
        rcases hk with hk | hk
        · rw [hfe] at hk; exact absurd hk (by simp)
        · have h1 := (insideFold_other o inp std rest (insideGroup o inp std s g) e.c
            (fun g' hg' _ => fun h => hk.2 g' hg' h.symm)).1
          have h2 := (insideGroup_other o inp std s g e.c (fun _ => hk.1)).1
          exact h1.trans h2
      have hden : aget (insideFold o inp std (g :: rest) s).denom g.1
          = (if std then o.maxl (groupVal o inp s.inside g) else o.one) := by
        show aget (insideFold o inp std rest (insideGroup o inp std s g)).denom g.1 = _
        rw [hframe.2, insideGroup_denom o inp std s g hh, aget_aset_same _ _ _ (by rw [hsz]; exact hlt)]
      refine ⟨by rw [hden, hval], ?_⟩
      rw [hden, hval]
      show aget (insideFold o inp std rest (insideGroup o inp std s g)).inside g.1 = _
      rw [hframe.1, insideGroup_inside o inp std s g hh, aget_aset_same _ _ _ hlt]
    · exact ih' g hg' hfix

/-- the denominators of the non-fixed groups, in processing order -/
def groupDenoms (inp : Input α) (denom : Array α) (gs : List (Nat × List DEdge)) : List α :=
  (gs.filter (fun g => !aget inp.fixed g.1)).map (fun g => aget denom g.1)

/-- `marginal_lik` after the main loop: the identity combined with every denominator (when
standardising), in processing order. -/
theorem insideFold_marg (o : Ops α) (inp : Input α) (gs : List (Nat × List DEdge))
    (s : InsideState α) (hsz : s.denom.size = s.inside.size)
    (hok : groupsOK inp.fixed s.inside.size gs = true) :
    (insideFold o inp true gs s).marg
      = (groupDenoms inp (insideFold o inp true gs s).denom gs).foldl o.combine s.marg := by
  induction gs generalizing s with
  | nil => rfl
  | cons g rest ih =>
    simp only [groupsOK, Bool.and_eq_true] at hok
    obtain ⟨hhead, hrest⟩ := hok
    have hsizes := insideGroup_sizes o inp true s g
    have ih' := ih (insideGroup o inp true s g) (by rw [hsizes.1, hsizes.2]; exact hsz)
      (by rw [hsizes.1]; exact hrest)
    have hcons : insideFold o inp true (g :: rest) s
        = insideFold o inp true rest (insideGroup o inp true s g) := rfl
    rw [hcons, ih']
    by_cases hf : aget inp.fixed g.1 = true
    · rw [insideGroup_fixed o inp true s g hf]
      simp only [groupDenoms, List.filter_cons, hf, Bool.not_true, Bool.false_eq_true, if_false]
    · have hh : aget inp.fixed g.1 = false := by simpa using hf
      simp only [hh, Bool.false_or, Bool.and_eq_true, decide_eq_true_eq, List.all_eq_true,
        bne_iff_ne, ne_eq] at hhead
      obtain ⟨⟨hlt, hnodup⟩, _⟩ := hhead
      have hframe := insideFold_other o inp true rest (insideGroup o inp true s g) g.1
        (fun g' hg' _ => fun h => hnodup g' hg' h.symm)
      have hd : aget (insideFold o inp true rest (insideGroup o inp true s g)).denom g.1
          = o.maxl (groupVal o inp s.inside g) := by
        rw [hframe.2, insideGroup_denom o inp true s g hh, aget_aset_same _ _ _ (by rw [hsz]; exact hlt)]
        rfl
      simp only [groupDenoms, List.filter_cons, hh, Bool.not_false, if_true, List.map_cons,
        List.foldl_cons]
      rw [hd, insideGroup_marg o inp true s g hh]
      rfl

end

end Tsdate.Discrete
