/-
Lemmas about the discrete posterior summaries (`to_probabilities`, `mean_var`) over an ordered field.
-/
import TsdateVerif.Model.Pipeline
import Mathlib.Algebra.Order.Field.Basic
import Mathlib.Tactic.Ring
import Mathlib.Tactic.FieldSimp
import Mathlib.Tactic.Positivity

namespace Tsdate.Pipeline

section
variable {α : Type} [Field α]

theorem foldl_add (a : α) (xs : List α) : xs.foldl (· + ·) a = a + xs.foldl (· + ·) 0 := by
  induction xs generalizing a with
  | nil => simp
  | cons x xs ih =>
    simp only [List.foldl_cons]
    rw [ih (a + x), ih (0 + x)]
    ring

@[simp] theorem sum_nil : sum ([] : List α) = 0 := rfl

theorem sum_cons (x : α) (xs : List α) : sum (x :: xs) = x + sum xs := by
  unfold sum
  simp only [List.foldl_cons]
  rw [foldl_add]
  ring

theorem sum_map_div (xs : List α) (s : α) : sum (xs.map (· / s)) = sum xs / s := by
  induction xs with
  | nil => simp
  | cons x xs ih => simp only [List.map_cons, sum_cons, ih]; ring

theorem sum_zipWith_div (f : α → α → α) (ps ts : List α) (s : α) :
    sum (List.zipWith (fun p t => f p t / s) ps ts) = sum (List.zipWith f ps ts) / s := by
  induction ps generalizing ts with
  | nil => simp
  | cons p ps ih =>
    cases ts with
    | nil => simp
    | cons t ts => simp only [List.zipWith_cons_cons, sum_cons, ih]; ring

theorem zipWith_map_left (f : α → α → α) (g : α → α) (ps ts : List α) :
    List.zipWith f (ps.map g) ts = List.zipWith (fun p t => f (g p) t) ps ts := by
  induction ps generalizing ts with
  | nil => simp
  | cons p ps ih => cases ts <;> simp [ih]

theorem sum_zipWith_congr (f g : α → α → α) (h : ∀ p t, f p t = g p t) (ps ts : List α) :
    sum (List.zipWith f ps ts) = sum (List.zipWith g ps ts) := by
  have : f = g := by funext p t; exact h p t
  rw [this]

/-- sum of the first `ts.length` entries of `ps` (what `zipWith` keeps) -/
theorem sum_zipWith_left (ps ts : List α) (h : ts.length = ps.length) :
    sum (List.zipWith (fun p _ => p) ps ts) = sum ps := by
  induction ps generalizing ts with
  | nil => simp
  | cons p ps ih =>
    cases ts with
    | nil => simp at h
    | cons t ts => simp only [List.zipWith_cons_cons, sum_cons, ih ts (by simpa using h)]

theorem sum_zipWith_add (f g : α → α → α) (ps ts : List α) :
    sum (List.zipWith (fun p t => f p t + g p t) ps ts) =
      sum (List.zipWith f ps ts) + sum (List.zipWith g ps ts) := by
  induction ps generalizing ts with
  | nil => simp
  | cons p ps ih =>
    cases ts with
    | nil => simp
    | cons t ts => simp only [List.zipWith_cons_cons, sum_cons, ih]; ring

theorem sum_zipWith_smul (c : α) (f : α → α → α) (ps ts : List α) :
    sum (List.zipWith (fun p t => c * f p t) ps ts) = c * sum (List.zipWith f ps ts) := by
  induction ps generalizing ts with
  | nil => simp
  | cons p ps ih =>
    cases ts with
    | nil => simp
    | cons t ts => simp only [List.zipWith_cons_cons, sum_cons, ih]; ring

end

section Ordered
variable {α : Type} [Field α] [LinearOrder α] [IsStrictOrderedRing α]

theorem sum_nonneg (xs : List α) (h : ∀ x ∈ xs, 0 ≤ x) : 0 ≤ sum xs := by
  induction xs with
  | nil => simp
  | cons x xs ih =>
    rw [sum_cons]
    exact add_nonneg (h x (List.mem_cons_self ..)) (ih (fun y hy => h y (List.mem_cons_of_mem _ hy)))

theorem sum_zipWith_nonneg (f : α → α → α) (ps ts : List α) (h : ∀ p ∈ ps, ∀ t, 0 ≤ f p t) :
    0 ≤ sum (List.zipWith f ps ts) := by
  induction ps generalizing ts with
  | nil => simp
  | cons p ps ih =>
    cases ts with
    | nil => simp
    | cons t ts =>
      simp only [List.zipWith_cons_cons, sum_cons]
      exact add_nonneg (h p (List.mem_cons_self ..) t)
        (ih ts (fun q hq => h q (List.mem_cons_of_mem _ hq)))

end Ordered

end Tsdate.Pipeline
