/-
Elimination of all groups of a tree: exhaustive sum = product of denominators × Σ_t I(root)(t).
-/
import TsdateVerif.Proofs.DiscreteElim

namespace Tsdate.Discrete
open Tsdate

section
variable {α : Type} [CommSemiring α]
variable (G : Nat) (fixed : Nat → Bool) (prior : Nat → Nat → α) (L : DEdge → Nat → Nat → α)
  (I : Nat → Nat → α) (d : Nat → α)

/-- What the head group `(u, es)` must satisfy relative to the groups still to come: `u` is not
fixed and not a later parent; its edges have parent `u` and non-fixed children that are neither `u`
nor later parents (they were eliminated before); and the recursive equation holds at `u`. -/
structure HeadOK (g : Nat × List DEdge) (rest : List (Nat × List DEdge)) : Prop where
  ufix : fixed g.1 = false
  unot : g.1 ∉ rest.map (·.1)
  es_p : ∀ e ∈ g.2, e.p = g.1
  es_c : ∀ e ∈ g.2, fixed e.c = true ∨ (e.c ≠ g.1 ∧ e.c ∉ rest.map (·.1))
  eq : ∀ t, t < G → prior g.1 t * (g.2.map (fun e => smsg fixed L I e t)).prod = d g.1 * I g.1 t

/-- `u` is the child of exactly one edge among the remaining groups. -/
def StarOK (u : Nat) (rest : List (Nat × List DEdge)) : Prop :=
  ∃ l1 estar l2, rest.flatMap (·.2) = l1 ++ estar :: l2 ∧ estar.c = u ∧
    ∀ e ∈ l1 ++ l2, fixed e.c = true ∨ e.c ≠ u

/-- The groups, in processing order, form a single tree whose `I`, `d` satisfy the equations. -/
def TreeOK : List (Nat × List DEdge) → Prop
  | [] => True
  | g :: rest => HeadOK G fixed prior L I d g rest ∧ (rest ≠ [] → StarOK fixed g.1 rest) ∧ TreeOK rest

theorem TreeOK.parents_mem : ∀ (gs : List (Nat × List DEdge)), TreeOK G fixed prior L I d gs →
    ∀ e ∈ gs.flatMap (·.2), e.p ∈ gs.map (·.1)
  | [], _, e, he => by simp at he
  | g :: rest, h, e, he => by
    obtain ⟨hh, _, hr⟩ := h
    rw [List.flatMap_cons, List.mem_append] at he
    rcases he with he | he
    · rw [hh.es_p e he]; exact List.mem_cons_self ..
    · exact List.mem_cons_of_mem _ (TreeOK.parents_mem rest hr e he)

/-- **Variable elimination.**  For groups forming a single tree, the sum over all assignments of the
product of priors and edge factors equals the product of all denominators times `Σ_t I(root)(t)`. -/
theorem elim_all : ∀ (gs : List (Nat × List DEdge)) (hne : gs ≠ []), TreeOK G fixed prior L I d gs →
    ∀ x0 : Nat → Nat,
    sumA G (gs.map (·.1)) x0 (Wt fixed prior L (gs.map (·.1)) I gs)
      = (gs.map (fun g => d g.1)).prod * sumR G (I (gs.getLast hne).1)
  | [], hne, _, _ => absurd rfl hne
  | [g], _, h, x0 => by
    obtain ⟨hh, _, _⟩ := h
    simp only [List.map_cons, List.map_nil, sumA, List.getLast_singleton, List.prod_cons,
      List.prod_nil, mul_one]
    rw [← sumR_mul_left]
    apply sumR_congr
    intro t ht
    unfold Wt
    have h1 : upd x0 g.1 t g.1 = t := by unfold upd; rw [if_pos rfl]
    simp only [List.map_cons, List.map_nil, List.prod_cons, List.prod_nil, mul_one,
      List.flatMap_cons, List.flatMap_nil, List.append_nil, h1]
    rw [← hh.eq t ht]
    congr 2
    apply List.map_congr_left
    intro e he
    have hdead : fixed e.c = true ∨ e.c ∉ [g.1] := by
      rcases hh.es_c e he with h' | h'
      · exact Or.inl h'
      · exact Or.inr (by simp [h'.1])
    rw [mfac_dead fixed L [g.1] I _ e hdead, hh.es_p e he, h1]
  | g :: g' :: rest', _, h, x0 => by
    obtain ⟨hh, hstar, hr⟩ := h
    obtain ⟨l1, estar, l2, hflat, hsc, hl⟩ := hstar (by simp)
    have hpm := TreeOK.parents_mem G fixed prior L I d (g' :: rest') hr
    have hstarp : estar.p ∈ (g' :: rest').map (·.1) :=
      hpm estar (by rw [hflat]; exact List.mem_append_right _ (List.mem_cons_self ..))
    have hp : ∀ e ∈ l1 ++ estar :: l2, e.p ≠ g.1 := by
      intro e he heq
      have := hpm e (by rw [hflat]; exact he)
      rw [heq] at this
      exact hh.unot this
    have step := elim_step fixed prior L G I d g.1 g.2 (g' :: rest') l1 l2 estar hflat hsc hh.ufix
      hstarp hl hp hh.unot hh.es_p hh.es_c hh.eq x0
    have ih := elim_all (g' :: rest') (by simp) hr x0
    show sumA G (g.1 :: (g' :: rest').map (·.1)) x0
        (Wt fixed prior L (g.1 :: (g' :: rest').map (·.1)) I ((g.1, g.2) :: g' :: rest')) = _
    rw [step, ih]
    simp only [List.map_cons, List.prod_cons, List.getLast_cons_cons]
    ring

end
end Tsdate.Discrete
