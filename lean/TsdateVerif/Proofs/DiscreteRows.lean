/-
The packed row sums of `tsdate/discrete.py` equal the row sums of the unpacked triangular
matrices: `msgLower` (get_inside) and `msgUpper` (get_outside) in matrix form.
-/
import TsdateVerif.Proofs.DiscretePacking

namespace Tsdate.Discrete
open Tsdate

theorem toLowerTri_rows (G : Nat) :
    toLowerTri G = (List.range G).flatMap (fun n => (List.range (n + 1)).map (fun t => t)) := by
  simp [toLowerTri]

/-- **`get_inside` in matrix form.**  With a packed table of the right size, entry `n` of the
message is the reduction over `s = 0 … n` of `combine (scale frac inside_child[s]) L[n, s]`, where
`L[n, s]` is read at the packed position `lowerIdx n s`. -/
theorem msgLower_spec {α : Type} [Inhabited α] (o : Ops α) (G : Nat) (frac : α) (insC lik : Array α)
    (hlik : lik.size = triSize G) :
    msgLower o G frac insC lik
      = (List.range G).map (fun n => o.sum ((List.range (n + 1)).map
          (fun s => o.combine (o.scale frac (aget insC s)) (aget lik (lowerIdx n s))))) := by
  unfold msgLower
  simp only [gather]
  rw [array_toList_triRows G lik hlik, toLowerTri, List.map_flatMap, List.map_flatMap,
    zipWith_flatMap _ _ _ (by intro n; simp), rowIndices_zero]
  rw [reduceat_rows o.sum G _ tri tri_zero (by intro n; simp [tri_succ])]
  apply List.map_congr_left
  intro n _
  congr 1
  simp [List.zipWith_map, List.zipWith_self]

theorem toUpperTri_rows (G : Nat) :
    toUpperTri G = (List.range G).flatMap (fun i => List.range' i (G - i)) := by
  simp [toUpperTri, List.range_succ, List.flatMap_append]

theorem colIndices_eq (G : Nat) : colIndices G = (List.range G).map (colStart G) := rfl

/-- **`get_outside` in matrix form.**  `parentVal` is `scale`d `make_upper_tri(v)`; entry `i` of the
message is the reduction over `j = i … G-1` of `combine (f v[j]) L[j, i]`, the table being read at
`lowerIdx j i` through the `concatenate(row_indices)` gather. -/
theorem msgUpper_spec {α : Type} [Inhabited α] (o : Ops α) (G : Nat) (f : α → α) (v lik : Array α) :
    msgUpper o G ((gather v (toUpperTri G)).map f) lik
      = (List.range G).map (fun i => o.sum ((List.range' i (G - i)).map
          (fun j => o.combine (f (aget v j)) (aget lik (lowerIdx j i))))) := by
  unfold msgUpper
  simp only [gather]
  rw [toUpperTri_rows, upperPerm, List.map_flatMap, List.map_flatMap, List.map_flatMap,
    zipWith_flatMap _ _ _ (by intro n; simp [rowIndices_eq]), colIndices_eq]
  rw [reduceat_rows o.sum G _ (colStart G) rfl (by intro n; simp [colStart, rowIndices_eq])]
  apply List.map_congr_left
  intro i _
  congr 1
  rw [rowIndices_eq]
  simp [List.zipWith_map, List.zipWith_self]

/-! ### Element-wise view of the index arrays -/

/-- cumulative row lengths -/
def cum {β : Type} (f : Nat → List β) : Nat → Nat
  | 0 => 0
  | i + 1 => cum f i + (f i).length

theorem cum_mono {β : Type} (f : Nat → List β) {a b : Nat} (h : a ≤ b) : cum f a ≤ cum f b := by
  induction h with
  | refl => exact le_rfl
  | step _ ih => simp only [cum]; omega

theorem length_flatMap_range {β : Type} (f : Nat → List β) (n : Nat) :
    ((List.range n).flatMap f).length = cum f n := by
  induction n with
  | zero => simp [cum]
  | succ n ih => simp [List.range_succ, List.flatMap_append, ih, cum]

theorem getElem?_flatMap_range {β : Type} (f : Nat → List β) (n i k : Nat) (hi : i < n)
    (hk : k < (f i).length) : ((List.range n).flatMap f)[cum f i + k]? = (f i)[k]? := by
  induction n with
  | zero => omega
  | succ n ih =>
    rw [List.range_succ, List.flatMap_append]
    by_cases hin : i < n
    · have hlt : cum f i + k < ((List.range n).flatMap f).length := by
        rw [length_flatMap_range]
        have := cum_mono f (show i + 1 ≤ n by omega)
        simp only [cum] at this; omega
      rw [List.getElem?_append_left hlt]
      exact ih hin
    · have : i = n := by omega
      subst this
      rw [List.getElem?_append_right (by rw [length_flatMap_range]; omega), length_flatMap_range]
      simp

theorem cum_lower (n : Nat) : cum (fun n => List.range (n + 1)) n = tri n := by
  induction n with
  | zero => rfl
  | succ n ih => simp [cum, ih, tri_succ]

theorem cum_upper (G : Nat) (i : Nat) : cum (fun i => List.range' i (G - i)) i = colStart G i := by
  induction i with
  | zero => rfl
  | succ i ih => simp [cum, ih, colStart]

theorem cum_perm (G : Nat) (i : Nat) : cum (rowIndices G) i = colStart G i := by
  induction i with
  | zero => rfl
  | succ i ih => simp [cum, ih, colStart, rowIndices_eq]

/-- `to_lower_tri[lowerIdx n t] = t`. -/
theorem toLowerTri_get (G n t : Nat) (ht : t ≤ n) (hn : n < G) :
    (toLowerTri G)[lowerIdx n t]? = some t := by
  have := getElem?_flatMap_range (fun n => List.range (n + 1)) G n t hn (by simp; omega)
  rw [cum_lower] at this
  rw [toLowerTri, lowerIdx_eq, this, List.getElem?_range (by omega)]

/-- `to_upper_tri[upperIdx i j] = j`. -/
theorem toUpperTri_get (G i j : Nat) (hij : i ≤ j) (hj : j < G) :
    (toUpperTri G)[upperIdx G i j]? = some j := by
  have := getElem?_flatMap_range (fun i => List.range' i (G - i)) G i (j - i) (by omega) (by simp; omega)
  rw [cum_upper] at this
  rw [toUpperTri_rows, upperIdx, this, List.getElem?_range' (by omega)]
  congr 1; simp; omega

/-- **The `row_indices` permutation relates upper to lower**:
`concatenate(row_indices)[upperIdx i j] = lowerIdx j i`, i.e. the packed upper-triangular table at
(row `i` = child time, column `j` = parent time) is the packed lower-triangular table at (row `j`, column `i`). -/
theorem upperPerm_get (G i j : Nat) (hij : i ≤ j) (hj : j < G) :
    (upperPerm G)[upperIdx G i j]? = some (lowerIdx j i) := by
  have := getElem?_flatMap_range (rowIndices G) G i (j - i) (by omega) (by simp [rowIndices_eq]; omega)
  rw [cum_perm] at this
  rw [upperPerm, upperIdx, this, rowIndices_eq, List.getElem?_map, List.getElem?_range' (by omega)]
  simp only [Option.map_some, Nat.one_mul]
  congr 2; omega

theorem upperPerm_length (G : Nat) : (upperPerm G).length = triSize G := by
  rw [upperPerm, length_flatMap_range, cum_perm, colStart_full]

theorem toLowerTri_length (G : Nat) : (toLowerTri G).length = triSize G := by
  rw [toLowerTri, length_flatMap_range, cum_lower, triSize_eq]

theorem toUpperTri_length (G : Nat) : (toUpperTri G).length = triSize G := by
  rw [toUpperTri_rows, length_flatMap_range, cum_upper, colStart_full]

end Tsdate.Discrete
