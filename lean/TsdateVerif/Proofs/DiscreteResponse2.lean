/-
The linear-response theorem (`response`): see `DiscreteResponse.lean`.
-/
import TsdateVerif.Proofs.DiscreteResponse
import TsdateVerif.Proofs.DiscreteAssemble

namespace Tsdate.Discrete
open Tsdate

section
variable {α : Type} [Field α]
variable (G : Nat) (fixed : Nat → Bool) (prior : Nat → Nat → α) (L : DEdge → Nat → Nat → α)
  (I : Nat → Nat → α) (d : Nat → α)

theorem upF_same (J : Nat → Nat → α) (u : Nat) (f : Nat → α) : upF J u f u = f := by
  unfold upF; rw [if_pos rfl]

theorem upF_other (J : Nat → Nat → α) (u w : Nat) (f : Nat → α) (h : w ≠ u) : upF J u f w = J w := by
  unfold upF; rw [if_neg h]

theorem star_filter (v : Nat) (hv : fixed v = false) (rest : List (Nat × List DEdge))
    (h : StarOK fixed v rest) :
    ∃ ev, (rest.flatMap (·.2)).filter (isChildEdge fixed v) = [ev] ∧ isChildEdge fixed v ev = true := by
  obtain ⟨l1, ev, l2, hflat, hc, hl⟩ := h
  have hp : isChildEdge fixed v ev = true := by simp [isChildEdge, hc, hv]
  have hn : ∀ e ∈ l1 ++ l2, isChildEdge fixed v e = false := by
    intro e he
    unfold isChildEdge
    rcases hl e he with h' | h'
    · simp [h']
    · simp [h']
  refine ⟨ev, ?_, hp⟩
  rw [hflat, List.filter_append, List.filter_cons, if_pos hp]
  have h1 : l1.filter (isChildEdge fixed v) = [] := by
    apply List.filter_eq_nil_iff.mpr; intro e he; simp [hn e (List.mem_append_left _ he)]
  have h2 : l2.filter (isChildEdge fixed v) = [] := by
    apply List.filter_eq_nil_iff.mpr; intro e he; simp [hn e (List.mem_append_right _ he)]
  rw [h1, h2]; rfl

theorem filter_star (v : Nat) (rest : List (Nat × List DEdge)) (ev : DEdge)
    (h : (rest.flatMap (·.2)).filter (isChildEdge fixed v) = [ev]) : StarOK fixed v rest := by
  obtain ⟨l1, x, l2, hl, hx, hall⟩ := split_of_filter_length_one (isChildEdge fixed v) _ (by rw [h]; rfl)
  refine ⟨l1, x, l2, hl, ?_, ?_⟩
  · simp only [isChildEdge, Bool.and_eq_true, Bool.not_eq_true', beq_iff_eq] at hx; exact hx.2
  · intro e he
    have := hall e he
    simp only [isChildEdge, Bool.and_eq_false_iff, Bool.not_eq_false', beq_eq_false_iff_ne, ne_eq] at this
    exact this

/-- dropping a group that does not contain the parent edge of the head keeps the tree conditions -/
theorem TreeOK.drop_second (gv g : Nat × List DEdge) (rest : List (Nat × List DEdge))
    (h : TreeOK G fixed prior L I d (gv :: g :: rest))
    (hnil : g.2.filter (isChildEdge fixed gv.1) = []) :
    TreeOK G fixed prior L I d (gv :: rest) := by
  obtain ⟨hh, hstar, hr⟩ := h
  obtain ⟨_, _, hrr⟩ := hr
  refine ⟨⟨hh.ufix, fun hm => hh.unot (List.mem_cons_of_mem _ hm), hh.es_p, ?_, hh.eq⟩, ?_, hrr⟩
  · intro e he
    rcases hh.es_c e he with h' | h'
    · exact Or.inl h'
    · exact Or.inr ⟨h'.1, fun hm => h'.2 (List.mem_cons_of_mem _ hm)⟩
  · intro _
    obtain ⟨ev, hf, _⟩ := star_filter fixed gv.1 hh.ufix (g :: rest) (hstar (by simp))
    rw [List.flatMap_cons, List.filter_append, hnil, List.nil_append] at hf
    exact filter_star fixed gv.1 rest ev hf

/-- **Linear response.**  `gv :: gs` satisfies the tree conditions with the true rows `I`.  Replace
the row of `gv.1` by `f` and re-run the recursion over `gs`: the sum of the root row is
`Σ_s f s * outU gs gv.1 s`. -/
theorem response (root : Nat) : ∀ (gs : List (Nat × List DEdge)) (gv : Nat × List DEdge) (f : Nat → α),
    TreeOK G fixed prior L I d (gv :: gs) → (∀ g ∈ gv :: gs, d g.1 ≠ 0) →
    root = ((gv :: gs).getLast (by simp)).1 →
    sumR G (resolve fixed prior L d gs (upF I gv.1 f) root)
      = sumR G (fun s => f s * outU G fixed prior L I d gs gv.1 s)
  | [], gv, f, _, _, hroot => by
    simp only [List.getLast_singleton] at hroot
    apply sumR_congr
    intro s _
    show upF I gv.1 f root s = f s * 1
    unfold upF
    rw [if_pos hroot, mul_one]
  | g :: rest, gv, f, htree, hd, hroot => by
    have htree' := htree
    obtain ⟨hh, hstar, hr⟩ := htree
    obtain ⟨ev, hfil, hpev⟩ := star_filter fixed gv.1 hh.ufix (g :: rest) (hstar (by simp))
    rw [List.flatMap_cons, List.filter_append] at hfil
    have hroot' : root = ((g :: rest).getLast (by simp)).1 := by
      rw [hroot, List.getLast_cons (by simp)]
    have hgne : g.1 ≠ gv.1 := fun h => hh.unot (by simp [h])
    cases hg2 : g.2.filter (isChildEdge fixed gv.1) with
    | nil =>
      -- the parent of `gv.1` comes later: this group recomputes its true row
      rw [hg2, List.nil_append] at hfil
      have hfind : g.2.find? (isChildEdge fixed gv.1) = none := find_none_of_filter_nil _ _ hg2
      have hout : ∀ s, outU G fixed prior L I d (g :: rest) gv.1 s = outU G fixed prior L I d rest gv.1 s := by
        intro s; simp only [outU, hfind]
      simp only [hout]
      have hrest_ne : rest ≠ [] := by
        intro h; rw [h] at hfil; simp at hfil
      have hnc : ∀ e ∈ g.2, fixed e.c = true ∨ e.c ≠ gv.1 := by
        intro e he
        have : isChildEdge fixed gv.1 e = false := by
          by_contra hc
          have : e ∈ g.2.filter (isChildEdge fixed gv.1) := List.mem_filter.mpr ⟨he, by simpa using hc⟩
          rw [hg2] at this; cases this
        simp only [isChildEdge, Bool.and_eq_false_iff, Bool.not_eq_false', beq_eq_false_iff_ne, ne_eq] at this
        exact this
      have hrow : ∀ a, a < G → rowOf fixed prior L d (upF I gv.1 f) g a = I g.1 a := by
        intro a ha
        unfold rowOf
        have : (g.2.map (fun e => smsg fixed L (upF I gv.1 f) e a)) = g.2.map (fun e => smsg fixed L I e a) := by
          apply List.map_congr_left
          intro e he
          exact smsg_upF_other fixed L I gv.1 f e (hnc e he) a
        rw [this, hr.1.eq a ha]
        field_simp [hd g (by simp)]
      have hagree : AgreeBelow G (stepJ fixed prior L d (upF I gv.1 f) g) (upF I gv.1 f) := by
        intro w b hb
        show upF (upF I gv.1 f) g.1 (rowOf fixed prior L d (upF I gv.1 f) g) w b = upF I gv.1 f w b
        by_cases hw : w = g.1
        · rw [hw, upF_same, hrow b hb, upF_other I gv.1 g.1 f hgne]
        · rw [upF_other _ g.1 w _ hw]
      have hcong := resolve_congr G fixed prior L d rest _ _ hagree
      show sumR G (resolve fixed prior L d rest (stepJ fixed prior L d (upF I gv.1 f) g) root) = _
      rw [sumR_congr G _ _ (fun s hs => hcong root s hs)]
      have hdrop := TreeOK.drop_second G fixed prior L I d gv g rest htree' hg2
      apply response root rest gv f hdrop
      · intro g' hg'
        rcases List.mem_cons.mp hg' with rfl | hg''
        · exact hd _ (by simp)
        · exact hd _ (by simp [hg''])
      · rw [hroot, List.getLast_cons (by simp), List.getLast_cons hrest_ne, List.getLast_cons hrest_ne]
    | cons x tl =>
      -- this group is the parent of `gv.1`
      rw [hg2] at hfil
      have hx : x = ev ∧ tl = [] ∧ (rest.flatMap (·.2)).filter (isChildEdge fixed gv.1) = [] := by
        have hlen := congrArg List.length hfil
        simp only [List.cons_append, List.length_cons, List.length_append, List.length_nil] at hlen
        have htl : tl = [] := List.eq_nil_of_length_eq_zero (by omega)
        have hrf : (rest.flatMap (·.2)).filter (isChildEdge fixed gv.1) = [] :=
          List.eq_nil_of_length_eq_zero (by omega)
        rw [htl, hrf] at hfil
        simp only [List.cons_append, List.nil_append, List.cons.injEq, and_true] at hfil
        exact ⟨hfil, htl, hrf⟩
      obtain ⟨rfl, rfl, hrestnil⟩ := hx
      obtain ⟨l1, y, l2, hsplit, hy, hall⟩ :=
        split_of_filter_length_one (isChildEdge fixed gv.1) g.2 (by rw [hg2]; rfl)
      have hyx : y = x := by
        have : (l1 ++ y :: l2).filter (isChildEdge fixed gv.1) = [y] := by
          rw [List.filter_append, List.filter_cons, if_pos hy]
          have h1 : l1.filter (isChildEdge fixed gv.1) = [] := by
            apply List.filter_eq_nil_iff.mpr; intro e he; simp [hall e (List.mem_append_left _ he)]
          have h2 : l2.filter (isChildEdge fixed gv.1) = [] := by
            apply List.filter_eq_nil_iff.mpr; intro e he; simp [hall e (List.mem_append_right _ he)]
          rw [h1, h2]; rfl
        rw [← hsplit, hg2] at this
        simpa using this.symm
      subst hyx
      obtain ⟨hfind, hfilt⟩ := find_of_split (isChildEdge fixed gv.1) l1 l2 y hy hall
      rw [← hsplit] at hfind hfilt
      -- the recomputed row of the parent
      have hJp : ∀ a, rowOf fixed prior L d (upF I gv.1 f) g a
          = sibFac fixed prior L I d g gv.1 a * ((List.range (a + 1)).map (fun b => f b * L y a b)).sum := by
        intro a
        unfold rowOf sibFac
        rw [hfilt]
        conv_lhs => rw [hsplit]
        rw [List.map_append, List.prod_append, List.map_cons, List.prod_cons,
          smsg_upF_self fixed L I gv.1 f y hy a, List.map_append, List.prod_append]
        have hother : ∀ l : List DEdge, (∀ e ∈ l, isChildEdge fixed gv.1 e = false) →
            l.map (fun e => smsg fixed L (upF I gv.1 f) e a) = l.map (fun e => smsg fixed L I e a) := by
          intro l hl
          apply List.map_congr_left
          intro e he
          have := hl e he
          simp only [isChildEdge, Bool.and_eq_false_iff, Bool.not_eq_false', beq_eq_false_iff_ne, ne_eq] at this
          exact smsg_upF_other fixed L I gv.1 f e this a
        rw [hother l1 (fun e he => hall e (List.mem_append_left _ he)),
          hother l2 (fun e he => hall e (List.mem_append_right _ he))]
        ring
      -- `gv.1` is not read any more
      have hswap : stepJ fixed prior L d (upF I gv.1 f) g
          = upF (upF I g.1 (rowOf fixed prior L d (upF I gv.1 f) g)) gv.1 f := by
        funext w
        unfold stepJ upF
        by_cases h1 : w = g.1
        · have h2 : w ≠ gv.1 := fun h => hgne (h1 ▸ h)
          rw [if_pos h1, if_neg h2, if_pos h1]
        · by_cases h2 : w = gv.1
          · rw [if_neg h1, if_pos h2, if_pos h2]
          · rw [if_neg h1, if_neg h2, if_neg h2, if_neg h1]
      have hnc : NotChild fixed gv.1 rest := by
        intro e he
        have : isChildEdge fixed gv.1 e = false := by
          by_contra hc
          have : e ∈ (rest.flatMap (·.2)).filter (isChildEdge fixed gv.1) :=
            List.mem_filter.mpr ⟨he, by simpa using hc⟩
          rw [hrestnil] at this; cases this
        simp only [isChildEdge, Bool.and_eq_false_iff, Bool.not_eq_false', beq_eq_false_iff_ne, ne_eq] at this
        exact this
      have hrootne : root ≠ gv.1 := by
        intro h
        apply hh.unot
        rw [← h, hroot']
        exact List.mem_map_of_mem (List.getLast_mem _)
      show sumR G (resolve fixed prior L d rest (stepJ fixed prior L d (upF I gv.1 f) g) root) = _
      rw [hswap, resolve_upF_other fixed prior L d rest _ gv.1 f hnc
        (fun h => hh.unot (List.mem_cons_of_mem _ h)) root hrootne]
      rw [response root rest g (rowOf fixed prior L d (upF I gv.1 f) g) hr
        (fun g' hg' => hd g' (List.mem_cons_of_mem _ hg')) hroot']
      simp only [hJp]
      have hout : ∀ s, outU G fixed prior L I d (g :: rest) gv.1 s
          = sumR G (fun a => if s ≤ a then L y a s * sibFac fixed prior L I d g gv.1 a
              * outU G fixed prior L I d rest g.1 a else 0) := by
        intro s; simp only [outU, hfind]
      simp only [hout]
      have := tri_swap G f (fun a => sibFac fixed prior L I d g gv.1 a * outU G fixed prior L I d rest g.1 a)
        (fun a s => L y a s)
      have e1 : ∀ a, sibFac fixed prior L I d g gv.1 a * ((List.range (a + 1)).map (fun b => f b * L y a b)).sum
            * outU G fixed prior L I d rest g.1 a
          = (sibFac fixed prior L I d g gv.1 a * outU G fixed prior L I d rest g.1 a)
            * ((List.range (a + 1)).map (fun s => f s * L y a s)).sum := by
        intro a; ring
      simp only [e1]
      rw [this]
      apply sumR_congr
      intro s _
      congr 1
      apply sumR_congr
      intro a _
      split_ifs <;> ring

end
end Tsdate.Discrete
