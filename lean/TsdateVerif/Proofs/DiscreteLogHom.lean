/-
`LogLikelihoods` ↦ `Likelihoods`: the log-space operation record is carried to the linear one by
`E = exp` (an `OpsHom`), given the laws of `exp`/`log` (`LogLaws`) plus order and power laws.
-/
import TsdateVerif.Proofs.DiscreteLog
import TsdateVerif.Proofs.DiscreteHomPass

namespace Tsdate.Discrete
open Tsdate
set_option linter.unusedSectionVars false

section
variable {α β : Type} [Field α] [LinearOrder α] [IsStrictOrderedRing α] [BEq α] [LawfulBEq α]
  [Add β] [Sub β] [Mul β] [OfNat β 0] [LE β] [DecidableLE β] [LT β] [DecidableLT β] [BEq β] [LawfulBEq β]
  {E : β → α} {log : α → β} {negInf : β}

theorem listMax_hom (hbot : E negInf = 0) (hlt : ∀ x y : β, x < y ↔ E x < E y) (l : List β) :
    E (listMax negInf l) = listMax 0 (l.map E) := by
  cases l with
  | nil => exact hbot
  | cons x xs =>
    show E (xs.foldl (fun m y => if m < y then y else m) x)
      = (xs.map E).foldl (fun m y => if m < y then y else m) (E x)
    induction xs generalizing x with
    | nil => rfl
    | cons y ys ih =>
      simp only [List.foldl_cons, List.map_cons]
      rw [ih]
      congr 1
      by_cases hxy : x < y
      · rw [if_pos hxy, if_pos ((hlt x y).mp hxy)]
      · rw [if_neg hxy, if_neg (fun h => hxy ((hlt x y).mpr h))]

/-- `np.argmax`: index of the first maximal entry (`0` on the empty list). -/
def npArgmaxFrom {γ : Type} [LT γ] [DecidableLT γ] : γ → Nat → Nat → List γ → Nat
  | _, bi, _, [] => bi
  | b, bi, i, x :: xs => if b < x then npArgmaxFrom x i (i + 1) xs else npArgmaxFrom b bi (i + 1) xs

def npArgmax {γ : Type} [LT γ] [DecidableLT γ] : List γ → Nat
  | [] => 0
  | x :: xs => npArgmaxFrom x 0 1 xs

theorem npArgmaxFrom_hom (hlt : ∀ x y : β, x < y ↔ E x < E y) :
    ∀ (xs : List β) (b : β) (bi i : Nat),
      npArgmaxFrom (E b) bi i (xs.map E) = npArgmaxFrom b bi i xs
  | [], _, _, _ => rfl
  | x :: xs, b, bi, i => by
    simp only [List.map_cons, npArgmaxFrom]
    by_cases h : b < x
    · rw [if_pos h, if_pos ((hlt b x).mp h)]; exact npArgmaxFrom_hom hlt xs x i (i + 1)
    · rw [if_neg h, if_neg (fun h' => h ((hlt b x).mpr h'))]; exact npArgmaxFrom_hom hlt xs b bi (i + 1)

/-- **The log-space operations are the image of the linear ones.** -/
theorem logOps_hom (h : LogLaws E log negInf) (logB : β → β) (pow : α → α → α) (F : β → α)
    (Pn : α → Prop) (hzero : E (0 : β) = 1) (hlt : ∀ x y : β, x < y ↔ E x < E y)
    (hscale : ∀ f v, Pn (F f) → E (f * v) = pow (F f) (E v)) :
    OpsHom (logOps E log logB negInf) (linOps pow) E F Pn where
  one := hzero
  null_iff := fun x => ⟨fun hx => h.eq_bot_of_zero x hx, fun hx => hx ▸ h.bot⟩
  combine := h.add
  ratio := fun x y hy => ratio_exp h x y hy
  ratio0 := fun x y hdef => ratio0_exp h x y hdef
  sum := fun l => by
    show E (logsumexp E log negInf l) = (l.map E).foldl (· + ·) 0
    rw [logsumexp_exp h l, List.sum_eq_foldl]
  maxl := fun l => listMax_hom h.bot hlt l
  scale := hscale

end
end Tsdate.Discrete
