/-
`LogLikelihoods` ↦ `Likelihoods`: the log-space operation record is carried to the linear one by
`E = exp` (an `OpsHom`), given the laws of `exp`/`log` (`LogLaws`) plus order and power laws.
-/
import TsdateVerif.Proofs.DiscreteLog
import TsdateVerif.Proofs.DiscreteHomPass

namespace Tsdate.Discrete
open Tsdate
set_option linter.unusedSectionVars false

section
variable {α β : Type} [Field α] [LinearOrder α] [IsStrictOrderedRing α] [BEq α] [LawfulBEq α]
  [Add β] [Sub β] [Mul β] [OfNat β 0] [LE β] [DecidableLE β] [LT β] [DecidableLT β] [BEq β] [LawfulBEq β]
  {E : β → α} {log : α → β} {negInf : β}

theorem listMax_hom (hbot : E negInf = 0) (hlt : ∀ x y : β, x < y ↔ E x < E y) (l : List β) :
    E (listMax negInf l) = listMax 0 (l.map E) := by
  cases l with
  | nil => exact hbot
  | cons x xs =>
    show E (xs.foldl (fun m y => if m < y then y else m) x)
      = (xs.map E).foldl (fun m y => if m < y then y else m) (E x)
    induction xs generalizing x with
    | nil => rfl
    | cons y ys ih =>
      simp only [List.foldl_cons, List.map_cons]
      rw [ih]
      congr 1
      by_cases hxy : x < y
      · rw [if_pos hxy, if_pos ((hlt x y).mp hxy)]
      · rw [if_neg hxy, if_neg (fun h => hxy ((hlt x y).mpr h))]

/-- **The log-space operations are the image of the linear ones.** -/
theorem logOps_hom (h : LogLaws E log negInf) (logB : β → β) (pow : α → α → α) (F : β → α)
    (Pn : α → Prop) (hzero : E (0 : β) = 1) (hlt : ∀ x y : β, x < y ↔ E x < E y)
    (hscale : ∀ f v, Pn (F f) → E (f * v) = pow (F f) (E v)) :
    OpsHom (logOps E log logB negInf) (linOps pow) E F Pn where
  one := hzero
  null_iff := fun x => ⟨fun hx => h.eq_bot_of_zero x hx, fun hx => hx ▸ h.bot⟩
  combine := h.add
  ratio := fun x y hy => ratio_exp h x y hy
  ratio0 := fun x y hdef => ratio0_exp h x y hdef
  sum := fun l => by
    show E (logsumexp E log negInf l) = (l.map E).foldl (· + ·) 0
    rw [logsumexp_exp h l, List.sum_eq_foldl]
  maxl := fun l => listMax_hom h.bot hlt l
  scale := hscale

end
end Tsdate.Discrete
