/-
List lemmas behind the refinement proof of the mutation sweep (`takeWhile`/`dropWhile` on sorted
lists are `filter`s; last element survives `dropWhile`; `minOpt`).
-/
import Mathlib.Order.Basic
import Mathlib.Order.Lattice
import Mathlib.Tactic.SplitIfs
import TsdateVerif.Model.Split

namespace Tsdate.Split
set_option linter.unusedSectionVars false
set_option linter.unusedVariables false

section Generic
variable {β : Type}

/-- On a list sorted for `R`, if `p` is downward closed along `R`, nothing after the `dropWhile`
point satisfies `p`. -/
theorem dropWhile_all_not {R : β → β → Prop} {p : β → Bool} {l : List β} (hp : l.Pairwise R)
    (hdc : ∀ a ∈ l, ∀ b ∈ l, R a b → p b = true → p a = true) :
    ∀ x ∈ l.dropWhile p, p x = false := by
  induction l with
  | nil => intro x hx; simp at hx
  | cons a l ih =>
    have hp' := List.pairwise_cons.mp hp
    by_cases ha : p a = true
    · rw [List.dropWhile_cons_of_pos ha]
      exact ih hp'.2 (fun x hx y hy => hdc x (List.mem_cons_of_mem _ hx) y (List.mem_cons_of_mem _ hy))
    · rw [List.dropWhile_cons_of_neg ha]
      intro x hx
      rcases List.mem_cons.mp hx with rfl | hx
      · simpa using ha
      · by_contra hpx
        have hpx : p x = true := by simpa using hpx
        exact ha (hdc a (List.mem_cons_self ..) x (List.mem_cons_of_mem _ hx) (hp'.1 x hx) hpx)

theorem takeWhile_all (p : β → Bool) (l : List β) : ∀ x ∈ l.takeWhile p, p x = true := by
  induction l with
  | nil => intro x hx; simp at hx
  | cons a l ih =>
    by_cases ha : p a = true
    · rw [List.takeWhile_cons_of_pos ha]
      intro x hx
      rcases List.mem_cons.mp hx with rfl | hx
      · exact ha
      · exact ih x hx
    · rw [List.takeWhile_cons_of_neg ha]; intro x hx; simp at hx

theorem getLast?_dropWhile {p : β → Bool} {l : List β} {s : β} (h : l.getLast? = some s)
    (hs : p s = false) : (l.dropWhile p).getLast? = some s := by
  induction l with
  | nil => simp at h
  | cons a l ih =>
    by_cases ha : p a = true
    · rw [List.dropWhile_cons_of_pos ha]
      cases l with
      | nil =>
        simp only [List.getLast?_singleton, Option.some.injEq] at h
        subst h; rw [ha] at hs; cases hs
      | cons b l => rw [List.getLast?_cons_cons] at h; exact ih h
    · rw [List.dropWhile_cons_of_neg ha]; exact h

theorem length_dropWhile_le (p : β → Bool) (l : List β) : (l.dropWhile p).length ≤ l.length :=
  (List.dropWhile_sublist p).length_le

theorem length_dropWhile_lt {p : β → Bool} {l : List β} {a : β} (h : l.head? = some a)
    (ha : p a = true) : (l.dropWhile p).length < l.length := by
  obtain ⟨t, rfl⟩ := List.head?_eq_some_iff.mp h
  rw [List.dropWhile_cons_of_pos ha]
  exact Nat.lt_succ_of_le (length_dropWhile_le p t)

/-- Head of a sorted list is below every element. -/
theorem head_le_all {R : β → β → Prop} (hrefl : ∀ a, R a a) {l : List β} (hp : l.Pairwise R) {a : β}
    (h : l.head? = some a) : ∀ x ∈ l, R a x := by
  obtain ⟨t, rfl⟩ := List.head?_eq_some_iff.mp h
  intro x hx
  rcases List.mem_cons.mp hx with rfl | hx
  · exact hrefl _
  · exact (List.pairwise_cons.mp hp).1 x hx

end Generic

section MinOpt
variable {α : Type} [LinearOrder α]

theorem minOpt_le_left (r : α) (o : Option α) : minOpt r o ≤ r := by
  cases o with
  | none => exact le_rfl
  | some x => simp only [minOpt]; split_ifs with h <;> [exact le_of_lt h; exact le_rfl]

theorem minOpt_le_some (r x : α) : minOpt r (some x) ≤ x := by
  simp only [minOpt]; split_ifs with h <;> [exact le_rfl; exact le_of_not_gt h]

theorem minOpt_cases (r : α) (o : Option α) : minOpt r o = r ∨ o = some (minOpt r o) := by
  cases o with
  | none => left; rfl
  | some x => simp only [minOpt]; split_ifs <;> [right; left] <;> rfl

theorem lt_minOpt {l r : α} {o : Option α} (hr : l < r) (ho : ∀ x, o = some x → l < x) :
    l < minOpt r o := by
  cases o with
  | none => exact hr
  | some x => simp only [minOpt]; split_ifs <;> [exact ho x rfl; exact hr]

end MinOpt

theorem assign_replicate (n u : Nat) : assign (Array.replicate n none) u = u := by
  unfold assign aget
  by_cases h : u < n <;> simp [h] <;> rfl

end Tsdate.Split
