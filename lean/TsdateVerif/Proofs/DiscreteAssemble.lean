/-
Assembly of `inside_marginal` (C10): the marginal likelihood returned by the model's inside pass on
a single tree equals the brute-force normalising constant.
-/
import TsdateVerif.Proofs.DiscreteMarginal

namespace Tsdate.Discrete
open Tsdate

/-! ### `itertools.groupby` loses nothing -/

theorem groupRuns_flatMap (key : DEdge → Nat) : ∀ es : List DEdge,
    (groupRuns key es).flatMap (·.2) = es
  | [] => rfl
  | e :: es => by
    have ih := groupRuns_flatMap key es
    unfold groupRuns
    cases h : groupRuns key es with
    | nil => rw [h] at ih; simp at ih; simp [ih]
    | cons kg rest =>
      obtain ⟨k, g⟩ := kg
      rw [h] at ih
      simp only [List.flatMap_cons] at ih
      by_cases hk : key e = k
      · simp only [hk, if_true, List.flatMap_cons, List.cons_append, ih]
      · simp only [hk, if_false, List.flatMap_cons, List.cons_append, List.nil_append, ih]

theorem groupRuns_key (key : DEdge → Nat) : ∀ es : List DEdge,
    ∀ g ∈ groupRuns key es, ∀ e ∈ g.2, key e = g.1
  | [], g, hg, _, _ => by simp [groupRuns] at hg
  | e0 :: es, g, hg, e, he => by
    have ih := groupRuns_key key es
    unfold groupRuns at hg
    cases h : groupRuns key es with
    | nil =>
      rw [h] at hg
      simp only [List.mem_singleton] at hg
      subst hg
      simp only [List.mem_singleton] at he
      rw [he]
    | cons kg rest =>
      obtain ⟨k, g0⟩ := kg
      rw [h] at hg ih
      by_cases hk : key e0 = k
      · simp only [hk, if_true, List.mem_cons] at hg
        rcases hg with rfl | hg
        · rcases List.mem_cons.mp he with rfl | he'
          · exact hk
          · exact ih (k, g0) (List.mem_cons_self ..) e he'
        · exact ih g (List.mem_cons_of_mem _ hg) e he
      · simp only [hk, if_false, List.mem_cons] at hg
        rcases hg with rfl | hg
        · simp only [List.mem_singleton] at he
          rw [he]
        · rcases hg with rfl | hg
          · exact ih (k, g0) (List.mem_cons_self ..) e he
          · exact ih g (List.mem_cons_of_mem _ hg) e he

/-! ### Decidable structure hypothesis -/

/-- every non-last group's parent is the non-fixed child of exactly one edge of the later groups -/
def starsOK (fixed : Array Bool) : List (Nat × List DEdge) → Bool
  | [] => true
  | g :: rest =>
    (rest.isEmpty ||
      ((rest.flatMap (·.2)).filter (fun e => !aget fixed e.c && e.c == g.1)).length == 1)
    && starsOK fixed rest

/-- **Decidable single-tree hypothesis** on a model input (evaluated by the harness on every
generated input): at least one group; no fixed parent; `groupsOK` (parents contiguous, in range,
children finished first); every non-root parent is the child of exactly one later edge; prior rows
have length `G`; tables of non-fixed children have length `G(G+1)/2` and those children are parents
(the code raises "dangling nodes" otherwise). -/
def singleTreeOK {α : Type} [Inhabited α] (inp : Input α) : Bool :=
  let gs := groupRuns (·.p) inp.edges
  !gs.isEmpty && gs.all (fun g => !aget inp.fixed g.1) && groupsOK inp.fixed inp.numNodes gs &&
  starsOK inp.fixed gs &&
  gs.all (fun g => (aget inp.prior g.1).size == inp.G &&
    g.2.all (fun e => aget inp.fixed e.c ||
      ((aget inp.lik e.id).size == triSize inp.G && (gs.map (·.1)).contains e.c)))

/-- the root: parent of the last group -/
def rootOf {α : Type} (inp : Input α) : Nat :=
  (((groupRuns (·.p) inp.edges).getLast?).map (·.1)).getD 0

theorem split_of_filter_length_one {β : Type} (p : β → Bool) : ∀ l : List β,
    (l.filter p).length = 1 → ∃ l1 x l2, l = l1 ++ x :: l2 ∧ p x = true ∧ ∀ e ∈ l1 ++ l2, p e = false
  | [], h => by simp at h
  | a :: l, h => by
    by_cases hp : p a = true
    · rw [List.filter_cons_of_pos hp] at h
      have hnil : l.filter p = [] := List.eq_nil_of_length_eq_zero (by simpa using h)
      refine ⟨[], a, l, rfl, hp, ?_⟩
      intro e he
      simp only [List.nil_append] at he
      by_contra hc
      have : e ∈ l.filter p := List.mem_filter.mpr ⟨he, by simpa using hc⟩
      rw [hnil] at this
      cases this
    · rw [List.filter_cons_of_neg hp] at h
      obtain ⟨l1, x, l2, hl, hx, hall⟩ := split_of_filter_length_one p l h
      refine ⟨a :: l1, x, l2, by rw [hl]; rfl, hx, ?_⟩
      intro e he
      simp only [List.cons_append, List.mem_cons] at he
      rcases he with rfl | he
      · simpa using hp
      · exact hall e he

section
variable {α : Type} [Field α] [Inhabited α]

/-- The decidable hypotheses give the abstract tree conditions for the model's final state. -/
theorem treeOK_of (o : Ops α) (ho : IsLinOps o) (inp : Input α) (ins : Array (Array α))
    (den : Array α) :
    ∀ gs : List (Nat × List DEdge),
      (∀ g ∈ gs, aget inp.fixed g.1 = false ∧ (aget inp.prior g.1).size = inp.G ∧
        (∀ e ∈ g.2, e.p = g.1 ∧ aget inp.frac e.id = 1 ∧
          (aget inp.fixed e.c = false → (aget inp.lik e.id).size = triSize inp.G)) ∧
        aget ins g.1 = ((groupVal o inp ins g).map (fun v => o.ratio v (aget den g.1))).toArray ∧
        aget den g.1 ≠ 0) →
      groupsOK inp.fixed inp.numNodes gs = true → starsOK inp.fixed gs = true →
      TreeOK inp.G inp.toTreeModel.fixed inp.toTreeModel.prior inp.toTreeModel.lik (insI ins)
        (fun u => aget den u) gs
  | [], _, _, _ => trivial
  | g :: rest, hloc, hok, hst => by
    simp only [groupsOK, Bool.and_eq_true] at hok
    obtain ⟨hhead, hrest⟩ := hok
    simp only [starsOK, Bool.and_eq_true] at hst
    obtain ⟨hstar, hstrest⟩ := hst
    obtain ⟨hfix, hpr, hedges, hrow, hd⟩ := hloc g (List.mem_cons_self ..)
    simp only [hfix, Bool.false_or, Bool.and_eq_true, decide_eq_true_eq, List.all_eq_true,
      bne_iff_ne, ne_eq, Bool.or_eq_true] at hhead
    obtain ⟨⟨_, hnodup⟩, hkids⟩ := hhead
    refine ⟨⟨hfix, ?_, fun e he => (hedges e he).1, ?_, ?_⟩, ?_,
      treeOK_of o ho inp ins den rest (fun g' hg' => hloc g' (List.mem_cons_of_mem _ hg')) hrest hstrest⟩
    · intro hmem
      obtain ⟨g', hg', heq⟩ := List.mem_map.mp hmem
      exact hnodup g' hg' heq
    · intro e he
      rcases hkids e he with h | h
      · exact Or.inl h
      · refine Or.inr ⟨h.1, ?_⟩
        intro hmem
        obtain ⟨g', hg', heq⟩ := List.mem_map.mp hmem
        exact h.2 g' hg' heq
    · exact head_equation o ho inp ins den g hpr (fun e he => (hedges e he).2.1)
        (fun e he => (hedges e he).2.2) hrow hd
    · intro hne
      have hlen : ((rest.flatMap (·.2)).filter (fun e => !aget inp.fixed e.c && e.c == g.1)).length = 1 := by
        rcases Bool.or_eq_true _ _ |>.mp hstar with h | h
        · exact absurd (List.isEmpty_iff.mp h) hne
        · simpa using h
      obtain ⟨l1, x, l2, hl, hx, hall⟩ := split_of_filter_length_one _ _ hlen
      simp only [Bool.and_eq_true, Bool.not_eq_true', beq_iff_eq] at hx
      refine ⟨l1, x, l2, hl, hx.2, ?_⟩
      intro e he
      have := hall e he
      simp only [Bool.and_eq_false_iff, Bool.not_eq_false', beq_eq_false_iff_ne, ne_eq] at this
      exact this

end
end Tsdate.Discrete
