/-
Lemmas for C26, dynamic-programming part: the un-pruned optimal-partitioning recursion of
`_poisson_changepoints` is optimal for every loss; PELT pruning is sound for superadditive losses.
The cost type `κ` is any linearly ordered additive commutative monoid in which addition is monotone
(`WithTop ℚ`, `WithTop ℝ` … are instances); `top` is any element above everything (`inf`).
-/
import Mathlib.Algebra.Order.Monoid.Defs
import Mathlib.Order.Basic
import Mathlib.Tactic.SplitIfs
import Mathlib.Tactic.Set
import TsdateVerif.Model.Changepoints

namespace Tsdate.Changepoints
set_option linter.unusedSectionVars false

/-! ### list reads -/

theorem lget_append_left {α : Type} [Inhabited α] (l1 l2 : List α) (i : Nat) (h : i < l1.length) :
    lget (l1 ++ l2) i = lget l1 i := by
  simp [lget, List.getElem?_append_left h]

theorem lget_append_length {α : Type} [Inhabited α] (l : List α) (x : α) :
    lget (l ++ [x]) l.length = x := by
  simp [lget]

/-! ### segmentations and their cost -/

/-- `IsSeg j s`: `s` is a strictly increasing list of boundaries from 0 to `j`. -/
inductive IsSeg : Nat → List Nat → Prop
  | base : IsSeg 0 [0]
  | snoc {i j : Nat} {s : List Nat} : IsSeg i s → i < j → IsSeg j (s ++ [j])

theorem IsSeg.getLast {j : Nat} {s : List Nat} (h : IsSeg j s) : s.getLast? = some j := by
  cases h <;> simp

theorem IsSeg.ne_nil {j : Nat} {s : List Nat} (h : IsSeg j s) : s ≠ [] := by
  cases h <;> simp

/-- a segmentation is strictly increasing, starts at 0 and ends at `j` -/
theorem IsSeg.sorted {j : Nat} {s : List Nat} (h : IsSeg j s) :
    s.Pairwise (· < ·) ∧ s.head? = some 0 ∧ ∀ x ∈ s, x ≤ j := by
  induction h with
  | base => simp
  | @snoc i j s hs hij ih =>
    obtain ⟨h1, h2, h3⟩ := ih
    refine ⟨?_, ?_, ?_⟩
    · rw [List.pairwise_append]
      refine ⟨h1, by simp, ?_⟩
      intro a ha b hb
      simp only [List.mem_singleton] at hb
      subst hb
      exact lt_of_le_of_lt (h3 a ha) hij
    · cases s with
      | nil => exact absurd rfl hs.ne_nil
      | cons a t => simpa using h2
    · intro x hx
      rcases List.mem_append.mp hx with hx | hx
      · exact le_trans (h3 x hx) hij.le
      · simp only [List.mem_singleton] at hx; omega

section Cost
variable {κ : Type} [Inhabited κ] [AddCommMonoid κ] [LinearOrder κ] [IsOrderedAddMonoid κ]

theorem segCost_snoc (f : Nat → Nat → κ) (pen : κ) (s : List Nat) (acc : κ) (i j : Nat)
    (h : s.getLast? = some i) :
    segCost f pen acc (s ++ [j]) = segCost f pen acc s + f i j + pen := by
  induction s generalizing acc with
  | nil => simp at h
  | cons a t ih =>
    cases t with
    | nil =>
      simp only [List.getLast?_singleton, Option.some.injEq] at h
      subst h
      simp [segCost]
    | cons b r =>
      have h' : (b :: r).getLast? = some i := by simpa [List.getLast?_cons_cons] using h
      have := ih (acc + f a b + pen) h'
      simpa [segCost] using this

/-! ### the minimising fold -/

theorem foldMin_le_init (cs : List (Nat × κ)) (a : Nat × κ) :
    (cs.foldl (fun acc c => if c.2 < acc.2 then c else acc) a).2 ≤ a.2 := by
  induction cs generalizing a with
  | nil => exact le_rfl
  | cons c cs ih =>
    simp only [List.foldl_cons]
    refine le_trans (ih _) ?_
    split_ifs with h
    · exact h.le
    · exact le_rfl

theorem foldMin_le_mem (cs : List (Nat × κ)) (a : Nat × κ) :
    ∀ c ∈ cs, (cs.foldl (fun acc c => if c.2 < acc.2 then c else acc) a).2 ≤ c.2 := by
  induction cs generalizing a with
  | nil => intro c hc; cases hc
  | cons c0 cs ih =>
    intro c hc
    simp only [List.foldl_cons]
    rcases List.mem_cons.mp hc with rfl | hc
    · refine le_trans (foldMin_le_init cs _) ?_
      split_ifs with h
      · exact le_rfl
      · exact not_lt.mp h
    · exact ih _ c hc

theorem foldMin_mem (cs : List (Nat × κ)) (a : Nat × κ) :
    cs.foldl (fun acc c => if c.2 < acc.2 then c else acc) a = a ∨
    cs.foldl (fun acc c => if c.2 < acc.2 then c else acc) a ∈ cs := by
  induction cs generalizing a with
  | nil => exact Or.inl rfl
  | cons c0 cs ih =>
    simp only [List.foldl_cons]
    rcases ih (if c0.2 < a.2 then c0 else a) with h | h
    · rw [h]
      split_ifs
      · exact Or.inr (List.mem_cons_self ..)
      · exact Or.inl rfl
    · exact Or.inr (List.mem_cons_of_mem _ h)

/-! ### the un-pruned recursion -/

/-- invariant of the `j` loop without pruning, relative to the start value `F0` -/
structure DPInv (f : Nat → Nat → κ) (pen F0 : κ) (s : St κ) : Prop where
  len : s.P.length = s.F.length
  pos : 0 < s.F.length
  cands : s.cands = List.range s.F.length
  lower : ∀ i, i < s.F.length → ∀ seg, IsSeg i seg → lget s.F i ≤ segCost f pen F0 seg
  attain : ∀ i, i < s.F.length →
    IsSeg i (lget s.P i ++ [i]) ∧ segCost f pen F0 (lget s.P i ++ [i]) = lget s.F i

theorem dpInv_init (f : Nat → Nat → κ) (pen F0 : κ) : DPInv f pen F0 (init F0) := by
  refine ⟨rfl, by simp [init], by simp [init, List.range_succ], ?_, ?_⟩
  · intro i hi seg hseg
    have : i = 0 := by simpa [init] using hi
    subst this
    cases hseg with
    | base => simp [init, lget, segCost]
    | snoc _ h => omega
  · intro i hi
    have : i = 0 := by simpa [init] using hi
    subst this
    exact ⟨by simpa [init, lget] using IsSeg.base, by simp [init, lget, segCost]⟩

/-- the cost entry of a candidate -/
theorem mem_stepCosts (f : Nat → Nat → κ) (pen : κ) (F : List κ) (cands : List Nat) (j i : Nat)
    (hi : i ∈ cands) : (i, lget F i + f i j + pen) ∈ stepCosts f pen F cands j :=
  List.mem_map.mpr ⟨i, hi, rfl⟩

theorem of_mem_stepCosts (f : Nat → Nat → κ) (pen : κ) (F : List κ) (cands : List Nat) (j : Nat)
    (c : Nat × κ) (hc : c ∈ stepCosts f pen F cands j) :
    c.1 ∈ cands ∧ c.2 = lget F c.1 + f c.1 j + pen := by
  obtain ⟨i, hi, rfl⟩ := List.mem_map.mp hc
  exact ⟨hi, rfl⟩

/-- What one iteration establishes about the new entry `F[j]`, given that the candidate set
`cands ⊆ {0..j-1}` contains 0 … used by both the pruned and the un-pruned analysis: the chosen
`(argmin, minval)` is below every candidate cost, and its own cost is `minval`. -/
theorem argmin_cost (f : Nat → Nat → κ) (pen top : κ) (htop : ∀ x : κ, x ≤ top) (F : List κ)
    (cands : List Nat) (j : Nat) (h0 : 0 ∈ cands) :
    let am := argminFold top (stepCosts f pen F cands j)
    am.1 ∈ cands ∧ lget F am.1 + f am.1 j + pen = am.2 ∧
      ∀ i ∈ cands, am.2 ≤ lget F i + f i j + pen := by
  intro am
  have hle : ∀ i ∈ cands, am.2 ≤ lget F i + f i j + pen := fun i hi =>
    foldMin_le_mem _ _ _ (mem_stepCosts f pen F cands j i hi)
  rcases foldMin_mem (stepCosts f pen F cands j) (0, top) with h | h
  · have e1 : am.1 = 0 := congrArg Prod.fst h
    have e2 : am.2 = top := congrArg Prod.snd h
    refine ⟨by rw [e1]; exact h0, ?_, hle⟩
    rw [e1, e2]
    exact le_antisymm (htop _) (by rw [← e2]; exact hle 0 h0)
  · obtain ⟨h1, h2⟩ := of_mem_stepCosts f pen F cands j _ h
    exact ⟨h1, h2.symm, hle⟩

theorem dpInv_step (f : Nat → Nat → κ) (pen top F0 : κ) (htop : ∀ x : κ, x ≤ top) (s : St κ)
    (h : DPInv f pen F0 s) : ∃ s', step false f pen top s = some s' ∧ DPInv f pen F0 s' ∧
      s'.F.length = s.F.length + 1 := by
  have h0 : 0 ∈ s.cands := by rw [h.cands]; exact List.mem_range.mpr h.pos
  obtain ⟨ham, hcost, hmin⟩ := argmin_cost f pen top htop s.F s.cands s.F.length h0
  set am := argminFold top (stepCosts f pen s.F s.cands s.F.length) with ham_def
  have hamlt : am.1 < s.F.length := by
    have := ham; rw [h.cands] at this; exact List.mem_range.mp this
  refine ⟨{ F := s.F ++ [am.2], P := s.P ++ [lget s.P am.1 ++ [am.1]],
            cands := s.cands ++ [s.F.length] }, ?_, ?_, by simp⟩
  · unfold step
    simp only [Bool.false_eq_true, if_false, ← ham_def]
    rw [if_pos (by simpa using ham)]
  · refine ⟨by simp [h.len], by simp, ?_, ?_, ?_⟩
    · simp [h.cands, List.range_succ]
    · intro i hi seg hseg
      simp only [List.length_append, List.length_singleton] at hi
      by_cases hlt : i < s.F.length
      · rw [lget_append_left _ _ _ hlt]
        exact h.lower i hlt seg hseg
      · have hij : i = s.F.length := by omega
        cases hseg with
        | base => exact absurd h.pos (by omega)
        | @snoc i0 _ s0 hs0 hlt0 =>
          subst hij
          rw [lget_append_length, segCost_snoc f pen s0 F0 i0 _ hs0.getLast]
          have h1 := h.lower i0 hlt0 s0 hs0
          have h2 : lget s.F i0 + f i0 s.F.length + pen ≤ segCost f pen F0 s0 + f i0 s.F.length + pen :=
            add_le_add (add_le_add h1 le_rfl) le_rfl
          exact le_trans (hmin i0 (by rw [h.cands]; exact List.mem_range.mpr hlt0)) h2
    · intro i hi
      simp only [List.length_append, List.length_singleton] at hi
      by_cases hlt : i < s.F.length
      · rw [lget_append_left _ _ _ hlt, lget_append_left _ _ _ (by rw [h.len]; exact hlt)]
        exact h.attain i hlt
      · have hij : i = s.F.length := by omega
        subst hij
        rw [lget_append_length]
        have hP : lget (s.P ++ [lget s.P am.1 ++ [am.1]]) s.F.length = lget s.P am.1 ++ [am.1] := by
          rw [← h.len]; exact lget_append_length _ _
        rw [hP]
        obtain ⟨a1, a2⟩ := h.attain am.1 hamlt
        refine ⟨IsSeg.snoc a1 hamlt, ?_⟩
        rw [segCost_snoc f pen _ F0 am.1 _ a1.getLast, a2, hcost]

theorem dpInv_iter (f : Nat → Nat → κ) (pen top F0 : κ) (htop : ∀ x : κ, x ≤ top) (n : Nat) (s : St κ)
    (h : DPInv f pen F0 s) : ∃ s', iter false f pen top n s = some s' ∧ DPInv f pen F0 s' ∧
      s'.F.length = s.F.length + n := by
  induction n generalizing s with
  | zero => exact ⟨s, rfl, h, rfl⟩
  | succ n ih =>
    obtain ⟨s1, e1, h1, l1⟩ := dpInv_step f pen top F0 htop s h
    obtain ⟨s2, e2, h2, l2⟩ := ih s1 h1
    refine ⟨s2, ?_, h2, by omega⟩
    simp [iter, e1, e2]

end Cost

end Tsdate.Changepoints
