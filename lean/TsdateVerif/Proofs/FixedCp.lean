/-
Lemmas for C26, `_fixed_changepoints`: cumulative sums of non-negative counts are sorted, and on a
sorted list `searchsorted(side="right") - 1` is the last index whose entry is `≤ z`.
-/
import Mathlib.Algebra.Order.Field.Basic
import Mathlib.Tactic.FieldSimp
import Mathlib.Tactic.Ring
import Mathlib.Tactic.Linarith
import Mathlib.Tactic.Positivity
import TsdateVerif.Model.Changepoints

namespace Tsdate.Changepoints
set_option linter.unusedSectionVars false

theorem lget_eq_getElem {α : Type} [Inhabited α] (l : List α) (i : Nat) (h : i < l.length) :
    lget l i = l[i] := by
  simp [lget, h]

/-! ### counting on a sorted list -/
section Count
variable {α : Type} [LinearOrder α]

/-- On a non-decreasing list, the entries `≤ z` are exactly the first `countP (· ≤ z)` ones. -/
theorem count_le_iff (l : List α) (z : α) (hs : l.Pairwise (· ≤ ·)) (i : Nat) (h : i < l.length) :
    l[i] ≤ z ↔ i < l.countP (fun x => decide (x ≤ z)) := by
  induction l generalizing i with
  | nil => simp at h
  | cons a l ih =>
    rw [List.pairwise_cons] at hs
    rw [List.countP_cons]
    by_cases ha : a ≤ z
    · simp only [ha, decide_true, if_true]
      cases i with
      | zero => simp [ha]
      | succ i =>
        simp only [List.getElem_cons_succ]
        rw [ih hs.2 i (by simpa using h)]
        omega
    · have hz : l.countP (fun x => decide (x ≤ z)) = 0 := by
        rw [List.countP_eq_zero]
        intro b hb
        have := hs.1 b hb
        simp only [decide_eq_true_eq]
        exact fun hbz => ha (le_trans this hbz)
      simp only [ha, decide_false, hz]
      cases i with
      | zero => simp [ha]
      | succ i =>
        simp only [List.getElem_cons_succ]
        have hi' : i < l.length := by simpa using h
        have hmem : l[i] ∈ l := List.getElem_mem hi'
        have := hs.1 _ hmem
        constructor
        · intro hle; exact absurd (le_trans this hle) ha
        · intro hlt; simp at hlt

theorem count_mono (l : List α) (z z' : α) (hz : z ≤ z') :
    l.countP (fun x => decide (x ≤ z)) ≤ l.countP (fun x => decide (x ≤ z')) := by
  apply List.countP_mono_left
  intro x _ hx
  simp only [decide_eq_true_eq] at hx ⊢
  exact le_trans hx hz

end Count

/-! ### cumulative sums -/
section Prefix
variable {α : Type} [Inhabited α] [Field α] [LinearOrder α] [IsStrictOrderedRing α]

theorem prefixFrom_length (acc : α) (xs : List α) : (prefixFrom acc xs).length = xs.length + 1 := by
  induction xs generalizing acc with
  | nil => rfl
  | cons x xs ih => simp [prefixFrom, ih]

theorem prefixFrom_sorted (acc : α) (xs : List α) (hx : ∀ x ∈ xs, 0 ≤ x) :
    (prefixFrom acc xs).Pairwise (· ≤ ·) ∧ ∀ y ∈ prefixFrom acc xs, acc ≤ y := by
  induction xs generalizing acc with
  | nil => simp [prefixFrom]
  | cons x xs ih =>
    have hx0 : 0 ≤ x := hx x (List.mem_cons_self ..)
    obtain ⟨h1, h2⟩ := ih (acc + x) (fun y hy => hx y (List.mem_cons_of_mem _ hy))
    simp only [prefixFrom]
    refine ⟨List.pairwise_cons.mpr ⟨fun y hy => by linarith [h2 y hy], h1⟩, ?_⟩
    intro y hy
    rcases List.mem_cons.mp hy with rfl | hy
    · exact le_rfl
    · linarith [h2 y hy]

/-- every cumulative sum is at most the total -/
theorem prefixFrom_le_last (acc : α) (xs : List α) (hx : ∀ x ∈ xs, 0 ≤ x) :
    ∀ y ∈ prefixFrom acc xs, y ≤ lget (prefixFrom acc xs) xs.length := by
  induction xs generalizing acc with
  | nil => intro y hy; simp [prefixFrom] at hy; subst hy; simp [prefixFrom, lget]
  | cons x xs ih =>
    have hx0 : 0 ≤ x := hx x (List.mem_cons_self ..)
    have hx' : ∀ y ∈ xs, 0 ≤ y := fun y hy => hx y (List.mem_cons_of_mem _ hy)
    have hlast : lget (prefixFrom acc (x :: xs)) (x :: xs).length
        = lget (prefixFrom (acc + x) xs) xs.length := by simp [prefixFrom, lget]
    intro y hy
    rw [hlast]
    rcases List.mem_cons.mp hy with rfl | hy
    · have hmem : lget (prefixFrom (y + x) xs) xs.length ∈ prefixFrom (y + x) xs := by
        rw [lget_eq_getElem _ _ (by rw [prefixFrom_length]; omega)]
        exact List.getElem_mem _
      have := (prefixFrom_sorted (y + x) xs hx').2 _ hmem
      linarith
    · exact ih (acc + x) hx' y hy

theorem prefixFrom_head (acc : α) (xs : List α) : lget (prefixFrom acc xs) 0 = acc := by
  cases xs <;> simp [prefixFrom, lget]

end Prefix

/-! ### the mass fractions and the grid -/
section Fixed
variable {α : Type} [Inhabited α] [Field α] [LinearOrder α] [IsStrictOrderedRing α]

theorem fixedPre_iff (counts : List α) (epochs : Nat) :
    fixedPre counts epochs = true ↔
      0 < epochs ∧ (∀ c ∈ counts, 0 ≤ c) ∧ 0 < lget (prefixFrom 0 counts) counts.length := by
  simp [fixedPre, and_assoc]

theorem massFractions_length (counts : List α) : (massFractions counts).length = counts.length + 1 := by
  simp [massFractions, prefixFrom_length]

theorem massFractions_sorted (counts : List α) (hc : ∀ c ∈ counts, 0 ≤ c)
    (hT : 0 < lget (prefixFrom 0 counts) counts.length) :
    (massFractions counts).Pairwise (· ≤ ·) := by
  unfold massFractions
  refine List.Pairwise.map _ ?_ (prefixFrom_sorted 0 counts hc).1
  intro a b hab
  exact div_le_div_of_nonneg_right hab hT.le

theorem massFractions_zero (counts : List α) (_hT : 0 < lget (prefixFrom 0 counts) counts.length) :
    (massFractions counts)[0]'(by rw [massFractions_length]; omega) = 0 := by
  have h0 := prefixFrom_head (0 : α) counts
  have hl : 0 < (prefixFrom (0 : α) counts).length := by rw [prefixFrom_length]; omega
  rw [lget_eq_getElem _ _ hl] at h0
  simp [massFractions, h0]

theorem massFractions_le_one (counts : List α) (hc : ∀ c ∈ counts, 0 ≤ c)
    (hT : 0 < lget (prefixFrom 0 counts) counts.length) : ∀ y ∈ massFractions counts, y ≤ 1 := by
  intro y hy
  obtain ⟨x, hx, rfl⟩ := List.mem_map.mp hy
  rw [div_le_one hT]
  exact prefixFrom_le_last 0 counts hc x hx

/-- in a field numba's `linspace(0, 1, epochs+1)[k]` is `k / epochs` -/
theorem zgrid_eq (epochs k : Nat) (he : 0 < epochs) :
    zgrid (fun n : Nat => (n : α)) epochs k = (k : α) / (epochs : α) := by
  have he' : (epochs : α) ≠ 0 := by exact_mod_cast (Nat.pos_iff_ne_zero.mp he)
  unfold zgrid
  split_ifs with h
  · subst h; field_simp
  · field_simp; ring

theorem zgrid_mono (epochs k k' : Nat) (he : 0 < epochs) (hk : k ≤ k') :
    zgrid (fun n : Nat => (n : α)) epochs k ≤ zgrid (fun n : Nat => (n : α)) epochs k' := by
  rw [zgrid_eq epochs k he, zgrid_eq epochs k' he]
  have he' : (0 : α) < (epochs : α) := by exact_mod_cast he
  apply div_le_div_of_nonneg_right _ he'.le
  exact_mod_cast hk

theorem zgrid_nonneg (epochs k : Nat) (he : 0 < epochs) :
    0 ≤ zgrid (fun n : Nat => (n : α)) epochs k := by
  rw [zgrid_eq epochs k he]
  positivity

/-- the raw index is at least 1 entry: `Z[0] = 0 ≤ z` -/
theorem searchRight_pos (counts : List α) (z : α) (hz : 0 ≤ z) (hc : ∀ c ∈ counts, 0 ≤ c)
    (hT : 0 < lget (prefixFrom 0 counts) counts.length) : 0 < searchRight (massFractions counts) z := by
  unfold searchRight
  rw [← count_le_iff _ z (massFractions_sorted counts hc hT) 0 (by rw [massFractions_length]; omega),
    massFractions_zero counts hT]
  exact hz

theorem searchRight_le (counts : List α) (z : α) :
    searchRight (massFractions counts) z ≤ counts.length + 1 := by
  unfold searchRight
  rw [← massFractions_length counts]
  exact List.countP_le_length

/-- **`searchsorted(Z, z, "right") - 1` is the last index with `Z[i] ≤ z`.** -/
theorem fixedRaw_last (counts : List α) (z : α) (hz : 0 ≤ z) (hc : ∀ c ∈ counts, 0 ≤ c)
    (hT : 0 < lget (prefixFrom 0 counts) counts.length) :
    let i := searchRight (massFractions counts) z - 1
    i ≤ counts.length ∧ lget (massFractions counts) i ≤ z ∧
      ∀ i', i < i' → i' ≤ counts.length → z < lget (massFractions counts) i' := by
  intro i
  have hpos := searchRight_pos counts z hz hc hT
  have hle := searchRight_le counts z
  have hs := massFractions_sorted counts hc hT
  have hlen := massFractions_length counts
  have hi : i < (massFractions counts).length := by rw [hlen]; omega
  refine ⟨by omega, ?_, ?_⟩
  · rw [lget_eq_getElem _ _ hi, count_le_iff _ z hs i hi]
    show searchRight (massFractions counts) z - 1 < searchRight (massFractions counts) z
    omega
  · intro i' hii' hi'n
    have hi' : i' < (massFractions counts).length := by rw [hlen]; omega
    rw [lget_eq_getElem _ _ hi']
    by_contra hcon
    have := (count_le_iff _ z hs i' hi').mp (not_lt.mp hcon)
    have : i' < searchRight (massFractions counts) z := this
    omega

end Fixed

end Tsdate.Changepoints
