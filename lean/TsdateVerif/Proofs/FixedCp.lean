/-
Lemmas for C26, `_fixed_changepoints`: cumulative sums of non-negative counts are sorted, and on a
sorted list `searchsorted(side="right") - 1` is the last index whose entry is `≤ z`.
-/
import Mathlib.Algebra.Order.Field.Basic
import Mathlib.Tactic.FieldSimp
import Mathlib.Tactic.Ring
import Mathlib.Tactic.Linarith
import Mathlib.Tactic.Positivity
import TsdateVerif.Model.Changepoints

namespace Tsdate.Changepoints
set_option linter.unusedSectionVars false

theorem lget_eq_getElem {α : Type} [Inhabited α] (l : List α) (i : Nat) (h : i < l.length) :
    lget l i = l[i] := by
  simp [lget, h]

/-! ### counting on a sorted list -/
section Count
variable {α : Type} [LinearOrder α]

/-- On a non-decreasing list, the entries `≤ z` are exactly the first `countP (· ≤ z)` ones. -/
theorem count_le_iff (l : List α) (z : α) (hs : l.Pairwise (· ≤ ·)) (i : Nat) (h : i < l.length) :
    l[i] ≤ z ↔ i < l.countP (fun x => decide (x ≤ z)) := by
  induction l generalizing i with
  | nil => simp at h
  | cons a l ih =>
    rw [List.pairwise_cons] at hs
    rw [List.countP_cons]
    by_cases ha : a ≤ z
    · simp only [ha, decide_true, if_true]
      cases i with
      | zero => simp [ha]
      | succ i =>
        simp only [List.getElem_cons_succ]
        rw [ih hs.2 i (by simpa using h)]
        omega
    · have hz : l.countP (fun x => decide (x ≤ z)) = 0 := by
        rw [List.countP_eq_zero]
        intro b hb
        have := hs.1 b hb
        simp only [decide_eq_true_eq]
        exact fun hbz => ha (le_trans this hbz)
      simp only [ha, decide_false, hz]
      cases i with
      | zero => simp [ha]
      | succ i =>
        simp only [List.getElem_cons_succ]
        have hi' : i < l.length := by simpa using h
        have hmem : l[i] ∈ l := List.getElem_mem hi'
        have := hs.1 _ hmem
        constructor
        · intro hle; exact absurd (le_trans this hle) ha
        · intro hlt; simp at hlt

theorem count_mono (l : List α) (z z' : α) (hz : z ≤ z') :
    l.countP (fun x => decide (x ≤ z)) ≤ l.countP (fun x => decide (x ≤ z')) := by
  apply List.countP_mono_left
  intro x _ hx
  simp only [decide_eq_true_eq] at hx ⊢
  exact le_trans hx hz

end Count

/-! ### cumulative sums -/
section Prefix
variable {α : Type} [Inhabited α] [Field α] [LinearOrder α] [IsStrictOrderedRing α]

theorem prefixFrom_length (acc : α) (xs : List α) : (prefixFrom acc xs).length = xs.length + 1 := by
  induction xs generalizing acc with
  | nil => rfl
  | cons x xs ih => simp [prefixFrom, ih]

theorem prefixFrom_sorted (acc : α) (xs : List α) (hx : ∀ x ∈ xs, 0 ≤ x) :
    (prefixFrom acc xs).Pairwise (· ≤ ·) ∧ ∀ y ∈ prefixFrom acc xs, acc ≤ y := by
  induction xs generalizing acc with
  | nil => simp [prefixFrom]
  | cons x xs ih =>
    have hx0 : 0 ≤ x := hx x (List.mem_cons_self ..)
    obtain ⟨h1, h2⟩ := ih (acc + x) (fun y hy => hx y (List.mem_cons_of_mem _ hy))
    simp only [prefixFrom]
    refine ⟨List.pairwise_cons.mpr ⟨fun y hy => by linarith [h2 y hy], h1⟩, ?_⟩
    intro y hy
    rcases List.mem_cons.mp hy with rfl | hy
    · exact le_rfl
    · linarith [h2 y hy]

/-- every cumulative sum is at most the total -/
theorem prefixFrom_le_last (acc : α) (xs : List α) (hx : ∀ x ∈ xs, 0 ≤ x) :
    ∀ y ∈ prefixFrom acc xs, y ≤ lget (prefixFrom acc xs) xs.length := by
  induction xs generalizing acc with
  | nil => intro y hy; simp [prefixFrom] at hy; subst hy; simp [prefixFrom, lget]
  | cons x xs ih =>
    have hx0 : 0 ≤ x := hx x (List.mem_cons_self ..)
    have hx' : ∀ y ∈ xs, 0 ≤ y := fun y hy => hx y (List.mem_cons_of_mem _ hy)
    have hlast : lget (prefixFrom acc (x :: xs)) (x :: xs).length
        = lget (prefixFrom (acc + x) xs) xs.length := by simp [prefixFrom, lget]
    intro y hy
    rw [hlast]
    rcases List.mem_cons.mp hy with rfl | hy
    · have hmem : lget (prefixFrom (y + x) xs) xs.length ∈ prefixFrom (y + x) xs := by
        rw [lget_eq_getElem _ _ (by rw [prefixFrom_length]; omega)]
        exact List.getElem_mem _
      have := (prefixFrom_sorted (y + x) xs hx').2 _ hmem
      linarith
    · exact ih (acc + x) hx' y hy

theorem prefixFrom_head (acc : α) (xs : List α) : lget (prefixFrom acc xs) 0 = acc := by
  cases xs <;> simp [prefixFrom, lget]

end Prefix

/-! ### the scaled cumulative sums and the targets -/
section Fixed
variable {α : Type} [Inhabited α] [Field α] [LinearOrder α] [IsStrictOrderedRing α]

theorem fixedPre_iff (counts : List α) (epochs : Nat) :
    fixedPre counts epochs = true ↔ 0 < epochs ∧ (∀ c ∈ counts, 0 ≤ c) := by
  simp [fixedPre]

/-- the total is a member of the cumulative sums, hence non-negative -/
theorem total_nonneg (counts : List α) (hc : ∀ c ∈ counts, 0 ≤ c) :
    0 ≤ lget (prefixFrom 0 counts) counts.length := by
  have hl : counts.length < (prefixFrom (0 : α) counts).length := by rw [prefixFrom_length]; omega
  have hmem : lget (prefixFrom 0 counts) counts.length ∈ prefixFrom 0 counts := by
    rw [lget_eq_getElem _ _ hl]; exact List.getElem_mem _
  exact (prefixFrom_sorted 0 counts hc).2 _ hmem

theorem scaledSums_length (counts : List α) (epochs : Nat) :
    (scaledSums (fun n : Nat => (n : α)) counts epochs).length = counts.length + 1 := by
  simp [scaledSums, prefixFrom_length]

theorem scaledSums_sorted (counts : List α) (epochs : Nat) (hc : ∀ c ∈ counts, 0 ≤ c) :
    (scaledSums (fun n : Nat => (n : α)) counts epochs).Pairwise (· ≤ ·) := by
  unfold scaledSums
  refine List.Pairwise.map _ ?_ (prefixFrom_sorted 0 counts hc).1
  intro a b hab
  exact mul_le_mul_of_nonneg_right hab (Nat.cast_nonneg _)

theorem scaledSums_get (counts : List α) (epochs i : Nat) (hi : i ≤ counts.length) :
    lget (scaledSums (fun n : Nat => (n : α)) counts epochs) i
      = lget (prefixFrom 0 counts) i * (epochs : α) := by
  have hl : i < (prefixFrom (0 : α) counts).length := by rw [prefixFrom_length]; omega
  simp [scaledSums, lget, hl]

theorem scaledSums_zero (counts : List α) (epochs : Nat) :
    (scaledSums (fun n : Nat => (n : α)) counts epochs)[0]'(by rw [scaledSums_length]; omega) = 0 := by
  have h0 := prefixFrom_head (0 : α) counts
  have hl : 0 < (prefixFrom (0 : α) counts).length := by rw [prefixFrom_length]; omega
  rw [lget_eq_getElem _ _ hl] at h0
  simp [scaledSums, h0]

theorem target_nonneg (counts : List α) (hc : ∀ c ∈ counts, 0 ≤ c) (k : Nat) :
    0 ≤ target (fun n : Nat => (n : α)) counts k :=
  mul_nonneg (Nat.cast_nonneg _) (total_nonneg counts hc)

theorem target_mono (counts : List α) (hc : ∀ c ∈ counts, 0 ≤ c) (k k' : Nat) (hk : k ≤ k') :
    target (fun n : Nat => (n : α)) counts k ≤ target (fun n : Nat => (n : α)) counts k' := by
  unfold target
  have h : ((k : ℕ) : α) ≤ ((k' : ℕ) : α) := by exact_mod_cast hk
  exact mul_le_mul_of_nonneg_right h (total_nonneg counts hc)

/-- every scaled cumulative sum is at most `epochs * total` -/
theorem scaledSums_le_last (counts : List α) (epochs : Nat) (hc : ∀ c ∈ counts, 0 ≤ c) :
    ∀ y ∈ scaledSums (fun n : Nat => (n : α)) counts epochs,
      y ≤ target (fun n : Nat => (n : α)) counts epochs := by
  intro y hy
  obtain ⟨x, hx, rfl⟩ := List.mem_map.mp hy
  unfold target
  rw [mul_comm ((epochs : ℕ) : α)]
  exact mul_le_mul_of_nonneg_right (prefixFrom_le_last 0 counts hc x hx) (Nat.cast_nonneg _)

theorem searchRight_pos (counts : List α) (epochs : Nat) (z : α) (hz : 0 ≤ z)
    (hc : ∀ c ∈ counts, 0 ≤ c) :
    0 < searchRight (scaledSums (fun n : Nat => (n : α)) counts epochs) z := by
  unfold searchRight
  rw [← count_le_iff _ z (scaledSums_sorted counts epochs hc) 0 (by rw [scaledSums_length]; omega),
    scaledSums_zero counts epochs]
  exact hz

theorem searchRight_le (counts : List α) (epochs : Nat) (z : α) :
    searchRight (scaledSums (fun n : Nat => (n : α)) counts epochs) z ≤ counts.length + 1 := by
  unfold searchRight
  rw [← scaledSums_length counts epochs]
  exact List.countP_le_length

/-- **`searchsorted(Y * epochs, z, "right") - 1` is the last index with `Y[i] * epochs ≤ z`.** -/
theorem fixedRaw_last (counts : List α) (epochs : Nat) (z : α) (hz : 0 ≤ z) (hc : ∀ c ∈ counts, 0 ≤ c) :
    let i := searchRight (scaledSums (fun n : Nat => (n : α)) counts epochs) z - 1
    i ≤ counts.length ∧ lget (scaledSums (fun n : Nat => (n : α)) counts epochs) i ≤ z ∧
      ∀ i', i < i' → i' ≤ counts.length →
        z < lget (scaledSums (fun n : Nat => (n : α)) counts epochs) i' := by
  intro i
  have hpos := searchRight_pos counts epochs z hz hc
  have hle := searchRight_le counts epochs z
  have hs := scaledSums_sorted counts epochs hc
  have hlen := scaledSums_length counts epochs
  have hi : i < (scaledSums (fun n : Nat => (n : α)) counts epochs).length := by rw [hlen]; omega
  refine ⟨by omega, ?_, ?_⟩
  · rw [lget_eq_getElem _ _ hi, count_le_iff _ z hs i hi]
    show searchRight (scaledSums (fun n : Nat => (n : α)) counts epochs) z - 1
      < searchRight (scaledSums (fun n : Nat => (n : α)) counts epochs) z
    omega
  · intro i' hii' hi'n
    have hi' : i' < (scaledSums (fun n : Nat => (n : α)) counts epochs).length := by rw [hlen]; omega
    rw [lget_eq_getElem _ _ hi']
    by_contra hcon
    have := (count_le_iff _ z hs i' hi').mp (not_lt.mp hcon)
    have : i' < searchRight (scaledSums (fun n : Nat => (n : α)) counts epochs) z := this
    omega

end Fixed

end Tsdate.Changepoints
