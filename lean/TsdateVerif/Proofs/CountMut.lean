/-
Lemmas for C24: the bookkeeping of `_count_mutations` (Model/CountMut.lean) seen through the sweep
rule.  Part 1 (this file): the pieces — `nodes_edge` tracks the active edge above every node, the
mutation loop, the plain span accumulator.  `Proofs/CountMutMain.lean` assembles them.
-/
import Mathlib.Algebra.Order.Field.Basic
import Mathlib.Tactic.Ring
import Mathlib.Tactic.Linarith
import TsdateVerif.Proofs.SweepRule
import TsdateVerif.Model.CountMut

namespace Tsdate.CountMut
open Tsdate Tsdate.Sweep
set_option linter.unusedSectionVars false
set_option linter.unusedVariables false

section
variable {α : Type} [Inhabited α] [Field α] [LinearOrder α] [IsStrictOrderedRing α]

/-- Edge `e` is the edge above mutation `m`: its child is the mutation's node and it covers the
mutation's position. -/
def Above (T : Tables α) (M : Muts α) (m e : Nat) : Prop :=
  e < T.numEdges ∧ T.chi e = aget M.node m ∧ T.l e ≤ aget M.pos m ∧ aget M.pos m < T.r e

instance (T : Tables α) (M : Muts α) (m e : Nat) : Decidable (Above T M m e) := by
  unfold Above; infer_instance

/-- Edges with the same child never overlap (a node has at most one parent at any position). -/
def NoOverlap (T : Tables α) : Prop :=
  ∀ e e', e < T.numEdges → e' < T.numEdges → e ≠ e' → T.chi e = T.chi e' →
    T.r e ≤ T.l e' ∨ T.r e' ≤ T.l e

theorem noOverlap_of_B (T : Tables α) (h : noOverlapB T = true) : NoOverlap T := by
  intro e e' he he' hne hc
  simp only [noOverlapB, List.all_eq_true, List.mem_range, Bool.or_eq_true, beq_iff_eq, bne_iff_ne,
    ne_eq, decide_eq_true_eq] at h
  rcases h e he e' he' with ((h | h) | h) | h
  · exact absurd h hne
  · exact absurd hc h
  · exact Or.inl h
  · exact Or.inr h

/-! ### `nodes_edge` -/

/-- `nodes_edge[c]` is the edge that has been inserted and not removed and whose child is `c`. -/
def NE (T : Tables α) (N : Nat) (insD remD : List Nat) (A : Array (Option Nat)) : Prop :=
  ∀ c, c < N → ∀ e, aget A c = some e ↔ (e ∈ insD ∧ e ∉ remD ∧ T.chi e = c)

theorem ne_remove (T : Tables α) (hV : Valid T) (hNO : NoOverlap T) (N : Nat)
    (hN : ∀ e, e < T.numEdges → T.chi e < N)
    {x : α} {insD insR remD : List Nat} {e : Nat} {remR : List Nat}
    (F : RemFacts T x insD insR remD e remR) (A : Array (Option Nat)) (hsz : A.size = N)
    (h : NE T N insD remD A) : NE T N insD (remD ++ [e]) (aset A (T.chi e) none) := by
  have heE : e < T.numEdges := hV.mem_rem.mp (by rw [F.hrem]; simp)
  have hc : T.chi e < A.size := by rw [hsz]; exact hN e heE
  intro c hcN e'
  rw [aget_aset _ _ _ _ hc]
  by_cases hcc : c = T.chi e
  · simp only [hcc, if_true]
    constructor
    · intro h'; exact absurd h' (by simp)
    · rintro ⟨h1, h2, h3⟩
      exfalso
      have hne : e' ≠ e := fun h => h2 (by simp [h])
      have he'E : e' < T.numEdges := hV.mem_ins.mp (by rw [F.hins]; exact List.mem_append_left _ h1)
      have h2' : e' ∉ remD := fun h => h2 (List.mem_append_left _ h)
      have he'R : e' ∈ remR := by
        have := hV.mem_rem.mpr he'E
        rw [F.hrem] at this
        rcases List.mem_append.mp this with h | h
        · exact absurd h h2'
        · rcases List.mem_cons.mp h with h | h
          · exact absurd h hne
          · exact h
      have hl' : T.l e' < x := F.insD_lt e' h1
      have hr' : x ≤ T.r e' := F.remR_ge e' he'R
      have g := hV.geom e heE
      rcases hNO e' e he'E heE hne h3 with h | h
      · -- r e' ≤ l e < r e = x ≤ r e'
        exact absurd (lt_of_le_of_lt h (lt_of_lt_of_le g.2.1 (F.key ▸ hr'))) (lt_irrefl _)
      · -- r e = x ≤ l e' < x
        rw [F.key] at h
        exact absurd (lt_of_le_of_lt h hl') (lt_irrefl _)
  · simp only [hcc, if_false]
    rw [h c hcN e']
    constructor
    · rintro ⟨h1, h2, h3⟩
      refine ⟨h1, ?_, h3⟩
      intro hm
      rcases List.mem_append.mp hm with hm | hm
      · exact h2 hm
      · simp at hm; subst hm; exact hcc h3.symm
    · rintro ⟨h1, h2, h3⟩
      exact ⟨h1, fun hm => h2 (List.mem_append_left _ hm), h3⟩

theorem ne_insert (T : Tables α) (hV : Valid T) (hNO : NoOverlap T) (N : Nat)
    (hN : ∀ e, e < T.numEdges → T.chi e < N)
    {x : α} {insD : List Nat} {e : Nat} {insR remD remR : List Nat}
    (F : InsFacts T x insD e insR remD remR) (A : Array (Option Nat)) (hsz : A.size = N)
    (h : NE T N insD remD A) : NE T N (insD ++ [e]) remD (aset A (T.chi e) (some e)) := by
  have heE : e < T.numEdges := hV.mem_ins.mp (by rw [F.hins]; simp)
  have hc : T.chi e < A.size := by rw [hsz]; exact hN e heE
  have g := hV.geom e heE
  have heR : e ∉ remD := by
    intro hm
    have := F.remD_le e hm
    rw [← F.key] at this
    exact absurd (lt_of_lt_of_le g.2.1 this) (lt_irrefl _)
  intro c hcN e'
  rw [aget_aset _ _ _ _ hc]
  by_cases hcc : c = T.chi e
  · simp only [hcc, if_true]
    constructor
    · intro h'
      have : e = e' := by simpa using h'
      subst this
      exact ⟨by simp, heR, rfl⟩
    · rintro ⟨h1, h2, h3⟩
      by_cases hne : e' = e
      · rw [hne]
      · exfalso
        have h1' : e' ∈ insD := by
          rcases List.mem_append.mp h1 with h | h
          · exact h
          · simp at h; exact absurd h hne
        have he'E : e' < T.numEdges := hV.mem_ins.mp (by rw [F.hins]; exact List.mem_append_left _ h1')
        have he'R : e' ∈ remR := by
          have := hV.mem_rem.mpr he'E
          rw [F.hrem] at this
          rcases List.mem_append.mp this with h | h
          · exact absurd h h2
          · exact h
        have hl' : T.l e' ≤ x := F.insD_le e' h1'
        have hr' : x < T.r e' := F.remR_gt e' he'R
        rcases hNO e' e he'E heE hne h3 with h | h
        · rw [F.key] at h; exact absurd (lt_of_lt_of_le hr' h) (lt_irrefl _)
        · exact absurd (lt_of_lt_of_le (F.key ▸ g.2.1) (le_trans h hl')) (lt_irrefl _)
  · simp only [hcc, if_false]
    rw [h c hcN e']
    constructor
    · rintro ⟨h1, h2, h3⟩
      exact ⟨List.mem_append_left _ h1, h2, h3⟩
    · rintro ⟨h1, h2, h3⟩
      refine ⟨?_, h2, h3⟩
      rcases List.mem_append.mp h1 with h | h
      · exact h
      · simp at h; subst h; exact absurd h3.symm hcc

/-! ### the walk towards the root does not touch the edge bookkeeping -/

theorem walk_preserves (op : α → α → α) (c : Nat) (rem : α) :
    ∀ (fuel : Nat) (oe op' : Option Nat) (s : St α),
      (walk op c rem fuel oe op' s).nodeEdge = s.nodeEdge ∧
      (walk op c rem fuel oe op' s).nodeParent = s.nodeParent ∧
      (walk op c rem fuel oe op' s).mutEdge = s.mutEdge ∧
      (walk op c rem fuel oe op' s).edgeMuts = s.edgeMuts ∧
      (walk op c rem fuel oe op' s).mutR = s.mutR ∧
      (walk op c rem fuel oe op' s).edgeSpan.size = s.edgeSpan.size ∧
      (walk op c rem fuel oe op' s).nodeSamples.size = s.nodeSamples.size := by
  intro fuel
  induction fuel with
  | zero =>
    intro oe op' s
    cases op' <;> simp [walk]
  | succ n ih =>
    intro oe op' s
    cases op' with
    | none => simp [walk]
    | some p =>
      cases oe with
      | none => simp [walk]
      | some e =>
        simp only [walk]
        have := ih (aget s.nodeEdge p) (aget s.nodeParent p)
          { s with
            edgeSpan := aset s.edgeSpan e (op (aget s.edgeSpan e) (aget s.nodeSamples c * rem)),
            nodeSamples := aset s.nodeSamples p (op (aget s.nodeSamples p) (aget s.nodeSamples c)) }
        simpa using this

/-- What the edge hooks do to the parts of the state that both variants share. -/
theorem removeEdge_shared (T : Tables α) (sb : Bool) (x : α) (s : St α) (e : Nat) :
    (removeEdge T sb x s e).nodeEdge = aset s.nodeEdge (T.chi e) none ∧
    (removeEdge T sb x s e).mutEdge = s.mutEdge ∧
    (removeEdge T sb x s e).edgeMuts = s.edgeMuts ∧
    (removeEdge T sb x s e).mutR = s.mutR ∧
    (removeEdge T sb x s e).edgeSpan.size = s.edgeSpan.size := by
  unfold removeEdge
  cases sb
  · simp
  · simp only [if_true]
    have := walk_preserves (fun a b : α => a - b) (T.chi e) (T.seqLen - x)
      (s.nodeSamples.size + 1) (some e) (some (T.par e))
      { s with nodeEdge := aset s.nodeEdge (T.chi e) none, nodeParent := aset s.nodeParent (T.chi e) none }
    obtain ⟨h1, _, h3, h4, h5, h6, _⟩ := this
    exact ⟨h1, h3, h4, h5, h6⟩

theorem insertEdge_shared (T : Tables α) (sb : Bool) (x : α) (s : St α) (e : Nat) :
    (insertEdge T sb x s e).nodeEdge = aset s.nodeEdge (T.chi e) (some e) ∧
    (insertEdge T sb x s e).mutEdge = s.mutEdge ∧
    (insertEdge T sb x s e).edgeMuts = s.edgeMuts ∧
    (insertEdge T sb x s e).mutR = s.mutR ∧
    (insertEdge T sb x s e).edgeSpan.size = s.edgeSpan.size := by
  unfold insertEdge
  cases sb
  · simp
  · simp only [if_true]
    have := walk_preserves (fun a b : α => a + b) (T.chi e) (T.seqLen - x)
      (s.nodeSamples.size + 1) (some e) (some (T.par e))
      { s with nodeEdge := aset s.nodeEdge (T.chi e) (some e),
               nodeParent := aset s.nodeParent (T.chi e) (some (T.par e)) }
    obtain ⟨h1, _, h3, h4, h5, h6, _⟩ := this
    exact ⟨h1, h3, h4, h5, h6⟩

theorem removeEdge_plain (T : Tables α) (x : α) (s : St α) (e : Nat) :
    (removeEdge T false x s e).edgeSpan = aset s.edgeSpan e (aget s.edgeSpan e - (T.seqLen - x)) ∧
    (removeEdge T false x s e).err = s.err := by
  unfold removeEdge; simp

theorem insertEdge_plain (T : Tables α) (x : α) (s : St α) (e : Nat) :
    (insertEdge T false x s e).edgeSpan = aset s.edgeSpan e (aget s.edgeSpan e + (T.seqLen - x)) ∧
    (insertEdge T false x s e).err = s.err := by
  unfold insertEdge; simp

/-! ### the mutation loop -/

/-- State of the mutation bookkeeping when the mutations in `mutD` have been visited and those in
`mutR` have not.  `w m` is the weight with which mutation `m` is counted (`1` in the plain variant). -/
structure MutsOk (T : Tables α) (M : Muts α) (w : Nat → α) (mutD mutR : List Nat) (s : St α) :
    Prop where
  szME : s.mutEdge.size = M.node.size
  szEM : s.edgeMuts.size = T.numEdges
  done : ∀ m ∈ mutD, ∀ e, aget s.mutEdge m = some e ↔ Above T M m e
  todo : ∀ m ∈ mutR, aget s.mutEdge m = none
  count : ∀ e, e < T.numEdges →
    aget s.edgeMuts e = (mutD.map fun m => if Above T M m e then w m else 0).sum

theorem MutsOk.congr {T : Tables α} {M : Muts α} {w : Nat → α} {mutD mutR : List Nat} {s s' : St α}
    (h : MutsOk T M w mutD mutR s) (h1 : s'.mutEdge = s.mutEdge) (h2 : s'.edgeMuts = s.edgeMuts) :
    MutsOk T M w mutD mutR s' :=
  ⟨by rw [h1]; exact h.szME, by rw [h2]; exact h.szEM, by rw [h1]; exact h.done,
    by rw [h1]; exact h.todo, by rw [h2]; exact h.count⟩

theorem sum_indicator (l : List Nat) (p : Nat → Prop) [DecidablePred p] :
    (l.map fun m => if p m then (1 : α) else 0).sum = ((l.countP fun m => decide (p m) : Nat) : α) := by
  induction l with
  | nil => simp
  | cons a r ih =>
    rw [List.map_cons, List.sum_cons, ih, List.countP_cons]
    by_cases h : p a <;> simp [h, add_comm]

theorem mutStep_none (M : Muts α) (sb : Bool) (s : St α) (m : Nat)
    (h : aget s.nodeEdge (aget M.node m) = none) : mutStep M sb s m = s := by
  unfold mutStep; simp only [h]

theorem mutStep_some (M : Muts α) (sb : Bool) (s : St α) (m e : Nat)
    (h : aget s.nodeEdge (aget M.node m) = some e) :
    mutStep M sb s m = { s with
      mutEdge := aset s.mutEdge m (some e),
      edgeMuts := aset s.edgeMuts e
        (aget s.edgeMuts e + (if sb then aget s.nodeSamples (aget M.node m) else 1)) } := by
  unfold mutStep; simp only [h]

/-- One step of the mutation loop, given that `nodes_edge` at the mutation's node is the edge above
the mutation. -/
theorem mutStep_ok (T : Tables α) (M : Muts α) (sb : Bool) (w : Nat → α) (mutD : List Nat) (m : Nat)
    (mutR : List Nat) (s : St α) (hm : m < M.node.size) (hnd : (mutD ++ m :: mutR).Nodup)
    (hne : ∀ e, aget s.nodeEdge (aget M.node m) = some e ↔ Above T M m e)
    (hw : (if sb then aget s.nodeSamples (aget M.node m) else 1) = w m)
    (h : MutsOk T M w mutD (m :: mutR) s) :
    MutsOk T M w (mutD ++ [m]) mutR (mutStep M sb s m) ∧
    (mutStep M sb s m).nodeEdge = s.nodeEdge ∧ (mutStep M sb s m).edgeSpan = s.edgeSpan ∧
    (mutStep M sb s m).err = s.err ∧ (mutStep M sb s m).nodeSamples = s.nodeSamples ∧
    (mutStep M sb s m).nodeParent = s.nodeParent := by
  have hmD : m ∉ mutD := by
    intro hh
    have := (List.nodup_append.mp hnd).2.2 m hh m (List.mem_cons_self ..)
    exact this rfl
  have hmR : m ∉ mutR := by
    have := (List.nodup_append.mp hnd).2.1
    exact (List.nodup_cons.mp this).1
  have hmnone : aget s.mutEdge m = none := h.todo m (List.mem_cons_self ..)
  cases hcase : aget s.nodeEdge (aget M.node m) with
  | none =>
    rw [mutStep_none M sb s m hcase]
    refine ⟨⟨h.szME, h.szEM, ?_, ?_, ?_⟩, rfl, rfl, rfl, rfl, rfl⟩
    · intro m' hm' e
      rcases List.mem_append.mp hm' with hm' | hm'
      · exact h.done m' hm' e
      · simp at hm'; subst hm'
        rw [hmnone, ← hne e, hcase]
    · intro m' hm'; exact h.todo m' (List.mem_cons_of_mem _ hm')
    · intro e he
      rw [h.count e he, List.map_append, List.sum_append]
      have : ¬ Above T M m e := by rw [← hne e, hcase]; simp
      simp [this]
  | some e0 =>
    rw [mutStep_some M sb s m e0 hcase]
    have hA0 : Above T M m e0 := (hne e0).mp hcase
    have huniq : ∀ e, Above T M m e ↔ e = e0 := by
      intro e
      rw [← hne e, hcase]
      constructor
      · intro h; exact (Option.some.inj h).symm
      · intro h; rw [h]
    have hmsz : m < s.mutEdge.size := by rw [h.szME]; exact hm
    have he0 : e0 < s.edgeMuts.size := by rw [h.szEM]; exact hA0.1
    refine ⟨⟨by simp [h.szME], by simp [h.szEM], ?_, ?_, ?_⟩, rfl, rfl, rfl, rfl, rfl⟩
    · intro m' hm' e
      simp only
      rcases List.mem_append.mp hm' with hm' | hm'
      · have : m' ≠ m := fun hh => hmD (hh ▸ hm')
        rw [aget_aset_other _ _ _ _ this]
        exact h.done m' hm' e
      · simp at hm'; subst hm'
        rw [aget_aset_same _ _ _ hmsz, huniq e]
        constructor
        · intro h; exact (Option.some.inj h).symm
        · intro h; rw [h]
    · intro m' hm'
      simp only
      have : m' ≠ m := fun hh => hmR (hh ▸ hm')
      rw [aget_aset_other _ _ _ _ this]
      exact h.todo m' (List.mem_cons_of_mem _ hm')
    · intro e he
      simp only
      rw [aget_aset _ _ _ _ he0, List.map_append, List.sum_append, hw]
      by_cases hee : e = e0
      · subst hee
        rw [if_pos rfl, h.count e he]
        simp [hA0]
      · have : ¬ Above T M m e := fun hh => hee ((huniq e).mp hh)
        rw [if_neg hee, h.count e he]
        simp [this]

/-- What `takeWhile`/`dropWhile (pos · < x')` do on a list sorted by position. -/
theorem split_sorted_lt (key : Nat → α) (x' : α) (R : List Nat)
    (hs : R.Pairwise (fun a b => key a ≤ key b)) :
    (∀ m ∈ R.takeWhile (fun m => decide (key m < x')), key m < x') ∧
    (∀ m ∈ R.dropWhile (fun m => decide (key m < x')), x' ≤ key m) := by
  constructor
  · intro m hm
    have := List.mem_takeWhile_imp hm
    simpa using this
  · induction R with
    | nil => simp
    | cons a r ih =>
      have hs' := List.Pairwise.of_cons hs
      by_cases h : key a < x'
      · have : decide (key a < x') = true := by simpa using h
        rw [List.dropWhile_cons, if_pos this]
        exact ih hs'
      · have : ¬ decide (key a < x') = true := by simpa using h
        rw [List.dropWhile_cons, if_neg this]
        intro m hm
        rcases List.mem_cons.mp hm with rfl | hm
        · exact not_lt.mp h
        · exact le_trans (not_lt.mp h) (List.rel_of_pairwise_cons hs hm)

end

end Tsdate.CountMut
