/-
`outside_maximization` does not depend on the (valid) order in which the grouped iterator yields
the edges (used by Props/C11).
-/
import TsdateVerif.Proofs.Maximize

namespace Tsdate.Maximize
open Tsdate Tsdate.Order
set_option linter.unusedSectionVars false
set_option linter.unusedVariables false

/-! ### folds of a commutative, associative operation over a non-empty list -/

section Comm
variable {γ ι : Type}

/-- `g` folded over the values of a non-empty list, starting from the value of its head -/
def foldHead (g : γ → γ → γ) (val : ι → γ) : List ι → Option γ
  | [] => none
  | x :: xs => some (xs.foldl (fun acc e => g (val e) acc) (val x))

theorem foldHead_perm (g : γ → γ → γ) (hc : ∀ a b, g a b = g b a)
    (ha : ∀ a b c, g (g a b) c = g a (g b c)) (val : ι → γ) (l l' : List ι) (h : l.Perm l') :
    foldHead g val l = foldHead g val l' := by
  induction h with
  | nil => rfl
  | cons x h _ =>
    simp only [foldHead]
    congr 1
    apply h.foldl_eq'
    intro a _ b _ z
    show g (val b) (g (val a) z) = g (val a) (g (val b) z)
    rw [← ha, hc (val b), ha]
  | swap x y l =>
    simp only [foldHead, List.foldl_cons]
    rw [hc]
  | trans _ _ ih1 ih2 => exact ih1.trans ih2

end Comm

/-! ### a group is the list of the edges of its child -/

section Filter
variable {ε : Type}

theorem group_eq_filter_gen (key : ε → Nat) (gs : List (List ε)) (hne : ∀ g ∈ gs, g ≠ [])
    (hnd : (gs.map (ghead key)).Nodup) (hhom : ∀ g ∈ gs, ∀ e ∈ g, key e = ghead key g)
    (g : List ε) (hg : g ∈ gs) : g = gs.flatten.filter (fun e => key e == ghead key g) := by
  induction gs with
  | nil => cases hg
  | cons g0 gs ih =>
    have hnot : ghead key g0 ∉ gs.map (ghead key) := (List.nodup_cons.mp hnd).1
    rw [List.flatten_cons, List.filter_append]
    rcases List.mem_cons.mp hg with heq | hin
    · subst heq
      have h1 : g.filter (fun e => key e == ghead key g) = g := by
        rw [List.filter_eq_self]
        intro e he
        simp [hhom g (List.mem_cons_self ..) e he]
      have h2 : gs.flatten.filter (fun e => key e == ghead key g) = [] := by
        rw [List.filter_eq_nil_iff]
        intro e he hcon
        obtain ⟨g', hg', heg'⟩ := List.mem_flatten.mp he
        have h3 : key e = ghead key g := by simpa using hcon
        have h4 := hhom g' (List.mem_cons_of_mem _ hg') e heg'
        exact hnot (List.mem_map.mpr ⟨g', hg', by rw [← h4, h3]⟩)
      rw [h1, h2, List.append_nil]
    · have h1 : g0.filter (fun e => key e == ghead key g) = [] := by
        rw [List.filter_eq_nil_iff]
        intro e he hcon
        have h3 : key e = ghead key g := by simpa using hcon
        have h4 := hhom g0 (List.mem_cons_self ..) e he
        exact hnot (List.mem_map.mpr ⟨g, hin, by rw [← h3, h4]⟩)
      rw [h1, List.nil_append]
      exact ih (fun g' hg' => hne g' (List.mem_cons_of_mem _ hg')) (List.nodup_cons.mp hnd).2
        (fun g' hg' => hhom g' (List.mem_cons_of_mem _ hg')) hin

/-- a run of a grouped order is the list of all elements with its key -/
theorem run_eq_filter (key : ε → Nat) (es : List ε)
    (hnd : ((runsBy key es).map (ghead key)).Nodup) (g : List ε) (hg : g ∈ runsBy key es) :
    g = es.filter (fun e => key e == ghead key g) := by
  have := group_eq_filter_gen key (runsBy key es) (runsBy_ne_nil key es) hnd (runsBy_homog key es) g hg
  rwa [runsBy_flatten] at this

end Filter

/-! ### the rule's score does not depend on the order of the group's edges -/

section Scores
variable {α : Type} [Inhabited α] [LinearOrder α]

theorem minParent_eq_foldHead (idx : Nat → Nat) (e0 : MEdge) (rest : List MEdge) :
    some (minParent idx e0 rest) = foldHead (fun a b => min b a) (fun e => idx e.p) (e0 :: rest) := rfl

theorem prodLik_eq_foldHead (ops : Ops α) (inp : Inp α) (idx : Nat → Nat) (e0 : MEdge)
    (rest : List MEdge) (t : Nat) :
    some (prodLik ops inp idx e0 rest t)
      = foldHead ops.comb (fun e => inp.lik e (idx e.p) t) (e0 :: rest) := rfl

theorem specScores_perm (ops : Ops α) (hl : OpsLaws ops) (inp : Inp α) (idx idx' : Nat → Nat)
    (e0 e0' : MEdge) (rest rest' : List MEdge) (hperm : (e0 :: rest).Perm (e0' :: rest'))
    (hc : e0.c = e0'.c) (hidx : ∀ e ∈ e0 :: rest, idx e.p = idx' e.p) :
    specScores ops inp idx e0 rest = specScores ops inp idx' e0' rest' := by
  have hmin : minParent idx e0 rest = minParent idx' e0' rest' := by
    have h1 : foldHead (fun a b => min b a) (fun e => idx e.p) (e0 :: rest)
        = foldHead (fun a b => min b a) (fun e => idx' e.p) (e0 :: rest) := by
      simp only [foldHead, hidx e0 (List.mem_cons_self ..)]
      congr 1
      apply List.foldl_ext
      intro a e he
      rw [hidx e (List.mem_cons_of_mem _ he)]
    have h2 := foldHead_perm (fun a b : Nat => min b a) (fun a b => Nat.min_comm b a)
      (fun a b c => by show min c (min b a) = min (min c b) a; omega) (fun e : MEdge => idx' e.p) _ _ hperm
    have := (minParent_eq_foldHead idx e0 rest).trans (h1.trans h2)
    rw [← minParent_eq_foldHead] at this
    exact Option.some.inj this
  have hprod : ∀ t, prodLik ops inp idx e0 rest t = prodLik ops inp idx' e0' rest' t := by
    intro t
    have h1 : foldHead ops.comb (fun e => inp.lik e (idx e.p) t) (e0 :: rest)
        = foldHead ops.comb (fun e => inp.lik e (idx' e.p) t) (e0 :: rest) := by
      simp only [foldHead, hidx e0 (List.mem_cons_self ..)]
      congr 1
      apply List.foldl_ext
      intro a e he
      rw [hidx e (List.mem_cons_of_mem _ he)]
    have h2 := foldHead_perm ops.comb hl.comm hl.assoc (fun e : MEdge => inp.lik e (idx' e.p) t) _ _ hperm
    have := (prodLik_eq_foldHead ops inp idx e0 rest t).trans (h1.trans h2)
    rw [← prodLik_eq_foldHead] at this
    exact Option.some.inj this
  unfold specScores
  rw [hmin, hc]
  congr 1
  apply List.map_congr_left
  intro t _
  exact hprod t

end Scores

end Tsdate.Maximize
