/-
C24, assembly: `_count_mutations` through the sweep rule (pieces in Proofs/CountMut.lean).
-/
import TsdateVerif.Proofs.CountMut

namespace Tsdate.CountMut
open Tsdate Tsdate.Sweep
set_option linter.unusedSectionVars false
set_option linter.unusedVariables false

section
variable {α : Type} [Inhabited α] [Field α] [LinearOrder α] [IsStrictOrderedRing α]

/-- The loop invariant of `_count_mutations` (both variants; the `plain` part only without size
biasing). -/
structure CInv (T : Tables α) (M : Muts α) (N : Nat) (sb : Bool) (order : List Nat) (x : α)
    (insD remD : List Nat) (s : St α) : Prop where
  szNE : s.nodeEdge.size = N
  szSP : s.edgeSpan.size = T.numEdges
  ne : NE T N insD remD s.nodeEdge
  muts : ∃ mutD, order = mutD ++ s.mutR ∧ (∀ m ∈ mutD, aget M.pos m < x) ∧
    (∀ m ∈ s.mutR, x ≤ aget M.pos m) ∧ MutsOk T M sb mutD s.mutR s
  plain : sb = false → (∀ e, e < T.numEdges → aget s.edgeSpan e =
      (if e ∈ insD then T.seqLen - T.l e else 0) - (if e ∈ remD then T.seqLen - T.r e else 0)) ∧
    s.err = false

/-- What the caller of the kernel guarantees about the mutation table and the visiting order. -/
structure MutsValid (M : Muts α) (N : Nat) (order : List Nat) : Prop where
  perm : order.Perm (List.range M.node.size)
  sorted : order.Pairwise (fun a b => aget M.pos a ≤ aget M.pos b)
  node : ∀ m, m < M.node.size → aget M.node m < N
  pos : ∀ m, m < M.node.size → (0 : α) ≤ aget M.pos m

/-- The result of `_count_mutations` that C24 is about. -/
def CountSpec (T : Tables α) (M : Muts α) (sb : Bool) (s : St α) : Prop :=
  (∀ m, m < M.node.size → ∀ e, aget s.mutEdge m = some e ↔ Above T M m e) ∧
  (sb = false → s.err = false ∧ ∀ e, e < T.numEdges →
    aget s.edgeMuts e = (((List.range M.node.size).countP fun m => decide (Above T M m e) : Nat) : α) ∧
    aget s.edgeSpan e = T.r e - T.l e)

theorem mutLoop_ok (T : Tables α) (M : Muts α) (N : Nat) (sb : Bool) (order : List Nat)
    (hV : Valid T) (hM : MutsValid M N order)
    {x x' : α} {insD insR remD remR : List Nat} (F : AdvFacts T x x' insD insR remD remR)
    (s : St α) (h : CInv T M N sb order x insD remD s) :
    CInv T M N sb order x' insD remD (mutLoop M sb x' s) := by
  obtain ⟨mutD, hord, hD, hR, hok⟩ := h.muts
  set p : Nat → Bool := fun m => decide (aget M.pos m < x') with hp
  set tk := s.mutR.takeWhile p with htk
  set dp := s.mutR.dropWhile p with hdp
  have hsplit : s.mutR = tk ++ dp := (List.takeWhile_append_dropWhile).symm
  have hnd : order.Nodup := hM.perm.nodup_iff.mpr List.nodup_range
  have hRs : s.mutR.Pairwise (fun a b => aget M.pos a ≤ aget M.pos b) := by
    have := hM.sorted; rw [hord] at this; exact (List.pairwise_append.mp this).2.1
  obtain ⟨htk_lt, hdp_ge⟩ := split_sorted_lt (fun m => aget M.pos m) x' s.mutR hRs
  have hmemM : ∀ m ∈ order, m < M.node.size := fun m hm =>
    List.mem_range.mp (hM.perm.mem_iff.mp hm)
  -- the fold over the mutations in [x, x')
  have hfold : (∀ rest, tk = tk ++ rest → MutsOk T M sb (mutD ++ tk) (rest ++ dp) (tk.foldl (mutStep M sb) s)) ∧
      (tk.foldl (mutStep M sb) s).nodeEdge = s.nodeEdge ∧
      (tk.foldl (mutStep M sb) s).edgeSpan = s.edgeSpan ∧
      (tk.foldl (mutStep M sb) s).err = s.err := by
    apply foldl_prefix_inv (mutStep M sb)
      (fun d s' => (∀ rest, tk = d ++ rest → MutsOk T M sb (mutD ++ d) (rest ++ dp) s') ∧
        s'.nodeEdge = s.nodeEdge ∧ s'.edgeSpan = s.edgeSpan ∧ s'.err = s.err) tk s
    · refine ⟨?_, rfl, rfl, rfl⟩
      intro rest hrest
      simp only [List.nil_append] at hrest
      rw [List.append_nil, ← hrest, ← hsplit]
      exact hok
    · intro d m r s' hd ⟨hP, hne', hsp', herr'⟩
      have hP' := hP (m :: r) hd
      have hmtk : m ∈ tk := by rw [hd]; simp
      have hmR : m ∈ s.mutR := by rw [hsplit]; exact List.mem_append_left _ hmtk
      have hmO : m ∈ order := by rw [hord]; exact List.mem_append_right _ hmR
      have hmM := hmemM m hmO
      have hx1 : x ≤ aget M.pos m := hR m hmR
      have hx2 : aget M.pos m < x' := htk_lt m hmtk
      have hnd' : ((mutD ++ d) ++ m :: (r ++ dp)).Nodup := by
        have : (mutD ++ d) ++ m :: (r ++ dp) = order := by
          rw [hord, hsplit, hd]; simp
        rw [this]; exact hnd
      have hne : ∀ e, aget s'.nodeEdge (aget M.node m) = some e ↔ Above T M m e := by
        intro e
        rw [hne', h.ne (aget M.node m) (hM.node m hmM) e]
        constructor
        · rintro ⟨h1, h2, h3⟩
          have heE : e < T.numEdges := hV.mem_ins.mp (by rw [F.hins]; exact List.mem_append_left _ h1)
          have := (F.active_iff hV (aget M.pos m) hx1 hx2 e heE).mp ⟨h1, h2⟩
          exact ⟨heE, h3, this.1, this.2⟩
        · rintro ⟨heE, h3, h4, h5⟩
          have := (F.active_iff hV (aget M.pos m) hx1 hx2 e heE).mpr ⟨h4, h5⟩
          exact ⟨this.1, this.2, h3⟩
      have hstep := mutStep_ok T M sb (mutD ++ d) m (r ++ dp) s' hmM hnd' hne
        (by simpa using hP')
      obtain ⟨hok', h1, h2, h3, _, _⟩ := hstep
      refine ⟨?_, by rw [h1, hne'], by rw [h2, hsp'], by rw [h3, herr']⟩
      intro rest hrest
      have : rest = r := by
        have : d ++ m :: r = d ++ m :: rest := by rw [← hd, hrest]; simp
        have := List.append_cancel_left this
        exact (List.cons.inj this).2.symm
      subst this
      simpa [List.append_assoc] using hok'
  obtain ⟨hfok, hfne, hfsp, hferr⟩ := hfold
  have hfok' := hfok [] (by simp)
  simp only [List.nil_append] at hfok'
  -- the state after the loop
  have hml : mutLoop M sb x' s = { tk.foldl (mutStep M sb) s with mutR := dp } := by
    unfold mutLoop
    simp only [drainWhile_eq]
    rfl
  rw [hml]
  refine ⟨by simpa [hfne] using h.szNE, by simpa [hfsp] using h.szSP, by simpa [hfne] using h.ne, ?_, ?_⟩
  · refine ⟨mutD ++ tk, ?_, ?_, ?_, hfok'.congr rfl rfl⟩
    · simp only; rw [hord, hsplit]; simp
    · intro m hm
      rcases List.mem_append.mp hm with hm | hm
      · exact lt_of_lt_of_le (hD m hm) F.le
      · exact htk_lt m hm
    · exact hdp_ge
  · intro hsb
    obtain ⟨h1, h2⟩ := h.plain hsb
    simp only [hfsp, hferr]
    exact ⟨h1, h2⟩

theorem countWith_correct (T : Tables α) (M : Muts α) (isSample : Array Bool) (sb : Bool)
    (order : List Nat) (hV : Valid T) (hNO : NoOverlap T)
    (hN : ∀ e, e < T.numEdges → T.chi e < isSample.size)
    (hM : MutsValid M isSample.size order) :
    ∃ s, countWith T M isSample sb order = some s ∧ CountSpec T M sb s := by
  set N := isSample.size with hNdef
  have hndI := hV.nodup_ins
  have hndR := hV.nodup_rem
  have key := sweep_rule T hV (hooks T M sb) (CInv T M N sb order) (CInv T M N sb order)
    (CountSpec T M sb) (init T.numEdges M isSample order)
  apply key
  · -- init
    refine ⟨by simp [init, hNdef], by simp [init], ?_, ?_, ?_⟩
    · intro c hc e
      simp [init, aget, hNdef ▸ hc]
    · refine ⟨[], by simp [init], by simp, ?_, ?_⟩
      · intro m hm
        exact hM.pos m (List.mem_range.mp (hM.perm.mem_iff.mp hm))
      · refine ⟨by simp [init], by simp [init], by simp, ?_, ?_⟩
        · intro m hm
          have := List.mem_range.mp (hM.perm.mem_iff.mp hm)
          simp [init, aget, this]
        · intro _ e he
          simp [init, aget, he]
    · intro _
      refine ⟨?_, rfl⟩
      intro e he
      simp [init, aget, he]
  · -- head
    intro x insD remD s h; exact h
  · -- remove
    intro x insD insR remD e remR s F h
    obtain ⟨h1, h2, h3, h4, h5⟩ := removeEdge_shared T sb x s e
    have heE : e < T.numEdges := hV.mem_rem.mp (by rw [F.hrem]; simp)
    have heD : e ∉ remD := by
      have := hndR; rw [F.hrem] at this
      intro hh
      exact (List.nodup_append.mp this).2.2 e hh e (List.mem_cons_self ..) rfl
    show CInv T M N sb order x insD (remD ++ [e]) (removeEdge T sb x s e)
    refine ⟨by rw [h1]; simpa using h.szNE, by rw [h5]; exact h.szSP, ?_, ?_, ?_⟩
    · rw [h1]; exact ne_remove T hV hNO N hN F s.nodeEdge h.szNE h.ne
    · obtain ⟨mutD, a, b, c, d⟩ := h.muts
      exact ⟨mutD, by rw [h4]; exact a, b, by rw [h4]; exact c, by rw [h4]; exact d.congr h2 h3⟩
    · intro hsb
      subst hsb
      obtain ⟨hs, herr⟩ := h.plain rfl
      obtain ⟨p1, p2⟩ := removeEdge_plain T x s e
      refine ⟨?_, by rw [p2]; exact herr⟩
      intro e' he'
      rw [p1, aget_aset _ _ _ _ (by rw [h.szSP]; exact heE)]
      by_cases hee : e' = e
      · subst hee
        simp only [if_true, List.mem_append, List.mem_singleton, or_true]
        rw [hs e' he', if_neg heD, F.key]
        ring
      · simp only [hee, if_false, List.mem_append, List.mem_singleton, or_false]
        exact hs e' he'
  · -- insert
    intro x insD e insR remD remR s F h
    obtain ⟨h1, h2, h3, h4, h5⟩ := insertEdge_shared T sb x s e
    have heE : e < T.numEdges := hV.mem_ins.mp (by rw [F.hins]; simp)
    have heD : e ∉ insD := by
      have := hndI; rw [F.hins] at this
      intro hh
      exact (List.nodup_append.mp this).2.2 e hh e (List.mem_cons_self ..) rfl
    show CInv T M N sb order x (insD ++ [e]) remD (insertEdge T sb x s e)
    refine ⟨by rw [h1]; simpa using h.szNE, by rw [h5]; exact h.szSP, ?_, ?_, ?_⟩
    · rw [h1]; exact ne_insert T hV hNO N hN F s.nodeEdge h.szNE h.ne
    · obtain ⟨mutD, a, b, c, d⟩ := h.muts
      exact ⟨mutD, by rw [h4]; exact a, b, by rw [h4]; exact c, by rw [h4]; exact d.congr h2 h3⟩
    · intro hsb
      subst hsb
      obtain ⟨hs, herr⟩ := h.plain rfl
      obtain ⟨p1, p2⟩ := insertEdge_plain T x s e
      refine ⟨?_, by rw [p2]; exact herr⟩
      intro e' he'
      rw [p1, aget_aset _ _ _ _ (by rw [h.szSP]; exact heE)]
      by_cases hee : e' = e
      · subst hee
        simp only [if_true, List.mem_append, List.mem_singleton, or_true]
        rw [hs e' he', if_neg heD, F.key]
        ring
      · simp only [hee, if_false, List.mem_append, List.mem_singleton, or_false]
        exact hs e' he'
  · -- advance
    intro x x' insD insR remD remR s F h
    constructor
    · intro hstop; exact absurd hstop (by simp [hooks])
    · intro _
      exact mutLoop_ok T M N sb order hV hM F s h
  · -- exit
    intro x s hall _ h
    obtain ⟨mutD, hord, hD, hR, hok⟩ := h.muts
    have hnoAbove : ∀ m ∈ s.mutR, ∀ e, ¬ Above T M m e := by
      intro m hm e hA
      exact absurd (lt_of_lt_of_le hA.2.2.2 (le_trans (hall e hA.1) (hR m hm))) (lt_irrefl _)
    refine ⟨?_, ?_⟩
    · intro m hm e
      have : m ∈ order := hM.perm.mem_iff.mpr (List.mem_range.mpr hm)
      rw [hord] at this
      rcases List.mem_append.mp this with hm' | hm'
      · exact hok.done m hm' e
      · rw [hok.todo m hm']
        constructor
        · intro hh; exact absurd hh (by simp)
        · intro hh; exact absurd hh (hnoAbove m hm' e)
    · intro hsb
      obtain ⟨hs, herr⟩ := h.plain hsb
      refine ⟨herr, ?_⟩
      intro e he
      constructor
      · rw [hok.count hsb e he]
        congr 1
        rw [← hM.perm.countP_eq, hord, List.countP_append]
        have : s.mutR.countP (fun m => decide (Above T M m e)) = 0 := by
          rw [List.countP_eq_zero]
          intro m hm
          simpa using hnoAbove m hm e
        rw [this, Nat.add_zero]
      · rw [hs e he, if_pos (hV.mem_ins.mpr he), if_pos (hV.mem_rem.mpr he)]
        ring

end

end Tsdate.CountMut
