/-
C24, assembly: `_count_mutations` (plain and size-biased) through the sweep rule.  Pieces in
Proofs/CountMut.lean (edge bookkeeping, mutation loop) and Proofs/CountMutSB.lean (sample counts).
-/
import Mathlib.Algebra.BigOperators.Group.List.Basic
import TsdateVerif.Proofs.CountMutSpan

namespace Tsdate.CountMut
open Tsdate Tsdate.Sweep
set_option linter.unusedSectionVars false
set_option linter.unusedVariables false

section
variable {α : Type} [Inhabited α] [Field α] [LinearOrder α] [IsStrictOrderedRing α]

/-- The weight with which a mutation is counted: `1`, or in the size-biased variant the number of
`mask` nodes at or below its node in the local tree at its position. -/
def wt (T : Tables α) (M : Muts α) (mask : Array Bool) (sb : Bool) (m : Nat) : α :=
  if sb then (samplesBelow T mask (aget M.pos m) (aget M.node m) : α) else 1

/-- The specified weight of a unit of span of edge `e` at position `a`: the number of `mask` nodes at
or below the edge's child in the local tree at `a` while the edge covers `a`, else `0`. -/
def Wspec (T : Tables α) (mask : Array Bool) (e : Nat) (a : α) : α :=
  if T.l e ≤ a ∧ a < T.r e then (samplesBelow T mask a (T.chi e) : α) else 0

/-- `bs` lists break points of `[0, L]` in increasing order, starting at `0`, containing `L` and
every edge end point: the local tree is constant between consecutive break points.  tskit's
`ts.breakpoints()` is such a list. -/
structure Partition (T : Tables α) (bs : List α) : Prop where
  sorted : bs.Pairwise (· < ·)
  head : bs.head? = some 0
  len : T.seqLen ∈ bs
  ends : ∀ e, e < T.numEdges → T.l e ∈ bs ∧ T.r e ∈ bs

/-- The loop invariant of `_count_mutations`. -/
structure CInv (T : Tables α) (M : Muts α) (mask : Array Bool) (sb : Bool) (order : List Nat)
    (bs : List α) (x : α) (insD remD : List Nat) (s : St α) : Prop where
  szNE : s.nodeEdge.size = mask.size
  szSP : s.edgeSpan.size = T.numEdges
  ne : NE T mask.size insD remD s.nodeEdge
  muts : ∃ mutD, order = mutD ++ s.mutR ∧ (∀ m ∈ mutD, aget M.pos m < x) ∧
    (∀ m ∈ s.mutR, x ≤ aget M.pos m) ∧ MutsOk T M (wt T M mask sb) mutD s.mutR s
  plain : sb = false → (∀ e, e < T.numEdges → aget s.edgeSpan e =
      (if e ∈ insD then T.seqLen - T.l e else 0) - (if e ∈ remD then T.seqLen - T.r e else 0)) ∧
    s.err = false
  sized : sb = true → SBInv T mask mask.size s
  spans : sb = true → Partition T bs → ∃ (Acc : Nat → α) (pre post : List α), bs = pre ++ x :: post ∧
    (∀ e, e < T.numEdges → Acc e = integ (Wspec T mask e) (pre ++ [x])) ∧
    (∀ e, e < T.numEdges → aget s.edgeSpan e = Acc e + Wt T s e * (T.seqLen - x))

/-- What the caller of the kernel guarantees about the mutation table and the visiting order. -/
structure MutsValid (M : Muts α) (N : Nat) (order : List Nat) : Prop where
  perm : order.Perm (List.range M.node.size)
  sorted : order.Pairwise (fun a b => aget M.pos a ≤ aget M.pos b)
  node : ∀ m, m < M.node.size → aget M.node m < N
  pos : ∀ m, m < M.node.size → (0 : α) ≤ aget M.pos m

/-- The result of `_count_mutations` that C24 is about. -/
def CountSpec (T : Tables α) (M : Muts α) (mask : Array Bool) (sb : Bool) (bs : List α) (s : St α) :
    Prop :=
  (sb = true → Partition T bs → ∀ e, e < T.numEdges → aget s.edgeSpan e = integ (Wspec T mask e) bs) ∧
  s.err = false ∧
  (∀ m, m < M.node.size → ∀ e, aget s.mutEdge m = some e ↔ Above T M m e) ∧
  (∀ e, e < T.numEdges → aget s.edgeMuts e =
    ((List.range M.node.size).map fun m => if Above T M m e then wt T M mask sb m else 0).sum) ∧
  (sb = false → ∀ e, e < T.numEdges → aget s.edgeSpan e = T.r e - T.l e)

/-- static facts about the tables used throughout -/
structure Static (T : Tables α) (N : Nat) (sb : Bool) (time : Nat → α) : Prop where
  valid : Valid T
  noOverlap : NoOverlap T
  chi : ∀ e, e < T.numEdges → T.chi e < N
  par : ∀ e, e < T.numEdges → T.par e < N
  older : sb = true → ∀ e, e < T.numEdges → time (T.chi e) < time (T.par e)

theorem SBInv.congr {T : Tables α} {mask : Array Bool} {N : Nat} {s s' : St α}
    (h : SBInv T mask N s) (h1 : s'.nodeSamples = s.nodeSamples) (h2 : s'.nodeParent = s.nodeParent)
    (h3 : s'.nodeEdge = s.nodeEdge) (h4 : s'.err = s.err) : SBInv T mask N s' := by
  have hp : parOf s' = parOf s := by funext c; simp only [parOf, h2]
  exact ⟨by rw [h1]; exact h.szNS, by rw [h2]; exact h.szNP, by rw [h2, h3]; exact h.np,
    by rw [h1, hp]; exact h.ns, by rw [h4]; exact h.err⟩

theorem Wt_congr (T : Tables α) {s s' : St α} (h1 : s'.nodeEdge = s.nodeEdge)
    (h2 : s'.nodeSamples = s.nodeSamples) (e : Nat) : Wt T s' e = Wt T s e := by
  unfold Wt; rw [h1, h2]

/-- Between `left` and `right`, `nodes_samples[u]` is the specified count of `mask` nodes below `u` in
the local tree at any position of the interval. -/
theorem ns_eq_samplesBelow (T : Tables α) (mask : Array Bool) (time : Nat → α)
    (hV : Valid T) (hNO : NoOverlap T) (hC : ∀ e, e < T.numEdges → T.chi e < mask.size)
    (hP : ∀ e, e < T.numEdges → T.par e < mask.size)
    (hT : ∀ e, e < T.numEdges → time (T.chi e) < time (T.par e))
    {x x' : α} {insD insR remD remR : List Nat} (F : AdvFacts T x x' insD insR remD remR)
    (s : St α) (hszNE : s.nodeEdge.size = mask.size) (hne : NE T mask.size insD remD s.nodeEdge)
    (hsb : SBInv T mask mask.size s) (pos : α) (h1 : x ≤ pos) (h2 : pos < x') (u : Nat)
    (hu : u < mask.size) :
    aget s.nodeSamples u = (samplesBelow T mask pos u : α) := by
  have hI : ∀ e ∈ insD, e < T.numEdges := fun e he =>
    hV.mem_ins.mp (by rw [F.hins]; exact List.mem_append_left _ he)
  obtain ⟨ho, hQN⟩ := older_of T mask.size time hT hP insD remD hI s hszNE hne hsb.np
  have hpar := parentAt_eq_parOf T hV hNO mask.size hC F s hszNE hne hsb.np pos h1 h2
  rw [hsb.ns u hu, samplesBelow_eq T mask time pos (hpar ▸ ho) (hpar ▸ hQN), hpar]

/-- … and the weight of every edge is the specified one. -/
theorem wt_eq_wspec (T : Tables α) (mask : Array Bool) (time : Nat → α)
    (hV : Valid T) (hNO : NoOverlap T) (hC : ∀ e, e < T.numEdges → T.chi e < mask.size)
    (hP : ∀ e, e < T.numEdges → T.par e < mask.size)
    (hT : ∀ e, e < T.numEdges → time (T.chi e) < time (T.par e))
    {x x' : α} {insD insR remD remR : List Nat} (F : AdvFacts T x x' insD insR remD remR)
    (s : St α) (hszNE : s.nodeEdge.size = mask.size) (hne : NE T mask.size insD remD s.nodeEdge)
    (hsb : SBInv T mask mask.size s) (pos : α) (h1 : x ≤ pos) (h2 : pos < x') (e : Nat)
    (he : e < T.numEdges) : Wspec T mask e pos = Wt T s e := by
  unfold Wspec Wt
  have hact := F.active_iff hV pos h1 h2 e he
  have hne' := hne (T.chi e) (hC e he) e
  by_cases ha : T.l e ≤ pos ∧ pos < T.r e
  · have := hact.mpr ha
    rw [if_pos ha, if_pos (hne'.mpr ⟨this.1, this.2, rfl⟩)]
    exact (ns_eq_samplesBelow T mask time hV hNO hC hP hT F s hszNE hne hsb pos h1 h2 _ (hC e he)).symm
  · have : ¬ aget s.nodeEdge (T.chi e) = some e := by
      intro hh
      have := hne'.mp hh
      exact ha (hact.mp ⟨this.1, this.2.1⟩)
    rw [if_neg ha, if_neg this]

theorem mutLoop_ok (T : Tables α) (M : Muts α) (mask : Array Bool) (sb : Bool) (order : List Nat)
    (time : Nat → α) (bs : List α) (hS : Static T mask.size sb time)
    (hM : MutsValid M mask.size order)
    {x x' : α} {insD insR remD remR : List Nat} (F : AdvFacts T x x' insD insR remD remR)
    (s : St α) (h : CInv T M mask sb order bs x insD remD s) :
    CInv T M mask sb order bs x' insD remD (mutLoop M sb x' s) := by
  have hV := hS.valid
  obtain ⟨mutD, hord, hD, hR, hok⟩ := h.muts
  set p : Nat → Bool := fun m => decide (aget M.pos m < x') with hp
  set tk := s.mutR.takeWhile p with htk
  set dp := s.mutR.dropWhile p with hdp
  have hsplit : s.mutR = tk ++ dp := (List.takeWhile_append_dropWhile).symm
  have hnd : order.Nodup := hM.perm.nodup_iff.mpr List.nodup_range
  have hRs : s.mutR.Pairwise (fun a b => aget M.pos a ≤ aget M.pos b) := by
    have := hM.sorted; rw [hord] at this; exact (List.pairwise_append.mp this).2.1
  obtain ⟨htk_lt, hdp_ge⟩ := split_sorted_lt (fun m => aget M.pos m) x' s.mutR hRs
  have hmemM : ∀ m ∈ order, m < M.node.size := fun m hm =>
    List.mem_range.mp (hM.perm.mem_iff.mp hm)
  have hI : ∀ e ∈ insD, e < T.numEdges := fun e he =>
    hV.mem_ins.mp (by rw [F.hins]; exact List.mem_append_left _ he)
  -- the weight the kernel adds for a mutation in [x, x') is the specified one
  have hweight : ∀ m, m < M.node.size → x ≤ aget M.pos m → aget M.pos m < x' →
      (if sb then aget s.nodeSamples (aget M.node m) else 1) = wt T M mask sb m := by
    intro m hm h1 h2
    unfold wt
    cases hsb : sb with
    | false => simp
    | true =>
      simp only [if_true]
      exact ns_eq_samplesBelow T mask time hV hS.noOverlap hS.chi hS.par (hS.older hsb) F s h.szNE h.ne
        (h.sized hsb) (aget M.pos m) h1 h2 _ (hM.node m hm)
  -- the fold over the mutations in [x, x')
  have hfold : (∀ rest, tk = tk ++ rest →
        MutsOk T M (wt T M mask sb) (mutD ++ tk) (rest ++ dp) (tk.foldl (mutStep M sb) s)) ∧
      (tk.foldl (mutStep M sb) s).nodeEdge = s.nodeEdge ∧
      (tk.foldl (mutStep M sb) s).edgeSpan = s.edgeSpan ∧
      (tk.foldl (mutStep M sb) s).err = s.err ∧
      (tk.foldl (mutStep M sb) s).nodeSamples = s.nodeSamples ∧
      (tk.foldl (mutStep M sb) s).nodeParent = s.nodeParent := by
    apply foldl_prefix_inv (mutStep M sb)
      (fun d s' => (∀ rest, tk = d ++ rest → MutsOk T M (wt T M mask sb) (mutD ++ d) (rest ++ dp) s') ∧
        s'.nodeEdge = s.nodeEdge ∧ s'.edgeSpan = s.edgeSpan ∧ s'.err = s.err ∧
        s'.nodeSamples = s.nodeSamples ∧ s'.nodeParent = s.nodeParent) tk s
    · refine ⟨?_, rfl, rfl, rfl, rfl, rfl⟩
      intro rest hrest
      simp only [List.nil_append] at hrest
      rw [List.append_nil, ← hrest, ← hsplit]
      exact hok
    · intro d m r s' hd ⟨hP, hne', hsp', herr', hns', hnp'⟩
      have hP' := hP (m :: r) hd
      have hmtk : m ∈ tk := by rw [hd]; simp
      have hmR : m ∈ s.mutR := by rw [hsplit]; exact List.mem_append_left _ hmtk
      have hmO : m ∈ order := by rw [hord]; exact List.mem_append_right _ hmR
      have hmM := hmemM m hmO
      have hx1 : x ≤ aget M.pos m := hR m hmR
      have hx2 : aget M.pos m < x' := htk_lt m hmtk
      have hnd' : ((mutD ++ d) ++ m :: (r ++ dp)).Nodup := by
        have : (mutD ++ d) ++ m :: (r ++ dp) = order := by
          rw [hord, hsplit, hd]; simp
        rw [this]; exact hnd
      have hne : ∀ e, aget s'.nodeEdge (aget M.node m) = some e ↔ Above T M m e := by
        intro e
        rw [hne', h.ne (aget M.node m) (hM.node m hmM) e]
        constructor
        · rintro ⟨h1, h2, h3⟩
          have heE : e < T.numEdges := hI e h1
          have := (F.active_iff hV (aget M.pos m) hx1 hx2 e heE).mp ⟨h1, h2⟩
          exact ⟨heE, h3, this.1, this.2⟩
        · rintro ⟨heE, h3, h4, h5⟩
          have := (F.active_iff hV (aget M.pos m) hx1 hx2 e heE).mpr ⟨h4, h5⟩
          exact ⟨this.1, this.2, h3⟩
      have hstep := mutStep_ok T M sb (wt T M mask sb) (mutD ++ d) m (r ++ dp) s' hmM hnd' hne
        (by rw [hns']; exact hweight m hmM hx1 hx2) (by simpa using hP')
      obtain ⟨hok', h1, h2, h3, h4, h5⟩ := hstep
      refine ⟨?_, by rw [h1, hne'], by rw [h2, hsp'], by rw [h3, herr'], by rw [h4, hns'],
        by rw [h5, hnp']⟩
      intro rest hrest
      have : rest = r := by
        have : d ++ m :: r = d ++ m :: rest := by rw [← hd, hrest]; simp
        have := List.append_cancel_left this
        exact (List.cons.inj this).2.symm
      subst this
      simpa [List.append_assoc] using hok'
  obtain ⟨hfok, hfne, hfsp, hferr, hfns, hfnp⟩ := hfold
  have hfok' := hfok [] (by simp)
  simp only [List.nil_append] at hfok'
  -- the state after the loop
  have hml : mutLoop M sb x' s = { tk.foldl (mutStep M sb) s with mutR := dp } := by
    unfold mutLoop
    simp only [drainWhile_eq]
    rfl
  rw [hml]
  refine ⟨by simpa [hfne] using h.szNE, by simpa [hfsp] using h.szSP, by simpa [hfne] using h.ne, ?_, ?_,
    ?_, ?_⟩
  · refine ⟨mutD ++ tk, ?_, ?_, ?_, hfok'.congr rfl rfl⟩
    · simp only; rw [hord, hsplit]; simp
    · intro m hm
      rcases List.mem_append.mp hm with hm | hm
      · exact lt_of_lt_of_le (hD m hm) F.le
      · exact htk_lt m hm
    · exact hdp_ge
  · intro hsb
    obtain ⟨h1, h2⟩ := h.plain hsb
    simp only [hfsp, hferr]
    exact ⟨h1, h2⟩
  · intro hsb
    exact (h.sized hsb).congr hfns hfnp hfne hferr
  · -- the span accumulator: advancing `left` integrates the current weights over [x, x')
    intro hsb hP
    obtain ⟨Acc, pre, post, hbs, hAcc, hspan⟩ := h.spans hsb hP
    have hWt : ∀ e, Wt T ({ tk.foldl (mutStep M sb) s with mutR := dp } : St α) e = Wt T s e :=
      fun e => Wt_congr T hfne hfns e
    by_cases hxx : x = x'
    · subst hxx
      refine ⟨Acc, pre, post, hbs, hAcc, ?_⟩
      intro e he
      rw [hWt e]
      show aget (tk.foldl (mutStep M sb) s).edgeSpan e = _
      rw [hfsp]; exact hspan e he
    · have hlt : x < x' := lt_of_le_of_ne F.le hxx
      have hmem : x' ∈ pre ++ x :: post := by
        rw [← hbs]
        rcases F.isBreak with hh | ⟨e, he, hh | hh⟩
        · rw [hh]; exact hP.len
        · rw [hh]; exact (hP.ends e he).1
        · rw [hh]; exact (hP.ends e he).2
      obtain ⟨mid, post', hpost, hmid⟩ := split_between pre x post x' (hbs ▸ hP.sorted) hmem hlt
      refine ⟨fun e => Acc e + Wt T s e * (x' - x), pre ++ x :: mid, post', ?_, ?_, ?_⟩
      · rw [hbs, hpost]; simp
      · intro e he
        have hc : ∀ a ∈ x :: mid, Wspec T mask e a = Wt T s e := by
          intro a ha
          have ha' : x ≤ a ∧ a < x' := by
            rcases List.mem_cons.mp ha with rfl | ha
            · exact ⟨le_refl _, hlt⟩
            · exact ⟨le_of_lt (hmid a ha).1, (hmid a ha).2⟩
          exact wt_eq_wspec T mask time hV hS.noOverlap hS.chi hS.par (hS.older hsb) F s h.szNE h.ne
            (h.sized hsb) a ha'.1 ha'.2 e he
        have e1 : (pre ++ x :: mid) ++ [x'] = pre ++ x :: (mid ++ [x']) := by simp
        have e2 := integ_const (Wspec T mask e) (Wt T s e) x mid x' hc
        rw [List.cons_append] at e2
        show Acc e + Wt T s e * (x' - x) = _
        rw [e1, integ_append, ← hAcc e he, e2]
      · intro e he
        rw [hWt e]
        show aget (tk.foldl (mutStep M sb) s).edgeSpan e = _
        rw [hfsp, hspan e he]; ring

open Classical in
/-- in a forest without edges every node is alone in its tree -/
theorem cntBelow_empty (mark : Nat → Bool) (n u : Nat) (hu : u < n) :
    cntBelow (fun _ => none) mark n u = if mark u then 1 else 0 := by
  unfold cntBelow
  have h1 : (List.range n).countP (fun v => mark v && decide (Below (fun _ => none) u v)) =
      (List.range n).countP (fun v => mark u && decide (v = u)) := by
    apply List.countP_congr
    intro v _
    have : Below (fun _ => none) u v ↔ v = u :=
      ⟨fun h => (Below.of_root rfl h).symm, fun h => h ▸ Below.refl⟩
    by_cases hvu : v = u
    · subst hvu; simp [this]
    · simp [this, hvu]
  rw [h1]
  by_cases hm : mark u = true
  · simp only [hm, Bool.true_and, if_true]
    have := List.count_range (a := u) (n := n)
    simp only [hu, if_true] at this
    rw [← this, List.count_eq_countP]
    apply List.countP_congr
    intro v _; simp
  · simp [hm]

theorem countWith_correct (T : Tables α) (M : Muts α) (mask : Array Bool) (sb : Bool)
    (order : List Nat) (time : Nat → α) (bs : List α) (hS : Static T mask.size sb time)
    (hM : MutsValid M mask.size order) :
    ∃ s, countWith T M mask sb order = some s ∧ CountSpec T M mask sb bs s := by
  have hV := hS.valid
  have hNO := hS.noOverlap
  have hN := hS.chi
  set N := mask.size with hNdef
  have hndI := hV.nodup_ins
  have hndR := hV.nodup_rem
  have key := sweep_rule T hV (hooks T M sb) (CInv T M mask sb order bs) (CInv T M mask sb order bs)
    (CountSpec T M mask sb bs) (init T.numEdges M mask order)
  apply key
  · -- init
    refine ⟨by simp [init], by simp [init], ?_, ?_, ?_, ?_, ?_⟩
    · intro c hc e
      have hc' : c < mask.size := hc
      simp [init, aget, hc']
    · refine ⟨[], by simp [init], by simp, ?_, ?_⟩
      · intro m hm
        exact hM.pos m (List.mem_range.mp (hM.perm.mem_iff.mp hm))
      · refine ⟨by simp [init], by simp [init], by simp, ?_, ?_⟩
        · intro m hm
          have := List.mem_range.mp (hM.perm.mem_iff.mp hm)
          simp [init, aget, this]
        · intro e he
          simp [init, aget, he]
    · intro _
      refine ⟨?_, rfl⟩
      intro e he
      simp [init, aget, he]
    · intro _
      have hpar : parOf (init T.numEdges M mask order : St α) = fun _ => none := by
        funext c
        simp only [parOf, init, aget]
        by_cases hc : c < mask.size <;> simp [hc]
        rfl
      refine ⟨by simp [init], by simp [init], ?_, ?_, rfl⟩
      · intro c
        simp only [init, aget]
        by_cases hc : c < mask.size <;> simp [hc]
        rfl
      · intro u hu
        rw [hpar, cntBelow_empty _ _ _ hu]
        simp only [init, aget]
        simp [hu]
    · intro hsb hP
      obtain ⟨post, hpost⟩ : ∃ post, bs = (0 : α) :: post := by
        cases hb : bs with
        | nil => have := hP.head; rw [hb] at this; simp at this
        | cons a r =>
          have := hP.head; rw [hb] at this
          simp only [List.head?_cons, Option.some.injEq] at this
          exact ⟨r, by rw [this]⟩
      refine ⟨fun _ => 0, [], post, by simpa using hpost, by intro e he; simp, ?_⟩
      intro e he
      have : Wt T (init T.numEdges M mask order : St α) e = 0 := by
        unfold Wt
        have : aget (init T.numEdges M mask order : St α).nodeEdge (T.chi e) = none := by
          simp only [init, aget]
          by_cases hc : T.chi e < mask.size <;> simp [hc]
          rfl
        rw [this]; simp
      rw [this]
      simp [init, aget, he]
  · -- head
    intro x insD remD s h; exact h
  · -- remove
    intro x insD insR remD e remR s F h
    obtain ⟨h1, h2, h3, h4, h5⟩ := removeEdge_shared T sb x s e
    have heE : e < T.numEdges := hV.mem_rem.mp (by rw [F.hrem]; simp)
    have heD : e ∉ remD := by
      have := hndR; rw [F.hrem] at this
      intro hh
      exact (List.nodup_append.mp this).2.2 e hh e (List.mem_cons_self ..) rfl
    show CInv T M mask sb order bs x insD (remD ++ [e]) (removeEdge T sb x s e)
    refine ⟨by rw [h1]; simpa using h.szNE, by rw [h5]; exact h.szSP, ?_, ?_, ?_, ?_, ?_⟩
    · rw [h1]; exact ne_remove T hV hNO N hN F s.nodeEdge h.szNE h.ne
    · obtain ⟨mutD, a, b, c, d⟩ := h.muts
      exact ⟨mutD, by rw [h4]; exact a, b, by rw [h4]; exact c, by rw [h4]; exact d.congr h2 h3⟩
    · intro hsb
      subst hsb
      obtain ⟨hs, herr⟩ := h.plain rfl
      obtain ⟨p1, p2⟩ := removeEdge_plain T x s e
      refine ⟨?_, by rw [p2]; exact herr⟩
      intro e' he'
      rw [p1, aget_aset _ _ _ _ (by rw [h.szSP]; exact heE)]
      by_cases hee : e' = e
      · subst hee
        simp only [if_true, List.mem_append, List.mem_singleton, or_true]
        rw [hs e' he', if_neg heD, F.key]
        ring
      · simp only [hee, if_false, List.mem_append, List.mem_singleton, or_false]
        exact hs e' he'
    · intro hsb
      subst hsb
      exact removeEdge_sb T hV hNO mask N time (hS.older rfl) hN hS.par F s h.szNE h.ne (h.sized rfl)
    · intro hsb hP
      subst hsb
      obtain ⟨Acc, pre, post, hbs, hAcc, hspan⟩ := h.spans rfl hP
      refine ⟨Acc, pre, post, hbs, hAcc, ?_⟩
      intro e' he'
      have := removeEdge_span T hV hNO mask N time (hS.older rfl) hN hS.par F s h.szNE h.szSP h.ne
        (h.sized rfl) e' he'
      have h0 := hspan e' he'
      linarith
  · -- insert
    intro x insD e insR remD remR s F h
    obtain ⟨h1, h2, h3, h4, h5⟩ := insertEdge_shared T sb x s e
    have heE : e < T.numEdges := hV.mem_ins.mp (by rw [F.hins]; simp)
    have heD : e ∉ insD := by
      have := hndI; rw [F.hins] at this
      intro hh
      exact (List.nodup_append.mp this).2.2 e hh e (List.mem_cons_self ..) rfl
    show CInv T M mask sb order bs x (insD ++ [e]) remD (insertEdge T sb x s e)
    refine ⟨by rw [h1]; simpa using h.szNE, by rw [h5]; exact h.szSP, ?_, ?_, ?_, ?_, ?_⟩
    · rw [h1]; exact ne_insert T hV hNO N hN F s.nodeEdge h.szNE h.ne
    · obtain ⟨mutD, a, b, c, d⟩ := h.muts
      exact ⟨mutD, by rw [h4]; exact a, b, by rw [h4]; exact c, by rw [h4]; exact d.congr h2 h3⟩
    · intro hsb
      subst hsb
      obtain ⟨hs, herr⟩ := h.plain rfl
      obtain ⟨p1, p2⟩ := insertEdge_plain T x s e
      refine ⟨?_, by rw [p2]; exact herr⟩
      intro e' he'
      rw [p1, aget_aset _ _ _ _ (by rw [h.szSP]; exact heE)]
      by_cases hee : e' = e
      · subst hee
        simp only [if_true, List.mem_append, List.mem_singleton, or_true]
        rw [hs e' he', if_neg heD, F.key]
        ring
      · simp only [hee, if_false, List.mem_append, List.mem_singleton, or_false]
        exact hs e' he'
    · intro hsb
      subst hsb
      exact insertEdge_sb T hV hNO mask N time (hS.older rfl) hN hS.par F s h.szNE h.ne (h.sized rfl)
    · intro hsb hP
      subst hsb
      obtain ⟨Acc, pre, post, hbs, hAcc, hspan⟩ := h.spans rfl hP
      refine ⟨Acc, pre, post, hbs, hAcc, ?_⟩
      intro e' he'
      have := insertEdge_span T hV hNO mask N time (hS.older rfl) hN hS.par F s h.szNE h.szSP h.ne
        (h.sized rfl) e' he'
      have h0 := hspan e' he'
      linarith
  · -- advance
    intro x x' insD insR remD remR s F h
    constructor
    · intro hstop; exact absurd hstop (by simp [hooks])
    · intro _
      exact mutLoop_ok T M mask sb order time bs hS hM F s h
  · -- exit
    intro x s hall _ h
    obtain ⟨mutD, hord, hD, hR, hok⟩ := h.muts
    have hnoAbove : ∀ m ∈ s.mutR, ∀ e, ¬ Above T M m e := by
      intro m hm e hA
      exact absurd (lt_of_lt_of_le hA.2.2.2 (le_trans (hall e hA.1) (hR m hm))) (lt_irrefl _)
    refine ⟨?_, ?_, ?_, ?_, ?_⟩
    · -- size-biased spans: all weights are 0 now, the rest of the partition contributes nothing
      intro hsb hP e he
      obtain ⟨Acc, pre, post, hbs, hAcc, hspan⟩ := h.spans hsb hP
      have hW0 : Wt T s e = 0 := by
        unfold Wt
        have : ¬ aget s.nodeEdge (T.chi e) = some e := by
          intro hh
          have := (h.ne (T.chi e) (hN e he) e).mp hh
          exact this.2.1 (hV.mem_rem.mpr he)
        rw [if_neg this]
      rw [hspan e he, hW0, zero_mul, add_zero, hAcc e he]
      have happ := integ_append (Wspec T mask e) x pre post
      rw [← hbs] at happ
      rw [happ]
      have : integ (Wspec T mask e) (x :: post) = 0 := by
        apply integ_zero
        intro a ha
        have hxa : x ≤ a := by
          rcases List.mem_cons.mp ha with rfl | ha
          · exact le_refl _
          · have := (List.pairwise_append.mp (hbs ▸ hP.sorted)).2.1
            exact le_of_lt ((List.pairwise_cons.mp this).1 a ha)
        unfold Wspec
        rw [if_neg]
        rintro ⟨_, h2⟩
        exact absurd (lt_of_lt_of_le h2 (le_trans (hall e he) hxa)) (lt_irrefl _)
      rw [this, add_zero]
    · cases hsb : sb with
      | false => exact (h.plain hsb).2
      | true => exact (h.sized hsb).err
    · intro m hm e
      have : m ∈ order := hM.perm.mem_iff.mpr (List.mem_range.mpr hm)
      rw [hord] at this
      rcases List.mem_append.mp this with hm' | hm'
      · exact hok.done m hm' e
      · rw [hok.todo m hm']
        constructor
        · intro hh; exact absurd hh (by simp)
        · intro hh; exact absurd hh (hnoAbove m hm' e)
    · intro e he
      rw [hok.count e he]
      have hperm := (hM.perm.map fun m => if Above T M m e then wt T M mask sb m else 0).sum_eq
      rw [← hperm, hord, List.map_append, List.sum_append]
      have : (s.mutR.map fun m => if Above T M m e then wt T M mask sb m else 0).sum = 0 := by
        apply List.sum_eq_zero
        intro v hv
        obtain ⟨m, hm, rfl⟩ := List.mem_map.mp hv
        simp [hnoAbove m hm e]
      rw [this, add_zero]
    · intro hsb e he
      obtain ⟨hs, _⟩ := h.plain hsb
      rw [hs e he, if_pos (hV.mem_ins.mpr he), if_pos (hV.mem_rem.mpr he)]
      ring

/-! ### from the executable checks to the hypotheses above -/

theorem pairwise_of_strictSorted : ∀ l : List α, strictSorted l = true → l.Pairwise (· < ·)
  | [], _ => List.Pairwise.nil
  | [a], _ => by simp
  | a :: b :: r, h => by
    simp only [strictSorted, Bool.and_eq_true, decide_eq_true_eq] at h
    have ih := pairwise_of_strictSorted (b :: r) h.2
    refine List.Pairwise.cons ?_ ih
    intro c hc
    rcases List.mem_cons.mp hc with rfl | hc
    · exact h.1
    · exact lt_trans h.1 (List.rel_of_pairwise_cons ih hc)

theorem mem_of_memB (x : α) (l : List α) (h : memB x l = true) : x ∈ l := by
  simp only [memB, List.any_eq_true, Bool.and_eq_true, Bool.not_eq_true', decide_eq_false_iff_not] at h
  obtain ⟨b, hb, h1, h2⟩ := h
  have : b = x := le_antisymm (not_lt.mp h2) (not_lt.mp h1)
  exact this ▸ hb

theorem partition_of_B (T : Tables α) (bs : List α) (h : partitionB T bs = true) : Partition T bs := by
  simp only [partitionB, Bool.and_eq_true, List.all_eq_true, List.mem_range] at h
  obtain ⟨⟨⟨h1, h2⟩, h3⟩, h4⟩ := h
  refine ⟨pairwise_of_strictSorted bs h1, ?_, mem_of_memB _ _ h3,
    fun e he => ⟨mem_of_memB _ _ (h4 e he).1, mem_of_memB _ _ (h4 e he).2⟩⟩
  cases bs with
  | nil => simp at h2
  | cons b r =>
    simp only [Bool.and_eq_true, Bool.not_eq_true', decide_eq_false_iff_not] at h2
    have : b = 0 := le_antisymm (not_lt.mp h2.2) (not_lt.mp h2.1)
    rw [this]; rfl

/-- The visiting order `np.argsort(mutations_position)` and the mutation table meet what the
kernel's proof needs, given the executable check `mutsOkB`. -/
theorem argsort_valid (M : Muts α) (N : Nat) (h : mutsOkB M N = true) :
    MutsValid M N (argsort M) := by
  simp only [mutsOkB, Bool.and_eq_true, List.all_eq_true, List.mem_range, decide_eq_true_eq] at h
  refine ⟨List.mergeSort_perm _ _, ?_, fun m hm => (h.2 m hm).1, fun m hm => (h.2 m hm).2⟩
  have := List.pairwise_mergeSort
    (le := fun i j => decide (aget M.pos i ≤ aget M.pos j))
    (fun a b c hab hbc => by
      simp only [decide_eq_true_eq] at *
      exact le_trans hab hbc)
    (fun a b => by
      simp only [Bool.or_eq_true, decide_eq_true_eq]
      exact le_total _ _)
    (List.range M.node.size)
  exact this.imp (fun h => by simpa using h)

theorem children_below (T : Tables α) (N : Nat) (h : nodesBelowB T N = true) :
    ∀ e, e < T.numEdges → T.chi e < N := by
  intro e he
  simp only [nodesBelowB, List.all_eq_true, List.mem_range, Bool.and_eq_true,
    decide_eq_true_eq] at h
  exact (h e he).2

theorem parents_below (T : Tables α) (N : Nat) (h : nodesBelowB T N = true) :
    ∀ e, e < T.numEdges → T.par e < N := by
  intro e he
  simp only [nodesBelowB, List.all_eq_true, List.mem_range, Bool.and_eq_true,
    decide_eq_true_eq] at h
  exact (h e he).1

/-- the executable checks give the static facts the kernel proof uses (plain variant) -/
theorem static_plain (T : Tables α) (N : Nat) (hV : validB T = true) (hO : noOverlapB T = true)
    (hN : nodesBelowB T N = true) : Static T N false (fun _ => (0 : α)) :=
  ⟨valid_of_validB T hV, noOverlap_of_B T hO, children_below T N hN,
    parents_below T N hN, fun h => absurd h (by simp)⟩

/-- … and for the size-biased variant, with node times making every parent older than its child -/
theorem static_sized (T : Tables α) (N : Nat) (sb : Bool) (times : Array α)
    (hV : validB T = true)
    (hO : noOverlapB T = true) (hN : nodesBelowB T N = true) (hT : timesOkB T times = true) :
    Static T N sb (fun u => aget times u) := by
  refine ⟨valid_of_validB T hV, noOverlap_of_B T hO, children_below T N hN,
    parents_below T N hN, ?_⟩
  intro _ e he
  simp only [timesOkB, List.all_eq_true, List.mem_range, decide_eq_true_eq] at hT
  exact hT e he

theorem tally_fold (E : Nat) (l : List (Option Nat)) (hl : ∀ e, some e ∈ l → e < E) :
    ∀ (acc : Array α), acc.size = E → ∀ e, e < E →
      aget (l.foldl tallyStep acc) e = aget acc e + (l.count (some e) : α) := by
  induction l with
  | nil => intro acc _ e _; simp
  | cons a r ih =>
    intro acc hsz e he
    have hr : ∀ e, some e ∈ r → e < E := fun e h => hl e (List.mem_cons_of_mem _ h)
    rw [List.foldl_cons]
    cases a with
    | none =>
      simp only [tallyStep]
      rw [ih hr acc hsz e he, List.count_cons]
      simp
    | some e0 =>
      simp only [tallyStep]
      have he0 : e0 < acc.size := by rw [hsz]; exact hl e0 (List.mem_cons_self ..)
      rw [ih hr _ (by simpa using hsz) e he, aget_aset _ _ _ _ he0, List.count_cons]
      by_cases hee : e = e0
      · subst hee; simp; ring
      · have : ¬ e0 = e := fun h => hee h.symm
        simp [hee, this]

end

end Tsdate.CountMut
