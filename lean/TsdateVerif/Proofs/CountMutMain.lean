/-
C24, assembly: `_count_mutations` (plain and size-biased) through the sweep rule.  Pieces in
Proofs/CountMut.lean (edge bookkeeping, mutation loop) and Proofs/CountMutSB.lean (sample counts).
-/
import Mathlib.Algebra.BigOperators.Group.List.Basic
import TsdateVerif.Proofs.CountMutSB

namespace Tsdate.CountMut
open Tsdate Tsdate.Sweep
set_option linter.unusedSectionVars false
set_option linter.unusedVariables false

section
variable {α : Type} [Inhabited α] [Field α] [LinearOrder α] [IsStrictOrderedRing α]

/-- The weight with which a mutation is counted: `1`, or in the size-biased variant the number of
`mask` nodes at or below its node in the local tree at its position. -/
def wt (T : Tables α) (M : Muts α) (mask : Array Bool) (sb : Bool) (m : Nat) : α :=
  if sb then (samplesBelow T mask (aget M.pos m) (aget M.node m) : α) else 1

/-- The loop invariant of `_count_mutations`. -/
structure CInv (T : Tables α) (M : Muts α) (mask : Array Bool) (sb : Bool) (order : List Nat) (x : α)
    (insD remD : List Nat) (s : St α) : Prop where
  szNE : s.nodeEdge.size = mask.size
  szSP : s.edgeSpan.size = T.numEdges
  ne : NE T mask.size insD remD s.nodeEdge
  muts : ∃ mutD, order = mutD ++ s.mutR ∧ (∀ m ∈ mutD, aget M.pos m < x) ∧
    (∀ m ∈ s.mutR, x ≤ aget M.pos m) ∧ MutsOk T M (wt T M mask sb) mutD s.mutR s
  plain : sb = false → (∀ e, e < T.numEdges → aget s.edgeSpan e =
      (if e ∈ insD then T.seqLen - T.l e else 0) - (if e ∈ remD then T.seqLen - T.r e else 0)) ∧
    s.err = false
  sized : sb = true → SBInv T mask mask.size s

/-- What the caller of the kernel guarantees about the mutation table and the visiting order. -/
structure MutsValid (M : Muts α) (N : Nat) (order : List Nat) : Prop where
  perm : order.Perm (List.range M.node.size)
  sorted : order.Pairwise (fun a b => aget M.pos a ≤ aget M.pos b)
  node : ∀ m, m < M.node.size → aget M.node m < N
  pos : ∀ m, m < M.node.size → (0 : α) ≤ aget M.pos m

/-- The result of `_count_mutations` that C24 is about. -/
def CountSpec (T : Tables α) (M : Muts α) (mask : Array Bool) (sb : Bool) (s : St α) : Prop :=
  s.err = false ∧
  (∀ m, m < M.node.size → ∀ e, aget s.mutEdge m = some e ↔ Above T M m e) ∧
  (∀ e, e < T.numEdges → aget s.edgeMuts e =
    ((List.range M.node.size).map fun m => if Above T M m e then wt T M mask sb m else 0).sum) ∧
  (sb = false → ∀ e, e < T.numEdges → aget s.edgeSpan e = T.r e - T.l e)

/-- static facts about the tables used throughout -/
structure Static (T : Tables α) (N : Nat) (sb : Bool) (time : Nat → α) : Prop where
  valid : Valid T
  noOverlap : NoOverlap T
  chi : ∀ e, e < T.numEdges → T.chi e < N
  par : ∀ e, e < T.numEdges → T.par e < N
  older : sb = true → ∀ e, e < T.numEdges → time (T.chi e) < time (T.par e)

theorem SBInv.congr {T : Tables α} {mask : Array Bool} {N : Nat} {s s' : St α}
    (h : SBInv T mask N s) (h1 : s'.nodeSamples = s.nodeSamples) (h2 : s'.nodeParent = s.nodeParent)
    (h3 : s'.nodeEdge = s.nodeEdge) (h4 : s'.err = s.err) : SBInv T mask N s' := by
  have hp : parOf s' = parOf s := by funext c; simp only [parOf, h2]
  exact ⟨by rw [h1]; exact h.szNS, by rw [h2]; exact h.szNP, by rw [h2, h3]; exact h.np,
    by rw [h1, hp]; exact h.ns, by rw [h4]; exact h.err⟩

theorem mutLoop_ok (T : Tables α) (M : Muts α) (mask : Array Bool) (sb : Bool) (order : List Nat)
    (time : Nat → α) (hS : Static T mask.size sb time) (hM : MutsValid M mask.size order)
    {x x' : α} {insD insR remD remR : List Nat} (F : AdvFacts T x x' insD insR remD remR)
    (s : St α) (h : CInv T M mask sb order x insD remD s) :
    CInv T M mask sb order x' insD remD (mutLoop M sb x' s) := by
  have hV := hS.valid
  obtain ⟨mutD, hord, hD, hR, hok⟩ := h.muts
  set p : Nat → Bool := fun m => decide (aget M.pos m < x') with hp
  set tk := s.mutR.takeWhile p with htk
  set dp := s.mutR.dropWhile p with hdp
  have hsplit : s.mutR = tk ++ dp := (List.takeWhile_append_dropWhile).symm
  have hnd : order.Nodup := hM.perm.nodup_iff.mpr List.nodup_range
  have hRs : s.mutR.Pairwise (fun a b => aget M.pos a ≤ aget M.pos b) := by
    have := hM.sorted; rw [hord] at this; exact (List.pairwise_append.mp this).2.1
  obtain ⟨htk_lt, hdp_ge⟩ := split_sorted_lt (fun m => aget M.pos m) x' s.mutR hRs
  have hmemM : ∀ m ∈ order, m < M.node.size := fun m hm =>
    List.mem_range.mp (hM.perm.mem_iff.mp hm)
  have hI : ∀ e ∈ insD, e < T.numEdges := fun e he =>
    hV.mem_ins.mp (by rw [F.hins]; exact List.mem_append_left _ he)
  -- the weight the kernel adds for a mutation in [x, x') is the specified one
  have hweight : ∀ m, m < M.node.size → x ≤ aget M.pos m → aget M.pos m < x' →
      (if sb then aget s.nodeSamples (aget M.node m) else 1) = wt T M mask sb m := by
    intro m hm h1 h2
    unfold wt
    cases hsb : sb with
    | false => simp
    | true =>
      simp only [if_true]
      have hsbI := h.sized hsb
      obtain ⟨ho, hQN⟩ := older_of T mask.size time (hS.older hsb) hS.par insD remD hI s h.szNE h.ne
        hsbI.np
      have hpar := parentAt_eq_parOf T hV hS.noOverlap mask.size hS.chi F s h.szNE h.ne hsbI.np
        (aget M.pos m) h1 h2
      rw [hsbI.ns _ (hM.node m hm), samplesBelow_eq T mask time (aget M.pos m) (hpar ▸ ho)
        (hpar ▸ hQN), hpar]
  -- the fold over the mutations in [x, x')
  have hfold : (∀ rest, tk = tk ++ rest →
        MutsOk T M (wt T M mask sb) (mutD ++ tk) (rest ++ dp) (tk.foldl (mutStep M sb) s)) ∧
      (tk.foldl (mutStep M sb) s).nodeEdge = s.nodeEdge ∧
      (tk.foldl (mutStep M sb) s).edgeSpan = s.edgeSpan ∧
      (tk.foldl (mutStep M sb) s).err = s.err ∧
      (tk.foldl (mutStep M sb) s).nodeSamples = s.nodeSamples ∧
      (tk.foldl (mutStep M sb) s).nodeParent = s.nodeParent := by
    apply foldl_prefix_inv (mutStep M sb)
      (fun d s' => (∀ rest, tk = d ++ rest → MutsOk T M (wt T M mask sb) (mutD ++ d) (rest ++ dp) s') ∧
        s'.nodeEdge = s.nodeEdge ∧ s'.edgeSpan = s.edgeSpan ∧ s'.err = s.err ∧
        s'.nodeSamples = s.nodeSamples ∧ s'.nodeParent = s.nodeParent) tk s
    · refine ⟨?_, rfl, rfl, rfl, rfl, rfl⟩
      intro rest hrest
      simp only [List.nil_append] at hrest
      rw [List.append_nil, ← hrest, ← hsplit]
      exact hok
    · intro d m r s' hd ⟨hP, hne', hsp', herr', hns', hnp'⟩
      have hP' := hP (m :: r) hd
      have hmtk : m ∈ tk := by rw [hd]; simp
      have hmR : m ∈ s.mutR := by rw [hsplit]; exact List.mem_append_left _ hmtk
      have hmO : m ∈ order := by rw [hord]; exact List.mem_append_right _ hmR
      have hmM := hmemM m hmO
      have hx1 : x ≤ aget M.pos m := hR m hmR
      have hx2 : aget M.pos m < x' := htk_lt m hmtk
      have hnd' : ((mutD ++ d) ++ m :: (r ++ dp)).Nodup := by
        have : (mutD ++ d) ++ m :: (r ++ dp) = order := by
          rw [hord, hsplit, hd]; simp
        rw [this]; exact hnd
      have hne : ∀ e, aget s'.nodeEdge (aget M.node m) = some e ↔ Above T M m e := by
        intro e
        rw [hne', h.ne (aget M.node m) (hM.node m hmM) e]
        constructor
        · rintro ⟨h1, h2, h3⟩
          have heE : e < T.numEdges := hI e h1
          have := (F.active_iff hV (aget M.pos m) hx1 hx2 e heE).mp ⟨h1, h2⟩
          exact ⟨heE, h3, this.1, this.2⟩
        · rintro ⟨heE, h3, h4, h5⟩
          have := (F.active_iff hV (aget M.pos m) hx1 hx2 e heE).mpr ⟨h4, h5⟩
          exact ⟨this.1, this.2, h3⟩
      have hstep := mutStep_ok T M sb (wt T M mask sb) (mutD ++ d) m (r ++ dp) s' hmM hnd' hne
        (by rw [hns']; exact hweight m hmM hx1 hx2) (by simpa using hP')
      obtain ⟨hok', h1, h2, h3, h4, h5⟩ := hstep
      refine ⟨?_, by rw [h1, hne'], by rw [h2, hsp'], by rw [h3, herr'], by rw [h4, hns'],
        by rw [h5, hnp']⟩
      intro rest hrest
      have : rest = r := by
        have : d ++ m :: r = d ++ m :: rest := by rw [← hd, hrest]; simp
        have := List.append_cancel_left this
        exact (List.cons.inj this).2.symm
      subst this
      simpa [List.append_assoc] using hok'
  obtain ⟨hfok, hfne, hfsp, hferr, hfns, hfnp⟩ := hfold
  have hfok' := hfok [] (by simp)
  simp only [List.nil_append] at hfok'
  -- the state after the loop
  have hml : mutLoop M sb x' s = { tk.foldl (mutStep M sb) s with mutR := dp } := by
    unfold mutLoop
    simp only [drainWhile_eq]
    rfl
  rw [hml]
  refine ⟨by simpa [hfne] using h.szNE, by simpa [hfsp] using h.szSP, by simpa [hfne] using h.ne, ?_, ?_,
    ?_⟩
  · refine ⟨mutD ++ tk, ?_, ?_, ?_, hfok'.congr rfl rfl⟩
    · simp only; rw [hord, hsplit]; simp
    · intro m hm
      rcases List.mem_append.mp hm with hm | hm
      · exact lt_of_lt_of_le (hD m hm) F.le
      · exact htk_lt m hm
    · exact hdp_ge
  · intro hsb
    obtain ⟨h1, h2⟩ := h.plain hsb
    simp only [hfsp, hferr]
    exact ⟨h1, h2⟩
  · intro hsb
    exact (h.sized hsb).congr hfns hfnp hfne hferr

open Classical in
/-- in a forest without edges every node is alone in its tree -/
theorem cntBelow_empty (mark : Nat → Bool) (n u : Nat) (hu : u < n) :
    cntBelow (fun _ => none) mark n u = if mark u then 1 else 0 := by
  unfold cntBelow
  have h1 : (List.range n).countP (fun v => mark v && decide (Below (fun _ => none) u v)) =
      (List.range n).countP (fun v => mark u && decide (v = u)) := by
    apply List.countP_congr
    intro v _
    have : Below (fun _ => none) u v ↔ v = u :=
      ⟨fun h => (Below.of_root rfl h).symm, fun h => h ▸ Below.refl⟩
    by_cases hvu : v = u
    · subst hvu; simp [this]
    · simp [this, hvu]
  rw [h1]
  by_cases hm : mark u = true
  · simp only [hm, Bool.true_and, if_true]
    have := List.count_range (a := u) (n := n)
    simp only [hu, if_true] at this
    rw [← this, List.count_eq_countP]
    apply List.countP_congr
    intro v _; simp
  · simp [hm]

theorem countWith_correct (T : Tables α) (M : Muts α) (mask : Array Bool) (sb : Bool)
    (order : List Nat) (time : Nat → α) (hS : Static T mask.size sb time)
    (hM : MutsValid M mask.size order) :
    ∃ s, countWith T M mask sb order = some s ∧ CountSpec T M mask sb s := by
  have hV := hS.valid
  have hNO := hS.noOverlap
  have hN := hS.chi
  set N := mask.size with hNdef
  have hndI := hV.nodup_ins
  have hndR := hV.nodup_rem
  have key := sweep_rule T hV (hooks T M sb) (CInv T M mask sb order) (CInv T M mask sb order)
    (CountSpec T M mask sb) (init T.numEdges M mask order)
  apply key
  · -- init
    refine ⟨by simp [init], by simp [init], ?_, ?_, ?_, ?_⟩
    · intro c hc e
      have hc' : c < mask.size := hc
      simp [init, aget, hc']
    · refine ⟨[], by simp [init], by simp, ?_, ?_⟩
      · intro m hm
        exact hM.pos m (List.mem_range.mp (hM.perm.mem_iff.mp hm))
      · refine ⟨by simp [init], by simp [init], by simp, ?_, ?_⟩
        · intro m hm
          have := List.mem_range.mp (hM.perm.mem_iff.mp hm)
          simp [init, aget, this]
        · intro e he
          simp [init, aget, he]
    · intro _
      refine ⟨?_, rfl⟩
      intro e he
      simp [init, aget, he]
    · intro _
      have hpar : parOf (init T.numEdges M mask order : St α) = fun _ => none := by
        funext c
        simp only [parOf, init, aget]
        by_cases hc : c < mask.size <;> simp [hc]
        rfl
      refine ⟨by simp [init], by simp [init], ?_, ?_, rfl⟩
      · intro c
        simp only [init, aget]
        by_cases hc : c < mask.size <;> simp [hc]
        rfl
      · intro u hu
        rw [hpar, cntBelow_empty _ _ _ hu]
        simp only [init, aget]
        simp [hu]
  · -- head
    intro x insD remD s h; exact h
  · -- remove
    intro x insD insR remD e remR s F h
    obtain ⟨h1, h2, h3, h4, h5⟩ := removeEdge_shared T sb x s e
    have heE : e < T.numEdges := hV.mem_rem.mp (by rw [F.hrem]; simp)
    have heD : e ∉ remD := by
      have := hndR; rw [F.hrem] at this
      intro hh
      exact (List.nodup_append.mp this).2.2 e hh e (List.mem_cons_self ..) rfl
    show CInv T M mask sb order x insD (remD ++ [e]) (removeEdge T sb x s e)
    refine ⟨by rw [h1]; simpa using h.szNE, by rw [h5]; exact h.szSP, ?_, ?_, ?_, ?_⟩
    · rw [h1]; exact ne_remove T hV hNO N hN F s.nodeEdge h.szNE h.ne
    · obtain ⟨mutD, a, b, c, d⟩ := h.muts
      exact ⟨mutD, by rw [h4]; exact a, b, by rw [h4]; exact c, by rw [h4]; exact d.congr h2 h3⟩
    · intro hsb
      subst hsb
      obtain ⟨hs, herr⟩ := h.plain rfl
      obtain ⟨p1, p2⟩ := removeEdge_plain T x s e
      refine ⟨?_, by rw [p2]; exact herr⟩
      intro e' he'
      rw [p1, aget_aset _ _ _ _ (by rw [h.szSP]; exact heE)]
      by_cases hee : e' = e
      · subst hee
        simp only [if_true, List.mem_append, List.mem_singleton, or_true]
        rw [hs e' he', if_neg heD, F.key]
        ring
      · simp only [hee, if_false, List.mem_append, List.mem_singleton, or_false]
        exact hs e' he'
    · intro hsb
      subst hsb
      exact removeEdge_sb T hV hNO mask N time (hS.older rfl) hN hS.par F s h.szNE h.ne (h.sized rfl)
  · -- insert
    intro x insD e insR remD remR s F h
    obtain ⟨h1, h2, h3, h4, h5⟩ := insertEdge_shared T sb x s e
    have heE : e < T.numEdges := hV.mem_ins.mp (by rw [F.hins]; simp)
    have heD : e ∉ insD := by
      have := hndI; rw [F.hins] at this
      intro hh
      exact (List.nodup_append.mp this).2.2 e hh e (List.mem_cons_self ..) rfl
    show CInv T M mask sb order x (insD ++ [e]) remD (insertEdge T sb x s e)
    refine ⟨by rw [h1]; simpa using h.szNE, by rw [h5]; exact h.szSP, ?_, ?_, ?_, ?_⟩
    · rw [h1]; exact ne_insert T hV hNO N hN F s.nodeEdge h.szNE h.ne
    · obtain ⟨mutD, a, b, c, d⟩ := h.muts
      exact ⟨mutD, by rw [h4]; exact a, b, by rw [h4]; exact c, by rw [h4]; exact d.congr h2 h3⟩
    · intro hsb
      subst hsb
      obtain ⟨hs, herr⟩ := h.plain rfl
      obtain ⟨p1, p2⟩ := insertEdge_plain T x s e
      refine ⟨?_, by rw [p2]; exact herr⟩
      intro e' he'
      rw [p1, aget_aset _ _ _ _ (by rw [h.szSP]; exact heE)]
      by_cases hee : e' = e
      · subst hee
        simp only [if_true, List.mem_append, List.mem_singleton, or_true]
        rw [hs e' he', if_neg heD, F.key]
        ring
      · simp only [hee, if_false, List.mem_append, List.mem_singleton, or_false]
        exact hs e' he'
    · intro hsb
      subst hsb
      exact insertEdge_sb T hV hNO mask N time (hS.older rfl) hN hS.par F s h.szNE h.ne (h.sized rfl)
  · -- advance
    intro x x' insD insR remD remR s F h
    constructor
    · intro hstop; exact absurd hstop (by simp [hooks])
    · intro _
      exact mutLoop_ok T M mask sb order time hS hM F s h
  · -- exit
    intro x s hall _ h
    obtain ⟨mutD, hord, hD, hR, hok⟩ := h.muts
    have hnoAbove : ∀ m ∈ s.mutR, ∀ e, ¬ Above T M m e := by
      intro m hm e hA
      exact absurd (lt_of_lt_of_le hA.2.2.2 (le_trans (hall e hA.1) (hR m hm))) (lt_irrefl _)
    refine ⟨?_, ?_, ?_, ?_⟩
    · cases hsb : sb with
      | false => exact (h.plain hsb).2
      | true => exact (h.sized hsb).err
    · intro m hm e
      have : m ∈ order := hM.perm.mem_iff.mpr (List.mem_range.mpr hm)
      rw [hord] at this
      rcases List.mem_append.mp this with hm' | hm'
      · exact hok.done m hm' e
      · rw [hok.todo m hm']
        constructor
        · intro hh; exact absurd hh (by simp)
        · intro hh; exact absurd hh (hnoAbove m hm' e)
    · intro e he
      rw [hok.count e he]
      have hperm := (hM.perm.map fun m => if Above T M m e then wt T M mask sb m else 0).sum_eq
      rw [← hperm, hord, List.map_append, List.sum_append]
      have : (s.mutR.map fun m => if Above T M m e then wt T M mask sb m else 0).sum = 0 := by
        apply List.sum_eq_zero
        intro v hv
        obtain ⟨m, hm, rfl⟩ := List.mem_map.mp hv
        simp [hnoAbove m hm e]
      rw [this, add_zero]
    · intro hsb e he
      obtain ⟨hs, _⟩ := h.plain hsb
      rw [hs e he, if_pos (hV.mem_ins.mpr he), if_pos (hV.mem_rem.mpr he)]
      ring

end

end Tsdate.CountMut
