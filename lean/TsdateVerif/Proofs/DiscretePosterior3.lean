/-
From the outside equations satisfied by the code's outside rows `O` to
`I v s * O v s = κ * (I v s * outU B v s)`: the code's `inside / g_i` (with `0/0 := 0`) agrees with
the exact outside recursion wherever it matters, because a vanishing message forces the
corresponding posterior terms to vanish (non-negativity).
-/
import Mathlib.Algebra.Order.BigOperators.Group.List
import Mathlib.Tactic.LinearCombination
import TsdateVerif.Proofs.DiscretePosterior2
import TsdateVerif.Proofs.DiscreteLog

namespace Tsdate.Discrete
open Tsdate

section
variable {α : Type} [Field α] [LinearOrder α] [IsStrictOrderedRing α]
variable (G : Nat) (fixed : Nat → Bool) (prior : Nat → Nat → α) (L : DEdge → Nat → Nat → α)
  (I : Nat → Nat → α) (d : Nat → α)

/-- The outside equation of the code at a non-fixed-child edge `e = (p, c)`: up to a non-zero
scalar `m` (denominator / standardisers), `O c s = Σ_{a ≥ s} O p a * q a * L e a s`, where `q a` is
`inside[p][a] / g_i[a]` whenever the message `g_i[a]·d_c = smsg I e a` is non-zero (and arbitrary
otherwise). -/
def OutEqAt (O : Nat → Nat → α) (e : DEdge) : Prop :=
  ∃ (m : α) (q : Nat → α), m ≠ 0 ∧
    (∀ a, a < G → smsg fixed L I e a ≠ 0 → q a = I e.p a / (smsg fixed L I e a / d e.c)) ∧
    ∀ s, s < G → m * O e.c s
      = sumR G (fun a => if s ≤ a then O e.p a * q a * L e a s else 0)

/-- the message of a child edge, unfolded -/
theorem smsg_child (v : Nat) (e : DEdge) (he : isChildEdge fixed v e = true) (a : Nat) :
    smsg fixed L I e a = ((List.range (a + 1)).map (fun b => I v b * L e a b)).sum := by
  have := smsg_upF_self fixed L I v (I v) e he a
  have hup : upF I v (I v) = I := by
    funext w; unfold upF; split_ifs with h <;> simp [h]
  rw [hup] at this
  exact this

/-- **Posterior of the code vs. exact outside recursion.** -/
theorem post_vs_outU (O : Nat → Nat → α) (root : Nat) (ρ : α) (hρ : ρ ≠ 0)
    (hrootO : ∀ s, s < G → O root s = ρ) :
    ∀ (B : List (Nat × List DEdge)) (gv : Nat × List DEdge),
      TreeOK G fixed prior L I d (gv :: B) → (∀ g ∈ gv :: B, d g.1 ≠ 0) →
      (∀ g ∈ gv :: B, ∀ b, b < G → 0 ≤ I g.1 b) →
      (∀ e ∈ B.flatMap (·.2), ∀ a b, a < G → b ≤ a → 0 ≤ L e a b) →
      root = ((gv :: B).getLast (by simp)).1 →
      (∀ e ∈ B.flatMap (·.2), fixed e.c = false → OutEqAt G fixed L I d O e) →
      ∃ κ : α, κ ≠ 0 ∧ ∀ s, s < G →
        I gv.1 s * O gv.1 s = κ * (I gv.1 s * outU G fixed prior L I d B gv.1 s)
  | [], gv, _, _, _, _, hroot, _ => by
    simp only [List.getLast_singleton] at hroot
    refine ⟨ρ, hρ, fun s hs => ?_⟩
    rw [← hroot, hrootO s hs]
    show _ = ρ * (I root s * 1)
    ring
  | g :: rest, gv, htree, hd, hI, hL, hroot, hout => by
    have htree' := htree
    obtain ⟨hh, hstar, hr⟩ := htree
    obtain ⟨ev, hfil, hpev⟩ := star_filter fixed gv.1 hh.ufix (g :: rest) (hstar (by simp))
    rw [List.flatMap_cons, List.filter_append] at hfil
    have hroot' : root = ((g :: rest).getLast (by simp)).1 := by
      rw [hroot, List.getLast_cons (by simp)]
    cases hg2 : g.2.filter (isChildEdge fixed gv.1) with
    | nil =>
      rw [hg2, List.nil_append] at hfil
      have hfind : g.2.find? (isChildEdge fixed gv.1) = none := find_none_of_filter_nil _ _ hg2
      have hrest_ne : rest ≠ [] := by
        intro h; rw [h] at hfil; simp at hfil
      have hdrop := TreeOK.drop_second G fixed prior L I d gv g rest htree' hg2
      obtain ⟨κ, hκ, hk⟩ := post_vs_outU O root ρ hρ hrootO rest gv hdrop
        (by
          intro g' hg'
          rcases List.mem_cons.mp hg' with rfl | hg''
          · exact hd _ (by simp)
          · exact hd _ (by simp [hg'']))
        (by
          intro g' hg'
          rcases List.mem_cons.mp hg' with rfl | hg''
          · exact hI _ (by simp)
          · exact hI _ (by simp [hg'']))
        (fun e he => hL e (by simp only [List.flatMap_cons, List.mem_append]; exact Or.inr he))
        (by rw [hroot, List.getLast_cons (by simp), List.getLast_cons hrest_ne,
              List.getLast_cons hrest_ne])
        (fun e he => hout e (by simp only [List.flatMap_cons, List.mem_append]; exact Or.inr he))
      refine ⟨κ, hκ, fun s hs => ?_⟩
      rw [hk s hs]
      simp only [outU, hfind]
    | cons x tl =>
      rw [hg2] at hfil
      have hx : x = ev ∧ tl = [] := by
        have hlen := congrArg List.length hfil
        simp only [List.cons_append, List.length_cons, List.length_append, List.length_nil] at hlen
        have htl : tl = [] := List.eq_nil_of_length_eq_zero (by omega)
        have hrf : (rest.flatMap (·.2)).filter (isChildEdge fixed gv.1) = [] :=
          List.eq_nil_of_length_eq_zero (by omega)
        rw [htl, hrf] at hfil
        simp only [List.cons_append, List.nil_append, List.cons.injEq, and_true] at hfil
        exact ⟨hfil, htl⟩
      obtain ⟨rfl, rfl⟩ := hx
      obtain ⟨l1, y, l2, hsplit, hy, hall⟩ :=
        split_of_filter_length_one (isChildEdge fixed gv.1) g.2 (by rw [hg2]; rfl)
      have hyx : y = x := by
        have : (l1 ++ y :: l2).filter (isChildEdge fixed gv.1) = [y] := by
          rw [List.filter_append, List.filter_cons, if_pos hy]
          have h1 : l1.filter (isChildEdge fixed gv.1) = [] := by
            apply List.filter_eq_nil_iff.mpr; intro e he; simp [hall e (List.mem_append_left _ he)]
          have h2 : l2.filter (isChildEdge fixed gv.1) = [] := by
            apply List.filter_eq_nil_iff.mpr; intro e he; simp [hall e (List.mem_append_right _ he)]
          rw [h1, h2]; rfl
        rw [← hsplit, hg2] at this
        simpa using this.symm
      subst hyx
      obtain ⟨hfind, hfilt⟩ := find_of_split (isChildEdge fixed gv.1) l1 l2 y hy hall
      rw [← hsplit] at hfind hfilt
      have hymem : y ∈ g.2 := by rw [hsplit]; simp
      have hyc : y.c = gv.1 ∧ fixed y.c = false := by
        have := hy
        simp only [isChildEdge, Bool.and_eq_true, Bool.not_eq_true', beq_iff_eq] at this
        exact ⟨this.2, this.1⟩
      have hyp : y.p = g.1 := hr.1.es_p y hymem
      -- induction hypothesis at the parent
      obtain ⟨κp, hκp, hkp⟩ := post_vs_outU O root ρ hρ hrootO rest g hr
        (fun g' hg' => hd g' (List.mem_cons_of_mem _ hg'))
        (fun g' hg' => hI g' (List.mem_cons_of_mem _ hg'))
        (fun e he => hL e (by simp only [List.flatMap_cons, List.mem_append]; exact Or.inr he))
        hroot'
        (fun e he => hout e (by simp only [List.flatMap_cons, List.mem_append]; exact Or.inr he))
      -- the outside equation at `y`
      obtain ⟨m, q, hm, hq, hO⟩ := hout y
        (by simp only [List.flatMap_cons, List.mem_append]; exact Or.inl hymem) hyc.2
      have hdv : d gv.1 ≠ 0 := hd gv (by simp)
      have hdp : d g.1 ≠ 0 := hd g (by simp)
      refine ⟨κp * d gv.1 / m, by
        apply div_ne_zero (mul_ne_zero hκp hdv) hm, fun s hs => ?_⟩
      have hOs := hO s hs
      rw [hyc.1] at hOs
      have hOv : O gv.1 s = sumR G (fun a => if s ≤ a then O y.p a * q a * L y a s else 0) / m := by
        rw [← hOs]; field_simp
      simp only [outU, hfind]
      rw [hOv, mul_div_assoc', ← sumR_mul_left, ← sumR_mul_left, ← sumR_mul_left]
      have key : ∀ a, a < G →
          I gv.1 s * (if s ≤ a then O y.p a * q a * L y a s else 0)
            = m * (κp * d gv.1 / m * (I gv.1 s * (if s ≤ a then L y a s * sibFac fixed prior L I d g gv.1 a
                * outU G fixed prior L I d rest g.1 a else 0))) := by
        intro a ha
        by_cases hsa : s ≤ a
        · rw [if_pos hsa, if_pos hsa]
          -- the sibling factorisation of the parent's row
          have hIp : I g.1 a = sibFac fixed prior L I d g gv.1 a * smsg fixed L I y a := by
            have heq := hr.1.eq a ha
            have h1 : I g.1 a = prior g.1 a * (g.2.map (fun e => smsg fixed L I e a)).prod / d g.1 := by
              rw [eq_div_iff hdp, mul_comm (I g.1 a)]; exact heq.symm
            rw [h1]
            unfold sibFac
            rw [hfilt]
            conv_lhs => rw [hsplit]
            rw [List.map_append, List.prod_append, List.map_cons, List.prod_cons, List.map_append,
              List.prod_append]
            ring
          by_cases hμ : smsg fixed L I y a = 0
          · -- vanishing message: every term `I v b * L y a b` with `b ≤ a` vanishes
            have hsum := smsg_child fixed L I gv.1 y hy a
            rw [hμ] at hsum
            have hz := list_sum_eq_zero_nonneg _ (by
                intro z hz
                obtain ⟨b, hb, rfl⟩ := List.mem_map.mp hz
                have hb' := List.mem_range.mp hb
                exact mul_nonneg (hI gv (by simp) b (by omega))
                  (hL y (by simp only [List.flatMap_cons, List.mem_append]; exact Or.inl hymem)
                    a b ha (by omega))) hsum.symm
              (I gv.1 s * L y a s) (List.mem_map.mpr ⟨s, List.mem_range.mpr (by omega), rfl⟩)
            have e1 : I gv.1 s * (O y.p a * q a * L y a s) = (I gv.1 s * L y a s) * (O y.p a * q a) := by ring
            have e2 : m * (κp * d gv.1 / m * (I gv.1 s * (L y a s * sibFac fixed prior L I d g gv.1 a
                * outU G fixed prior L I d rest g.1 a)))
                = (I gv.1 s * L y a s) * (m * (κp * d gv.1 / m * (sibFac fixed prior L I d g gv.1 a
                * outU G fixed prior L I d rest g.1 a))) := by ring
            rw [e1, e2, hz, zero_mul, zero_mul]
          · have hqa := hq a ha hμ
            rw [hyc.1, hyp] at hqa
            have hk := hkp a ha
            rw [hyp, hqa]
            have : O g.1 a * (I g.1 a / (smsg fixed L I y a / d gv.1))
                = (I g.1 a * O g.1 a) * d gv.1 / smsg fixed L I y a := by
              field_simp
            rw [this, hk, hIp]
            field_simp
        · rw [if_neg hsa, if_neg hsa]; ring
      rw [sumR_congr G _ _ key, sumR_mul_left, mul_div_cancel_left₀ _ hm]

end
end Tsdate.Discrete
