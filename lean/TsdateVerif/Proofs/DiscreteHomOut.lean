/-
Naturality of the outside pass in the probability space (continuation of `DiscreteHom.lean`).
-/
import TsdateVerif.Proofs.DiscreteHom

namespace Tsdate.Discrete
open Tsdate

section
variable {β α : Type} [Inhabited β] [Inhabited α]

/-- `zipWith` commutes with `E` when the operation does on every zipped pair -/
theorem map_zipWith_guard (f : β → β → β) (f' : α → α → α) (E : β → α) :
    ∀ (l1 l2 : List β), (∀ xy ∈ List.zip l1 l2, E (f xy.1 xy.2) = f' (E xy.1) (E xy.2)) →
      (List.zipWith f l1 l2).map E = List.zipWith f' (l1.map E) (l2.map E)
  | [], _, _ => by simp
  | _ :: _, [], _ => by simp
  | a :: l1, b :: l2, h => by
    have h0 := h (a, b) (by simp)
    have ih := map_zipWith_guard f f' E l1 l2 (fun xy hxy => h xy (by simp [hxy]))
    simp only [List.zipWith_cons_cons, List.map_cons, ih]
    exact congrArg (· :: _) h0

variable {ol : Ops β} {on : Ops α} {E F : β → α} {Pn : α → Prop}

theorem msgUpper_hom (h : OpsHom ol on E F Pn) (hE : E default = default) (G : Nat) (pv : List β)
    (lik : Array β) :
    (msgUpper ol G pv lik).map E = msgUpper on G (pv.map E) (lik.map E) := by
  unfold msgUpper
  rw [reduceat_hom ol.sum on.sum E h.sum, map_zipWith_hom ol.combine on.combine E h.combine]
  congr 2
  simp only [gather, List.map_map]
  apply List.map_congr_left
  intro i _
  simp only [Function.comp]
  rw [aget_map E hE]

/-- standardisation (`ratio(v, max(v))`) commutes with `E` when the maximum is not null -/
theorem std_hom (h : OpsHom ol on E F Pn) (pv : List β) (hne : on.maxl (pv.map E) ≠ on.null) :
    (pv.map (fun v => ol.ratio v (ol.maxl pv))).map E
      = (pv.map E).map (fun v => on.ratio v (on.maxl (pv.map E))) := by
  have hmne : ol.maxl pv ≠ ol.null := by
    intro hn; apply hne; rw [← h.maxl, hn]; exact (h.null_iff _).mpr rfl
  rw [List.map_map, List.map_map, ← h.maxl]
  apply List.map_congr_left
  intro v _
  exact h.ratio v _ hmne

/-- the initial outside rows correspond when the two conversions of 0 and of each root fraction do -/
theorem outsideInit_hom (inp : Input β) (zL : β) (zN : α)
    (hz : E (ol.ofLin zL) = on.ofLin zN)
    (hr : ∀ r ∈ inp.roots, E (ol.ofLin r.2) = on.ofLin (F r.2)) :
    (outsideInit ol inp zL).map (fun r : Array β => r.map E) = outsideInit on (inp.mapE E F) zN := by
  unfold outsideInit
  simp only [Input.mapE, Array.map_map]
  -- both sides are images of root-updated base arrays
  have key : ∀ (roots : List (Nat × β)) (accL : Array (Array β)) (accN : Array (Array α)),
      (∀ r ∈ roots, E (ol.ofLin r.2) = on.ofLin (F r.2)) →
      accL.map ((fun r : Array β => r.map E) ∘ (fun row => row.map ol.ofLin)) = accN.map (fun row => row.map on.ofLin) →
      (roots.foldl (fun acc r =>
          if aget inp.fixed r.1 then acc else aset acc r.1 (Array.replicate inp.G r.2)) accL).map
            ((fun r : Array β => r.map E) ∘ (fun row => row.map ol.ofLin))
        = ((roots.map (fun r => (r.1, F r.2))).foldl (fun acc r =>
          if aget inp.fixed r.1 then acc else aset acc r.1 (Array.replicate inp.G r.2)) accN).map
            (fun row => row.map on.ofLin) := by
    intro roots
    induction roots with
    | nil => intro accL accN _ hacc; exact hacc
    | cons r rest ih =>
      intro accL accN hr' hacc
      simp only [List.foldl_cons, List.map_cons]
      apply ih _ _ (fun r' hr'' => hr' r' (List.mem_cons_of_mem _ hr''))
      by_cases hf : aget inp.fixed r.1 = true
      · simp only [hf, if_true]; exact hacc
      · rw [if_neg hf, if_neg hf, aset_map, aset_map, hacc]
        congr 1
        simp only [Function.comp, Array.map_replicate]
        rw [hr' r (List.mem_cons_self ..)]
  apply key inp.roots _ _ hr
  apply Array.ext
  · simp
  · intro i h1 h2
    simp only [Array.getElem_map, Array.getElem_range, Function.comp]
    split_ifs
    · simp
    · simp only [Array.map_replicate, hz]

/-- guard of one outside edge on the linear run -/
def outsideEdgeGuard (Pn : α → Prop) (on : Ops α) (inpN : Input α) (sN : InsideState α)
    (std ign : Bool) (outside : Array (Array α)) (e : DEdge) : Prop :=
  (ign && e.p + 1 == inpN.numNodes) = false →
    Pn (aget inpN.frac e.id) ∧
    aget sN.denom e.c ≠ on.null ∧
    (∀ xy ∈ List.zip (aget sN.inside e.p).toList
        ((edgeMsg on inpN sN.inside e).map (fun v => on.ratio v (aget sN.denom e.c))),
      xy.2 = on.null → xy.1 = on.null) ∧
    (std = true → on.maxl ((gather (List.zipWith on.combine (aget outside e.p).toList
        (List.zipWith on.ratio0 (aget sN.inside e.p).toList
          ((edgeMsg on inpN sN.inside e).map (fun v => on.ratio v (aget sN.denom e.c))))).toArray
        (toUpperTri inpN.G)).map (on.scale (aget inpN.frac e.id))) ≠ on.null)

theorem outsideEdge_hom (h : OpsHom ol on E F Pn) (hE : E default = default) (hF : F default = default)
    (inp : Input β) (s : InsideState β) (std ign : Bool) (outside : Array (Array β)) (val : List β)
    (e : DEdge)
    (hg : outsideEdgeGuard Pn on (inp.mapE E F) (s.mapE E) std ign (outside.map (fun r : Array β => r.map E)) e) :
    (outsideEdge ol inp s std ign outside val e).map E
      = outsideEdge on (inp.mapE E F) (s.mapE E) std ign (outside.map (fun r : Array β => r.map E)) (val.map E) e := by
  unfold outsideEdge
  show _ = if (ign && e.p + 1 == inp.numNodes) = true then _ else _
  by_cases hskip : (ign && e.p + 1 == inp.numNodes) = true
  · rw [if_pos hskip, if_pos hskip]
  · rw [if_neg hskip, if_neg hskip]
    have hsk : (ign && e.p + 1 == (inp.mapE E F).numNodes) = false := by
      show (ign && e.p + 1 == inp.numNodes) = false
      simpa using hskip
    obtain ⟨hPe, hden, hpairs, hmax⟩ := hg hsk
    have hPe' : Pn (F (aget inp.frac e.id)) := by
      have : aget (inp.mapE E F).frac e.id = F (aget inp.frac e.id) := aget_map F hF _ _
      rw [← this]; exact hPe
    simp only
    -- pieces
    have hdenE : aget (s.mapE E).denom e.c = E (aget s.denom e.c) := aget_map E hE _ _
    have hdne : aget s.denom e.c ≠ ol.null := by
      intro hn; apply hden; rw [hdenE, hn]; exact (h.null_iff _).mpr rfl
    have hcur : ((edgeMsg ol inp s.inside e).map (fun v => ol.ratio v (aget s.denom e.c))).map E
        = (edgeMsg on (inp.mapE E F) (s.mapE E).inside e).map
            (fun v => on.ratio v (aget (s.mapE E).denom e.c)) := by
      show _ = (edgeMsg on (inp.mapE E F) (s.inside.map (fun r : Array β => r.map E)) e).map
        (fun v => on.ratio v (aget (s.mapE E).denom e.c))
      rw [← edgeMsg_hom h hE hF inp s.inside e hPe, List.map_map, List.map_map, hdenE]
      apply List.map_congr_left
      intro v _
      exact h.ratio v _ hdne
    have hinsp : (aget s.inside e.p).toList.map E = (aget (s.mapE E).inside e.p).toList := by
      show _ = (aget (s.inside.map (fun r : Array β => r.map E)) e.p).toList
      rw [aget_map_rows]; simp
    have hdiv : (List.zipWith ol.ratio0 (aget s.inside e.p).toList
          ((edgeMsg ol inp s.inside e).map (fun v => ol.ratio v (aget s.denom e.c)))).map E
        = List.zipWith on.ratio0 (aget (s.mapE E).inside e.p).toList
          ((edgeMsg on (inp.mapE E F) (s.mapE E).inside e).map
            (fun v => on.ratio v (aget (s.mapE E).denom e.c))) := by
      rw [map_zipWith_guard ol.ratio0 on.ratio0 E, hinsp, hcur]
      intro xy hxy
      apply h.ratio0
      intro hy
      have hmem : (E xy.1, E xy.2) ∈ List.zip (aget (s.mapE E).inside e.p).toList
          ((edgeMsg on (inp.mapE E F) (s.mapE E).inside e).map
            (fun v => on.ratio v (aget (s.mapE E).denom e.c))) := by
        rw [← hinsp, ← hcur, List.zip_map]
        exact List.mem_map.mpr ⟨xy, hxy, rfl⟩
      have := hpairs _ hmem ((h.null_iff _).mpr hy)
      exact (h.null_iff _).mp this
    have houtp : (aget outside e.p).toList.map E = (aget (outside.map (fun r : Array β => r.map E)) e.p).toList := by
      rw [aget_map_rows]; simp
    have hpv0 : ((gather (List.zipWith ol.combine (aget outside e.p).toList
          (List.zipWith ol.ratio0 (aget s.inside e.p).toList
            ((edgeMsg ol inp s.inside e).map (fun v => ol.ratio v (aget s.denom e.c))))).toArray
          (toUpperTri inp.G)).map (ol.scale (aget inp.frac e.id))).map E
        = (gather (List.zipWith on.combine (aget (outside.map (fun r : Array β => r.map E)) e.p).toList
          (List.zipWith on.ratio0 (aget (s.mapE E).inside e.p).toList
            ((edgeMsg on (inp.mapE E F) (s.mapE E).inside e).map
              (fun v => on.ratio v (aget (s.mapE E).denom e.c))))).toArray
          (toUpperTri (inp.mapE E F).G)).map (on.scale (aget (inp.mapE E F).frac e.id)) := by
      rw [← hdiv, ← houtp, ← map_zipWith_hom ol.combine on.combine E h.combine]
      simp only [gather, List.map_map]
      apply List.map_congr_left
      intro i _
      simp only [Function.comp]
      rw [h.scale _ _ hPe']
      congr 1
      · simp only [Input.mapE]; rw [aget_map F hF]
      · rw [← aget_map E hE]; simp
    rw [map_zipWith_hom ol.combine on.combine E h.combine, msgUpper_hom h hE]
    congr 2
    · cases std
      · simp only [Bool.false_eq_true, if_false]
        exact hpv0
      · simp only [if_true]
        have hm := hmax rfl
        rw [← hpv0] at hm ⊢
        exact std_hom h _ hm
    · simp only [Input.mapE]; rw [aget_map_rows]

end
end Tsdate.Discrete
