/-
Linear-space reading of the generic model: index-level form of the inside equations
(`d u * I u t = prior u t * Π smsg`) for any `Ops` that behaves like `Likelihoods`.
-/
import Mathlib.Algebra.Field.Basic
import TsdateVerif.Proofs.DiscreteInside
import TsdateVerif.Proofs.DiscreteTree

namespace Tsdate.Discrete
open Tsdate

/-- `o` is the linear probability space on a field: what `Likelihoods` provides, with `np.max`
left arbitrary (the theorems only need the denominators to be non-zero) and `v ** 1 = v`. -/
structure IsLinOps {α : Type} [Field α] (o : Ops α) : Prop where
  one : o.one = 1
  combine : ∀ x y, o.combine x y = x * y
  ratio : ∀ x y, o.ratio x y = x / y
  sum : ∀ l, o.sum l = l.sum
  scale_one : ∀ v, o.scale 1 v = v

section
variable {α : Type} [Field α] [Inhabited α]

theorem aget_toArray (l : List α) (t : Nat) : aget l.toArray t = l.getD t default := by
  simp [aget, List.getD_eq_getElem?_getD]

theorem getD_zipWith_mul (a b : List α) (t : Nat) (ha : t < a.length) (hb : t < b.length) :
    (List.zipWith (· * ·) a b).getD t default = a.getD t default * b.getD t default := by
  simp [List.getD_eq_getElem?_getD, List.getElem?_zipWith, List.getElem?_eq_getElem ha,
    List.getElem?_eq_getElem hb]

/-- entry `t` of a prior row multiplied successively by messages -/
theorem getD_foldl_zipWith {ι : Type} (m : ι → List α) (G t : Nat) (ht : t < G) :
    ∀ (es : List ι) (v : List α), v.length = G → (∀ e ∈ es, (m e).length = G) →
      (es.foldl (fun acc e => List.zipWith (· * ·) acc (m e)) v).getD t default
        = v.getD t default * (es.map (fun e => (m e).getD t default)).prod ∧
      (es.foldl (fun acc e => List.zipWith (· * ·) acc (m e)) v).length = G
  | [], v, hv, _ => by simp [hv]
  | e :: es, v, hv, hm => by
    have hme := hm e (List.mem_cons_self ..)
    have hlen : (List.zipWith (· * ·) v (m e)).length = G := by simp [hv, hme]
    have ih := getD_foldl_zipWith m G t ht es (List.zipWith (· * ·) v (m e)) hlen
      (fun e' he' => hm e' (List.mem_cons_of_mem _ he'))
    simp only [List.foldl_cons, List.map_cons, List.prod_cons]
    refine ⟨?_, ih.2⟩
    rw [ih.1, getD_zipWith_mul v (m e) t (by omega) (by omega)]
    ring

theorem length_reduceat (sum : List α → α) (xs : List α) : ∀ (starts : List Nat),
    (reduceat sum xs starts).length = starts.length
  | [] => rfl
  | [_] => rfl
  | _ :: j :: rest => by simp [reduceat, length_reduceat sum xs (j :: rest)]

theorem length_edgeMsg (o : Ops α) (inp : Input α) (ins : Array (Array α)) (e : DEdge) :
    (edgeMsg o inp ins e).length = inp.G := by
  unfold edgeMsg
  split_ifs
  · simp [msgFixed]
  · simp [msgLower, length_reduceat, rowIndices]

theorem sum_eq_sumR (l : List α) : l.sum = sumR l.length (fun t => l.getD t default) := by
  induction l using List.reverseRecOn with
  | nil => simp [sumR]
  | append_singleton l a ih =>
    rw [List.sum_append, List.length_append, List.length_singleton, sumR_succ, ih]
    congr 1
    · apply sumR_congr
      intro t ht
      simp [List.getD_eq_getElem?_getD, List.getElem?_append_left ht]
    · simp [List.getD_eq_getElem?_getD]

end
end Tsdate.Discrete
