/-
Lemmas about the `_constrain_ages` model (used by Props/C01, C03, C27).
-/
import Mathlib.Order.Basic
import Mathlib.Order.Lattice
import Mathlib.Algebra.Order.Field.Basic
import Mathlib.Tactic.SplitIfs
import Mathlib.Tactic.Linarith
import TsdateVerif.Model.Constrain

namespace Tsdate
set_option linter.unusedSectionVars false

/-- All edge endpoints index into an array of size `n`, and no edge is a self loop. -/
def InRange (n : Nat) (es : List Edge) : Prop := ∀ e ∈ es, e.p < n ∧ e.c < n ∧ e.p ≠ e.c

/-- Children are finished before they are used as parents' references: no *later* edge has as
parent a node that an earlier edge used as child.  (tskit's edge order: sorted by parent time.) -/
def TopoOrdered : List Edge → Prop
  | [] => True
  | e :: es => (∀ e' ∈ es, e'.p ≠ e.c) ∧ TopoOrdered es

theorem InRange.tail {n : Nat} {e : Edge} {es : List Edge} (h : InRange n (e :: es)) :
    InRange n es := fun e' he' => h e' (List.mem_cons_of_mem _ he')

theorem InRange.head {n : Nat} {e : Edge} {es : List Edge} (h : InRange n (e :: es)) :
    e.p < n ∧ e.c < n ∧ e.p ≠ e.c := h e (List.mem_cons_self ..)

theorem aset_aget_self {α : Type} [Inhabited α] (a : Array α) (i : Nat) (v : α)
    (hv : v = aget a i) : aset a i v = a := by
  subst hv
  apply Array.ext
  · simp [aset]
  · intro j h1 h2
    simp only [aset, aget]
    rw [Array.getElem_setIfInBounds]
    split
    · rename_i h; subst h; simp [h2]
    · rfl

section Forced
variable {α : Type} [Inhabited α] [LinearOrder α]

theorem forcedStep_size (ftest fadd : α → α) (t : Array α) (e : Edge) :
    (forcedStep ftest fadd t e).size = t.size := by
  unfold forcedStep; split_ifs <;> simp

theorem forced_size (ftest fadd : α → α) (es : List Edge) (t : Array α) :
    (forced ftest fadd t es).size = t.size := by
  induction es generalizing t with
  | nil => rfl
  | cons e es ih =>
    show (forced ftest fadd (forcedStep ftest fadd t e) es).size = t.size
    rw [ih, forcedStep_size]

theorem forced_cons (ftest fadd : α → α) (t : Array α) (e : Edge) (es : List Edge) :
    forced ftest fadd t (e :: es) = forced ftest fadd (forcedStep ftest fadd t e) es := rfl

theorem forcedStep_other (ftest fadd : α → α) (t : Array α) (e : Edge) (i : Nat) (h : i ≠ e.p) :
    aget (forcedStep ftest fadd t e) i = aget t i := by
  unfold forcedStep
  split_ifs
  · exact aget_aset_other _ _ _ _ h
  · rfl

/-- value at the parent after one forced step -/
theorem forcedStep_parent (ftest fadd : α → α) (t : Array α) (e : Edge) (hp : e.p < t.size) :
    aget (forcedStep ftest fadd t e) e.p =
      if aget t e.p ≤ ftest (aget t e.c) then fadd (aget t e.c) else aget t e.p := by
  unfold forcedStep
  split_ifs with h
  · rw [aget_aset_same _ _ _ hp]
  · rfl

/-- when test and assignment use the same function the step is a `max` -/
theorem forcedStep_parent_max (fadd : α → α) (t : Array α) (e : Edge) (hp : e.p < t.size) :
    aget (forcedStep fadd fadd t e) e.p = max (aget t e.p) (fadd (aget t e.c)) := by
  rw [forcedStep_parent _ _ _ _ hp]
  split_ifs with h
  · rw [max_eq_right h]
  · rw [max_eq_left (le_of_lt (not_le.mp h))]

theorem forcedStep_mono (ftest fadd : α → α) (hle : ∀ x, ftest x ≤ fadd x) (t : Array α) (e : Edge)
    (hp : e.p < t.size) (i : Nat) : aget t i ≤ aget (forcedStep ftest fadd t e) i := by
  by_cases h : i = e.p
  · subst h; rw [forcedStep_parent _ _ _ _ hp]
    split_ifs with h1
    · exact le_trans h1 (hle _)
    · exact le_rfl
  · rw [forcedStep_other _ _ _ _ _ h]

theorem forced_mono (ftest fadd : α → α) (hle : ∀ x, ftest x ≤ fadd x) (es : List Edge)
    (t : Array α) (hr : InRange t.size es) (i : Nat) :
    aget t i ≤ aget (forced ftest fadd t es) i := by
  induction es generalizing t with
  | nil => exact le_rfl
  | cons e es ih =>
    rw [forced_cons]
    have hp := hr.head.1
    refine le_trans (forcedStep_mono ftest fadd hle t e hp i) (ih _ ?_)
    rw [forcedStep_size]; exact hr.tail

theorem forced_unchanged (ftest fadd : α → α) (es : List Edge) (t : Array α) (i : Nat)
    (h : ∀ e ∈ es, e.p ≠ i) : aget (forced ftest fadd t es) i = aget t i := by
  induction es generalizing t with
  | nil => rfl
  | cons e es ih =>
    have h1 : i ≠ e.p := fun h' => h e (List.mem_cons_self ..) h'.symm
    rw [forced_cons, ih _ (fun e' he' => h e' (List.mem_cons_of_mem _ he')),
      forcedStep_other _ _ _ _ _ h1]

/-- What the forced pass guarantees on an edge: the parent is strictly above the tested value, or
at least the assigned value. -/
def EdgeGood (ftest fadd : α → α) (t : Array α) (e : Edge) : Prop :=
  ftest (aget t e.c) < aget t e.p ∨ fadd (aget t e.c) ≤ aget t e.p

/-- **The forced pass establishes `EdgeGood` on every edge** (only `ftest ≤ fadd` is assumed). -/
theorem forced_good (ftest fadd : α → α) (hle : ∀ x, ftest x ≤ fadd x) (es : List Edge)
    (t : Array α) (hr : InRange t.size es) (htopo : TopoOrdered es) :
    ∀ e ∈ es, EdgeGood ftest fadd (forced ftest fadd t es) e := by
  induction es generalizing t with
  | nil => intro e he; cases he
  | cons e0 es ih =>
    obtain ⟨h1, h3⟩ := htopo
    obtain ⟨hp, _, hne⟩ := hr.head
    have hr' : InRange (forcedStep ftest fadd t e0).size es := by
      rw [forcedStep_size]; exact hr.tail
    intro e he
    rw [forced_cons]
    rcases List.mem_cons.mp he with rfl | he'
    · unfold EdgeGood
      rw [forced_unchanged ftest fadd es _ e.c (fun e' he' => h1 e' he'),
        forcedStep_other _ _ _ _ _ (Ne.symm hne)]
      have hm := forced_mono ftest fadd hle es _ hr' e.p
      rw [forcedStep_parent _ _ _ _ hp] at hm
      split_ifs at hm with h4
      · exact Or.inr hm
      · exact Or.inl (lt_of_lt_of_le (not_le.mp h4) hm)
    · exact ih _ hr' h3 e he'

/-- **Forced pass establishes every branch-length constraint**: parent ≥ tested value. -/
theorem forced_constraint (ftest fadd : α → α) (hle : ∀ x, ftest x ≤ fadd x) (es : List Edge)
    (t : Array α) (hr : InRange t.size es) (htopo : TopoOrdered es) :
    ∀ e ∈ es, ftest (aget (forced ftest fadd t es) e.c) ≤ aget (forced ftest fadd t es) e.p := by
  intro e he
  rcases forced_good ftest fadd hle es t hr htopo e he with h | h
  · exact le_of_lt h
  · exact le_trans (hle _) h

/-- … and strictly older parents when the assigned value is strictly above the child
(`x < fadd x`) and the tested value is not below it (`x ≤ ftest x`). -/
theorem forced_strict (ftest fadd : α → α) (hle : ∀ x, ftest x ≤ fadd x) (hge : ∀ x, x ≤ ftest x)
    (hinc : ∀ x, x < fadd x) (es : List Edge)
    (t : Array α) (hr : InRange t.size es) (htopo : TopoOrdered es) :
    ∀ e ∈ es, aget (forced ftest fadd t es) e.c < aget (forced ftest fadd t es) e.p := by
  intro e he
  rcases forced_good ftest fadd hle es t hr htopo e he with h | h
  · exact lt_of_le_of_lt (hge _) h
  · exact lt_of_lt_of_le (hinc _) h

/-- maximum of a start value and a list -/
def maxWith (x : α) (l : List α) : α := l.foldl max x

omit [Inhabited α] in
theorem maxWith_cons (x y : α) (l : List α) : maxWith x (y :: l) = maxWith (max x y) l := rfl

/-- the general (two-function) version of `maxWith`: bump to `fadd y` whenever not above `ftest y` -/
def bumpWith (ftest fadd : α → α) (x : α) (l : List α) : α :=
  l.foldl (fun acc y => if acc ≤ ftest y then fadd y else acc) x

omit [Inhabited α] in
theorem bumpWith_cons (ftest fadd : α → α) (x y : α) (l : List α) :
    bumpWith ftest fadd x (y :: l) = bumpWith ftest fadd (if x ≤ ftest y then fadd y else x) l := rfl

omit [Inhabited α] in
theorem bumpWith_same (fadd : α → α) (x : α) (l : List α) :
    bumpWith fadd fadd x l = maxWith x (l.map fadd) := by
  induction l generalizing x with
  | nil => rfl
  | cons y l ih =>
    rw [bumpWith_cons, List.map_cons, maxWith_cons, ih]
    congr 1
    split_ifs with h
    · rw [max_eq_right h]
    · rw [max_eq_left (le_of_lt (not_le.mp h))]

/-- **Order-free characterisation of the forced pass**: each node ends at its input value bumped
by each child's *output* value, in edge order. -/
theorem forced_char (ftest fadd : α → α) (es : List Edge) (t : Array α)
    (hr : InRange t.size es) (htopo : TopoOrdered es) (p : Nat) :
    aget (forced ftest fadd t es) p =
      bumpWith ftest fadd (aget t p)
        ((es.filter (fun e => e.p = p)).map (fun e => aget (forced ftest fadd t es) e.c)) := by
  induction es generalizing t with
  | nil => rfl
  | cons e0 es ih =>
    obtain ⟨h1, h3⟩ := htopo
    obtain ⟨hp, _, hne⟩ := hr.head
    have hr' : InRange (forcedStep ftest fadd t e0).size es := by
      rw [forcedStep_size]; exact hr.tail
    rw [forced_cons, ih _ hr' h3]
    by_cases hpe : e0.p = p
    · have hc : aget (forced ftest fadd (forcedStep ftest fadd t e0) es) e0.c = aget t e0.c := by
        rw [forced_unchanged ftest fadd es _ e0.c (fun e' he' => h1 e' he'),
          forcedStep_other _ _ _ _ _ (Ne.symm hne)]
      simp only [List.filter_cons, hpe, decide_true, if_true, List.map_cons, bumpWith_cons]
      rw [hc, ← hpe, forcedStep_parent _ _ _ _ hp]
    · simp only [List.filter_cons, hpe, decide_false, Bool.false_eq_true, if_false]
      rw [forcedStep_other _ _ _ _ _ (Ne.symm hpe)]

/-- With one function for test and assignment (exact arithmetic, or no absorption) the forced pass
is the `max` characterisation. -/
theorem forced_max_char (fadd : α → α) (es : List Edge) (t : Array α)
    (hr : InRange t.size es) (htopo : TopoOrdered es) (p : Nat) :
    aget (forced fadd fadd t es) p =
      maxWith (aget t p)
        (((es.filter (fun e => e.p = p)).map (fun e => fadd (aget (forced fadd fadd t es) e.c)))) := by
  rw [forced_char fadd fadd es t hr htopo p, bumpWith_same, List.map_map]
  rfl

/-- the forced pass does nothing on times that are already `EdgeGood` everywhere -/
theorem forced_noop (ftest fadd : α → α) (hle : ∀ x, ftest x ≤ fadd x) (es : List Edge)
    (t : Array α) (h : ∀ e ∈ es, EdgeGood ftest fadd t e) : forced ftest fadd t es = t := by
  induction es with
  | nil => rfl
  | cons e es ih =>
    have he := h e (List.mem_cons_self ..)
    have hstep : forcedStep ftest fadd t e = t := by
      unfold forcedStep
      split_ifs with h1
      · rcases he with he | he
        · exact absurd (lt_of_lt_of_le he h1) (lt_irrefl _)
        · exact aset_aget_self _ _ _ (le_antisymm he (le_trans h1 (hle _)))
      · rfl
    rw [forced_cons, hstep]
    exact ih (fun e' he' => h e' (List.mem_cons_of_mem _ he'))

end Forced

/-! ### tskit's edge order is topological -/

theorem topo_of_sorted {β : Type} [Preorder β] (time : Nat → β) (es : List Edge)
    (hsorted : es.Pairwise (fun a b => time a.p ≤ time b.p))
    (hval : ∀ e ∈ es, time e.c < time e.p) : TopoOrdered es := by
  induction es with
  | nil => trivial
  | cons e es ih =>
    rw [List.pairwise_cons] at hsorted
    refine ⟨?_, ih hsorted.2 (fun e' he' => hval e' (List.mem_cons_of_mem _ he'))⟩
    intro e' he' heq
    have h1 := hsorted.1 e' he'
    have h2 := hval e (List.mem_cons_self ..)
    rw [heq] at h1
    exact absurd (lt_of_lt_of_le h2 h1) (lt_irrefl _)

/-! ### Least-squares phase -/

section LSProofs
variable {α : Type} [Inhabited α] [Field α] [LinearOrder α] [IsStrictOrderedRing α]

/-- cavity entries attached to fixed endpoints are zero -/
def CavOK (fixed : Array Bool) (all : List Edge) (s : LSState α) : Prop :=
  s.cav.size = all.length ∧
  ∀ i e, all[i]? = some e →
    (aget fixed e.c = true → (aget s.cav i).1 = 0) ∧ (aget fixed e.p = true → (aget s.cav i).2 = 0)

theorem lsEdge_t_size (fixed : Array Bool) (s : LSState α) (i : Nat) (e : Edge) :
    (lsEdge fixed s i e).t.size = s.t.size := by simp [lsEdge]

theorem lsEdge_cav_size (fixed : Array Bool) (s : LSState α) (i : Nat) (e : Edge) :
    (lsEdge fixed s i e).cav.size = s.cav.size := by simp [lsEdge]

/-- the new cavity of an edge has zero entries at fixed endpoints -/
theorem newCav_fixed (fc fp : Bool) (adj : α) :
    (fc = true → (newCav fc fp adj).1 = 0) ∧ (fp = true → (newCav fc fp adj).2 = 0) := by
  unfold newCav
  cases fc <;> cases fp <;> simp <;> split_ifs <;> simp

theorem newCav_nonpos (fc fp : Bool) (adj : α) (h : adj ≤ 0) : newCav fc fp adj = (0, 0) := by
  unfold newCav
  rw [if_neg (not_lt.mpr h)]

/-- the cavity-free gap seen by edge `i` -/
def gap (s : LSState α) (i : Nat) (e : Edge) : α :=
  (aget s.t e.c - (aget s.cav i).1) - (aget s.t e.p - (aget s.cav i).2)

/-- Values of the times after one edge update, at any index. -/
theorem lsEdge_t (fixed : Array Bool) (s : LSState α) (i : Nat) (e : Edge)
    (hp : e.p < s.t.size) (hc : e.c < s.t.size) (hne : e.p ≠ e.c) (x : Nat) :
    aget (lsEdge fixed s i e).t x =
      if x = e.p then aget s.t e.p - (aget s.cav i).2
          + (newCav (aget fixed e.c) (aget fixed e.p) (gap s i e)).2
      else if x = e.c then aget s.t e.c - (aget s.cav i).1
          + (newCav (aget fixed e.c) (aget fixed e.p) (gap s i e)).1
      else aget s.t x := by
  have hne' : e.c ≠ e.p := Ne.symm hne
  let cv := aget s.cav i
  let t1 := aset s.t e.c (aget s.t e.c - cv.1)
  have g1 : ∀ y, aget t1 y = if y = e.c then aget s.t e.c - cv.1 else aget s.t y :=
    fun y => aget_aset _ _ _ _ hc
  have s1 : t1.size = s.t.size := size_aset ..
  let t2 := aset t1 e.p (aget t1 e.p - cv.2)
  have g2 : ∀ y, aget t2 y = if y = e.p then aget s.t e.p - cv.2
      else if y = e.c then aget s.t e.c - cv.1 else aget s.t y := by
    intro y
    show aget (aset t1 e.p (aget t1 e.p - cv.2)) y = _
    rw [aget_aset _ _ _ _ (by rw [s1]; exact hp), g1, g1, if_neg hne]
  have s2 : t2.size = s.t.size := by show (aset t1 _ _).size = _; rw [size_aset, s1]
  have hgap : aget t2 e.c - aget t2 e.p = gap s i e := by
    rw [g2, g2, if_neg hne', if_pos rfl, if_pos rfl]; rfl
  let cv' := newCav (aget fixed e.c) (aget fixed e.p) (aget t2 e.c - aget t2 e.p)
  let t3 := aset t2 e.c (aget t2 e.c + cv'.1)
  have g3 : ∀ y, aget t3 y = if y = e.c then aget t2 e.c + cv'.1 else aget t2 y :=
    fun y => aget_aset _ _ _ _ (by rw [s2]; exact hc)
  have s3 : t3.size = s.t.size := by show (aset t2 _ _).size = _; rw [size_aset, s2]
  have g4 : ∀ y, aget (aset t3 e.p (aget t3 e.p + cv'.2)) y =
      if y = e.p then aget t3 e.p + cv'.2 else aget t3 y :=
    fun y => aget_aset _ _ _ _ (by rw [s3]; exact hp)
  show aget (aset t3 e.p (aget t3 e.p + cv'.2)) x = _
  rw [g4, g3, g3, if_neg hne, g2, g2, g2, if_pos rfl, if_neg hne', if_pos rfl]
  have hcv : cv' = newCav (aget fixed e.c) (aget fixed e.p) (gap s i e) := by
    show newCav _ _ _ = _; rw [hgap]
  rw [hcv]
  by_cases h1 : x = e.p
  · simp [h1, cv]
  · by_cases h2 : x = e.c
    · simp [h2, hne', cv]
    · simp [h1, h2]

theorem lsEdge_cav (fixed : Array Bool) (s : LSState α) (i : Nat) (e : Edge)
    (hp : e.p < s.t.size) (hc : e.c < s.t.size) (hne : e.p ≠ e.c) (hi : i < s.cav.size)
    (j : Nat) :
    aget (lsEdge fixed s i e).cav j =
      if j = i then newCav (aget fixed e.c) (aget fixed e.p) (gap s i e) else aget s.cav j := by
  have hne' : e.c ≠ e.p := Ne.symm hne
  let cv := aget s.cav i
  let t1 := aset s.t e.c (aget s.t e.c - cv.1)
  have g1 : ∀ y, aget t1 y = if y = e.c then aget s.t e.c - cv.1 else aget s.t y :=
    fun y => aget_aset _ _ _ _ hc
  have s1 : t1.size = s.t.size := size_aset ..
  let t2 := aset t1 e.p (aget t1 e.p - cv.2)
  have g2 : ∀ y, aget t2 y = if y = e.p then aget s.t e.p - cv.2
      else if y = e.c then aget s.t e.c - cv.1 else aget s.t y := by
    intro y
    show aget (aset t1 e.p (aget t1 e.p - cv.2)) y = _
    rw [aget_aset _ _ _ _ (by rw [s1]; exact hp), g1, g1, if_neg hne]
  have hgap : aget t2 e.c - aget t2 e.p = gap s i e := by
    rw [g2, g2, if_neg hne', if_pos rfl, if_pos rfl]; rfl
  show aget (aset s.cav i (newCav (aget fixed e.c) (aget fixed e.p) (aget t2 e.c - aget t2 e.p))) j = _
  rw [aget_aset _ _ _ _ hi, hgap]

/-- Invariant of the alternating-projection phase relative to the input times `t0`. -/
structure LSInv (fixed : Array Bool) (all : List Edge) (t0 : Array α) (s : LSState α) : Prop where
  tsize : s.t.size = t0.size
  cav : CavOK fixed all s
  fixedSame : ∀ x, aget fixed x = true → aget s.t x = aget t0 x

theorem lsEdge_inv (fixed : Array Bool) (all : List Edge) (t0 : Array α) (s : LSState α)
    (hr : InRange t0.size all) (i : Nat) (e : Edge) (hie : all[i]? = some e)
    (h : LSInv fixed all t0 s) : LSInv fixed all t0 (lsEdge fixed s i e) := by
  have hmem : e ∈ all := List.mem_of_getElem? hie
  obtain ⟨hp, hc, hne⟩ := hr e hmem
  rw [← h.tsize] at hp hc
  have hi : i < s.cav.size := by
    rw [h.cav.1]
    exact (List.getElem?_eq_some_iff.mp hie).1
  have hcv := h.cav.2 i e hie
  have hnew := newCav_fixed (α := α) (aget fixed e.c) (aget fixed e.p) (gap s i e)
  refine ⟨by rw [lsEdge_t_size, h.tsize], ⟨by rw [lsEdge_cav_size, h.cav.1], ?_⟩, ?_⟩
  · intro j e' hje'
    rw [lsEdge_cav _ _ _ _ hp hc hne hi]
    by_cases hji : j = i
    · subst hji
      rw [hie] at hje'
      cases hje'
      simpa using hnew
    · simpa [hji] using h.cav.2 j e' hje'
  · intro x hx
    rw [lsEdge_t _ _ _ _ hp hc hne, ← h.fixedSame x hx]
    by_cases h1 : x = e.p
    · subst h1
      simp [hcv.2 hx, hnew.2 hx]
    · by_cases h2 : x = e.c
      · subst h2
        simp [h1, hcv.1 hx, hnew.1 hx]
      · simp [h1, h2]

theorem lsSweepFrom_inv (fixed : Array Bool) (all : List Edge) (t0 : Array α)
    (hr : InRange t0.size all) (es : List Edge) (i : Nat) (s : LSState α)
    (hsuf : ∀ k e, es[k]? = some e → all[i + k]? = some e)
    (h : LSInv fixed all t0 s) : LSInv fixed all t0 (lsSweepFrom fixed i es s) := by
  induction es generalizing i s with
  | nil => exact h
  | cons e es ih =>
    show LSInv fixed all t0 (lsSweepFrom fixed (i + 1) es (lsEdge fixed s i e))
    refine ih (i + 1) _ ?_ (lsEdge_inv fixed all t0 s hr i e (by simpa using hsuf 0 e rfl) h)
    intro k e' hk
    have := hsuf (k + 1) e' (by simpa using hk)
    rwa [show i + (k + 1) = i + 1 + k by omega] at this

theorem lsSweep_inv (fixed : Array Bool) (all : List Edge) (t0 : Array α)
    (hr : InRange t0.size all) (s : LSState α)
    (h : LSInv fixed all t0 s) : LSInv fixed all t0 (lsSweep fixed all s) :=
  lsSweepFrom_inv fixed all t0 hr all 0 s (fun k e hk => by simpa using hk) h

theorem lsInv_init (fixed : Array Bool) (all : List Edge) (t0 : Array α) :
    LSInv fixed all t0 { t := t0, cav := Array.replicate all.length ((0 : α), (0 : α)) } := by
  refine ⟨rfl, ⟨by simp, ?_⟩, fun _ _ => rfl⟩
  intro i e hie
  have hi : i < all.length := (List.getElem?_eq_some_iff.mp hie).1
  simp [aget, hi]

/-- The result of the main loop is produced from some state satisfying any sweep-invariant:
either by the early exit (then the strict test holds) or by the forced pass. -/
theorem constrainGo_cases (ftest fadd : α → α) (fixed : Array Bool) (eps : α) (es : List Edge)
    (P : LSState α → Prop) (hP : ∀ s, P s → P (lsSweep fixed es s)) (n : Nat) (s : LSState α)
    (hs : P s) :
    ∃ s', P s' ∧ ((constrainGo ftest fadd fixed eps es n s = s'.t ∧ allStrict eps es s'.t = true
        ∧ 1 ≤ n) ∨
      constrainGo ftest fadd fixed eps es n s = forced ftest fadd s'.t es) := by
  induction n generalizing s with
  | zero => exact ⟨s, hs, Or.inr rfl⟩
  | succ n ih =>
    unfold constrainGo
    by_cases hx : allStrict eps es s.t = true
    · exact ⟨s, hs, Or.inl ⟨by simp [hx], hx, by omega⟩⟩
    · simp only [hx, Bool.false_eq_true, if_false]
      obtain ⟨s', hs', h⟩ := ih (lsSweep fixed es s) (hP s hs)
      refine ⟨s', hs', ?_⟩
      rcases h with ⟨h1, h2, h3⟩ | h
      · exact Or.inl ⟨h1, h2, by omega⟩
      · exact Or.inr h

/-! #### the least-squares phase does nothing on ordered times with empty cavities -/

theorem lsEdge_noop (fixed : Array Bool) (s : LSState α) (i : Nat) (e : Edge)
    (_hi : i < s.cav.size) (hz : aget s.cav i = (0, 0)) (hord : aget s.t e.c ≤ aget s.t e.p) :
    lsEdge fixed s i e = s := by
  have h1 : aset s.t e.c (aget s.t e.c - (aget s.cav i).1) = s.t :=
    aset_aget_self _ _ _ (by rw [hz]; simp)
  have hadj : aget s.t e.c - aget s.t e.p ≤ 0 := by linarith
  unfold lsEdge
  simp only [h1]
  have h2 : aset s.t e.p (aget s.t e.p - (aget s.cav i).2) = s.t :=
    aset_aget_self _ _ _ (by rw [hz]; simp)
  simp only [h2, newCav_nonpos _ _ _ hadj, add_zero]
  rw [aset_aget_self s.t e.c _ rfl, aset_aget_self s.t e.p _ rfl, aset_aget_self s.cav i _ hz.symm]

theorem lsSweepFrom_noop (fixed : Array Bool) (es : List Edge) (i : Nat) (s : LSState α)
    (hi : i + es.length ≤ s.cav.size) (hz : ∀ j, j < s.cav.size → aget s.cav j = (0, 0))
    (hord : ∀ e ∈ es, aget s.t e.c ≤ aget s.t e.p) :
    lsSweepFrom fixed i es s = s := by
  induction es generalizing i with
  | nil => rfl
  | cons e es ih =>
    have hi' : i < s.cav.size := by simp at hi; omega
    show lsSweepFrom fixed (i + 1) es (lsEdge fixed s i e) = s
    rw [lsEdge_noop fixed s i e hi' (hz i hi') (hord e (List.mem_cons_self ..))]
    exact ih (i + 1) (by simp at hi; omega) (fun e' he' => hord e' (List.mem_cons_of_mem _ he'))

/-- Times on which every edge is `EdgeGood` are a fixed point of the whole procedure, for any
iteration count (needs `x ≤ ftest x ≤ fadd x`). -/
theorem constrainGo_fixpoint (ftest fadd : α → α) (hle : ∀ x, ftest x ≤ fadd x)
    (hge : ∀ x, x ≤ ftest x) (fixed : Array Bool) (eps : α)
    (es : List Edge) (n : Nat) (s : LSState α)
    (hsz : es.length ≤ s.cav.size) (hz : ∀ j, j < s.cav.size → aget s.cav j = (0, 0))
    (hgood : ∀ e ∈ es, EdgeGood ftest fadd s.t e) :
    constrainGo ftest fadd fixed eps es n s = s.t := by
  induction n with
  | zero => exact forced_noop ftest fadd hle es s.t hgood
  | succ n ih =>
    unfold constrainGo
    split_ifs
    · rfl
    · have hord : ∀ e ∈ es, aget s.t e.c ≤ aget s.t e.p := by
        intro e he
        rcases hgood e he with h | h
        · exact le_of_lt (lt_of_le_of_lt (hge _) h)
        · exact le_trans (le_trans (hge _) (hle _)) h
      have : lsSweep fixed es s = s :=
        lsSweepFrom_noop fixed es 0 s (by simpa using hsz) hz hord
      rw [this]; exact ih

end LSProofs

end Tsdate
