/-
C24, size-biased variant, part 1: the walk towards the root of `_count_mutations` adds (removes) the
sample count of the linked (unlinked) subtree to exactly the ancestors of the edge's parent, so that
`nodes_samples[u]` stays the number of sample nodes at or below `u` in the current forest.
-/
import TsdateVerif.Proofs.CountMut
import TsdateVerif.Proofs.Forest

namespace Tsdate.CountMut
open Tsdate Tsdate.Sweep
set_option linter.unusedSectionVars false
set_option linter.unusedVariables false

section
variable {α : Type} [Inhabited α] [Field α] [LinearOrder α] [IsStrictOrderedRing α]

/-- the parent pointers held in a state -/
def parOf (s : St α) : Nat → Option Nat := fun c => aget s.nodeParent c

theorem not_below_link_root {β : Type} [LinearOrder β] (time : Nat → β) (Q : Nat → Option Nat)
    (c0 p0 : Nat) (hc : Q c0 = none) (ho : Older time (link Q c0 p0)) : ¬ Below Q c0 p0 := by
  intro h
  exact not_below_parent ho (show link Q c0 p0 c0 = some p0 by simp [link]) (below_link_mono hc h)

open Classical in
/-- What the walk does to `nodes_samples`: `op · w` on the ancestors-or-self of `p`, where `w` is the
(unchanged) count at `c0`.  `Q`/`G` are the parent/edge pointers, which the walk only reads. -/
theorem walk_samples (op : α → α → α) (c0 : Nat) (rem : α) (N : Nat) (time : Nat → α)
    (T : Tables α) (Q : Nat → Option Nat) (ho : Older time Q) (hQN : ∀ c p, Q c = some p → p < N) :
    ∀ (fuel : Nat) (oe : Option Nat) (p : Nat) (s : St α),
      parOf s = Q → (∀ c, Q c = (aget s.nodeEdge c).map T.par) →
      s.nodeSamples.size = N → p < N → ancCount Q N p ≤ fuel → ¬ Below Q c0 p → oe.isSome →
      (walk op c0 rem fuel oe (some p) s).err = s.err ∧
      ∀ u, aget (walk op c0 rem fuel oe (some p) s).nodeSamples u =
        if Below Q u p then op (aget s.nodeSamples u) (aget s.nodeSamples c0)
        else aget s.nodeSamples u := by
  intro fuel
  induction fuel with
  | zero =>
    intro oe p s _ _ _ hp hf _ _
    have := ancCount_pos Q N p hp
    omega
  | succ k ih =>
    intro oe p s hQ hG hsz hp hf hc0 hoe
    obtain ⟨e, rfl⟩ := Option.isSome_iff_exists.mp hoe
    have hc0p : c0 ≠ p := fun h => hc0 (h ▸ Below.refl)
    have hpsz : p < s.nodeSamples.size := by rw [hsz]; exact hp
    set w := aget s.nodeSamples c0 with hw
    -- one iteration
    set s1 : St α := { s with
      edgeSpan := aset s.edgeSpan e (op (aget s.edgeSpan e) (aget s.nodeSamples c0 * rem)),
      nodeSamples := aset s.nodeSamples p (op (aget s.nodeSamples p) (aget s.nodeSamples c0)) } with hs1
    have hstep : walk op c0 rem (k + 1) (some e) (some p) s =
        walk op c0 rem k (aget s.nodeEdge p) (aget s.nodeParent p) s1 := by
      simp only [walk, hs1]
    have hns1 : ∀ u, aget s1.nodeSamples u = if u = p then op (aget s.nodeSamples u) w
        else aget s.nodeSamples u := by
      intro u
      simp only [hs1]
      rw [aget_aset _ _ _ _ hpsz]
      split_ifs with h
      · subst h; rfl
      · rfl
    have hQp : aget s.nodeParent p = Q p := by rw [← hQ]; rfl
    rw [hstep, hQp]
    cases hq : Q p with
    | none =>
      -- p is a root: the walk stops
      have : walk op c0 rem k (aget s.nodeEdge p) none s1 = s1 := by
        cases k <;> simp [walk]
      rw [this]
      refine ⟨rfl, ?_⟩
      intro u
      rw [hns1 u]
      have : Below Q u p ↔ u = p := ⟨fun h => Below.of_root hq h, fun h => h ▸ Below.refl⟩
      simp only [this]
    | some q =>
      have hqN := hQN p q hq
      have hGp : (aget s.nodeEdge p).isSome := by
        have := hG p
        rw [hq] at this
        cases h : aget s.nodeEdge p with
        | none => rw [h] at this; simp at this
        | some _ => simp
      have hanc := ancCount_parent time Q ho N p q hp hq
      have hc0q : ¬ Below Q c0 q := fun h => hc0 (Below.step hq h)
      have hsz1 : s1.nodeSamples.size = N := by
        show (aset s.nodeSamples p _).size = N
        rw [size_aset]; exact hsz
      have := ih (aget s.nodeEdge p) q s1 hQ hG hsz1 hqN (by omega) hc0q hGp
      obtain ⟨herr, hns⟩ := this
      have hs1e : (aget s1.nodeEdge p) = aget s.nodeEdge p := rfl
      refine ⟨by rw [herr], ?_⟩
      intro u
      rw [hns u, hns1 u, hns1 c0, if_neg hc0p]
      have hiff := below_iff_parent (par := Q) (u := u) hq
      have hnpq : ¬ Below Q p q := not_below_parent ho hq
      by_cases hup : u = p
      · subst hup
        simp only [hnpq, if_false, if_true, Below.refl]
      · have : Below Q u p ↔ Below Q u q := by
          rw [hiff]; constructor
          · rintro (h | h); exact absurd h hup; exact h
          · exact Or.inr
        simp only [hup, if_false, this]
        rfl

/-! ### the size-biased part of the invariant -/

/-- `nodes_parent` mirrors `nodes_edge`, `nodes_samples[u]` is the number of `mask` nodes at or below
`u` in the forest of the currently active edges, and no impossible state was reached. -/
structure SBInv (T : Tables α) (mask : Array Bool) (N : Nat) (s : St α) : Prop where
  szNS : s.nodeSamples.size = N
  szNP : s.nodeParent.size = N
  np : ∀ c, aget s.nodeParent c = (aget s.nodeEdge c).map T.par
  ns : ∀ u, u < N → aget s.nodeSamples u =
    ((cntBelow (parOf s) (fun v => aget mask v) N u : Nat) : α)
  err : s.err = false

/-- The forest held in the state respects node times, and its pointers are node ids. -/
theorem older_of (T : Tables α) (N : Nat) (time : Nat → α)
    (hT : ∀ e, e < T.numEdges → time (T.chi e) < time (T.par e))
    (hP : ∀ e, e < T.numEdges → T.par e < N)
    (insD remD : List Nat) (hI : ∀ e ∈ insD, e < T.numEdges) (s : St α)
    (hszNE : s.nodeEdge.size = N) (hne : NE T N insD remD s.nodeEdge)
    (hnp : ∀ c, aget s.nodeParent c = (aget s.nodeEdge c).map T.par) :
    Older time (parOf s) ∧ ∀ c p, parOf s c = some p → p < N := by
  have key : ∀ c p, parOf s c = some p → ∃ e, e < T.numEdges ∧ T.chi e = c ∧ T.par e = p := by
    intro c p h
    simp only [parOf, hnp c] at h
    cases he : aget s.nodeEdge c with
    | none => rw [he] at h; simp at h
    | some e =>
      rw [he] at h
      have hcN : c < N := by
        by_contra hcon
        have : aget s.nodeEdge c = none := by
          simp [aget, hszNE, Nat.le_of_not_lt hcon]
          rfl
        rw [this] at he; simp at he
      have := (hne c hcN e).mp he
      exact ⟨e, hI e this.1, this.2.2, by simpa using h⟩
  constructor
  · intro c p h
    obtain ⟨e, he, h1, h2⟩ := key c p h
    rw [← h1, ← h2]; exact hT e he
  · intro c p h
    obtain ⟨e, he, _, h2⟩ := key c p h
    rw [← h2]; exact hP e he

/-- before an edge is inserted its child has no edge -/
theorem ne_insert_none (T : Tables α) (hV : Valid T) (hNO : NoOverlap T) (N : Nat)
    (hN : ∀ e, e < T.numEdges → T.chi e < N)
    {x : α} {insD : List Nat} {e : Nat} {insR remD remR : List Nat}
    (F : InsFacts T x insD e insR remD remR) (A : Array (Option Nat))
    (h : NE T N insD remD A) : aget A (T.chi e) = none := by
  have heE : e < T.numEdges := hV.mem_ins.mp (by rw [F.hins]; simp)
  have g := hV.geom e heE
  cases hc : aget A (T.chi e) with
  | none => rfl
  | some e' =>
    exfalso
    obtain ⟨h1, h2, h3⟩ := (h (T.chi e) (hN e heE) e').mp hc
    have hne : e' ≠ e := by
      intro hh
      have := (List.nodup_append.mp (F.hins ▸ hV.nodup_ins)).2.2 e' h1 e (List.mem_cons_self ..)
      exact this hh
    have he'E : e' < T.numEdges := hV.mem_ins.mp (by rw [F.hins]; exact List.mem_append_left _ h1)
    have he'R : e' ∈ remR := by
      have := hV.mem_rem.mpr he'E
      rw [F.hrem] at this
      rcases List.mem_append.mp this with hh | hh
      · exact absurd hh h2
      · exact hh
    have hl' : T.l e' ≤ x := F.insD_le e' h1
    have hr' : x < T.r e' := F.remR_gt e' he'R
    rcases hNO e' e he'E heE hne h3 with hh | hh
    · rw [F.key] at hh; exact absurd (lt_of_lt_of_le hr' hh) (lt_irrefl _)
    · exact absurd (lt_of_lt_of_le (F.key ▸ g.2.1) (le_trans hh hl')) (lt_irrefl _)

/-- the edge being removed is the current edge of its child -/
theorem ne_remove_cur (T : Tables α) (hV : Valid T) (N : Nat)
    (hN : ∀ e, e < T.numEdges → T.chi e < N)
    {x : α} {insD insR remD : List Nat} {e : Nat} {remR : List Nat}
    (F : RemFacts T x insD insR remD e remR) (A : Array (Option Nat))
    (h : NE T N insD remD A) : aget A (T.chi e) = some e := by
  have heE : e < T.numEdges := hV.mem_rem.mp (by rw [F.hrem]; simp)
  have g := hV.geom e heE
  apply (h (T.chi e) (hN e heE) e).mpr
  refine ⟨?_, ?_, rfl⟩
  · have := hV.mem_ins.mpr heE
    rw [F.hins] at this
    rcases List.mem_append.mp this with hh | hh
    · exact hh
    · exact absurd (lt_of_lt_of_le (F.key ▸ g.2.1) (F.insR_ge e hh)) (lt_irrefl _)
  · intro hh
    exact (List.nodup_append.mp (F.hrem ▸ hV.nodup_rem)).2.2 e hh e (List.mem_cons_self ..) rfl

theorem parOf_aset (s : St α) (c0 : Nat) (v : Option Nat) (A : Array (Option Nat))
    (hc : c0 < s.nodeParent.size) (s1 : St α) (h1 : s1.nodeParent = aset s.nodeParent c0 v) :
    parOf s1 = fun c => if c = c0 then v else parOf s c := by
  funext c
  simp only [parOf, h1, aget_aset _ _ _ _ hc]

open Classical in
/-- **Inserting an edge keeps `nodes_samples` exact** (size-biased variant). -/
theorem insertEdge_sb (T : Tables α) (hV : Valid T) (hNO : NoOverlap T) (mask : Array Bool) (N : Nat)
    (time : Nat → α) (hT : ∀ e, e < T.numEdges → time (T.chi e) < time (T.par e))
    (hC : ∀ e, e < T.numEdges → T.chi e < N) (hP : ∀ e, e < T.numEdges → T.par e < N)
    {x : α} {insD : List Nat} {e : Nat} {insR remD remR : List Nat}
    (F : InsFacts T x insD e insR remD remR) (s : St α)
    (hszNE : s.nodeEdge.size = N) (hne : NE T N insD remD s.nodeEdge) (h : SBInv T mask N s) :
    SBInv T mask N (insertEdge T true x s e) := by
  have heE : e < T.numEdges := hV.mem_ins.mp (by rw [F.hins]; simp)
  have hc0N := hC e heE
  have hp0N := hP e heE
  set c0 := T.chi e with hc0
  set p0 := T.par e with hp0
  set s1 : St α := { s with nodeEdge := aset s.nodeEdge c0 (some e),
                            nodeParent := aset s.nodeParent c0 (some p0) } with hs1
  have hins : insertEdge T true x s e =
      walk (· + ·) c0 (T.seqLen - x) (s1.nodeSamples.size + 1) (some e) (some p0) s1 := by
    unfold insertEdge; simp only [if_true]; rfl
  have hPc0 : parOf s c0 = none := by
    show aget s.nodeParent c0 = none
    rw [h.np c0, show aget s.nodeEdge c0 = none from ne_insert_none T hV hNO N hC F s.nodeEdge hne]
    rfl
  have hQ : parOf s1 = link (parOf s) c0 p0 := by
    rw [parOf_aset s c0 (some p0) s.nodeParent (by rw [h.szNP]; exact hc0N) s1 rfl]; rfl
  have hne1 : NE T N (insD ++ [e]) remD s1.nodeEdge := ne_insert T hV hNO N hC F s.nodeEdge hszNE hne
  have hnp1 : ∀ c, aget s1.nodeParent c = (aget s1.nodeEdge c).map T.par := by
    intro c
    show aget (aset s.nodeParent c0 (some p0)) c = (aget (aset s.nodeEdge c0 (some e)) c).map T.par
    rw [aget_aset _ _ _ _ (by rw [h.szNP]; exact hc0N), aget_aset _ _ _ _ (by rw [hszNE]; exact hc0N)]
    split_ifs
    · rfl
    · exact h.np c
  have hI1 : ∀ e' ∈ insD ++ [e], e' < T.numEdges := fun e' he' =>
    hV.mem_ins.mp (by rw [F.hins]; rcases List.mem_append.mp he' with hh | hh
                      · exact List.mem_append_left _ hh
                      · simp at hh; subst hh; simp)
  obtain ⟨ho, hQN⟩ := older_of T N time hT hP (insD ++ [e]) remD hI1 s1
    (by show (aset s.nodeEdge c0 (some e)).size = N; rw [size_aset]; exact hszNE) hne1 hnp1
  have hQc0 : parOf s1 c0 = some p0 := by rw [hQ]; simp [link]
  obtain ⟨herr, hns⟩ := walk_samples (· + ·) c0 (T.seqLen - x) N time T (parOf s1) ho hQN
    (s1.nodeSamples.size + 1) (some e) p0 s1 rfl hnp1 h.szNS hp0N
    (Nat.le_succ_of_le (by rw [show s1.nodeSamples.size = N from h.szNS]; exact ancCount_le _ N p0))
    (not_below_parent ho hQc0) rfl
  obtain ⟨w1, w2, _, _, _, _, w7⟩ := walk_preserves (fun a b : α => a + b) c0 (T.seqLen - x)
    (s1.nodeSamples.size + 1) (some e) (some p0) s1
  rw [hins]
  have hpar2 : parOf (walk (· + ·) c0 (T.seqLen - x) (s1.nodeSamples.size + 1) (some e) (some p0) s1)
      = parOf s1 := by
    funext c; simp only [parOf, w2]
  refine ⟨by rw [w7]; exact h.szNS, by rw [w2]; show (aset _ _ _).size = N; rw [size_aset]; exact h.szNP,
    by rw [w1, w2]; exact hnp1, ?_, by rw [herr]; exact h.err⟩
  intro u hu
  rw [hns u, hpar2, hQ]
  have hho : Older time (link (parOf s) c0 p0) := hQ ▸ ho
  rw [cntBelow_link time (parOf s) c0 p0 _ N u hPc0 hho]
  have hiff : Below (link (parOf s) c0 p0) u p0 ↔ Below (parOf s) u p0 :=
    below_link_outside hPc0 (not_below_link_root time _ c0 p0 hPc0 hho)
  show (if Below (link (parOf s) c0 p0) u p0 then aget s.nodeSamples u + aget s.nodeSamples c0
    else aget s.nodeSamples u) = _
  rw [h.ns u hu, h.ns c0 hc0N]
  by_cases hb : Below (parOf s) u p0
  · simp only [hiff, hb, if_true]; push_cast; ring
  · simp only [hiff, hb, if_false]; push_cast; ring

open Classical in
/-- **Removing an edge keeps `nodes_samples` exact** (size-biased variant). -/
theorem removeEdge_sb (T : Tables α) (hV : Valid T) (hNO : NoOverlap T) (mask : Array Bool) (N : Nat)
    (time : Nat → α) (hT : ∀ e, e < T.numEdges → time (T.chi e) < time (T.par e))
    (hC : ∀ e, e < T.numEdges → T.chi e < N) (hP : ∀ e, e < T.numEdges → T.par e < N)
    {x : α} {insD insR remD : List Nat} {e : Nat} {remR : List Nat}
    (F : RemFacts T x insD insR remD e remR) (s : St α)
    (hszNE : s.nodeEdge.size = N) (hne : NE T N insD remD s.nodeEdge) (h : SBInv T mask N s) :
    SBInv T mask N (removeEdge T true x s e) := by
  have heE : e < T.numEdges := hV.mem_rem.mp (by rw [F.hrem]; simp)
  have hc0N := hC e heE
  have hp0N := hP e heE
  set c0 := T.chi e with hc0
  set p0 := T.par e with hp0
  set s1 : St α := { s with nodeEdge := aset s.nodeEdge c0 none,
                            nodeParent := aset s.nodeParent c0 none } with hs1
  have hrem : removeEdge T true x s e =
      walk (· - ·) c0 (T.seqLen - x) (s1.nodeSamples.size + 1) (some e) (some p0) s1 := by
    unfold removeEdge; simp only [if_true]; rfl
  have hI : ∀ e' ∈ insD, e' < T.numEdges := fun e' he' =>
    hV.mem_ins.mp (by rw [F.hins]; exact List.mem_append_left _ he')
  obtain ⟨hoP, hPN⟩ := older_of T N time hT hP insD remD hI s hszNE hne h.np
  have hPc0 : parOf s c0 = some p0 := by
    show aget s.nodeParent c0 = some p0
    rw [h.np c0, show aget s.nodeEdge c0 = some e from ne_remove_cur T hV N hC F s.nodeEdge hne]
    rfl
  have hQ' : parOf s1 = fun c => if c = c0 then none else parOf s c :=
    parOf_aset s c0 none s.nodeParent (by rw [h.szNP]; exact hc0N) s1 rfl
  have hQc0 : parOf s1 c0 = none := by rw [hQ']; simp
  have hlink : parOf s = link (parOf s1) c0 p0 := by
    funext c
    simp only [link, hQ']
    split_ifs with hc
    · rw [hc]; exact hPc0
    · rfl
  have hoL : Older time (link (parOf s1) c0 p0) := hlink ▸ hoP
  have ho1 : Older time (parOf s1) := by
    intro c p hcp
    rw [hQ'] at hcp
    by_cases hc : c = c0
    · simp [hc] at hcp
    · simp only [hc, if_false] at hcp; exact hoP c p hcp
  have hQN1 : ∀ c p, parOf s1 c = some p → p < N := by
    intro c p hcp
    rw [hQ'] at hcp
    by_cases hc : c = c0
    · simp [hc] at hcp
    · simp only [hc, if_false] at hcp; exact hPN c p hcp
  have hnp1 : ∀ c, aget s1.nodeParent c = (aget s1.nodeEdge c).map T.par := by
    intro c
    show aget (aset s.nodeParent c0 none) c = (aget (aset s.nodeEdge c0 none) c).map T.par
    rw [aget_aset _ _ _ _ (by rw [h.szNP]; exact hc0N), aget_aset _ _ _ _ (by rw [hszNE]; exact hc0N)]
    split_ifs
    · rfl
    · exact h.np c
  have hnb : ¬ Below (parOf s1) c0 p0 := not_below_link_root time _ c0 p0 hQc0 hoL
  obtain ⟨herr, hns⟩ := walk_samples (· - ·) c0 (T.seqLen - x) N time T (parOf s1) ho1 hQN1
    (s1.nodeSamples.size + 1) (some e) p0 s1 rfl hnp1 h.szNS hp0N
    (Nat.le_succ_of_le (by rw [show s1.nodeSamples.size = N from h.szNS]; exact ancCount_le _ N p0))
    hnb rfl
  obtain ⟨w1, w2, _, _, _, _, w7⟩ := walk_preserves (fun a b : α => a - b) c0 (T.seqLen - x)
    (s1.nodeSamples.size + 1) (some e) (some p0) s1
  rw [hrem]
  have hpar2 : parOf (walk (· - ·) c0 (T.seqLen - x) (s1.nodeSamples.size + 1) (some e) (some p0) s1)
      = parOf s1 := by
    funext c; simp only [parOf, w2]
  refine ⟨by rw [w7]; exact h.szNS, by rw [w2]; show (aset _ _ _).size = N; rw [size_aset]; exact h.szNP,
    by rw [w1, w2]; exact hnp1, ?_, by rw [herr]; exact h.err⟩
  intro u hu
  rw [hns u, hpar2]
  show (if Below (parOf s1) u p0 then aget s.nodeSamples u - aget s.nodeSamples c0
    else aget s.nodeSamples u) = _
  have e1 := cntBelow_link time (parOf s1) c0 p0 (fun v => aget mask v) N u hQc0 hoL
  have e2 := cntBelow_link_self time (parOf s1) c0 p0 (fun v => aget mask v) N hQc0 hoL
  rw [← hlink] at e1 e2
  rw [h.ns u hu, h.ns c0 hc0N, e1, e2]
  by_cases hb : Below (parOf s1) u p0
  · simp only [hb, if_true]; push_cast; ring
  · simp only [hb, if_false]; push_cast; ring

/-! ### the forest in the state is the local tree -/

/-- The first edge found with child `c` covering `pos` is *the* edge above `c` at `pos`. -/
theorem findEdge_iff (T : Tables α) (hNO : NoOverlap T) (c : Nat) (pos : α) (e : Nat) :
    ((List.range T.numEdges).find? fun e => T.chi e == c && activeAt T pos e) = some e ↔
      (e < T.numEdges ∧ T.chi e = c ∧ T.l e ≤ pos ∧ pos < T.r e) := by
  have hp : ∀ e', (T.chi e' == c && activeAt T pos e') = true ↔
      (T.chi e' = c ∧ T.l e' ≤ pos ∧ pos < T.r e') := by
    intro e'; simp [activeAt]
  rw [List.find?_eq_some_iff_append]
  constructor
  · rintro ⟨hpe, as, bs, hsplit, _⟩
    have : e ∈ List.range T.numEdges := by rw [hsplit]; simp
    exact ⟨List.mem_range.mp this, ((hp e).mp hpe).1, ((hp e).mp hpe).2.1, ((hp e).mp hpe).2.2⟩
  · rintro ⟨heE, h1, h2, h3⟩
    refine ⟨(hp e).mpr ⟨h1, h2, h3⟩, ?_⟩
    obtain ⟨as, bs, hsplit⟩ := List.append_of_mem (List.mem_range.mpr heE)
    refine ⟨as, bs, hsplit, ?_⟩
    intro a ha
    have hnd : (as ++ e :: bs).Nodup := hsplit ▸ List.nodup_range
    have hae : a ≠ e := fun h => (List.nodup_append.mp hnd).2.2 a ha e (List.mem_cons_self ..) h
    have haE : a < T.numEdges := List.mem_range.mp (by rw [hsplit]; exact List.mem_append_left _ ha)
    simp only [Bool.not_eq_true']
    by_contra hcon
    have hpa : (T.chi a == c && activeAt T pos a) = true := by simpa using hcon
    obtain ⟨g1, g2, g3⟩ := (hp a).mp hpa
    rcases hNO a e haE heE hae (by rw [g1, h1]) with h | h
    · exact absurd (lt_of_lt_of_le g3 (le_trans h h2)) (lt_irrefl _)
    · exact absurd (lt_of_lt_of_le h3 (le_trans h g2)) (lt_irrefl _)

/-- Between `left` and `right` the parent pointers of the state are the parents in the local tree. -/
theorem parentAt_eq_parOf (T : Tables α) (hV : Valid T) (hNO : NoOverlap T) (N : Nat)
    (hC : ∀ e, e < T.numEdges → T.chi e < N)
    {x x' : α} {insD insR remD remR : List Nat} (F : AdvFacts T x x' insD insR remD remR)
    (s : St α) (hszNE : s.nodeEdge.size = N) (hne : NE T N insD remD s.nodeEdge)
    (hnp : ∀ c, aget s.nodeParent c = (aget s.nodeEdge c).map T.par)
    (pos : α) (h1 : x ≤ pos) (h2 : pos < x') : parentAt T pos = parOf s := by
  funext c
  simp only [parentAt, parOf, hnp c]
  congr 1
  apply Option.ext
  intro e
  rw [findEdge_iff T hNO c pos e]
  by_cases hc : c < N
  · rw [hne c hc e]
    constructor
    · rintro ⟨heE, h3, h4, h5⟩
      have := (F.active_iff hV pos h1 h2 e heE).mpr ⟨h4, h5⟩
      exact ⟨this.1, this.2, h3⟩
    · rintro ⟨h3, h4, h5⟩
      have heE : e < T.numEdges := hV.mem_ins.mp (by rw [F.hins]; exact List.mem_append_left _ h3)
      have := (F.active_iff hV pos h1 h2 e heE).mp ⟨h3, h4⟩
      exact ⟨heE, h5, this.1, this.2⟩
  · have hnone : aget s.nodeEdge c = none := by
      simp [aget, hszNE, Nat.le_of_not_lt hc]
      rfl
    rw [hnone]
    constructor
    · rintro ⟨heE, h3, _⟩
      exact absurd (h3 ▸ hC e heE) hc
    · intro h; exact absurd h (by simp)

open Classical in
/-- The executable count of the specification is the count over the descendant relation. -/
theorem samplesBelow_eq (T : Tables α) (mask : Array Bool) (time : Nat → α) (pos : α)
    (ho : Older time (parentAt T pos)) (hQN : ∀ c p, parentAt T pos c = some p → p < mask.size)
    (u : Nat) :
    samplesBelow T mask pos u = cntBelow (parentAt T pos) (fun v => aget mask v) mask.size u := by
  unfold samplesBelow cntBelow
  apply List.countP_congr
  intro v hv
  have := reaches_iff time (parentAt T pos) ho mask.size hQN u v (List.mem_range.mp hv)
  by_cases hm : aget mask v = true
  · simp only [hm, Bool.true_and, decide_eq_true_eq]
    exact this
  · simp [hm]

end

end Tsdate.CountMut
